import GoLucene.Model.JsonCodec
import GoLucene.Model.Shape
/-
  C13 (first clause) and the shape invariant for the JSON decoder.

  * `unmarshalTop_no_panic` — decoding ANY byte sequence returns a value or an error, never a panic;
  * `unmarshalTop_wf`       — every expression the decoder returns satisfies `wfTree`.

  Nothing in namespace `GoLucene.Json` (the JSON text layer) and nothing of Model/Num.lean is unfolded: the proofs
  only case-split on the results of those functions, so they hold for every implementation of the text layer.
-/
namespace GoLucene

open Json

/-! ### 1. no panic: literals -/

theorem unmarshalLiteral_no_panic (raw : Bytes) : unmarshalLiteral raw ≠ .panic := by
  unfold unmarshalLiteral
  split
  · simp
  · split
    · simp
    · split <;> simp

theorem unmarshalLiterals_no_panic : ∀ raws : List Bytes, unmarshalLiterals raws ≠ .panic
  | [] => by simp [unmarshalLiterals]
  | r :: rs => by
    have h1 := unmarshalLiteral_no_panic r
    have h2 := unmarshalLiterals_no_panic rs
    unfold unmarshalLiterals
    cases hl : unmarshalLiteral r with
    | panic => exact absurd hl h1
    | err => simp
    | ok e =>
      cases hr : unmarshalLiterals rs with
      | panic => exact absurd hr h2
      | err => simp
      | ok es => simp

/-! ### 2. literals are leafy -/

theorem lit_nil_leafy : leafy (lit .nil) = true := by
  simp [lit, mkLeaf, leafy, Op.isLeafOp, leafKindOK, Node.isNil]

/-- a raw value other than a Column -/
def Prim.notCol : Prim → Bool
  | .col _ => false
  | _ => true

theorem lit_prim_leafy (p : Prim) (hp : p.notCol = true) : leafy (lit (.prim p)) = true := by
  cases p <;> simp [lit, mkLeaf, leafy, Op.isLeafOp, leafKindOK, Node.isNil, Prim.notCol] at hp ⊢

theorem literalToExpr_nil_leafy : leafy (literalToExpr .nil) = true := by
  simp [literalToExpr, lit_nil_leafy]

theorem literalToExpr_str_leafy (s : Bytes) : leafy (literalToExpr (.prim (.str s))) = true := by
  simp only [literalToExpr]
  split
  · simp [mkLeaf, leafy, Op.isLeafOp, leafKindOK, Node.isNil]
  · split
    · simp [mkLeaf, leafy, Op.isLeafOp, leafKindOK, Node.isNil]
    · exact lit_prim_leafy (.str s) rfl

theorem literalToExpr_prim_leafy (p : Prim) (hp : p.notCol = true) : leafy (literalToExpr (.prim p)) = true := by
  cases p
  case str s => exact literalToExpr_str_leafy s
  case col s => simp [Prim.notCol] at hp
  all_goals (simp only [literalToExpr]; exact lit_prim_leafy _ rfl)

/-- a node that is nil or a raw value other than a Column (never an expression, a list or a boundary) -/
def Node.isRaw : Node → Bool
  | .nil => true
  | .prim p => p.notCol
  | _ => false

/-- `literalToExpr` of anything that is not an expression (nor a list / boundary) is a leafy expression -/
theorem literalToExpr_leafy : ∀ n : Node, n.isRaw = true → leafy (literalToExpr n) = true
  | .nil, _ => literalToExpr_nil_leafy
  | .prim p, h => literalToExpr_prim_leafy p (by simpa [Node.isRaw] using h)
  | .expr _, h => by simp [Node.isRaw] at h
  | .list _, h => by simp [Node.isRaw] at h
  | .bound _ _ _, h => by simp [Node.isRaw] at h

theorem unmarshalLiteral_leafy (raw : Bytes) (e : Expr) (h : unmarshalLiteral raw = .ok e) : leafy e = true := by
  unfold unmarshalLiteral at h
  split at h
  · simp at h; subst h; exact lit_prim_leafy _ rfl
  · split at h
    · simp at h; subst h; exact lit_prim_leafy _ rfl
    · split at h
      · simp at h; subst h; exact literalToExpr_str_leafy _
      · simp at h; subst h; exact literalToExpr_str_leafy _
      · simp at h

theorem unmarshalLiterals_leafy : ∀ (raws : List Bytes) (es : ExprList),
    unmarshalLiterals raws = .ok es → es.allLeafy = true
  | [], es, h => by
    simp [unmarshalLiterals] at h; subst h; simp [ExprList.allLeafy]
  | r :: rs, es, h => by
    unfold unmarshalLiterals at h
    cases hl : unmarshalLiteral r with
    | panic => rw [hl] at h; simp at h
    | err => rw [hl] at h; simp at h
    | ok e =>
      rw [hl] at h
      cases hr : unmarshalLiterals rs with
      | panic => rw [hr] at h; simp at h
      | err => rw [hr] at h; simp at h
      | ok es' =>
        rw [hr] at h; simp at h; subst h
        simp [ExprList.allLeafy, unmarshalLiteral_leafy r e hl, unmarshalLiterals_leafy rs es' hr]

/-! ### 3. boundaries hold raw values -/

theorem decodeAny_raw (raw : Bytes) (n : Node) (h : decodeAny raw = some n) : n.isRaw = true := by
  unfold decodeAny at h
  split at h
  · simp at h
  · split at h
    · simp at h; subst h; rfl
    · simp at h; subst h; rfl
    · simp at h; obtain ⟨f, _, rfl⟩ := h
      unfold toIntIfNecessary; simp only []; split <;> rfl
    · simp at h; subst h; rfl
    · simp at h; subst h; rfl
    · simp at h; subst h; rfl
    · simp at h

/-- the invariant of `decodeBoundary`'s fold: the accumulated min and max are raw -/
def boundAccRaw (st : Option (Node × Node × Bool) × Bool) : Prop :=
  ∀ mn mx incl, st.1 = some (mn, mx, incl) → mn.isRaw = true ∧ mx.isRaw = true

theorem foldl_inv {α β : Type} (P : α → Prop) (f : α → β → α) (hf : ∀ a x, P a → P (f a x)) :
    ∀ (l : List β) (a : α), P a → P (l.foldl f a)
  | [], _, h => h
  | x :: xs, a, h => foldl_inv P f hf xs (f a x) (hf a x h)

theorem decodeBoundary_raw (raw : Bytes) (mn mx : Node) (incl : Bool)
    (h : decodeBoundary raw = some (mn, mx, incl)) : mn.isRaw = true ∧ mx.isRaw = true := by
  unfold decodeBoundary at h
  split at h
  · rename_i members _
    simp only [] at h
    split at h
    · rename_i r hfold
      simp at h; subst h
      have key : boundAccRaw (some (mn, mx, incl), false) := by
        rw [← hfold]
        apply foldl_inv boundAccRaw
        · intro st kv hst
          obtain ⟨acc, e⟩ := st
          cases acc with
          | none => intro a b c hh; simp at hh
          | some t =>
            obtain ⟨a0, b0, c0⟩ := t
            have h0 := hst a0 b0 c0 rfl
            simp only []
            split
            · split
              · rename_i v hv
                intro a b c hh; simp at hh; obtain ⟨rfl, rfl, rfl⟩ := hh
                exact ⟨decodeAny_raw _ _ hv, h0.2⟩
              · intro a b c hh; simp at hh; obtain ⟨rfl, rfl, rfl⟩ := hh; exact h0
            · split
              · rename_i v hv
                intro a b c hh; simp at hh; obtain ⟨rfl, rfl, rfl⟩ := hh
                exact ⟨h0.1, decodeAny_raw _ _ hv⟩
              · intro a b c hh; simp at hh; obtain ⟨rfl, rfl, rfl⟩ := hh; exact h0
            · split <;>
                (intro a b c hh; simp at hh; obtain ⟨rfl, rfl, _⟩ := hh; exact h0)
            · intro a b c hh; simp at hh; obtain ⟨rfl, rfl, rfl⟩ := hh; exact h0
        · intro a b c hh; simp at hh; obtain ⟨rfl, rfl, _⟩ := hh; exact ⟨rfl, rfl⟩
      exact key mn mx incl rfl
    · simp at h
  · simp at h; obtain ⟨rfl, rfl, _⟩ := h; exact ⟨rfl, rfl⟩
  · simp at h

/-- item 3: the boundary values the decoder hands to `literalToExpr` are nil or raw values, never expressions,
    so both bounds become leafy expressions -/
theorem decodeBoundary_leafy (raw : Bytes) (mn mx : Node) (incl : Bool)
    (h : decodeBoundary raw = some (mn, mx, incl)) :
    (mn = .nil ∨ ∃ p, mn = .prim p) ∧ (mx = .nil ∨ ∃ p, mx = .prim p) ∧
    leafy (literalToExpr mn) = true ∧ leafy (literalToExpr mx) = true := by
  obtain ⟨h1, h2⟩ := decodeBoundary_raw raw mn mx incl h
  refine ⟨?_, ?_, literalToExpr_leafy mn h1, literalToExpr_leafy mx h2⟩
  · cases mn <;> simp [Node.isRaw] at h1 ⊢
  · cases mx <;> simp [Node.isRaw] at h2 ⊢

/-! ### the recursion equation of `unmarshalVal`, with the two operand computations named -/

/-- the left operand as computed by `unmarshalVal (fuel+1)` from the decoded fields -/
def leftOf (fuel : Nat) (c : JFields) : Out Node :=
  if isArray c.left then
    (match parse1 c.left with
     | some (.arr elems) =>
       (match unmarshalLiterals elems with
        | .ok es => .ok (.list es)
        | .err => .err
        | .panic => .panic)
     | _ => .err)
  else if c.left.isEmpty then .err
  else
    (match unmarshalVal fuel c.left with
     | .ok e => .ok (.expr e)
     | .err => .err
     | .panic => .panic)

/-- the right operand as computed by `unmarshalVal (fuel+1)` from the decoded fields -/
def rightOf (fuel : Nat) (c : JFields) : Out Node :=
  if !c.right.isEmpty && looksLikeRangeBoundary c.right then
    (match decodeBoundary c.right with
     | some (mn, mx, incl) => .ok (.bound (.expr (literalToExpr mn)) (.expr (literalToExpr mx)) incl)
     | none => .err)
  else if !c.right.isEmpty then
    (match unmarshalVal fuel c.right with
     | .ok e => .ok (.expr e)
     | .err => .err
     | .panic => .panic)
  else .ok .nil

/-- what `unmarshalVal (fuel+1)` does with the decoded fields of an object -/
def assemble (fuel : Nat) (c : JFields) : Out Expr :=
  if c.bad then .err
  else
    match leftOf fuel c with
    | .err => .err
    | .panic => .panic
    | .ok left0 =>
      let op := Op.ofStr c.operator
      let left := if isStringlike left0 && operatesOnColumn op then wrapInColumn left0 else left0
      match rightOf fuel c with
      | .err => .err
      | .panic => .panic
      | .ok right =>
        let fuzzy : Int := if op = .fuzzy then c.distance.getD 1 else 1
        let boost : F64 := if op = .boost then c.power.getD F64.one else F64.one
        .ok (.mk left op right boost fuzzy)

theorem unmarshalVal_succ (fuel : Nat) (raw : Bytes) :
    unmarshalVal (fuel + 1) raw =
      if !isJSONObject raw then unmarshalLiteral raw
      else
        match parse1 raw with
        | some (.obj members) => assemble fuel (decodeFields members)
        | _ => .err := by
  rfl

/-! ### 1 (continued). no panic: the recursive decoder -/

theorem leftOf_no_panic (fuel : Nat) (c : JFields) (ih : ∀ raw, unmarshalVal fuel raw ≠ .panic) :
    leftOf fuel c ≠ .panic := by
  unfold leftOf
  split
  · split
    · rename_i elems _
      have := unmarshalLiterals_no_panic elems
      cases h : unmarshalLiterals elems <;> simp_all
    · simp
  · split
    · simp
    · have := ih c.left
      cases h : unmarshalVal fuel c.left <;> simp_all

theorem rightOf_no_panic (fuel : Nat) (c : JFields) (ih : ∀ raw, unmarshalVal fuel raw ≠ .panic) :
    rightOf fuel c ≠ .panic := by
  unfold rightOf
  split
  · split <;> simp
  · split
    · have := ih c.right
      cases h : unmarshalVal fuel c.right <;> simp_all
    · simp

theorem assemble_no_panic (fuel : Nat) (c : JFields) (ih : ∀ raw, unmarshalVal fuel raw ≠ .panic) :
    assemble fuel c ≠ .panic := by
  unfold assemble
  split
  · simp
  · have hl := leftOf_no_panic fuel c ih
    have hr := rightOf_no_panic fuel c ih
    cases h1 : leftOf fuel c with
    | panic => exact absurd h1 hl
    | err => simp
    | ok l =>
      cases h2 : rightOf fuel c with
      | panic => exact absurd h2 hr
      | err => simp
      | ok r => simp

/-- C13, first clause, at every nesting depth: `Expression.UnmarshalJSON` never panics -/
theorem unmarshalVal_no_panic : ∀ (fuel : Nat) (raw : Bytes), unmarshalVal fuel raw ≠ .panic
  | 0, _ => by simp [unmarshalVal]
  | fuel + 1, raw => by
    rw [unmarshalVal_succ]
    split
    · exact unmarshalLiteral_no_panic raw
    · split
      · exact assemble_no_panic fuel _ (unmarshalVal_no_panic fuel)
      · simp

/-- C13, first clause: `json.Unmarshal(data, &expression)` on ANY byte sequence returns a value or an error -/
theorem unmarshalTop_no_panic (data : Bytes) : unmarshalTop data ≠ .panic := by
  unfold unmarshalTop
  split
  · simp
  · exact unmarshalVal_no_panic _ _

/-! ### 4. everything the decoder builds is well formed -/

theorem leafy_wfTree : ∀ e : Expr, leafy e = true → wfTree e = true
  | .mk l o r p d, h => by
    simp [leafy, Op.isLeafOp] at h
    obtain ⟨⟨ho, hk⟩, hr⟩ := h
    cases r <;> simp [Node.isNil] at hr
    cases l with
    | nil => simp [leafKindOK] at hk; simp [wfTree, wfNode, hk]
    | prim q =>
      cases q <;> simp [leafKindOK] at hk <;> simp [wfTree, wfNode, hk]
    | expr e => simp [leafKindOK] at hk
    | list es => simp [leafKindOK] at hk
    | bound a b c => simp [leafKindOK] at hk

theorem lit_col_wfTree (s : Bytes) : wfTree (lit (.prim (.col s))) = true := by
  simp [lit, mkLeaf, wfTree, wfNode]

/-- the left operand before column re-wrapping: a list of leafy expressions or a well-formed expression -/
theorem leftOf_wf (fuel : Nat) (c : JFields) (ih : ∀ raw e, unmarshalVal fuel raw = .ok e → wfTree e = true)
    (n : Node) (h : leftOf fuel c = .ok n) :
    (∃ es, n = .list es ∧ es.allLeafy = true) ∨ (∃ e, n = .expr e ∧ wfTree e = true) := by
  unfold leftOf at h
  split at h
  · split at h
    · rename_i elems _
      cases hl : unmarshalLiterals elems with
      | ok es =>
        rw [hl] at h; simp at h; subst h
        exact .inl ⟨es, rfl, unmarshalLiterals_leafy elems es hl⟩
      | err => rw [hl] at h; simp at h
      | panic => rw [hl] at h; simp at h
    · simp at h
  · split at h
    · simp at h
    · cases hv : unmarshalVal fuel c.left with
      | ok e =>
        rw [hv] at h; simp at h; subst h
        exact .inr ⟨e, rfl, ih _ e hv⟩
      | err => rw [hv] at h; simp at h
      | panic => rw [hv] at h; simp at h

theorem rightOf_wf (fuel : Nat) (c : JFields) (ih : ∀ raw e, unmarshalVal fuel raw = .ok e → wfTree e = true)
    (n : Node) (h : rightOf fuel c = .ok n) : wfNode n = true := by
  unfold rightOf at h
  split at h
  · split at h
    · rename_i mn mx incl hb
      simp at h; subst h
      obtain ⟨_, _, h1, h2⟩ := decodeBoundary_leafy _ mn mx incl hb
      simp [wfNode, h1, h2]
    · simp at h
  · split at h
    · cases hv : unmarshalVal fuel c.right with
      | ok e =>
        rw [hv] at h; simp at h; subst h
        simp [wfNode, ih _ e hv]
      | err => rw [hv] at h; simp at h
      | panic => rw [hv] at h; simp at h
    · simp at h; subst h; simp [wfNode]

/-- column re-wrapping keeps the left operand a list of leafy expressions or a well-formed expression -/
theorem wrap_wf (n : Node) (op : Op)
    (h : (∃ es, n = .list es ∧ es.allLeafy = true) ∨ (∃ e, n = .expr e ∧ wfTree e = true)) :
    let left := if isStringlike n && operatesOnColumn op then wrapInColumn n else n
    (∃ es, left = .list es ∧ es.allLeafy = true) ∨ (∃ e, left = .expr e ∧ wfTree e = true) := by
  intro left
  show (∃ es, (if isStringlike n && operatesOnColumn op then wrapInColumn n else n) = .list es ∧ _) ∨
       (∃ e, (if isStringlike n && operatesOnColumn op then wrapInColumn n else n) = .expr e ∧ _)
  split
  · rcases h with ⟨es, rfl, hes⟩ | ⟨e, rfl, he⟩
    · simp [isStringlike] at *
    · obtain ⟨l, o, r, p, d⟩ := e
      unfold wrapInColumn
      split
      · rename_i heq; simp at heq
      · exact .inr ⟨_, rfl, lit_col_wfTree _⟩
      · exact .inr ⟨_, rfl, he⟩
  · exact h

theorem mk_wf (left right : Node) (op : Op) (p : F64) (d : Int)
    (hl : (∃ es, left = .list es ∧ es.allLeafy = true) ∨ (∃ e, left = .expr e ∧ wfTree e = true))
    (hr : wfNode right = true) : wfTree (.mk left op right p d) = true := by
  rcases hl with ⟨es, rfl, hes⟩ | ⟨e, rfl, he⟩
  · simp [wfTree, wfNode, hes, hr]
  · simp [wfTree, wfNode, he, hr]

theorem assemble_wf (fuel : Nat) (c : JFields) (ih : ∀ raw e, unmarshalVal fuel raw = .ok e → wfTree e = true)
    (e : Expr) (h : assemble fuel c = .ok e) : wfTree e = true := by
  unfold assemble at h
  split at h
  · simp at h
  · cases h1 : leftOf fuel c with
    | panic => rw [h1] at h; simp at h
    | err => rw [h1] at h; simp at h
    | ok l =>
      rw [h1] at h
      cases h2 : rightOf fuel c with
      | panic => rw [h2] at h; simp at h
      | err => rw [h2] at h; simp at h
      | ok r =>
        rw [h2] at h; simp only [Out.ok.injEq] at h; subst h
        exact mk_wf _ _ _ _ _ (wrap_wf l _ (leftOf_wf fuel c ih l h1)) (rightOf_wf fuel c ih r h2)

/-- item 4: whatever `Expression.UnmarshalJSON` returns satisfies the shared invariant -/
theorem unmarshalVal_wf : ∀ (fuel : Nat) (raw : Bytes) (e : Expr), unmarshalVal fuel raw = .ok e → wfTree e = true
  | 0, _, _, h => by simp [unmarshalVal] at h
  | fuel + 1, raw, e, h => by
    rw [unmarshalVal_succ] at h
    split at h
    · exact leafy_wfTree e (unmarshalLiteral_leafy raw e h)
    · split at h
      · exact assemble_wf fuel _ (unmarshalVal_wf fuel) e h
      · simp at h

theorem unmarshalTop_wf (data : Bytes) (e : Expr) (h : unmarshalTop data = .ok e) : wfTree e = true := by
  unfold unmarshalTop at h
  split at h
  · simp at h
  · exact unmarshalVal_wf _ _ e h

end GoLucene
