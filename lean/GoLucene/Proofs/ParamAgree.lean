import GoLucene.Model.Driver
import GoLucene.Model.SqlEval
import GoLucene.Proofs.NoPanic
/-
  C04 — the two PostgreSQL renderers agree.

  (1) `param_succeeds` (companions `serializeParams_succeeds`, `serializeParamsList_succeeds`): on a well-formed
      (`wfTree`), validated tree, whenever `render pgFns` (ToPostgres) succeeds, `renderParam pgFns`
      (ToParameterizedPostgres) succeeds too.  Every error source of the parameter mode is one of the inline mode:
      `serializeCol` is shared; the table lookup fails for the same operators; `literal` is applied to `?` (valid
      UTF-8, no NUL: `fnLiteral_q`), to `[]`, or to the very same quoted column name (`leaf_col_agree`); the
      boundary text of parameter mode is one of eight texts built from `?` and `'*'`, which always split in two
      (`boundOut_parts`), so `rangParam` cannot fail; `likeParam` cannot fail.  Panics are excluded by NoPanic.
      No extra hypothesis was needed.  The converse fails (`exInlineFails`), and `wfTree` cannot be dropped (`cexLike`).

  (2) `params_are_values`: on a validated tree of parser shape (`semShapeT`) the parameter list is
      `treeValues false (.expr e)`, under two executable exclusion predicates, each necessary:
      * `noQuotedStarBound` — no range end is a QUOTED `*` (`cexQuotedStar`: `a:["*" TO 5]`); exactly
        `starLeft e && !isStarNode (.expr e)` (`quotedStar_eq`);
      * `likePatternsOK` — in every Like node the pattern parameter RenderParam sends (`sentPattern`: translated
        unless the text looks like `/…/`) is the one the property asks for (`duePattern`: translated iff the leaf is
        Wild); violated only by a Wild leaf `/…*…/` or a Regexp leaf without slashes holding `*`/`?`, which the
        parser does not build (`cexWildSlashed`, `cexRegexpBare`; sufficient syntactic condition: `likePatOK_of_kind`).
      A numeric-looking field (`5:[1 TO 2]`) is NOT a divergence: both sides count the raw value (`exNumericField`).
      Corollaries for `lucene.Parse` results: `parse_param_succeeds`, `parse_params_are_values`; for the JSON decoder:
      `unmarshal_param_succeeds`.
-/
set_option linter.unusedSimpArgs false

namespace GoLucene.ParamAgree
open GoLucene.NoPanic

/-! ## (1) ToParameterizedPostgres succeeds whenever ToPostgres does -/

theorem validUtf8_q : validUtf8 (b "?") = true := by decide +kernel
theorem validUtf8_nil : validUtf8 [] = true := by decide +kernel
theorem nonul_q : (b "?").any (· == 0) = false := by decide

theorem fnLiteral_q (r : Bytes) : fnLiteral (b "?") r = .ok (b "?") := by
  simp [fnLiteral, validUtf8_q, nonul_q]
theorem fnLiteral_nil (r : Bytes) : fnLiteral [] r = .ok [] := by
  simp [fnLiteral, validUtf8_nil]

/-- what a successful `Render` of one node says about its parts -/
theorem render_ok_inv (l : Node) (o : Op) (r : Node) (p : F64) (d : Int) (t : Bytes)
    (h : render pgFns (.mk l o r p d) = .ok t) :
    ∃ sl sr fn, serialize pgFns l = .ok sl ∧ serialize pgFns r = .ok sr ∧ pgFns o = some fn ∧
      fn (if (parenOps o && !isSimple l) = true then parenB sl else sl)
         (if (parenOps o && !isSimple r) = true then parenB sr else sr) = .ok t := by
  rw [render] at h
  cases h1 : serialize pgFns l with
  | err => simp [h1] at h
  | panic => simp [h1] at h
  | ok sl =>
    cases h2 : serialize pgFns r with
    | err => simp [h1, h2] at h
    | panic => simp [h1, h2] at h
    | ok sr =>
      simp only [h1, h2] at h
      cases h3 : pgFns o with
      | none => simp [h3] at h
      | some fn =>
        simp only [h3] at h
        exact ⟨sl, sr, fn, rfl, rfl, rfl, h⟩

/-- a node whose operator is neither Like nor Range and whose table entry cannot fail -/
theorem renderParam_total (l : Node) (o : Op) (r : Node) (p : F64) (d : Int) (ho1 : o ≠ .like) (ho2 : o ≠ .range)
    (fn : RenderFn) (hfn : pgFns o = some fn) (htot : ∀ x y, ∃ s, fn x y = .ok s)
    (sl : Bytes) (pl : List Prim) (sr : Bytes) (pr : List Prim)
    (hl : serializeParams pgFns l = .ok (sl, pl)) (hr : serializeParams pgFns r = .ok (sr, pr)) :
    ∃ t, renderParam pgFns (.mk l o r p d) = .ok (t, pl ++ pr) := by
  rw [renderParam, hl, hr]
  simp only [ho1, ho2, if_false, hfn]
  obtain ⟨s, hs⟩ := htot (if (parenOps o && !isSimple l) = true then parenB sl else sl)
    (if (parenOps o && !isSimple r) = true then parenB sr else sr)
  rw [hs]
  exact ⟨s, rfl⟩

/-- RenderParam on a leaf over a raw value that is not a Column: one placeholder, one parameter -/
theorem renderParam_leaf_ok (q : Prim) (o : Op) (p : F64) (d : Int) (hq : ∀ s, q ≠ .col s)
    (ho : o.isLeafOp = true) (hk : o = .literal ∨ ∃ s, q = .str s) :
    renderParam pgFns (.mk (.prim q) o .nil p d) = .ok (b "?", [q]) := by
  rcases renderParam_leaf_val q o p d hq ho hk with h | h
  · exfalso
    have hpl : (parenOps o && !isSimple (.prim q)) = false := by
      rcases hk with rfl | ⟨s, rfl⟩
      · rfl
      · simp [isSimple]
    have hpr : (parenOps o && !isSimple .nil) = false := by simp [isSimple]
    rw [renderParam, sp_prim_val _ q hq, sp_nil] at h
    simp only [leafOp_ne_like o ho, leafOp_ne_range o ho, if_false, pgFns_leaf o ho, hpl, hpr, Bool.false_eq_true,
      fnLiteral_q] at h
    cases h
  · exact h

/-- RenderParam on the leaf over nil -/
theorem renderParam_nil_leaf (p : F64) (d : Int) :
    renderParam pgFns (.mk .nil .literal .nil p d) = .ok ([], []) := by
  rw [renderParam, sp_nil]
  simp [pgFns, sharedFns, parenOps, fnLiteral_nil]

/-- a `leafy` expression always renders in parameter mode -/
theorem renderParam_leafy_ok : ∀ e : Expr, leafy e = true →
    renderParam pgFns e = .ok ([], []) ∨ ∃ q, renderParam pgFns e = .ok (b "?", [q])
  | .mk l o r p d, h => by
    obtain ⟨ho, hr, hl⟩ := leafy_parts l o r p d h
    subst hr
    simp only [leafy, Bool.and_eq_true] at h
    rcases hl with rfl | ⟨q, rfl⟩
    · have : o = .literal := by simpa [leafKindOK] using h.1.2
      subst this
      exact .inl (renderParam_nil_leaf p d)
    · refine .inr ⟨q, renderParam_leaf_ok q o p d ?_ ho ?_⟩
      · intro s hs; subst hs; simp [leafKindOK] at h
      · cases q <;> simp_all [leafKindOK]

theorem serializeParamsList_ok : ∀ es : ExprList, es.allLeafy = true →
    ∃ ss ps, serializeParamsList pgFns es = .ok (ss, ps)
  | .nil, _ => ⟨[], [], spl_nil _⟩
  | .cons e t, h => by
    simp only [ExprList.allLeafy, Bool.and_eq_true] at h
    obtain ⟨ss, ps, h2⟩ := serializeParamsList_ok t h.2
    rw [spl_cons]
    rcases renderParam_leafy_ok e h.1 with h1 | ⟨q, h1⟩ <;> rw [h1, h2] <;> exact ⟨_, _, rfl⟩

theorem endOut_leafy_ok (a : Expr) (h : leafy a = true) : ∃ s ps, endOut pgFns (.expr a) = .ok (s, ps) := by
  simp only [endOut]
  split
  · exact ⟨_, _, rfl⟩
  · rcases renderParam_leafy_ok a h with h1 | ⟨q, h1⟩ <;> exact ⟨_, _, h1⟩

theorem boundOut_ok (incl : Bool) (x y : Out (Bytes × List Prim))
    (hx : ∃ s ps, x = .ok (s, ps)) (hy : ∃ s ps, y = .ok (s, ps)) : ∃ s ps, boundOut incl x y = .ok (s, ps) := by
  obtain ⟨s1, p1, rfl⟩ := hx
  obtain ⟨s2, p2, rfl⟩ := hy
  cases incl <;> exact ⟨_, _, rfl⟩

theorem ok_of_ne {α : Type} (x : Out α) (h1 : x ≠ .err) (h2 : x ≠ .panic) : ∃ a, x = .ok a := by
  cases x with
  | ok a => exact ⟨a, rfl⟩
  | err => exact absurd rfl h1
  | panic => exact absurd rfl h2

/-- the boundary text of parameter mode always splits in two -/
theorem boundOut_parts (incl : Bool) (x y : Out (Bytes × List Prim))
    (hx : x = .ok (starQ, []) ∨ ∃ q, x = .ok (b "?", [q]))
    (hy : y = .ok (starQ, []) ∨ ∃ q, y = .ok (b "?", [q])) :
    ∃ t ps, boundOut incl x y = .ok (t, ps) ∧ rangeParts t ≠ .err := by
  rcases hx with rfl | ⟨q1, rfl⟩ <;> rcases hy with rfl | ⟨q2, rfl⟩ <;> cases incl <;>
    exact ⟨_, _, rfl, by decide⟩

theorem rangParam_ne_err (left right : Bytes) (params : List Prim) (h : rangeParts right ≠ .err) :
    rangParam left right params ≠ .err := by
  unfold rangParam
  cases hrp : rangeParts right with
  | err => exact absurd hrp h
  | panic => simp
  | ok v =>
    obtain ⟨inclusive, rawMin, rawMax⟩ := v
    simp only []
    split
    · cases params with
      | nil => simp
      | cons q _ => cases q <;> simp
    · simp

theorem renderParam_range_ne_err (l r : Node) (p : F64) (d : Int) (sl t : Bytes) (pl ps : List Prim)
    (hl : serializeParams pgFns l = .ok (sl, pl)) (hr : serializeParams pgFns r = .ok (t, ps))
    (ht : rangeParts t ≠ .err) :
    renderParam pgFns (.mk l .range r p d) ≠ .err := by
  rw [renderParam, hl, hr]
  simp only [parenOps_range, Bool.false_and, Bool.false_eq_true, if_false, reduceCtorEq, if_true]
  have := rangParam_ne_err sl t ps ht
  cases h3 : rangParam sl t ps <;> simp_all

theorem likeParam_ne_err (left right : Bytes) (ps : List Prim) : likeParam left right ps ≠ .err := by
  unfold likeParam
  split
  · split
    · split <;> simp
    · simp
  · simp

theorem renderParam_like_ne_err (l r : Node) (p : F64) (d : Int) (sl sr : Bytes) (pl pr : List Prim)
    (hl : serializeParams pgFns l = .ok (sl, pl)) (hr : serializeParams pgFns r = .ok (sr, pr)) :
    renderParam pgFns (.mk l .like r p d) ≠ .err := by
  rw [renderParam, hl, hr]
  simp only [if_true]
  split
  · rename_i heq
    split at heq
    · split at heq <;> cases heq
    · cases heq
  · simp
  · rename_i rparams heq
    have := likeParam_ne_err (if (parenOps .like && !isSimple l) = true then parenB sl else sl)
      (if (parenOps .like && !isSimple r) = true then parenB sr else sr) rparams
    cases h3 : likeParam (if (parenOps .like && !isSimple l) = true then parenB sl else sl)
      (if (parenOps .like && !isSimple r) = true then parenB sr else sr) rparams <;> simp_all

/-- every entry of the PostgreSQL table other than `literal` and `rang` cannot fail -/
theorem pgFn_total (o : Op) (fn : RenderFn) (h : pgFns o = some fn) (ho : o ≠ .range) (hleaf : o.isLeafOp = false)
    (x y : Bytes) : ∃ s, fn x y = .ok s := by
  cases o <;> simp [pgFns, sharedFns, Op.isLeafOp] at h ho hleaf <;> subst h <;>
    first
    | exact ⟨_, rfl⟩
    | (unfold fnLike; split <;> exact ⟨_, rfl⟩)

/-- a validated leaf-operator node is a leaf over a raw value -/
theorem leafop_parts (l : Node) (o : Op) (r : Node) (p : F64) (d : Int) (ho : o.isLeafOp = true)
    (hop : validateOp (.mk l o r p d) = some true) : r = .nil ∧ ∃ q, l = .prim q := by
  have : (!l.isNil && r.isNil && l.isLiteral) = true := by
    cases o <;> simp [Op.isLeafOp] at ho <;> simpa [validateOp, Expr.op, Expr.left, Expr.right] using hop
  simp only [Bool.and_eq_true] at this
  refine ⟨?_, ?_⟩
  · cases r <;> simp [Node.isNil] at this ⊢
  · cases l <;> simp [Node.isLiteral] at this ⊢

/-- a leaf over a Column: both renderers apply `literal` to the same quoted name -/
theorem leaf_col_agree (v : Bytes) (o : Op) (p : F64) (d : Int) (ho : o.isLeafOp = true) (t : Bytes)
    (h : render pgFns (.mk (.prim (.col v)) o .nil p d) = .ok t) :
    renderParam pgFns (.mk (.prim (.col v)) o .nil p d) = .ok (t, []) := by
  rw [render] at h
  rw [renderParam, sp_col, sp_nil]
  simp only [serialize] at h
  cases hc : serializeCol v with
  | err => simp [hc] at h
  | panic => simp [hc] at h
  | ok s =>
    simp only [hc, pgFns_leaf o ho] at h
    simp only [leafOp_ne_like o ho, leafOp_ne_range o ho, if_false, pgFns_leaf o ho, List.append_nil]
    rw [h]

mutual
/-- (1), nodes: whenever `serialize` succeeds, `serializeParams` succeeds -/
theorem serializeParams_succeeds : ∀ n : Node, wfNode n = true → validateNode n = true →
    ∀ s, serialize pgFns n = .ok s → ∃ s' ps, serializeParams pgFns n = .ok (s', ps)
  | .nil, _, _, _, _ => ⟨_, _, sp_nil _⟩
  | .prim q, _, _, s, h => by
    cases q
    case col v =>
      rw [sp_col]
      simp only [serialize] at h
      rw [h]
      exact ⟨_, _, rfl⟩
    all_goals exact ⟨_, _, rfl⟩
  | .expr e, hw, hv, s, h => by
    rw [sp_expr]
    rw [serialize] at h
    exact param_succeeds e (by simpa [wfNode] using hw) (by simpa [validateNode] using hv) s h
  | .list es, hw, _, _, _ => by
    obtain ⟨ss, ps, h⟩ := serializeParamsList_ok es (by simpa [wfNode] using hw)
    rw [sp_list, h]
    exact ⟨_, _, rfl⟩
  | .bound mn mx incl, hw, _, _, _ => by
    simp only [wfNode, Bool.and_eq_true] at hw
    cases mn with
    | expr a =>
      cases mx with
      | expr c =>
        simp only at hw
        rw [sp_bound']
        exact boundOut_ok _ _ _ (endOut_leafy_ok a hw.1) (endOut_leafy_ok c hw.2)
      | _ => simp at hw
    | _ => simp at hw
/-- (1): whenever ToPostgres (`render`) succeeds on a well-formed validated tree, ToParameterizedPostgres
    (`renderParam`) succeeds too -/
theorem param_succeeds : ∀ e : Expr, wfTree e = true → validateExpr e = true →
    ∀ t, render pgFns e = .ok t → ∃ t' ps, renderParam pgFns e = .ok (t', ps)
  | .mk l o r p d, hw, hv, t, hr => by
    have hnp := renderParam_pg_no_panic _ hw hv
    obtain ⟨hop, hvl, hvr⟩ := validate_top l o r p d hv
    simp only [wfTree, Bool.and_eq_true] at hw
    by_cases hleaf : o.isLeafOp = true
    · -- Literal / Wild / Regexp
      obtain ⟨rfl, q, rfl⟩ := leafop_parts l o r p d hleaf hop
      cases q
      case col v => exact ⟨_, _, leaf_col_agree v o p d hleaf t hr⟩
      all_goals
        refine ⟨_, _, renderParam_leaf_ok _ o p d (by intro s h; cases h) hleaf ?_⟩
        cases o <;> simp [Op.isLeafOp] at hleaf <;> simp_all
    · obtain ⟨sl, sr, fn, h1, h2, h3, h4⟩ := render_ok_inv l o r p d t hr
      obtain ⟨sl', pl, h1'⟩ := serializeParams_succeeds l hw.1.2 hvl sl h1
      obtain ⟨sr', pr, h2'⟩ := serializeParams_succeeds r hw.2 hvr sr h2
      by_cases ho1 : o = .like
      · subst ho1
        obtain ⟨⟨t', ps⟩, h⟩ := ok_of_ne _ (renderParam_like_ne_err l r p d sl' sr' pl pr h1' h2') hnp
        exact ⟨t', ps, h⟩
      · by_cases ho2 : o = .range
        · subst ho2
          refine (fun ⟨⟨t', ps⟩, h⟩ => ⟨t', ps, h⟩) (ok_of_ne _ ?_ hnp)
          cases r <;> simp [validateOp, Expr.op, Expr.left, Expr.right] at hop
          rename_i mn mx incl
          obtain ⟨_, ⟨⟨_, _⟩, hmn⟩, hmx⟩ := hop
          have hwr := hw.2
          simp only [wfNode, Bool.and_eq_true] at hwr
          cases mn with
          | expr a =>
            cases mx with
            | expr c =>
              simp only at hwr
              have end_ok : ∀ x : Expr, leafy x = true → isLiteralExpr (.expr x) = true →
                  endOut pgFns (.expr x) = .ok (starQ, []) ∨ ∃ q, endOut pgFns (.expr x) = .ok (b "?", [q]) := by
                intro x hx hxv
                obtain ⟨s, ps, hok⟩ := endOut_leafy_ok x hx
                rcases endOut_val x hx hxv with h | h | h
                · rw [hok] at h; cases h
                · exact .inl h
                · exact .inr h
              obtain ⟨bt, bps, hb, hparts⟩ := boundOut_parts incl _ _ (end_ok a hwr.1 hmn) (end_ok c hwr.2 hmx)
              rw [← sp_bound'] at hb
              exact renderParam_range_ne_err l _ p d sl' bt pl bps h1' hb hparts
            | _ => simp at hwr
          | _ => simp at hwr
        · obtain ⟨t', h⟩ := renderParam_total l o r p d ho1 ho2 fn h3
            (pgFn_total o fn h3 ho2 (by simpa using hleaf)) sl' pl sr' pr h1' h2'
          exact ⟨t', _, h⟩
end

/-- (1), lists: on the lists of a well-formed tree the parameter mode always succeeds -/
theorem serializeParamsList_succeeds (es : ExprList) (hw : es.allLeafy = true) (ss : List Bytes)
    (_ : serializeList pgFns es = .ok ss) : ∃ ss' ps, serializeParamsList pgFns es = .ok (ss', ps) :=
  serializeParamsList_ok es hw


/-! ## (2) the parameters are the query's values -/

/-! ### unfolding equations of `treeValues` -/

theorem tv_nil (u : Bool) : treeValues u .nil = [] := by simp [treeValues]
theorem tv_col (u : Bool) (c : Bytes) : treeValues u (.prim (.col c)) = [] := by simp [treeValues]
theorem tv_prim (u : Bool) (q : Prim) (hq : ∀ s, q ≠ .col s) : treeValues u (.prim q) = [q] := by
  cases q <;> simp [treeValues] at hq ⊢
theorem tv_expr (l : Node) (o : Op) (r : Node) (p : F64) (d : Int) :
    treeValues false (.expr (.mk l o r p d)) =
    if o = .like then treeValues false l ++ treeValues true r
    else treeValues false l ++ treeValues false r := by
  cases l with
  | prim q => cases q <;> simp [treeValues]
  | _ => simp [treeValues]
theorem tv_wild (s : Bytes) (r : Node) (p : F64) (d : Int) :
    treeValues true (.expr (.mk (.prim (.str s)) .wild r p d)) = [.str (starPattern s)] := by
  simp [treeValues]
theorem tv_regexp (s : Bytes) (p : F64) (d : Int) :
    treeValues true (.expr (.mk (.prim (.str s)) .regexp .nil p d)) = [.str s] := by
  simp [treeValues]
theorem tv_list (u : Bool) (es : ExprList) : treeValues u (.list es) = treeListValues es := by rw [treeValues]
theorem tv_bound (u : Bool) (mn mx : Node) (i : Bool) : treeValues u (.bound mn mx i) =
    (if isStarNode mn then [] else treeValues false mn) ++ (if isStarNode mx then [] else treeValues false mx) := by
  rw [treeValues]
theorem tlv_nil : treeListValues .nil = [] := by rw [treeListValues]
theorem tlv_cons (l : Node) (o : Op) (r : Node) (p : F64) (d : Int) (t : ExprList) :
    treeListValues (.cons (.mk l o r p d) t) = treeValues false l ++ treeValues false r ++ treeListValues t := by
  rw [treeListValues]

/-! ### the exclusion predicates -/

/-- a QUOTED `*` as a range end: a leaf over the string `*` that is not the Wild leaf of the bare `*`.
    `starLeft` (the test `e.Left == "*"` of serializeBoundParams) ignores the operator and drops it from the
    parameters, although it is an ordinary string value. -/
def quotedStar : Node → Bool
  | .expr (.mk (.prim (.str s)) o _ _ _) => s == [42] && o != .wild
  | _ => false

theorem quotedStar_eq (e : Expr) : quotedStar (.expr e) = (starLeft e && !isStarNode (.expr e)) := by
  obtain ⟨l, o, r, p, d⟩ := e
  cases l with
  | prim q =>
    cases q <;> simp [quotedStar, starLeft, Expr.left, isStarNode]
    have : b "*" = [42] := by decide
    rw [this]
    cases o <;> simp [isStarNode]
  | _ => simp [quotedStar, starLeft, Expr.left, isStarNode]

mutual
def nqsbNode : Node → Bool
  | .expr e => noQuotedStarBound e
  | .bound mn mx _ => !quotedStar mn && !quotedStar mx
  | _ => true
/-- no range of the tree has a quoted `*` as an end -/
def noQuotedStarBound : Expr → Bool
  | .mk l _ r _ _ => nqsbNode l && nqsbNode r
end

/-- the pattern parameter RenderParam sends for the pattern text `s` of a Like node: translated unless it looks
    like a `/regexp/` -/
def sentPattern (s : Bytes) : Bytes :=
  if s.length < 2 || s.head? != some 47 || s.getLast? != some 47 then starPattern s else s

/-- the pattern parameter the property asks for: a wildcard pattern translated, a regexp as it is -/
def duePattern (o : Op) (s : Bytes) : Bytes := if o = .wild then starPattern s else s

/-- the pattern leaf of a Like node is sent as the property asks -/
def likePatOK : Node → Bool
  | .expr (.mk (.prim (.str s)) o _ _ _) => sentPattern s == duePattern o s
  | _ => true

mutual
def lpNode : Node → Bool
  | .expr e => likePatternsOK e
  | _ => true
/-- in every Like node of the tree the kind of the pattern leaf (Wild / Regexp) agrees with what RenderParam
    infers from the text: no Wild leaf `/…*…/`, no Regexp leaf without the slashes that holds `*` or `?` -/
def likePatternsOK : Expr → Bool
  | .mk l o r _ _ => (if o = .like then likePatOK r else true) && lpNode l && lpNode r
end

/-- the readable sufficient condition: a Wild pattern that does not look like `/…/`, or a Regexp pattern that does -/
theorem likePatOK_of_kind (s : Bytes) (o : Op) (r : Node) (p : F64) (d : Int)
    (h : (decide (o = .wild)) = (s.length < 2 || s.head? != some 47 || s.getLast? != some 47)) :
    likePatOK (.expr (.mk (.prim (.str s)) o r p d)) = true := by
  simp only [likePatOK, sentPattern, duePattern, ← h]
  by_cases ho : o = .wild <;> simp [ho]

/-! ### the parameter list of one node -/

theorem renderParam_params (l : Node) (o : Op) (r : Node) (p : F64) (d : Int) (ho : o ≠ .like) (t : Bytes)
    (ps : List Prim) (h : renderParam pgFns (.mk l o r p d) = .ok (t, ps)) :
    ∃ sl pl sr pr, serializeParams pgFns l = .ok (sl, pl) ∧ serializeParams pgFns r = .ok (sr, pr) ∧
      ps = pl ++ pr := by
  rw [renderParam] at h
  cases h1 : serializeParams pgFns l with
  | err => simp [h1] at h
  | panic => simp [h1] at h
  | ok v =>
    obtain ⟨sl, pl⟩ := v
    cases h2 : serializeParams pgFns r with
    | err => simp [h1, h2] at h
    | panic => simp [h1, h2] at h
    | ok w =>
      obtain ⟨sr, pr⟩ := w
      refine ⟨sl, pl, sr, pr, rfl, rfl, ?_⟩
      simp only [h1, h2, ho, if_false] at h
      split at h
      · split at h <;> simp at h
        exact h.2.symm
      · split at h
        · simp at h
        · split at h <;> simp at h
          exact h.2.symm

theorem renderParam_params_like (l r : Node) (p : F64) (d : Int) (t : Bytes) (ps : List Prim)
    (h : renderParam pgFns (.mk l .like r p d) = .ok (t, ps)) (sr s : Bytes)
    (hr : serializeParams pgFns r = .ok (sr, [.str s])) :
    ∃ sl pl, serializeParams pgFns l = .ok (sl, pl) ∧ ps = pl ++ [.str (sentPattern s)] := by
  rw [renderParam] at h
  cases h1 : serializeParams pgFns l with
  | err => simp [h1] at h
  | panic => simp [h1] at h
  | ok v =>
    obtain ⟨sl, pl⟩ := v
    refine ⟨sl, pl, rfl, ?_⟩
    simp only [h1, hr, if_true] at h
    unfold sentPattern
    split at h
    · simp at h
    · simp at h
    · rename_i rparams heq
      split at h <;> simp at h
      rw [← h.2]
      split at heq <;> rename_i hc <;> simp [hc] <;> simp at heq <;> exact heq.symm

/-! ### leaves, lists, range ends -/

theorem termLeaf_parts (e : Expr) (h : termLeaf e = true) :
    ∃ q o p d, e = .mk (.prim q) o .nil p d ∧ (∀ s, q ≠ .col s) ∧ o.isLeafOp = true ∧
      (o = .literal ∨ ∃ s, q = .str s) := by
  obtain ⟨l, o, r, p, d⟩ := e
  cases l with
  | prim q =>
    cases r <;> simp [termLeaf] at h
    refine ⟨q, o, p, d, rfl, ?_, ?_, ?_⟩
    · intro s hs; subst hs; simp at h
    · cases q <;> simp_all [Op.isLeafOp]
    · cases q <;> simp_all
  | _ => simp [termLeaf] at h

/-- a term: one placeholder whose parameter is the raw value, which is also the term's only value -/
theorem termLeaf_params (e : Expr) (h : termLeaf e = true) :
    ∃ q, renderParam pgFns e = .ok (b "?", [q]) ∧ treeValues false (.expr e) = [q] := by
  obtain ⟨q, o, p, d, rfl, hq, ho, hk⟩ := termLeaf_parts e h
  refine ⟨q, renderParam_leaf_ok q o p d hq ho hk, ?_⟩
  rw [tv_expr, tv_prim _ q hq]
  simp [leafOp_ne_like o ho, tv_nil]

theorem list_params : ∀ es : ExprList, allTermLit es = true →
    ∀ ss ps, serializeParamsList pgFns es = .ok (ss, ps) → ps = treeListValues es
  | .nil, _, ss, ps, h => by
    rw [spl_nil] at h
    simp at h
    rw [tlv_nil]; exact h.2
  | .cons e t, hl, ss, ps, h => by
    simp only [allTermLit, Bool.and_eq_true] at hl
    obtain ⟨q, o, p, d, rfl, hq, ho, hk⟩ := termLeaf_parts e hl.1.1
    rw [spl_cons, renderParam_leaf_ok q o p d hq ho hk] at h
    cases h2 : serializeParamsList pgFns t with
    | err => simp [h2] at h
    | panic => simp [h2] at h
    | ok w =>
      obtain ⟨ss', pt⟩ := w
      simp [h2] at h
      rw [tlv_cons, tv_prim _ q hq, tv_nil, ← list_params t hl.2 ss' pt h2, ← h.2]
      simp

theorem isStarNode_starLeft (a : Expr) (h : isStarNode (.expr a) = true) : starLeft a = true := by
  have := quotedStar_eq a
  obtain ⟨l, o, r, p, d⟩ := a
  cases l with
  | prim q =>
    cases q <;> simp [isStarNode] at h
    cases o <;> simp [isStarNode] at h
    subst h
    simp [starLeft, Expr.left]
    decide
  | _ => simp [isStarNode] at h

/-- one end of a range: nothing for the unbounded end, else the end's value -/
theorem endOut_values (a : Expr) (h : termLeaf a = true) (hq : quotedStar (.expr a) = false) (s : Bytes)
    (ps : List Prim) (he : endOut pgFns (.expr a) = .ok (s, ps)) :
    ps = if isStarNode (.expr a) then [] else treeValues false (.expr a) := by
  rw [quotedStar_eq] at hq
  simp only [endOut] at he
  cases hs : starLeft a with
  | true =>
    have : isStarNode (.expr a) = true := by simpa [hs] using hq
    simp [hs] at he
    simp [this, he.2.symm]
  | false =>
    have : isStarNode (.expr a) = false := by
      cases h' : isStarNode (.expr a) with
      | false => rfl
      | true => rw [isStarNode_starLeft a h'] at hs; cases hs
    obtain ⟨q, h1, h2⟩ := termLeaf_params a h
    simp [hs, h1] at he
    simp [this, h2, he.2.symm]

theorem boundOut_params (incl : Bool) (x y : Out (Bytes × List Prim)) (t : Bytes) (ps : List Prim)
    (h : boundOut incl x y = .ok (t, ps)) :
    ∃ s1 p1 s2 p2, x = .ok (s1, p1) ∧ y = .ok (s2, p2) ∧ ps = p1 ++ p2 := by
  unfold boundOut at h
  cases x with
  | err => simp at h
  | panic => simp at h
  | ok v =>
    obtain ⟨s1, p1⟩ := v
    cases y with
    | err => simp at h
    | panic => simp at h
    | ok w =>
      obtain ⟨s2, p2⟩ := w
      cases incl <;> simp at h <;> exact ⟨s1, p1, s2, p2, rfl, rfl, h.2.symm⟩

theorem leafop_of_isLiteralExpr (x : Expr) (hx : isLiteralExpr (.expr x) = true) : x.op.isLeafOp = true := by
  obtain ⟨xl, xo, xr, xp, xd⟩ := x
  cases xo <;> simp [isLiteralExpr] at hx <;> rfl

/-! ### operand positions -/

/-- what (2) says about one operand position -/
def NodeOK (n : Node) : Prop := ∀ t ps, serializeParams pgFns n = .ok (t, ps) → ps = treeValues false n

theorem nil_ok : NodeOK .nil := by
  intro t ps h
  rw [sp_nil] at h
  simp at h
  rw [tv_nil]; exact h.2

/-- a node that is not a Like node: its parameters are those of the left side followed by those of the right side -/
theorem binary_params (l : Node) (o : Op) (r : Node) (p : F64) (d : Int) (ho : o ≠ .like)
    (hl : NodeOK l) (hr : NodeOK r) (t : Bytes) (ps : List Prim)
    (h : renderParam pgFns (.mk l o r p d) = .ok (t, ps)) : ps = treeValues false (.expr (.mk l o r p d)) := by
  obtain ⟨sl, pl, sr, pr, h1, h2, rfl⟩ := renderParam_params l o r p d ho t ps h
  rw [tv_expr]
  simp only [ho, if_false]
  rw [hl sl pl h1, hr sr pr h2]

theorem colField_ok (n : Node) (h : isColField n = true) : NodeOK n := by
  unfold isColField at h
  split at h
  · rename_i c p d
    intro t ps hs
    rw [sp_expr] at hs
    refine binary_params _ _ _ _ _ (by decide) ?_ nil_ok t ps hs
    intro t' ps' h'
    rw [sp_col] at h'
    rw [tv_col]
    cases hc : serializeCol c <;> simp [hc] at h'
    exact h'.2
  · exact absurd h Bool.false_ne_true

theorem termLeaf_ok (e : Expr) (h : termLeaf e = true) : NodeOK (.expr e) := by
  intro t ps hs
  obtain ⟨q, h1, h2⟩ := termLeaf_params e h
  rw [sp_expr, h1] at hs
  simp at hs
  rw [h2]; exact hs.2.symm

/-- the value list of an In node -/
theorem inlist_ok (es : ExprList) (p : F64) (d : Int) (h : allTermLit es = true) :
    NodeOK (.expr (.mk (.list es) .list .nil p d)) := by
  intro t ps hs
  rw [sp_expr] at hs
  refine binary_params _ _ _ _ _ (by decide) ?_ nil_ok t ps hs
  intro t' ps' h'
  rw [sp_list] at h'
  rw [tv_list]
  cases hc : serializeParamsList pgFns es with
  | err => simp [hc] at h'
  | panic => simp [hc] at h'
  | ok w =>
    obtain ⟨ss, pt⟩ := w
    simp [hc] at h'
    rw [← h'.2]
    exact list_params es h ss pt hc

/-- the boundary of a Range node -/
theorem bound_ok (a c : Expr) (incl : Bool) (ha : termLeaf a = true) (hc : termLeaf c = true)
    (hqa : quotedStar (.expr a) = false) (hqc : quotedStar (.expr c) = false) :
    NodeOK (.bound (.expr a) (.expr c) incl) := by
  intro t ps hs
  rw [sp_bound'] at hs
  obtain ⟨s1, p1, s2, p2, h1, h2, rfl⟩ := boundOut_params incl _ _ t ps hs
  rw [tv_bound, ← endOut_values a ha hqa s1 p1 h1, ← endOut_values c hc hqc s2 p2 h2]

/-- a Like node whose pattern leaf is sent as the property asks -/
theorem like_params (l : Node) (re : Expr) (p : F64) (d : Int) (hl : NodeOK l)
    (hre : termLeaf re = true) (hop : re.op = .wild ∨ re.op = .regexp) (hpat : likePatOK (.expr re) = true)
    (t : Bytes) (ps : List Prim) (h : renderParam pgFns (.mk l .like (.expr re) p d) = .ok (t, ps)) :
    ps = treeValues false (.expr (.mk l .like (.expr re) p d)) := by
  obtain ⟨q, ro, rp, rd, rfl, hq, ho, hk⟩ := termLeaf_parts re hre
  simp only [Expr.op] at hop
  have hs : ∃ s, q = .str s := by
    rcases hk with rfl | h
    · simp at hop
    · exact h
  obtain ⟨s, rfl⟩ := hs
  have hr := renderParam_leaf_ok (.str s) ro rp rd hq ho hk
  obtain ⟨sl, pl, h1, rfl⟩ := renderParam_params_like l _ p d t ps h (b "?") s (by rw [sp_expr]; exact hr)
  rw [tv_expr]
  simp only [if_true]
  rw [hl sl pl h1]
  simp only [likePatOK, beq_iff_eq] at hpat
  rw [hpat]
  rcases hop with rfl | rfl
  · rw [tv_wild]; rfl
  · rw [tv_regexp]; rfl

/-! ### the theorem -/

mutual
/-- (2), operand positions: a sub-expression of parser shape or the wrapped Column of a field position -/
theorem field_params : ∀ n : Node, (semNodeT n || isColField n) = true → validateNode n = true →
    nqsbNode n = true → lpNode n = true → NodeOK n
  | .expr a, hn, hv, h1, h2 => by
    simp only [Bool.or_eq_true] at hn
    rcases hn with hn | hn
    · intro t ps h
      rw [sp_expr] at h
      exact params_are_values a (by simpa [semNodeT] using hn) (by simpa [validateNode] using hv)
        (by simpa [nqsbNode] using h1) (by simpa [lpNode] using h2) t ps h
    · exact colField_ok _ hn
  | .nil, hn, _, _, _ => by simp [semNodeT, isColField] at hn
  | .prim _, hn, _, _, _ => by simp [semNodeT, isColField] at hn
  | .list _, hn, _, _, _ => by simp [semNodeT, isColField] at hn
  | .bound _ _ _, hn, _, _, _ => by simp [semNodeT, isColField] at hn
/-- (2): on a validated tree of parser shape without a quoted `*` range end and without a mislabelled Like
    pattern, the parameters of ToParameterizedPostgres are the query's values, left to right, with their kinds -/
theorem params_are_values : ∀ e : Expr, semShapeT e = true → validateExpr e = true →
    noQuotedStarBound e = true → likePatternsOK e = true →
    ∀ t ps, renderParam pgFns e = .ok (t, ps) → ps = treeValues false (.expr e)
  | .mk l o r p d, hs, hv, hq, hlp, t, ps, h => by
    obtain ⟨hop, hvl, hvr⟩ := validate_top l o r p d hv
    simp only [noQuotedStarBound, Bool.and_eq_true] at hq
    simp only [likePatternsOK, Bool.and_eq_true] at hlp
    obtain ⟨⟨hpat, hlpl⟩, hlpr⟩ := hlp
    have node : ∀ n : Node, semNodeT n = true → (semNodeT n || isColField n) = true := by
      intro n h; simp [h]
    have leafcase : termLeaf (.mk l o r p d) = true → ps = treeValues false (.expr (.mk l o r p d)) := by
      intro hleaf
      exact termLeaf_ok _ hleaf t ps (by rw [sp_expr]; exact h)
    have unary : semNodeT l = true → r.isNil = true → o ≠ .like → ps = treeValues false (.expr (.mk l o r p d)) := by
      intro h1 h2 ho
      cases r <;> simp [Node.isNil] at h2
      exact binary_params _ _ _ _ _ ho (field_params l (node l h1) hvl hq.1 hlpl) nil_ok t ps h
    have binary : (semNodeT l || isColField l) = true → semNodeT r = true → o ≠ .like →
        ps = treeValues false (.expr (.mk l o r p d)) := by
      intro h1 h2 ho
      exact binary_params _ _ _ _ _ ho (field_params l h1 hvl hq.1 hlpl) (field_params r (node r h2) hvr hq.2 hlpr) t ps h
    cases o with
    | undefined => simp [semShapeT] at hs
    | list => simp [semShapeT] at hs
    | literal => simp only [semShapeT] at hs; exact leafcase hs
    | wild => simp only [semShapeT] at hs; exact leafcase hs
    | regexp => simp only [semShapeT] at hs; exact leafcase hs
    | and => simp only [semShapeT, Bool.and_eq_true] at hs; exact binary (node l hs.1) hs.2 (by decide)
    | or => simp only [semShapeT, Bool.and_eq_true] at hs; exact binary (node l hs.1) hs.2 (by decide)
    | equals => simp only [semShapeT, Bool.and_eq_true] at hs; exact binary hs.1 hs.2 (by decide)
    | greater => simp only [semShapeT, Bool.and_eq_true] at hs; exact binary hs.1 hs.2 (by decide)
    | less => simp only [semShapeT, Bool.and_eq_true] at hs; exact binary hs.1 hs.2 (by decide)
    | greaterEq => simp only [semShapeT, Bool.and_eq_true] at hs; exact binary hs.1 hs.2 (by decide)
    | lessEq => simp only [semShapeT, Bool.and_eq_true] at hs; exact binary hs.1 hs.2 (by decide)
    | not => simp only [semShapeT, Bool.and_eq_true] at hs; exact unary hs.1 hs.2 (by decide)
    | must => simp only [semShapeT, Bool.and_eq_true] at hs; exact unary hs.1 hs.2 (by decide)
    | mustNot => simp only [semShapeT, Bool.and_eq_true] at hs; exact unary hs.1 hs.2 (by decide)
    | fuzzy => simp only [semShapeT, Bool.and_eq_true] at hs; exact unary hs.1 hs.2 (by decide)
    | boost => simp only [semShapeT, Bool.and_eq_true] at hs; exact unary hs.1 hs.2 (by decide)
    | like =>
      simp only [semShapeT, Bool.and_eq_true] at hs
      obtain ⟨hs1, hs2⟩ := hs
      split at hs2
      · rename_i re
        simp only [Bool.and_eq_true, Bool.or_eq_true, decide_eq_true_eq] at hs2
        exact like_params l re p d (field_params l hs1 hvl hq.1 hlpl) hs2.1 hs2.2 (by simpa using hpat) t ps h
      · exact absurd hs2 Bool.false_ne_true
    | in_ =>
      simp only [semShapeT, Bool.and_eq_true] at hs
      obtain ⟨hs1, hs2⟩ := hs
      split at hs2
      · rename_i es _ _
        simp only [Bool.and_eq_true] at hs2
        exact binary_params _ _ _ _ _ (by decide) (field_params l hs1 hvl hq.1 hlpl) (inlist_ok es _ _ hs2.1) t ps h
      · exact absurd hs2 Bool.false_ne_true
    | range =>
      unfold semShapeT at hs
      simp only [Bool.and_eq_true] at hs
      obtain ⟨hs1, hs2⟩ := hs
      split at hs2
      · rename_i a c incl
        simp only [Bool.and_eq_true] at hs2
        simp only [validateOp, Expr.op, Expr.left, Expr.right, Option.some.injEq, Bool.and_eq_true] at hop
        obtain ⟨_, ⟨_, hmn⟩, hmx⟩ := hop
        have ha := termLeaf_of_shapeT_leafop a hs2.1 (leafop_of_isLiteralExpr a hmn)
        have hc := termLeaf_of_shapeT_leafop c hs2.2 (leafop_of_isLiteralExpr c hmx)
        have hqr := hq.2
        simp only [nqsbNode, Bool.and_eq_true, Bool.not_eq_true'] at hqr
        exact binary_params _ _ _ _ _ (by decide) (field_params l hs1 hvl hq.1 hlpl)
          (bound_ok a c incl ha hc hqr.1 hqr.2) t ps h
      · exact absurd hs2 Bool.false_ne_true
end

/-! ### parser results, decoder results -/

theorem parse_shapeT (env : Env) (s df : Bytes) (e : Expr) (h : parseQuery env s df = .ok e) :
    semShapeT e = true ∧ validateExpr e = true := by
  unfold parseQuery parseTokens at h
  split at h
  · cases h
  · rename_i ex _
    exact finalize_shapeT env df ex e h

/-- C04, first half, for `lucene.Parse` results -/
theorem parse_param_succeeds (env : Env) (s df : Bytes) (e : Expr) (h : parseQuery env s df = .ok e)
    (t : Bytes) (hr : render pgFns e = .ok t) : ∃ t' ps, renderParam pgFns e = .ok (t', ps) := by
  obtain ⟨hw, hv⟩ := parse_wf env s df e h
  exact param_succeeds e hw hv t hr

/-- C04, first half, for validated results of the JSON decoder -/
theorem unmarshal_param_succeeds (data : Bytes) (e : Expr) (h : unmarshalTop data = .ok e)
    (hv : validateExpr e = true) (t : Bytes) (hr : render pgFns e = .ok t) :
    ∃ t' ps, renderParam pgFns e = .ok (t', ps) :=
  param_succeeds e (unmarshalTop_wf data e h) hv t hr

/-- C04, the parameter list, for `lucene.Parse` results -/
theorem parse_params_are_values (env : Env) (s df : Bytes) (e : Expr) (h : parseQuery env s df = .ok e)
    (hq : noQuotedStarBound e = true) (hl : likePatternsOK e = true)
    (t : Bytes) (ps : List Prim) (hr : renderParam pgFns e = .ok (t, ps)) : ps = treeValues false (.expr e) := by
  obtain ⟨hs, hv⟩ := parse_shapeT env s df e h
  exact params_are_values e hs hv hq hl t ps hr

/-! ### the hypotheses are necessary; examples -/

def col (s : String) : Node := .expr (lit (.prim (.col (b s))))
def strLeaf (s : String) : Expr := lit (.prim (.str (b s)))
def intLeaf (i : Int) : Expr := lit (.prim (.int i))
def wildLeaf (s : String) : Expr := mkLeaf (.prim (.str (b s))) .wild
def regexpLeaf (s : String) : Expr := mkLeaf (.prim (.str (b s))) .regexp
def node (l : Node) (o : Op) (r : Node) : Expr := .mk l o r F64.one 1

/-- (a) `a:["*" TO 5]` — the quoted `*` is a string value but is dropped from the parameters -/
def cexQuotedStar : Expr := node (col "a") .range (.bound (.expr (strLeaf "*")) (.expr (intLeaf 5)) true)

example : semShapeT cexQuotedStar = true ∧ validateExpr cexQuotedStar = true ∧ likePatternsOK cexQuotedStar = true ∧
    noQuotedStarBound cexQuotedStar = false ∧
    renderParam pgFns cexQuotedStar = .ok (b "\"a\" <= ?", [.int 5]) ∧
    treeValues false (.expr cexQuotedStar) = [.str (b "*"), .int 5] := by decide +kernel

/-- the bare `a:[* TO 5]` is fine: the Wild leaf `*` is the unbounded end for both -/
example : noQuotedStarBound (node (col "a") .range (.bound (.expr (wildLeaf "*")) (.expr (intLeaf 5)) true)) = true := by
  decide +kernel

/-- (c) a Wild pattern leaf that looks like a regexp (the parser makes such a token a Regexp leaf): sent untranslated -/
def cexWildSlashed : Expr := node (col "a") .like (.expr (wildLeaf "/x*/"))

example : semShapeT cexWildSlashed = true ∧ validateExpr cexWildSlashed = true ∧
    noQuotedStarBound cexWildSlashed = true ∧ likePatternsOK cexWildSlashed = false ∧
    renderParam pgFns cexWildSlashed = .ok (b "\"a\" ~ ?", [.str (b "/x*/")]) ∧
    treeValues false (.expr cexWildSlashed) = [.str (b "/x%/")] := by decide +kernel

/-- (c) a Regexp pattern leaf without the slashes that holds `*`: sent translated -/
def cexRegexpBare : Expr := node (col "a") .like (.expr (regexpLeaf "x*"))

example : semShapeT cexRegexpBare = true ∧ validateExpr cexRegexpBare = true ∧
    noQuotedStarBound cexRegexpBare = true ∧ likePatternsOK cexRegexpBare = false ∧
    renderParam pgFns cexRegexpBare = .ok (b "\"a\" SIMILAR TO ?", [.str (b "x%")]) ∧
    treeValues false (.expr cexRegexpBare) = [.str (b "x*")] := by decide +kernel

/-- (b) `5:[1 TO 2]` — a numeric-looking field is a raw value in field position; `treeValues` counts it too, so
    this is NOT a divergence of the parameter list (all hypotheses hold) -/
def exNumericField : Expr := node (.expr (intLeaf 5)) .range (.bound (.expr (intLeaf 1)) (.expr (intLeaf 2)) true)

example : semShapeT exNumericField = true ∧ validateExpr exNumericField = true ∧
    noQuotedStarBound exNumericField = true ∧ likePatternsOK exNumericField = true ∧
    renderParam pgFns exNumericField = .ok (b "? >= ? AND ? <= ?", [.int 5, .int 1, .int 2]) ∧
    treeValues false (.expr exNumericField) = [.int 5, .int 1, .int 2] := by decide +kernel

/-- `a:b* AND c:/x*y/ AND d:[1 TO *] AND NOT e:(1 OR 2 OR "z")` -/
def exBig : Expr :=
  node (.expr (node (.expr (node
      (.expr (node (col "a") .like (.expr (wildLeaf "b*")))) .and
      (.expr (node (col "c") .like (.expr (regexpLeaf "/x*y/")))))) .and
      (.expr (node (col "d") .range (.bound (.expr (intLeaf 1)) (.expr (wildLeaf "*")) true))))) .and
    (.expr (node (.expr (node (col "e") .in_
      (.expr (mkList (.cons (intLeaf 1) (.cons (intLeaf 2) (.cons (strLeaf "z") .nil))))))) .not .nil))

theorem exBig_hyps : semShapeT exBig = true ∧ validateExpr exBig = true ∧
    noQuotedStarBound exBig = true ∧ likePatternsOK exBig = true := by decide +kernel

theorem exBig_params : renderParam pgFns exBig =
    .ok (b "(((\"a\" SIMILAR TO ?) AND (\"c\" ~ ?)) AND (\"d\" >= ?)) AND (NOT(\"e\" IN (?, ?, ?)))",
      [.str (b "b%"), .str (b "/x*y/"), .int 1, .int 1, .int 2, .str (b "z")]) := by decide +kernel

/-- the theorem applied to a non-trivial tree -/
example : treeValues false (.expr exBig) = [.str (b "b%"), .str (b "/x*y/"), .int 1, .int 1, .int 2, .str (b "z")] :=
  (params_are_values exBig exBig_hyps.1 exBig_hyps.2.1 exBig_hyps.2.2.1 exBig_hyps.2.2.2 _ _ exBig_params).symm

/-- the converse of (1) fails: `a:["1,2" TO 3]` renders in parameter mode, but the inline boundary text
    `['1,2', 3]` splits into three pieces -/
def exInlineFails : Expr := node (col "a") .range (.bound (.expr (strLeaf "1,2")) (.expr (intLeaf 3)) true)

example : wfTree exInlineFails = true ∧ validateExpr exInlineFails = true ∧ render pgFns exInlineFails = .err ∧
    renderParam pgFns exInlineFails = .ok (b "\"a\" BETWEEN ? AND ?", [.str (b "1,2"), .int 3]) := by decide +kernel

/-- `wfTree` cannot be dropped from (1): a validated tree that renders inline and panics in parameter mode -/
example : validateExpr cexLike = true ∧ wfTree cexLike = false ∧
    render pgFns cexLike = .ok (b "\"a\" SIMILAR TO 1") ∧ renderParam pgFns cexLike = .panic := by decide +kernel

end GoLucene.ParamAgree

#print axioms GoLucene.ParamAgree.param_succeeds
#print axioms GoLucene.ParamAgree.serializeParams_succeeds
#print axioms GoLucene.ParamAgree.serializeParamsList_succeeds
#print axioms GoLucene.ParamAgree.params_are_values
#print axioms GoLucene.ParamAgree.parse_param_succeeds
#print axioms GoLucene.ParamAgree.parse_params_are_values
