import GoLucene.Proofs.SqlWide1
import GoLucene.Proofs.SqlWideG2
/-
  SqlWide, part 2: the renderer's text on the wide fragment.  `toCstW e` is the concrete syntax tree of the text;
  `good_expr_wide`: on `confinedFilter` / `textWide` trees  `render pgFns e = .ok (qText c)`  with
  `toCstW e = some c`  and  `RK false false c`  (the rendered shape of SqlWideG1: that of SqlText1 plus bare atoms
  as expressions and as operands of AND / OR / NOT).
-/
set_option linter.unusedSimpArgs false
set_option linter.unusedVariables false

namespace GoLucene.SqlWide
open GoLucene Sql SqlMeaning SqlText

/-- an operand of AND / OR as the renderer writes it: parentheses unless the operand `isSimple` -/
def wrapOpd (n : Node) (c : Cst) : Cst := if isSimple n then c else .paren c

mutual
def toCstWNode : Node → Option Cst
  | .expr e => toCstW e
  | .prim q => (atomAst q).map emb
  | _ => none
/-- the concrete syntax tree of the text `render pgFns e` on the wide fragment -/
def toCstW : Expr → Option Cst
  | .mk l o r p d =>
    match o with
    | .and =>
      (match toCstWNode l, toCstWNode r with
       | some a, some c => some (.and (wrapOpd l a) (wrapOpd r c))
       | _, _ => none)
    | .or =>
      (match toCstWNode l, toCstWNode r with
       | some a, some c => some (.or (wrapOpd l a) (wrapOpd r c))
       | _, _ => none)
    | .not | .mustNot => (toCstWNode l).map (fun x => .not (.paren x))
    | .must => toCstWNode l
    | .literal | .wild | .regexp | .equals | .greater | .less | .greaterEq | .lessEq | .like | .in_ | .range =>
      (toAstW (.mk l o r p d)).map emb
    | _ => none
end

theorem wrapOpd_toAst (n : Node) (c : Cst) : (wrapOpd n c).toAst = c.toAst := by
  unfold wrapOpd; split <;> simp [Cst.toAst]

mutual
theorem toCstWNode_toAstW : ∀ n : Node, toAstWNode n = (toCstWNode n).map Cst.toAst
  | .expr e => by simp only [toAstWNode, toCstWNode]; exact toCstW_toAstW e
  | .nil => rfl
  | .prim q => by
    simp only [toAstWNode, toCstWNode]
    cases atomAst q <;> simp [emb_toAst]
  | .list _ => rfl
  | .bound _ _ _ => rfl
/-- forgetting the parentheses gives `toAstW` -/
theorem toCstW_toAstW : ∀ e : Expr, toAstW e = (toCstW e).map Cst.toAst
  | .mk l o r p d => by
    cases o
    case and =>
      simp only [toAstW, toCstW, toCstWNode_toAstW l, toCstWNode_toAstW r]
      cases toCstWNode l <;> cases toCstWNode r <;> simp [Cst.toAst, wrapOpd_toAst]
    case or =>
      simp only [toAstW, toCstW, toCstWNode_toAstW l, toCstWNode_toAstW r]
      cases toCstWNode l <;> cases toCstWNode r <;> simp [Cst.toAst, wrapOpd_toAst]
    case not =>
      simp only [toAstW, toCstW, toCstWNode_toAstW l]
      cases toCstWNode l <;> rfl
    case mustNot =>
      simp only [toAstW, toCstW, toCstWNode_toAstW l]
      cases toCstWNode l <;> rfl
    case must =>
      simp only [toAstW, toCstW, toCstWNode_toAstW l]
    all_goals first
      | (simp only [toCstW]
         cases toAstW _ <;> simp [emb_toAst]; done)
      | rfl
end

/-- what is proved about each predicate of the wide fragment (shape `RE` of SqlText1) -/
def GoodRE (e : Expr) (c : Cst) : Prop := toCstW e = some c ∧ RE c ∧ render pgFns e = .ok (cstText c)

/-- what is proved about each expression of the wide fragment: its concrete syntax tree, that the tree has the
    rendered shape, that the renderer's text is the text of the tree, and that an expression the renderer treats as
    `isSimple` (it gets no parentheses as an operand) is a bare atom -/
def GoodW (e : Expr) (c : Cst) : Prop :=
  toCstW e = some c ∧ RK false false c ∧ render pgFns e = .ok (qText c) ∧
    (isSimple (.expr e) = true → AtomP false c)

theorem GoodRE.toW {e : Expr} {c : Cst} (h : GoodRE e c) (hs : isSimple (.expr e) = false) : GoodW e c :=
  ⟨h.1, RK.of h.2.1, by rw [qText_RE h.2.1]; exact h.2.2, fun h' => by rw [hs] at h'; cases h'⟩

theorem b_tilde : b " ~ " = [32, 126, 32] := by decide

theorem cstText_regex (x p : Cst) : cstText (.regex x p) = cstText x ++ [32, 126, 32] ++ cstText p := by
  rw [cstText]

/-! ## comparisons -/

theorem good_cmpW (l r : Node) (o : Op) (p : F64) (d : Int)
    (ho : o = .equals ∨ o = .greater ∨ o = .less ∨ o = .greaterEq ∨ o = .lessEq)
    (hl : opdOK l = true) (hr : opdOK r = true) (tl : opdTextW l = true) (tr : opdTextW r = true) :
    ∃ c, GoodRE (.mk l o r p d) c := by
  obtain ⟨ql, x, _, hxl, _, hAx, hsl, hx⟩ := opd_good hl tl
  obtain ⟨qr, y, _, hyr, _, hAy, hsr, hy⟩ := opd_good hr tr
  refine ⟨.cmp (cmpOfOp o) (emb x) (emb y), ?_, RE.leaf (Leaf.cmp _ hAx hAy), ?_⟩
  · rcases ho with rfl | rfl | rfl | rfl | rfl <;> simp [toCstW, toAstW, hxl, hyr, emb]
  · rw [cstText_cmp]
    rcases ho with rfl | rfl | rfl | rfl | rfl
    · rw [render_of _ _ _ _ _ _ _ _ hx hy (rfl : pgFns .equals = some (fnInfix " = "))]
      simp only [hsl, hsr, Bool.not_true, Bool.and_false, Bool.false_eq_true, ↓reduceIte, fnInfix_ok, b_eq', cmpOfOp]
    · rw [render_of _ _ _ _ _ _ _ _ hx hy (rfl : pgFns .greater = some (fnInfix " > "))]
      simp only [hsl, hsr, Bool.not_true, Bool.and_false, Bool.false_eq_true, ↓reduceIte, fnInfix_ok, b_gt, cmpOfOp]
    · rw [render_of _ _ _ _ _ _ _ _ hx hy (rfl : pgFns .less = some (fnInfix " < "))]
      simp only [hsl, hsr, Bool.not_true, Bool.and_false, Bool.false_eq_true, ↓reduceIte, fnInfix_ok, b_lt, cmpOfOp]
    · rw [render_of _ _ _ _ _ _ _ _ hx hy (rfl : pgFns .greaterEq = some (fnInfix " >= "))]
      simp only [hsl, hsr, Bool.not_true, Bool.and_false, Bool.false_eq_true, ↓reduceIte, fnInfix_ok, b_ge, cmpOfOp]
    · rw [render_of _ _ _ _ _ _ _ _ hx hy (rfl : pgFns .lessEq = some (fnInfix " <= "))]
      simp only [hsl, hsr, Bool.not_true, Bool.and_false, Bool.false_eq_true, ↓reduceIte, fnInfix_ok, b_le, cmpOfOp]

/-! ## LIKE -/

theorem patOK_inv {r : Node} (h : patOK r = true) : ∃ pat, opdPrim r = some (.str pat) := by
  unfold patOK at h
  split at h
  · exact ⟨_, by assumption⟩
  · cases h

theorem good_likeW (l r : Node) (p : F64) (d : Int)
    (hl : opdOK l = true) (hr : patOK r = true) (tl : opdTextW l = true) (tr : opdTextW r = true) :
    ∃ c, GoodRE (.mk l .like r p d) c := by
  obtain ⟨ql, x, _, hxl, _, hAx, hsl, hx⟩ := opd_good hl tl
  obtain ⟨pat, hpat⟩ := patOK_inv hr
  have htp : primText (.str pat) = true := opdTextW_of hpat tr
  obtain ⟨a, ha, _, hsr, hy⟩ := opd_atom hpat rfl htp
  have ea : a = .str pat := by simpa [atomAst, astOfPrim] using ha.symm
  subst ea
  rw [emb, cstText_str] at hy
  have h0 := primText_noNul htp
  cases hre : regexLooking pat with
  | true =>
    refine ⟨.regex (emb x) (.str pat), ?_, RE.leaf (Leaf.regex hAx (Atom.str _ h0)), ?_⟩
    · simp [toCstW, toAstW, hxl, hpat, hre, emb]
    · rw [render_of _ _ _ _ _ _ _ _ hx hy (rfl : pgFns .like = some fnLike)]
      simp only [hsl, hsr, Bool.not_true, Bool.and_false, Bool.false_eq_true, ↓reduceIte]
      rw [fnLike_regex _ _ hre, b_tilde, cstText_regex, cstText_str]
  | false =>
    have h0' : ∀ c ∈ starPattern pat, c ≠ 0 := starPattern_noNul h0
    refine ⟨.similar (emb x) (.str (starPattern pat)), ?_, RE.leaf (Leaf.similar hAx (Atom.str _ h0')), ?_⟩
    · simp [toCstW, toAstW, hxl, hpat, hre, emb]
    · rw [render_of _ _ _ _ _ _ _ _ hx hy (rfl : pgFns .like = some fnLike)]
      simp only [hsl, hsr, Bool.not_true, Bool.and_false, Bool.false_eq_true, ↓reduceIte]
      rw [fnLike_quoted _ _ hre, starPattern_sqlQuote, b_similar, cstText_similar, cstText_str]

/-! ## IN -/

theorem opdPrim_leaf (q : Prim) (o : Op) (p : F64) (d : Int) (ho : leafOp o = true) :
    opdPrim (.expr (.mk (.prim q) o .nil p d)) = some q := by
  simp [opdPrim, ho]

/-- a non-empty value list: texts joined by `, ` -/
theorem items_goodW : ∀ (e : Expr) (t : ExprList), itemsOKW (.cons e t) = true → itemsTextW (.cons e t) = true →
    ∃ a as s ss, listAstW (.cons e t) = some (.cons a as) ∧ serializeList pgFns (.cons e t) = .ok (s :: ss) ∧
      Atoms (embList (.cons a as)) ∧ joinWith (b ", ") (s :: ss) = listText (embList (.cons a as))
  | e, .nil, hc, ht => by
    unfold itemsOKW at hc
    split at hc
    · rename_i heq; cases heq
    · rename_i q o bz fz t' heq
      cases heq
      simp only [Bool.and_eq_true] at hc
      simp only [itemsTextW, Bool.and_eq_true] at ht
      obtain ⟨a, ha, hAa, _, hser⟩ := opd_atom (opdPrim_leaf q o bz fz hc.1.1) hc.1.2 ht.1
      rw [serialize_expr] at hser
      refine ⟨a, .nil, cstText (emb a), [], ?_, ?_, ?_, ?_⟩
      · simp [listAstW, hc.1.1, ha]
      · simp only [serializeList, hser]
      · exact Atoms.one hAa
      · simp only [joinWith, embList, listText]
    · cases hc
  | e, .cons e' t', hc, ht => by
    unfold itemsOKW at hc
    split at hc
    · rename_i heq; cases heq
    · rename_i q o bz fz t'' heq
      cases heq
      simp only [Bool.and_eq_true] at hc
      simp only [itemsTextW, Bool.and_eq_true] at ht
      obtain ⟨a, ha, hAa, _, hser⟩ := opd_atom (opdPrim_leaf q o bz fz hc.1.1) hc.1.2 ht.1
      rw [serialize_expr] at hser
      obtain ⟨a', as', s', ss', hl', hs', hat', hj'⟩ := items_goodW e' t' hc.2 (by simpa [itemsTextW] using ht.2)
      refine ⟨a, .cons a' as', cstText (emb a), s' :: ss', ?_, ?_, ?_, ?_⟩
      · simp [listAstW, hc.1.1, ha, hl']
      · rw [serializeList, hser, hs']
      · exact Atoms.cons hAa hat'
      · simp only [embList] at hj' ⊢
        rw [joinWith_cons2, hj', listText, b_commaSp]
    · cases hc

theorem listOKW_inv {r : Node} (h : listOKW r = true) :
    ∃ e t p d, r = .expr (.mk (.list (.cons e t)) .list .nil p d) ∧ itemsOKW (.cons e t) = true := by
  unfold listOKW at h
  split at h
  · exact ⟨_, _, _, _, rfl, h⟩
  · cases h

theorem good_inW (l : Node) (e : Expr) (t : ExprList) (p2 : F64) (d2 : Int) (p : F64) (d : Int)
    (hl : opdOK l = true) (hi : itemsOKW (.cons e t) = true) (tl : opdTextW l = true)
    (hti : itemsTextW (.cons e t) = true) :
    ∃ c, GoodRE (.mk l .in_ (.expr (.mk (.list (.cons e t)) .list .nil p2 d2)) p d) c := by
  obtain ⟨ql, x, _, hxl, _, hAx, hsl, hx⟩ := opd_good hl tl
  obtain ⟨a, as, s0, ss, hla, hss, hat, hj⟩ := items_goodW e t hi hti
  have hls : serialize pgFns (.list (.cons e t)) = .ok (joinWith (b ", ") (s0 :: ss)) := by
    simp only [serialize, hss]
  have hy : serialize pgFns (.expr (.mk (.list (.cons e t)) .list .nil p2 d2)) =
      .ok ([40] ++ joinWith (b ", ") (s0 :: ss) ++ [41]) := by
    rw [serialize_expr, render_of _ _ _ _ _ _ _ _ hls serialize_nil (rfl : pgFns .list = some fnList)]
    rfl
  refine ⟨.inList (emb x) (embList (.cons a as)), ?_, RE.leaf (Leaf.inList hAx hat), ?_⟩
  · simp [toCstW, toAstW, hxl, hla, emb]
  · rw [render_of _ _ _ _ _ _ _ _ hx hy (rfl : pgFns .in_ = some (fnInfix " IN "))]
    have hp : parenOps .in_ = false := by decide
    simp only [hp, Bool.false_and, Bool.false_eq_true, ↓reduceIte, fnInfix_ok, b_in, hj, cstText_inList]

/-! ## ranges -/

theorem valOK_inv {n : Node} (h : valOK n = true) : ∃ q, opdPrim n = some q ∧ cleanPrim q = true := by
  unfold valOK at h
  split at h
  · exact ⟨_, by assumption, h⟩
  · cases h

theorem shape_of_clean {q : Prim} (h : cleanPrim q = true) : primShape q = true := by
  cases q <;> simp_all [primShape, cleanPrim]

theorem atomAst_of_clean {q : Prim} (h : cleanPrim q = true) : atomAst q = astOfPrim q := by
  cases q <;> simp_all [atomAst, cleanPrim]

theorem primTextW_of_clean {q : Prim} (h : cleanPrim q = true) : primTextW q = primText q := by
  cases q <;> simp_all [primTextW, cleanPrim]

/-- a bound: its serialized text, and the side conditions from `bndTextW` -/
theorem bnd_goodW {n : Node} (hc : valOK n = true) (ht : bndTextW n = true) :
    ∃ q, opdPrim n = some q ∧ cleanPrim q = true ∧ primText q = true ∧ BoundText (primTextOf q) ∧
      serialize pgFns n = .ok (primTextOf q) := by
  obtain ⟨q, hq, hcl⟩ := valOK_inv hc
  have hpt : primText q = true ∧ ∀ s, q = .str s → s.contains 44 = false := by
    unfold bndTextW at ht
    rw [hq] at ht
    cases q with
    | str s =>
      simp only [Bool.and_eq_true, Bool.not_eq_true'] at ht
      exact ⟨ht.1, fun s' e => by cases e; exact ht.2⟩
    | _ => exact ⟨rfl, fun s' e => by cases e⟩
  obtain ⟨a, ha, _, _, hser⟩ := opd_atom hq (shape_of_clean hcl) (by rw [primTextW_of_clean hcl]; exact hpt.1)
  obtain ⟨a', ha', _, htxt⟩ := value_atom q hcl hpt.1
  rw [atomAst_of_clean hcl, ha'] at ha
  cases ha
  refine ⟨q, hq, hcl, hpt.1, val_boundText q hcl hpt.2, ?_⟩
  rw [hser, htxt]

theorem rangeOKW_inv {r : Node} (h : rangeOKW r = true) :
    ∃ mn mx incl, r = .bound mn mx incl ∧ valOK mn = true ∧ valOK mx = true := by
  unfold rangeOKW at h
  split at h
  · simp only [Bool.and_eq_true] at h; exact ⟨_, _, _, rfl, h.1, h.2⟩
  · cases h

theorem good_rangeW (l mn mx : Node) (incl : Bool) (p : F64) (d : Int)
    (hl : opdOK l = true) (h1 : valOK mn = true) (h2 : valOK mx = true) (tl : opdTextW l = true)
    (t1 : bndTextW mn = true) (t2 : bndTextW mx = true) :
    ∃ c, GoodRE (.mk l .range (.bound mn mx incl) p d) c := by
  obtain ⟨ql, x, _, hxl, _, hAx, hsl, hx⟩ := opd_good hl tl
  obtain ⟨qlo, hqlo, hclo, hplo, hblo, hslo⟩ := bnd_goodW h1 t1
  obtain ⟨qhi, hqhi, hchi, hphi, hbhi, hshi⟩ := bnd_goodW h2 t2
  obtain ⟨a, ha, hre, htxt⟩ := range_good x incl qlo qhi hAx hclo hchi hplo hphi
  have hy : serialize pgFns (.bound mn mx incl) =
      .ok ([if incl then 91 else 40] ++ primTextOf qlo ++ [44, 32] ++ primTextOf qhi ++ [if incl then 93 else 41]) := by
    simp only [serialize, hslo, hshi]
    exact bracket_text incl _ _
  refine ⟨emb a, ?_, hre, ?_⟩
  · simp [toCstW, toAstW, hxl, hqlo, hqhi, ha]
  · rw [render_of _ _ _ _ _ _ _ _ hx hy (rfl : pgFns .range = some fnRang)]
    have hp : parenOps .range = false := by decide
    simp only [hp, Bool.false_and, Bool.false_eq_true, ↓reduceIte]
    unfold fnRang
    rw [rangeParts_exact incl _ _ hblo hbhi]
    simp only [htxt]

/-! ## the whole fragment -/

theorem parenB_wrap (o : Op) (n : Node) (c : Cst) (hp : parenOps o = true) :
    (if parenOps o && !isSimple n then parenB (qText c) else qText c) = qText (wrapOpd n c) := by
  unfold wrapOpd
  cases isSimple n <;> simp [hp, parenB_eq, qText]

theorem wrap_rk {pm : Bool} {n : Node} {c : Cst} (h : RK pm false c) (hs : isSimple n = true → AtomP pm c) :
    RK pm true (wrapOpd n c) := by
  unfold wrapOpd
  cases hn : isSimple n
  · simp only [Bool.false_eq_true, ↓reduceIte]; exact .paren h
  · simp only [↓reduceIte]; exact .atom true (hs hn)

theorem qText_and (l r : Cst) : qText (.and l r) = qText l ++ [32, 65, 78, 68, 32] ++ qText r := by rw [qText]
theorem qText_or (l r : Cst) : qText (.or l r) = qText l ++ [32, 79, 82, 32] ++ qText r := by rw [qText]
theorem qText_not (x : Cst) : qText (.not x) = [78, 79, 84] ++ qText x := by rw [qText]
theorem qText_paren (x : Cst) : qText (.paren x) = [40] ++ qText x ++ [41] := by rw [qText]

theorem notSimple (l : Node) (o : Op) (r : Node) (p : F64) (d : Int)
    (ho : o ≠ .undefined ∧ o ≠ .literal ∧ o ≠ .regexp ∧ o ≠ .wild) : isSimple (.expr (.mk l o r p d)) = false := by
  simp [isSimple, Expr.op, ho.1, ho.2.1, ho.2.2.1, ho.2.2.2]

/-- a bare term: a leaf expression over a confined value -/
theorem good_leafW (q : Prim) (o : Op) (p : F64) (d : Int) (ho : leafOp o = true) (hs : primShape q = true)
    (ht : primTextW q = true) : ∃ c, GoodW (.mk (.prim q) o .nil p d) c := by
  obtain ⟨a, ha, hA, _, hser⟩ := opd_atom (opdPrim_leaf q o p d ho) hs ht
  rw [serialize_expr] at hser
  refine ⟨emb a, ?_, .atom false (.of hA), by rw [qText_atom hA]; exact hser, fun _ => .of hA⟩
  rcases leafOp_cases ho with rfl | rfl | rfl <;> simp [toCstW, toAstW, ha]

mutual
theorem good_node_wide : ∀ n : Node, confinedNode n = true → textWideNode n = true →
    ∃ c, toCstWNode n = some c ∧ RK false false c ∧ serialize pgFns n = .ok (qText c) ∧
      (isSimple n = true → AtomP false c)
  | .expr e, hc, ht => by
    simp only [confinedNode] at hc
    simp only [textWideNode] at ht
    rw [serialize_expr]
    simp only [toCstWNode]
    exact good_expr_wide e hc ht
  | .prim q, hc, ht => by
    simp only [confinedNode] at hc
    simp only [textWideNode] at ht
    obtain ⟨a, ha, hA, _, hser, _⟩ := prim_atom q hc ht
    exact ⟨emb a, by simp [toCstWNode, ha], .atom false (.of hA), by rw [qText_atom hA]; exact hser, fun _ => .of hA⟩
  | .nil, hc, _ => by simp [confinedNode] at hc
  | .list _, hc, _ => by simp [confinedNode] at hc
  | .bound _ _ _, hc, _ => by simp [confinedNode] at hc
/-- RENDERER: on the wide fragment the text is the text of `toCstW e`, which has the rendered shape -/
theorem good_expr_wide : ∀ e : Expr, confinedFilter e = true → textWide e = true → ∃ c, GoodW e c
  | .mk l o r p d, hc, ht => by
    cases o
    case and =>
      simp only [confinedFilter, Bool.and_eq_true] at hc
      simp only [textWide, Bool.and_eq_true] at ht
      obtain ⟨x, hx1, hx2, hx, hxs⟩ := good_node_wide l hc.1 ht.1
      obtain ⟨y, hy1, hy2, hy, hys⟩ := good_node_wide r hc.2 ht.2
      have hp : parenOps .and = true := by decide
      refine ⟨.and (wrapOpd l x) (wrapOpd r y), by simp only [toCstW, hx1, hy1],
        RK.and (wrap_rk hx2 hxs) (wrap_rk hy2 hys), ?_, fun h => ?_⟩
      · rw [render_of _ _ _ _ _ _ _ _ hx hy (rfl : pgFns .and = some (fnInfix " AND "))]
        rw [parenB_wrap _ _ _ hp, parenB_wrap _ _ _ hp, fnInfix_ok, b_and, qText_and]
      · rw [notSimple _ _ _ _ _ (by decide)] at h; cases h
    case or =>
      simp only [confinedFilter, Bool.and_eq_true] at hc
      simp only [textWide, Bool.and_eq_true] at ht
      obtain ⟨x, hx1, hx2, hx, hxs⟩ := good_node_wide l hc.1 ht.1
      obtain ⟨y, hy1, hy2, hy, hys⟩ := good_node_wide r hc.2 ht.2
      have hp : parenOps .or = true := by decide
      refine ⟨.or (wrapOpd l x) (wrapOpd r y), by simp only [toCstW, hx1, hy1],
        RK.or (wrap_rk hx2 hxs) (wrap_rk hy2 hys), ?_, fun h => ?_⟩
      · rw [render_of _ _ _ _ _ _ _ _ hx hy (rfl : pgFns .or = some (fnInfix " OR "))]
        rw [parenB_wrap _ _ _ hp, parenB_wrap _ _ _ hp, fnInfix_ok, b_or, qText_or]
      · rw [notSimple _ _ _ _ _ (by decide)] at h; cases h
    case not =>
      simp only [confinedFilter, Bool.and_eq_true] at hc
      simp only [textWide] at ht
      obtain ⟨x, hx1, hx2, hx, _⟩ := good_node_wide l hc.1 ht
      cases nil_of_isNil hc.2
      refine ⟨.not (.paren x), by simp only [toCstW, hx1, Option.map_some], RK.not hx2, ?_, fun h => ?_⟩
      · rw [render_of _ _ _ _ _ _ _ _ hx serialize_nil (rfl : pgFns .not = some fnWrapNot)]
        have hp : parenOps .not = false := by decide
        simp only [hp, Bool.false_and, Bool.false_eq_true, ↓reduceIte, fnWrapNot, b_notp, b_rp, qText_not,
          qText_paren]
        simp
      · rw [notSimple _ _ _ _ _ (by decide)] at h; cases h
    case mustNot =>
      simp only [confinedFilter, Bool.and_eq_true] at hc
      simp only [textWide] at ht
      obtain ⟨x, hx1, hx2, hx, _⟩ := good_node_wide l hc.1 ht
      cases nil_of_isNil hc.2
      refine ⟨.not (.paren x), by simp only [toCstW, hx1, Option.map_some], RK.not hx2, ?_, fun h => ?_⟩
      · rw [render_of _ _ _ _ _ _ _ _ hx serialize_nil (rfl : pgFns .mustNot = some fnWrapNot)]
        have hp : parenOps .mustNot = false := by decide
        simp only [hp, Bool.false_and, Bool.false_eq_true, ↓reduceIte, fnWrapNot, b_notp, b_rp, qText_not,
          qText_paren]
        simp
      · rw [notSimple _ _ _ _ _ (by decide)] at h; cases h
    case must =>
      simp only [confinedFilter, Bool.and_eq_true] at hc
      simp only [textWide] at ht
      obtain ⟨x, hx1, hx2, hx, _⟩ := good_node_wide l hc.1 ht
      cases nil_of_isNil hc.2
      refine ⟨x, by simp only [toCstW, hx1], hx2, ?_, fun h => ?_⟩
      · rw [render_of _ _ _ _ _ _ _ _ hx serialize_nil (rfl : pgFns .must = some fnNoop)]
        have hp : parenOps .must = false := by decide
        simp only [hp, Bool.false_and, Bool.false_eq_true, ↓reduceIte, fnNoop]
      · rw [notSimple _ _ _ _ _ (by decide)] at h; cases h
    case literal =>
      simp only [confinedFilter, Bool.and_eq_true] at hc
      simp only [textWide] at ht
      cases nil_of_isNil hc.2
      cases l <;> first | (simp at hc; done) | exact good_leafW _ .literal p d rfl hc.1 ht
    case wild =>
      simp only [confinedFilter, Bool.and_eq_true] at hc
      simp only [textWide] at ht
      cases nil_of_isNil hc.2
      cases l <;> first | (simp at hc; done) | exact good_leafW _ .wild p d rfl hc.1 ht
    case regexp =>
      simp only [confinedFilter, Bool.and_eq_true] at hc
      simp only [textWide] at ht
      cases nil_of_isNil hc.2
      cases l <;> first | (simp at hc; done) | exact good_leafW _ .regexp p d rfl hc.1 ht
    case equals =>
      simp only [confinedFilter, Bool.and_eq_true] at hc
      simp only [textWide, Bool.and_eq_true] at ht
      obtain ⟨c, h⟩ := good_cmpW l r .equals p d (.inl rfl) hc.1 hc.2 ht.1 ht.2
      exact ⟨c, h.toW (notSimple _ _ _ _ _ (by decide))⟩
    case greater =>
      simp only [confinedFilter, Bool.and_eq_true] at hc
      simp only [textWide, Bool.and_eq_true] at ht
      obtain ⟨c, h⟩ := good_cmpW l r .greater p d (.inr (.inl rfl)) hc.1 hc.2 ht.1 ht.2
      exact ⟨c, h.toW (notSimple _ _ _ _ _ (by decide))⟩
    case less =>
      simp only [confinedFilter, Bool.and_eq_true] at hc
      simp only [textWide, Bool.and_eq_true] at ht
      obtain ⟨c, h⟩ := good_cmpW l r .less p d (.inr (.inr (.inl rfl))) hc.1 hc.2 ht.1 ht.2
      exact ⟨c, h.toW (notSimple _ _ _ _ _ (by decide))⟩
    case greaterEq =>
      simp only [confinedFilter, Bool.and_eq_true] at hc
      simp only [textWide, Bool.and_eq_true] at ht
      obtain ⟨c, h⟩ := good_cmpW l r .greaterEq p d (.inr (.inr (.inr (.inl rfl)))) hc.1 hc.2 ht.1 ht.2
      exact ⟨c, h.toW (notSimple _ _ _ _ _ (by decide))⟩
    case lessEq =>
      simp only [confinedFilter, Bool.and_eq_true] at hc
      simp only [textWide, Bool.and_eq_true] at ht
      obtain ⟨c, h⟩ := good_cmpW l r .lessEq p d (.inr (.inr (.inr (.inr rfl)))) hc.1 hc.2 ht.1 ht.2
      exact ⟨c, h.toW (notSimple _ _ _ _ _ (by decide))⟩
    case like =>
      simp only [confinedFilter, Bool.and_eq_true] at hc
      simp only [textWide, Bool.and_eq_true] at ht
      obtain ⟨c, h⟩ := good_likeW l r p d hc.1 hc.2 ht.1 ht.2
      exact ⟨c, h.toW (notSimple _ _ _ _ _ (by decide))⟩
    case in_ =>
      simp only [confinedFilter, Bool.and_eq_true] at hc
      simp only [textWide, Bool.and_eq_true] at ht
      obtain ⟨e, t, p2, d2, rfl, hi⟩ := listOKW_inv hc.2
      obtain ⟨c, h⟩ := good_inW l e t p2 d2 p d hc.1 hi ht.1 ht.2
      exact ⟨c, h.toW (notSimple _ _ _ _ _ (by decide))⟩
    case range =>
      simp only [confinedFilter, Bool.and_eq_true] at hc
      simp only [textWide, Bool.and_eq_true] at ht
      obtain ⟨mn, mx, incl, rfl, h1, h2⟩ := rangeOKW_inv hc.2
      simp only [Bool.and_eq_true] at ht
      obtain ⟨c, h⟩ := good_rangeW l mn mx incl p d hc.1 h1 h2 ht.1 ht.2.1 ht.2.2
      exact ⟨c, h.toW (notSimple _ _ _ _ _ (by decide))⟩
    all_goals simp [confinedFilter] at hc
end

end GoLucene.SqlWide

#print axioms GoLucene.SqlWide.good_expr_wide
