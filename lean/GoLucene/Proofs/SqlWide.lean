import GoLucene.Proofs.SqlWide4
import GoLucene.Proofs.SqlWideP2
/-
  C02 (confinement) on the WIDE fragment: summary, non-vacuity, the shapes that are now covered, and the shapes that
  are NOT confined (refutations).

  Files
    SqlWideG1 / SqlWideG2   rendered shapes `RK` (SqlText1's `RE` + placeholders + bare atoms), grammar and scanner:
                            `parseSql_RK`, `rk_stack`
    SqlWide1                `confinedFilter`, `textWide`, `toAstW`, `rendersOfW`; operands; numeric facts; `rang`
    SqlWide2                `good_expr_wide` (the renderer's text is `qText (toCstW e)`)
    SqlWide3                render_parses_wide, render_parses_wide_iff, renders_wide, confined_cols_consts
    SqlWide4                confined_of_clean, textWide_of_clean, toAstW_extends
    SqlWideP / SqlWideP2    the parameterized text (`renderParam`): render_parses_param, param_numbers,
                            param_cols_consts

  What `confinedFilter` adds to `cleanFilter` (each with an example below):
    * string ranges with exclusive brackets, open ends (`BETWEEN '*' AND 'x'`), a quoted `*` bound;
    * float bounds of any finite value (`%.2f` re-formatting; also in OPEN float ranges: `f:[* TO 0.001]` is
      `"f" <= 0.00` — since fix F12 an open float range is a comparison, no longer `BETWEEN '*' AND 2.25`, and the
      two-decimal ones are in `cleanFilter`), floats that
      print as integers (`%d` re-formatting), mixed int / float bounds, mixed-kind bounds (`BETWEEN 1 AND 'b'`),
      ints beyond int64 (read back as floats), `[* TO *]` (rendered `<= 0`);
    * LIKE patterns with `%`, `_`, SIMILAR TO metacharacters; `/…/` patterns (operator `~`);
    * field names of any length; numbers, strings in FIELD position (`5 >= 1 AND 5 <= 2`), columns in value position;
    * wild / regexp leaves in value positions, raw values instead of leaf expressions;
    * bare terms as the whole query and as operands of AND / OR / NOT (`'foo' AND ("a" = 1)`, `NOT('foo')`).

  STILL OUTSIDE, and why
    * Fuzzy / Boost / Undefined nodes: no render function, rendering fails (`render_nofn`): C02 is vacuous.
    * a `,` inside a string range bound: `rang` answers an error (`range_comma_err`): vacuous.
    * non-finite floats (NaN, ±Inf) anywhere in the inline text: printed as bare words — NOT confined
      (`nan_not_confined`, `inf_not_confined`, `inf_range_not_confined`); fine in parameter mode.
    * bool / opaque values: `true` / `false` are keywords outside the conservative scanner model
      (`bool_outside_model`); PostgreSQL itself reads a boolean constant.
    * an empty value list `"a" IN ()`: a syntax error for PostgreSQL (`empty_in_rejected`).
    * a raw (unwrapped) string value with a NUL byte: not checked by `literal`, reaches the text (`raw_nul_rejected`).
    * hand-built trees: an EXPRESSION in field or value position (`("a" = 1) = 'x'`; PostgreSQL would read it, but the
      shape is not in `RK`), a column as LIKE pattern (`"b*"` becomes the column `b%`) or as range bound, a non-string
      LIKE pattern, non-nil right sides of leaf / NOT nodes, nil operands of AND / OR, lists and bounds in the wrong
      place (the renderer may panic or fail there).
    * parameter mode only: a non-column in FIELD position (`numeric_field_param_mismatch`: `? >= ? AND ? <= ?` has
      four placeholders and three parameters — the recorded C04 finding).
    * nesting deeper than 2990 (`depthOK`; `SqlText.need_depth` shows the bound is needed), or use the exact
      `stackOKW` / `render_parses_wide_iff`.
-/
set_option linter.unusedSimpArgs false
set_option linter.unusedVariables false

namespace GoLucene.SqlWide
open GoLucene Sql SqlMeaning SqlText

/-! ## the renderings of a value, spelled out -/

theorem rendersOfW_str (s : Bytes) (h : (s != [42]) = true) : rendersOfW (.str s) = [.str s, .str (starPattern s)] := by
  have hp : parseFloat (sqlQuote s) = none := parseFloat_quote _
  simp [rendersOfW, rendersOf, reInt, reFlt, toIntB_quote s h, hp]

theorem rendersOfW_star : rendersOfW (.str [42]) = [.str [42], .str [37], .num false [48]] := by
  have h1 : toIntB (sqlQuote [42]) = some 0 := by decide +kernel
  have h2 : starPattern [42] = [37] := by decide
  have h3 : intAst 0 = .num false [48] := by
    have : fmtInt 0 = [48] := by decide
    simp [intAst, this]
  have hp : parseFloat (sqlQuote [42]) = none := parseFloat_quote _
  simp [rendersOfW, rendersOf, reInt, reFlt, h1, hp, h2, h3]

theorem mem_rendersOfW_int (i : Int) (k : Ast) (h : k ∈ rendersOfW (.int i)) :
    k = intAst i ∨ ∃ g, parseFloat (fmtInt i) = some g ∧ g.isFinite = true ∧ k = fixedAst g := by
  have e1 : toIntB (fmtInt i) = atoi (fmtInt i) := by
    unfold toIntB; rw [allNum_ne_starQ (fmtInt_numCh i)]; rfl
  simp only [rendersOfW, rendersOf, reInt, reFlt, e1, List.mem_append, List.mem_singleton] at h
  rcases h with (h | h) | h
  · exact .inl h
  · cases ha : atoi (fmtInt i) with
    | none => simp [ha] at h
    | some j =>
      simp only [ha, List.mem_singleton] at h
      rw [atoi_fmtInt_inv i j ha] at h
      exact .inl h
  · cases hp : parseFloat (fmtInt i) with
    | none => simp [hp] at h
    | some g =>
      simp only [hp, List.mem_singleton] at h
      exact .inr ⟨g, rfl, parseFloat_fmtInt_finite i g hp, h⟩

theorem mem_rendersOfW_flt (f : F64) (hf : f.isFinite = true) (k : Ast) (h : k ∈ rendersOfW (.flt f)) :
    k = numTextAst (fmtG f) ∨ k = fixedAst f ∨ ∃ i, atoi (fmtG f) = some i ∧ k = intAst i := by
  have e2 : parseFloat (fmtG f) = some f := FloatRT.parseFloat_fmtG f hf
  simp only [rendersOfW, rendersOf, reInt, reFlt, toIntB_flt, e2, List.mem_append, List.mem_singleton,
    List.mem_cons, List.not_mem_nil, or_false] at h
  rcases h with ((h | h) | h) | h
  · exact .inl h
  · exact .inr (.inl h)
  · cases ha : atoi (fmtG f) with
    | none => simp [ha] at h
    | some j =>
      simp only [ha, List.mem_singleton] at h
      exact .inr (.inr ⟨j, rfl, h⟩)
  · exact .inr (.inl h)

/-! ## a `,` in a serialized range bound: `rang` answers an error -/

theorem rangeParts_comma (o c : UInt8) (smin smax : Bytes) (h : 44 ∈ smin ∨ 44 ∈ smax) :
    rangeParts ([o] ++ smin ++ [44, 32] ++ smax ++ [c]) = .err := by
  have hlen : (splitComma (smin ++ [44, 32] ++ smax)).length ≥ 3 := by
    rw [splitComma_len]
    simp only [List.count_append]
    have e : List.count 44 [44, (32 : UInt8)] = 1 := by decide
    rw [e]
    rcases h with h | h
    · have := List.count_pos_iff.mpr h; omega
    · have := List.count_pos_iff.mpr h; omega
  have hstrip : (([o] ++ smin ++ [44, 32] ++ smax ++ [c]).drop 1).take (([o] ++ smin ++ [44, 32] ++ smax ++ [c]).length - 2)
      = smin ++ [44, 32] ++ smax := by
    have e : ([o] ++ smin ++ [44, 32] ++ smax ++ [c]).drop 1 = (smin ++ [44, 32] ++ smax) ++ [c] := by simp
    rw [e]
    have l : ([o] ++ smin ++ [44, 32] ++ smax ++ [c]).length - 2 = (smin ++ [44, 32] ++ smax).length := by
      simp
    rw [l, List.take_left' rfl]
  have hshape : ∃ y z t, [o] ++ smin ++ [44, 32] ++ smax ++ [c] = y :: z :: t := by
    cases smin with
    | nil => exact ⟨o, 44, 32 :: (smax ++ [c]), by simp⟩
    | cons a t => exact ⟨o, a, t ++ 44 :: 32 :: (smax ++ [c]), by simp⟩
  obtain ⟨y, z, t, hs⟩ := hshape
  unfold rangeParts
  rw [hs] at hstrip ⊢
  simp only [hstrip]
  split
  · rename_i p0 p1 heq
    rw [heq] at hlen
    simp at hlen
  · rfl

/-- a range whose serialized bounds contain a `,` never renders (so `textWide`'s comma condition only removes trees
    on which C02 is vacuous) -/
theorem range_comma_err (l mn mx : Node) (incl : Bool) (p : F64) (d : Int) (left smin smax : Bytes)
    (hl : serialize pgFns l = .ok left) (h1 : serialize pgFns mn = .ok smin) (h2 : serialize pgFns mx = .ok smax)
    (hc : 44 ∈ smin ∨ 44 ∈ smax) : render pgFns (.mk l .range (.bound mn mx incl) p d) = .err := by
  have hy : serialize pgFns (.bound mn mx incl) =
      .ok ([if incl then 91 else 40] ++ smin ++ [44, 32] ++ smax ++ [if incl then 93 else 41]) := by
    simp only [serialize, h1, h2]
    exact bracket_text incl _ _
  rw [render_of _ _ _ _ _ _ _ _ hl hy (rfl : pgFns .range = some fnRang)]
  have hp : parenOps .range = false := by decide
  simp only [hp, Bool.false_and, Bool.false_eq_true, ↓reduceIte]
  unfold fnRang
  rw [rangeParts_comma _ _ _ _ hc]

/-! ## examples: shapes outside `cleanFilter`, inside `confinedFilter` -/

def wWild (s : Bytes) : Node := .expr (mkLeaf (.prim (.str s)) .wild)
def wRange (f : Node) (lo hi : Node) (incl : Bool) : Expr := .mk f .range (.bound lo hi incl) F64.one 1
def wAnd (a c : Expr) : Expr := .mk (.expr a) .and (.expr c) F64.one 1
def wOr (a c : Expr) : Expr := .mk (.expr a) .or (.expr c) F64.one 1

/-- `f:[* TO x]` -/
def exOpenStr : Expr := wRange (exField [102]) (wWild [42]) (exLit (.str [120])) true
/-- `f:[* TO 2.25]` (since fix F12 in `cleanFilter`) -/
def exOpenFlt : Expr := wRange (exField [102]) (wWild [42]) (exLit (.flt f225)) true
/-- `f:{0.001 TO *}`: an open float range that `%.2f` rounds (outside `cleanFilter`) -/
def exOpenFltRound : Expr := wRange (exField [102]) (exLit (.flt f0001)) (wWild [42]) false
/-- `f:[1 TO b]` -/
def exMixed : Expr := wRange (exField [102]) (exLit (.int 1)) (exLit (.str [98])) true
/-- `f:[1 TO 2.25]` -/
def exIntFlt : Expr := wRange (exField [102]) (exLit (.int 1)) (exLit (.flt f225)) true
/-- `5:[1 TO 2]`: a number in field position -/
def exNumField : Expr := wRange (exLit (.int 5)) (exLit (.int 1)) (exLit (.int 2)) true
/-- `f:[* TO *]` -/
def exStarStar : Expr := wRange (exField [102]) (wWild [42]) (wWild [42]) true
/-- `f:[1 TO 100000000000000000000]`: beyond int64 -/
def exBig : Expr := wRange (exField [102]) (exLit (.int 1)) (exLit (.int 100000000000000000000)) true
/-- `f:/ab+/` -/
def exRegex : Expr := .mk (exField [102]) .like (.expr (mkLeaf (.prim (.str [47, 97, 98, 43, 47])) .regexp)) F64.one 1
/-- `foo AND NOT bar` without a default field: bare terms -/
def exBare : Expr :=
  .mk (exLit (.str [102, 111, 111])) .and (.expr (.mk (exLit (.str [98, 97, 114])) .not .nil F64.one 1)) F64.one 1

/-- all of them (and the four counterexamples of SqlMeaning) in one query -/
def exWide : Expr :=
  wAnd (wAnd (wAnd cexExcl exOpenStr) (wAnd cexRound (wAnd exOpenFlt exOpenFltRound)))
    (wOr (wOr (wAnd exMixed exIntFlt) (wAnd cexUnderscore cexLong))
      (wOr (wAnd exNumField exStarStar) (wAnd exBig (wAnd exRegex exBare))))

/-- the hypotheses of the theorems are not vacuous, and the example is outside the clean fragment -/
example : confinedFilter exWide = true ∧ textWide exWide = true ∧ depthOK exWide = true ∧ stackOKW exWide = true ∧
    cleanFilter exWide = false := by decide +kernel

/-- the theorem applied -/
example : ∃ t, render pgFns exWide = .ok t ∧ parseSql t = toAstW exWide := by
  obtain ⟨t, ht⟩ := renders_wide exWide (by decide +kernel) (by decide +kernel)
  exact ⟨t, ht, render_parses_wide exWide t (by decide +kernel) (by decide +kernel) (by decide +kernel) ht⟩

/-! ### what PostgreSQL reads in the new cases -/

-- `"f" BETWEEN 'a' AND 'b'` (exclusive brackets are lost: a C03 finding, but confined)
example : (toAstW cexExcl == some (.between (.col [102]) (.str [97]) (.str [98]))) = true := by decide +kernel
-- `"f" BETWEEN '*' AND 'x'`
example : (toAstW exOpenStr == some (.between (.col [102]) (.str [42]) (.str [120]))) = true := by decide +kernel
-- `"f" >= 0.00 AND "f" <= 0.00`
example : (toAstW cexRound == some (.and (.cmp .ge (.col [102]) (.num false [48, 46, 48, 48]))
    (.cmp .le (.col [102]) (.num false [48, 46, 48, 48])))) = true := by decide +kernel
-- `"f" <= 2.25` (before fix F12 of `toFloats`: `"f" BETWEEN '*' AND 2.25`)
example : (toAstW exOpenFlt == some (.cmp .le (.col [102]) (.num false [50, 46, 50, 53]))) = true := by
  decide +kernel
example : render pgFns exOpenFlt = .ok (b "\"f\" <= 2.25") := by decide +kernel
example : cleanFilter exOpenFlt = true := by decide +kernel
-- `"f" > 0.00`
example : (toAstW exOpenFltRound == some (.cmp .gt (.col [102]) (.num false [48, 46, 48, 48]))) = true := by
  decide +kernel
example : render pgFns exOpenFltRound = .ok (b "\"f\" > 0.00") ∧ cleanFilter exOpenFltRound = false := by
  decide +kernel
-- `"f" BETWEEN 1 AND 'b'`
example : (toAstW exMixed == some (.between (.col [102]) (.num false [49]) (.str [98]))) = true := by decide +kernel
-- `"f" >= 1.00 AND "f" <= 2.25`
example : (toAstW exIntFlt == some (.and (.cmp .ge (.col [102]) (.num false [49, 46, 48, 48]))
    (.cmp .le (.col [102]) (.num false [50, 46, 50, 53])))) = true := by decide +kernel
-- `5 >= 1 AND 5 <= 2`
example : (toAstW exNumField == some (.and (.cmp .ge (.num false [53]) (.num false [49]))
    (.cmp .le (.num false [53]) (.num false [50])))) = true := by decide +kernel
-- `"f" <= 0`: the constant 0 is `rang`'s reading of `'*'`
example : (toAstW exStarStar == some (.cmp .le (.col [102]) (.num false [48]))) = true := by decide +kernel
-- `"f" ~ '/ab+/'`
example : (toAstW exRegex == some (.regex (.col [102]) (.str [47, 97, 98, 43, 47]))) = true := by decide +kernel
-- `'foo' AND (NOT('bar'))`
example : (toAstW exBare == some (.and (.str [102, 111, 111]) (.not (.str [98, 97, 114])))) = true := by
  decide +kernel
example : render pgFns exBare =
    .ok (b "'foo' AND (NOT('bar'))") := by decide +kernel
-- `"f" >= 1.00 AND "f" <= 100000000000000000000.00`
example : render pgFns exBig = .ok (b "\"f\" >= 1.00 AND \"f\" <= 100000000000000000000.00") := by decide +kernel

/-- the sanity check of the mirror on the example (not part of the theorem) -/
example : (match render pgFns exWide with | .ok t => parseSql t == toAstW exWide | _ => false) = true := by
  decide +kernel

/-! ## what is outside, and why -/

/-- operators without a render function (Fuzzy, Boost, Undefined): rendering never succeeds, C02 is vacuous -/
theorem render_nofn (l r : Node) (o : Op) (p : F64) (d : Int) (t : Bytes) (ho : pgFns o = none) :
    render pgFns (.mk l o r p d) ≠ .ok t := by
  intro h
  simp only [render] at h
  cases hl : serialize pgFns l <;> simp only [hl] at h <;> try (cases h; done)
  cases hr : serialize pgFns r <;> simp only [hr] at h <;> try (cases h; done)
  simp only [ho] at h
  cases h

theorem render_fuzzy (l r : Node) (p : F64) (d : Int) (t : Bytes) : render pgFns (.mk l .fuzzy r p d) ≠ .ok t :=
  render_nofn l r .fuzzy p d t rfl
theorem render_boost (l r : Node) (p : F64) (d : Int) (t : Bytes) : render pgFns (.mk l .boost r p d) ≠ .ok t :=
  render_nofn l r .boost p d t rfl

/-- a string range bound containing `,`: `rang` cannot split the serialized pair, rendering fails (vacuous) -/
def cexComma : Expr := wRange (exField [102]) (exLit (.str [97, 44, 98])) (exLit (.str [99])) true
theorem comma_bound_err : render pgFns cexComma = .err ∧ textWide cexComma = false := by decide +kernel

/-! ## REFUTATIONS: rendering succeeds, but the text is not one confined expression (for the model) -/

/-- `a:NaN` (hand-built: a float leaf holding NaN): the text is `"a" = NaN`; PostgreSQL would read the bare word as a
    COLUMN reference `nan` that is not a field of the query; the scanner model has no token for it -/
def cexNaN : Expr := .mk (exField [97]) .equals (exLit (.flt F64.nan)) F64.one 1
theorem nan_not_confined : render pgFns cexNaN = .ok (b "\"a\" = NaN") ∧ parseSql (b "\"a\" = NaN") = none ∧
    confinedFilter cexNaN = false := by decide +kernel

/-- `a:+Inf`: the text is `"a" = +Inf` -/
def cexInf : Expr := .mk (exField [97]) .equals (exLit (.flt (F64.inf false))) F64.one 1
theorem inf_not_confined : render pgFns cexInf = .ok (b "\"a\" = +Inf") ∧ parseSql (b "\"a\" = +Inf") = none ∧
    confinedFilter cexInf = false := by decide +kernel

/-- a float range with an infinite bound: `"a" >= 1.00 AND "a" <= +Inf` -/
def cexInfRange : Expr := wRange (exField [97]) (exLit (.flt F64.one)) (exLit (.flt (F64.inf false))) true
theorem inf_range_not_confined : render pgFns cexInfRange = .ok (b "\"a\" >= 1.00 AND \"a\" <= +Inf") ∧
    parseSql (b "\"a\" >= 1.00 AND \"a\" <= +Inf") = none ∧ confinedFilter cexInfRange = false := by decide +kernel

/-- a bool value: the text is `"a" = true`.  PostgreSQL reads a boolean constant (harmless); the keyword is outside
    the conservative scanner model, which rejects the text -/
def cexBool : Expr := .mk (exField [97]) .equals (exLit (.bool true)) F64.one 1
theorem bool_outside_model : render pgFns cexBool = .ok (b "\"a\" = true") ∧ parseSql (b "\"a\" = true") = none ∧
    confinedFilter cexBool = false := by decide +kernel

/-- an empty value list: the text `"a" IN ()` is a syntax error for PostgreSQL -/
def cexEmptyIn : Expr := .mk (exField [97]) .in_ (.expr (mkList .nil)) F64.one 1
theorem empty_in_rejected : render pgFns cexEmptyIn = .ok (b "\"a\" IN ()") ∧ parseSql (b "\"a\" IN ()") = none ∧
    confinedFilter cexEmptyIn = false := by decide +kernel

/-- a NUL byte in a RAW string value (a leaf expression is checked by `literal`, a raw value is not):
    the text contains the NUL, PostgreSQL cannot even receive it -/
def cexNul : Expr := .mk (exField [97]) .equals (.prim (.str [0])) F64.one 1
theorem raw_nul_rejected : render pgFns cexNul = .ok (b "\"a\" = '" ++ [0] ++ b "'") ∧
    parseSql (b "\"a\" = '" ++ [0] ++ b "'") = none ∧ textWide cexNul = false := by decide +kernel

/-! ## the parameterized text -/

/-- a query for parameter mode: ranges of all kinds, LIKE, `/…/`, bare terms, and values that the inline text cannot
    carry (NaN, a NUL byte) -/
def exParam : Expr :=
  wAnd (wAnd (wAnd cexExcl exOpenStr) (wAnd cexRound exOpenFlt))
    (wOr (wOr (wAnd exMixed exIntFlt) (wAnd cexUnderscore cexLong))
      (wOr (wAnd cexNaN exStarStar) (wAnd exBig (wAnd exRegex (wAnd exBare cexNul)))))

example : confinedParam exParam = true ∧ textParam exParam = true ∧ depthOK exParam = true ∧
    confinedFilter exParam = false := by decide +kernel

/-- the theorem applied -/
example : ∃ sqlP ps, renderParam pgFns exParam = .ok (sqlP, ps) ∧ parseSql sqlP = toAstP exParam ∧
    paramsP exParam = some ps := by
  obtain ⟨sqlP, ps, h⟩ := renders_param exParam (by decide +kernel) (by decide +kernel)
  exact ⟨sqlP, ps, h, render_parses_param exParam sqlP ps (by decide +kernel) (by decide +kernel) (by decide +kernel) h⟩

-- `"f" BETWEEN '*' AND ?`
example : renderParam pgFns exOpenStr = .ok (b "\"f\" BETWEEN '*' AND ?", [.str [120]]) := by decide +kernel
example : (toAstP exOpenStr == some (.between (.col [102]) (.str [42]) (.param 1))) = true := by decide +kernel
-- `"f" >= ? AND "f" <= ?`
example : renderParam pgFns exIntFlt = .ok (b "\"f\" >= ? AND \"f\" <= ?", [.int 1, .flt f225]) := by decide +kernel
example : (toAstP exIntFlt == some (.and (.cmp .ge (.col [102]) (.param 1)) (.cmp .le (.col [102]) (.param 2)))) = true := by
  decide +kernel
-- `"f" <= 0`
example : renderParam pgFns exStarStar = .ok (b "\"f\" <= 0", []) := by decide +kernel
-- `"f" SIMILAR TO ?` with the translated pattern as parameter
example : renderParam pgFns cexUnderscore = .ok (b "\"f\" SIMILAR TO ?", [.str [97, 95, 37]]) := by decide +kernel
-- `? AND (NOT(?))`
example : renderParam pgFns exBare = .ok (b "? AND (NOT(?))", [.str [102, 111, 111], .str [98, 97, 114]]) := by
  decide +kernel
example : (toAstP exBare == some (.and (.param 1) (.not (.param 2)))) = true := by decide +kernel

/-- a NUMBER in field position under a two-sided range (outside `confinedParam`): the text has four placeholders but
    there are three parameters — `$4` has no value (the recorded C04 finding `Subst.count_false_numeric_field`) -/
theorem numeric_field_param_mismatch :
    renderParam pgFns exNumField = .ok (b "? >= ? AND ? <= ?", [.int 5, .int 1, .int 2]) ∧
    (parseSql (b "? >= ? AND ? <= ?") ==
      some (.and (.cmp .ge (.param 1) (.param 2)) (.cmp .le (.param 3) (.param 4)))) = true ∧
    confinedParam exNumField = false := by decide +kernel

end GoLucene.SqlWide

#print axioms GoLucene.SqlWide.render_parses_wide
#print axioms GoLucene.SqlWide.render_parses_wide_iff
#print axioms GoLucene.SqlWide.renders_wide
#print axioms GoLucene.SqlWide.confined_cols_consts
#print axioms GoLucene.SqlWide.toAstW_extends
#print axioms GoLucene.SqlWide.confined_of_clean
#print axioms GoLucene.SqlWide.textWide_of_clean
#print axioms GoLucene.SqlWide.render_nofn
#print axioms GoLucene.SqlWide.nan_not_confined
#print axioms GoLucene.SqlWide.inf_not_confined
#print axioms GoLucene.SqlWide.inf_range_not_confined
#print axioms GoLucene.SqlWide.bool_outside_model
#print axioms GoLucene.SqlWide.empty_in_rejected
#print axioms GoLucene.SqlWide.raw_nul_rejected
#print axioms GoLucene.SqlWide.comma_bound_err
#print axioms GoLucene.SqlWide.range_comma_err
#print axioms GoLucene.SqlWide.mem_rendersOfW_int
#print axioms GoLucene.SqlWide.mem_rendersOfW_flt
#print axioms GoLucene.SqlWide.render_parses_param
#print axioms GoLucene.SqlWide.render_parses_param_iff
#print axioms GoLucene.SqlWide.renders_param
#print axioms GoLucene.SqlWide.param_numbers
#print axioms GoLucene.SqlWide.param_cols_consts
#print axioms GoLucene.SqlWide.numeric_field_param_mismatch
#print axioms GoLucene.SqlWide.parseSql_RK
#print axioms GoLucene.SqlWide.confinedParam_of_clean
