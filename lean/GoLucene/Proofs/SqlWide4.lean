import GoLucene.Proofs.SqlWide3
/-
  SqlWide, part 4: the wide fragment CONTAINS the clean one, and `toAstW` EXTENDS `toAst`.
    confined_of_clean    cleanFilter e → confinedFilter e
    textWide_of_clean    cleanFilter e → textClean e → textWide e
    toAstW_extends       cleanFilter e → toAstW e = toAst e
-/
set_option linter.unusedSimpArgs false
set_option linter.unusedVariables false

namespace GoLucene.SqlWide
open GoLucene Sql SqlMeaning SqlText

/-! ## positions -/

theorem opdPrim_field {l : Node} {f : Bytes} (h : fieldCol l = some f) : opdPrim l = some (.col f) := by
  obtain ⟨p, d, rfl⟩ := fieldCol_inv h; rfl

theorem opdAst_field {l : Node} {f : Bytes} (h : fieldCol l = some f) : opdAst l = some (.col f) := by
  simp [opdAst, opdPrim_field h, atomAst]

theorem opdPrim_lit (q : Prim) (p : F64) (d : Int) : opdPrim (.expr (.mk (.prim q) .literal .nil p d)) = some q := rfl
theorem opdPrim_wild (q : Prim) (p : F64) (d : Int) : opdPrim (.expr (.mk (.prim q) .wild .nil p d)) = some q := rfl

theorem opdAst_value (q : Prim) (p : F64) (d : Int) (hq : cleanPrim q = true) :
    opdAst (.expr (.mk (.prim q) .literal .nil p d)) = astOfPrim q := by
  simp [opdAst, opdPrim_lit, atomAst_of_clean hq]

theorem opdOK_field {l : Node} (h : cleanField l = true) : opdOK l = true := by
  obtain ⟨f, hf, _, _⟩ := cleanField_inv h
  simp [opdOK, opdPrim_field hf, primShape]

theorem opdTextW_field {l : Node} (h : fieldText l = true) : opdTextW l = true := by
  unfold fieldText at h
  split at h
  · rename_i f hf
    simp only [opdTextW, opdPrim_field hf, primTextW]
    exact h
  · cases h

/-- the bound kinds of SqlMeaning as values: the open end `*` is the string `*` -/
def primOfBnd : Bnd → Prim
  | .star => .str [42]
  | .int i => .int i
  | .flt f => .flt f
  | .str s => .str s

theorem opdPrim_bnd {n : Node} {ba : Bnd} (h : bndOf n = some ba) : opdPrim n = some (primOfBnd ba) := by
  unfold bndOf at h
  split at h
  · split at h
    · rename_i s _ _ hs
      cases h
      have : s = [42] := by simpa using hs
      subst this; rfl
    · cases h
  · cases h; rfl
  · cases h; rfl
  · cases h; rfl
  · cases h

theorem primTextOf_bnd (ba : Bnd) : primTextOf (primOfBnd ba) = bndText ba := by
  cases ba <;> first | rfl | decide

theorem bnd_clean {incl : Bool} {ba bc : Bnd} (h : cleanBounds incl ba bc = true) :
    cleanPrim (primOfBnd ba) = true ∧ cleanPrim (primOfBnd bc) = true := by
  cases ba <;> cases bc <;> simp only [cleanBounds, Bool.false_eq_true, Bool.and_eq_true] at h
  · exact ⟨rfl, rfl⟩
  · exact ⟨rfl, twoDec_finite _ h.1⟩
  · exact ⟨rfl, rfl⟩
  · exact ⟨rfl, rfl⟩
  · exact ⟨twoDec_finite _ h.1, rfl⟩
  · exact ⟨twoDec_finite _ h.1.1, twoDec_finite _ h.1.2⟩
  · exact ⟨rfl, rfl⟩

/-! ## the fragment -/

theorem itemsOKW_clean : ∀ es : ExprList, cleanItems es = true → itemsOKW es = true
  | .nil, _ => rfl
  | .cons e t, h => by
    unfold cleanItems at h
    split at h
    · rename_i heq; cases heq
    · rename_i q bz fz t' heq
      cases heq
      simp only [Bool.and_eq_true] at h
      simp only [itemsOKW, Bool.and_eq_true]
      exact ⟨⟨rfl, shape_of_clean h.1⟩, itemsOKW_clean _ h.2⟩
    · cases h

mutual
theorem confinedNode_of_clean : ∀ n : Node, cleanNode n = true → confinedNode n = true
  | .expr e, h => by simp only [cleanNode] at h; simp only [confinedNode]; exact confined_of_clean e h
  | .nil, h => by simp [cleanNode] at h
  | .prim _, h => by simp [cleanNode] at h
  | .list _, h => by simp [cleanNode] at h
  | .bound _ _ _, h => by simp [cleanNode] at h
/-- the wide fragment contains the clean one -/
theorem confined_of_clean : ∀ e : Expr, cleanFilter e = true → confinedFilter e = true
  | .mk l o r p d, h => by
    cases o
    case and =>
      simp only [cleanFilter, Bool.and_eq_true] at h
      simp only [confinedFilter, Bool.and_eq_true]
      exact ⟨confinedNode_of_clean l h.1, confinedNode_of_clean r h.2⟩
    case or =>
      simp only [cleanFilter, Bool.and_eq_true] at h
      simp only [confinedFilter, Bool.and_eq_true]
      exact ⟨confinedNode_of_clean l h.1, confinedNode_of_clean r h.2⟩
    case not =>
      simp only [cleanFilter, Bool.and_eq_true] at h
      simp only [confinedFilter, Bool.and_eq_true]
      exact ⟨confinedNode_of_clean l h.1, h.2⟩
    case mustNot =>
      simp only [cleanFilter, Bool.and_eq_true] at h
      simp only [confinedFilter, Bool.and_eq_true]
      exact ⟨confinedNode_of_clean l h.1, h.2⟩
    case must =>
      simp only [cleanFilter, Bool.and_eq_true] at h
      simp only [confinedFilter, Bool.and_eq_true]
      exact ⟨confinedNode_of_clean l h.1, h.2⟩
    case like =>
      simp only [cleanFilter, Bool.and_eq_true] at h
      obtain ⟨pat, p2, d2, rfl, _, _, _⟩ := cleanPattern_inv h.2
      simp only [confinedFilter, Bool.and_eq_true]
      exact ⟨opdOK_field h.1, rfl⟩
    case in_ =>
      simp only [cleanFilter, Bool.and_eq_true] at h
      obtain ⟨e, t, p2, d2, rfl⟩ := cleanList_inv h.2
      have hcl : cleanItems (.cons e t) = true := by simpa [cleanList] using h.2
      simp only [confinedFilter, Bool.and_eq_true]
      exact ⟨opdOK_field h.1, by simp only [listOKW]; exact itemsOKW_clean _ hcl⟩
    case range =>
      simp only [cleanFilter, Bool.and_eq_true] at h
      obtain ⟨mn, mx, incl, ba, bc, rfl, hba, hbc, hcl⟩ := cleanRange_inv h.2
      simp only [confinedFilter, Bool.and_eq_true, rangeOKW, valOK, opdPrim_bnd hba, opdPrim_bnd hbc]
      exact ⟨opdOK_field h.1, bnd_clean hcl⟩
    case equals =>
      simp only [cleanFilter, Bool.and_eq_true] at h
      obtain ⟨q, p2, d2, rfl, hq⟩ := cleanValue_inv h.2
      simp only [confinedFilter, Bool.and_eq_true]
      exact ⟨opdOK_field h.1, by simp [opdOK, opdPrim_lit, shape_of_clean hq]⟩
    case greater =>
      simp only [cleanFilter, Bool.and_eq_true] at h
      obtain ⟨q, p2, d2, rfl, hq⟩ := cleanValue_inv h.2
      simp only [confinedFilter, Bool.and_eq_true]
      exact ⟨opdOK_field h.1, by simp [opdOK, opdPrim_lit, shape_of_clean hq]⟩
    case less =>
      simp only [cleanFilter, Bool.and_eq_true] at h
      obtain ⟨q, p2, d2, rfl, hq⟩ := cleanValue_inv h.2
      simp only [confinedFilter, Bool.and_eq_true]
      exact ⟨opdOK_field h.1, by simp [opdOK, opdPrim_lit, shape_of_clean hq]⟩
    case greaterEq =>
      simp only [cleanFilter, Bool.and_eq_true] at h
      obtain ⟨q, p2, d2, rfl, hq⟩ := cleanValue_inv h.2
      simp only [confinedFilter, Bool.and_eq_true]
      exact ⟨opdOK_field h.1, by simp [opdOK, opdPrim_lit, shape_of_clean hq]⟩
    case lessEq =>
      simp only [cleanFilter, Bool.and_eq_true] at h
      obtain ⟨q, p2, d2, rfl, hq⟩ := cleanValue_inv h.2
      simp only [confinedFilter, Bool.and_eq_true]
      exact ⟨opdOK_field h.1, by simp [opdOK, opdPrim_lit, shape_of_clean hq]⟩
    all_goals simp [cleanFilter] at h
end

/-! ## the texts -/

theorem itemsTextW_clean : ∀ es : ExprList, cleanItems es = true → itemsText es = true → itemsTextW es = true
  | .nil, _, _ => rfl
  | .cons e t, h, ht => by
    unfold cleanItems at h
    split at h
    · rename_i heq; cases heq
    · rename_i q bz fz t' heq
      cases heq
      simp only [Bool.and_eq_true] at h
      simp only [itemsText, Bool.and_eq_true] at ht
      simp only [itemsTextW, Bool.and_eq_true]
      exact ⟨by rw [primTextW_of_clean h.1]; exact ht.1, itemsTextW_clean _ h.2 ht.2⟩
    · cases h

theorem valueText_bnd {n : Node} {ba : Bnd} (h : bndOf n = some ba) (ht : valueText n = true) :
    primText (primOfBnd ba) = true := by
  unfold bndOf at h
  split at h
  · split at h
    · rename_i s _ _ hs
      cases h
      have : s = [42] := by simpa using hs
      subst this; exact ht
    · cases h
  · cases h; rfl
  · cases h; rfl
  · cases h; exact ht
  · cases h

theorem bndTextW_clean {n : Node} {ba : Bnd} (h : bndOf n = some ba) (ht : valueText n = true)
    (hc : ∀ s, ba = .str s → s.contains 44 = false) : bndTextW n = true := by
  have hp := valueText_bnd h ht
  unfold bndTextW
  rw [opdPrim_bnd h]
  cases ba with
  | star => simp only [primOfBnd, Bool.and_eq_true, Bool.not_eq_true']; exact ⟨hp, by decide⟩
  | int i => rfl
  | flt f => rfl
  | str s => simp only [primOfBnd, Bool.and_eq_true, Bool.not_eq_true']; exact ⟨hp, hc s rfl⟩

theorem bnd_nocommaW {incl : Bool} {ba bc : Bnd} (h : cleanBounds incl ba bc = true) :
    (∀ s, ba = .str s → s.contains 44 = false) ∧ (∀ s, bc = .str s → s.contains 44 = false) := by
  cases ba <;> cases bc <;> simp only [cleanBounds, Bool.false_eq_true, Bool.and_eq_true, Bool.not_eq_true'] at h
  all_goals refine ⟨fun s e => ?_, fun s e => ?_⟩
  all_goals first
    | (cases e; done)
    | (cases e; first | exact h.1.2 | exact h.2)

mutual
theorem textWideNode_of_clean : ∀ n : Node, cleanNode n = true → textNode n = true → textWideNode n = true
  | .expr e, h, ht => by
    simp only [cleanNode] at h; simp only [textNode] at ht; simp only [textWideNode]
    exact textWide_of_clean e h ht
  | .nil, _, _ => rfl
  | .prim _, h, _ => by simp [cleanNode] at h
  | .list _, _, _ => rfl
  | .bound _ _ _, _, _ => rfl
/-- … and `textWide` asks no more than `textClean` does there -/
theorem textWide_of_clean : ∀ e : Expr, cleanFilter e = true → textClean e = true → textWide e = true
  | .mk l o r p d, h, ht => by
    cases o
    case and =>
      simp only [cleanFilter, Bool.and_eq_true] at h
      simp only [textClean, Bool.and_eq_true] at ht
      simp only [textWide, Bool.and_eq_true]
      exact ⟨textWideNode_of_clean l h.1 ht.1, textWideNode_of_clean r h.2 ht.2⟩
    case or =>
      simp only [cleanFilter, Bool.and_eq_true] at h
      simp only [textClean, Bool.and_eq_true] at ht
      simp only [textWide, Bool.and_eq_true]
      exact ⟨textWideNode_of_clean l h.1 ht.1, textWideNode_of_clean r h.2 ht.2⟩
    case not =>
      simp only [cleanFilter, Bool.and_eq_true] at h
      simp only [textClean] at ht
      simp only [textWide]
      exact textWideNode_of_clean l h.1 ht
    case mustNot =>
      simp only [cleanFilter, Bool.and_eq_true] at h
      simp only [textClean] at ht
      simp only [textWide]
      exact textWideNode_of_clean l h.1 ht
    case must =>
      simp only [cleanFilter, Bool.and_eq_true] at h
      simp only [textClean] at ht
      simp only [textWide]
      exact textWideNode_of_clean l h.1 ht
    case like =>
      simp only [cleanFilter, Bool.and_eq_true] at h
      simp only [textClean, Bool.and_eq_true] at ht
      obtain ⟨pat, p2, d2, rfl, _, _, _⟩ := cleanPattern_inv h.2
      simp only [textWide, Bool.and_eq_true]
      exact ⟨opdTextW_field ht.1, ht.2⟩
    case in_ =>
      simp only [cleanFilter, Bool.and_eq_true] at h
      simp only [textClean, Bool.and_eq_true] at ht
      obtain ⟨e, t, p2, d2, rfl⟩ := cleanList_inv h.2
      have hcl : cleanItems (.cons e t) = true := by simpa [cleanList] using h.2
      simp only [textWide, Bool.and_eq_true]
      exact ⟨opdTextW_field ht.1, itemsTextW_clean _ hcl ht.2⟩
    case range =>
      simp only [cleanFilter, Bool.and_eq_true] at h
      simp only [textClean, Bool.and_eq_true] at ht
      obtain ⟨mn, mx, incl, ba, bc, rfl, hba, hbc, hcl⟩ := cleanRange_inv h.2
      simp only [Bool.and_eq_true] at ht
      simp only [textWide, Bool.and_eq_true]
      have hnc := bnd_nocommaW hcl
      exact ⟨opdTextW_field ht.1, bndTextW_clean hba ht.2.1 hnc.1, bndTextW_clean hbc ht.2.2 hnc.2⟩
    case equals =>
      simp only [cleanFilter, Bool.and_eq_true] at h
      simp only [textClean, Bool.and_eq_true] at ht
      obtain ⟨q, p2, d2, rfl, hq⟩ := cleanValue_inv h.2
      simp only [textWide, Bool.and_eq_true]
      exact ⟨opdTextW_field ht.1, by simp only [opdTextW, opdPrim_lit, primTextW_of_clean hq]; exact ht.2⟩
    case greater =>
      simp only [cleanFilter, Bool.and_eq_true] at h
      simp only [textClean, Bool.and_eq_true] at ht
      obtain ⟨q, p2, d2, rfl, hq⟩ := cleanValue_inv h.2
      simp only [textWide, Bool.and_eq_true]
      exact ⟨opdTextW_field ht.1, by simp only [opdTextW, opdPrim_lit, primTextW_of_clean hq]; exact ht.2⟩
    case less =>
      simp only [cleanFilter, Bool.and_eq_true] at h
      simp only [textClean, Bool.and_eq_true] at ht
      obtain ⟨q, p2, d2, rfl, hq⟩ := cleanValue_inv h.2
      simp only [textWide, Bool.and_eq_true]
      exact ⟨opdTextW_field ht.1, by simp only [opdTextW, opdPrim_lit, primTextW_of_clean hq]; exact ht.2⟩
    case greaterEq =>
      simp only [cleanFilter, Bool.and_eq_true] at h
      simp only [textClean, Bool.and_eq_true] at ht
      obtain ⟨q, p2, d2, rfl, hq⟩ := cleanValue_inv h.2
      simp only [textWide, Bool.and_eq_true]
      exact ⟨opdTextW_field ht.1, by simp only [opdTextW, opdPrim_lit, primTextW_of_clean hq]; exact ht.2⟩
    case lessEq =>
      simp only [cleanFilter, Bool.and_eq_true] at h
      simp only [textClean, Bool.and_eq_true] at ht
      obtain ⟨q, p2, d2, rfl, hq⟩ := cleanValue_inv h.2
      simp only [textWide, Bool.and_eq_true]
      exact ⟨opdTextW_field ht.1, by simp only [opdTextW, opdPrim_lit, primTextW_of_clean hq]; exact ht.2⟩
    all_goals simp [cleanFilter] at h
end

/-! ## the translation -/

theorem listAstW_clean : ∀ es : ExprList, cleanItems es = true → listAstW es = listAst es
  | .nil, _ => rfl
  | .cons e t, h => by
    unfold cleanItems at h
    split at h
    · rename_i heq; cases heq
    · rename_i q bz fz t' heq
      cases heq
      simp only [Bool.and_eq_true] at h
      have : leafOp .literal = true := rfl
      simp only [listAstW, listAst, this, ↓reduceIte, atomAst_of_clean h.1, listAstW_clean _ h.2]
      cases astOfPrim q <;> cases listAst t <;> rfl
    · cases h

theorem toIntB_starQ : toIntB starQ = some 0 := by decide
theorem toIntB_int (i : Int) (h : inInt64 i = true) : toIntB (fmtInt i) = some i := by
  unfold toIntB
  rw [allNum_ne_starQ (fmtInt_numCh i)]
  simp only [Bool.false_eq_true, ↓reduceIte]
  exact SqlText.atoi_fmtInt i h
theorem toIntB_quote (s : Bytes) (h : (s != [42]) = true) : toIntB (sqlQuote s) = none := by
  unfold toIntB
  rw [sqlQuote_ne_starQ s h]
  simp only [Bool.false_eq_true, ↓reduceIte]
  exact atoi_quote _
theorem toFltB_quote (s : Bytes) (h : (s != [42]) = true) : toFltB (sqlQuote s) = none := by
  unfold toFltB
  rw [sqlQuote_ne_starQ s h]
  simp only [Bool.false_eq_true, ↓reduceIte]
  exact parseFloat_quote _
theorem toFltB_flt (f : F64) (h : f.isFinite = true) : toFltB (fmtG f) = some f := by
  unfold toFltB
  rw [allNum_ne_starQ (fmtG_allNum f)]
  simp only [Bool.false_eq_true, ↓reduceIte]
  exact FloatRT.parseFloat_fmtG f h
theorem toIntB_flt (f : F64) : toIntB (fmtG f) = atoi (fmtG f) := by
  unfold toIntB
  rw [allNum_ne_starQ (fmtG_allNum f)]
  simp only [Bool.false_eq_true, ↓reduceIte]

theorem toInts_of {a c : Bytes} {i j : Int} (h1 : toIntB a = some i) (h2 : toIntB c = some j) :
    toInts a c = some (i, j) := by rw [toInts_eq, h1, h2]
theorem toInts_none {a c : Bytes} (h : toIntB a = none ∨ toIntB c = none) : toInts a c = none := by
  rw [toInts_eq]
  cases h1 : toIntB a <;> cases h2 : toIntB c <;> first | rfl | (rw [h1, h2] at h; simp at h)
theorem toFloats_of {a c : Bytes} {i j : F64} (h1 : toFltB a = some i) (h2 : toFltB c = some j) :
    toFloats a c = some (i, j) := by rw [toFloats_eq, h1, h2]
theorem toFloats_none {a c : Bytes} (h : toFltB a = none ∨ toFltB c = none) : toFloats a c = none := by
  rw [toFloats_eq]
  cases h1 : toFltB a <;> cases h2 : toFltB c <;> first | rfl | (rw [h1, h2] at h; simp at h)

/-- on clean bounds `rangeAstW` is `rangeAst` -/
theorem rangeAstW_clean (x : Ast) (incl : Bool) (ba bc : Bnd) (h : cleanBounds incl ba bc = true) :
    rangeAstW x incl (primOfBnd ba) (primOfBnd bc) = rangeAst x incl ba bc := by
  have sq : sqlQuote [42] = starQ := by decide
  cases ba <;> cases bc <;> simp only [cleanBounds, Bool.false_eq_true, Bool.and_eq_true] at h
  · -- star, int
    rename_i hi
    have ti := toInts_of toIntB_starQ (toIntB_int hi h)
    simp only [rangeAstW, primOfBnd, astOfPrim, primTextOf, fmtVPrim, sq, ti, rangeAst, cmpForm, beq_self_eq_true,
      ↓reduceIte]
  · -- star, flt
    rename_i hi
    have e2 := allNum_ne_starQ (fmtG_allNum hi)
    have hn : atoi (fmtG hi) = none := isSome_false_none (by simpa using h.2)
    have ti : toInts starQ (fmtG hi) = none := toInts_none (.inr (by rw [toIntB_flt]; exact hn))
    have tf := toFloats_of toFltB_starQ (toFltB_flt hi (twoDec_finite _ h.1))
    have k2 : astOfPrim (.flt hi) = some (numTextAst (fmtG hi)) := astOfPrim_flt hi
    have t2 : primTextOf (.flt hi) = fmtG hi := rfl
    have k1 : astOfPrim (.str [42]) = some (.str [42]) := rfl
    have t1 : primTextOf (.str [42]) = starQ := sq
    simp only [rangeAstW, primOfBnd, k1, k2, t1, t2, ti, tf, rangeAst, cmpForm, beq_self_eq_true, ↓reduceIte]
  · -- int, star
    rename_i lo
    have e1 := allNum_ne_starQ (fmtInt_numCh lo)
    have ti := toInts_of (toIntB_int lo h) toIntB_starQ
    simp only [rangeAstW, primOfBnd, astOfPrim, primTextOf, fmtVPrim, sq, ti, rangeAst, cmpForm, e1, beq_self_eq_true,
      Bool.false_eq_true, ↓reduceIte]
  · -- int, int
    rename_i lo hi
    have e1 := allNum_ne_starQ (fmtInt_numCh lo)
    have e2 := allNum_ne_starQ (fmtInt_numCh hi)
    have ti := toInts_of (toIntB_int lo h.1) (toIntB_int hi h.2)
    simp only [rangeAstW, primOfBnd, astOfPrim, primTextOf, fmtVPrim, ti, rangeAst, cmpForm, e1, e2,
      Bool.false_eq_true, ↓reduceIte]
  · -- flt, star
    rename_i lo
    have e1 := allNum_ne_starQ (fmtG_allNum lo)
    have hn : atoi (fmtG lo) = none := isSome_false_none (by simpa using h.2)
    have ti : toInts (fmtG lo) starQ = none := toInts_none (.inl (by rw [toIntB_flt]; exact hn))
    have tf := toFloats_of (toFltB_flt lo (twoDec_finite _ h.1)) toFltB_starQ
    have k1 : astOfPrim (.flt lo) = some (numTextAst (fmtG lo)) := astOfPrim_flt lo
    have t1 : primTextOf (.flt lo) = fmtG lo := rfl
    have k2 : astOfPrim (.str [42]) = some (.str [42]) := rfl
    have t2 : primTextOf (.str [42]) = starQ := sq
    simp only [rangeAstW, primOfBnd, k1, k2, t1, t2, ti, tf, rangeAst, cmpForm, e1, beq_self_eq_true,
      Bool.false_eq_true, ↓reduceIte]
  · -- flt, flt
    rename_i lo hi
    have e1 := allNum_ne_starQ (fmtG_allNum lo)
    have e2 := allNum_ne_starQ (fmtG_allNum hi)
    have hi1 : ((atoi (fmtG lo)).isSome && (atoi (fmtG hi)).isSome) = false := by
      have := h.2
      simp only [Bool.not_eq_true'] at this
      exact this
    have ti : toInts (fmtG lo) (fmtG hi) = none := by
      apply toInts_none
      rw [toIntB_flt, toIntB_flt]
      cases h1 : atoi (fmtG lo) with
      | none => exact .inl rfl
      | some a =>
        cases h2 : atoi (fmtG hi) with
        | none => exact .inr rfl
        | some c => simp [h1, h2] at hi1
    have tf := toFloats_of (toFltB_flt lo (twoDec_finite _ h.1.1)) (toFltB_flt hi (twoDec_finite _ h.1.2))
    have k1 : astOfPrim (.flt lo) = some (numTextAst (fmtG lo)) := astOfPrim_flt lo
    have k2 : astOfPrim (.flt hi) = some (numTextAst (fmtG hi)) := astOfPrim_flt hi
    have t1 : primTextOf (.flt lo) = fmtG lo := rfl
    have t2 : primTextOf (.flt hi) = fmtG hi := rfl
    simp only [rangeAstW, primOfBnd, k1, k2, t1, t2, ti, tf, rangeAst, cmpForm, e1, e2, Bool.false_eq_true, ↓reduceIte]
  · -- str, str
    rename_i lo hi
    have ti : toInts (sqlQuote lo) (sqlQuote hi) = none := toInts_none (.inl (toIntB_quote lo h.1.1.1.2))
    have tf : toFloats (sqlQuote lo) (sqlQuote hi) = none := toFloats_none (.inl (toFltB_quote lo h.1.1.1.2))
    simp only [rangeAstW, primOfBnd, astOfPrim, primTextOf, ti, tf, rangeAst]

mutual
theorem toAstWNode_extends : ∀ n : Node, cleanNode n = true → toAstWNode n = toAstNode n
  | .expr e, h => by
    simp only [cleanNode] at h; simp only [toAstWNode, toAstNode]; exact toAstW_extends e h
  | .nil, _ => rfl
  | .prim _, h => by simp [cleanNode] at h
  | .list _, _ => rfl
  | .bound _ _ _, _ => rfl
/-- `toAstW` extends `toAst`: on the clean fragment the wide translation is the intended predicate -/
theorem toAstW_extends : ∀ e : Expr, cleanFilter e = true → toAstW e = toAst e
  | .mk l o r p d, h => by
    cases o
    case and =>
      simp only [cleanFilter, Bool.and_eq_true] at h
      simp only [toAstW, toAst, toAstWNode_extends l h.1, toAstWNode_extends r h.2]
      cases toAstNode l <;> cases toAstNode r <;> rfl
    case or =>
      simp only [cleanFilter, Bool.and_eq_true] at h
      simp only [toAstW, toAst, toAstWNode_extends l h.1, toAstWNode_extends r h.2]
      cases toAstNode l <;> cases toAstNode r <;> rfl
    case not =>
      simp only [cleanFilter, Bool.and_eq_true] at h
      simp only [toAstW, toAst, toAstWNode_extends l h.1]
    case mustNot =>
      simp only [cleanFilter, Bool.and_eq_true] at h
      simp only [toAstW, toAst, toAstWNode_extends l h.1]
    case must =>
      simp only [cleanFilter, Bool.and_eq_true] at h
      simp only [toAstW, toAst, toAstWNode_extends l h.1]
    case like =>
      simp only [cleanFilter, Bool.and_eq_true] at h
      obtain ⟨f, hf, _, _⟩ := cleanField_inv h.1
      obtain ⟨pat, p2, d2, rfl, _, _, _⟩ := cleanPattern_inv h.2
      simp only [toAstW, toAst, opdAst_field hf, hf, opdPrim_wild]
    case in_ =>
      simp only [cleanFilter, Bool.and_eq_true] at h
      obtain ⟨f, hf, _, _⟩ := cleanField_inv h.1
      obtain ⟨e, t, p2, d2, rfl⟩ := cleanList_inv h.2
      have hcl : cleanItems (.cons e t) = true := by simpa [cleanList] using h.2
      simp only [toAstW, toAst, opdAst_field hf, hf, listAstW_clean _ hcl]
      cases listAst (.cons e t) with
      | none => rfl
      | some items => cases items <;> rfl
    case range =>
      simp only [cleanFilter, Bool.and_eq_true] at h
      obtain ⟨f, hf, _, _⟩ := cleanField_inv h.1
      obtain ⟨mn, mx, incl, ba, bc, rfl, hba, hbc, hcl⟩ := cleanRange_inv h.2
      simp only [toAstW, toAst, opdAst_field hf, hf, opdPrim_bnd hba, opdPrim_bnd hbc, hba, hbc,
        rangeAstW_clean _ _ _ _ hcl]
    case equals =>
      simp only [cleanFilter, Bool.and_eq_true] at h
      obtain ⟨f, hf, _, _⟩ := cleanField_inv h.1
      obtain ⟨q, p2, d2, rfl, hq⟩ := cleanValue_inv h.2
      simp only [toAstW, toAst, opdAst_field hf, hf, opdAst_value q p2 d2 hq, litAst]
      cases astOfPrim q <;> rfl
    case greater =>
      simp only [cleanFilter, Bool.and_eq_true] at h
      obtain ⟨f, hf, _, _⟩ := cleanField_inv h.1
      obtain ⟨q, p2, d2, rfl, hq⟩ := cleanValue_inv h.2
      simp only [toAstW, toAst, opdAst_field hf, hf, opdAst_value q p2 d2 hq, litAst]
      cases astOfPrim q <;> rfl
    case less =>
      simp only [cleanFilter, Bool.and_eq_true] at h
      obtain ⟨f, hf, _, _⟩ := cleanField_inv h.1
      obtain ⟨q, p2, d2, rfl, hq⟩ := cleanValue_inv h.2
      simp only [toAstW, toAst, opdAst_field hf, hf, opdAst_value q p2 d2 hq, litAst]
      cases astOfPrim q <;> rfl
    case greaterEq =>
      simp only [cleanFilter, Bool.and_eq_true] at h
      obtain ⟨f, hf, _, _⟩ := cleanField_inv h.1
      obtain ⟨q, p2, d2, rfl, hq⟩ := cleanValue_inv h.2
      simp only [toAstW, toAst, opdAst_field hf, hf, opdAst_value q p2 d2 hq, litAst]
      cases astOfPrim q <;> rfl
    case lessEq =>
      simp only [cleanFilter, Bool.and_eq_true] at h
      obtain ⟨f, hf, _, _⟩ := cleanField_inv h.1
      obtain ⟨q, p2, d2, rfl, hq⟩ := cleanValue_inv h.2
      simp only [toAstW, toAst, opdAst_field hf, hf, opdAst_value q p2 d2 hq, litAst]
      cases astOfPrim q <;> rfl
    all_goals simp [cleanFilter] at h
end

end GoLucene.SqlWide

#print axioms GoLucene.SqlWide.toAstW_extends
#print axioms GoLucene.SqlWide.confined_of_clean
#print axioms GoLucene.SqlWide.textWide_of_clean
