import GoLucene.Proofs.Jux
import GoLucene.Model.Lex
/-
  C09, keyword part: the letter case of AND / OR / NOT / TO never changes the outcome.

  Two facts, which together give the claim:

  1. `keywordOf_case` — the lexer's keyword test (`strings.ToUpper(word) == "AND"` …) gives the same token
     type for two words that agree byte-by-byte up to ASCII letter case (`sameUpToCase`).  The word itself is cut
     out of the input by `lexWord`, which looks at the classes of the runes only; `and`, `And`, `aNd`, `AND` are
     four words of three ASCII letters each, so they are cut identically as soon as the letter predicate holds of
     both cases of a, n, d, o, r, t (`lexWord_letters` / `word_case` state this on cells).

  2. `parseToks_ignores_keyword_text` — the parser never looks at the text (`Tok.val`) of a token that is not a
     term (literal / quoted / regexp): two token lists with the same types, and the same text at every term
     position, parse to the same result.  So `a and b`, `a AND b`, `a aNd b` — whose token lists differ only in the
     `val` of the `tand` token — have the same outcome.
-/
namespace GoLucene

/-! ### 1. keyword recognition is case-insensitive -/

/-- two bytes are equal, or one is an ASCII lower-case letter and the other its upper-case form -/
def eqUpToCase (a c : UInt8) : Bool :=
  a = c || (97 ≤ a && a ≤ 122 && c = a - 32) || (97 ≤ c && c ≤ 122 && a = c - 32)

/-- two byte strings have the same length and agree byte-by-byte up to ASCII letter case -/
def sameUpToCase : Bytes → Bytes → Bool
  | [], [] => true
  | a :: as, c :: cs => eqUpToCase a c && sameUpToCase as cs
  | _, _ => false

theorem upperAscii_lower (a : UInt8) (h1 : 97 ≤ a) (h2 : a ≤ 122) : upperAscii (a - 32) = upperAscii a := by
  have e1 : upperAscii a = a - 32 := by simp [upperAscii, h1, h2]
  have h32 : (32 : UInt8) ≤ a := UInt8.le_trans (by decide) h1
  have hn : (a - 32).toNat = a.toNat - 32 := by
    rw [UInt8.toNat_sub_of_le _ _ h32]; rfl
  have hlt : ¬ (97 ≤ a - 32 ∧ a - 32 ≤ 122) := by
    intro ⟨h, _⟩
    rw [UInt8.le_iff_toNat_le] at h h1 h2
    rw [hn] at h
    have : (97 : UInt8).toNat = 97 := rfl
    have : (122 : UInt8).toNat = 122 := rfl
    omega
  have e2 : upperAscii (a - 32) = a - 32 := by simp only [upperAscii, hlt, if_false]
  rw [e1, e2]

theorem upperAscii_eqUpToCase (a c : UInt8) (h : eqUpToCase a c = true) : upperAscii a = upperAscii c := by
  simp only [eqUpToCase, Bool.or_eq_true, Bool.and_eq_true, decide_eq_true_eq] at h
  rcases h with (rfl | ⟨⟨h1, h2⟩, rfl⟩) | ⟨⟨h1, h2⟩, rfl⟩
  · rfl
  · exact (upperAscii_lower a h1 h2).symm
  · exact upperAscii_lower c h1 h2

theorem map_upper_case : ∀ (v v' : Bytes), sameUpToCase v v' = true → v.map upperAscii = v'.map upperAscii
  | [], [], _ => rfl
  | a :: as, c :: cs, h => by
    simp only [sameUpToCase, Bool.and_eq_true] at h
    simp only [List.map_cons, upperAscii_eqUpToCase a c h.1, map_upper_case as cs h.2]
  | [], _ :: _, h => by simp [sameUpToCase] at h
  | _ :: _, [], h => by simp [sameUpToCase] at h

/-- K.1: words that agree up to ASCII letter case are the same keyword (or both none). -/
theorem keywordOf_case (v v' : Bytes) (h : sameUpToCase v v' = true) : keywordOf v = keywordOf v' := by
  unfold keywordOf
  rw [map_upper_case v v' h]

/-- the token type `next` gives to a word is the same for both spellings -/
theorem wordType_case (v v' : Bytes) (h : sameUpToCase v v' = true) :
    (keywordOf v).getD .literal = (keywordOf v').getD .literal := by
  rw [keywordOf_case v v' h]

theorem sameUpToCase_length : ∀ (v v' : Bytes), sameUpToCase v v' = true → v.length = v'.length
  | [], [], _ => rfl
  | a :: as, c :: cs, h => by
    simp only [sameUpToCase, Bool.and_eq_true] at h
    simp [sameUpToCase_length as cs h.2]
  | [], _ :: _, h => by simp [sameUpToCase] at h
  | _ :: _, [], h => by simp [sameUpToCase] at h

theorem sameUpToCase_refl : ∀ (v : Bytes), sameUpToCase v v = true
  | [] => rfl
  | a :: as => by simp [sameUpToCase, eqUpToCase, sameUpToCase_refl as]

theorem sameUpToCase_append : ∀ (v v' u u' : Bytes), sameUpToCase v v' = true → sameUpToCase u u' = true →
    sameUpToCase (v ++ u) (v' ++ u') = true
  | [], [], _, _, _, h => h
  | a :: as, c :: cs, u, u', h, hu => by
    simp only [sameUpToCase, Bool.and_eq_true] at h
    simp only [List.cons_append, sameUpToCase, Bool.and_eq_true]
    exact ⟨h.1, sameUpToCase_append as cs u u' h.2 hu⟩
  | [], _ :: _, _, _, h, _ => by simp [sameUpToCase] at h
  | _ :: _, [], _, _, h, _ => by simp [sameUpToCase] at h

/-- `lexWord` runs through a stretch of letters and continues behind it, whatever the letters are -/
theorem lexWord_letters (k : Cls) (w rest : List Cell) (hw : ∀ c ∈ w, k.isLetter c.r = true) :
    lexWord k (w ++ rest) = (w ++ (lexWord k rest).1, (lexWord k rest).2) := by
  induction w with
  | nil => rfl
  | cons c cs ih =>
    have hc : (k.isAlnum c.r || isWild c.r || decide (c.r = 46) || decide (c.r = 45)) = true := by
      simp [Cls.isAlnum, hw c (by simp)]
    rw [List.cons_append, lexWord.eq_def]
    simp only [hc, if_true]
    rw [ih (fun d hd => hw d (by simp [hd]))]
    rfl

/-- K.1 on cells: two spellings `w`, `w'` of a stretch of letters (the letter predicate holds of every cell of
    both), equal up to ASCII case, in the same context: the lexer cuts words of the same shape (the spelling, then
    the same continuation `p`), leaves the same rest, and gives them the same token type. -/
theorem word_case (k : Cls) (w w' rest : List Cell)
    (hw : ∀ c ∈ w, k.isLetter c.r = true) (hw' : ∀ c ∈ w', k.isLetter c.r = true)
    (hcase : sameUpToCase (cellsBytes w) (cellsBytes w') = true) :
    ∃ p r, lexWord k (w ++ rest) = (w ++ p, r) ∧ lexWord k (w' ++ rest) = (w' ++ p, r) ∧
      (keywordOf (cellsBytes (w ++ p))).getD .literal = (keywordOf (cellsBytes (w' ++ p))).getD .literal := by
  refine ⟨(lexWord k rest).1, (lexWord k rest).2, lexWord_letters k w rest hw, lexWord_letters k w' rest hw', ?_⟩
  apply wordType_case
  simp only [cellsBytes, List.flatMap_append]
  exact sameUpToCase_append _ _ _ _ hcase (sameUpToCase_refl _)

/-! ### 2. the parser never reads the text of a non-term token -/

/-- same token type, and the same text if the token is a term (literal, quoted, regexp) -/
def tokSim (t t' : Tok) : Prop := t'.typ = t.typ ∧ (t.typ.isTerm = true → t'.val = t.val)

/-- pointwise `tokSim` on token lists (so: same length) -/
inductive ToksSim : List Tok → List Tok → Prop
  | nil : ToksSim [] []
  | cons {x x' : Tok} {tl tl' : List Tok} : tokSim x x' → ToksSim tl tl' → ToksSim (x :: tl) (x' :: tl')

/-- a terminal token that may be shifted is a term (error and EOF tokens are never shifted) -/
theorem isTerm_of_shift (cur x : TT) (hs : shouldShift cur x = true) (ht : x.isTerminal = true) :
    x.isTerm = true := by
  cases x <;> simp_all [shouldShift, TT.isTerminal, TT.isTerm]

theorem runW_tokSim (isNum : Bool → Ex → Bool) :
    ∀ (n : Nat) (toks toks' : List Tok) (c : Cfg), 3 * toks.length + c.stack.length ≤ n →
      ToksSim toks toks' → runW isNum c toks' = runW isNum c toks := by
  intro n
  induction n with
  | zero =>
    intro toks toks' c hn hsim
    cases hsim with
    | nil => rfl
    | cons _ _ => simp at hn
  | succ n ih =>
    intro toks toks' c hn hsim
    cases hsim with
    | nil => rfl
    | @cons x x' tl tl' hx htl =>
      rw [runW_cons, runW_cons, hx.1]
      split
      · rfl
      · split
        · rename_i hs
          split
          · rename_i ht
            have hterm := isTerm_of_shift _ _ hs ht
            have hxx : x' = x := by
              obtain ⟨t1, v1⟩ := x
              obtain ⟨t2, v2⟩ := x'
              have h1 := hx.1
              have h2 := hx.2 hterm
              simp only at h1 h2
              rw [h1, h2]
            rw [hxx]
            split
            · split
              · rfl
              · rename_i c' hc'
                have hl := reduceUntilShift_len isNum _ _ _ _ hc'
                apply ih _ _ _ _ htl
                simp at hn ⊢
                omega
            · apply ih _ _ _ _ htl
              simp at hn ⊢
              omega
          · apply ih _ _ _ _ htl
            simp at hn ⊢
            omega
        · split
          · rfl
          · rename_i c' hc'
            have hl := reduce_len isNum _ _ hc'
            exact ih (x :: tl) (x' :: tl') c' (by simp at hn ⊢; omega) (ToksSim.cons hx htl)

/-- K.2 (relational form): token lists that are pointwise `tokSim` parse to the same result. -/
theorem parseToks_tokSim (isNum : Bool → Ex → Bool) (toks toks' : List Tok)
    (h : ToksSim toks toks') : parseToks isNum toks' = parseToks isNum toks :=
  runW_tokSim isNum _ toks toks' _ (Nat.le_refl _) h

theorem toksSim_of_index : ∀ (l l' : List Tok), l'.length = l.length →
    (∀ (i : Nat) (h : i < l.length) (h' : i < l'.length), tokSim l[i] l'[i]) → ToksSim l l'
  | [], [], _, _ => .nil
  | [], _ :: _, h, _ => by simp at h
  | _ :: _, [], h, _ => by simp at h
  | a :: l, a' :: l', hl, h => by
    refine .cons (h 0 (by simp) (by simp)) (toksSim_of_index l l' (by simpa using hl) ?_)
    intro i hi hi'
    exact h (i + 1) (by simp; omega) (by simp; omega)

/-- K.2: the parser never looks at the text of AND / OR / NOT / TO or of a symbol token.
    If `toks'` and `toks` have the same length, the same `typ` at every position, and the same `val` at every
    position whose `typ` is a term type (literal, quoted, regexp), they parse to the same result. -/
theorem parseToks_ignores_keyword_text (isNum : Bool → Ex → Bool) (toks toks' : List Tok)
    (hlen : toks'.length = toks.length)
    (htyp : ∀ (i : Nat) (h : i < toks.length) (h' : i < toks'.length), toks'[i].typ = toks[i].typ)
    (hval : ∀ (i : Nat) (h : i < toks.length) (h' : i < toks'.length),
      toks[i].typ.isTerm = true → toks'[i].val = toks[i].val) :
    parseToks isNum toks' = parseToks isNum toks :=
  parseToks_tokSim isNum toks toks'
    (toksSim_of_index toks toks' hlen (fun i h h' => ⟨htyp i h h', hval i h h'⟩))

end GoLucene
