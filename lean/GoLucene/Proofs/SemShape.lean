import GoLucene.Model.Sem
import GoLucene.Model.Shape
/-
  What the constructor semantics of the parser can build: `semShape`.  Every result of `sem` (and of
  `finalize` before Validate) satisfies it, for every tree of reductions and every default field.
  `semShape` is the invariant "ParserShape" of DESIGN §5: the no-panic / no-garble theorems of C01, the shape
  theorem of C10 and the parser half of `wfTree` are consequences.
-/
namespace GoLucene

/-- the field position after the constructor's column wrapping -/
def fieldE (op : Op) (a : Expr) : Expr :=
  match a with
  | .mk (.prim (.str s)) _ _ _ _ => if operatesOnColumn op then lit (.prim (.col s)) else a
  | _ => a

theorem normLeft_expr (a : Expr) (op : Op) : normLeft (.expr a) op = .expr (fieldE op a) := by
  obtain ⟨l, o, r, p, d⟩ := a
  cases l with
  | prim pr =>
    cases pr <;> simp [normLeft, isStringlike, wrapInColumn, Node.isLiteral, fieldE] <;>
      cases h : operatesOnColumn op <;> simp [Node.isLiteral]
  | _ => simp [normLeft, isStringlike, Node.isLiteral, fieldE]

/-! ### the constructor on the argument shapes the reducers use -/

theorem mkExpr_bin (a c : Expr) (op : Op)
    (hop : op = .and ∨ op = .or ∨ op = .greater ∨ op = .less ∨ op = .greaterEq ∨ op = .lessEq) :
    mkExpr (.expr a) op [.expr c] = .ok (.mk (.expr (fieldE op a)) op (.expr c) F64.one 1) := by
  rcases hop with rfl | rfl | rfl | rfl | rfl | rfl <;>
    simp [mkExpr, normLeft_expr, rangeArgs, rightArg, Node.isNil, Node.isLiteral]

theorem mkExpr_equals (a c : Expr) :
    mkExpr (.expr a) .equals [.expr c] =
      .ok (.mk (.expr (fieldE .equals a)) (if c.op = .wild ∨ c.op = .regexp then .like else .equals) (.expr c) F64.one 1) := by
  by_cases h : c.op = .wild ∨ c.op = .regexp
  · simp [mkExpr, normLeft_expr, shouldUseLike, h]
  · have h' : ¬ (c.op = .wild ∨ c.op = .regexp) := h
    simp only [not_or] at h
    simp [mkExpr, normLeft_expr, shouldUseLike, h.1, h.2, rangeArgs, rightArg, Node.isNil, Node.isLiteral, h']

theorem fieldE_noncol (a : Expr) (op : Op) (h : operatesOnColumn op = false) : fieldE op a = a := by
  obtain ⟨l, o, r, p, d⟩ := a
  cases l with
  | prim pr => cases pr <;> simp [fieldE, h]
  | _ => simp [fieldE]

theorem mkExpr_unary (a : Expr) (op : Op) (hop : op = .not ∨ op = .must ∨ op = .mustNot) :
    mkExpr (.expr a) op [] = .ok (.mk (.expr a) op .nil F64.one 1) := by
  rcases hop with rfl | rfl | rfl
  · simp [mkExpr, normLeft_expr, rangeArgs, rightArg, fieldE_noncol a .not (by decide)]
  · simp [mkExpr, normLeft_expr, rangeArgs, rightArg, fieldE_noncol a .must (by decide)]
  · simp [mkExpr, normLeft_expr, rangeArgs, rightArg, fieldE_noncol a .mustNot (by decide)]

theorem mkExpr_fuzzy (a : Expr) (i : Int) :
    mkExpr (.expr a) .fuzzy [.prim (.int i)] = .ok (.mk (.expr a) .fuzzy .nil F64.one i) := by
  simp [mkExpr, normLeft_expr, fuzzyArg, fieldE_noncol a .fuzzy (by decide)]

theorem mkExpr_boost (a : Expr) (f : F64) :
    mkExpr (.expr a) .boost [.prim (.flt f)] = .ok (.mk (.expr a) .boost .nil f 1) := by
  simp [mkExpr, normLeft_expr, boostArg, fieldE_noncol a .boost (by decide)]

theorem mkExpr_range (a lo hi : Expr) (incl : Bool) :
    mkExpr (.expr a) .range [.expr lo, .expr hi, .prim (.bool incl)] =
      .ok (.mk (.expr (fieldE .range a)) .range (.bound (.expr lo) (.expr hi) incl) F64.one 1) := by
  simp [mkExpr, normLeft_expr, rangeArgs, literalToExpr]

theorem mkExpr_in (a l : Expr) :
    mkExpr (.expr a) .in_ [.expr l] = .ok (.mk (.expr (fieldE .in_ a)) .in_ (.expr l) F64.one 1) := by
  simp [mkExpr, normLeft_expr, rangeArgs]

/-- wrapLiteral's and finalize's `Eq(Column(field), lit)` -/
theorem mkExpr_wrapCol (df : Bytes) (e : Expr) (h : e.op = .literal) :
    mkExpr (.prim (.col df)) .equals [.expr e] = .ok (.mk (.expr (lit (.prim (.col df)))) .equals (.expr e) F64.one 1) := by
  simp [mkExpr, normLeft, isStringlike, Node.isLiteral, Prim.isLiteral, literalToExpr, shouldUseLike, h, rangeArgs, rightArg, Node.isNil]

theorem mkExpr_wrapStr (df : Bytes) (e : Expr) (h : e.op = .literal) :
    mkExpr (.prim (.str df)) .equals [.expr e] = .ok (.mk (.expr (lit (.prim (.col df)))) .equals (.expr e) F64.one 1) := by
  simp [mkExpr, normLeft, isStringlike, operatesOnColumn, wrapInColumn, Node.isLiteral, shouldUseLike, h, rangeArgs, rightArg, Node.isNil]

/-! ### the shape -/

/-- a leaf as `parseLiteral` builds it, or a wrapped column -/
def semLeaf : Expr → Bool
  | .mk (.prim p) o .nil _ _ =>
    (match p with
     | .str _ => o.isLeafOp
     | .int _ => o = .literal
     | .flt f => o = .literal && !f.isInf && !f.isNaN
     | .col _ => o = .literal
     | _ => false)
  | _ => false

def ExprList.allSemLit : ExprList → Bool
  | .nil => true
  | .cons e t => semLeaf e && e.op = .literal && t.allSemLit

mutual
def semNode : Node → Bool
  | .expr e => semShape e
  | _ => false
def semShape : Expr → Bool
  | .mk l o r p d =>
    match o with
    | .literal | .wild | .regexp => semLeaf (.mk l o r p d)
    | .and | .or | .equals | .greater | .less | .greaterEq | .lessEq => semNode l && semNode r
    | .not | .must | .mustNot | .fuzzy | .boost => semNode l && r.isNil
    | .like =>
      semNode l && (match r with
        | .expr re => semLeaf re && (re.op = .wild || re.op = .regexp)
        | _ => false)
    | .in_ =>
      semNode l && (match r with
        | .expr (.mk (.list es) .list .nil _ _) => es.allSemLit && decide (2 ≤ es.length)
        | _ => false)
    | .range =>
      semNode l && (match r with
        | .bound (.expr a) (.expr c) _ => semShape a && semShape c
        | _ => false)
    | .list | .undefined => false
end

theorem semShape_leaf (e : Expr) (h : semLeaf e = true) : semShape e = true := by
  obtain ⟨l, o, r, p, d⟩ := e
  cases l with
  | prim pr =>
    cases r <;> simp [semLeaf] at h
    cases pr <;> simp [semLeaf] at h <;> cases o <;> simp_all [semShape, semLeaf, Op.isLeafOp]
  | _ => simp [semLeaf] at h

theorem semLeaf_of_shape_leafop (e : Expr) (h : semShape e = true) (ho : e.op.isLeafOp = true) : semLeaf e = true := by
  obtain ⟨l, o, r, p, d⟩ := e
  cases o <;> simp_all [semShape, Op.isLeafOp, Expr.op]

theorem semLeaf_lit_col (s : Bytes) : semLeaf (lit (.prim (.col s))) = true := by
  simp [semLeaf, lit, mkLeaf]

theorem semShape_fieldE (op : Op) (a : Expr) (h : semShape a = true) : semShape (fieldE op a) = true := by
  obtain ⟨l, o, r, p, d⟩ := a
  cases l with
  | prim pr =>
    cases pr <;> simp only [fieldE] <;> try exact h
    split
    · exact semShape_leaf _ (semLeaf_lit_col _)
    · exact h
  | _ => simpa [fieldE] using h

/-- parseLiteral builds a leaf -/
theorem parseLiteral_leaf (t : Tok) : semLeaf (parseLiteral t) = true := by
  unfold parseLiteral
  split
  · simp [semLeaf, lit, mkLeaf, Op.isLeafOp]
  · split
    · simp [semLeaf, mkLeaf, Op.isLeafOp]
    · split
      · simp [semLeaf, lit, mkLeaf]
      · split
        · rename_i f hf
          split at hf
          · split at hf
            · simp at hf
            · rename_i hfin
              simp at hf
              subst hf
              simp only [Bool.or_eq_true, not_or, Bool.not_eq_true] at hfin
              simp [semLeaf, lit, mkLeaf, hfin.1, hfin.2]
          · simp at hf
        · split
          · simp [semLeaf, mkLeaf, Op.isLeafOp]
          · split <;> simp [semLeaf, lit, mkLeaf, Op.isLeafOp]

theorem wrapLiteral_shape (df : Bytes) (e w : Expr) (he : semShape e = true) (h : wrapLiteral df e = .ok w) :
    semShape w = true := by
  unfold wrapLiteral at h
  split at h
  · rename_i hc
    simp only [Bool.and_eq_true, decide_eq_true_eq] at hc
    rw [mkExpr_wrapCol df e hc.1] at h
    simp at h
    subst h
    have hl := semLeaf_of_shape_leafop e he (by simp [hc.1, Op.isLeafOp])
    simp [semShape, semNode, semShape_leaf _ (semLeaf_lit_col df), he]
  · simp at h; subst h; exact he

/-- the literals of an OR-chain are sub-expressions of it with the Literal operator -/
theorem chained_lits_shape : ∀ (e : Expr), semShape e = true →
    ∀ x ∈ (chainedOrLiterals e).1, semLeaf x = true ∧ x.op = .literal
  | .mk l o r p d, h => by
    intro x hx
    unfold chainedOrLiterals at hx
    split at hx
    · rename_i ho
      simp at hx
      subst hx
      subst ho
      exact ⟨semLeaf_of_shape_leafop _ h (by simp [Expr.op, Op.isLeafOp]), rfl⟩
    · split at hx
      · rename_i ho
        subst ho
        split at hx
        · rename_i le re
          simp only [semShape, semNode, Bool.and_eq_true] at h
          simp only [List.mem_append] at hx
          rcases hx with hx | hx
          · exact chained_lits_shape le h.1 x hx
          · exact chained_lits_shape re h.2 x hx
        · simp at hx
      · simp at hx

theorem allSemLit_ofList (lits : List Expr) (h : ∀ x ∈ lits, semLeaf x = true ∧ x.op = .literal) :
    (ExprList.ofList lits).allSemLit = true := by
  induction lits with
  | nil => simp [ExprList.ofList, ExprList.allSemLit]
  | cons x xs ih =>
    have hx := h x (by simp)
    simp [ExprList.ofList, ExprList.allSemLit, hx.1, hx.2]
    exact ih (fun y hy => h y (by simp [hy]))

theorem length_ofList (lits : List Expr) : (ExprList.ofList lits).length = lits.length := by
  induction lits with
  | nil => simp [ExprList.ofList, ExprList.length, ExprList.toList]
  | cons x xs ih => simpa [ExprList.ofList, ExprList.length, ExprList.toList] using ih

/-- every result of the constructor semantics has the parser shape -/
theorem sem_shape (env : Env) (df : Bytes) : ∀ (ex : Ex) (e : Expr), sem env df ex = .ok e → semShape e = true
  | .leaf t, e, h => by
    simp [sem] at h
    subst h
    exact semShape_leaf _ (parseLiteral_leaf t)
  | .eq f v, e, h => by
    have ihf := sem_shape env df f
    have ihv := sem_shape env df v
    simp only [sem] at h
    cases hf : sem env df f with
    | err => simp [hf, bind, Out.bind] at h
    | panic => simp [hf, bind, Out.bind] at h
    | ok f' =>
      cases hv : sem env df v with
      | err => simp [hf, hv, bind, Out.bind] at h
      | panic => simp [hf, hv, bind, Out.bind] at h
      | ok v' =>
        simp only [hf, hv, bind, Out.bind] at h
        have sf := ihf f' hf
        have sv := ihv v' hv
        split at h
        · rename_i hc
          rw [mkExpr_in] at h
          simp at h
          subst h
          simp only [Bool.and_eq_true, decide_eq_true_eq] at hc
          have hall := chained_lits_shape v' sv
          simp [semShape, semNode, semShape_fieldE _ _ sf, mkList, mkLeaf, allSemLit_ofList _ hall, length_ofList]
          omega
        · rw [mkExpr_equals] at h
          simp at h
          subst h
          by_cases hw : v'.op = .wild ∨ v'.op = .regexp
          · have hl : semLeaf v' = true := semLeaf_of_shape_leafop v' sv (by rcases hw with h | h <;> simp [h, Op.isLeafOp])
            simp only [hw, if_true]
            simp [semShape, semNode, semShape_fieldE _ _ sf, hl]
            rcases hw with h | h <;> simp [h]
          · simp only [hw, if_false]
            simp [semShape, semNode, semShape_fieldE _ _ sf, sv]
  | .inn f vs, e, h => by simp [sem] at h
  | .cmp gt orEq f v, e, h => by
    have ihf := sem_shape env df f
    have ihv := sem_shape env df v
    simp only [sem] at h
    cases hf : sem env df f with
    | err => simp [hf, bind, Out.bind] at h
    | panic => simp [hf, bind, Out.bind] at h
    | ok f' =>
      cases hv : sem env df v with
      | err => simp [hf, hv, bind, Out.bind] at h
      | panic => simp [hf, hv, bind, Out.bind] at h
      | ok v' =>
        simp only [hf, hv, bind, Out.bind] at h
        have sf := ihf f' hf
        have sv := ihv v' hv
        rw [mkExpr_bin _ _ _ (by cases gt <;> cases orEq <;> simp [cmpOp])] at h
        simp at h
        subst h
        cases gt <;> cases orEq <;> simp [cmpOp, semShape, semNode, semShape_fieldE _ _ sf, sv]
  | .range f lo hi incl, e, h => by
    have ihf := sem_shape env df f
    have ihlo := sem_shape env df lo
    have ihhi := sem_shape env df hi
    simp only [sem] at h
    cases hf : sem env df f with
    | err => simp [hf, bind, Out.bind] at h
    | panic => simp [hf, bind, Out.bind] at h
    | ok f' =>
      cases hl : sem env df lo with
      | err => simp [hf, hl, bind, Out.bind] at h
      | panic => simp [hf, hl, bind, Out.bind] at h
      | ok lo' =>
        cases hh : sem env df hi with
        | err => simp [hf, hl, hh, bind, Out.bind] at h
        | panic => simp [hf, hl, hh, bind, Out.bind] at h
        | ok hi' =>
          simp only [hf, hl, hh, bind, Out.bind] at h
          rw [mkExpr_range] at h
          simp at h
          subst h
          simp [semShape, semNode, semShape_fieldE _ _ (ihf f' hf), ihlo lo' hl, ihhi hi' hh]
  | .and l r, e, h => by
    have ihl := sem_shape env df l
    have ihr := sem_shape env df r
    simp only [sem] at h
    cases hl : sem env df l with
    | err => simp [hl, bind, Out.bind] at h
    | panic => simp [hl, bind, Out.bind] at h
    | ok l' =>
      cases hr : sem env df r with
      | err => simp [hl, hr, bind, Out.bind] at h
      | panic => simp [hl, hr, bind, Out.bind] at h
      | ok r' =>
        simp only [hl, hr, bind, Out.bind] at h
        cases hwl : wrapLiteral df l' with
        | err => simp [hwl] at h
        | panic => simp [hwl] at h
        | ok wl =>
          cases hwr : wrapLiteral df r' with
          | err => simp [hwl, hwr] at h
          | panic => simp [hwl, hwr] at h
          | ok wr =>
            simp only [hwl, hwr] at h
            rw [mkExpr_bin _ _ _ (by simp)] at h
            simp at h
            subst h
            have s1 := wrapLiteral_shape df l' wl (ihl l' hl) hwl
            have s2 := wrapLiteral_shape df r' wr (ihr r' hr) hwr
            simp [semShape, semNode, fieldE_noncol wl .and (by decide), s1, s2]
  | .or l r, e, h => by
    have ihl := sem_shape env df l
    have ihr := sem_shape env df r
    simp only [sem] at h
    cases hl : sem env df l with
    | err => simp [hl, bind, Out.bind] at h
    | panic => simp [hl, bind, Out.bind] at h
    | ok l' =>
      cases hr : sem env df r with
      | err => simp [hl, hr, bind, Out.bind] at h
      | panic => simp [hl, hr, bind, Out.bind] at h
      | ok r' =>
        simp only [hl, hr, bind, Out.bind] at h
        cases hwl : wrapLiteral df l' with
        | err => simp [hwl] at h
        | panic => simp [hwl] at h
        | ok wl =>
          cases hwr : wrapLiteral df r' with
          | err => simp [hwl, hwr] at h
          | panic => simp [hwl, hwr] at h
          | ok wr =>
            simp only [hwl, hwr] at h
            rw [mkExpr_bin _ _ _ (by simp)] at h
            simp at h
            subst h
            have s1 := wrapLiteral_shape df l' wl (ihl l' hl) hwl
            have s2 := wrapLiteral_shape df r' wr (ihr r' hr) hwr
            simp [semShape, semNode, fieldE_noncol wl .or (by decide), s1, s2]
  | .not x, e, h => by
    have ih := sem_shape env df x
    simp only [sem] at h
    cases hx : sem env df x with
    | err => simp [hx, bind, Out.bind] at h
    | panic => simp [hx, bind, Out.bind] at h
    | ok x' =>
      simp only [hx, bind, Out.bind] at h
      cases hw : wrapLiteral df x' with
      | err => simp [hw] at h
      | panic => simp [hw] at h
      | ok w =>
        simp only [hw] at h
        rw [mkExpr_unary _ _ (by simp)] at h
        simp at h
        subst h
        simp [semShape, semNode, wrapLiteral_shape df x' w (ih x' hx) hw, Node.isNil]
  | .must x, e, h => by
    have ih := sem_shape env df x
    simp only [sem] at h
    cases hx : sem env df x with
    | err => simp [hx, bind, Out.bind] at h
    | panic => simp [hx, bind, Out.bind] at h
    | ok x' =>
      simp only [hx, bind, Out.bind] at h
      rw [mkExpr_unary _ _ (by simp)] at h
      simp at h
      subst h
      simp [semShape, semNode, ih x' hx, Node.isNil]
  | .mustNot x, e, h => by
    have ih := sem_shape env df x
    simp only [sem] at h
    cases hx : sem env df x with
    | err => simp [hx, bind, Out.bind] at h
    | panic => simp [hx, bind, Out.bind] at h
    | ok x' =>
      simp only [hx, bind, Out.bind] at h
      rw [mkExpr_unary _ _ (by simp)] at h
      simp at h
      subst h
      simp [semShape, semNode, ih x' hx, Node.isNil]
  | .fuzzy x none, e, h => by
    have ih := sem_shape env df x
    simp only [sem] at h
    cases hx : sem env df x with
    | err => simp [hx, bind, Out.bind] at h
    | panic => simp [hx, bind, Out.bind] at h
    | ok x' =>
      simp only [hx, bind, Out.bind] at h
      rw [mkExpr_fuzzy] at h
      simp at h
      subst h
      simp [semShape, semNode, ih x' hx, Node.isNil]
  | .fuzzy x (some dd), e, h => by
    have ih := sem_shape env df x
    simp only [sem] at h
    cases hx : sem env df x with
    | err => simp [hx, bind, Out.bind] at h
    | panic => simp [hx, bind, Out.bind] at h
    | ok x' =>
      cases hd : sem env df dd with
      | err => simp [hx, hd, bind, Out.bind] at h
      | panic => simp [hx, hd, bind, Out.bind] at h
      | ok d' =>
        simp only [hx, hd, bind, Out.bind] at h
        cases hs : strOf env d' with
        | err => simp [hs] at h
        | panic => simp [hs] at h
        | ok str =>
          simp only [hs] at h
          cases ha : atoi str with
          | none => simp [ha] at h
          | some i =>
            simp only [ha] at h
            rw [mkExpr_fuzzy] at h
            simp at h
            subst h
            simp [semShape, semNode, ih x' hx, Node.isNil]
  | .boost x none, e, h => by
    have ih := sem_shape env df x
    simp only [sem] at h
    cases hx : sem env df x with
    | err => simp [hx, bind, Out.bind] at h
    | panic => simp [hx, bind, Out.bind] at h
    | ok x' =>
      simp only [hx, bind, Out.bind] at h
      rw [mkExpr_boost] at h
      simp at h
      subst h
      simp [semShape, semNode, ih x' hx, Node.isNil]
  | .boost x (some pp), e, h => by
    have ih := sem_shape env df x
    simp only [sem] at h
    cases hx : sem env df x with
    | err => simp [hx, bind, Out.bind] at h
    | panic => simp [hx, bind, Out.bind] at h
    | ok x' =>
      cases hd : sem env df pp with
      | err => simp [hx, hd, bind, Out.bind] at h
      | panic => simp [hx, hd, bind, Out.bind] at h
      | ok p' =>
        simp only [hx, hd, bind, Out.bind] at h
        cases hs : strOf env p' with
        | err => simp [hs] at h
        | panic => simp [hs] at h
        | ok str =>
          simp only [hs] at h
          cases ha : toPositiveFloat str with
          | none => simp [ha] at h
          | some f =>
            simp only [ha] at h
            rw [mkExpr_boost] at h
            simp at h
            subst h
            simp [semShape, semNode, ih x' hx, Node.isNil]

end GoLucene
