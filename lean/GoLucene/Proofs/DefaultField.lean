import GoLucene.Proofs.SemTotal
import GoLucene.Proofs.Full5
import GoLucene.Proofs.PrintClean
/-
  C11: what `WithDefaultField(df)` does to a parse.

  Property: "Parsing with a default field `df` that is not otherwise used in the query accepts exactly the queries
  accepted without it, and erasing every `df:` scoping from its result gives back exactly the tree obtained without the
  option; explicitly fielded terms are never re-scoped.  In the result no bare term remains: every term that stood
  alone as an operand (of AND, OR, NOT, +, -, ~, ^, juxtaposition) or as the whole query has become `df:term`."

  The implementation VIOLATES this in three shapes (recorded findings, reproduced by the model, §4 below):
    * a value list `a:(x OR y)` loses its list form (OR wraps its operands before `equal` looks for a list);
    * bare terms under `+ - ~ ^` stay unscoped;
    * bare wildcard patterns / regexps stay unscoped.
  What is proved is the strongest partial statement, with the excluded shapes as executable hypotheses.

  (2) Control flow.  `isNum_df_independent`: `isNumOf env df k d = isNumOf env [] k d` for EVERY operand `d`, kind,
      environment and default field — no friendliness needed.  (Only AND/OR/NOT/`f:v`/comparison/range nodes can
      differ, and their text contains a space, `(` or `:`; such a text is not a number: `atoi_poison`,
      `toPositiveFloat_poison`, proved from Model/Num.lean — the structure `NumFacts` records exactly the two
      facts about number parsing that are used, and `numFacts` proves them.)  With `runW_congr`:
      `parseToks_df_independent` — the shift/reduce run accepts the same inputs and builds the same tree of reductions.
  (1) Erasure.  `sem_erase`, `finalize_erase` under `dfEraseOK`: no `f:v` node has a value list as its value, and
      none has the default field itself as its field (unless its value is a pattern: a LIKE node is not a scoping).
      `sem_validate`/`finalize_df`: Validate gives the same verdict, so acceptance is the same: `c11_erase`.
  (3) `no_bare_term` under `plainOperand ex && dfScoped ex`: operands of AND/OR/NOT (and the whole query) are not
      bare patterns, operands of `+ - ~ ^` are not bare terms.  `c11` puts everything together on token lists.
  (4) `refute_must`, `refute_pattern`, `refute_pattern_alone`, `refute_valueList` (the three findings, through
      the real shift/reduce run), `refute_fieldUsed` (necessity of "df not otherwise used").
-/
namespace GoLucene
open Num

/-! ### inversion of the constructor semantics -/

def wrapE (df : Bytes) (e : Expr) : Expr :=
  if e.op = .literal && !df.isEmpty then .mk (.expr (lit (.prim (.col df)))) .equals (.expr e) F64.one 1 else e

theorem wrapLiteral_eq (df : Bytes) (e : Expr) : wrapLiteral df e = .ok (wrapE df e) := by
  unfold wrapLiteral wrapE
  split
  · rename_i hc
    simp only [Bool.and_eq_true, decide_eq_true_eq] at hc
    exact mkExpr_wrapCol df e hc.1
  · rfl

theorem bind_ok {α β : Type} {x : Out α} {f : α → Out β} {b : β} (h : (x >>= f) = .ok b) :
    ∃ a, x = .ok a ∧ f a = .ok b := by
  cases x with
  | ok a => exact ⟨a, rfl, h⟩
  | err => cases h
  | panic => cases h

/-- the expression an `.eq` reduction builds from the values of its operands -/
def eqE (f' v' : Expr) : Expr :=
  if (chainedOrLiterals v').2 && decide ((chainedOrLiterals v').1.length > 1) then
    .mk (.expr (fieldE .in_ f')) .in_ (.expr (mkList (ExprList.ofList (chainedOrLiterals v').1))) F64.one 1
  else .mk (.expr (fieldE .equals f')) (if v'.op = .wild ∨ v'.op = .regexp then .like else .equals) (.expr v') F64.one 1

theorem sem_eq_inv {env : Env} {df : Bytes} {f v : Ex} {e : Expr} (h : sem env df (.eq f v) = .ok e) :
    ∃ f' v', sem env df f = .ok f' ∧ sem env df v = .ok v' ∧ e = eqE f' v' := by
  simp only [sem] at h
  obtain ⟨f', hf, h⟩ := bind_ok h
  obtain ⟨v', hv, h⟩ := bind_ok h
  refine ⟨f', v', hf, hv, ?_⟩
  unfold eqE
  split at h
  · rename_i hc
    rw [mkExpr_in] at h
    rw [if_pos hc]
    exact (Out.ok.inj h).symm
  · rename_i hc
    rw [mkExpr_equals] at h
    rw [if_neg hc]
    exact (Out.ok.inj h).symm

theorem sem_cmp_inv {env : Env} {df : Bytes} {gt orEq : Bool} {f v : Ex} {e : Expr}
    (h : sem env df (.cmp gt orEq f v) = .ok e) :
    ∃ f' v', sem env df f = .ok f' ∧ sem env df v = .ok v' ∧
      e = .mk (.expr (fieldE (cmpOp gt orEq) f')) (cmpOp gt orEq) (.expr v') F64.one 1 := by
  simp only [sem] at h
  obtain ⟨f', hf, h⟩ := bind_ok h
  obtain ⟨v', hv, h⟩ := bind_ok h
  rw [mkExpr_bin _ _ _ (by cases gt <;> cases orEq <;> simp [cmpOp])] at h
  exact ⟨f', v', hf, hv, (Out.ok.inj h).symm⟩

theorem sem_range_inv {env : Env} {df : Bytes} {incl : Bool} {f lo hi : Ex} {e : Expr}
    (h : sem env df (.range f lo hi incl) = .ok e) :
    ∃ f' lo' hi', sem env df f = .ok f' ∧ sem env df lo = .ok lo' ∧ sem env df hi = .ok hi' ∧
      e = .mk (.expr (fieldE .range f')) .range (.bound (.expr lo') (.expr hi') incl) F64.one 1 := by
  simp only [sem] at h
  obtain ⟨f', hf, h⟩ := bind_ok h
  obtain ⟨lo', hl, h⟩ := bind_ok h
  obtain ⟨hi', hh, h⟩ := bind_ok h
  rw [mkExpr_range] at h
  exact ⟨f', lo', hi', hf, hl, hh, (Out.ok.inj h).symm⟩

theorem sem_and_inv {env : Env} {df : Bytes} {l r : Ex} {e : Expr} (h : sem env df (.and l r) = .ok e) :
    ∃ l' r', sem env df l = .ok l' ∧ sem env df r = .ok r' ∧
      e = .mk (.expr (wrapE df l')) .and (.expr (wrapE df r')) F64.one 1 := by
  simp only [sem, wrapLiteral_eq] at h
  obtain ⟨l', hl, h⟩ := bind_ok h
  obtain ⟨r', hr, h⟩ := bind_ok h
  obtain ⟨wl, hwl, h⟩ := bind_ok h
  obtain ⟨wr, hwr, h⟩ := bind_ok h
  cases hwl; cases hwr
  rw [mkExpr_bin _ _ _ (by simp), fieldE_noncol _ _ (by decide)] at h
  exact ⟨l', r', hl, hr, (Out.ok.inj h).symm⟩

theorem sem_or_inv {env : Env} {df : Bytes} {l r : Ex} {e : Expr} (h : sem env df (.or l r) = .ok e) :
    ∃ l' r', sem env df l = .ok l' ∧ sem env df r = .ok r' ∧
      e = .mk (.expr (wrapE df l')) .or (.expr (wrapE df r')) F64.one 1 := by
  simp only [sem, wrapLiteral_eq] at h
  obtain ⟨l', hl, h⟩ := bind_ok h
  obtain ⟨r', hr, h⟩ := bind_ok h
  obtain ⟨wl, hwl, h⟩ := bind_ok h
  obtain ⟨wr, hwr, h⟩ := bind_ok h
  cases hwl; cases hwr
  rw [mkExpr_bin _ _ _ (by simp), fieldE_noncol _ _ (by decide)] at h
  exact ⟨l', r', hl, hr, (Out.ok.inj h).symm⟩

theorem sem_not_inv {env : Env} {df : Bytes} {x : Ex} {e : Expr} (h : sem env df (.not x) = .ok e) :
    ∃ x', sem env df x = .ok x' ∧ e = .mk (.expr (wrapE df x')) .not .nil F64.one 1 := by
  simp only [sem, wrapLiteral_eq] at h
  obtain ⟨x', hx, h⟩ := bind_ok h
  obtain ⟨w, hw, h⟩ := bind_ok h
  cases hw
  rw [mkExpr_unary _ _ (by simp)] at h
  exact ⟨x', hx, (Out.ok.inj h).symm⟩

theorem sem_must_inv {env : Env} {df : Bytes} {x : Ex} {e : Expr} (h : sem env df (.must x) = .ok e) :
    ∃ x', sem env df x = .ok x' ∧ e = .mk (.expr x') .must .nil F64.one 1 := by
  simp only [sem] at h
  obtain ⟨x', hx, h⟩ := bind_ok h
  rw [mkExpr_unary _ _ (by simp)] at h
  exact ⟨x', hx, (Out.ok.inj h).symm⟩

theorem sem_mustNot_inv {env : Env} {df : Bytes} {x : Ex} {e : Expr} (h : sem env df (.mustNot x) = .ok e) :
    ∃ x', sem env df x = .ok x' ∧ e = .mk (.expr x') .mustNot .nil F64.one 1 := by
  simp only [sem] at h
  obtain ⟨x', hx, h⟩ := bind_ok h
  rw [mkExpr_unary _ _ (by simp)] at h
  exact ⟨x', hx, (Out.ok.inj h).symm⟩

theorem sem_fuzzy0_inv {env : Env} {df : Bytes} {x : Ex} {e : Expr} (h : sem env df (.fuzzy x none) = .ok e) :
    ∃ x', sem env df x = .ok x' ∧ e = .mk (.expr x') .fuzzy .nil F64.one 1 := by
  simp only [sem] at h
  obtain ⟨x', hx, h⟩ := bind_ok h
  rw [mkExpr_fuzzy] at h
  exact ⟨x', hx, (Out.ok.inj h).symm⟩

theorem sem_boost0_inv {env : Env} {df : Bytes} {x : Ex} {e : Expr} (h : sem env df (.boost x none) = .ok e) :
    ∃ x', sem env df x = .ok x' ∧ e = .mk (.expr x') .boost .nil F64.one 1 := by
  simp only [sem] at h
  obtain ⟨x', hx, h⟩ := bind_ok h
  rw [mkExpr_boost] at h
  exact ⟨x', hx, (Out.ok.inj h).symm⟩

theorem sem_fuzzy1_inv {env : Env} {df : Bytes} {x d : Ex} {e : Expr} (h : sem env df (.fuzzy x (some d)) = .ok e) :
    ∃ x' d' s i, sem env df x = .ok x' ∧ sem env df d = .ok d' ∧ strOf env d' = .ok s ∧ atoi s = some i ∧
      e = .mk (.expr x') .fuzzy .nil F64.one i := by
  simp only [sem] at h
  obtain ⟨x', hx, h⟩ := bind_ok h
  obtain ⟨d', hd, h⟩ := bind_ok h
  obtain ⟨s, hs, h⟩ := bind_ok h
  cases ha : atoi s with
  | none => simp [ha] at h
  | some i =>
    simp only [ha] at h
    rw [mkExpr_fuzzy] at h
    exact ⟨x', d', s, i, hx, hd, hs, ha, (Out.ok.inj h).symm⟩

theorem sem_boost1_inv {env : Env} {df : Bytes} {x d : Ex} {e : Expr} (h : sem env df (.boost x (some d)) = .ok e) :
    ∃ x' d' s f, sem env df x = .ok x' ∧ sem env df d = .ok d' ∧ strOf env d' = .ok s ∧ toPositiveFloat s = some f ∧
      e = .mk (.expr x') .boost .nil f 1 := by
  simp only [sem] at h
  obtain ⟨x', hx, h⟩ := bind_ok h
  obtain ⟨d', hd, h⟩ := bind_ok h
  obtain ⟨s, hs, h⟩ := bind_ok h
  cases ha : toPositiveFloat s with
  | none => simp [ha] at h
  | some f =>
    simp only [ha] at h
    rw [mkExpr_boost] at h
    exact ⟨x', d', s, f, hx, hd, hs, ha, (Out.ok.inj h).symm⟩

/-! ### texts that are not numbers -/

def poisonByte (c : UInt8) : Bool := c == 32 || c == 40 || c == 58
def poison (s : Bytes) : Bool := s.any poisonByte

theorem pb_cases {c : UInt8} (h : poisonByte c = true) : c = 32 ∨ c = 40 ∨ c = 58 := by
  simpa [poisonByte, or_assoc] using h

theorem pb_notDig {c : UInt8} (h : poisonByte c = true) : isDig c = false := by
  rcases pb_cases h with rfl | rfl | rfl <;> decide

theorem pb_ne {c : UInt8} (h : poisonByte c = true) :
    c ≠ 43 ∧ c ≠ 45 ∧ c ≠ 46 ∧ c ≠ 48 ∧ c ≠ 95 ∧ isHexLet c = false ∧ lower c ≠ 101 ∧ lower c ≠ 112 ∧ lower c ≠ 120 ∧
      lowerAZ c = c := by
  rcases pb_cases h with rfl | rfl | rfl <;> decide

theorem poison_cons (c : UInt8) (s : Bytes) : poison (c :: s) = (poisonByte c || poison s) := by
  simp [poison]

theorem poison_nil : poison [] = false := rfl

theorem digitsVal_some : ∀ (s : Bytes) (acc n : Nat), digitsVal acc s = some n → poison s = false
  | [], _, _, _ => rfl
  | c :: rest, acc, n, h => by
    simp only [digitsVal] at h
    split at h
    · rename_i hd
      rw [poison_cons, digitsVal_some rest _ _ h]
      cases hp : poisonByte c with
      | false => rfl
      | true => rw [pb_notDig hp] at hd; cases hd
    · cases h

theorem atoiU_poison (s : Bytes) (h : poison s = true) : atoiU s = none := by
  cases s with
  | nil => rfl
  | cons c rest =>
    simp only [atoiU]
    cases hd : digitsVal 0 (c :: rest) with
    | none => rfl
    | some n => rw [digitsVal_some _ _ _ hd] at h; cases h

theorem atoi_poison (s : Bytes) (h : poison s = true) : atoi s = none := by
  cases s with
  | nil => rfl
  | cons c rest =>
    rw [poison_cons] at h
    unfold atoi
    simp only []
    split
    · rename_i hc
      have hr : poison rest = true := by
        cases hp : poisonByte c with
        | false => simpa [hp] using h
        | true => exact absurd hc (pb_ne hp).2.1
      rw [atoiU_poison rest hr]
    · have hr : poison (if c = 43 then rest else c :: rest) = true := by
        split
        · rename_i hc
          cases hp : poisonByte c with
          | false => simpa [hp] using h
          | true => exact absurd hc (pb_ne hp).1
        · rw [poison_cons]; exact h
      rw [atoiU_poison _ hr]

theorem poison_map_lowerAZ (w : Bytes) (h : poison w = true) : poison (w.map lowerAZ) = true := by
  induction w with
  | nil => cases h
  | cons c rest ih =>
    rw [poison_cons] at h
    rw [List.map_cons, poison_cons]
    cases hp : poisonByte c with
    | true => rw [(pb_ne hp).2.2.2.2.2.2.2.2.2, hp]; rfl
    | false =>
      rw [hp] at h
      simp only [Bool.false_or] at h
      rw [ih h]; simp

theorem special_poison (s : Bytes) (h : poison s = true) : special s = none := by
  have key : ∀ w : Bytes, poison w = true →
      ((w.map lowerAZ == [105, 110, 102] || w.map lowerAZ == [105, 110, 102, 105, 110, 105, 116, 121]) = false) ∧
      ((w.map lowerAZ == [110, 97, 110]) = false) := by
    intro w hw
    have hm := poison_map_lowerAZ w hw
    refine ⟨?_, ?_⟩
    · cases h1 : (w.map lowerAZ == [105, 110, 102] || w.map lowerAZ == [105, 110, 102, 105, 110, 105, 116, 121]) with
      | false => rfl
      | true =>
        simp only [Bool.or_eq_true, beq_iff_eq] at h1
        rcases h1 with h1 | h1 <;> rw [h1] at hm <;> exact absurd hm (by decide)
    · cases h1 : (w.map lowerAZ == [110, 97, 110]) with
      | false => rfl
      | true =>
        simp only [beq_iff_eq] at h1
        rw [h1] at hm; exact absurd hm (by decide)
  cases s with
  | nil => rfl
  | cons c rest =>
    unfold special
    simp only []
    have hs := key (c :: rest) h
    split
    · rename_i hc
      have hr : poison rest = true := by
        rw [poison_cons] at h
        cases hp : poisonByte c with
        | false => simpa [hp] using h
        | true => exact absurd hc (pb_ne hp).1
      rw [if_neg (by rw [(key rest hr).1]; exact Bool.false_ne_true)]
    · split
      · rename_i hc
        have hr : poison rest = true := by
          rw [poison_cons] at h
          cases hp : poisonByte c with
          | false => simpa [hp] using h
          | true => exact absurd hc (pb_ne hp).2.1
        rw [if_neg (by rw [(key rest hr).1]; exact Bool.false_ne_true)]
      · rw [if_neg (by rw [hs.1]; exact Bool.false_ne_true), if_neg (by rw [hs.2]; exact Bool.false_ne_true)]

theorem scanMant_poison (hex : Bool) : ∀ (body : Bytes) (st : Scan), poison body = true →
    poison (scanMant hex st body).2 = true
  | [], _, h => by cases h
  | c :: rest, st, h => by
    rw [poison_cons] at h
    have hrest : poisonByte c = false → poison rest = true := fun hp => by simpa [hp] using h
    have hnp : ∀ {P : Prop}, (poisonByte c = true → P → False) → P → poison rest = true := by
      intro P hP hp
      cases hpc : poisonByte c with
      | false => exact hrest hpc
      | true => exact absurd hp (hP hpc)
    unfold scanMant
    split
    · rename_i hc
      exact scanMant_poison hex rest _ (hnp (fun hp hc => (pb_ne hp).2.2.2.2.1 hc) hc)
    · split
      · rename_i hc
        split
        · rw [poison_cons]; exact h
        · exact scanMant_poison hex rest _ (hnp (fun hp hc => (pb_ne hp).2.2.1 hc) hc)
      · split
        · rename_i hd
          have hr : poison rest = true := hnp (P := isDig c = true) (fun hp hd => by rw [pb_notDig hp] at hd; cases hd) hd
          split <;> exact scanMant_poison hex rest _ hr
        · split
          · rename_i hh
            have hr : poison rest = true :=
              hnp (P := hex = true ∧ isHexLet c = true) (fun hp hd => by rw [(pb_ne hp).2.2.2.2.2.1] at hd; cases hd.2) hh
            exact scanMant_poison hex rest _ hr
          · rw [poison_cons]; exact h

theorem scanExpDigits_rest : ∀ (l : Bytes) (e : Nat) (us : Bool) (e' : Nat) (us' : Bool),
    scanExpDigits e us l = (e', us', []) → poison l = false
  | [], _, _, _, _, _ => rfl
  | c :: rest, e, us, e', us', h => by
    unfold scanExpDigits at h
    rw [poison_cons]
    split at h
    · rename_i hc
      rw [scanExpDigits_rest rest _ _ _ _ h]
      cases hp : poisonByte c with
      | false => rfl
      | true => exact absurd hc (pb_ne hp).2.2.2.2.1
    · split at h
      · rename_i hd
        rw [scanExpDigits_rest rest _ _ _ _ h]
        cases hp : poisonByte c with
        | false => rfl
        | true => rw [pb_notDig hp] at hd; cases hd
      · cases h

theorem scanExp_poison (hex us : Bool) (rest : Bytes) (h : poison rest = true) : scanExp hex us rest = none := by
  unfold scanExp
  cases rest with
  | nil => cases h
  | cons c r1 =>
    cases hex <;> simp only [Bool.false_eq_true, if_false, if_true] <;>
    (split
     · rename_i hc
       have hr1 : poison r1 = true := by
         rw [poison_cons] at h
         cases hp : poisonByte c with
         | false => simpa [hp] using h
         | true =>
           exfalso
           have := pb_ne hp
           first
             | exact this.2.2.2.2.2.2.1 hc
             | exact this.2.2.2.2.2.2.2.1 hc
       cases r1 with
       | nil => rfl
       | cons s r2 =>
         simp only []
         have hr3 : poison (if s = 43 ∨ s = 45 then r2 else s :: r2) = true := by
           split
           · rename_i hs
             rw [poison_cons] at hr1
             cases hp : poisonByte s with
             | false => simpa [hp] using hr1
             | true => rcases hs with hs | hs
                       · exact absurd hs (pb_ne hp).1
                       · exact absurd hs (pb_ne hp).2.1
           · exact hr1
         generalize (if s = 43 ∨ s = 45 then r2 else s :: r2) = r3 at hr3
         cases r3 with
         | nil => rfl
         | cons d r4 =>
           simp only []
           split
           · split
             · rename_i heq
               rw [scanExpDigits_rest _ _ _ _ _ heq] at hr3; cases hr3
             · rfl
           · rfl
     · rfl)

theorem hexBody_poison (s1 : Bytes) : poison s1 = true →
    poison (match (match s1 with
              | 48 :: x :: y :: r => if lower x = 120 then some (y :: r) else none
              | _ => none : Option Bytes) with
            | some r => r
            | none => s1) = true := by
  intro h
  split
  · rename_i r heq
    split at heq
    · rename_i x y r'
      split at heq
      · rename_i hx
        cases heq
        rw [poison_cons, poison_cons] at h
        have h48 : poisonByte 48 = false := by decide
        cases hp : poisonByte x with
        | true => exact absurd hx (pb_ne hp).2.2.2.2.2.2.2.2.1
        | false => simpa [h48, hp] using h
      · cases heq
    · cases heq
  · exact h

theorem signStrip_poison (s : Bytes) : poison s = true →
    poison (match s with
            | c :: rest => if c = 43 ∨ c = 45 then rest else s
            | [] => s) = true := by
  intro h
  cases s with
  | nil => cases h
  | cons c rest =>
    simp only []
    split
    · rename_i hc
      rw [poison_cons] at h
      cases hp : poisonByte c with
      | false => simpa [hp] using h
      | true => rcases hc with hc | hc
                · exact absurd hc (pb_ne hp).1
                · exact absurd hc (pb_ne hp).2.1
    · exact h

theorem parseFloat_poison (s : Bytes) (h : poison s = true) : parseFloat s = none := by
  unfold parseFloat
  rw [special_poison s h]
  simp -zeta only []
  extract_lets neg s1 hexRest hex body
  have hs1 : poison s1 = true := signStrip_poison s h
  have hbody : poison body = true := hexBody_poison s1 hs1
  rw [scanExp_poison _ _ _ (scanMant_poison hex body {} hbody)]
  split <;> rfl

theorem toPositiveFloat_poison (s : Bytes) (h : poison s = true) : toPositiveFloat s = none := by
  unfold toPositiveFloat
  rw [atoi_poison s h, parseFloat_poison s h]

/-- the facts about number parsing that the default-field theorems use -/
structure NumFacts : Prop where
  atoi_none : ∀ s, poison s = true → atoi s = none
  tpf_none : ∀ s, poison s = true → toPositiveFloat s = none

theorem numFacts : NumFacts := ⟨atoi_poison, toPositiveFloat_poison⟩

/-! ### printed texts -/

theorem poison_append (x y : Bytes) : poison (x ++ y) = (poison x || poison y) := by
  simp [poison]

def txt (env : Env) (e : Expr) : Bytes := (outPT (strE env.isPrint false e)).text

theorem strOf_ok_txt {env : Env} {e : Expr} {s : Bytes} (h : strOf env e = .ok s) : s = txt env e := by
  unfold strOf Expr.string at h
  unfold txt
  cases hs : strE env.isPrint false e with
  | ok p => simp [hs] at h; simp [outPT, h]
  | err => simp [hs] at h
  | panic => simp [hs] at h

theorem strOf_shape {env : Env} {e : Expr} (h : semShape e = true) : strOf env e = .ok (txt env e) := by
  obtain ⟨t, ht⟩ := strE_clean env.isPrint false e h
  simp [strOf, Expr.string, txt, ht, outPT]

@[simp] theorem PT.text_append (x y : PT) : (x ++ y).text = x.text ++ y.text := rfl
@[simp] theorem PT.text_ok (t : Bytes) : (PT.ok t).text = t := rfl
@[simp] theorem PT.text_lit (s : String) : (PT.lit s).text = b s := rfl

theorem fmtNode_expr_text (env : Env) (a : Expr) : (fmtNode env.isPrint .s (.expr a)).text = txt env a := by
  rw [fmtNode]; rfl

/-- relation between the printed texts with and without a default field -/
def TR (t1 t0 : Bytes) : Prop := t1 = t0 ∨ (poison t1 = true ∧ poison t0 = true)

theorem TR_pre (x : Bytes) {t1 t0 : Bytes} (h : TR t1 t0) : TR (x ++ t1) (x ++ t0) := by
  rcases h with h | ⟨h1, h0⟩
  · exact Or.inl (by rw [h])
  · exact Or.inr ⟨by simp [poison_append, h1], by simp [poison_append, h0]⟩

theorem TR_suf (x : Bytes) {t1 t0 : Bytes} (h : TR t1 t0) : TR (t1 ++ x) (t0 ++ x) := by
  rcases h with h | ⟨h1, h0⟩
  · exact Or.inl (by rw [h])
  · exact Or.inr ⟨by simp [poison_append, h1], by simp [poison_append, h0]⟩

theorem b_space : b " " = [32] := rfl
theorem b_colon : b ":" = [58] := rfl
theorem b_lpar : b "(" = [40] := rfl

theorem poison_bin (env : Env) (l r : Node) (o : Op) (p : F64) (d : Int)
    (ho : o = .and ∨ o = .or ∨ o = .greater ∨ o = .less ∨ o = .greaterEq ∨ o = .lessEq ∨ o = .like ∨ o = .in_) :
    poison (txt env (.mk l o r p d)) = true := by
  rcases ho with rfl | rfl | rfl | rfl | rfl | rfl | rfl | rfl <;>
    simp [txt, strE, outPT, b_space, poison, poisonByte]

theorem poison_equals (env : Env) (l r : Node) (p : F64) (d : Int) :
    poison (txt env (.mk l .equals r p d)) = true := by
  simp [txt, strE, outPT, b_colon, poison, poisonByte]

theorem poison_range (env : Env) (l mn mx : Node) (incl : Bool) (p : F64) (d : Int) :
    poison (txt env (.mk l .range (.bound mn mx incl) p d)) = true := by
  cases incl <;> simp [txt, strE, outPT, b_colon, poison, poisonByte]

theorem poison_not (env : Env) (l r : Node) (p : F64) (d : Int) :
    poison (txt env (.mk l .not r p d)) = true := by
  simp [txt, strE, outPT, b_lpar, poison, poisonByte]

theorem verb_sg : (Verb.s == Verb.g) = false := by decide

theorem txt_must (env : Env) (a : Expr) (r : Node) (p : F64) (d : Int) :
    txt env (.mk (.expr a) .must r p d) = b "+" ++ txt env a := by
  simp [txt, strE, outPT, fmtNode, verb_sg]

theorem txt_mustNot (env : Env) (a : Expr) (r : Node) (p : F64) (d : Int) :
    txt env (.mk (.expr a) .mustNot r p d) = b "-" ++ txt env a := by
  simp [txt, strE, outPT, fmtNode, verb_sg]

theorem txt_fuzzy (env : Env) (a : Expr) (r : Node) (p : F64) (d : Int) :
    txt env (.mk (.expr a) .fuzzy r p d) = txt env a ++ (if d > 1 then b "~" ++ fmtInt d else b "~") := by
  by_cases hd : d > 1 <;> simp [txt, strE, outPT, fmtNode, verb_sg, hd]

theorem txt_boost (env : Env) (a : Expr) (r : Node) (p : F64) (d : Int) :
    txt env (.mk (.expr a) .boost r p d) = txt env a ++ (if F64.lt F64.one p then b "^" ++ fmtFixed p 1 else b "^") := by
  by_cases hd : F64.lt F64.one p = true <;> simp [txt, strE, outPT, fmtNode, verb_sg, hd]

/-! ### the two semantics side by side -/

/-- both fail, or both succeed with related values -/
def OutRel {α : Type} (R : α → α → Prop) : Out α → Out α → Prop
  | .ok a, .ok b => R a b
  | .ok _, _ => False
  | _, .ok _ => False
  | _, _ => True

theorem bind_rel {α β : Type} {R : α → α → Prop} {S : β → β → Prop} {x1 x0 : Out α} {f1 f0 : α → Out β}
    (hx : OutRel R x1 x0) (hf : ∀ a b, x1 = .ok a → x0 = .ok b → R a b → OutRel S (f1 a) (f0 b)) :
    OutRel S (x1 >>= f1) (x0 >>= f0) := by
  cases x1 <;> cases x0 <;> simp [OutRel] at hx ⊢
  · exact hf _ _ rfl rfl hx
  all_goals trivial

abbrev TxtRel (env : Env) (a b : Expr) : Prop := TR (txt env a) (txt env b)

theorem rel_poison {env : Env} {a b : Expr} (ha : poison (txt env a) = true) (hb : poison (txt env b) = true) :
    OutRel (TxtRel env) (.ok a) (.ok b) := Or.inr ⟨ha, hb⟩

/-- The constructor semantics with a default field fails exactly when it fails without; when both succeed, the two
    results print the same text, or both texts contain a space, `(` or `:` -/
theorem sem_text_rel (env : Env) (df : Bytes) :
    ∀ d : Ex, OutRel (TxtRel env) (sem env df d) (sem env [] d)
  | .leaf t => by simp [sem, OutRel, TxtRel, TR]
  | .inn _ _ => by simp [sem, OutRel]
  | .eq f v => by
    simp only [sem]
    refine bind_rel (sem_text_rel env df f) (fun f1 f0 _ _ _ => ?_)
    refine bind_rel (sem_text_rel env df v) (fun v1 v0 _ _ _ => ?_)
    have h1 : ∀ f' v' : Expr, ∃ e, (if (chainedOrLiterals v').2 = true ∧ (chainedOrLiterals v').1.length > 1
        then mkExpr (.expr f') .in_ [.expr (mkList (ExprList.ofList (chainedOrLiterals v').1))]
        else mkExpr (.expr f') .equals [.expr v']) = .ok e ∧ poison (txt env e) = true := by
      intro f' v'
      split
      · exact ⟨_, mkExpr_in _ _, poison_bin env _ _ _ _ _ (by simp)⟩
      · rw [mkExpr_equals]
        refine ⟨_, rfl, ?_⟩
        split
        · exact poison_bin env _ _ _ _ _ (by simp)
        · exact poison_equals env _ _ _ _
    obtain ⟨e1, he1, hp1⟩ := h1 f1 v1
    obtain ⟨e0, he0, hp0⟩ := h1 f0 v0
    simp only [Bool.and_eq_true, decide_eq_true_eq]
    rw [he1, he0]
    exact rel_poison hp1 hp0
  | .cmp gt orEq f v => by
    simp only [sem]
    refine bind_rel (sem_text_rel env df f) (fun f1 f0 _ _ _ => ?_)
    refine bind_rel (sem_text_rel env df v) (fun v1 v0 _ _ _ => ?_)
    have ho : cmpOp gt orEq = .greater ∨ cmpOp gt orEq = .less ∨ cmpOp gt orEq = .greaterEq ∨ cmpOp gt orEq = .lessEq := by
      cases gt <;> cases orEq <;> simp [cmpOp]
    rw [mkExpr_bin _ _ _ (by rcases ho with h | h | h | h <;> simp [h]),
        mkExpr_bin _ _ _ (by rcases ho with h | h | h | h <;> simp [h])]
    exact rel_poison (poison_bin env _ _ _ _ _ (by rcases ho with h | h | h | h <;> simp [h]))
      (poison_bin env _ _ _ _ _ (by rcases ho with h | h | h | h <;> simp [h]))
  | .range f lo hi incl => by
    simp only [sem]
    refine bind_rel (sem_text_rel env df f) (fun f1 f0 _ _ _ => ?_)
    refine bind_rel (sem_text_rel env df lo) (fun l1 l0 _ _ _ => ?_)
    refine bind_rel (sem_text_rel env df hi) (fun h1 h0 _ _ _ => ?_)
    rw [mkExpr_range, mkExpr_range]
    exact rel_poison (poison_range env _ _ _ _ _ _) (poison_range env _ _ _ _ _ _)
  | .and l r => by
    simp only [sem, wrapLiteral_eq]
    refine bind_rel (sem_text_rel env df l) (fun l1 l0 _ _ _ => ?_)
    refine bind_rel (sem_text_rel env df r) (fun r1 r0 _ _ _ => ?_)
    simp only [bind, Out.bind]
    rw [mkExpr_bin _ _ _ (by simp), mkExpr_bin _ _ _ (by simp)]
    exact rel_poison (poison_bin env _ _ _ _ _ (by simp)) (poison_bin env _ _ _ _ _ (by simp))
  | .or l r => by
    simp only [sem, wrapLiteral_eq]
    refine bind_rel (sem_text_rel env df l) (fun l1 l0 _ _ _ => ?_)
    refine bind_rel (sem_text_rel env df r) (fun r1 r0 _ _ _ => ?_)
    simp only [bind, Out.bind]
    rw [mkExpr_bin _ _ _ (by simp), mkExpr_bin _ _ _ (by simp)]
    exact rel_poison (poison_bin env _ _ _ _ _ (by simp)) (poison_bin env _ _ _ _ _ (by simp))
  | .not x => by
    simp only [sem, wrapLiteral_eq]
    refine bind_rel (sem_text_rel env df x) (fun x1 x0 _ _ _ => ?_)
    simp only [bind, Out.bind]
    rw [mkExpr_unary _ _ (by simp), mkExpr_unary _ _ (by simp)]
    exact rel_poison (poison_not env _ _ _ _) (poison_not env _ _ _ _)
  | .must x => by
    simp only [sem]
    refine bind_rel (sem_text_rel env df x) (fun x1 x0 _ _ hx => ?_)
    rw [mkExpr_unary _ _ (by simp), mkExpr_unary _ _ (by simp)]
    show TR _ _
    rw [txt_must, txt_must]
    exact TR_pre _ hx
  | .mustNot x => by
    simp only [sem]
    refine bind_rel (sem_text_rel env df x) (fun x1 x0 _ _ hx => ?_)
    rw [mkExpr_unary _ _ (by simp), mkExpr_unary _ _ (by simp)]
    show TR _ _
    rw [txt_mustNot, txt_mustNot]
    exact TR_pre _ hx
  | .fuzzy x none => by
    simp only [sem]
    refine bind_rel (sem_text_rel env df x) (fun x1 x0 _ _ hx => ?_)
    rw [mkExpr_fuzzy, mkExpr_fuzzy]
    show TR _ _
    rw [txt_fuzzy, txt_fuzzy]
    exact TR_suf _ hx
  | .boost x none => by
    simp only [sem]
    refine bind_rel (sem_text_rel env df x) (fun x1 x0 _ _ hx => ?_)
    rw [mkExpr_boost, mkExpr_boost]
    show TR _ _
    rw [txt_boost, txt_boost]
    exact TR_suf _ hx
  | .fuzzy x (some dd) => by
    simp only [sem]
    refine bind_rel (sem_text_rel env df x) (fun x1 x0 _ _ hx => ?_)
    refine bind_rel (sem_text_rel env df dd) (fun d1 d0 hd1 hd0 hd => ?_)
    rw [strOf_shape (sem_shape env df dd d1 hd1), strOf_shape (sem_shape env [] dd d0 hd0)]
    simp only [bind, Out.bind]
    rcases hd with hd | ⟨hp1, hp0⟩
    · rw [hd]
      cases atoi (txt env d0) with
      | none => trivial
      | some i =>
        simp only []
        rw [mkExpr_fuzzy, mkExpr_fuzzy]
        show TR _ _
        rw [txt_fuzzy, txt_fuzzy]
        exact TR_suf _ hx
    · rw [numFacts.atoi_none _ hp1, numFacts.atoi_none _ hp0]
      trivial
  | .boost x (some dd) => by
    simp only [sem]
    refine bind_rel (sem_text_rel env df x) (fun x1 x0 _ _ hx => ?_)
    refine bind_rel (sem_text_rel env df dd) (fun d1 d0 hd1 hd0 hd => ?_)
    rw [strOf_shape (sem_shape env df dd d1 hd1), strOf_shape (sem_shape env [] dd d0 hd0)]
    simp only [bind, Out.bind]
    rcases hd with hd | ⟨hp1, hp0⟩
    · rw [hd]
      cases toPositiveFloat (txt env d0) with
      | none => trivial
      | some i =>
        simp only []
        rw [mkExpr_boost, mkExpr_boost]
        show TR _ _
        rw [txt_boost, txt_boost]
        exact TR_suf _ hx
    · rw [numFacts.tpf_none _ hp1, numFacts.tpf_none _ hp0]
      trivial

/-- (2) the value tests of the reducers `fuzzy` and `boost` do not depend on the default field — for every operand,
    every environment and every default field -/
theorem isNum_df_independent (env : Env) (df : Bytes) (k : Bool) (d : Ex) :
    isNumOf env df k d = isNumOf env [] k d := by
  have h := sem_text_rel env df d
  unfold isNumOf
  cases h1 : sem env df d <;> cases h0 : sem env [] d <;> simp only [h1, h0, OutRel] at h ⊢
  rename_i d1 d0
  rw [strOf_shape (sem_shape env df d d1 h1), strOf_shape (sem_shape env [] d d0 h0)]
  rcases h with h | ⟨hp1, hp0⟩
  · rw [h]
  · simp only [numFacts.atoi_none _ hp1, numFacts.atoi_none _ hp0, numFacts.tpf_none _ hp1, numFacts.tpf_none _ hp0]

/-- `runW` depends on `isNum` only through its values -/
theorem runW_congr (isNum isNum' : Bool → Ex → Bool) (h : ∀ k d, isNum k d = isNum' k d) (c : Cfg) (toks : List Tok) :
    runW isNum c toks = runW isNum' c toks := by
  have : isNum = isNum' := funext fun k => funext fun d => h k d
  rw [this]

theorem parseToks_congr (isNum isNum' : Bool → Ex → Bool) (h : ∀ k d, isNum k d = isNum' k d) (toks : List Tok) :
    parseToks isNum toks = parseToks isNum' toks := runW_congr isNum isNum' h _ toks

/-- the shift/reduce run (acceptance and the tree of reductions) does not depend on the default field -/
theorem parseToks_df_independent (env : Env) (df : Bytes) (toks : List Tok) :
    parseToks (isNumOf env df) toks = parseToks (isNumOf env []) toks :=
  parseToks_congr _ _ (isNum_df_independent env df) toks

/-! ### erasing the default-field scoping: expression-level facts -/

/-- the expression is itself a `df:` scoping -/
def topDf (df : Bytes) (e : Expr) : Bool := e.op = .equals && isDfCol df e.left

theorem erase_notTop (df : Bytes) (l : Node) (o : Op) (r : Node) (p : F64) (d : Int)
    (h : topDf df (.mk l o r p d) = false) :
    eraseDf df (.mk l o r p d) = .mk (eraseNode df l) o (eraseNode df r) p d := by
  have h' : (decide (o = Op.equals) && isDfCol df l) = false := h
  unfold eraseDf
  rw [if_neg (by rw [h']; exact Bool.false_ne_true)]

theorem erase_op_ne (df : Bytes) (l : Node) (o : Op) (r : Node) (p : F64) (d : Int) (h : o ≠ .equals) :
    eraseDf df (.mk l o r p d) = .mk (eraseNode df l) o (eraseNode df r) p d :=
  erase_notTop df l o r p d (by simp [topDf, Expr.op, h])

theorem eraseNode_expr (df : Bytes) (e : Expr) : eraseNode df (.expr e) = .expr (eraseDf df e) := by
  rw [eraseNode]

theorem eraseNode_nil (df : Bytes) : eraseNode df .nil = .nil := by simp [eraseNode]
theorem eraseNode_prim (df : Bytes) (p : Prim) : eraseNode df (.prim p) = .prim p := by simp [eraseNode]
theorem eraseNode_bound (df : Bytes) (a c : Node) (i : Bool) :
    eraseNode df (.bound a c i) = .bound (eraseNode df a) (eraseNode df c) i := by rw [eraseNode]

theorem erase_semLeaf (df : Bytes) (e : Expr) (h : semLeaf e = true) : eraseDf df e = e := by
  obtain ⟨l, o, r, p, d⟩ := e
  obtain ⟨rfl, ho, hl⟩ := semLeaf_inv l o _ p d h
  have hne : o ≠ .equals := by intro h; subst h; simp [Op.isLeafOp] at ho
  rw [erase_op_ne df _ _ _ _ _ hne, eraseNode_nil]
  rcases hl with ⟨s, rfl⟩ | ⟨s, rfl⟩ | ⟨i, rfl⟩ | ⟨f, rfl⟩ <;> rw [eraseNode_prim]

theorem wrapE_nil (e : Expr) : wrapE [] e = e := by simp [wrapE]

theorem isDfCol_self (df : Bytes) : isDfCol df (.expr (lit (.prim (.col df)))) = true := by
  simp [isDfCol, lit, mkLeaf]

theorem erase_wrapE (df : Bytes) (e : Expr) : eraseDf df (wrapE df e) = eraseDf df e := by
  unfold wrapE
  split
  · rw [eraseDf]
    simp [isDfCol_self]
  · rfl

theorem fieldE_erase (df : Bytes) (op : Op) (a : Expr) (h : topDf df a = false) :
    eraseDf df (fieldE op a) = fieldE op (eraseDf df a) := by
  obtain ⟨l, o, r, p, d⟩ := a
  rw [erase_notTop df l o r p d h]
  cases l with
  | prim pr =>
    cases pr with
    | str s =>
      simp only [fieldE, eraseNode_prim]
      split
      · exact erase_semLeaf df _ (semLeaf_lit_col s)
      · rw [erase_notTop df _ o r p d h, eraseNode_prim]
    | _ => simp only [fieldE, eraseNode_prim]; rw [erase_notTop df _ o r p d h, eraseNode_prim]
  | nil => simp only [fieldE, eraseNode_nil]; rw [erase_notTop df _ o r p d h, eraseNode_nil]
  | expr x => simp only [fieldE, eraseNode_expr]; rw [erase_notTop df _ o r p d h, eraseNode_expr]
  | list es => simp only [fieldE]; rw [erase_notTop df _ o r p d h]; rw [eraseNode]
  | bound a c i => simp only [fieldE]; rw [erase_notTop df _ o r p d h]; rw [eraseNode_bound]

theorem erase_op (df : Bytes) (e : Expr) (h : topDf df e = false) : (eraseDf df e).op = e.op := by
  obtain ⟨l, o, r, p, d⟩ := e
  rw [erase_notTop df l o r p d h]
  rfl

/-! ### value lists -/

theorem chained_ok_op (e : Expr) (h : (chainedOrLiterals e).2 = true) : e.op = .literal ∨ e.op = .or := by
  obtain ⟨l, o, r, p, d⟩ := e
  unfold chainedOrLiterals at h
  split at h
  · rename_i ho; exact Or.inl ho
  · split at h
    · rename_i ho; exact Or.inr ho
    · simp at h

theorem chained_literal (e : Expr) (h : e.op = .literal) : (chainedOrLiterals e).1.length = 1 := by
  obtain ⟨l, o, r, p, d⟩ := e
  simp only [Expr.op] at h
  subst h
  unfold chainedOrLiterals
  simp

theorem chained_or (a c : Expr) (p : F64) (d : Int)
    (h : (chainedOrLiterals (.mk (.expr a) .or (.expr c) p d)).2 = true) :
    (chainedOrLiterals a).2 = true ∧ (chainedOrLiterals c).2 = true := by
  unfold chainedOrLiterals at h
  simp at h
  exact h

/-! ### the hypotheses, as executable predicates on the tree of reductions -/

/-- the field of an `f:v` reduction is not the default field itself ("`df` is not otherwise used") -/
def fieldFree (df : Bytes) : Ex → Bool
  | .leaf t => !isDfCol df (.expr (fieldE .equals (parseLiteral t)))
  | _ => true

/-- the value of an `f:v` reduction is a bare pattern (the node becomes a LIKE, which erasure leaves alone) -/
def patternValue : Ex → Bool
  | .leaf t => (parseLiteral t).op ≠ .literal
  | _ => false

/-- the value of an `f:v` reduction is a value list: an OR-chain of at least two literals (in the semantics
    without default field) -/
def valueList (env : Env) (v : Ex) : Bool :=
  match sem env [] v with
  | .ok v0 => (chainedOrLiterals v0).2 && decide ((chainedOrLiterals v0).1.length > 1)
  | _ => false

/-- hypotheses of the erasure theorem: no `f:v` node has the default field as its field or a value list as its
    value (operands of `~`/`^` are numbers, not part of the result) -/
def dfEraseOK (env : Env) (df : Bytes) : Ex → Bool
  | .leaf _ => true
  | .eq f v => (fieldFree df f || patternValue v) && !valueList env v && dfEraseOK env df f && dfEraseOK env df v
  | .inn _ _ => true
  | .cmp _ _ f v => dfEraseOK env df f && dfEraseOK env df v
  | .range f lo hi _ => dfEraseOK env df f && dfEraseOK env df lo && dfEraseOK env df hi
  | .and l r => dfEraseOK env df l && dfEraseOK env df r
  | .or l r => dfEraseOK env df l && dfEraseOK env df r
  | .not e => dfEraseOK env df e
  | .must e => dfEraseOK env df e
  | .mustNot e => dfEraseOK env df e
  | .fuzzy e _ => dfEraseOK env df e
  | .boost e _ => dfEraseOK env df e

/-- an operand that `wrapLiteral` scopes: not a bare pattern (wildcard term or regexp) -/
def plainOperand : Ex → Bool
  | .leaf t => (parseLiteral t).op = .literal
  | _ => true

def notLeaf : Ex → Bool
  | .leaf _ => false
  | _ => true

/-- hypotheses of the no-bare-term theorem: the operands of AND/OR/NOT are not bare patterns, the operands of
    `+ - ~ ^` are not bare terms (only the parts of the tree that `noBareOperand` looks at are constrained) -/
def dfScoped : Ex → Bool
  | .leaf _ => true
  | .eq _ v => dfScoped v
  | .inn _ _ => true
  | .cmp _ _ _ v => dfScoped v
  | .range _ _ _ _ => true
  | .and l r => plainOperand l && plainOperand r && dfScoped l && dfScoped r
  | .or l r => plainOperand l && plainOperand r && dfScoped l && dfScoped r
  | .not e => plainOperand e && dfScoped e
  | .must e => notLeaf e && dfScoped e
  | .mustNot e => notLeaf e && dfScoped e
  | .fuzzy e _ => notLeaf e && dfScoped e
  | .boost e _ => notLeaf e && dfScoped e

/-- the trees of reductions on which the default field behaves as specified (`ex` is the whole query) -/
def dfFriendly (env : Env) (df : Bytes) (ex : Ex) : Bool :=
  dfEraseOK env df ex && plainOperand ex && dfScoped ex

/-! ### top-level facts about results -/

theorem sem_leaf (env : Env) (df : Bytes) (t : Tok) : sem env df (.leaf t) = .ok (parseLiteral t) := by simp [sem]

theorem sem_inn (env : Env) (df : Bytes) (f : Ex) (vs : List Ex) (e : Expr) : sem env df (.inn f vs) ≠ .ok e := by
  simp [sem]

theorem eqE_left (f' v' : Expr) : ∃ a, (eqE f' v').left = .expr a := by
  unfold eqE; split <;> exact ⟨_, rfl⟩

/-- only a term has a raw value on its left -/
theorem sem_nonleaf_left {env : Env} {df : Bytes} : ∀ {ex : Ex} {e : Expr}, notLeaf ex = true → sem env df ex = .ok e →
    ∃ a, e.left = .expr a
  | .leaf _, _, h, _ => by simp [notLeaf] at h
  | .inn _ _, _, _, h => absurd h (sem_inn _ _ _ _ _)
  | .eq _ _, _, _, h => by obtain ⟨f', v', _, _, rfl⟩ := sem_eq_inv h; exact eqE_left ..
  | .cmp _ _ _ _, _, _, h => by obtain ⟨f', v', _, _, rfl⟩ := sem_cmp_inv h; exact ⟨_, rfl⟩
  | .range _ _ _ _, _, _, h => by obtain ⟨f', l', h', _, _, _, rfl⟩ := sem_range_inv h; exact ⟨_, rfl⟩
  | .and _ _, _, _, h => by obtain ⟨f', v', _, _, rfl⟩ := sem_and_inv h; exact ⟨_, rfl⟩
  | .or _ _, _, _, h => by obtain ⟨f', v', _, _, rfl⟩ := sem_or_inv h; exact ⟨_, rfl⟩
  | .not _, _, _, h => by obtain ⟨f', _, rfl⟩ := sem_not_inv h; exact ⟨_, rfl⟩
  | .must _, _, _, h => by obtain ⟨f', _, rfl⟩ := sem_must_inv h; exact ⟨_, rfl⟩
  | .mustNot _, _, _, h => by obtain ⟨f', _, rfl⟩ := sem_mustNot_inv h; exact ⟨_, rfl⟩
  | .fuzzy _ none, _, _, h => by obtain ⟨f', _, rfl⟩ := sem_fuzzy0_inv h; exact ⟨_, rfl⟩
  | .fuzzy _ (some _), _, _, h => by obtain ⟨_, _, _, _, _, _, _, _, rfl⟩ := sem_fuzzy1_inv h; exact ⟨_, rfl⟩
  | .boost _ none, _, _, h => by obtain ⟨f', _, rfl⟩ := sem_boost0_inv h; exact ⟨_, rfl⟩
  | .boost _ (some _), _, _, h => by obtain ⟨_, _, _, _, _, _, _, _, rfl⟩ := sem_boost1_inv h; exact ⟨_, rfl⟩

theorem isDfCol_expr_left (df : Bytes) (e a : Expr) (h : e.left = .expr a) : isDfCol df (.expr e) = false := by
  obtain ⟨l, o, r, p, d⟩ := e
  simp only [Expr.left] at h
  subst h
  simp [isDfCol]

theorem fieldE_expr_left (op : Op) (e a : Expr) (h : e.left = .expr a) : fieldE op e = e := by
  obtain ⟨l, o, r, p, d⟩ := e
  simp only [Expr.left] at h
  subst h
  simp [fieldE]

/-- the op of a result, by constructor -/
theorem sem_op_or {env : Env} {df : Bytes} : ∀ {ex : Ex} {e : Expr}, sem env df ex = .ok e → e.op = .or →
    ∃ l r, ex = .or l r
  | .leaf t, _, h, ho => by
    rw [sem_leaf] at h; cases h
    have := parseLiteral_leaf t
    generalize parseLiteral t = pl at this ho
    obtain ⟨l, o, r, p, d⟩ := pl
    obtain ⟨_, hl, _⟩ := semLeaf_inv l o r p d this
    simp only [Expr.op] at ho; subst ho; simp [Op.isLeafOp] at hl
  | .inn _ _, _, h, _ => absurd h (sem_inn _ _ _ _ _)
  | .eq _ _, _, h, ho => by
    obtain ⟨f', v', _, _, rfl⟩ := sem_eq_inv h
    unfold eqE at ho; split at ho
    · simp [Expr.op] at ho
    · by_cases hw : v'.op = Op.wild ∨ v'.op = Op.regexp
      · rw [if_pos hw] at ho; simp [Expr.op] at ho
      · rw [if_neg hw] at ho; simp [Expr.op] at ho
  | .cmp gt orEq _ _, _, h, ho => by
    obtain ⟨f', v', _, _, rfl⟩ := sem_cmp_inv h; cases gt <;> cases orEq <;> simp [Expr.op, cmpOp] at ho
  | .range _ _ _ _, _, h, ho => by obtain ⟨f', l', h', _, _, _, rfl⟩ := sem_range_inv h; simp [Expr.op] at ho
  | .and _ _, _, h, ho => by obtain ⟨f', v', _, _, rfl⟩ := sem_and_inv h; simp [Expr.op] at ho
  | .or l r, _, _, _ => ⟨l, r, rfl⟩
  | .not _, _, h, ho => by obtain ⟨f', _, rfl⟩ := sem_not_inv h; simp [Expr.op] at ho
  | .must _, _, h, ho => by obtain ⟨f', _, rfl⟩ := sem_must_inv h; simp [Expr.op] at ho
  | .mustNot _, _, h, ho => by obtain ⟨f', _, rfl⟩ := sem_mustNot_inv h; simp [Expr.op] at ho
  | .fuzzy _ none, _, h, ho => by obtain ⟨f', _, rfl⟩ := sem_fuzzy0_inv h; simp [Expr.op] at ho
  | .fuzzy _ (some _), _, h, ho => by obtain ⟨_, _, _, _, _, _, _, _, rfl⟩ := sem_fuzzy1_inv h; simp [Expr.op] at ho
  | .boost _ none, _, h, ho => by obtain ⟨f', _, rfl⟩ := sem_boost0_inv h; simp [Expr.op] at ho
  | .boost _ (some _), _, h, ho => by obtain ⟨_, _, _, _, _, _, _, _, rfl⟩ := sem_boost1_inv h; simp [Expr.op] at ho

theorem wrapE_op_ne_literal (df : Bytes) (hdf : df ≠ []) (e : Expr) : (wrapE df e).op ≠ .literal := by
  unfold wrapE
  have : df.isEmpty = false := by cases df <;> simp_all
  split
  · simp [Expr.op]
  · rename_i hc
    simpa [this] using hc

/-- with a default field, an OR never has literal operands: no result is a value list -/
theorem chained_df {env : Env} {df : Bytes} (hdf : df ≠ []) : ∀ {ex : Ex} {e : Expr}, sem env df ex = .ok e →
    (chainedOrLiterals e).2 = true → e.op = .literal
  | ex, e, h, hc => by
    rcases chained_ok_op e hc with ho | ho
    · exact ho
    · exfalso
      obtain ⟨l, r, rfl⟩ := sem_op_or h ho
      obtain ⟨l', r', hl, hr, rfl⟩ := sem_or_inv h
      obtain ⟨hcl, _⟩ := chained_or _ _ _ _ hc
      have hne := wrapE_op_ne_literal df hdf l'
      have hw : wrapE df l' = l' ∨ (chainedOrLiterals (wrapE df l')).2 = false := by
        unfold wrapE
        split
        · right; unfold chainedOrLiterals; simp
        · left; rfl
      rcases hw with hw | hw
      · rw [hw] at hcl hne
        exact hne (chained_df hdf hl hcl)
      · rw [hw] at hcl; cases hcl
termination_by ex => sizeOf ex
decreasing_by subst_vars; simp; omega

theorem parseLiteral_op (t : Tok) : (parseLiteral t).op.isLeafOp = true := by
  have := parseLiteral_leaf t
  generalize parseLiteral t = pl at this
  obtain ⟨l, o, r, p, d⟩ := pl
  exact (semLeaf_inv l o r p d this).2.1

theorem sem_op_equals {env : Env} {df : Bytes} : ∀ {ex : Ex} {e : Expr}, sem env df ex = .ok e → e.op = .equals →
    ∃ f v, ex = .eq f v
  | .leaf t, _, h, ho => by
    rw [sem_leaf] at h; cases h
    have := parseLiteral_op t
    rw [ho] at this; simp [Op.isLeafOp] at this
  | .inn _ _, _, h, _ => absurd h (sem_inn _ _ _ _ _)
  | .eq f v, _, _, _ => ⟨f, v, rfl⟩
  | .cmp gt orEq _ _, _, h, ho => by
    obtain ⟨f', v', _, _, rfl⟩ := sem_cmp_inv h; cases gt <;> cases orEq <;> simp [Expr.op, cmpOp] at ho
  | .range _ _ _ _, _, h, ho => by obtain ⟨f', l', h', _, _, _, rfl⟩ := sem_range_inv h; simp [Expr.op] at ho
  | .and _ _, _, h, ho => by obtain ⟨f', v', _, _, rfl⟩ := sem_and_inv h; simp [Expr.op] at ho
  | .or _ _, _, h, ho => by obtain ⟨f', v', _, _, rfl⟩ := sem_or_inv h; simp [Expr.op] at ho
  | .not _, _, h, ho => by obtain ⟨f', _, rfl⟩ := sem_not_inv h; simp [Expr.op] at ho
  | .must _, _, h, ho => by obtain ⟨f', _, rfl⟩ := sem_must_inv h; simp [Expr.op] at ho
  | .mustNot _, _, h, ho => by obtain ⟨f', _, rfl⟩ := sem_mustNot_inv h; simp [Expr.op] at ho
  | .fuzzy _ none, _, h, ho => by obtain ⟨f', _, rfl⟩ := sem_fuzzy0_inv h; simp [Expr.op] at ho
  | .fuzzy _ (some _), _, h, ho => by obtain ⟨_, _, _, _, _, _, _, _, rfl⟩ := sem_fuzzy1_inv h; simp [Expr.op] at ho
  | .boost _ none, _, h, ho => by obtain ⟨f', _, rfl⟩ := sem_boost0_inv h; simp [Expr.op] at ho
  | .boost _ (some _), _, h, ho => by obtain ⟨_, _, _, _, _, _, _, _, rfl⟩ := sem_boost1_inv h; simp [Expr.op] at ho

/-- the field position of an `f:v` node built by the run is not the default field, if the field token isn't -/
theorem field_notDf {env : Env} {df : Bytes} {f : Ex} {f' : Expr} (hff : fieldFree df f = true)
    (hf : sem env df f = .ok f') : isDfCol df (.expr (fieldE .equals f')) = false := by
  cases hnl : notLeaf f with
  | true =>
    obtain ⟨a, ha⟩ := sem_nonleaf_left hnl hf
    rw [fieldE_expr_left _ _ _ ha]
    exact isDfCol_expr_left df f' a ha
  | false =>
    cases f <;> simp [notLeaf] at hnl
    rw [sem_leaf] at hf; cases hf
    simpa [fieldFree] using hff

/-- no result is itself a `df:` scoping (`df` is not used as a field) -/
theorem topDf_false {env : Env} {df : Bytes} {ex : Ex} {e : Expr} (hok : dfEraseOK env df ex = true)
    (h : sem env df ex = .ok e) : topDf df e = false := by
  cases ho : decide (e.op = .equals) with
  | false => simp [topDf, ho]
  | true =>
    simp only [decide_eq_true_eq] at ho
    obtain ⟨f, v, rfl⟩ := sem_op_equals h ho
    obtain ⟨f', v', hf, hv, rfl⟩ := sem_eq_inv h
    simp only [dfEraseOK, Bool.and_eq_true] at hok
    have hfp := hok.1.1.1
    unfold eqE at ho ⊢
    split
    · simp [topDf, Expr.op]
    · rename_i hc
      rw [if_neg hc] at ho
      by_cases hw : v'.op = Op.wild ∨ v'.op = Op.regexp
      · rw [if_pos hw] at ho; simp [Expr.op] at ho
      · rw [if_neg hw]
        have hff : fieldFree df f = true := by
          cases hff : fieldFree df f with
          | true => rfl
          | false =>
            exfalso
            rw [hff, Bool.false_or] at hfp
            cases v <;> simp [patternValue] at hfp
            rw [sem_leaf] at hv; cases hv
            rename_i t
            have hl := parseLiteral_op t
            generalize parseLiteral t = pl at hfp hw hl
            obtain ⟨l, o, r, p, d⟩ := pl
            cases o <;> simp_all [Op.isLeafOp, Expr.op]
        simp [topDf, Expr.left, Expr.op, field_notDf hff hf]

theorem eqE_else (f' v' : Expr)
    (h : ((chainedOrLiterals v').2 && decide ((chainedOrLiterals v').1.length > 1)) = false) :
    eqE f' v' = .mk (.expr (fieldE .equals f')) (if v'.op = .wild ∨ v'.op = .regexp then .like else .equals) (.expr v') F64.one 1 := by
  unfold eqE
  rw [if_neg (by rw [h]; exact Bool.false_ne_true)]

theorem not_valueList_df {env : Env} {df : Bytes} (hdf : df ≠ []) {v : Ex} {v' : Expr} (hv : sem env df v = .ok v') :
    ((chainedOrLiterals v').2 && decide ((chainedOrLiterals v').1.length > 1)) = false := by
  cases hc : (chainedOrLiterals v').2 with
  | false => rfl
  | true =>
    have := chained_literal v' (chained_df hdf hv hc)
    simp [this]

/-- (1) Erasure.  On a tree of reductions in which no `f:v` node has the default field as its field or a value list
    as its value, erasing the `df:` scopings from the result with default field gives the result without. -/
theorem sem_erase (env : Env) (df : Bytes) (hdf : df ≠ []) :
    ∀ (ex : Ex) (e1 e0 : Expr), dfEraseOK env df ex = true → sem env df ex = .ok e1 → sem env [] ex = .ok e0 →
      eraseDf df e1 = e0
  | .leaf t, e1, e0, _, h1, h0 => by
    rw [sem_leaf] at h1 h0; cases h1; cases h0
    exact erase_semLeaf df _ (parseLiteral_leaf t)
  | .inn _ _, _, _, _, h1, _ => absurd h1 (sem_inn _ _ _ _ _)
  | .eq f v, e1, e0, hok, h1, h0 => by
    have htop := topDf_false hok h1
    obtain ⟨f1, v1, hf1, hv1, rfl⟩ := sem_eq_inv h1
    obtain ⟨f0, v0, hf0, hv0, rfl⟩ := sem_eq_inv h0
    simp only [dfEraseOK, Bool.and_eq_true, Bool.not_eq_true'] at hok
    obtain ⟨⟨⟨_, hvl⟩, hokf⟩, hokv⟩ := hok
    have ihf := sem_erase env df hdf f f1 f0 hokf hf1 hf0
    have ihv := sem_erase env df hdf v v1 v0 hokv hv1 hv0
    have tf := topDf_false hokf hf1
    have tv := topDf_false hokv hv1
    have c0 : ((chainedOrLiterals v0).2 && decide ((chainedOrLiterals v0).1.length > 1)) = false := by
      simpa [valueList, hv0] using hvl
    rw [eqE_else _ _ c0]
    rw [eqE_else _ _ (not_valueList_df hdf hv1)] at htop ⊢
    rw [erase_notTop df _ _ _ _ _ htop, eraseNode_expr, eraseNode_expr, fieldE_erase df _ _ tf, ihf, ihv]
    rw [← erase_op df v1 tv, ihv]
  | .cmp gt orEq f v, e1, e0, hok, h1, h0 => by
    obtain ⟨f1, v1, hf1, hv1, rfl⟩ := sem_cmp_inv h1
    obtain ⟨f0, v0, hf0, hv0, rfl⟩ := sem_cmp_inv h0
    simp only [dfEraseOK, Bool.and_eq_true] at hok
    have ihf := sem_erase env df hdf f f1 f0 hok.1 hf1 hf0
    have ihv := sem_erase env df hdf v v1 v0 hok.2 hv1 hv0
    have tf := topDf_false hok.1 hf1
    rw [erase_op_ne df _ _ _ _ _ (by cases gt <;> cases orEq <;> simp [cmpOp]), eraseNode_expr, eraseNode_expr,
      fieldE_erase df _ _ tf, ihf, ihv]
  | .range f lo hi incl, e1, e0, hok, h1, h0 => by
    obtain ⟨f1, l1, u1, hf1, hl1, hu1, rfl⟩ := sem_range_inv h1
    obtain ⟨f0, l0, u0, hf0, hl0, hu0, rfl⟩ := sem_range_inv h0
    simp only [dfEraseOK, Bool.and_eq_true] at hok
    have ihf := sem_erase env df hdf f f1 f0 hok.1.1 hf1 hf0
    have ihl := sem_erase env df hdf lo l1 l0 hok.1.2 hl1 hl0
    have ihu := sem_erase env df hdf hi u1 u0 hok.2 hu1 hu0
    have tf := topDf_false hok.1.1 hf1
    rw [erase_op_ne df _ _ _ _ _ (by simp), eraseNode_expr, eraseNode_bound, eraseNode_expr, eraseNode_expr,
      fieldE_erase df _ _ tf, ihf, ihl, ihu]
  | .and l r, e1, e0, hok, h1, h0 => by
    obtain ⟨l1, r1, hl1, hr1, rfl⟩ := sem_and_inv h1
    obtain ⟨l0, r0, hl0, hr0, rfl⟩ := sem_and_inv h0
    simp only [dfEraseOK, Bool.and_eq_true] at hok
    have ihl := sem_erase env df hdf l l1 l0 hok.1 hl1 hl0
    have ihr := sem_erase env df hdf r r1 r0 hok.2 hr1 hr0
    rw [erase_op_ne df _ _ _ _ _ (by simp), eraseNode_expr, eraseNode_expr, erase_wrapE, erase_wrapE, ihl, ihr,
      wrapE_nil, wrapE_nil]
  | .or l r, e1, e0, hok, h1, h0 => by
    obtain ⟨l1, r1, hl1, hr1, rfl⟩ := sem_or_inv h1
    obtain ⟨l0, r0, hl0, hr0, rfl⟩ := sem_or_inv h0
    simp only [dfEraseOK, Bool.and_eq_true] at hok
    have ihl := sem_erase env df hdf l l1 l0 hok.1 hl1 hl0
    have ihr := sem_erase env df hdf r r1 r0 hok.2 hr1 hr0
    rw [erase_op_ne df _ _ _ _ _ (by simp), eraseNode_expr, eraseNode_expr, erase_wrapE, erase_wrapE, ihl, ihr,
      wrapE_nil, wrapE_nil]
  | .not x, e1, e0, hok, h1, h0 => by
    obtain ⟨x1, hx1, rfl⟩ := sem_not_inv h1
    obtain ⟨x0, hx0, rfl⟩ := sem_not_inv h0
    simp only [dfEraseOK] at hok
    have ih := sem_erase env df hdf x x1 x0 hok hx1 hx0
    rw [erase_op_ne df _ _ _ _ _ (by simp), eraseNode_expr, eraseNode_nil, erase_wrapE, ih, wrapE_nil]
  | .must x, e1, e0, hok, h1, h0 => by
    obtain ⟨x1, hx1, rfl⟩ := sem_must_inv h1
    obtain ⟨x0, hx0, rfl⟩ := sem_must_inv h0
    simp only [dfEraseOK] at hok
    have ih := sem_erase env df hdf x x1 x0 hok hx1 hx0
    rw [erase_op_ne df _ _ _ _ _ (by simp), eraseNode_expr, eraseNode_nil, ih]
  | .mustNot x, e1, e0, hok, h1, h0 => by
    obtain ⟨x1, hx1, rfl⟩ := sem_mustNot_inv h1
    obtain ⟨x0, hx0, rfl⟩ := sem_mustNot_inv h0
    simp only [dfEraseOK] at hok
    have ih := sem_erase env df hdf x x1 x0 hok hx1 hx0
    rw [erase_op_ne df _ _ _ _ _ (by simp), eraseNode_expr, eraseNode_nil, ih]
  | .fuzzy x none, e1, e0, hok, h1, h0 => by
    obtain ⟨x1, hx1, rfl⟩ := sem_fuzzy0_inv h1
    obtain ⟨x0, hx0, rfl⟩ := sem_fuzzy0_inv h0
    simp only [dfEraseOK] at hok
    have ih := sem_erase env df hdf x x1 x0 hok hx1 hx0
    rw [erase_op_ne df _ _ _ _ _ (by simp), eraseNode_expr, eraseNode_nil, ih]
  | .boost x none, e1, e0, hok, h1, h0 => by
    obtain ⟨x1, hx1, rfl⟩ := sem_boost0_inv h1
    obtain ⟨x0, hx0, rfl⟩ := sem_boost0_inv h0
    simp only [dfEraseOK] at hok
    have ih := sem_erase env df hdf x x1 x0 hok hx1 hx0
    rw [erase_op_ne df _ _ _ _ _ (by simp), eraseNode_expr, eraseNode_nil, ih]
  | .fuzzy x (some dd), e1, e0, hok, h1, h0 => by
    obtain ⟨x1, d1, s1, i1, hx1, hd1, hs1, hi1, rfl⟩ := sem_fuzzy1_inv h1
    obtain ⟨x0, d0, s0, i0, hx0, hd0, hs0, hi0, rfl⟩ := sem_fuzzy1_inv h0
    simp only [dfEraseOK] at hok
    have ih := sem_erase env df hdf x x1 x0 hok hx1 hx0
    have hrel := sem_text_rel env df dd
    rw [hd1, hd0] at hrel
    have hi : i1 = i0 := by
      rcases hrel with hrel | ⟨hp, _⟩
      · rw [strOf_ok_txt hs1, hrel, ← strOf_ok_txt hs0, hi0] at hi1
        exact (Option.some.inj hi1).symm
      · rw [strOf_ok_txt hs1, numFacts.atoi_none _ hp] at hi1; cases hi1
    rw [erase_op_ne df _ _ _ _ _ (by simp), eraseNode_expr, eraseNode_nil, ih, hi]
  | .boost x (some dd), e1, e0, hok, h1, h0 => by
    obtain ⟨x1, d1, s1, i1, hx1, hd1, hs1, hi1, rfl⟩ := sem_boost1_inv h1
    obtain ⟨x0, d0, s0, i0, hx0, hd0, hs0, hi0, rfl⟩ := sem_boost1_inv h0
    simp only [dfEraseOK] at hok
    have ih := sem_erase env df hdf x x1 x0 hok hx1 hx0
    have hrel := sem_text_rel env df dd
    rw [hd1, hd0] at hrel
    have hi : i1 = i0 := by
      rcases hrel with hrel | ⟨hp, _⟩
      · rw [strOf_ok_txt hs1, hrel, ← strOf_ok_txt hs0, hi0] at hi1
        exact (Option.some.inj hi1).symm
      · rw [strOf_ok_txt hs1, numFacts.tpf_none _ hp] at hi1; cases hi1
    rw [erase_op_ne df _ _ _ _ _ (by simp), eraseNode_expr, eraseNode_nil, ih, hi]

/-! ### (3) no bare term remains -/

theorem noBare_wrapE (df : Bytes) (x : Expr) (h : noBareOperand x = true) : noBareOperand (wrapE df x) = true := by
  unfold wrapE
  split
  · simp [noBareOperand, noBareNode, h]
  · exact h

theorem notBare_expr_left (x a : Expr) (h : x.left = .expr a) : isBareTermNode (.expr x) = false := by
  obtain ⟨l, o, r, p, d⟩ := x
  simp only [Expr.left] at h
  subst h
  simp [isBareTermNode]

theorem notBare_wrapE (df : Bytes) (hdf : df ≠ []) (x : Expr) (h : x.op = .literal ∨ ∃ a, x.left = .expr a) :
    isBareTermNode (.expr (wrapE df x)) = false := by
  have hne : df.isEmpty = false := by cases df <;> simp_all
  unfold wrapE
  split
  · simp [isBareTermNode]
  · rename_i hc
    rcases h with h | ⟨a, ha⟩
    · simp [h, hne] at hc
    · exact notBare_expr_left x a ha

theorem operand_shape {env : Env} {df : Bytes} {x : Ex} {x' : Expr} (hp : plainOperand x = true)
    (hx : sem env df x = .ok x') : x'.op = .literal ∨ ∃ a, x'.left = .expr a := by
  cases hnl : notLeaf x with
  | true => exact Or.inr (sem_nonleaf_left hnl hx)
  | false =>
    cases x <;> simp [notLeaf] at hnl
    rw [sem_leaf] at hx; cases hx
    left
    simpa [plainOperand] using hp

theorem noBare_parseLiteral (t : Tok) : noBareOperand (parseLiteral t) = true := by
  have := parseLiteral_op t
  generalize parseLiteral t = pl at this
  obtain ⟨l, o, r, p, d⟩ := pl
  simp only [Expr.op] at this
  cases o <;> simp [Op.isLeafOp] at this <;> simp [noBareOperand]

theorem noBare_unary (x : Expr) (o : Op) (p : F64) (d : Int)
    (ho : o = .not ∨ o = .must ∨ o = .mustNot ∨ o = .fuzzy ∨ o = .boost)
    (h1 : isBareTermNode (.expr x) = false) (h2 : noBareOperand x = true) :
    noBareOperand (.mk (.expr x) o .nil p d) = true := by
  rcases ho with rfl | rfl | rfl | rfl | rfl <;> simp [noBareOperand, noBareNode, h1, h2]

theorem sem_noBare (env : Env) (df : Bytes) (hdf : df ≠ []) :
    ∀ (ex : Ex) (e : Expr), dfScoped ex = true → sem env df ex = .ok e → noBareOperand e = true
  | .leaf t, e, _, h => by
    rw [sem_leaf] at h; cases h
    exact noBare_parseLiteral t
  | .inn _ _, _, _, h => absurd h (sem_inn _ _ _ _ _)
  | .eq f v, e, hs, h => by
    obtain ⟨f1, v1, hf1, hv1, rfl⟩ := sem_eq_inv h
    simp only [dfScoped] at hs
    have ih := sem_noBare env df hdf v v1 hs hv1
    unfold eqE
    split
    · simp [noBareOperand]
    · split <;> simp [noBareOperand, noBareNode, ih]
  | .cmp gt orEq f v, e, hs, h => by
    obtain ⟨f1, v1, hf1, hv1, rfl⟩ := sem_cmp_inv h
    simp only [dfScoped] at hs
    have ih := sem_noBare env df hdf v v1 hs hv1
    cases gt <;> cases orEq <;> simp [cmpOp, noBareOperand, noBareNode, ih]
  | .range f lo hi incl, e, _, h => by
    obtain ⟨f1, l1, u1, _, _, _, rfl⟩ := sem_range_inv h
    simp [noBareOperand]
  | .and l r, e, hs, h => by
    obtain ⟨l1, r1, hl1, hr1, rfl⟩ := sem_and_inv h
    simp only [dfScoped, Bool.and_eq_true] at hs
    obtain ⟨⟨⟨hpl, hpr⟩, hsl⟩, hsr⟩ := hs
    have ihl := noBare_wrapE df _ (sem_noBare env df hdf l l1 hsl hl1)
    have ihr := noBare_wrapE df _ (sem_noBare env df hdf r r1 hsr hr1)
    have bl := notBare_wrapE df hdf l1 (operand_shape hpl hl1)
    have br := notBare_wrapE df hdf r1 (operand_shape hpr hr1)
    simp [noBareOperand, noBareNode, ihl, ihr, bl, br]
  | .or l r, e, hs, h => by
    obtain ⟨l1, r1, hl1, hr1, rfl⟩ := sem_or_inv h
    simp only [dfScoped, Bool.and_eq_true] at hs
    obtain ⟨⟨⟨hpl, hpr⟩, hsl⟩, hsr⟩ := hs
    have ihl := noBare_wrapE df _ (sem_noBare env df hdf l l1 hsl hl1)
    have ihr := noBare_wrapE df _ (sem_noBare env df hdf r r1 hsr hr1)
    have bl := notBare_wrapE df hdf l1 (operand_shape hpl hl1)
    have br := notBare_wrapE df hdf r1 (operand_shape hpr hr1)
    simp [noBareOperand, noBareNode, ihl, ihr, bl, br]
  | .not x, e, hs, h => by
    obtain ⟨x1, hx1, rfl⟩ := sem_not_inv h
    simp only [dfScoped, Bool.and_eq_true] at hs
    exact noBare_unary _ _ _ _ (by simp) (notBare_wrapE df hdf x1 (operand_shape hs.1 hx1))
      (noBare_wrapE df _ (sem_noBare env df hdf x x1 hs.2 hx1))
  | .must x, e, hs, h => by
    obtain ⟨x1, hx1, rfl⟩ := sem_must_inv h
    simp only [dfScoped, Bool.and_eq_true] at hs
    obtain ⟨a, ha⟩ := sem_nonleaf_left hs.1 hx1
    exact noBare_unary _ _ _ _ (by simp) (notBare_expr_left x1 a ha) (sem_noBare env df hdf x x1 hs.2 hx1)
  | .mustNot x, e, hs, h => by
    obtain ⟨x1, hx1, rfl⟩ := sem_mustNot_inv h
    simp only [dfScoped, Bool.and_eq_true] at hs
    obtain ⟨a, ha⟩ := sem_nonleaf_left hs.1 hx1
    exact noBare_unary _ _ _ _ (by simp) (notBare_expr_left x1 a ha) (sem_noBare env df hdf x x1 hs.2 hx1)
  | .fuzzy x none, e, hs, h => by
    obtain ⟨x1, hx1, rfl⟩ := sem_fuzzy0_inv h
    simp only [dfScoped, Bool.and_eq_true] at hs
    obtain ⟨a, ha⟩ := sem_nonleaf_left hs.1 hx1
    exact noBare_unary _ _ _ _ (by simp) (notBare_expr_left x1 a ha) (sem_noBare env df hdf x x1 hs.2 hx1)
  | .fuzzy x (some dd), e, hs, h => by
    obtain ⟨x1, _, _, _, hx1, _, _, _, rfl⟩ := sem_fuzzy1_inv h
    simp only [dfScoped, Bool.and_eq_true] at hs
    obtain ⟨a, ha⟩ := sem_nonleaf_left hs.1 hx1
    exact noBare_unary _ _ _ _ (by simp) (notBare_expr_left x1 a ha) (sem_noBare env df hdf x x1 hs.2 hx1)
  | .boost x none, e, hs, h => by
    obtain ⟨x1, hx1, rfl⟩ := sem_boost0_inv h
    simp only [dfScoped, Bool.and_eq_true] at hs
    obtain ⟨a, ha⟩ := sem_nonleaf_left hs.1 hx1
    exact noBare_unary _ _ _ _ (by simp) (notBare_expr_left x1 a ha) (sem_noBare env df hdf x x1 hs.2 hx1)
  | .boost x (some dd), e, hs, h => by
    obtain ⟨x1, _, _, _, hx1, _, _, _, rfl⟩ := sem_boost1_inv h
    simp only [dfScoped, Bool.and_eq_true] at hs
    obtain ⟨a, ha⟩ := sem_nonleaf_left hs.1 hx1
    exact noBare_unary _ _ _ _ (by simp) (notBare_expr_left x1 a ha) (sem_noBare env df hdf x x1 hs.2 hx1)

/-! ### the accept step -/

theorem finalize_eq (env : Env) (df : Bytes) (ex : Ex) (s : Expr) (hs : sem env df ex = .ok s) :
    finalize env df ex = if validateExpr (wrapE df s) then .ok (wrapE df s) else .err := by
  unfold finalize
  simp only [hs, bind, Out.bind]
  unfold wrapE
  by_cases hc : (decide (s.op = .literal) && !df.isEmpty) = true
  · have hl : s.op = .literal := by
      simp only [Bool.and_eq_true, decide_eq_true_eq] at hc
      exact hc.1
    simp only [hc, if_true, mkExpr_wrapStr df s hl]
  · simp only [hc, Bool.false_eq_true, if_false]

theorem finalize_inv {env : Env} {df : Bytes} {ex : Ex} {e : Expr} (h : finalize env df ex = .ok e) :
    ∃ s, sem env df ex = .ok s ∧ e = wrapE df s ∧ validateExpr e = true := by
  cases hs : sem env df ex with
  | err => simp [finalize, hs, bind, Out.bind] at h
  | panic => simp [finalize, hs, bind, Out.bind] at h
  | ok s =>
    rw [finalize_eq env df ex s hs] at h
    split at h
    · rename_i hv
      cases h
      exact ⟨s, rfl, rfl, hv⟩
    · cases h

/-- (3) for a query whose operands of AND/OR/NOT (and the query itself) are not bare patterns and whose operands of
    `+ - ~ ^` are not bare terms, no bare term remains in the result -/
theorem no_bare_term (env : Env) (df : Bytes) (hdf : df ≠ []) (ex : Ex) (e : Expr)
    (hp : plainOperand ex = true) (hs : dfScoped ex = true) (h : finalize env df ex = .ok e) :
    noBareTerm e = true := by
  obtain ⟨s, hsem, rfl, _⟩ := finalize_inv h
  unfold noBareTerm
  rw [notBare_wrapE df hdf s (operand_shape hp hsem), noBare_wrapE df s (sem_noBare env df hdf ex s hs hsem)]
  rfl

/-- (1, accept step) erasure for the final result -/
theorem finalize_erase (env : Env) (df : Bytes) (hdf : df ≠ []) (ex : Ex) (e1 e0 : Expr)
    (hok : dfEraseOK env df ex = true) (h1 : finalize env df ex = .ok e1) (h0 : finalize env [] ex = .ok e0) :
    eraseDf df e1 = e0 := by
  obtain ⟨s1, hs1, rfl, _⟩ := finalize_inv h1
  obtain ⟨s0, hs0, rfl, _⟩ := finalize_inv h0
  rw [erase_wrapE, wrapE_nil]
  exact sem_erase env df hdf ex s1 s0 hok hs1 hs0

/-! ### Validate does not see the scoping -/

theorem op_mk (l : Node) (o : Op) (r : Node) (p : F64) (d : Int) : (Expr.mk l o r p d).op = o := rfl
theorem left_mk (l : Node) (o : Op) (r : Node) (p : F64) (d : Int) : (Expr.mk l o r p d).left = l := rfl
theorem right_mk (l : Node) (o : Op) (r : Node) (p : F64) (d : Int) : (Expr.mk l o r p d).right = r := rfl

theorem validateExpr_eq (l : Node) (o : Op) (r : Node) (p : F64) (d : Int) :
    validateExpr (.mk l o r p d) = ((validateOp (.mk l o r p d) == some true) && validateNode l && validateNode r) := by
  rw [validateExpr]
  cases validateOp (.mk l o r p d) with
  | none => rfl
  | some b => cases b <;> rfl

theorem validate_lit_col (s : Bytes) : validateExpr (lit (.prim (.col s))) = true := by
  simp [lit, mkLeaf, validateExpr_eq, validateOp, validateNode, op_mk, left_mk, right_mk, Node.isNil, Node.isLiteral,
    Prim.isLiteral]

theorem validate_wrapE (df : Bytes) (x : Expr) : validateExpr (wrapE df x) = validateExpr x := by
  unfold wrapE
  split
  · have := validate_lit_col df
    simp [validateExpr_eq, validateOp, validateNode, op_mk, left_mk, right_mk, isLiteralExpr, lit, mkLeaf, Node.isLiteral,
      Prim.isLiteral, Node.isNil] at this ⊢
  · rfl

theorem eraseNode_isLiteral (df : Bytes) (l : Node) : (eraseNode df l).isLiteral = l.isLiteral := by
  cases l <;> simp [eraseNode, Node.isLiteral]

theorem isLit_erase (df : Bytes) (a : Expr) (h : topDf df a = false) :
    isLiteralExpr (.expr (eraseDf df a)) = isLiteralExpr (.expr a) := by
  obtain ⟨l, o, r, p, d⟩ := a
  rw [erase_notTop df l o r p d h]
  simp [isLiteralExpr, eraseNode_isLiteral]

theorem fieldE_cases (op : Op) (a : Expr) : fieldE op a = a ∨ ∃ s, fieldE op a = lit (.prim (.col s)) := by
  obtain ⟨l, o, r, p, d⟩ := a
  cases l with
  | prim pr =>
    cases pr with
    | str s =>
      simp only [fieldE]
      split
      · exact Or.inr ⟨s, rfl⟩
      · exact Or.inl rfl
    | _ => exact Or.inl rfl
  | _ => exact Or.inl rfl

theorem topDf_lit_col (df s : Bytes) : topDf df (lit (.prim (.col s))) = false := by
  simp [topDf, lit, mkLeaf, Expr.op]

theorem fieldE_validate (df : Bytes) (op : Op) (a : Expr) (h : topDf df a = false)
    (hv : validateExpr (eraseDf df a) = validateExpr a) :
    validateExpr (eraseDf df (fieldE op a)) = validateExpr (fieldE op a) ∧
      isLiteralExpr (.expr (eraseDf df (fieldE op a))) = isLiteralExpr (.expr (fieldE op a)) := by
  rcases fieldE_cases op a with h1 | ⟨s, h1⟩ <;> rw [h1]
  · exact ⟨hv, isLit_erase df a h⟩
  · rw [erase_semLeaf df _ (semLeaf_lit_col s)]
    exact ⟨rfl, rfl⟩

/-- Validate of a binary node reads its operands only through these four facts -/
theorem validate_congr_bin (F' F V' V : Expr) (o : Op) (p : F64) (d : Int)
    (h1 : isLiteralExpr (.expr F') = isLiteralExpr (.expr F)) (h2 : validateExpr F' = validateExpr F)
    (h3 : validateExpr V' = validateExpr V) (h4 : V'.op = V.op) :
    validateExpr (.mk (.expr F') o (.expr V') p d) = validateExpr (.mk (.expr F) o (.expr V) p d) := by
  cases o <;>
    simp [validateExpr_eq, validateOp, validateNode, op_mk, left_mk, right_mk, Node.isNil, h1, h2, h3, h4]

theorem validate_unary (A : Expr) (o : Op) (p : F64) (d : Int)
    (ho : o = .not ∨ o = .must ∨ o = .mustNot ∨ o = .fuzzy ∨ o = .boost) :
    validateExpr (.mk (.expr A) o .nil p d) = validateExpr A := by
  rcases ho with rfl | rfl | rfl | rfl | rfl <;>
    simp [validateExpr_eq, validateOp, validateNode, op_mk, left_mk, right_mk, Node.isNil]

theorem validate_andor (A B : Expr) (o : Op) (p : F64) (d : Int) (ho : o = .and ∨ o = .or) :
    validateExpr (.mk (.expr A) o (.expr B) p d) = (validateExpr A && validateExpr B) := by
  rcases ho with rfl | rfl <;>
    simp [validateExpr_eq, validateOp, validateNode, op_mk, left_mk, right_mk, Node.isNil]

theorem validate_range (F lo hi : Expr) (incl : Bool) (p : F64) (d : Int) :
    validateExpr (.mk (.expr F) .range (.bound (.expr lo) (.expr hi) incl) p d) =
      (isLiteralExpr (.expr F) && isLiteralExpr (.expr lo) && isLiteralExpr (.expr hi) && validateExpr F) := by
  simp [validateExpr_eq, validateOp, validateNode, op_mk, left_mk, right_mk, Node.isNil, Bool.and_assoc]

/-- Validate gives the same verdict before and after erasing the scopings -/
theorem sem_validate (env : Env) (df : Bytes) (hdf : df ≠ []) :
    ∀ (ex : Ex) (e : Expr), dfEraseOK env df ex = true → sem env df ex = .ok e →
      validateExpr (eraseDf df e) = validateExpr e
  | .leaf t, e, _, h => by
    rw [sem_leaf] at h; cases h
    rw [erase_semLeaf df _ (parseLiteral_leaf t)]
  | .inn _ _, _, _, h => absurd h (sem_inn _ _ _ _ _)
  | .eq f v, e, hok, h => by
    have htop := topDf_false hok h
    obtain ⟨f1, v1, hf1, hv1, rfl⟩ := sem_eq_inv h
    simp only [dfEraseOK, Bool.and_eq_true, Bool.not_eq_true'] at hok
    obtain ⟨⟨⟨_, hvl⟩, hokf⟩, hokv⟩ := hok
    have ihf := sem_validate env df hdf f f1 hokf hf1
    have ihv := sem_validate env df hdf v v1 hokv hv1
    have tf := topDf_false hokf hf1
    have tv := topDf_false hokv hv1
    rw [eqE_else _ _ (not_valueList_df hdf hv1)] at htop ⊢
    rw [erase_notTop df _ _ _ _ _ htop, eraseNode_expr, eraseNode_expr]
    obtain ⟨g1, g2⟩ := fieldE_validate df .equals f1 tf ihf
    exact validate_congr_bin _ _ _ _ _ _ _ g2 g1 ihv (erase_op df v1 tv)
  | .cmp gt orEq f v, e, hok, h => by
    obtain ⟨f1, v1, hf1, hv1, rfl⟩ := sem_cmp_inv h
    simp only [dfEraseOK, Bool.and_eq_true] at hok
    have ihf := sem_validate env df hdf f f1 hok.1 hf1
    have ihv := sem_validate env df hdf v v1 hok.2 hv1
    have tf := topDf_false hok.1 hf1
    have tv := topDf_false hok.2 hv1
    rw [erase_op_ne df _ _ _ _ _ (by cases gt <;> cases orEq <;> simp [cmpOp]), eraseNode_expr, eraseNode_expr]
    obtain ⟨g1, g2⟩ := fieldE_validate df (cmpOp gt orEq) f1 tf ihf
    exact validate_congr_bin _ _ _ _ _ _ _ g2 g1 ihv (erase_op df v1 tv)
  | .range f lo hi incl, e, hok, h => by
    obtain ⟨f1, l1, u1, hf1, hl1, hu1, rfl⟩ := sem_range_inv h
    simp only [dfEraseOK, Bool.and_eq_true] at hok
    have ihf := sem_validate env df hdf f f1 hok.1.1 hf1
    have tf := topDf_false hok.1.1 hf1
    have tl := topDf_false hok.1.2 hl1
    have tu := topDf_false hok.2 hu1
    rw [erase_op_ne df _ _ _ _ _ (by simp), eraseNode_expr, eraseNode_bound, eraseNode_expr, eraseNode_expr]
    obtain ⟨g1, g2⟩ := fieldE_validate df .range f1 tf ihf
    rw [validate_range, validate_range, g1, g2, isLit_erase df l1 tl, isLit_erase df u1 tu]
  | .and l r, e, hok, h => by
    obtain ⟨l1, r1, hl1, hr1, rfl⟩ := sem_and_inv h
    simp only [dfEraseOK, Bool.and_eq_true] at hok
    have ihl := sem_validate env df hdf l l1 hok.1 hl1
    have ihr := sem_validate env df hdf r r1 hok.2 hr1
    rw [erase_op_ne df _ _ _ _ _ (by simp), eraseNode_expr, eraseNode_expr, erase_wrapE, erase_wrapE,
      validate_andor _ _ _ _ _ (by simp), validate_andor _ _ _ _ _ (by simp), validate_wrapE, validate_wrapE, ihl, ihr]
  | .or l r, e, hok, h => by
    obtain ⟨l1, r1, hl1, hr1, rfl⟩ := sem_or_inv h
    simp only [dfEraseOK, Bool.and_eq_true] at hok
    have ihl := sem_validate env df hdf l l1 hok.1 hl1
    have ihr := sem_validate env df hdf r r1 hok.2 hr1
    rw [erase_op_ne df _ _ _ _ _ (by simp), eraseNode_expr, eraseNode_expr, erase_wrapE, erase_wrapE,
      validate_andor _ _ _ _ _ (by simp), validate_andor _ _ _ _ _ (by simp), validate_wrapE, validate_wrapE, ihl, ihr]
  | .not x, e, hok, h => by
    obtain ⟨x1, hx1, rfl⟩ := sem_not_inv h
    simp only [dfEraseOK] at hok
    have ih := sem_validate env df hdf x x1 hok hx1
    rw [erase_op_ne df _ _ _ _ _ (by simp), eraseNode_expr, eraseNode_nil, erase_wrapE,
      validate_unary _ _ _ _ (by simp), validate_unary _ _ _ _ (by simp), validate_wrapE, ih]
  | .must x, e, hok, h => by
    obtain ⟨x1, hx1, rfl⟩ := sem_must_inv h
    simp only [dfEraseOK] at hok
    have ih := sem_validate env df hdf x x1 hok hx1
    rw [erase_op_ne df _ _ _ _ _ (by simp), eraseNode_expr, eraseNode_nil,
      validate_unary _ _ _ _ (by simp), validate_unary _ _ _ _ (by simp), ih]
  | .mustNot x, e, hok, h => by
    obtain ⟨x1, hx1, rfl⟩ := sem_mustNot_inv h
    simp only [dfEraseOK] at hok
    have ih := sem_validate env df hdf x x1 hok hx1
    rw [erase_op_ne df _ _ _ _ _ (by simp), eraseNode_expr, eraseNode_nil,
      validate_unary _ _ _ _ (by simp), validate_unary _ _ _ _ (by simp), ih]
  | .fuzzy x none, e, hok, h => by
    obtain ⟨x1, hx1, rfl⟩ := sem_fuzzy0_inv h
    simp only [dfEraseOK] at hok
    have ih := sem_validate env df hdf x x1 hok hx1
    rw [erase_op_ne df _ _ _ _ _ (by simp), eraseNode_expr, eraseNode_nil,
      validate_unary _ _ _ _ (by simp), validate_unary _ _ _ _ (by simp), ih]
  | .fuzzy x (some dd), e, hok, h => by
    obtain ⟨x1, _, _, _, hx1, _, _, _, rfl⟩ := sem_fuzzy1_inv h
    simp only [dfEraseOK] at hok
    have ih := sem_validate env df hdf x x1 hok hx1
    rw [erase_op_ne df _ _ _ _ _ (by simp), eraseNode_expr, eraseNode_nil,
      validate_unary _ _ _ _ (by simp), validate_unary _ _ _ _ (by simp), ih]
  | .boost x none, e, hok, h => by
    obtain ⟨x1, hx1, rfl⟩ := sem_boost0_inv h
    simp only [dfEraseOK] at hok
    have ih := sem_validate env df hdf x x1 hok hx1
    rw [erase_op_ne df _ _ _ _ _ (by simp), eraseNode_expr, eraseNode_nil,
      validate_unary _ _ _ _ (by simp), validate_unary _ _ _ _ (by simp), ih]
  | .boost x (some dd), e, hok, h => by
    obtain ⟨x1, _, _, _, hx1, _, _, _, rfl⟩ := sem_boost1_inv h
    simp only [dfEraseOK] at hok
    have ih := sem_validate env df hdf x x1 hok hx1
    rw [erase_op_ne df _ _ _ _ _ (by simp), eraseNode_expr, eraseNode_nil,
      validate_unary _ _ _ _ (by simp), validate_unary _ _ _ _ (by simp), ih]

/-! ### the property, end to end -/

/-- The C11 relation between the outcome without default field (`r0`) and with it (`r1`): same acceptance; on
    success the erased result is the result without default field, and `P` holds of the scoped result. -/
def DfSpec (df : Bytes) (P : Expr → Prop) (r0 r1 : Out Expr) : Prop :=
  match r0 with
  | .ok e0 => ∃ e1, r1 = .ok e1 ∧ eraseDf df e1 = e0 ∧ P e1
  | .err => r1 = .err
  | .panic => False

theorem exok_df (env : Env) (df : Bytes) (ex : Ex) (h : ExOK (isNumOf env []) ex) :
    ExOK (isNumOf env df) ex := by
  have : isNumOf env df = isNumOf env [] := funext fun k => funext fun d => isNum_df_independent env df k d
  rw [this]; exact h

/-- the accept step: same verdict of Validate, erasure -/
theorem finalize_df (env : Env) (df : Bytes) (hdf : df ≠ []) (ex : Ex)
    (hex : ExOK (isNumOf env []) ex) (hok : dfEraseOK env df ex = true) :
    DfSpec df (fun _ => True) (finalize env [] ex) (finalize env df ex) := by
  obtain ⟨s0, hs0⟩ := sem_total env [] ex hex
  obtain ⟨s1, hs1⟩ := sem_total env df ex (exok_df env df ex hex)
  have her := sem_erase env df hdf ex s1 s0 hok hs1 hs0
  have hv : validateExpr (wrapE df s1) = validateExpr (wrapE [] s0) := by
    rw [validate_wrapE, validate_wrapE, ← her, sem_validate env df hdf ex s1 hok hs1]
  rw [finalize_eq env [] ex s0 hs0, finalize_eq env df ex s1 hs1, hv]
  cases validateExpr (wrapE [] s0) with
  | true =>
    simp only [if_true, DfSpec]
    exact ⟨_, rfl, by rw [erase_wrapE, wrapE_nil, her], trivial⟩
  | false => simp [DfSpec]

/-- hypotheses on an input, stated on the tree of reductions of the run without default field -/
def toksEraseOK (env : Env) (df : Bytes) (toks : List Tok) : Bool :=
  match parseToks (isNumOf env []) toks with
  | .ok ex => dfEraseOK env df ex
  | .err => true

def toksFriendly (env : Env) (df : Bytes) (toks : List Tok) : Bool :=
  match parseToks (isNumOf env []) toks with
  | .ok ex => dfFriendly env df ex
  | .err => true

/-- C11, first half: if no `f:v` of the query has the default field as its field or a value list as its value, then
    Parse with the default field accepts iff Parse without does, and erasing the `df:` scopings from its result gives
    the result without the option. -/
theorem c11_erase (env : Env) (df : Bytes) (hdf : df ≠ []) (toks : List Tok)
    (hok : toksEraseOK env df toks = true) :
    DfSpec df (fun _ => True) (parseTokens env [] toks) (parseTokens env df toks) := by
  unfold parseTokens
  rw [parseToks_df_independent env df toks]
  unfold toksEraseOK at hok
  cases hp : parseToks (isNumOf env []) toks with
  | err => simp [DfSpec]
  | ok ex =>
    rw [hp] at hok
    exact finalize_df env df hdf ex (parseToks_exok _ toks ex hp) hok

/-- C11, the partial theorem: on friendly queries, same acceptance, erasure, and no bare term remains. -/
theorem c11 (env : Env) (df : Bytes) (hdf : df ≠ []) (toks : List Tok)
    (hfr : toksFriendly env df toks = true) :
    DfSpec df (fun e1 => noBareTerm e1 = true) (parseTokens env [] toks) (parseTokens env df toks) := by
  unfold parseTokens
  rw [parseToks_df_independent env df toks]
  unfold toksFriendly at hfr
  cases hp : parseToks (isNumOf env []) toks with
  | err => simp [DfSpec]
  | ok ex =>
    rw [hp] at hfr
    simp only [dfFriendly, Bool.and_eq_true] at hfr
    obtain ⟨⟨hok, hpl⟩, hsc⟩ := hfr
    have h := finalize_df env df hdf ex (parseToks_exok _ toks ex hp) hok
    simp only []
    unfold DfSpec at h ⊢
    cases h0 : finalize env [] ex with
    | err => rw [h0] at h; exact h
    | panic => rw [h0] at h; exact h
    | ok e0 =>
      rw [h0] at h
      obtain ⟨e1, h1, her, _⟩ := h
      exact ⟨e1, h1, her, no_bare_term env df hdf ex e1 hpl hsc h1⟩

theorem dfFriendly_eraseOK {env : Env} {df : Bytes} {ex : Ex} (h : dfFriendly env df ex = true) :
    dfEraseOK env df ex = true := by
  simp only [dfFriendly, Bool.and_eq_true] at h
  exact h.1.1

/-- (1) as stated for friendly trees -/
theorem sem_erase_friendly (env : Env) (df : Bytes) (hdf : df ≠ []) (ex : Ex) (e1 e0 : Expr)
    (hfr : dfFriendly env df ex = true) (h1 : sem env df ex = .ok e1) (h0 : sem env [] ex = .ok e0) :
    eraseDf df e1 = e0 :=
  sem_erase env df hdf ex e1 e0 (dfFriendly_eraseOK hfr) h1 h0

/-- C11 for `lucene.Parse` on byte strings (the token stream does not depend on the option) -/
theorem c11_query (env : Env) (df : Bytes) (hdf : df ≠ []) (s : Bytes)
    (hfr : toksFriendly env df (tokensOf env s) = true) :
    DfSpec df (fun e1 => noBareTerm e1 = true) (parseQuery env s []) (parseQuery env s df) :=
  c11 env df hdf (tokensOf env s) hfr

/-! ### (4) the three recorded violations, and the necessity of the hypotheses -/

def tFoo : Tok := ⟨.literal, [102, 111, 111]⟩          -- foo
def tFooStar : Tok := ⟨.literal, [102, 111, 111, 42]⟩   -- foo*
def tA : Tok := ⟨.literal, [97]⟩
def tB : Tok := ⟨.literal, [98]⟩
def tD : Tok := ⟨.literal, [100]⟩
def tX : Tok := ⟨.literal, [120]⟩
def tY : Tok := ⟨.literal, [121]⟩
/-- the default field `d` -/
def dfD : Bytes := [100]

/-- `+foo` with a default field: accepted, the bare term stays unscoped -/
theorem refute_must (env : Env) :
    ∃ e, parseTokens env dfD [tk .plus, tFoo] = .ok e ∧ noBareTerm e = false ∧
      dfScoped (.must (.leaf tFoo)) = false := by
  have hp : parseToks (isNumOf env dfD) [tk .plus, tFoo] = .ok (.must (.leaf tFoo)) :=
    roundtripF _ (.must (.leaf tFoo)) (by simp [Ft.ok, TT.isTerm, tFoo])
  unfold parseTokens
  rw [hp]
  exact ⟨_, rfl, rfl, rfl⟩

/-- `foo* AND b` with a default field: accepted, the pattern stays unscoped -/
theorem refute_pattern (env : Env) :
    ∃ e, parseTokens env dfD [tFooStar, tk .tand, tB] = .ok e ∧ noBareTerm e = false ∧
      dfScoped (.and (.leaf tFooStar) (.leaf tB)) = false := by
  have hp : parseToks (isNumOf env dfD) [tFooStar, tk .tand, tB] = .ok (.and (.leaf tFooStar) (.leaf tB)) :=
    roundtripF _ (.and (.leaf tFooStar) (.leaf tB)) (by simp [Ft.ok, TT.isTerm, tFooStar, tB])
  unfold parseTokens
  rw [hp]
  exact ⟨_, rfl, rfl, rfl⟩

/-- a bare pattern as the whole query stays unscoped -/
theorem refute_pattern_alone (env : Env) :
    ∃ e, parseTokens env dfD [tFooStar] = .ok e ∧ noBareTerm e = false ∧ plainOperand (.leaf tFooStar) = false := by
  have hp : parseToks (isNumOf env dfD) [tFooStar] = .ok (.leaf tFooStar) :=
    roundtripF _ (.leaf tFooStar) (by simp [Ft.ok, TT.isTerm, tFooStar])
  unfold parseTokens
  rw [hp]
  exact ⟨_, rfl, rfl, rfl⟩

/-- `a:(x OR y)`: the value list is lost — the erased result is `a:(x OR y)` (Equals), not `a IN (x, y)` -/
theorem refute_valueList (env : Env) :
    ∃ e1 e0, parseTokens env dfD [tA, tk .colon, lp, tX, tk .tor, tY, rp] = .ok e1 ∧
      parseTokens env [] [tA, tk .colon, lp, tX, tk .tor, tY, rp] = .ok e0 ∧ eraseDf dfD e1 ≠ e0 ∧
      dfEraseOK env dfD (.eq (.leaf tA) (.or (.leaf tX) (.leaf tY))) = false := by
  have hp : ∀ isNum, parseToks isNum [tA, tk .colon, lp, tX, tk .tor, tY, rp] =
      .ok (.eq (.leaf tA) (.or (.leaf tX) (.leaf tY))) := fun isNum =>
    roundtripF isNum (.eqGroup tA (.or (.leaf tX) (.leaf tY))) (by simp [Ft.ok, TT.isTerm, tA, tX, tY])
  unfold parseTokens
  rw [hp, hp]
  refine ⟨_, _, rfl, rfl, ?_, rfl⟩
  intro h
  have := congrArg Expr.op h
  exact absurd this (by decide)

/-- the hypothesis "`df` is not otherwise used" is necessary: for `d:x` the result is the same with and without the
    default field `d`, and erasure strips the user's own scoping -/
theorem refute_fieldUsed (env : Env) :
    ∃ e1 e0, parseTokens env dfD [tD, tk .colon, tX] = .ok e1 ∧ parseTokens env [] [tD, tk .colon, tX] = .ok e0 ∧
      eraseDf dfD e1 ≠ e0 ∧ dfEraseOK env dfD (.eq (.leaf tD) (.leaf tX)) = false := by
  have hp : ∀ isNum, parseToks isNum [tD, tk .colon, tX] = .ok (.eq (.leaf tD) (.leaf tX)) := fun isNum =>
    roundtripF isNum (.eq tD false tX) (by simp [Ft.ok, TT.isTerm, tD, tX])
  unfold parseTokens
  rw [hp, hp]
  refine ⟨_, _, rfl, rfl, ?_, rfl⟩
  intro h
  have := congrArg Expr.op h
  exact absurd this (by decide)

/-- non-vacuity: `a:x AND NOT b` is friendly, and the theorem applies -/
theorem friendly_example (env : Env) :
    dfFriendly env dfD (.and (.eq (.leaf tA) (.leaf tX)) (.not (.leaf tB))) = true := rfl

/-- … and the exception for pattern values: `d:foo*` with default field `d` is fine -/
theorem friendly_example_like (env : Env) : dfFriendly env dfD (.eq (.leaf tD) (.leaf tFooStar)) = true := rfl


/-- `-foo`, `foo~`, `foo^` with a default field: the bare term stays unscoped, as under `+` -/
theorem refute_minus_tilde_carrot (env : Env) :
    (∃ e, parseTokens env dfD [tk .minus, tFoo] = .ok e ∧ noBareTerm e = false) ∧
    (∃ e, parseTokens env dfD [tFoo, tk .tilde] = .ok e ∧ noBareTerm e = false) ∧
    (∃ e, parseTokens env dfD [tFoo, tk .carrot] = .ok e ∧ noBareTerm e = false) := by
  have h1 : parseToks (isNumOf env dfD) [tk .minus, tFoo] = .ok (.mustNot (.leaf tFoo)) :=
    roundtripF _ (.mustNot (.leaf tFoo)) (by simp [Ft.ok, TT.isTerm, tFoo])
  have h2 : parseToks (isNumOf env dfD) [tFoo, tk .tilde] = .ok (.fuzzy (.leaf tFoo) none) :=
    roundtripF _ (.fuzzy (.leaf tFoo) none) (by simp [Ft.ok, optOK, TT.isTerm, tFoo])
  have h3 : parseToks (isNumOf env dfD) [tFoo, tk .carrot] = .ok (.boost (.leaf tFoo) none) :=
    roundtripF _ (.boost (.leaf tFoo) none) (by simp [Ft.ok, optOK, TT.isTerm, tFoo])
  unfold parseTokens
  rw [h1, h2, h3]
  exact ⟨⟨_, rfl, rfl⟩, ⟨_, rfl, rfl⟩, ⟨_, rfl, rfl⟩⟩

/-- `df ≠ []` is necessary for (3): without a default field nothing is scoped -/
theorem refute_no_df (env : Env) :
    ∃ e, parseTokens env [] [tA, tk .tand, tB] = .ok e ∧ noBareTerm e = false ∧
      dfFriendly env [] (.and (.leaf tA) (.leaf tB)) = true := by
  have hp : parseToks (isNumOf env []) [tA, tk .tand, tB] = .ok (.and (.leaf tA) (.leaf tB)) :=
    roundtripF _ (.and (.leaf tA) (.leaf tB)) (by simp [Ft.ok, TT.isTerm, tA, tB])
  unfold parseTokens
  rw [hp]
  exact ⟨_, rfl, rfl, rfl⟩

/-- a friendly query through the real run: `a:x AND NOT b` with default field `d` gives `a:x AND NOT(d:b)`; the
    hypotheses of `c11` hold -/
theorem friendly_run (env : Env) : toksFriendly env dfD [tA, tk .colon, tX, tk .tand, tk .tnot, tB] = true := by
  have hp : parseToks (isNumOf env []) [tA, tk .colon, tX, tk .tand, tk .tnot, tB] =
      .ok (.and (.eq (.leaf tA) (.leaf tX)) (.not (.leaf tB))) :=
    roundtripF _ (.and (.eq tA false tX) (.not (.leaf tB))) (by simp [Ft.ok, TT.isTerm, tA, tX, tB])
  unfold toksFriendly
  rw [hp]
  rfl

#print axioms isNum_df_independent
#print axioms parseToks_df_independent
#print axioms sem_erase
#print axioms finalize_erase
#print axioms sem_validate
#print axioms no_bare_term
#print axioms c11_erase
#print axioms c11
#print axioms refute_must
#print axioms refute_pattern
#print axioms refute_pattern_alone
#print axioms refute_valueList
#print axioms refute_fieldUsed
#print axioms refute_minus_tilde_carrot
#print axioms c11_query

end GoLucene
