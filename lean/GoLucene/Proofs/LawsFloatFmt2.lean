import GoLucene.Proofs.LawsFloatFmt
/-
  Laws, float formatting side, part 2: `shortest_spec` (the digits `Num.shortest` returns denote a decimal inside the
  rounding interval of the value).
-/
set_option linter.unusedSimpArgs false
set_option linter.unusedVariables false

namespace GoLucene
namespace Laws
namespace Fmt

open Num JsonRoundTrip

/-! ## two tables (closed arithmetic facts, one row per binary exponent) -/

/-- 64 steps below the start scale the scale is finer than the width of the interval -/
theorem tableA : ∀ n : Nat, n < 2046 →
    2 ^ (-((n:Int) - 1076)).toNat * 10 ^ ((((n:Int) - 1076) + 55) * 30103 / 100000 - 62).toNat
      < 3 * 2 ^ ((n:Int) - 1076).toNat * 10 ^ (-((((n:Int) - 1076) + 55) * 30103 / 100000 - 62)).toNat := by
  decide +kernel

/-- at every scale the loop visits the multiplier stays below 10^400 -/
theorem tableB : ∀ n : Nat, n < 2046 →
    2 ^ (55 + ((n:Int) - 1076).toNat) * 10 ^ (-((((n:Int) - 1076) + 3) * 30103 / 100000 - 62)).toNat
      ≤ 10 ^ 400 * 2 ^ (-((n:Int) - 1076)).toNat * 10 ^ ((((n:Int) - 1076) + 3) * 30103 / 100000 - 62).toNat := by
  decide +kernel

theorem tableA' (e2 : Int) (h1 : -1076 ≤ e2) (h2 : e2 ≤ 969) :
    dvK (dnE e2) ((e2 + 55) * 30103 / 100000 - 62) < 3 * scE e2 * mulK ((e2 + 55) * 30103 / 100000 - 62) := by
  have h := tableA (e2 + 1076).toNat (by omega)
  have e : (((e2 + 1076).toNat : Nat) : Int) - 1076 = e2 := by omega
  rw [e] at h
  exact h

theorem tableB' (e2 : Int) (h1 : -1076 ≤ e2) (h2 : e2 ≤ 969) :
    2 ^ 55 * scE e2 * mulK ((e2 + 3) * 30103 / 100000 - 62) ≤ 10 ^ 400 * dvK (dnE e2) ((e2 + 3) * 30103 / 100000 - 62) := by
  have h := tableB (e2 + 1076).toNat (by omega)
  have e : (((e2 + 1076).toNat : Nat) : Int) - 1076 = e2 := by omega
  rw [e] at h
  unfold scE mulK dvK dnE
  rw [← Nat.pow_add, ← Nat.mul_assoc]
  exact h

/-- comparisons against a scale survive going to a coarser scale -/
theorem mono_step (den A B : Nat) (k : Int) (h : A * mulK k ≤ B * dvK den k) :
    A * mulK (k + 1) ≤ B * dvK den (k + 1) := by
  by_cases hk : 0 ≤ k
  · obtain ⟨e1, e2, e3⟩ := scale_nonneg den k hk
    rw [e1] at h
    rw [e2, e3]
    have : B * (10 * dvK den k) = 10 * (B * dvK den k) := by
      rw [← Nat.mul_assoc, Nat.mul_comm B 10, Nat.mul_assoc]
    rw [this]
    omega
  · obtain ⟨e1, e2, e3⟩ := scale_neg den k (by omega)
    rw [e1, e3] at h
    rw [e2]
    have : A * (10 * mulK (k + 1)) = 10 * (A * mulK (k + 1)) := by
      rw [← Nat.mul_assoc, Nat.mul_comm A 10, Nat.mul_assoc]
    rw [this] at h
    omega

theorem mono_scale (den A B : Nat) (k : Int) (h : A * mulK k ≤ B * dvK den k) :
    ∀ (n : Nat), A * mulK (k + n) ≤ B * dvK den (k + n) := by
  intro n
  induction n with
  | zero => simpa using h
  | succ n ih =>
    have := mono_step den A B (k + n) ih
    have e : k + ((n + 1 : Nat) : Int) = k + n + 1 := by omega
    rw [e]; exact this

theorem mono_scale' (den A B : Nat) (k k' : Int) (hk : k ≤ k') (h : A * mulK k ≤ B * dvK den k) :
    A * mulK k' ≤ B * dvK den k' := by
  have := mono_scale den A B k h (k' - k).toNat
  have e : k + ((k' - k).toNat : Int) = k' := by omega
  rw [e] at this; exact this

theorem log2_bounds (n : Nat) (h1 : 6 ≤ n) (h2 : n < 2 ^ 55) : 2 ≤ Nat.log2 n ∧ Nat.log2 n ≤ 54 := by
  have hn : n ≠ 0 := by omega
  constructor
  · have := (Nat.log2_lt (n := n) (k := 2) hn)
    by_cases h : Nat.log2 n < 2
    · have := this.mp h; omega
    · omega
  · have := (Nat.log2_lt (n := n) (k := 55) hn).mpr h2
    omega

theorem lowN_bounds (m : Nat) (e : Int) (hm : 0 < m) : 2 ≤ lowN m e ∧ lowN m e < 4 * m ∧ lowN m e + 3 ≤ 4 * m + 2 := by
  unfold lowN
  split <;> omega

/-! ## (3) `shortest_spec` -/


/-- both bounds of `InI` in their weak form -/
theorem InI_weak (lo hi den : Nat) (incl : Bool) (c : Nat) (k : Int) (h : InI lo hi den incl c k) :
    lo * mulK k ≤ c * dvK den k ∧ c * dvK den k ≤ hi * mulK k := by
  unfold InI at h
  split at h <;> omega

theorem natDigits_len_bounds (c : Nat) (hc : 0 < c) :
    10 ^ ((natDigits c).length - 1) ≤ c ∧ c < 10 ^ (natDigits c).length ∧ 0 < (natDigits c).length := by
  have hpos : 0 < (natDigits c).length := by
    cases h : natDigits c with
    | nil => exact absurd h (natDigits_ne_nil c)
    | cons _ _ => simp
  refine ⟨?_, (natDigits_length_le_iff c _ hpos).mp (Nat.le_refl _), hpos⟩
  by_cases h1 : (natDigits c).length - 1 = 0
  · rw [h1, Nat.pow_zero]; exact hc
  · have := (natDigits_length_le_iff c ((natDigits c).length - 1) (by omega))
    by_cases h2 : c < 10 ^ ((natDigits c).length - 1)
    · have := this.mpr h2; omega
    · omega

/-- the decimal point of a decimal inside the interval of a binary64 value -/
theorem dp_bounds (lo hi den : Nat) (incl : Bool) (c : Nat) (k : Int) (hc : 0 < c) (h : InI lo hi den incl c k)
    (hlo : 2 ≤ lo) (hden : 0 < den) (hden2 : den ≤ 2 ^ 1076) (hhi : hi < 2 ^ 1024 * den) :
    -330 ≤ ((natDigits c).length : Int) + k ∧ ((natDigits c).length : Int) + k ≤ 310 := by
  obtain ⟨h1, h2⟩ := InI_weak _ _ _ _ _ _ h
  obtain ⟨l1, l2, l3⟩ := natDigits_len_bounds c hc
  generalize (natDigits c).length = len at *
  unfold mulK dvK at h1 h2
  constructor
  · -- lower bound
    by_cases hk : (len : Int) + k ≤ -331
    · exfalso
      have e1 : k.toNat = 0 := by omega
      have e2 : (-k).toNat = len + 331 + ((-k).toNat - len - 331) := by omega
      rw [e1] at h1
      rw [e2, Nat.pow_add, Nat.pow_add] at h1
      simp only [Nat.pow_zero, Nat.mul_one] at h1
      have p331 : (2:Nat) ^ 1076 < 10 ^ 331 := by decide +kernel
      have hq : 0 < 10 ^ ((-k).toNat - len - 331) := Nat.pow_pos (by decide)
      -- lo * (10^len * 10^331 * Q) ≤ c * den < 10^len * den
      have a1 : c * den < 10 ^ len * den := Nat.mul_lt_mul_of_pos_right l2 hden
      have a2 : 10 ^ len * den ≤ 10 ^ len * 2 ^ 1076 := Nat.mul_le_mul_left _ hden2
      have a3 : 10 ^ len * 2 ^ 1076 < 10 ^ len * 10 ^ 331 := Nat.mul_lt_mul_of_pos_left p331 (Nat.pow_pos (by decide))
      have a4 : 10 ^ len * 10 ^ 331 ≤ 10 ^ len * 10 ^ 331 * 10 ^ ((-k).toNat - len - 331) := Nat.le_mul_of_pos_right _ hq
      have a5 : 10 ^ len * 10 ^ 331 * 10 ^ ((-k).toNat - len - 331) ≤
          lo * (10 ^ len * 10 ^ 331 * 10 ^ ((-k).toNat - len - 331)) := Nat.le_mul_of_pos_left _ (by omega)
      omega
    · omega
  · by_cases hk : 311 ≤ (len : Int) + k
    · exfalso
      have p310 : (2:Nat) ^ 1024 < 10 ^ 310 := by decide +kernel
      -- 10^(len-1) * den * 10^k⁺ ≤ c * (den * 10^k⁺) ≤ hi * 10^(-k)⁺ < 2^1024 * den * 10^(-k)⁺
      have a1 : 10 ^ (len - 1) * (den * 10 ^ k.toNat) ≤ c * (den * 10 ^ k.toNat) := Nat.mul_le_mul_right _ l1
      have a2 : hi * 10 ^ (-k).toNat < 2 ^ 1024 * den * 10 ^ (-k).toNat :=
        Nat.mul_lt_mul_of_pos_right hhi (Nat.pow_pos (by decide))
      have a3 : 10 ^ (len - 1) * (den * 10 ^ k.toNat) < 2 ^ 1024 * den * 10 ^ (-k).toNat := by omega
      have e : len - 1 + k.toNat = 310 + (-k).toNat + (len - 1 + k.toNat - 310 - (-k).toNat) := by omega
      have a4 : 10 ^ (len - 1) * (den * 10 ^ k.toNat) = den * (10 ^ 310 * 10 ^ (-k).toNat *
          10 ^ (len - 1 + k.toNat - 310 - (-k).toNat)) := by
        rw [← Nat.pow_add, ← Nat.pow_add, ← e, Nat.pow_add]
        rw [Nat.mul_comm den, ← Nat.mul_assoc, Nat.mul_comm]
      have a5 : 2 ^ 1024 * den * 10 ^ (-k).toNat = den * (2 ^ 1024 * 10 ^ (-k).toNat) := by
        rw [Nat.mul_comm (2 ^ 1024) den, Nat.mul_assoc]
      rw [a4, a5] at a3
      have a6 := Nat.lt_of_mul_lt_mul_left a3
      have hq : 0 < 10 ^ (len - 1 + k.toNat - 310 - (-k).toNat) := Nat.pow_pos (by decide)
      have a7 : 10 ^ 310 * 10 ^ (-k).toNat ≤ 10 ^ 310 * 10 ^ (-k).toNat * 10 ^ (len - 1 + k.toNat - 310 - (-k).toNat) :=
        Nat.le_mul_of_pos_right _ hq
      have a8 : 2 ^ 1024 * 10 ^ (-k).toNat < 10 ^ 310 * 10 ^ (-k).toNat :=
        Nat.mul_lt_mul_of_pos_right p310 (Nat.pow_pos (by decide))
      omega
    · omega

theorem scE_pos (e2 : Int) : 0 < scE e2 := Nat.pow_pos (by decide)
theorem dnE_pos (e2 : Int) : 0 < dnE e2 := Nat.pow_pos (by decide)

theorem hi_bound (m : Nat) (e2 : Int) (hm2 : m < 9007199254740992) (h2 : e2 ≤ 969) :
    (4 * m + 2) * scE e2 < 2 ^ 1024 * dnE e2 := by
  have a1 : (4 * m + 2) * scE e2 < 2 ^ 55 * scE e2 := Nat.mul_lt_mul_of_pos_right (by omega) (scE_pos e2)
  have a2 : scE e2 ≤ 2 ^ 969 := Nat.pow_le_pow_right (by decide) (by omega)
  have a3 : 2 ^ 55 * scE e2 ≤ 2 ^ 55 * 2 ^ 969 := Nat.mul_le_mul_left _ a2
  have a4 : (2:Nat) ^ 55 * 2 ^ 969 = 2 ^ 1024 := by rw [← Nat.pow_add]
  have a5 : 2 ^ 1024 ≤ 2 ^ 1024 * dnE e2 := Nat.le_mul_of_pos_right _ (dnE_pos e2)
  generalize (2:Nat) ^ 1024 = P at *
  omega

theorem shortest_core (m : Nat) (e : Int) (hm : 0 < m) (hm2 : m < 9007199254740992) (he : -1074 ≤ e) (he2 : e ≤ 971) :
    ∃ (c : Nat) (k : Int), 0 < c ∧ c % 10 ≠ 0 ∧
      shortest m e = (natDigits c, ((natDigits c).length : Int) + k) ∧
      InI (lowN m e * scE (e - 2)) ((4 * m + 2) * scE (e - 2)) (dnE (e - 2)) (decide (m % 2 = 0)) c k ∧
      -330 ≤ ((natDigits c).length : Int) + k ∧ ((natDigits c).length : Int) + k ≤ 310 := by
  rw [shortest_eq]
  have hsc := scE_pos (e - 2)
  have hdn := dnE_pos (e - 2)
  obtain ⟨n1, n2, n3⟩ := lowN_bounds m e hm
  have hlo : lowN m e * scE (e - 2) < 4 * m * scE (e - 2) := Nat.mul_lt_mul_of_pos_right n2 hsc
  have hhi : 4 * m * scE (e - 2) < (4 * m + 2) * scE (e - 2) := Nat.mul_lt_mul_of_pos_right (by omega) hsc
  have hw : 3 * scE (e - 2) ≤ (4 * m + 2) * scE (e - 2) - lowN m e * scE (e - 2) := by
    rw [← Nat.sub_mul]
    exact Nat.mul_le_mul_right _ (by omega)
  obtain ⟨L1, L2⟩ := log2_bounds (4 * m + 2) (by omega) (by omega)
  have hk0 : kstartOf m e - (64 : Nat) < (e - 2 + 55) * 30103 / 100000 - 62 ∧
      (e - 2 + 55) * 30103 / 100000 - 62 ≤ kstartOf m e := by
    unfold kstartOf
    generalize Nat.log2 (4 * m + 2) = L at *
    omega
  have hk1 : (e - 2 + 3) * 30103 / 100000 - 62 ≤ kstartOf m e - (64 : Nat) + 1 := by
    unfold kstartOf
    generalize Nat.log2 (4 * m + 2) = L at *
    omega
  have hW := tableA' (e - 2) (by omega) (by omega)
  have hW' : dvK (dnE (e - 2)) ((e - 2 + 55) * 30103 / 100000 - 62) <
      ((4 * m + 2) * scE (e - 2) - lowN m e * scE (e - 2)) * mulK ((e - 2 + 55) * 30103 / 100000 - 62) :=
    Nat.lt_of_lt_of_le hW (Nat.mul_le_mul_right _ hw)
  have hloop := loop_spec _ _ _ _ (decide (m % 2 = 0)) hlo hhi hdn 64 (kstartOf m e) ⟨_, hk0.1, hk0.2, hW'⟩
  generalize shortestLoop (lowN m e * scE (e - 2)) (4 * m * scE (e - 2)) ((4 * m + 2) * scE (e - 2))
        (dnE (e - 2)) (decide (m % 2 = 0)) 64 (kstartOf m e) = p at hloop ⊢
  obtain ⟨c, k⟩ := p
  simp only [] at hloop ⊢
  obtain ⟨hc, hI, hkl, hku⟩ := hloop
  -- the multiplier is below 10^400
  have hB := mono_scale' _ _ _ _ k (by omega) (tableB' (e - 2) (by omega) (by omega))
  have hcb : c < 10 ^ 400 := by
    have a1 := (InI_weak _ _ _ _ _ _ hI).2
    have a2 : (4 * m + 2) * scE (e - 2) * mulK k < 2 ^ 55 * scE (e - 2) * mulK k :=
      Nat.mul_lt_mul_of_pos_right (Nat.mul_lt_mul_of_pos_right (by omega) hsc) (mulK_pos k)
    have a3 : c * dvK (dnE (e - 2)) k < 10 ^ 400 * dvK (dnE (e - 2)) k := by omega
    exact Nat.lt_of_mul_lt_mul_right a3
  have hs := strip_spec _ _ _ _ 400 c k hc hcb hI
  generalize stripZeros 400 c k = q at hs ⊢
  obtain ⟨c', k'⟩ := q
  simp only [] at hs ⊢
  obtain ⟨s1, s2, s3, s4⟩ := hs
  refine ⟨c', k', s1, s2, rfl, s3, ?_⟩
  exact dp_bounds _ _ _ _ c' k' s1 s3 (Nat.le_trans n1 (Nat.le_mul_of_pos_right _ hsc)) hdn
    (Nat.pow_le_pow_right (by decide) (by omega)) (hi_bound m (e - 2) hm2 (by omega))

theorem inIvl_eq (m : Nat) (e : Int) (N D : Nat) : inIvl m e N D ↔
    (if m % 2 = 0 then lowN m e * scE (e - 2) * D ≤ N * dnE (e - 2) ∧ N * dnE (e - 2) ≤ (4 * m + 2) * scE (e - 2) * D
     else lowN m e * scE (e - 2) * D < N * dnE (e - 2) ∧ N * dnE (e - 2) < (4 * m + 2) * scE (e - 2) * D) := by
  unfold inIvl
  simp only [sc_eq, dn_eq]
  exact Iff.rfl

theorem InI_decInIvl (m : Nat) (e : Int) (c : Nat) (k : Int)
    (h : InI (lowN m e * scE (e - 2)) ((4 * m + 2) * scE (e - 2)) (dnE (e - 2)) (decide (m % 2 = 0)) c k) :
    decInIvl m e c k := by
  unfold decInIvl
  unfold InI at h
  simp only [decide_eq_true_eq] at h
  by_cases hk : k ≥ 0
  · rw [if_pos hk, inIvl_eq]
    have e1 : mulK k = 1 := by
      unfold mulK; have : (-k).toNat = 0 := by omega
      rw [this]
    rw [e1] at h
    unfold dvK at h
    have e2 : c * (dnE (e - 2) * 10 ^ k.toNat) = c * 10 ^ k.toNat * dnE (e - 2) := by
      rw [Nat.mul_comm (dnE (e - 2)), Nat.mul_assoc]
    rw [e2] at h
    exact h
  · rw [if_neg hk, inIvl_eq]
    have e1 : dvK (dnE (e - 2)) k = dnE (e - 2) := by
      unfold dvK; have : k.toNat = 0 := by omega
      rw [this]; simp
    rw [e1] at h
    exact h

theorem shortestOf_nonzero (f : F64) (hnz : f.isZero = false) : Num.shortestOf f = shortest f.mant f.exp2 := by
  unfold Num.shortestOf
  simp [hnz]

theorem _root_.GoLucene.Laws.shortest_spec (f : F64) (hfin : f.isFinite = true) (hnz : f.isZero = false) :
    ∃ (c : Nat) (k : Int), 0 < c ∧ c % 10 ≠ 0 ∧
      Num.shortestOf f = (natDigits c, ((natDigits c).length : Int) + k) ∧
      decInIvl f.mant f.exp2 c k ∧
      -330 ≤ ((natDigits c).length : Int) + k ∧ ((natDigits c).length : Int) + k ≤ 310 := by
  obtain ⟨r1, r2, r3, r4⟩ := f_ranges f hfin hnz
  obtain ⟨c, k, h1, h2, h3, h4, h5, h6⟩ := shortest_core f.mant f.exp2 r1 r2 r3 r4
  exact ⟨c, k, h1, h2, by rw [shortestOf_nonzero f hnz]; exact h3, InI_decInIvl _ _ _ _ h4, h5, h6⟩

#print axioms shortest_spec
end Fmt
end Laws
end GoLucene
