import GoLucene.Proofs.Full3
namespace GoLucene

theorem lvl_prefixRoot (x : Ft) :
    (x.lvl = 12 → x.prefixRoot = some .tnot) ∧ (x.lvl = 8 → x.prefixRoot = some .plus) ∧
    (x.lvl = 9 → x.prefixRoot = some .minus) := by
  cases x <;> simp [Ft.lvl, Ft.prefixRoot]

/-- child under an operator token `cur` of number `p` (prefix tie allowed) -/
theorem admits_under (cur : TT) (x : Ft) (hcl : anyClosingBracket cur = false)
    (h : x.lvl < cur.num ∨ (x.lvl = cur.num ∧ x.prefixRoot = some cur)) : admitsF cur x := by
  right; right
  refine ⟨hcl, ?_⟩
  rcases h with h | ⟨_, h⟩
  · left; omega
  · right; exact h

/-- child in the same context as its parent, parent level `n ≥ child level` -/
theorem admits_same {cur : TT} {n : Nat} (x : Ft) (hx : x.lvl ≤ n)
    (h : isOpen cur = true ∨ (anyClosingBracket cur = false ∧ cur.num > n)) : admitsF cur x := by
  rcases h with h | ⟨h1, h2⟩
  · right; left; exact h
  · right; right; exact ⟨h1, Or.inl (by omega)⟩

/-- what `admitsF cur T` gives for shifting an operator of number ≤ T.lvl in the same context -/
theorem admits_ctx {cur : TT} {T : Ft} (h : admitsF cur T) (hl : T.lvl ≠ 0) (hp : T.prefixRoot = none) :
    isOpen cur = true ∨ (anyClosingBracket cur = false ∧ cur.num > T.lvl) := by
  rcases h with h | h | ⟨h1, h2 | h2⟩
  · exact absurd h hl
  · exact Or.inl h
  · exact Or.inr ⟨h1, h2⟩
  · simp [hp] at h2

theorem wrapF (isNum : Bool → Ex → Bool) (T : Ft) (ih : FStmt isNum T) (n : Nat)
    (c : Cfg) (rest : List Tok) (hc : topTokOrEmpty c) (ha : admitsF (curOf c) T ∨ n < T.lvl)
    (hcl : Closes n (nextOf rest)) :
    runW isNum c (paren (decide (n < T.lvl)) (fpp T) ++ rest)
      = runW isNum ⟨.ex (fsem T) :: c.stack, c.nts⟩ rest := by
  by_cases hlt : n < T.lvl
  · simp only [paren, hlt, decide_true, if_true, List.cons_append, List.append_assoc]
    rw [step_shift_op isNum c lp _ (by simp [lp]) (by simp [lp, TT.isTerminal])
      (by simp [lp, shouldShift, TT.isTerminal, anyOpenBracket])]
    rw [ih _ _ (Or.inr ⟨_, _, rfl⟩) (by right; left; simp [curOf, lp, isOpen])
      ⟨by simp [nextOf, rp, TT.isTerm], by simp [nextOf, rp], by simp [nextOf, rp, isOpen],
       by simp [nextOf, rp, endingRange], by simp [nextOf, rp, TT.isPrefixOp],
       by simp [nextOf, rp, TT.num]; have := flvl_le T; omega⟩]
    rw [step_shift_op isNum _ rp _ (by simp [rp]) (by simp [rp, TT.isTerminal])
      (by simp [rp, lp, curOf, shouldShift, TT.isTerminal, anyOpenBracket])]
    rw [step_reduce isNum _ _ (by simp) (by simp [curOf, rp]; exact noShift_closing hcl rfl)]
    simp [lp, rp, reduce_sub]
  · simp only [paren, hlt, decide_false, Bool.false_eq_true, if_false]
    have hle : T.lvl ≤ n := Nat.le_of_not_lt hlt
    rcases ha with ha | ha
    · exact ih c rest hc ha (hcl.mono hle)
    · omega

end GoLucene
