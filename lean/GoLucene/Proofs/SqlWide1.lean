import GoLucene.Proofs.SqlText
/-
  SqlWide, part 1: the WIDE confinement fragment of property C02 — definitions and the operand / numeric lemmas.

  `SqlText.render_parses` is stated on `cleanFilter`, which excludes many shapes for SEMANTIC reasons (property C03).
  Confinement (C02) only needs: the text renders, PostgreSQL reads it as ONE expression, its column references are
  fields of the query, its constants are (re-formatted) values of the query.  This file defines

    opdPrim / atomAst      an operand position: a literal / wild / regexp leaf (or a raw value) holding a column, a
                           string, an int or a finite float — in FIELD and in VALUE position alike
    confinedFilter         the structural fragment (no semantic exclusion)
    textWide               the renderable texts (the renderer's own `literal` test; no `,` in a string range bound,
                           otherwise `rang` answers an error)
    toAstW                 what PostgreSQL reads (extends `toAst`)
    rendersOfW             the constants by which a value may be written (extends `rendersOf`)
-/
set_option linter.unusedSimpArgs false
set_option linter.unusedVariables false

namespace GoLucene.SqlWide
open GoLucene Sql SqlMeaning SqlText

/-! ## operands -/

/-- the three leaf operators; all are rendered by `literal` (renderfn.go) -/
def leafOp (o : Op) : Bool := o == .literal || o == .wild || o == .regexp

/-- the raw value in an operand position: a leaf expression (Literal / Wild / Regexp over a raw value), or the raw
    value itself -/
def opdPrim : Node → Option Prim
  | .expr (.mk (.prim q) o .nil _ _) => if leafOp o then some q else none
  | .prim q => some q
  | _ => none

/-- the values that have a confined text: a column name, a string, an int, a FINITE float
    (NaN / ±Inf print as bare words, `true` / `false` are keywords outside the scanner model: see the refutations) -/
def primShape : Prim → Bool
  | .col _ => true
  | q => cleanPrim q

/-- the renderer's own test on the text of the value (`literal`: valid UTF-8, no NUL; `serialize`: a column name is
    not empty and has no `"`) -/
def primTextW : Prim → Bool
  | .col f => !f.isEmpty && !f.any (· == 34) && textOk ([34] ++ f ++ [34])
  | q => primText q

/-- the constant or column reference PostgreSQL reads from the text of a value -/
def atomAst : Prim → Option Ast
  | .col f => some (.col f)
  | q => astOfPrim q

def opdAst (n : Node) : Option Ast := (opdPrim n).bind atomAst

/-- an operand position holds a confined value -/
def opdOK (n : Node) : Bool :=
  match opdPrim n with
  | some q => primShape q
  | none => false

def opdTextW (n : Node) : Bool :=
  match opdPrim n with
  | some q => primTextW q
  | none => true

/- a VALUE (LIKE pattern, range bound) is a string, an int or a finite float: `cleanPrim` -/
def valOK (n : Node) : Bool :=
  match opdPrim n with
  | some q => cleanPrim q
  | none => false

def patOK (n : Node) : Bool :=
  match opdPrim n with
  | some (.str _) => true
  | _ => false

/-- a range bound: its text must not contain `,` (`rang` splits the serialized pair at commas) -/
def bndTextW (n : Node) : Bool :=
  match opdPrim n with
  | some (.str s) => primText (.str s) && !s.contains 44
  | _ => true

def itemsOKW : ExprList → Bool
  | .nil => true
  | .cons (.mk (.prim q) o .nil _ _) t => leafOp o && primShape q && itemsOKW t
  | _ => false

def itemsTextW : ExprList → Bool
  | .nil => true
  | .cons (.mk (.prim q) _ _ _ _) t => primTextW q && itemsTextW t
  | .cons _ t => itemsTextW t

def listOKW : Node → Bool
  | .expr (.mk (.list (.cons e t)) .list .nil _ _) => itemsOKW (.cons e t)
  | _ => false

def rangeOKW : Node → Bool
  | .bound mn mx _ => valOK mn && valOK mx
  | _ => false

mutual
def confinedNode : Node → Bool
  | .expr e => confinedFilter e
  | .prim q => primShape q
  | _ => false
/-- the wide confinement fragment: AND / OR / NOT / must / mustNot over predicates whose field and value positions
    are operands, and over BARE TERMS (a leaf expression or a raw value: a Lucene term without a field) -/
def confinedFilter : Expr → Bool
  | .mk l o r _ _ =>
    match o with
    | .and | .or => confinedNode l && confinedNode r
    | .not | .mustNot | .must => confinedNode l && r.isNil
    | .literal | .wild | .regexp =>
      (match l with
       | .prim q => primShape q
       | _ => false) && r.isNil
    | .equals | .greater | .less | .greaterEq | .lessEq => opdOK l && opdOK r
    | .like => opdOK l && patOK r
    | .in_ => opdOK l && listOKW r
    | .range => opdOK l && rangeOKW r
    | _ => false
end

mutual
def textWideNode : Node → Bool
  | .expr e => textWide e
  | .prim q => primTextW q
  | _ => true
/-- every text of the query passes the renderer's own tests -/
def textWide : Expr → Bool
  | .mk l o r _ _ =>
    match o with
    | .and | .or => textWideNode l && textWideNode r
    | .not | .mustNot | .must => textWideNode l
    | .literal | .wild | .regexp =>
      (match l with
       | .prim q => primTextW q
       | _ => true)
    | .equals | .greater | .less | .greaterEq | .lessEq | .like => opdTextW l && opdTextW r
    | .in_ =>
      opdTextW l && (match r with
        | .expr (.mk (.list es) _ _ _ _) => itemsTextW es
        | _ => true)
    | .range =>
      opdTextW l && (match r with
        | .bound mn mx _ => bndTextW mn && bndTextW mx
        | _ => true)
    | _ => true
end

/-! ## the translation -/

/-- `rang`'s reading of one serialized bound as an int: `'*'` counts as 0 -/
def toIntB (t : Bytes) : Option Int := if t == starQ then some ((atoi t).getD 0) else atoi t
/-- `rang`'s reading of one serialized bound as a float (since fix F12 of `toFloats`: `'*'` counts as 0, as in
    `toIntB`; before, the test was against the bare `*`, which no serialized bound ever is) -/
def toFltB (t : Bytes) : Option F64 := if t == starQ then some ((parseFloat t).getD F64.zero) else parseFloat t

/-- the three layouts of `rangeCmp`: an open lower end, an open upper end, two-sided -/
def cmpForm (x : Ast) (incl : Bool) (tlo thi : Bytes) (clo chi : Ast) : Ast :=
  if tlo == starQ then .cmp (hiOp incl) x chi
  else if thi == starQ then .cmp (loOp incl) x clo
  else .and (.cmp (loOp incl) x clo) (.cmp (hiOp incl) x chi)

/-- renderfn.go `rang` on the two bound values: both read as ints (`%d`), else both read as floats (`%.2f`),
    else BETWEEN over the two serialized texts -/
def rangeAstW (x : Ast) (incl : Bool) (qlo qhi : Prim) : Option Ast :=
  match astOfPrim qlo, astOfPrim qhi with
  | some klo, some khi =>
    (match toInts (primTextOf qlo) (primTextOf qhi) with
     | some (i, j) => some (cmpForm x incl (primTextOf qlo) (primTextOf qhi) (intAst i) (intAst j))
     | none =>
       match toFloats (primTextOf qlo) (primTextOf qhi) with
       | some (f, g) => some (cmpForm x incl (primTextOf qlo) (primTextOf qhi) (fixedAst f) (fixedAst g))
       | none => some (.between x klo khi))
  | _, _ => none

def listAstW : ExprList → Option AstList
  | .nil => some .nil
  | .cons (.mk (.prim q) o .nil _ _) t =>
    if leafOp o then
      (match atomAst q, listAstW t with
       | some a, some as => some (.cons a as)
       | _, _ => none)
    else none
  | _ => none

mutual
def toAstWNode : Node → Option Ast
  | .expr e => toAstW e
  | .prim q => atomAst q
  | _ => none
/-- what PostgreSQL reads from the text `render pgFns e`, on the wide fragment -/
def toAstW : Expr → Option Ast
  | .mk l o r _ _ =>
    match o with
    | .and =>
      (match toAstWNode l, toAstWNode r with
       | some a, some c => some (.and a c)
       | _, _ => none)
    | .or =>
      (match toAstWNode l, toAstWNode r with
       | some a, some c => some (.or a c)
       | _, _ => none)
    | .not | .mustNot => (toAstWNode l).map .not
    | .must => toAstWNode l
    | .literal | .wild | .regexp =>
      (match l, r with
       | .prim q, .nil => atomAst q
       | _, _ => none)
    | .equals | .greater | .less | .greaterEq | .lessEq =>
      (match opdAst l, opdAst r with
       | some x, some c => some (.cmp (cmpOfOp o) x c)
       | _, _ => none)
    | .like =>
      (match opdAst l, opdPrim r with
       | some x, some (.str p) =>
         if regexLooking p then some (.regex x (.str p)) else some (.similar x (.str (starPattern p)))
       | _, _ => none)
    | .in_ =>
      (match opdAst l, r with
       | some x, .expr (.mk (.list es) .list .nil _ _) =>
         (match listAstW es with
          | some (.cons a t) => some (.inList x (.cons a t))
          | _ => none)
       | _, _ => none)
    | .range =>
      (match opdAst l, r with
       | some x, .bound mn mx incl =>
         (match opdPrim mn, opdPrim mx with
          | some qlo, some qhi => rangeAstW x incl qlo qhi
          | _, _ => none)
       | _, _ => none)
    | _ => none
end

/-- the `%d` re-formatting of a value text that `strconv.Atoi` reads (0 for the open end `'*'`) -/
def reInt (t : Bytes) : List Ast :=
  match toIntB t with
  | some i => [intAst i]
  | none => []
/-- the `%.2f` re-formatting of a value text that `strconv.ParseFloat` reads (the open end `'*'` has none: in the
    float layout `rang` never prints the open end) -/
def reFlt (t : Bytes) : List Ast :=
  match parseFloat t with
  | some f => [fixedAst f]
  | none => []

/-- the SQL constants by which the renderer may write a value: those of `rendersOf` (itself; the LIKE translation
    `*`→`%`, `?`→`_`; the `%.2f` text of a float), and the two re-formattings `rang` applies to the serialized text
    of a range bound: `%d` of what Atoi reads (`'*'` → 0), `%.2f` of what ParseFloat reads -/
def rendersOfW : Prim → List Ast
  | .str s => rendersOf (.str s) ++ reInt (sqlQuote s) ++ reFlt (sqlQuote s)
  | .int i => rendersOf (.int i) ++ reInt (fmtInt i) ++ reFlt (fmtInt i)
  | .flt f => rendersOf (.flt f) ++ reInt (fmtG f) ++ reFlt (fmtG f)
  | _ => []

/-! ## inversion -/

theorem leafOp_cases {o : Op} (h : leafOp o = true) : o = .literal ∨ o = .wild ∨ o = .regexp := by
  cases o <;> simp [leafOp] at h <;> simp

theorem opdPrim_inv {n : Node} {q : Prim} (h : opdPrim n = some q) :
    (∃ o p d, n = .expr (.mk (.prim q) o .nil p d) ∧ leafOp o = true) ∨ n = .prim q := by
  unfold opdPrim at h
  split at h
  · rename_i q' o p d
    split at h
    · rename_i ho; cases h; exact .inl ⟨o, p, d, rfl, ho⟩
    · cases h
  · cases h; exact .inr rfl
  · cases h

theorem pgFns_leaf {o : Op} (h : leafOp o = true) : pgFns o = some fnLiteral := by
  rcases leafOp_cases h with rfl | rfl | rfl <;> rfl

/-! ## an operand is an atom -/

theorem b34 (f : Bytes) : cstText (.col f) = [34] ++ f ++ [34] := by rw [cstText]

/-- a confined value: its constant, the atom shape, and the serialized text -/
theorem prim_atom (q : Prim) (hs : primShape q = true) (ht : primTextW q = true) :
    ∃ a, atomAst q = some a ∧ Atom (emb a) ∧ isSimple (.prim q) = true ∧
      serialize pgFns (.prim q) = .ok (cstText (emb a)) ∧ textOk (cstText (emb a)) = true := by
  cases q with
  | col f =>
    simp only [primTextW, Bool.and_eq_true, Bool.not_eq_true'] at ht
    have hne : f ≠ [] := by intro e; subst e; simp at ht
    have h34 : ∀ c ∈ f, c ≠ 34 := by
      intro c hc e; subst e
      have := List.any_eq_false.mp ht.1.2 34 hc
      simp at this
    have h0 : ∀ c ∈ f, c ≠ 0 := fun c hc => textOk_noNul ht.2 c (by simp [hc])
    refine ⟨.col f, rfl, by rw [emb]; exact Atom.col f hne h34 h0, rfl, ?_, by rw [emb, b34]; exact ht.2⟩
    rw [emb, b34]
    simp only [serialize, serializeCol, ht.1.1, ht.1.2, Bool.false_eq_true, ↓reduceIte]
  | str s =>
    have hq : cleanPrim (.str s) = true := rfl
    have ht' : primText (.str s) = true := ht
    obtain ⟨a, ha, hA, htxt⟩ := value_atom (.str s) hq ht'
    refine ⟨a, ha, hA, rfl, ?_, ?_⟩
    · rw [← htxt]; simp only [serialize, primTextOf]
    · rw [← htxt]; exact primTextOf_ok _ rfl ht'
  | int i =>
    obtain ⟨a, ha, hA, htxt⟩ := value_atom (.int i) rfl rfl
    refine ⟨a, ha, hA, rfl, ?_, ?_⟩
    · rw [← htxt]; simp only [serialize, primTextOf]
    · rw [← htxt]; exact primTextOf_ok _ rfl rfl
  | flt f =>
    have hq : cleanPrim (.flt f) = true := hs
    obtain ⟨a, ha, hA, htxt⟩ := value_atom (.flt f) hq rfl
    refine ⟨a, ha, hA, rfl, ?_, ?_⟩
    · rw [← htxt]; simp only [serialize, primTextOf]
    · rw [← htxt]; exact primTextOf_ok _ rfl rfl
  | _ => simp [primShape, cleanPrim] at hs

/-- an operand position: atom, simple (never parenthesised), and its text -/
theorem opd_atom {n : Node} {q : Prim} (h : opdPrim n = some q) (hs : primShape q = true) (ht : primTextW q = true) :
    ∃ a, atomAst q = some a ∧ Atom (emb a) ∧ isSimple n = true ∧ serialize pgFns n = .ok (cstText (emb a)) := by
  obtain ⟨a, ha, hA, hsim, hser, hok⟩ := prim_atom q hs ht
  rcases opdPrim_inv h with ⟨o, p, d, rfl, ho⟩ | rfl
  · refine ⟨a, ha, hA, ?_, ?_⟩
    · rcases leafOp_cases ho with rfl | rfl | rfl <;> simp [isSimple, Expr.op]
    · rw [serialize_expr, render_of _ _ _ _ _ _ _ _ hser serialize_nil (pgFns_leaf ho)]
      simp only [hsim, Bool.not_true, Bool.and_false, Bool.false_eq_true, ↓reduceIte]
      exact SqlMeaning.fnLiteral_ok _ _ hok
  · exact ⟨a, ha, hA, hsim, hser⟩

theorem opdOK_inv {n : Node} (h : opdOK n = true) : ∃ q, opdPrim n = some q ∧ primShape q = true := by
  unfold opdOK at h
  split at h
  · exact ⟨_, by assumption, h⟩
  · cases h

theorem opdTextW_of {n : Node} {q : Prim} (h : opdPrim n = some q) (ht : opdTextW n = true) : primTextW q = true := by
  unfold opdTextW at ht; rw [h] at ht; exact ht

/-- operand position, packaged from the two predicates -/
theorem opd_good {n : Node} (hc : opdOK n = true) (ht : opdTextW n = true) :
    ∃ q a, opdPrim n = some q ∧ opdAst n = some a ∧ atomAst q = some a ∧ Atom (emb a) ∧ isSimple n = true ∧
      serialize pgFns n = .ok (cstText (emb a)) := by
  obtain ⟨q, hq, hs⟩ := opdOK_inv hc
  obtain ⟨a, ha, hA, hsim, hser⟩ := opd_atom hq hs (opdTextW_of hq ht)
  exact ⟨q, a, hq, by simp [opdAst, hq, ha], ha, hA, hsim, hser⟩

/-! ## numeric facts -/

theorem isFinite_ofMag (neg : Bool) (m : Nat) (h : m < Num.infBits) : (F64.ofMag neg m).isFinite = true := by
  have h1 : Num.infBits = 9218868437227405312 := rfl
  have h2 : Num.two63 = 9223372036854775808 := rfl
  unfold F64.ofMag F64.ofBitsNat F64.isFinite F64.mag
  simp only [decide_eq_true_eq]
  rw [h1] at h ⊢
  rw [h2]
  cases neg <;> simp only [Bool.false_eq_true, ↓reduceIte, UInt64.toNat_ofNat'] <;> omega

theorem pfDec_finite (neg : Bool) (B : Bytes) (g : F64) (h : FloatRT.pfDec neg B = some g) : g.isFinite = true := by
  unfold FloatRT.pfDec at h
  generalize Num.scanMant false {} B = p at h
  obtain ⟨st, rest⟩ := p
  simp only [] at h
  repeat' split at h
  all_goals first
    | (cases h; done)
    | (cases h; exact isFinite_ofMag _ _ (by decide))
    | (cases h; exact isFinite_ofMag _ _ (by omega))

theorem atoi_fmtInt_inv (i j : Int) (h : atoi (fmtInt i) = some j) : j = i := by
  unfold fmtInt at h
  split at h
  · rename_i hneg
    simp only [atoi, ↓reduceIte, atoiU_natDigits] at h
    split at h
    · cases h; omega
    · cases h
  · rename_i hneg
    obtain ⟨d, t, hdt, hd⟩ := (numShape_natDigits i.natAbs).head
    have h45 : d ≠ 45 := by intro e; subst e; revert hd; decide
    have h43 : d ≠ 43 := by intro e; subst e; revert hd; decide
    have e := atoiU_natDigits i.natAbs
    rw [hdt] at e h
    simp only [atoi, h45, h43, ↓reduceIte, e] at h
    split at h
    · cases h; omega
    · cases h

theorem parseFloat_fmtInt_finite (i : Int) (g : F64) (h : parseFloat (fmtInt i) = some g) : g.isFinite = true := by
  have e : fmtInt i = Num.signed (decide (i < 0)) (Num.natDigits i.natAbs) := by
    unfold fmtInt Num.signed; split <;> simp [*]
  obtain ⟨d, t, hdt, hd⟩ := (numShape_natDigits i.natAbs).head
  have hall := natDigits_isDig i.natAbs
  rw [hdt] at hall
  have hnohex : d = 48 → ∀ x y r, t = x :: y :: r → Num.lower x ≠ 120 := by
    intro _ x y r ht
    have hx : Num.isDig x = true := hall x (by simp [ht])
    rcases FloatRT.numDig_cases x hx with rfl | rfl | rfl | rfl | rfl | rfl | rfl | rfl | rfl | rfl <;> decide
  rw [e, hdt, FloatRT.parseFloat_signed _ d t hd hnohex] at h
  exact pfDec_finite _ _ _ h

/-! ## `rang` -/

theorem toInts_eq (a c : Bytes) :
    toInts a c = match toIntB a, toIntB c with
      | some i, some j => some (i, j)
      | _, _ => none := by
  unfold toInts toIntB
  generalize (if (a == starQ) = true then some ((atoi a).getD 0) else atoi a) = x
  generalize (if (c == starQ) = true then some ((atoi c).getD 0) else atoi c) = y
  cases x <;> cases y <;> rfl

theorem toFloats_eq (a c : Bytes) :
    toFloats a c = match toFltB a, toFltB c with
      | some i, some j => some (i, j)
      | _, _ => none := by
  unfold toFloats toFltB
  generalize (if (a == starQ) = true then some ((parseFloat a).getD F64.zero) else parseFloat a) = x
  generalize (if (c == starQ) = true then some ((parseFloat c).getD F64.zero) else parseFloat c) = y
  cases x <;> cases y <;> rfl

theorem toInts_some {a c : Bytes} {i j : Int} (h : toInts a c = some (i, j)) : toIntB a = some i ∧ toIntB c = some j := by
  rw [toInts_eq] at h
  split at h
  · rename_i i' j' h1 h2; cases h; exact ⟨h1, h2⟩
  · cases h

theorem toFloats_some {a c : Bytes} {f g : F64} (h : toFloats a c = some (f, g)) :
    toFltB a = some f ∧ toFltB c = some g := by
  rw [toFloats_eq] at h
  split at h
  · rename_i i' j' h1 h2; cases h; exact ⟨h1, h2⟩
  · cases h

/-- the serialized text of a value is never the bare `*` -/
theorem val_ne_star (q : Prim) (hq : cleanPrim q = true) : (primTextOf q == b "*") = false := by
  cases q with
  | str s => exact sqlQuote_ne_star s
  | int i => exact allNum_ne_star (fmtInt_numCh i)
  | flt f => exact allNum_ne_star (fmtG_allNum f)
  | _ => simp [cleanPrim] at hq

/-- a float that `rang` reads from the text of a value is finite -/
theorem parseFloat_starQ : parseFloat starQ = none := parseFloat_quote _

/-- off the open end, `rang` reads the bound with `strconv.ParseFloat` -/
theorem toFltB_ne {t : Bytes} (h : (t == starQ) = false) : toFltB t = parseFloat t := by
  unfold toFltB; rw [h]; rfl

theorem toFltB_starQ : toFltB starQ = some F64.zero := by
  unfold toFltB
  rw [parseFloat_starQ]; rfl

theorem toFltB_finite (q : Prim) (hq : cleanPrim q = true) (g : F64) (h : toFltB (primTextOf q) = some g) :
    g.isFinite = true := by
  cases hs : primTextOf q == starQ with
  | true =>
    rw [eq_of_beq hs, toFltB_starQ] at h
    cases h; decide
  | false =>
  rw [toFltB_ne hs] at h
  cases q with
  | str s =>
    have : parseFloat (sqlQuote s) = none := parseFloat_quote _
    rw [show primTextOf (.str s) = sqlQuote s from rfl, this] at h; cases h
  | int i => exact parseFloat_fmtInt_finite i g h
  | flt f =>
    have hf : f.isFinite = true := hq
    rw [show primTextOf (.flt f) = fmtG f from rfl, FloatRT.parseFloat_fmtG f hf] at h
    cases h; exact hf
  | _ => simp [cleanPrim] at hq

theorem val_boundText (q : Prim) (hq : cleanPrim q = true)
    (hc : ∀ s, q = .str s → s.contains 44 = false) : BoundText (primTextOf q) := by
  cases q with
  | str s => exact boundText_sqlQuote s (hc s rfl)
  | int i => exact boundText_fmtInt i
  | flt f => exact boundText_fmtG f
  | _ => simp [cleanPrim] at hq

theorem cmpForm_good (x clo chi : Ast) (incl : Bool) (tlo thi : Bytes) (hx : Atom (emb x)) (hlo : Atom (emb clo))
    (hhi : Atom (emb chi)) :
    RE (emb (cmpForm x incl tlo thi clo chi)) ∧
      rangeCmp (cstText (emb x)) incl tlo thi (cstText (emb clo)) (cstText (emb chi)) =
        cstText (emb (cmpForm x incl tlo thi clo chi)) := by
  cases h1 : tlo == starQ with
  | true =>
    have e1 : tlo = starQ := eq_of_beq h1
    subst e1
    simp only [cmpForm, beq_self_eq_true, ↓reduceIte, emb, rangeCmp_upper, cstText_cmp]
    exact ⟨RE.leaf (Leaf.cmp _ hx hhi), trivial⟩
  | false =>
    cases h2 : thi == starQ with
    | true =>
      have e2 : thi = starQ := eq_of_beq h2
      subst e2
      simp only [cmpForm, h1, beq_self_eq_true, Bool.false_eq_true, ↓reduceIte, emb, rangeCmp_lower _ _ _ _ _ h1,
        cstText_cmp]
      exact ⟨RE.leaf (Leaf.cmp _ hx hlo), trivial⟩
    | false =>
      simp only [cmpForm, h1, h2, Bool.false_eq_true, ↓reduceIte, emb, rangeCmp_two _ _ _ _ _ _ h1 h2, cstText_and,
        cstText_cmp, List.append_assoc]
      exact ⟨RE.rng (Leaf.cmp _ hx hlo) (Leaf.cmp _ hx hhi), trivial⟩

/-- `rang` on two values: the text is the text of `rangeAstW`, which has the rendered shape -/
theorem range_good (x : Ast) (incl : Bool) (qlo qhi : Prim) (hx : Atom (emb x))
    (h1 : cleanPrim qlo = true) (h2 : cleanPrim qhi = true) (t1 : primText qlo = true) (t2 : primText qhi = true) :
    ∃ a, rangeAstW x incl qlo qhi = some a ∧ RE (emb a) ∧
      rangeText (cstText (emb x)) incl (primTextOf qlo) (primTextOf qhi) = cstText (emb a) := by
  obtain ⟨klo, hklo, hAlo, htlo⟩ := value_atom qlo h1 t1
  obtain ⟨khi, hkhi, hAhi, hthi⟩ := value_atom qhi h2 t2
  unfold rangeAstW rangeText
  rw [hklo, hkhi]
  simp only []
  cases hi : toInts (primTextOf qlo) (primTextOf qhi) with
  | some ij =>
    obtain ⟨i, j⟩ := ij
    simp only []
    have g := cmpForm_good x (intAst i) (intAst j) incl (primTextOf qlo) (primTextOf qhi) hx (intAst_atom i).1
      (intAst_atom j).1
    rw [(intAst_atom i).2, (intAst_atom j).2] at g
    exact ⟨_, rfl, g.1, g.2⟩
  | none =>
    simp only []
    cases hf : toFloats (primTextOf qlo) (primTextOf qhi) with
    | some fg =>
      obtain ⟨f, g⟩ := fg
      simp only []
      obtain ⟨e1, e2⟩ := toFloats_some hf
      have f1 := fixedAst_atom f (toFltB_finite qlo h1 f e1)
      have f2 := fixedAst_atom g (toFltB_finite qhi h2 g e2)
      have k := cmpForm_good x (fixedAst f) (fixedAst g) incl (primTextOf qlo) (primTextOf qhi) hx f1.1 f2.1
      rw [f1.2, f2.2] at k
      exact ⟨_, rfl, k.1, k.2⟩
    | none =>
      simp only []
      refine ⟨_, rfl, ?_, ?_⟩
      · simp only [emb]; exact RE.leaf (Leaf.between hx hAlo hAhi)
      · simp only [emb, cstText_between, ← htlo, ← hthi, b_between, b_and]


/-! ## `like` on a `/…/` pattern -/

theorem sqlQuote_idx1_of (p : Bytes) (h : p.head? = some 47) : (sqlQuote p)[1]? = some 47 := by
  cases p with
  | nil => simp at h
  | cons c t =>
    have : c = 47 := by simpa using h
    subst this
    simp [sqlQuote, replaceByte_cons]

/-- the renderer's regular-expression test on the QUOTED text succeeds when the pattern is `/…/` -/
theorem fnLike_regex (left pat : Bytes) (h : regexLooking pat = true) :
    fnLike left (sqlQuote pat) = .ok (left ++ b " ~ " ++ sqlQuote pat) := by
  simp only [regexLooking, Bool.and_eq_true, decide_eq_true_eq, beq_iff_eq] at h
  obtain ⟨⟨hl, hh⟩, hlast⟩ := h
  have hlen := sqlQuote_length pat
  have i1 := sqlQuote_idx1_of pat hh
  have i2 : (sqlQuote pat)[(sqlQuote pat).length - 2]? = some 47 := by
    have e : (sqlQuote pat)[(sqlQuote pat).length - 2]? = (sqlQuote pat).reverse[1]? := by
      rw [List.getElem?_reverse (by omega)]
      congr 1
    rw [e, sqlQuote_reverse]
    exact sqlQuote_idx1_of _ (by rw [List.head?_reverse]; exact hlast)
  unfold fnLike
  have hc : (decide ((sqlQuote pat).length ≥ 4) && (sqlQuote pat)[1]? == some 47 &&
      (sqlQuote pat)[(sqlQuote pat).length - 2]? == some 47) = true := by
    rw [i1, i2]
    have : (sqlQuote pat).length ≥ 4 := by omega
    simp [this]
  rw [if_pos hc]

end GoLucene.SqlWide
