import GoLucene.Proofs.Master2
namespace GoLucene

/-! Full printed-tree language: every production of the documented grammar. -/

inductive Br | sq | cu deriving DecidableEq

def Br.openT : Br → TT | .sq => .lsquare | .cu => .lcurly
def Br.closeT : Br → TT | .sq => .rsquare | .cu => .rcurly

inductive Ft
  | leaf (t : Tok)
  | eq (f : Tok) (useEq : Bool) (v : Tok)          -- f:v   f=v
  | eqGroup (f : Tok) (e : Ft)                     -- f:( E )   (value lists live here)
  | cmp (f : Tok) (gt orEq : Bool) (v : Tok)       -- f:>v f:>=v f:<v f:<=v
  | range (f lo hi : Tok) (lb rb : Br)             -- f:[lo TO hi}
  | and (l r : Ft) | or (l r : Ft)
  | not (e : Ft) | must (e : Ft) | mustNot (e : Ft)
  | fuzzy (e : Ft) (d : Option Tok) | boost (e : Ft) (p : Option Tok)
  | paren (e : Ft)                                 -- ( E ), redundant or not

def Ft.lvl : Ft → Nat
  | .leaf _ | .paren _ => 0
  | .eq .. | .eqGroup .. | .cmp .. | .range .. => 7
  | .must _ => 8 | .mustNot _ => 9 | .fuzzy .. => 10 | .boost .. => 11
  | .not _ => 12 | .and .. => 13 | .or .. => 14

def tk (t : TT) : Tok := ⟨t, []⟩

def optTok : Option Tok → List Tok | none => [] | some t => [t]

def fpp : Ft → List Tok
  | .leaf t => [t]
  | .eq f useEq v => [f, tk (if useEq then .equal else .colon), v]
  | .eqGroup f e => f :: tk .colon :: lp :: (fpp e ++ [rp])
  | .cmp f gt orEq v =>
      f :: tk .colon :: tk (if gt then .greater else .less) :: ((if orEq then [tk .equal] else []) ++ [v])
  | .range f lo hi lb rb => [f, tk .colon, tk lb.openT, lo, tk .tto, hi, tk rb.closeT]
  | .and l r => paren (decide (13 < l.lvl)) (fpp l) ++ (tk .tand :: paren (decide (12 < r.lvl)) (fpp r))
  | .or l r => paren (decide (14 < l.lvl)) (fpp l) ++ (tk .tor :: paren (decide (13 < r.lvl)) (fpp r))
  | .not e => tk .tnot :: paren (decide (12 < e.lvl)) (fpp e)
  | .must e => tk .plus :: paren (decide (8 < e.lvl)) (fpp e)
  | .mustNot e => tk .minus :: paren (decide (9 < e.lvl)) (fpp e)
  | .fuzzy e d => paren (decide (10 < e.lvl)) (fpp e) ++ (tk .tilde :: optTok d)
  | .boost e p => paren (decide (11 < e.lvl)) (fpp e) ++ (tk .carrot :: optTok p)
  | .paren e => lp :: (fpp e ++ [rp])

def fsem : Ft → Ex
  | .leaf t => .leaf t
  | .eq f _ v => .eq (.leaf f) (.leaf v)
  | .eqGroup f e => .eq (.leaf f) (fsem e)
  | .cmp f gt orEq v => .cmp gt orEq (.leaf f) (.leaf v)
  | .range f lo hi lb rb => .range (.leaf f) (.leaf lo) (.leaf hi) (decide (lb = .sq ∧ rb = .sq))
  | .and l r => .and (fsem l) (fsem r)
  | .or l r => .or (fsem l) (fsem r)
  | .not e => .not (fsem e)
  | .must e => .must (fsem e)
  | .mustNot e => .mustNot (fsem e)
  | .fuzzy e d => .fuzzy (fsem e) (d.map .leaf)
  | .boost e p => .boost (fsem e) (p.map .leaf)
  | .paren e => fsem e

def optOK (isNum : Bool → Ex → Bool) (kind : Bool) : Option Tok → Prop
  | none => True
  | some t => t.typ.isTerm ∧ isNum kind (.leaf t) = true

def Ft.ok (isNum : Bool → Ex → Bool) : Ft → Prop
  | .leaf t => t.typ.isTerm
  | .eq f _ v => f.typ.isTerm ∧ v.typ.isTerm
  | .eqGroup f e => f.typ.isTerm ∧ e.ok isNum
  | .cmp f _ _ v => f.typ.isTerm ∧ v.typ.isTerm
  | .range f lo hi _ _ => f.typ.isTerm ∧ lo.typ.isTerm ∧ hi.typ.isTerm
  | .and l r => l.ok isNum ∧ r.ok isNum
  | .or l r => l.ok isNum ∧ r.ok isNum
  | .not e => e.ok isNum
  | .must e => e.ok isNum
  | .mustNot e => e.ok isNum
  | .fuzzy e d => e.ok isNum ∧ optOK isNum true d
  | .boost e p => e.ok isNum ∧ optOK isNum false p
  | .paren e => e.ok isNum

/-- token of the root operator when it is a prefix operator (ties are allowed there) -/
def Ft.prefixRoot : Ft → Option TT
  | .not _ => some .tnot | .must _ => some .plus | .mustNot _ => some .minus | _ => none

/-- the context's top non-terminal lets this tree's operators be shifted -/
def admitsF (cur : TT) (T : Ft) : Prop :=
  T.lvl = 0 ∨ isOpen cur = true ∨
    (anyClosingBracket cur = false ∧ (cur.num > T.lvl ∨ T.prefixRoot = some cur))

def FStmt (isNum : Bool → Ex → Bool) (T : Ft) : Prop :=
  ∀ (c : Cfg) (rest : List Tok), topTokOrEmpty c → admitsF (curOf c) T → Closes T.lvl (nextOf rest) →
    runW isNum c (fpp T ++ rest) = runW isNum ⟨.ex (fsem T) :: c.stack, c.nts⟩ rest

theorem flvl_le (T : Ft) : T.lvl ≤ 14 := by cases T <;> simp [Ft.lvl]

end GoLucene
