import GoLucene.Proofs.SqlText2
import GoLucene.Proofs.SqlMeaning
import GoLucene.Proofs.QuotedVerbatim
/-
  SqlText, part 3: the numeric texts of the renderer (`fmtInt`, `fmtG`, `fmtFixed … 2`) have the shape that
  PostgreSQL's scanner reads as one constant; `strconv.Atoi` inverts `fmtInt`; quoted texts are not numbers.
-/
namespace GoLucene.SqlText
open GoLucene Sql SqlMeaning

theorem allDig_natDigits (n : Nat) : AllDig (Num.natDigits n) := fun c hc => natDigits_isDig n c hc

theorem allDig_of_isDig {l : Bytes} (h : ∀ c ∈ l, isDig c = true) : AllDig l := fun c hc => h c hc

theorem allDig_zeros (n : Nat) : AllDig (Num.zeros n) := by
  intro c hc; simp only [Num.zeros, List.mem_replicate] at hc; rw [hc.2]; decide

theorem AllDig.append {l m : Bytes} (hl : AllDig l) (hm : AllDig m) : AllDig (l ++ m) := by
  intro x hx; rcases List.mem_append.mp hx with h | h; exact hl x h; exact hm x h

theorem AllDig.cons {c : UInt8} {l : Bytes} (hc : isDigit c = true) (hl : AllDig l) : AllDig (c :: l) := by
  intro x hx; rcases List.mem_cons.mp hx with h | h; subst h; exact hc; exact hl x h

theorem numShape_digits (ds : Bytes) (hne : ds ≠ []) (h : AllDig ds) : NumShape ds :=
  ⟨ds, [], [], by simp, hne, h, .inl rfl, .inl rfl⟩

theorem numShape_natDigits (n : Nat) : NumShape (Num.natDigits n) :=
  numShape_digits _ (natDigits_ne_nil n) (allDig_natDigits n)

theorem expShape_fmtExp (e : Int) : ExpShape (101 :: Num.fmtExp e) := by
  unfold Num.fmtExp
  simp only []
  refine .inr ⟨[if e < 0 then 45 else 43], if e.natAbs < 10 then 48 :: Num.natDigits e.natAbs else Num.natDigits e.natAbs,
    by simp, ?_, ?_, ?_⟩
  · split <;> simp
  · split
    · simp
    · exact natDigits_ne_nil _
  · split
    · exact AllDig.cons (by decide) (allDig_natDigits _)
    · exact allDig_natDigits _

theorem numShape_fmtE (ds : Bytes) (dp : Int) (h : AllDig ds) : NumShape (Num.fmtEShortest ds dp) := by
  unfold Num.fmtEShortest
  cases ds with
  | nil => exact ⟨[48], [], [101, 43, 48, 48], rfl, by simp, by intro c hc; simp at hc; subst hc; decide, .inl rfl,
      .inr ⟨[43], [48, 48], rfl, .inr (.inl rfl), by simp, by intro c hc; simp at hc; subst hc; decide⟩⟩
  | cons d more =>
    simp only []
    refine ⟨[d], if more.isEmpty then [] else 46 :: more, 101 :: Num.fmtExp (dp - 1), by simp, by simp,
      AllDig.cons (h d (by simp)) (by intro c hc; cases hc), ?_, expShape_fmtExp _⟩
    cases more with
    | nil => exact .inl rfl
    | cons m ms => exact .inr ⟨m :: ms, rfl, by simp, fun c hc => h c (by simp [hc])⟩

theorem numShape_fmtF (ds : Bytes) (dp : Int) (h : AllDig ds) : NumShape (Num.fmtFShortest ds dp) := by
  unfold Num.fmtFShortest
  simp only []
  split
  · split
    · exact numShape_digits [48] (by simp) (by intro c hc; simp at hc; subst hc; decide)
    · rename_i hnd
      refine ⟨[48], 46 :: (Num.zeros (-dp).toNat ++ ds), [], by simp, by simp,
        by intro c hc; simp at hc; subst hc; decide, .inr ⟨_, rfl, ?_, (allDig_zeros _).append h⟩, .inl rfl⟩
      intro e
      have : ds = [] := (List.append_eq_nil_iff.mp e).2
      exact hnd (by simp [this])
  · rename_i hdp
    split
    · rename_i hnd
      apply numShape_digits _ _ (h.append (allDig_zeros _))
      intro e
      have h1 := List.append_eq_nil_iff.mp e
      have : ds.length = 0 := by simp [h1.1]
      have h2 : (Num.zeros (dp.toNat - ds.length)).length = 0 := by rw [h1.2]; rfl
      simp [Num.zeros] at h2
      omega
    · rename_i hnd
      refine ⟨ds.take dp.toNat, 46 :: ds.drop dp.toNat, [], by simp, ?_, fun c hc => h c (List.mem_of_mem_take hc),
        .inr ⟨_, rfl, ?_, fun c hc => h c (List.mem_of_mem_drop hc)⟩, .inl rfl⟩
      · intro e
        have := congrArg List.length e
        rw [List.length_take, List.length_nil] at this
        omega
      · intro e
        have := congrArg List.length e
        rw [List.length_drop, List.length_nil] at this
        omega

theorem fmtG_shape (f : F64) (hf : f.isFinite = true) : ∃ body, NumShape body ∧ fmtG f = Num.signed f.isNeg body := by
  unfold fmtG
  simp only [hf, Bool.not_true, Bool.false_eq_true, ↓reduceIte]
  have hd := shortestOf_digits f
  generalize Num.shortestOf f = p at hd
  obtain ⟨ds, dp⟩ := p
  simp only [] at hd ⊢
  refine ⟨_, ?_, rfl⟩
  split
  · exact numShape_fmtE ds dp (allDig_of_isDig hd)
  · exact numShape_fmtF ds dp (allDig_of_isDig hd)

theorem numShape_fixed (a c k : Nat) : NumShape (Num.natDigits a ++ 46 :: (Num.zeros k ++ Num.natDigits c)) :=
  ⟨Num.natDigits a, 46 :: (Num.zeros k ++ Num.natDigits c), [], by simp, natDigits_ne_nil _, allDig_natDigits _,
    .inr ⟨_, rfl, by
      intro e
      exact natDigits_ne_nil _ (List.append_eq_nil_iff.mp e).2, (allDig_zeros _).append (allDig_natDigits _)⟩, .inl rfl⟩

theorem fmtFixed_shape (f : F64) (hf : f.isFinite = true) :
    ∃ body, NumShape body ∧ fmtFixed f 2 = Num.signed f.isNeg body := by
  unfold fmtFixed
  simp only [hf, Bool.not_true, Bool.false_eq_true, ↓reduceIte]
  refine ⟨_, ?_, rfl⟩
  simp only [show ¬ (2 = 0) by decide, ↓reduceIte]
  exact numShape_fixed _ _ _

/-- the constant PostgreSQL's grammar reads from a signed numeric text -/
theorem numTextAst_signed (neg : Bool) (body : Bytes) (h : NumShape body) :
    numTextAst (Num.signed neg body) = .num neg body := by
  obtain ⟨d, t, rfl, hd⟩ := h.head
  have h45 : d ≠ 45 := by intro e; subst e; revert hd; decide
  cases neg
  · simp only [Num.signed, Bool.false_eq_true, ↓reduceIte]
    unfold numTextAst
    split
    · rename_i r heq; cases heq; exact absurd rfl h45
    · rfl
  · rfl

theorem cstText_num (neg : Bool) (body : Bytes) : cstText (.num neg body) = Num.signed neg body := by
  cases neg <;> simp [cstText, Num.signed]

/-! ### Atoi -/

theorem digitsVal_fold (ds : Bytes) (h : AllDig ds) (acc : Nat) :
    Num.digitsVal acc ds = some (ds.foldl (fun n c => 10 * n + (c.toNat - 48)) acc) := by
  induction ds generalizing acc with
  | nil => rfl
  | cons c t ih =>
    have hc : Num.isDig c = true := h c (by simp)
    simp only [Num.digitsVal, hc, ↓reduceIte, List.foldl_cons]
    rw [ih (fun x hx => h x (by simp [hx])), Nat.mul_comm]

theorem atoiU_natDigits (n : Nat) : Num.atoiU (Num.natDigits n) = some n := by
  have hne := natDigits_ne_nil n
  unfold Num.atoiU
  split
  · rename_i heq; exact absurd heq hne
  · rw [digitsVal_fold _ (allDig_natDigits n)]
    exact congrArg some (digVal_natDigits n)

theorem atoi_fmtInt (i : Int) (h : inInt64 i = true) : atoi (fmtInt i) = some i := by
  simp only [inInt64, Bool.and_eq_true, decide_eq_true_eq] at h
  unfold fmtInt
  split
  · rename_i hneg
    simp only [atoi, ↓reduceIte, atoiU_natDigits]
    have : i.natAbs ≤ Num.two63 := by unfold Num.two63; omega
    simp only [this, ↓reduceIte]
    congr 1; omega
  · rename_i hneg
    obtain ⟨d, t, hdt, hd⟩ := (numShape_natDigits i.natAbs).head
    have h45 : d ≠ 45 := by intro e; subst e; revert hd; decide
    have h43 : d ≠ 43 := by intro e; subst e; revert hd; decide
    have e := atoiU_natDigits i.natAbs
    rw [hdt] at e ⊢
    simp only [atoi, h45, h43, ↓reduceIte, e]
    have : i.natAbs < Num.two63 := by unfold Num.two63; omega
    simp only [this, ↓reduceIte]
    congr 1; omega

theorem atoi_quote (t : Bytes) : atoi (39 :: t) = none := by
  simp [atoi, Num.atoiU, Num.digitsVal, Num.isDig]

theorem parseFloat_quote (t : Bytes) : parseFloat (39 :: t) = none := by
  simp [parseFloat, Num.special, Num.scanMant, Num.lowerAZ, Num.isDig]


/-! ### `rang` splits the serialized boundary exactly -/

theorem commaFold_plain (s : Bytes) (h : ∀ c ∈ s, c ≠ 44) (cur : Bytes) (acc : List Bytes) :
    s.foldl commaStep (cur, acc) = (s.reverse ++ cur, acc) := by
  induction s generalizing cur with
  | nil => rfl
  | cons c t ih =>
    have hc : (c == 44) = false := by simpa using h c (by simp)
    simp only [List.foldl_cons, commaStep, hc, Bool.false_eq_true, ↓reduceIte]
    rw [ih (fun x hx => h x (by simp [hx]))]
    simp

theorem splitComma_two (smin smax : Bytes) (h1 : ∀ c ∈ smin, c ≠ 44) (h2 : ∀ c ∈ smax, c ≠ 44) :
    splitComma (smin ++ [44, 32] ++ smax) = [smin, 32 :: smax] := by
  have e : smin ++ [44, 32] ++ smax = smin ++ 44 :: (32 :: smax) := by simp
  have h3 : ∀ c ∈ 32 :: smax, c ≠ 44 := by
    intro c hc; rcases List.mem_cons.mp hc with rfl | hc; decide; exact h2 c hc
  show (match (smin ++ [44, 32] ++ smax).foldl commaStep ([], []) with
    | (cur, acc) => (cur.reverse :: acc).reverse) = _
  rw [e, List.foldl_append, commaFold_plain smin h1, List.foldl_cons]
  have : commaStep (smin.reverse ++ [], []) 44 = ([], [smin]) := by simp [commaStep]
  rw [this, commaFold_plain _ h3]
  simp

theorem dropSpaces_id (s : Bytes) (h : s.head? ≠ some 32) : dropSpaces s = s := by
  cases s with
  | nil => rfl
  | cons c t =>
    have hc : c ≠ 32 := by simpa using h
    unfold dropSpaces
    split
    · rename_i heq; cases heq; exact absurd rfl hc
    · rfl

theorem trimSpaces_id (s : Bytes) (h1 : s.head? ≠ some 32) (h2 : s.getLast? ≠ some 32) : trimSpaces s = s := by
  unfold trimSpaces
  rw [dropSpaces_id s h1, dropSpaces_id s.reverse (by rw [List.head?_reverse]; exact h2), List.reverse_reverse]

theorem trimSpaces_sp (s : Bytes) (_hne : s ≠ []) (h1 : s.head? ≠ some 32) (h2 : s.getLast? ≠ some 32) :
    trimSpaces (32 :: s) = s := by
  unfold trimSpaces
  have e : dropSpaces (32 :: s) = dropSpaces s := by rw [dropSpaces]
  rw [e, dropSpaces_id s h1, dropSpaces_id s.reverse (by rw [List.head?_reverse]; exact h2), List.reverse_reverse]

/-- a serialized bound: not empty, no comma, no blank at either end -/
def BoundText (s : Bytes) : Prop := s ≠ [] ∧ (∀ c ∈ s, c ≠ 44) ∧ s.head? ≠ some 32 ∧ s.getLast? ≠ some 32

theorem rangeParts_exact (incl : Bool) (smin smax : Bytes) (h1 : BoundText smin) (h2 : BoundText smax) :
    rangeParts ([if incl then 91 else 40] ++ smin ++ [44, 32] ++ smax ++ [if incl then 93 else 41]) =
      .ok (incl, smin, smax) := by
  obtain ⟨a, t, hat⟩ : ∃ a t, smin = a :: t := by
    cases smin with
    | nil => exact absurd rfl h1.1
    | cons a t => exact ⟨a, t, rfl⟩
  generalize ho : (if incl then (91 : UInt8) else 40) = o
  generalize hc : (if incl then (93 : UInt8) else 41) = c
  have hstrip : (([o] ++ smin ++ [44, 32] ++ smax ++ [c]).drop 1).take (([o] ++ smin ++ [44, 32] ++ smax ++ [c]).length - 2)
      = smin ++ [44, 32] ++ smax := by
    have e : ([o] ++ smin ++ [44, 32] ++ smax ++ [c]).drop 1 = (smin ++ [44, 32] ++ smax) ++ [c] := by simp
    rw [e]
    have l : ([o] ++ smin ++ [44, 32] ++ smax ++ [c]).length - 2 = (smin ++ [44, 32] ++ smax).length := by
      simp
    rw [l, List.take_left' rfl]
  have hlast : ([o] ++ smin ++ [44, 32] ++ smax ++ [c]).getLast? = some c := by
    rw [List.getLast?_append]; simp
  have hs : [o] ++ smin ++ [44, 32] ++ smax ++ [c] = o :: a :: (t ++ 44 :: 32 :: (smax ++ [c])) := by
    rw [hat]; simp
  have hinc : (!(o == 40 && some c == some (41 : UInt8))) = incl := by
    subst ho; subst hc; cases incl <;> decide
  unfold rangeParts
  rw [hs] at hstrip hlast ⊢
  simp only [hstrip, hlast, splitComma_two smin smax h1.2.1 h2.2.1,
    trimSpaces_id smin h1.2.2.1 h1.2.2.2, trimSpaces_sp smax h2.1 h2.2.2.1 h2.2.2.2, hinc]


/-! ### `like` on a quoted pattern -/

theorem replaceByte_reverse (s : Bytes) :
    (replaceByte 39 [39, 39] s).reverse = replaceByte 39 [39, 39] s.reverse := by
  induction s with
  | nil => rfl
  | cons c t ih =>
    rw [replaceByte_cons, List.reverse_append, ih, List.reverse_cons, QuotedVerbatim.replaceByte_append]
    congr 1
    rw [replaceByte_cons, replaceByte_nil, List.append_nil]
    split <;> rfl

theorem sqlQuote_reverse (s : Bytes) : (sqlQuote s).reverse = sqlQuote s.reverse := by
  simp [sqlQuote, replaceByte_reverse]

theorem sqlQuote_idx1 (p : Bytes) (h : (sqlQuote p)[1]? = some 47) : p.head? = some 47 := by
  cases p with
  | nil => revert h; decide
  | cons c t =>
    by_cases hc : c = 39
    · subst hc
      simp [sqlQuote, replaceByte_cons] at h
    · have : (c == 39) = false := by simpa using hc
      simp [sqlQuote, replaceByte_cons, this] at h
      simp [h]

theorem sqlQuote_length (p : Bytes) : p.length + 2 ≤ (sqlQuote p).length := by
  have : p.length ≤ (replaceByte 39 [39, 39] p).length := by
    induction p with
    | nil => simp [replaceByte_nil]
    | cons c t ih =>
      rw [replaceByte_cons]
      split <;> simp <;> omega
  simp [sqlQuote]; omega

/-- the renderer's regular-expression test on the QUOTED text agrees with the test on the pattern itself -/
theorem fnLike_quoted (left pat : Bytes) (h : regexLooking pat = false) :
    fnLike left (sqlQuote pat) = .ok (left ++ b " SIMILAR TO " ++ starPattern (sqlQuote pat)) := by
  unfold fnLike
  split
  · rename_i hc
    exfalso
    simp only [Bool.and_eq_true, decide_eq_true_eq, beq_iff_eq] at hc
    obtain ⟨⟨hl, h1⟩, h2⟩ := hc
    have hh := sqlQuote_idx1 pat h1
    have hlast : pat.getLast? = some 47 := by
      have e : (sqlQuote pat)[(sqlQuote pat).length - 2]? = (sqlQuote pat).reverse[1]? := by
        rw [List.getElem?_reverse (by omega)]
        congr 1
      rw [e, sqlQuote_reverse] at h2
      have := sqlQuote_idx1 _ h2
      rwa [List.head?_reverse] at this
    have hlen : pat.length ≥ 2 := by
      match pat, hh, hl with
      | [c], hh, hl =>
        simp at hh; subst hh
        revert hl; decide
      | _ :: _ :: _, _, _ => simp
    simp [regexLooking, hh, hlast, hlen] at h
  · rfl

theorem subB_39 (c : UInt8) : (subB c == 39) = (c == 39) := by
  rcases subB_cases c with ⟨rfl, h⟩ | ⟨rfl, h⟩ | ⟨_, _, h⟩ <;> rw [h] <;> rfl

theorem starPattern_sqlQuote (p : Bytes) : starPattern (sqlQuote p) = sqlQuote (starPattern p) := by
  rw [starPattern_eq_map, starPattern_eq_map]
  have : ∀ s : Bytes, (replaceByte 39 [39, 39] s).map subB = replaceByte 39 [39, 39] (s.map subB) := by
    intro s
    induction s with
    | nil => rfl
    | cons c t ih =>
      rw [List.map_cons, replaceByte_cons, replaceByte_cons, List.map_append, ih, subB_39]
      congr 1
      by_cases hc : c = 39
      · subst hc; rfl
      · have : (c == 39) = false := by simpa using hc
        simp [this]
  simp only [sqlQuote, List.map_append, this]
  rfl

/-! ### side conditions extracted from the renderer's own `literal` test -/

theorem textOk_noNul {t : Bytes} (h : textOk t = true) : ∀ c ∈ t, c ≠ 0 := by
  simp only [textOk, Bool.and_eq_true, Bool.not_eq_true'] at h
  intro c hc e
  subst e
  have := List.any_eq_false.mp h.2 0 hc
  simp at this

theorem primText_noNul {s : Bytes} (h : primText (.str s) = true) : ∀ c ∈ s, c ≠ 0 := by
  intro c hc
  exact textOk_noNul h c ((QuotedVerbatim.mem_sqlQuote s c).mpr (.inr hc))

theorem starPattern_noNul {s : Bytes} (h : ∀ c ∈ s, c ≠ 0) : ∀ c ∈ starPattern s, c ≠ 0 := by
  rw [starPattern_eq_map]
  intro c hc
  obtain ⟨d, hd, rfl⟩ := List.mem_map.mp hc
  have := h d hd
  rcases subB_cases d with ⟨rfl, h'⟩ | ⟨rfl, h'⟩ | ⟨_, _, h'⟩ <;> rw [h']
  · decide
  · decide
  · exact this

/-! ### serialized bounds -/

theorem boundText_allNum {s : Bytes} (h : AllNum s) (hne : s ≠ []) : BoundText s := by
  have k : ∀ c ∈ s, c ≠ 44 ∧ c ≠ 32 := by
    intro c hc
    have := h c hc
    constructor <;> (intro e; subst e; revert this; decide)
  refine ⟨hne, fun c hc => (k c hc).1, ?_, ?_⟩
  · intro e
    exact (k 32 (List.mem_of_mem_head? e)).2 rfl
  · intro e
    exact (k 32 (List.mem_of_getLast? e)).2 rfl

theorem fmtInt_ne_nil (i : Int) : fmtInt i ≠ [] := by
  unfold fmtInt; split
  · simp
  · exact natDigits_ne_nil _

theorem fmtG_ne_nil (f : F64) : fmtG f ≠ [] := by
  cases hf : f.isFinite
  · unfold fmtG
    simp only [hf, Bool.not_false, ↓reduceIte]
    unfold Num.nonFinite
    split
    · simp
    · split <;> simp
  · obtain ⟨body, hb, he⟩ := fmtG_shape f hf
    obtain ⟨d, t, rfl, _⟩ := hb.head
    rw [he]; unfold Num.signed; split <;> simp

theorem boundText_fmtInt (i : Int) : BoundText (fmtInt i) := boundText_allNum (fmtInt_numCh i) (fmtInt_ne_nil i)
theorem boundText_fmtG (f : F64) : BoundText (fmtG f) := boundText_allNum (fmtG_allNum f) (fmtG_ne_nil f)
theorem boundText_starQ : BoundText starQ := by
  refine ⟨by decide, by decide, by decide, by decide⟩

theorem boundText_sqlQuote (s : Bytes) (h : s.contains 44 = false) : BoundText (sqlQuote s) := by
  refine ⟨by simp [sqlQuote], sqlQuote_nocomma s h, by simp [sqlQuote], ?_⟩
  have : (sqlQuote s).getLast? = some 39 := by
    show ([39] ++ replaceByte 39 [39, 39] s ++ [39]).getLast? = some 39
    rw [List.getLast?_append]; rfl
  rw [this]; decide

end GoLucene.SqlText
