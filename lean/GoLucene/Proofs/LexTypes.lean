import GoLucene.Model.Sem
/-
  The token types the lexer can emit: never EOF, never Start (those are the parser's own markers), and an
  error token only as the last element of the stream the parser sees.
-/
namespace GoLucene

theorem keywordOf_typ (v : Bytes) (t : TT) (h : keywordOf v = some t) :
    t = .tand ∨ t = .tor ∨ t = .tnot ∨ t = .tto := by
  unfold keywordOf at h
  simp only at h
  split at h
  · simp at h; simp [← h]
  · split at h
    · simp at h; simp [← h]
    · split at h
      · simp at h; simp [← h]
      · split at h
        · simp at h; simp [← h]
        · simp at h

theorem lookup_mem {α β} [BEq α] [LawfulBEq α] (l : List (α × β)) (a : α) (v : β) (h : l.lookup a = some v) :
    (a, v) ∈ l := by
  induction l with
  | nil => simp [List.lookup] at h
  | cons p ps ih =>
    obtain ⟨x, y⟩ := p
    simp only [List.lookup] at h
    split at h
    · rename_i heq
      simp at h
      have : a = x := by simpa using heq
      simp [this, h]
    · exact List.mem_cons_of_mem _ (ih h)

theorem symbolOf_typ (r : Nat) (t : TT) (h : symbolOf r = some t) : t ≠ .eof ∧ t ≠ .start ∧ t ≠ .err := by
  have hm := lookup_mem symbolTable r t h
  have hall : ∀ p ∈ symbolTable, p.2 ≠ .eof ∧ p.2 ≠ .start ∧ p.2 ≠ .err := by decide
  exact hall (r, t) hm

theorem kwOrLit_typ (v : Bytes) : ((keywordOf v).getD .literal) ≠ .eof ∧ ((keywordOf v).getD .literal) ≠ .start ∧
    ((keywordOf v).getD .literal) ≠ .err := by
  cases h : keywordOf v with
  | none => simp
  | some t =>
    rcases keywordOf_typ v t h with rfl | rfl | rfl | rfl <;> simp

/-- a token produced by `next` is never EOF, Start or Err -/
theorem next_tok_typ (k : Cls) (inp : List Cell) (t : Tok) (ws w rest : List Cell)
    (h : next k inp = .tok t ws w rest) : t.typ ≠ .eof ∧ t.typ ≠ .start ∧ t.typ ≠ .err := by
  unfold next at h
  generalize dropWs inp = p at h
  obtain ⟨ws0, s⟩ := p
  simp only at h
  cases s with
  | nil => simp at h
  | cons c cs =>
    simp only at h
    split at h
    · simp at h
      obtain ⟨rfl, _⟩ := h
      exact kwOrLit_typ _
    · split at h
      · rename_i ty hs
        simp at h
        obtain ⟨rfl, _⟩ := h
        exact symbolOf_typ _ _ hs
      · split at h
        · split at h
          · split at h
            · simp at h
              obtain ⟨rfl, _⟩ := h
              exact kwOrLit_typ _
            · simp at h; obtain ⟨rfl, _⟩ := h; simp
          · simp at h; obtain ⟨rfl, _⟩ := h; simp
        · split at h
          · split at h
            · simp at h; obtain ⟨rfl, _⟩ := h; simp
            · simp at h
          · split at h
            · split at h
              · simp at h; obtain ⟨rfl, _⟩ := h; simp
              · simp at h
            · simp at h

theorem lexAll_typ (k : Cls) : ∀ (n : Nat) (inp : List Cell), inp.length ≤ n →
    ∀ p ∈ (lexAll k inp).1, p.2.typ ≠ .eof ∧ p.2.typ ≠ .start ∧ p.2.typ ≠ .err := by
  intro n
  induction n with
  | zero =>
    intro inp h
    have : inp = [] := List.length_eq_zero_iff.mp (by omega)
    subst this
    rw [lexAll]; simp [next, dropWs]
  | succ n ih =>
    intro inp hl
    rw [lexAll]
    split
    · simp
    · simp
    · rename_i t ws w rest h
      have hn := next_tok k inp t ws w rest h
      have h1 := congrArg List.length hn.1
      have h2 : w.length ≠ 0 := by intro h0; exact hn.2.1 (List.length_eq_zero_iff.mp h0)
      have ihr := ih rest (by simp at h1; omega)
      generalize lexAll k rest = q at ihr ⊢
      obtain ⟨ts, e, tw, r⟩ := q
      intro p hp
      simp at hp
      rcases hp with rfl | hp
      · exact next_tok_typ k inp t ws w rest h
      · exact ihr p hp

/-- the stream handed to the parser contains no EOF token: the end of the list is the end of the input -/
theorem tokensOf_no_eof (env : Env) (s : Bytes) : ∀ t ∈ tokensOf env s, t.typ ≠ .eof := by
  intro t ht
  unfold tokensOf at ht
  simp only [List.mem_append, List.mem_map] at ht
  rcases ht with ⟨p, hp, rfl⟩ | ht
  · exact (lexAll_typ env.cls _ _ (Nat.le_refl _) p hp).1
  · split at ht
    · simp at ht; subst ht; simp
    · simp at ht

end GoLucene
