import GoLucene.Generated.Effects

/-!
# The effect graph of the Go source (C14): who can write what

`GoLucene/Generated/Effects.lean` is regenerated on every run from /repo's current Go source by the translator
`harness/cmd/effects` (go/parser + go/types): one node per function, method, function literal and package-level
variable initialiser, conservative reference edges (a function that is called, merely mentioned, stored in a table
that is read, called through an interface, or called back by the standard library), and per node the shared-memory
WRITES of its body (assignments, `++`/`--`, `delete`, `clear`, `copy`, `append` into a receiver / parameter / global,
memory handed to writing standard-library functions), classified by the kind of memory and by the root of the written
expression.

This file is hand-written and does not depend on the shape of the graph:

* `Reach roots j` — the graph-theoretic reachability relation (paths of reference edges from a root);
* `certified` — a PROVED checker: if the computed closure of the roots is closed under the edges, contains the roots, and
  every node in it has only permitted writes (`certificate … = true`, decided by kernel evaluation on the regenerated
  graph), then EVERY node reachable along ANY path from a root has only permitted writes;
* the instance theorems for the tree as it is now.  They are the source-level facts the session model of C14 stands on
  (`Op.readOnly`: the consumers leave the pool unchanged; outputs are history-free because no package-level state is
  ever written), for every input and every schedule — which no run of the race detector can give.

What is trusted: the translator (see its header: over-approximated edges, syntactic writes), not the proofs.
A change that makes a consumer write an expression field, a map element or a package-level variable, anywhere
reachable, makes `decide` fail here: the obligation breaks and `bin/check C14` looks for a failing history.
-/

namespace GoLucene.Effects
open GoLucene.Generated.Effects

/-- successors of a node in the regenerated reference graph -/
def succ (i : Nat) : List Nat := edges.getD i []

/-- reachability along reference edges, as a relation -/
inductive Reach (roots : List Nat) : Nat → Prop
  | root {i : Nat} : i ∈ roots → Reach roots i
  | step {i j : Nat} : Reach roots i → j ∈ succ i → Reach roots j

/-- `s` is closed under the edges -/
def closed (s : List Nat) : Bool := s.all fun i => (succ i).all fun j => s.contains j

theorem reach_sub {roots s : List Nat} (hc : closed s = true) (hr : ∀ r ∈ roots, r ∈ s) :
    ∀ j, Reach roots j → j ∈ s := by
  intro j h
  induction h with
  | root hi => exact hr _ hi
  | step _ hj ih =>
    have h1 := List.all_eq_true.mp hc _ ih
    have h2 := List.all_eq_true.mp h1 _ hj
    simpa using h2

/-- depth-first closure with a work list; every edge is popped at most once, so `fuel` = #edges + #roots + 1 suffices
    (the certificate below does not rely on that: it CHECKS closedness of whatever comes out) -/
def dfs : Nat → List Nat → List Nat → List Nat
  | 0, _, seen => seen
  | _, [], seen => seen
  | f + 1, i :: wl, seen => if seen.contains i then dfs f wl seen else dfs f (succ i ++ wl) (i :: seen)

def closure (roots : List Nat) : List Nat :=
  dfs ((edges.map List.length).sum + roots.length + 1) roots []

/-- a write fact: kind, owner (type / variable), member, root -/
abbrev W := String × String × String × String
def W.kind (w : W) : String := w.1
def W.owner (w : W) : String := w.2.1
def W.member (w : W) : String := w.2.2.1
def W.root (w : W) : String := w.2.2.2

def writesOf (i : Nat) : List W := (writes.filter (fun w => w.1 == i)).map (·.2)

/-- the checker, for an arbitrary per-node predicate -/
def certificateP (roots : List Nat) (p : Nat → Bool) : Bool :=
  let s := closure roots
  closed s && roots.all (fun r => s.contains r) && s.all p

/-- the checker is sound: a passing certificate speaks about every path in the graph -/
theorem certifiedP {roots : List Nat} {p : Nat → Bool} (h : certificateP roots p = true) :
    ∀ j, Reach roots j → p j = true := by
  simp only [certificateP, Bool.and_eq_true] at h
  obtain ⟨⟨hc, hr⟩, hw⟩ := h
  intro j hj
  have hjs : j ∈ closure roots :=
    reach_sub hc (fun r hr' => by simpa using List.all_eq_true.mp hr r hr') j hj
  exact List.all_eq_true.mp hw j hjs

def certificate (roots : List Nat) (ok : W → Bool) : Bool :=
  certificateP roots (fun i => (writesOf i).all ok)

theorem certified {roots : List Nat} {ok : W → Bool} (h : certificate roots ok = true) :
    ∀ j, Reach roots j → ∀ w ∈ writesOf j, ok w = true := by
  intro j hj w hwj
  exact List.all_eq_true.mp (certifiedP h j hj) w hwj

/-- constructs of a node whose outcome is not a function of the arguments (map iteration, `go`, `select`, clock, randomness,
    environment), as recorded by the translator -/
def nondetOf (i : Nat) : List String := (nondet.filter (fun x => x.1 == i)).map (·.2)

/-- resolve node names; `none` if a name is not a node of the current source -/
def resolve (ns : List String) : Option (List Nat) := ns.mapM (fun n => names.idxOf? n)

/-! ## Predicates on writes -/

/-- the write touches a package-level variable (directly, through it, by taking its address or handing it out) -/
def W.global (w : W) : Bool := w.kind == "global" || w.root == "global" || w.kind == "addr-of"

/-- memory that belongs to the call that allocated it -/
def W.ownRoot (w : W) : Bool := w.root == "fresh" || w.root == "local"

/-- permitted for a read-only consumer: an element of a slice that is a local of the call (the parameter slices built
    while rendering: `rparams[0] = rval`) or anything in a value allocated on the spot -/
def consumerOK (w : W) : Bool :=
  !w.global && ((w.kind == "elem" && w.ownRoot) || w.root == "fresh")

/-- permitted while parsing (Parse receives a string and options, so every object it can reach without going through a
    package-level variable is its own): anything but package-level state, state captured by a stored function literal,
    and elements of maps the call did not create -/
def parseOK (w : W) : Bool :=
  !w.global && w.root != "captured" && (w.kind != "mapelem" || w.ownRoot)

/-- permitted while decoding JSON: the receiver being filled and values of the call; never package-level state,
    captured state, or a map the call did not create -/
def decodeOK (w : W) : Bool :=
  !w.global && w.root != "captured" && (w.kind != "mapelem" || w.ownRoot)

/-! ## The API surface -/

def consumerNames : List String :=
  ["driver.Base.Render", "driver.Base.RenderParam", "expr.Expression.String", "expr.Expression.GoString",
   "expr.Expression.MarshalJSON", "expr.Validate"]

def parseNames : List String := ["lucene.Parse", "lucene.ToPostgres", "lucene.ToParameterizedPostgres", "lucene.WithDefaultField"]

def decodeNames : List String := ["expr.Expression.UnmarshalJSON"]

/-- Parse alone (ToPostgres also reaches the initialiser of the package-level driver) -/
def pureParseNames : List String := ["lucene.Parse", "lucene.WithDefaultField"]

def consumerRoots : List Nat := (resolve consumerNames).getD []
def parseRoots : List Nat := (resolve parseNames).getD []
def decodeRoots : List Nat := (resolve decodeNames).getD []
def pureParseRoots : List Nat := (resolve pureParseNames).getD []

/-- every named entry point is a function of the current source (a renamed or removed entry breaks this, not silently the rest) -/
theorem entry_points_exist :
    (resolve consumerNames).isSome = true ∧ (resolve parseNames).isSome = true ∧ (resolve decodeNames).isSome = true ∧
    (resolve pureParseNames).isSome = true ∧
    (consumerRoots ++ parseRoots ++ decodeRoots).all (fun r => exported.contains r) = true := by decide +kernel

/-! ## The facts, for the source as it is now -/

/-- NO function reachable from ANY exported function or method writes a package-level variable, takes the address of
    one, appends into one or hands one to a writing library function.  (The global tables — `driver.Shared`, the
    operator tables, `reducers`, the lexer's maps, the package-level `postgres` driver — are read-only after
    initialisation: results cannot depend on earlier calls, and concurrent calls cannot race on them.) -/
theorem api_never_writes_package_state :
    ∀ j, Reach exported j → ∀ w ∈ writesOf j, w.global = false := by
  have h : certificate exported (fun w => !w.global) = true := by decide +kernel
  intro j hj w hw
  simpa using certified h j hj w hw

/-- package initialisation writes no package-level variable through code either (there is no `init` side effect):
    no node at all has a global write -/
theorem nothing_writes_package_state : writes.all (fun w => !(W.global w.2)) = true := by decide +kernel

/-- the read-only consumers (Render, RenderParam, String, GoString, MarshalJSON, Validate) — and everything reachable
    from them, including the render functions stored in `driver.Shared` and the postgres overrides, the validators and
    the string renderers — never write a field of an expression or range boundary, a map element, through a pointer,
    into a receiver or parameter, or into a package-level variable: the only shared-memory writes are elements of slices
    local to the call and values allocated on the spot. -/
theorem consumers_never_modify_their_arguments :
    ∀ j, Reach consumerRoots j → ∀ w ∈ writesOf j, consumerOK w = true :=
  certified (by decide +kernel)

/-- parsing writes no package-level state, no captured state and no shared table -/
theorem parse_writes_only_its_own_state :
    ∀ j, Reach parseRoots j → ∀ w ∈ writesOf j, parseOK w = true :=
  certified (by decide +kernel)

/-- decoding writes no package-level state, no captured state and no shared table -/
theorem decode_writes_only_the_receiver :
    ∀ j, Reach decodeRoots j → ∀ w ∈ writesOf j, decodeOK w = true :=
  certified (by decide +kernel)

/-! ## Determinism: no construct whose outcome depends on anything but the arguments -/

/-- the read-only consumers and everything reachable from them never iterate over a map (Go randomises the order), start a
    goroutine, `select`, or call into time / rand / os / runtime: their results are functions of their arguments -/
theorem consumers_use_no_nondeterministic_construct :
    ∀ j, Reach consumerRoots j → nondetOf j = [] := by
  have h : certificateP consumerRoots (fun i => (nondetOf i).isEmpty) = true := by decide +kernel
  intro j hj
  simpa using certifiedP h j hj

/-- the same for Parse, and for the decoder -/
theorem parse_uses_no_nondeterministic_construct :
    ∀ j, Reach (pureParseRoots ++ decodeRoots) j → nondetOf j = [] := by
  have h : certificateP (pureParseRoots ++ decodeRoots) (fun i => (nondetOf i).isEmpty) = true := by decide +kernel
  intro j hj
  simpa using certifiedP h j hj

/-- over the WHOLE API surface the only such construct is the iteration over `driver.Shared` with which `NewPostgresDriver`
    copies the table into a fresh map (the result of copying a map does not depend on the order) -/
theorem api_nondeterminism_is_one_map_copy :
    ∀ j, Reach exported j → ∀ c ∈ nondetOf j,
      names[j]? = some "driver.NewPostgresDriver" ∧ c = "maprange:map[expr.Operator]driver.RenderFN" := by
  have h : certificateP exported (fun i => (nondetOf i).all (fun c =>
      names[i]? == some "driver.NewPostgresDriver" && c == "maprange:map[expr.Operator]driver.RenderFN")) = true := by decide +kernel
  intro j hj c hc
  have := List.all_eq_true.mp (certifiedP h j hj) c hc
  simpa using this

/-! ## Non-vacuity: the roots are there, the closures are large, and the predicates do reject things -/

example : consumerRoots.length = 6 ∧ 40 ≤ (closure consumerRoots).length ∧ 100 ≤ (closure exported).length := by decide +kernel

/-- the graph follows function values through tables: the render function `driver.rang`, only ever stored in `driver.Shared`,
    is reachable from `Base.Render` -/
example : (names.idxOf? "driver.rang").any (fun i => (closure consumerRoots).contains i) = true := by decide +kernel

/-- the consumers do NOT reach the decoder (whose writes would be rejected): the separation is real -/
example : (names.idxOf? "expr.Expression.UnmarshalJSON").any (fun i => (closure consumerRoots).contains i) = false := by decide +kernel

example : consumerOK ("field", "expr.Expression", "Op", "local") = false := by decide
example : consumerOK ("mapelem", "map[expr.Operator]driver.RenderFN", "", "recv") = false := by decide
example : consumerOK ("global", "driver.Shared/mapelem:x", "", "global") = false := by decide
example : parseOK ("mapelem", "map[rune]lex.TokType", "", "recv") = false := by decide
example : consumerOK ("libmethod", "strings.Builder.Reset", "", "captured") = false := by decide
example : decodeOK ("global", "expr.cache", "", "global") = false := by decide

end GoLucene.Effects
