import GoLucene.Proofs.QuotedVerbatim
import GoLucene.Proofs.RespaceBytes
import GoLucene.Proofs.Respace
/-
  C08, escaping clause, END TO END (query text → lexer → shift/reduce parser → tree → PostgreSQL text / parameters):

    "Any non-numeric text written as a bare word with a backslash before each special character denotes exactly
     that text as a plain (non-pattern) value."

  Definitions (namespace `GoLucene.EscapedVerbatim`)
    escCells k force cs   a backslash cell before every cell of `cs` whose rune is not a letter / digit / `_` of the class
                          table `k`; with `force` also before the first cell
    escapeWord env w      cellsBytes (escCells env.cls (forceFirst w) (decode w)): rune-wise on the UTF-8 decoding;
                          the first rune is escaped unconditionally when `w` is a keyword (AND/OR/NOT/TO in any letter
                          case, as the lexer decides) or starts with `-`
    numericLooking s      strconv.Atoi succeeds, or strconv.ParseFloat succeeds with a FINITE value
    escapable env w       w ≠ [] ∧ no byte `*` `?` in w ∧ ¬ numericLooking w               (independent of env)
                          — since fix F13 (parse.go `unescape`) a backslash in w is fine: it is written `\\` and read back
    escapableX env w      the same with ¬ numericLooking (escapeWord env w)  — the weakest possible condition
    Cls.escHyp k          `:` `\` and the four blanks are not letters/digits of k (Bool form: `escHypB`)
    plainField env f      f a non-empty word of ASCII letters, letters of k, not a keyword

  The inverse pair (§4), for EVERY text w (wildcards, backslashes, digits, invalid UTF-8, … included):
    unescape_escapeWord               env.cls.isAlnum 92 = false → unescape (escapeWord env w) = w
    unescape_escapeWord_append        … → unescape (escapeWord env w ++ t) = w ++ unescape t
    (byte-level companion `GoLucene.unescape_escapeBytes` and the other general facts about `unescape`: QuotedVerbatim §0)

  Main results, for `hk : env.cls.escHyp` and a plain field name `f`:
    escaped_tree / escaped_verbatim   escapable env w → parseQuery env (f ++ ":" ++ escapeWord env w) df = .ok (f = w)
    escaped_tree_iff                  parseQuery env (f ++ ":" ++ escapeWord env w) df = .ok (f = w) ↔ escapableX env w
                                      (ANY w: the clause holds exactly there; every condition is necessary)
    escaped_default_tree              the bare escaped word under a default field
    escaped_verbatim_sql / _main      tree + inline SQL constant `sqlQuote w` read back by PostgreSQL as the string w
                                      (w valid UTF-8 without NUL) + parameter form `"f" = ?`, [w]
  NOT needed for the tree: valid UTF-8, absence of NUL (`Dec_esc`: inserting backslashes at cell boundaries never
  changes how the neighbouring bytes decode, invalid sequences included).  They are needed only by the inline SQL text.

  Where the clause is FALSE in the real code (recorded findings), general form and concrete input:
    K-escape-wild       escaped_wild_tree / escaped_wild_wrong / K_escape_wild            `a:b\*`  → LIKE pattern `b\*`
    K-dangling-escape   dangling_escape_tree / K_dangling_escape                           `a:b\`   → "b", no error
  FIXED by F13 (was finding K-escape-backslash: every backslash byte was removed, `a:a\\b` gave "ab"):
    escaped_backslash_tree / escaped_backslash_iff / escaped_backslash_kept               `a:a\\b` → "a\b"
    (a text with a backslash and no `*`/`?` is delivered verbatim — no further condition, it cannot look numeric)
  Necessity of the rest: `empty_word_err` (w = []), `numeric_is_number` (`a:15` is the integer 15), class-table
  counterexamples `kBslLetter`, `kSpaceLetter` (and `kColonLetter` of QuotedVerbatim), keywords without the leading
  backslash lex as operators.
-/

namespace GoLucene

/-- the class-table hypotheses of the escaping clause: the colon, the backslash and the four whitespace runes are
    neither letters nor digits (true of unicode.IsLetter / unicode.IsDigit) -/
def Cls.escHyp (k : Cls) : Prop := k.isAlnum 58 = false ∧ k.isAlnum 92 = false ∧ k.wsNotAlnum

namespace EscapedVerbatim
open QuotedVerbatim

/-! ## 1. the escaping function -/

/-- the backslash cell -/
def bsl : Cell := asciiCell 92

/-- rune-wise escaping of a decoded text: a backslash cell in front of every cell whose rune is not a letter, a
    digit or `_`; with `force`, also in front of the first cell whatever it is -/
def escCells (k : Cls) : Bool → List Cell → List Cell
  | _, [] => []
  | force, c :: cs =>
    if force || !k.isAlnum c.r then bsl :: c :: escCells k false cs else c :: escCells k false cs

/-- the first rune is escaped unconditionally when the word is a keyword (`AND`, `or`, `Not`, `to`, …: as the
    lexer decides, ASCII-case-insensitively) or starts with `-` -/
def forceFirst (w : Bytes) : Bool := (keywordOf w).isSome || w.head? == some 45

/-- **escapeWord**: the bare-word spelling of the text `w` -/
def escapeWord (env : Env) (w : Bytes) : Bytes := cellsBytes (escCells env.cls (forceFirst w) (decode w))

/-- strconv.Atoi succeeds, or strconv.ParseFloat succeeds with a finite value: `parseLiteral` makes a number -/
def numericLooking (s : Bytes) : Bool :=
  (atoi s).isSome ||
    (match parseFloat s with
     | some f => !(f.isInf || f.isNaN)
     | none => false)

/-- **escapable**: the side condition on the text (it does not depend on the class table) -/
def escapableB (w : Bytes) : Bool :=
  !w.isEmpty && !w.any (fun c => c == 42 || c == 63) && !numericLooking w

def escapable (_env : Env) (w : Bytes) : Bool := escapableB w

/-- evaluate `escapable env w` on a concrete `w` (the environment is not looked at) -/
macro "esc_decide" : tactic => `(tactic| (show escapableB _ = _; decide))

/-! ## 2. decoding the escaped text -/

theorem Dec_join_ascii (s : UInt8) (hs : s < 0x80) (x y : List Cell) (hx : Dec x) (hy : Dec y) :
    Dec (x ++ asciiCell s :: y) := by
  unfold Dec at hx hy ⊢
  rw [cellsBytes_append, cellsBytes_cons]
  show decode (cellsBytes x ++ s :: cellsBytes y) = _
  rw [decode_append_ascii s hs _ _ _ (Nat.lt_succ_self _), hx, hy]

/-- inserting backslashes at cell boundaries does not change how anything is decoded — for arbitrary bytes,
    invalid UTF-8 included -/
theorem Dec_esc (k : Cls) : ∀ (cs pre : List Cell) (force : Bool), Dec (pre ++ cs) → Dec (pre ++ escCells k force cs)
  | [], pre, _, h => by simpa [escCells] using h
  | c :: cs, pre, force, h => by
    rw [escCells]
    split
    · have h1 : Dec pre := Dec_prefix pre _ h
      have h2 : Dec ([c] ++ cs) := Dec_suffix pre _ h
      have h3 := Dec_esc k cs [c] false h2
      exact Dec_join_ascii 92 (by decide) pre _ h1 h3
    · have h2 : Dec ((pre ++ [c]) ++ cs) := by simpa using h
      have h3 := Dec_esc k cs (pre ++ [c]) false h2
      simpa using h3

theorem decode_escapeWord (env : Env) (w : Bytes) :
    decode (escapeWord env w) = escCells env.cls (forceFirst w) (decode w) := by
  have := Dec_esc env.cls (decode w) [] (forceFirst w) (by simpa using Dec_decode w)
  simpa [Dec, escapeWord] using this

/-! ## 3. the lexer: a backslash makes the next rune part of the word, whatever it is -/

/-- after a backslash the next rune — letter, digit, blank, `:`, `(`, `"`, `'`, `/`, `*`, another backslash, U+FFFD of an
    invalid byte, anything — is part of the word, and the word goes on behind it -/
theorem lexWord_bsl_any (k : Cls) (h92 : k.isAlnum 92 = false) (d : Cell) (ds : List Cell) :
    lexWord k (bsl :: d :: ds) = (bsl :: d :: (lexWord k ds).1, (lexWord k ds).2) := by
  have e92 : bsl.r = 92 := rfl
  rw [lexWord.eq_def]
  simp only [e92, h92, isWild, isEsc]
  simp

/-- the whole escaped text is one word -/
theorem lexWord_esc (k : Cls) (h92 : k.isAlnum 92 = false) : ∀ (cs : List Cell) (force : Bool),
    lexWord k (escCells k force cs) = (escCells k force cs, [])
  | [], _ => by simp [escCells, lexWord]
  | c :: cs, force => by
    have ih := lexWord_esc k h92 cs false
    have e92 : bsl.r = 92 := rfl
    rw [escCells]
    split
    · rw [lexWord.eq_def]
      simp only [e92, h92, isWild, isEsc]
      simp [ih]
    · rename_i hc
      have hc' : k.isAlnum c.r = true := by
        cases hh : k.isAlnum c.r
        · simp [hh] at hc
        · rfl
      rw [lexWord.eq_def]
      simp only [hc', Bool.true_or, if_true, ih]

/-- one `Next` on a run of cells that `lexWord` takes entirely -/
theorem next_wholeWord (k : Cls) (x : Cell) (xs : List Cell) (hws : isWs x.r = false)
    (hst : (k.isAlnum x.r || isWild x.r || isEsc x.r) = true) (hw : lexWord k (x :: xs) = (x :: xs, [])) :
    next k (x :: xs) =
      .tok ⟨(keywordOf (cellsBytes (x :: xs))).getD .literal, cellsBytes (x :: xs)⟩ [] (x :: xs) [] := by
  simp only [next, dropWs, hws, Bool.false_eq_true, if_false, hst, if_true, hw]

theorem alnum_not_ws (k : Cls) (hws : k.wsNotAlnum) (r : Nat) (h : k.isAlnum r = true) : isWs r = false := by
  cases hh : isWs r
  · rfl
  · have := (ws_props k hws r hh).1
    simp [h] at this

/-- the first cell of an escaped text starts a word -/
theorem esc_head (k : Cls) (hws : k.wsNotAlnum) (c : Cell) (cs : List Cell) (force : Bool) :
    ∃ x xs, escCells k force (c :: cs) = x :: xs ∧ isWs x.r = false ∧
      (k.isAlnum x.r || isWild x.r || isEsc x.r) = true := by
  rw [escCells]
  split
  · exact ⟨bsl, _, rfl, by decide, by simp [bsl, asciiCell, isEsc]⟩
  · rename_i hc
    have hc' : k.isAlnum c.r = true := by
      cases hh : k.isAlnum c.r
      · simp [hh] at hc
      · rfl
    exact ⟨c, _, rfl, alnum_not_ws k hws _ hc', by simp [hc']⟩

/-- lexing `f:` followed by cells that form one whole word: exactly three tokens, then EOF -/
theorem lexAll_field_word (k : Cls) (h58 : k.isAlnum 58 = false)
    (f : Bytes) (hne : f ≠ [])
    (hasc : ∀ c ∈ f, isAsciiLetter c = true) (hlet : ∀ c ∈ f, k.isLetter c.toNat = true)
    (hkw : keywordOf f = none) (x : Cell) (xs : List Cell) (hD : Dec (x :: xs)) (hws : isWs x.r = false)
    (hst : (k.isAlnum x.r || isWild x.r || isEsc x.r) = true) (hw : lexWord k (x :: xs) = (x :: xs, [])) :
    lexAll k (decode (f ++ 58 :: cellsBytes (x :: xs))) =
      ([([], ⟨.literal, f⟩), ([], ⟨.colon, [58]⟩),
        ([], ⟨(keywordOf (cellsBytes (x :: xs))).getD .literal, cellsBytes (x :: xs)⟩)], .eof, [], []) := by
  have hlt : ∀ c ∈ f, c < 0x80 := fun c hc => asciiLetter_lt c (hasc c hc)
  rw [decode_ascii_prefix f _ hlt, decode_ascii 58 (by decide), hD]
  cases f with
  | nil => exact absurd rfl hne
  | cons c f =>
    have hx : ∀ y ∈ (c :: f).map asciiCell, k.isAlnum y.r = true := by
      intro y hy
      obtain ⟨z, hz, rfl⟩ := List.mem_map.mp hy
      simp [Cls.isAlnum, asciiCell, hlet z hz]
    have hws' : isWs (asciiCell c).r = false := by
      have := asciiLetter_range c (hasc c (by simp))
      exact isWs_ge _ (by show 33 ≤ c.toNat; omega)
    have hn := next_word k (asciiCell c) (f.map asciiCell) (asciiCell 58) (x :: xs) hx hws'
      h58 (by decide) (by decide) (by decide) (by decide)
    rw [← List.map_cons, cellsBytes_map_ascii, hkw] at hn
    rw [lexAll_tok k _ _ _ _ _ hn, lexAll_tok k _ _ _ _ _ (next_colon k h58 _),
      lexAll_tok k _ _ _ _ _ (next_wholeWord k x xs hws hst hw), lexAll_eof k [] [] (next_nil k)]
    rfl

theorem tokensOf_field_word (env : Env) (h58 : env.cls.isAlnum 58 = false)
    (f : Bytes) (hne : f ≠ [])
    (hasc : ∀ c ∈ f, isAsciiLetter c = true) (hlet : ∀ c ∈ f, env.cls.isLetter c.toNat = true)
    (hkw : keywordOf f = none) (x : Cell) (xs : List Cell) (hD : Dec (x :: xs)) (hws : isWs x.r = false)
    (hst : (env.cls.isAlnum x.r || isWild x.r || isEsc x.r) = true)
    (hw : lexWord env.cls (x :: xs) = (x :: xs, [])) :
    tokensOf env (f ++ 58 :: cellsBytes (x :: xs)) =
      [⟨.literal, f⟩, ⟨.colon, [58]⟩,
        ⟨(keywordOf (cellsBytes (x :: xs))).getD .literal, cellsBytes (x :: xs)⟩] := by
  unfold tokensOf
  rw [lexAll_field_word env.cls h58 f hne hasc hlet hkw x xs hD hws hst hw]
  rfl

/-- the bare word alone -/
theorem tokensOf_word (env : Env) (x : Cell) (xs : List Cell) (hD : Dec (x :: xs)) (hws : isWs x.r = false)
    (hst : (env.cls.isAlnum x.r || isWild x.r || isEsc x.r) = true)
    (hw : lexWord env.cls (x :: xs) = (x :: xs, [])) :
    tokensOf env (cellsBytes (x :: xs)) =
      [⟨(keywordOf (cellsBytes (x :: xs))).getD .literal, cellsBytes (x :: xs)⟩] := by
  unfold tokensOf
  rw [hD, lexAll_tok env.cls _ _ _ _ _ (next_wholeWord env.cls x xs hws hst hw),
    lexAll_eof env.cls [] [] (next_nil env.cls)]
  rfl

/-! ## 4. bytes of the escaped text: `unescape` inverts the escaping -/

theorem bsl_raw : bsl.raw = [92] := rfl

/-- a cell as the decoder produces it, seen from the backslash: its bytes are not empty, and the byte `\` occurs only
    as the one-byte cell `\` — never inside a multi-byte sequence, never as the byte of an invalid-sequence cell -/
def bslOK (c : Cell) : Prop := c.raw ≠ [] ∧ (c = bsl ∨ (92 : UInt8) ∉ c.raw)

theorem decode_raw_ne_nil : ∀ (n : Nat) (w : Bytes), w.length ≤ n → ∀ c ∈ decode w, c.raw ≠ [] := by
  intro n
  induction n with
  | zero =>
    intro w h c hc
    have : w = [] := List.length_eq_zero_iff.mp (by omega)
    subst this
    rw [decode_nil] at hc
    simp at hc
  | succ n ih =>
    intro w hl c hc
    cases w with
    | nil => rw [decode_nil] at hc; simp at hc
    | cons b0 B =>
      rw [decode_cons] at hc
      rcases List.mem_cons.mp hc with rfl | hc
      · simp
      · exact ih (B.drop ((decode1 b0 B).2 - 1)) (by simp at hl ⊢; omega) c hc

theorem mem_cellsBytes {c : Cell} {cs : List Cell} {x : UInt8} (hc : c ∈ cs) (hx : x ∈ c.raw) : x ∈ cellsBytes cs := by
  unfold cellsBytes
  exact List.mem_flatMap.mpr ⟨c, hc, hx⟩

/-- every cell of a decoded text is `bslOK` (arbitrary bytes, invalid UTF-8 included): an ASCII byte always decodes
    as a cell of its own (`decode_append_ascii`) -/
theorem decode_bslOK : ∀ (n : Nat) (w : Bytes), w.length ≤ n → ∀ c ∈ decode w, bslOK c := by
  intro n
  induction n with
  | zero =>
    intro w h c hc
    have : w = [] := List.length_eq_zero_iff.mp (by omega)
    subst this
    rw [decode_nil] at hc
    simp at hc
  | succ n ih =>
    intro w hl c hc
    refine ⟨decode_raw_ne_nil _ w (Nat.le_refl _) c hc, ?_⟩
    rcases split_first 92 w with hno | ⟨a, t, rfl, ha⟩
    · right
      intro hm
      have := mem_cellsBytes hc hm
      rw [decode_lossless _ w (Nat.le_refl _)] at this
      exact hno 92 this rfl
    · rw [decode_append_ascii 92 (by decide) _ a t (Nat.lt_succ_self _)] at hc
      rcases List.mem_append.mp hc with h1 | h1
      · right
        intro hm
        have := mem_cellsBytes h1 hm
        rw [decode_lossless _ a (Nat.le_refl _)] at this
        exact ha 92 this rfl
      · rcases List.mem_cons.mp h1 with rfl | h2
        · left; rfl
        · exact (ih t (by simp at hl; omega) c h2).2

/-- **`unescape` inverts `escCells`**, cell level, with an arbitrary continuation `t`: whatever follows the escaped
    text is unescaped on its own (the escaped text always ends between two escape sequences) -/
theorem unescape_esc (k : Cls) (h92 : k.isAlnum 92 = false) : ∀ (cs : List Cell) (force : Bool) (t : Bytes),
    (∀ c ∈ cs, bslOK c) → unescape (cellsBytes (escCells k force cs) ++ t) = cellsBytes cs ++ unescape t
  | [], _, t, _ => by simp [escCells, cellsBytes]
  | c :: cs, force, t, h => by
    have ih := unescape_esc k h92 cs false t (fun x hx => h x (by simp [hx]))
    obtain ⟨hne, hb⟩ := h c (by simp)
    rw [escCells]
    split
    · -- the cell is escaped: `\` then its bytes; only the first of them can be a backslash
      rw [cellsBytes_cons, cellsBytes_cons, cellsBytes_cons, bsl_raw]
      cases hr : c.raw with
      | nil => exact absurd hr hne
      | cons d ds =>
        have hds : ∀ x ∈ ds, x ≠ 92 := by
          rcases hb with rfl | hb
          · rw [bsl_raw] at hr
            cases hr
            simp
          · intro x hx e
            subst e
            exact hb (by rw [hr]; simp [hx])
        simp only [List.cons_append, List.nil_append, List.append_assoc]
        rw [unescape_bsl_cons, unescape_append_of_no_bsl ds _ hds, ih]
    · -- the cell is a letter / digit / `_`: not the backslash, so no backslash byte in it
      rename_i hc
      have hc' : k.isAlnum c.r = true := by
        cases hh : k.isAlnum c.r
        · simp [hh] at hc
        · rfl
      have hraw : ∀ x ∈ c.raw, x ≠ 92 := by
        rcases hb with rfl | hb
        · have e92 : bsl.r = 92 := rfl
          rw [e92, h92] at hc'
          cases hc'
        · intro x hx e
          subst e
          exact hb hx
      rw [cellsBytes_cons, cellsBytes_cons, List.append_assoc, unescape_append_of_no_bsl c.raw _ hraw, ih,
        List.append_assoc]

/-- **`unescape` inverts `escapeWord`** — for EVERY text `w` (wildcards, backslashes, digits, keywords, invalid UTF-8
    included) and whatever follows it, as soon as the backslash is not a letter / digit of the class table (otherwise
    `escapeWord` would not escape it: `unescape_needs_h92`) -/
theorem unescape_escapeWord_append (env : Env) (h92 : env.cls.isAlnum 92 = false) (w t : Bytes) :
    unescape (escapeWord env w ++ t) = w ++ unescape t := by
  unfold escapeWord
  rw [unescape_esc env.cls h92 (decode w) (forceFirst w) t (decode_bslOK _ w (Nat.le_refl _)),
    decode_lossless _ w (Nat.le_refl _)]

theorem unescape_escapeWord (env : Env) (h92 : env.cls.isAlnum 92 = false) (w : Bytes) :
    unescape (escapeWord env w) = w := by
  have := unescape_escapeWord_append env h92 w []
  rwa [List.append_nil, unescape_nil, List.append_nil] at this

theorem any_esc (k : Cls) (p : UInt8 → Bool) (hp : p 92 = false) : ∀ (cs : List Cell) (force : Bool),
    (cellsBytes (escCells k force cs)).any p = (cellsBytes cs).any p
  | [], _ => by simp [escCells]
  | c :: cs, force => by
    have ih := any_esc k p hp cs false
    rw [escCells]
    split
    · rw [cellsBytes_cons, cellsBytes_cons, cellsBytes_cons, bsl_raw, List.any_append, List.any_append,
        List.any_append, ih]
      simp [hp]
    · rw [cellsBytes_cons, cellsBytes_cons, List.any_append, List.any_append, ih]

/-- either nothing was escaped, or the escaped text contains a backslash byte -/
theorem esc_same_or_bsl (k : Cls) : ∀ (cs : List Cell) (force : Bool),
    escCells k force cs = cs ∨ (92 : UInt8) ∈ cellsBytes (escCells k force cs)
  | [], _ => Or.inl rfl
  | c :: cs, force => by
    rw [escCells]
    split
    · right; rw [cellsBytes_cons, bsl_raw]; simp
    · rcases esc_same_or_bsl k cs false with h | h
      · left; rw [h]
      · right; rw [cellsBytes_cons]; exact List.mem_append_right _ h

theorem escapeWord_same_or_bsl (env : Env) (w : Bytes) :
    escapeWord env w = w ∨ (92 : UInt8) ∈ escapeWord env w := by
  unfold escapeWord
  rcases esc_same_or_bsl env.cls (decode w) (forceFirst w) with h | h
  · left; rw [h, decode_lossless _ w (Nat.le_refl _)]
  · right; exact h

theorem escapeWord_wild (env : Env) (w : Bytes) : containsWild (escapeWord env w) = containsWild w := by
  unfold escapeWord containsWild
  rw [any_esc _ _ (by decide), decode_lossless _ w (Nat.le_refl _)]

/-! ## 5. a text with a backslash byte is not a number, not a keyword -/

theorem digitsVal_isDig : ∀ (s : Bytes) (acc n : Nat), Num.digitsVal acc s = some n → ∀ c ∈ s, Num.isDig c = true
  | [], _, _, _ => by simp
  | d :: s, acc, n, h => by
    rw [Num.digitsVal] at h
    split at h
    · rename_i hd
      intro c hc
      rcases List.mem_cons.mp hc with rfl | hc
      · exact hd
      · exact digitsVal_isDig s _ n h c hc
    · cases h

theorem atoiU_bsl (s : Bytes) (h : (92 : UInt8) ∈ s) : Num.atoiU s = none := by
  cases hh : Num.atoiU s with
  | none => rfl
  | some n =>
    exfalso
    cases s with
    | nil => simp at h
    | cons d s =>
      simp only [Num.atoiU] at hh
      have := digitsVal_isDig _ _ _ hh 92 h
      revert this; decide

theorem atoi_bsl (s : Bytes) (h : (92 : UInt8) ∈ s) : atoi s = none := by
  cases s with
  | nil => rfl
  | cons c rest =>
    unfold atoi
    by_cases h45 : c = 45
    · have hr : (92 : UInt8) ∈ rest := by
        rcases List.mem_cons.mp h with e | e
        · subst h45; cases e
        · exact e
      simp only [h45, if_true, atoiU_bsl rest hr]
    · simp only [h45, if_false]
      have : (92 : UInt8) ∈ (if c = 43 then rest else c :: rest) := by
        split
        · rename_i h43
          rcases List.mem_cons.mp h with e | e
          · subst h43; cases e
          · exact e
        · exact h
      rw [atoiU_bsl _ this]

theorem map_lowerAZ_ne (w L : Bytes) (h : (92 : UInt8) ∈ w) (hL : ∀ x ∈ L, x ≠ 92) : (w.map Num.lowerAZ == L) = false := by
  rw [beq_eq_false_iff_ne]
  intro e
  have : Num.lowerAZ 92 ∈ w.map Num.lowerAZ := List.mem_map_of_mem h
  rw [e] at this
  exact hL _ this (by decide)

theorem mem_tail_of_ne {c : UInt8} {rest : Bytes} (h : (92 : UInt8) ∈ c :: rest) (hc : c ≠ 92) : (92 : UInt8) ∈ rest := by
  rcases List.mem_cons.mp h with e | e
  · exact absurd e.symm hc
  · exact e

theorem special_bsl (s : Bytes) (h : (92 : UInt8) ∈ s) : Num.special s = none := by
  cases s with
  | nil => rfl
  | cons c rest =>
    unfold Num.special
    simp only []
    by_cases h43 : c = 43
    · have hr := mem_tail_of_ne h (by rw [h43]; decide)
      simp [h43, map_lowerAZ_ne rest _ hr (by decide : ∀ x ∈ ([105, 110, 102] : Bytes), x ≠ 92),
        map_lowerAZ_ne rest _ hr (by decide : ∀ x ∈ ([105, 110, 102, 105, 110, 105, 116, 121] : Bytes), x ≠ 92)]
    · by_cases h45 : c = 45
      · have hr := mem_tail_of_ne h (by rw [h45]; decide)
        simp [h45, map_lowerAZ_ne rest _ hr (by decide : ∀ x ∈ ([105, 110, 102] : Bytes), x ≠ 92),
          map_lowerAZ_ne rest _ hr (by decide : ∀ x ∈ ([105, 110, 102, 105, 110, 105, 116, 121] : Bytes), x ≠ 92)]
      · have a1 := map_lowerAZ_ne (c :: rest) _ h (by decide : ∀ x ∈ ([105, 110, 102] : Bytes), x ≠ 92)
        have a2 := map_lowerAZ_ne (c :: rest) _ h (by decide : ∀ x ∈ ([105, 110, 102, 105, 110, 105, 116, 121] : Bytes), x ≠ 92)
        have a3 := map_lowerAZ_ne (c :: rest) _ h (by decide : ∀ x ∈ ([110, 97, 110] : Bytes), x ≠ 92)
        simp only [h43, h45, if_false, a1, a2, a3, Bool.or_self, Bool.false_eq_true]

/-- the mantissa loop never consumes a backslash -/
theorem scanMant_bsl (hex : Bool) : ∀ (s : Bytes) (st : Num.Scan), (92 : UInt8) ∈ s → (92 : UInt8) ∈ (Num.scanMant hex st s).2
  | [], _, h => by simp at h
  | c :: rest, st, h => by
    rw [Num.scanMant.eq_def]
    simp only []
    by_cases hc : c = 92
    · subst hc
      have e1 : ((92 : UInt8) = 95) = False := by decide
      have e2 : ((92 : UInt8) = 46) = False := by decide
      have e3 : Num.isDig 92 = false := by decide
      have e4 : Num.isHexLet 92 = false := by decide
      simp [e1, e2, e3, e4]
    · have hr := mem_tail_of_ne h hc
      repeat' split
      all_goals first
        | exact scanMant_bsl hex rest _ hr
        | exact h

theorem scanExpDigits_bsl : ∀ (s : Bytes) (e : Nat) (us : Bool), (92 : UInt8) ∈ s → (Num.scanExpDigits e us s).2.2 ≠ []
  | [], _, _, h => by simp at h
  | c :: rest, e, us, h => by
    rw [Num.scanExpDigits.eq_def]
    simp only []
    by_cases hc : c = 92
    · subst hc
      have e1 : ((92 : UInt8) = 95) = False := by decide
      have e3 : Num.isDig 92 = false := by decide
      simp [e1, e3]
    · have hr := mem_tail_of_ne h hc
      repeat' split
      all_goals first
        | exact scanExpDigits_bsl rest _ _ hr
        | simp

theorem scanExp_bsl (hex us : Bool) (s : Bytes) (h : (92 : UInt8) ∈ s) : Num.scanExp hex us s = none := by
  cases s with
  | nil => simp at h
  | cons c r1 =>
    unfold Num.scanExp
    simp only []
    by_cases hl : Num.lower c = (if hex = true then 112 else 101)
    · have hc : c ≠ 92 := by
        intro e; subst e
        revert hl; cases hex <;> decide
      have hr1 := mem_tail_of_ne h hc
      rw [if_pos hl]
      cases r1 with
      | nil => simp at hr1
      | cons s r2 =>
        simp only []
        have hr3 : (92 : UInt8) ∈ (if s = 43 ∨ s = 45 then r2 else s :: r2) := by
          split
          · rename_i hs
            exact mem_tail_of_ne hr1 (by rcases hs with e | e <;> (rw [e]; decide))
          · exact hr1
        generalize (if s = 43 ∨ s = 45 then r2 else s :: r2) = r3 at hr3
        cases r3 with
        | nil => simp at hr3
        | cons d r4 =>
          simp only []
          have := scanExpDigits_bsl (d :: r4) 0 us hr3
          generalize Num.scanExpDigits 0 us (d :: r4) = q at this
          obtain ⟨e, us', tl⟩ := q
          cases tl with
          | nil => exact absurd rfl this
          | cons _ _ => split <;> rfl
    · rw [if_neg hl]

/-- the part of `parseFloat` after the sign and the hex prefix, as a function of its own -/
def pfTail (s : Bytes) (neg hex : Bool) (body : Bytes) : Option F64 :=
  match Num.scanMant hex {} body with
  | (st, rest) =>
    if !st.sawdigits then none else
    let dp0 : Int := if st.sawdot then st.dp else (st.nd : Int)
    let dp1 : Int := if hex then dp0 * 4 else dp0
    match Num.scanExp hex st.us rest with
    | none => none
    | some (e, us) =>
      if us && !Num.underscoreOK s then none else
      let dp := dp1 + e
      if st.mant = 0 then some (F64.ofMag neg 0) else
      let bits :=
        if hex then Num.hexBits st.mant (dp - 4 * (st.nd : Int))
        else Num.decimalBits st.mant st.nd (if st.sawdot then st.ndDot else st.nd) dp
      if bits ≥ Num.infBits then none else some (F64.ofMag neg bits)

def s1Of (s : Bytes) : Bytes := match s with
  | c :: rest => if c = 43 ∨ c = 45 then rest else s
  | [] => s

def hexRestOf (s1 : Bytes) : Option Bytes := match s1 with
  | 48 :: x :: y :: r => if Num.lower x = 120 then some (y :: r) else none
  | _ => none

def bodyOf (s1 : Bytes) : Bytes := match hexRestOf s1 with
  | some r => r
  | none => s1

theorem parseFloat_eq (s : Bytes) : parseFloat s =
    match Num.special s with
    | some f => some f
    | none => pfTail s (match s with | c :: _ => c = 45 | [] => false) (hexRestOf (s1Of s)).isSome (bodyOf (s1Of s)) := rfl

theorem pfTail_bsl (s : Bytes) (neg hex : Bool) (body : Bytes) (h : (92 : UInt8) ∈ body) : pfTail s neg hex body = none := by
  unfold pfTail
  have hm := scanMant_bsl hex body {} h
  generalize Num.scanMant hex {} body = p at hm
  obtain ⟨st, rest⟩ := p
  simp only [] at hm ⊢
  split
  · rfl
  · rw [scanExp_bsl hex st.us rest hm]

theorem s1Of_bsl (s : Bytes) (h : (92 : UInt8) ∈ s) : (92 : UInt8) ∈ s1Of s := by
  unfold s1Of
  cases s with
  | nil => exact h
  | cons c rest =>
    simp only []
    split
    · rename_i hs
      exact mem_tail_of_ne h (by rcases hs with e | e <;> (rw [e]; decide))
    · exact h

theorem bodyOf_bsl (s1 : Bytes) (h : (92 : UInt8) ∈ s1) : (92 : UInt8) ∈ bodyOf s1 := by
  unfold bodyOf
  split
  · rename_i r heq
    unfold hexRestOf at heq
    split at heq
    · rename_i x y r'
      split at heq
      · rename_i hx
        cases heq
        have h1 := mem_tail_of_ne h (by decide)
        exact mem_tail_of_ne h1 (by intro e; subst e; revert hx; decide)
      · cases heq
    · cases heq
  · exact h

/-- strconv.ParseFloat rejects every text with a backslash -/
theorem parseFloat_bsl (s : Bytes) (h : (92 : UInt8) ∈ s) : parseFloat s = none := by
  rw [parseFloat_eq, special_bsl s h]
  exact pfTail_bsl _ _ _ _ (bodyOf_bsl _ (s1Of_bsl s h))

/-- … so it is not numeric-looking -/
theorem numericLooking_bsl (s : Bytes) (h : (92 : UInt8) ∈ s) : numericLooking s = false := by
  simp [numericLooking, atoi_bsl s h, parseFloat_bsl s h]

theorem keywordOf_bsl (s : Bytes) (h : (92 : UInt8) ∈ s) : keywordOf s = none := by
  have hm : upperAscii 92 ∈ s.map upperAscii := List.mem_map_of_mem h
  have e : upperAscii 92 = 92 := by decide
  rw [e] at hm
  unfold keywordOf
  simp only []
  have ne : ∀ L : Bytes, (∀ x ∈ L, x ≠ 92) → s.map upperAscii ≠ L := by
    intro L hL e'
    rw [e'] at hm
    exact hL _ hm rfl
  rw [if_neg (ne _ (by decide)), if_neg (ne _ (by decide)), if_neg (ne _ (by decide)), if_neg (ne _ (by decide))]

/-! ## 6. the leaf -/

/-- a word token that is not numeric-looking and has no wildcard byte: the string, unescaped -/
theorem parseLiteral_plain (v : Bytes) (hnum : numericLooking v = false) (hwild : containsWild v = false) :
    parseLiteral ⟨.literal, v⟩ = lit (.prim (.str (unescape v))) := by
  simp only [numericLooking, Bool.or_eq_false_iff] at hnum
  obtain ⟨ha, hf⟩ := hnum
  have ha' : atoi v = none := by cases h : atoi v <;> simp [h] at ha ⊢
  have hstrip : (if v.any (· == 92) = true then lit (.prim (.str (unescape v))) else lit (.prim (.str v))) =
      lit (.prim (.str (unescape v))) := by
    by_cases h92 : v.any (· == 92) = true
    · rw [if_pos h92]
    · rw [if_neg h92, unescape_of_any_false v (Bool.eq_false_iff.mpr h92)]
  unfold parseLiteral
  cases hp : parseFloat v with
  | none =>
    simp only [ha', hwild]
    simpa using hstrip
  | some x =>
    rw [hp] at hf
    have hx : (x.isInf || x.isNaN) = true := by
      cases h1 : (x.isInf || x.isNaN)
      · simp only [h1] at hf; cases hf
      · rfl
    simp only [ha', hx, hwild]
    simpa using hstrip

/-- what `escapable` says -/
theorem escapable_iff (env : Env) (w : Bytes) : escapable env w = true ↔
    w ≠ [] ∧ (∀ c ∈ w, c ≠ 42 ∧ c ≠ 63) ∧ numericLooking w = false := by
  unfold escapable escapableB
  simp only [Bool.and_eq_true, Bool.not_eq_true', List.isEmpty_eq_false_iff, List.any_eq_false, Bool.or_eq_true,
    beq_iff_eq, not_or, and_assoc]

theorem escapeWord_numeric (env : Env) (w : Bytes) (h : numericLooking w = false) :
    numericLooking (escapeWord env w) = false := by
  rcases escapeWord_same_or_bsl env w with e | e
  · rw [e]; exact h
  · exact numericLooking_bsl _ e

/-- the escaped word never lexes as a keyword: the word `w` was no keyword and nothing was escaped, or there is a
    backslash in it -/
theorem escapeWord_keyword (env : Env) (w : Bytes) : keywordOf (escapeWord env w) = none := by
  unfold escapeWord
  cases hk : keywordOf w with
  | none =>
    rcases esc_same_or_bsl env.cls (decode w) (forceFirst w) with e | e
    · rw [e, decode_lossless _ w (Nat.le_refl _), hk]
    · exact keywordOf_bsl _ e
  | some t =>
    have hf : forceFirst w = true := by simp [forceFirst, hk]
    rw [hf]
    cases hd : decode w with
    | nil =>
      have := decode_lossless _ w (Nat.le_refl _)
      rw [hd] at this
      have : w = [] := this.symm
      subst this
      simp [keywordOf] at hk
    | cons c cs =>
      apply keywordOf_bsl
      simp [escCells, cellsBytes_cons, bsl_raw]

/-- the leaf of an escaped word without `*`, `?` whose escaped spelling is not numeric-looking: the string `w` -/
theorem parseLiteral_escapedX (env : Env) (h92 : env.cls.isAlnum 92 = false) (w : Bytes)
    (hwild : containsWild w = false) (hnum : numericLooking (escapeWord env w) = false) :
    parseLiteral ⟨.literal, escapeWord env w⟩ = lit (.prim (.str w)) := by
  rw [parseLiteral_plain _ hnum (by rw [escapeWord_wild, hwild]), unescape_escapeWord env h92 w]

theorem escapable_noWild (env : Env) (w : Bytes) (hw : escapable env w = true) : containsWild w = false := by
  obtain ⟨_, hb, _⟩ := (escapable_iff env w).mp hw
  simp only [containsWild, List.any_eq_false, Bool.or_eq_true, beq_iff_eq, not_or]
  exact hb

/-- the leaf of the escaped word is the string `w` -/
theorem parseLiteral_escaped (env : Env) (h92 : env.cls.isAlnum 92 = false) (w : Bytes) (hw : escapable env w = true) :
    parseLiteral ⟨.literal, escapeWord env w⟩ = lit (.prim (.str w)) :=
  parseLiteral_escapedX env h92 w (escapable_noWild env w hw)
    (escapeWord_numeric env w ((escapable_iff env w).mp hw).2.2)

/-! ## 7. (T) the tree -/

theorem decode_ne_nil (w : Bytes) (h : w ≠ []) : decode w ≠ [] := by
  intro e
  have := decode_lossless _ w (Nat.le_refl _)
  rw [e] at this
  exact h this.symm

/-- the token stream of `f:` followed by the escaped word — for ANY non-empty text `w` (wildcards, backslashes,
    digits and invalid UTF-8 included): three tokens, the third one a literal carrying the escaped text -/
theorem tokensOf_field_escaped (env : Env) (hk : env.cls.escHyp) (f : Bytes) (hne : f ≠ [])
    (hasc : ∀ c ∈ f, isAsciiLetter c = true) (hlet : ∀ c ∈ f, env.cls.isLetter c.toNat = true)
    (hkw : keywordOf f = none) (w : Bytes) (hw : w ≠ []) :
    tokensOf env (f ++ 58 :: escapeWord env w) = [⟨.literal, f⟩, ⟨.colon, [58]⟩, ⟨.literal, escapeWord env w⟩] := by
  obtain ⟨h58, h92, hws⟩ := hk
  cases hd : decode w with
  | nil => exact absurd hd (decode_ne_nil w hw)
  | cons c cs =>
    obtain ⟨x, xs, hx, hxw, hxs⟩ := esc_head env.cls hws c cs (forceFirst w)
    have hD : Dec (x :: xs) := by
      rw [← hx, ← hd]
      have := Dec_esc env.cls (decode w) [] (forceFirst w) (by simpa using Dec_decode w)
      simpa using this
    have hl : lexWord env.cls (x :: xs) = (x :: xs, []) := by
      rw [← hx]; exact lexWord_esc env.cls h92 _ _
    have he : escapeWord env w = cellsBytes (x :: xs) := by
      unfold escapeWord; rw [hd, hx]
    have hkk := escapeWord_keyword env w
    rw [he] at hkk ⊢
    rw [tokensOf_field_word env h58 f hne hasc hlet hkw x xs hD hxw hxs hl, hkk]
    rfl

theorem tokensOf_escaped (env : Env) (hk : env.cls.escHyp) (w : Bytes) (hw : w ≠ []) :
    tokensOf env (escapeWord env w) = [⟨.literal, escapeWord env w⟩] := by
  obtain ⟨h58, h92, hws⟩ := hk
  cases hd : decode w with
  | nil => exact absurd hd (decode_ne_nil w hw)
  | cons c cs =>
    obtain ⟨x, xs, hx, hxw, hxs⟩ := esc_head env.cls hws c cs (forceFirst w)
    have hD : Dec (x :: xs) := by
      rw [← hx, ← hd]
      have := Dec_esc env.cls (decode w) [] (forceFirst w) (by simpa using Dec_decode w)
      simpa using this
    have hl : lexWord env.cls (x :: xs) = (x :: xs, []) := by
      rw [← hx]; exact lexWord_esc env.cls h92 _ _
    have he : escapeWord env w = cellsBytes (x :: xs) := by
      unfold escapeWord; rw [hd, hx]
    have hkk := escapeWord_keyword env w
    rw [he] at hkk ⊢
    rw [tokensOf_word env x xs hD hxw hxs hl, hkk]
    rfl

theorem b_colon : b ":" = [58] := by decide

/-- **(T)** the escaping clause of C08, for every default field `df` -/
theorem escaped_tree (env : Env) (hk : env.cls.escHyp) (f : Bytes) (hne : f ≠ [])
    (hasc : ∀ c ∈ f, isAsciiLetter c = true) (hlet : ∀ c ∈ f, env.cls.isLetter c.toNat = true)
    (hkw : keywordOf f = none) (w : Bytes) (hw : escapable env w = true) (df : Bytes) :
    parseQuery env (f ++ b ":" ++ escapeWord env w) df = .ok (tree f w) := by
  have hwne : w ≠ [] := ((escapable_iff env w).mp hw).1
  unfold parseQuery parseTokens
  rw [b_colon, List.append_assoc, List.singleton_append,
    tokensOf_field_escaped env hk f hne hasc hlet hkw w hwne, parse_field_colon_value _ _ _ rfl rfl]
  exact finalize_eq env df _ _ f w (parseLiteral_word f hne hasc) (parseLiteral_escaped env hk.2.1 w hw)

/-- **escaped_verbatim**: (T) in the literal form of the property — no default field, the tree written out -/
theorem escaped_verbatim (env : Env) (hk : env.cls.escHyp) (f : Bytes) (hne : f ≠ [])
    (hasc : ∀ c ∈ f, isAsciiLetter c = true) (hlet : ∀ c ∈ f, env.cls.isLetter c.toNat = true)
    (hkw : keywordOf f = none) (w : Bytes) (hw : escapable env w = true) :
    parseQuery env (f ++ b ":" ++ escapeWord env w) [] =
      .ok (Expr.mk (.expr (lit (.prim (.col f)))) .equals (.expr (lit (.prim (.str w)))) F64.one 1) :=
  escaped_tree env hk f hne hasc hlet hkw w hw []

/-- **(T), default-field variant**: the bare escaped word under the default field `f` (ANY non-empty `f`) -/
theorem escaped_default_tree (env : Env) (hk : env.cls.escHyp) (f : Bytes) (hne : f ≠ [])
    (w : Bytes) (hw : escapable env w = true) :
    parseQuery env (escapeWord env w) f =
      .ok (Expr.mk (.expr (lit (.prim (.col f)))) .equals (.expr (lit (.prim (.str w)))) F64.one 1) := by
  have hwne : w ≠ [] := ((escapable_iff env w).mp hw).1
  unfold parseQuery parseTokens
  rw [tokensOf_escaped env hk w hwne, parse_single _ _ rfl]
  exact finalize_leaf env f hne _ w (parseLiteral_escaped env hk.2.1 w hw)

/-! ## 8. end to end: tree, inline SQL constant, parameter list -/

/-- **C08, escaping clause, end to end.**  `f` a non-empty word of ASCII letters that is not a keyword and whose
    letters the lexer's table classifies as letters; `w` any escapable text.  Then the query `f:` ++ escapeWord w
      (T) parses to the tree `f = w` whose value is `w` byte for byte, a plain (non-pattern) string (any default field);
      (S) if `w` is valid UTF-8 without NUL, renders to a text that PostgreSQL reads as column `f` = string `w`
          (the inline constant is `sqlQuote w`);
      (P) renders in parameter mode to `"f" = ?` with the single parameter `w`. -/
theorem escaped_verbatim_sql (env : Env) (hk : env.cls.escHyp) (f : Bytes) (hne : f ≠ [])
    (hasc : ∀ c ∈ f, isAsciiLetter c = true) (hlet : ∀ c ∈ f, env.cls.isLetter c.toNat = true)
    (hkw : keywordOf f = none) (w : Bytes) (hw : escapable env w = true) (df : Bytes) :
    ∃ e, parseQuery env (f ++ b ":" ++ escapeWord env w) df = .ok e ∧
      e = Expr.mk (.expr (lit (.prim (.col f)))) .equals (.expr (lit (.prim (.str w)))) F64.one 1 ∧
      (validUtf8 w = true → (∀ c ∈ w, c ≠ 0) →
        render pgFns e = fnInfix " = " ([34] ++ f ++ [34]) (sqlQuote w) ∧
        ∃ t, render pgFns e = .ok t ∧ Sql.parseSql t = some (.cmp .eq (.col f) (.str w))) ∧
      renderParam pgFns e = .ok ([34] ++ f ++ [34] ++ b " = ?", [.str w]) := by
  have hf := colOk_letters f hne hasc
  exact ⟨tree f w, escaped_tree env hk f hne hasc hlet hkw w hw df, rfl,
    fun hu h0 => ⟨render_tree f w hf hu h0, quoted_sql f w hf hu h0⟩, quoted_params f w hf⟩

/-- the same for the bare escaped word under the default field `f` -/
theorem escaped_default_verbatim_sql (env : Env) (hk : env.cls.escHyp) (f : Bytes) (hne : f ≠ [])
    (w : Bytes) (hw : escapable env w = true) :
    ∃ e, parseQuery env (escapeWord env w) f = .ok e ∧
      e = Expr.mk (.expr (lit (.prim (.col f)))) .equals (.expr (lit (.prim (.str w)))) F64.one 1 ∧
      (ColOk f → validUtf8 w = true → (∀ c ∈ w, c ≠ 0) →
        ∃ t, render pgFns e = .ok t ∧ Sql.parseSql t = some (.cmp .eq (.col f) (.str w))) ∧
      (ColOk f → renderParam pgFns e = .ok ([34] ++ f ++ [34] ++ b " = ?", [.str w])) :=
  ⟨tree f w, escaped_default_tree env hk f hne w hw, rfl,
    fun hf hu h0 => quoted_sql f w hf hu h0, fun hf => quoted_params f w hf⟩

/-! ## 9. the recorded defects: where the clause is false -/

/-- the tree `f LIKE pattern`: Like(Lit(Column f), Wild(string p)) -/
def likeTree (f p : Bytes) : Expr :=
  Expr.mk (.expr (lit (.prim (.col f)))) .like (.expr (mkLeaf (.prim (.str p)) .wild)) F64.one 1

theorem likeTree_ne_tree (f p w : Bytes) : likeTree f p ≠ tree f w := by
  simp [likeTree, tree]

theorem validate_likeTree (f p : Bytes) : validateExpr (likeTree f p) = true := by
  simp [likeTree, validateExpr, validateNode, validateOp, lit, mkLeaf, isLiteralExpr, Node.isLiteral, Prim.isLiteral,
    Node.isNil, Expr.left, Expr.right, Expr.op]

theorem finalize_like (env : Env) (df : Bytes) (tf tv : Tok) (f p : Bytes)
    (hf : parseLiteral tf = lit (.prim (.str f))) (hv : parseLiteral tv = mkLeaf (.prim (.str p)) .wild) :
    finalize env df (.eq (.leaf tf) (.leaf tv)) = .ok (likeTree f p) := by
  have hsem : sem env df (.eq (.leaf tf) (.leaf tv)) = .ok (likeTree f p) := by
    simp only [sem, hf, hv]
    simp [bind, Out.bind, chainedOrLiterals, lit, mkLeaf, mkExpr_equals, fieldE, operatesOnColumn, likeTree, Expr.op]
  unfold finalize
  rw [hsem]
  have hop : (likeTree f p).op = .like := rfl
  simp [bind, Out.bind, hop, validate_likeTree f p]

/-- a word token that is not numeric-looking and has a wildcard byte: a PATTERN, the text kept as it is written,
    backslashes included (the wildcard test comes before the unescaping) -/
theorem parseLiteral_wild (v : Bytes) (hnum : numericLooking v = false) (hwild : containsWild v = true) :
    parseLiteral ⟨.literal, v⟩ = mkLeaf (.prim (.str v)) .wild := by
  simp only [numericLooking, Bool.or_eq_false_iff] at hnum
  obtain ⟨ha, hf⟩ := hnum
  have ha' : atoi v = none := by cases h : atoi v <;> simp [h] at ha ⊢
  unfold parseLiteral
  cases hp : parseFloat v with
  | none =>
    simp only [ha', hwild]
    simp
  | some x =>
    rw [hp] at hf
    have hx : (x.isInf || x.isNaN) = true := by
      cases h1 : (x.isInf || x.isNaN)
      · simp only [h1] at hf; cases hf
      · rfl
    simp only [ha', hx, hwild]
    simp

/-- **K-escape-wild, general form.**  A text with `*` or `?`, spelt with a backslash before each of them: the
    result is a LIKE pattern, not a plain value, and the pattern text still has the backslashes. -/
theorem escaped_wild_tree (env : Env) (hk : env.cls.escHyp) (f : Bytes) (hne : f ≠ [])
    (hasc : ∀ c ∈ f, isAsciiLetter c = true) (hlet : ∀ c ∈ f, env.cls.isLetter c.toNat = true)
    (hkw : keywordOf f = none) (w : Bytes) (hwne : w ≠ []) (hwild : containsWild w = true)
    (hnum : numericLooking (escapeWord env w) = false) (df : Bytes) :
    parseQuery env (f ++ b ":" ++ escapeWord env w) df = .ok (likeTree f (escapeWord env w)) := by
  unfold parseQuery parseTokens
  rw [b_colon, List.append_assoc, List.singleton_append,
    tokensOf_field_escaped env hk f hne hasc hlet hkw w hwne, parse_field_colon_value _ _ _ rfl rfl]
  exact finalize_like env df _ _ f _ (parseLiteral_word f hne hasc)
    (parseLiteral_wild _ hnum (by rw [escapeWord_wild, hwild]))

theorem tree_inj (f w w' : Bytes) (h : tree f w = tree f w') : w = w' := by
  simpa [tree, lit, mkLeaf] using h

/-- the general positive form: no `*`, `?` in `w`, and the escaped spelling is not numeric-looking -/
theorem escaped_plain_tree (env : Env) (hk : env.cls.escHyp) (f : Bytes) (hne : f ≠ [])
    (hasc : ∀ c ∈ f, isAsciiLetter c = true) (hlet : ∀ c ∈ f, env.cls.isLetter c.toNat = true)
    (hkw : keywordOf f = none) (w : Bytes) (hwne : w ≠ []) (hwild : containsWild w = false)
    (hnum : numericLooking (escapeWord env w) = false) (df : Bytes) :
    parseQuery env (f ++ b ":" ++ escapeWord env w) df = .ok (tree f w) := by
  unfold parseQuery parseTokens
  rw [b_colon, List.append_assoc, List.singleton_append,
    tokensOf_field_escaped env hk f hne hasc hlet hkw w hwne, parse_field_colon_value _ _ _ rfl rfl]
  exact finalize_eq env df _ _ f _ (parseLiteral_word f hne hasc) (parseLiteral_escapedX env hk.2.1 w hwild hnum)

theorem escapeWord_bsl_mem (env : Env) (w : Bytes) (h92 : (92 : UInt8) ∈ w) : (92 : UInt8) ∈ escapeWord env w := by
  rcases escapeWord_same_or_bsl env w with e | e
  · rw [e]; exact h92
  · exact e

/-- **the escaped backslash is KEPT (fix F13; was finding K-escape-backslash), general form.**  A text with a backslash
    and no `*`, `?`: the value is `w` itself, byte for byte — every backslash of `w` is written `\\` and read back as `\`.
    No condition about numbers: a text with a backslash never looks numeric. -/
theorem escaped_backslash_tree (env : Env) (hk : env.cls.escHyp) (f : Bytes) (hne : f ≠ [])
    (hasc : ∀ c ∈ f, isAsciiLetter c = true) (hlet : ∀ c ∈ f, env.cls.isLetter c.toNat = true)
    (hkw : keywordOf f = none) (w : Bytes) (h92 : (92 : UInt8) ∈ w) (hwild : containsWild w = false) (df : Bytes) :
    parseQuery env (f ++ b ":" ++ escapeWord env w) df = .ok (tree f w) := by
  have hwne : w ≠ [] := by intro e; subst e; simp at h92
  exact escaped_plain_tree env hk f hne hasc hlet hkw w hwne hwild
    (numericLooking_bsl _ (escapeWord_bsl_mem env w h92)) df

/-- for a text with a backslash the clause holds exactly when there is no `*`, `?` in it (what is left of the
    necessity results about the backslash: K-escape-wild) -/
theorem escaped_backslash_iff (env : Env) (hk : env.cls.escHyp) (f : Bytes) (hne : f ≠ [])
    (hasc : ∀ c ∈ f, isAsciiLetter c = true) (hlet : ∀ c ∈ f, env.cls.isLetter c.toNat = true)
    (hkw : keywordOf f = none) (w : Bytes) (h92 : (92 : UInt8) ∈ w) (df : Bytes) :
    parseQuery env (f ++ b ":" ++ escapeWord env w) df = .ok (tree f w) ↔ containsWild w = false := by
  have hwne : w ≠ [] := by intro e; subst e; simp at h92
  constructor
  · intro h
    cases hwild : containsWild w with
    | false => rfl
    | true =>
      rw [escaped_wild_tree env hk f hne hasc hlet hkw w hwne hwild
        (numericLooking_bsl _ (escapeWord_bsl_mem env w h92)) df] at h
      exact absurd (Out.ok.inj h) (likeTree_ne_tree _ _ _)
  · exact fun hwild => escaped_backslash_tree env hk f hne hasc hlet hkw w h92 hwild df

/-- the clause fails for every text with `*` or `?` that the escaping keeps non-numeric -/
theorem escaped_wild_wrong (env : Env) (hk : env.cls.escHyp) (f : Bytes) (hne : f ≠ [])
    (hasc : ∀ c ∈ f, isAsciiLetter c = true) (hlet : ∀ c ∈ f, env.cls.isLetter c.toNat = true)
    (hkw : keywordOf f = none) (w : Bytes) (hwild : containsWild w = true)
    (hnum : numericLooking (escapeWord env w) = false) (df : Bytes) :
    parseQuery env (f ++ b ":" ++ escapeWord env w) df ≠ .ok (tree f w) := by
  have hwne : w ≠ [] := by intro e; subst e; simp [containsWild] at hwild
  rw [escaped_wild_tree env hk f hne hasc hlet hkw w hwne hwild hnum df]
  intro e
  exact likeTree_ne_tree _ _ _ (Out.ok.inj e)

/-! ### the dangling escape -/

theorem lexWord_esc_tl (k : Cls) (h92 : k.isAlnum 92 = false) (tl : List Cell) (htl : lexWord k tl = (tl, [])) :
    ∀ (cs : List Cell) (force : Bool), lexWord k (escCells k force cs ++ tl) = (escCells k force cs ++ tl, [])
  | [], _ => by simpa [escCells] using htl
  | c :: cs, force => by
    have ih := lexWord_esc_tl k h92 tl htl cs false
    have e92 : bsl.r = 92 := rfl
    rw [escCells]
    split
    · rw [List.cons_append, List.cons_append, lexWord.eq_def]
      simp only [e92, h92, isWild, isEsc]
      simp [ih]
    · rename_i hc
      have hc' : k.isAlnum c.r = true := by
        cases hh : k.isAlnum c.r
        · simp [hh] at hc
        · rfl
      rw [List.cons_append, lexWord.eq_def]
      simp only [hc', Bool.true_or, if_true, ih]

theorem lexWord_bsl (k : Cls) (h92 : k.isAlnum 92 = false) : lexWord k [bsl] = ([bsl], []) := by
  have e92 : bsl.r = 92 := rfl
  rw [lexWord.eq_def]
  simp only [e92, h92, isWild, isEsc]
  simp

/-- the parse of `f:` followed by cells that form one whole word -/
theorem field_word_query (env : Env) (h58 : env.cls.isAlnum 58 = false)
    (f : Bytes) (hne : f ≠ [])
    (hasc : ∀ c ∈ f, isAsciiLetter c = true) (hlet : ∀ c ∈ f, env.cls.isLetter c.toNat = true)
    (hkw : keywordOf f = none) (x : Cell) (xs : List Cell) (hD : Dec (x :: xs)) (hws : isWs x.r = false)
    (hst : (env.cls.isAlnum x.r || isWild x.r || isEsc x.r) = true)
    (hw : lexWord env.cls (x :: xs) = (x :: xs, [])) (hkv : keywordOf (cellsBytes (x :: xs)) = none) (df : Bytes) :
    parseQuery env (f ++ 58 :: cellsBytes (x :: xs)) df =
      finalize env df (.eq (.leaf ⟨.literal, f⟩) (.leaf ⟨.literal, cellsBytes (x :: xs)⟩)) := by
  unfold parseQuery parseTokens
  rw [tokensOf_field_word env h58 f hne hasc hlet hkw x xs hD hws hst hw, hkv,
    parse_field_colon_value _ _ _ rfl rfl]
  rfl

/-- **K-dangling-escape, general form.**  The escaped word followed by one more backslash at the end of the input:
    no error, the lone backslash is part of the word and is then dropped from the value — `f:w\` means `f:w`
    (`w` may itself contain backslashes; `unescape` drops exactly the lone one at the very end).
    (No condition on numbers here: the backslash makes the token non-numeric, so `a:15\` is the STRING "15".) -/
theorem dangling_escape_tree (env : Env) (hk : env.cls.escHyp) (f : Bytes) (hne : f ≠ [])
    (hasc : ∀ c ∈ f, isAsciiLetter c = true) (hlet : ∀ c ∈ f, env.cls.isLetter c.toNat = true)
    (hkw : keywordOf f = none) (w : Bytes) (hwne : w ≠ []) (hb : ∀ c ∈ w, c ≠ 42 ∧ c ≠ 63) (df : Bytes) :
    parseQuery env (f ++ b ":" ++ escapeWord env w ++ b "\\") df = .ok (tree f w) := by
  obtain ⟨h58, h92, hws⟩ := hk
  have hb92 : b "\\" = [92] := by decide
  cases hd : decode w with
  | nil => exact absurd hd (decode_ne_nil w hwne)
  | cons c cs =>
    obtain ⟨x, xs, hx, hxw, hxs⟩ := esc_head env.cls hws c cs (forceFirst w)
    have hE : Dec (escCells env.cls (forceFirst w) (decode w)) := by
      have := Dec_esc env.cls (decode w) [] (forceFirst w) (by simpa using Dec_decode w)
      simpa using this
    have hD : Dec (x :: (xs ++ [bsl])) := by
      have := Dec_join_ascii 92 (by decide) _ [] hE Dec_nil
      rw [hd, hx] at this
      exact this
    have hl : lexWord env.cls (x :: (xs ++ [bsl])) = (x :: (xs ++ [bsl]), []) := by
      have := lexWord_esc_tl env.cls h92 [bsl] (lexWord_bsl env.cls h92) (c :: cs) (forceFirst w)
      rw [hx] at this
      exact this
    have he : escapeWord env w ++ [92] = cellsBytes (x :: (xs ++ [bsl])) := by
      unfold escapeWord
      rw [hd, hx, ← List.cons_append, cellsBytes_append]
      rfl
    have hmem : (92 : UInt8) ∈ escapeWord env w ++ [92] := by simp
    have hq : f ++ b ":" ++ escapeWord env w ++ b "\\" = f ++ 58 :: (escapeWord env w ++ [92]) := by
      rw [b_colon, hb92]; simp
    rw [hq, he, field_word_query env h58 f hne hasc hlet hkw x _ hD hxw hxs hl (by rw [← he]; exact keywordOf_bsl _ hmem) df,
      ← he]
    refine finalize_eq env df _ _ f w (parseLiteral_word f hne hasc) ?_
    have hwild : containsWild (escapeWord env w ++ [92]) = false := by
      have : containsWild (escapeWord env w ++ [92]) = containsWild (escapeWord env w) := by
        simp [containsWild]
      rw [this, escapeWord_wild]
      simp only [containsWild, List.any_eq_false, Bool.or_eq_true, beq_iff_eq, not_or]
      exact hb
    rw [parseLiteral_plain _ (numericLooking_bsl _ hmem) hwild, unescape_escapeWord_append env h92 w [92],
      unescape_bsl_single, List.append_nil]

/-! ### ASCII texts: what `escapeWord` is, concretely -/

theorem decode_asciiBytes (l : Bytes) (h : ∀ c ∈ l, c < 0x80) : decode l = l.map asciiCell := by
  have := decode_ascii_prefix l [] h
  rwa [List.append_nil, decode_nil, List.append_nil] at this

theorem escapeWord_ascii (env : Env) (w : Bytes) (h : ∀ c ∈ w, c < 0x80) :
    escapeWord env w = cellsBytes (escCells env.cls (forceFirst w) (w.map asciiCell)) := by
  unfold escapeWord; rw [decode_asciiBytes w h]

theorem Dec_asciiCells (l : Bytes) (h : ∀ c ∈ l, c < 0x80) : Dec (l.map asciiCell) := by
  unfold Dec; rw [cellsBytes_map_ascii, decode_asciiBytes l h]

end EscapedVerbatim
end GoLucene

/-! ## Instances, the recorded defects on their concrete inputs, and necessity of the hypotheses -/
section Instances
open GoLucene GoLucene.QuotedVerbatim GoLucene.EscapedVerbatim

/-- a small concrete class table: ASCII letters, `é` (U+00E9) and ASCII digits -/
def asciiCls : Cls := ⟨fun r => (65 ≤ r && r ≤ 90) || (97 ≤ r && r ≤ 122) || r == 233, fun r => 48 ≤ r && r ≤ 57⟩
def asciiEnv : Env := ⟨asciiCls, fun _ => true⟩

theorem asciiCls_escHyp : asciiCls.escHyp := by
  refine ⟨by decide, by decide, ?_⟩
  intro r h
  simp only [isWs, Bool.or_eq_true, decide_eq_true_eq] at h
  rcases h with ((rfl | rfl) | rfl) | rfl <;> decide

-- non-vacuity of `escapable`: hostile texts satisfy it
example (env : Env) : escapable env (b "a AND (b OR NOT c) /x/ [1 TO 2] ~3 ^4 \"q\" '; DROP TABLE t; --") = true := by esc_decide
example (env : Env) : escapable env (b "AND") = true := by esc_decide
example (env : Env) : escapable env (b "-x") = true := by esc_decide
example (env : Env) : escapable env (b "inf") = true := by esc_decide          -- non-finite floats are not numbers
example (env : Env) : escapable env [0xFF, 0x00, 0xC3] = true := by esc_decide  -- invalid UTF-8 and NUL are fine for the tree
-- backslashes in the text are fine since fix F13 (Windows paths, regex-looking text, a lone backslash, doubled ones)
example (env : Env) : escapable env (b "C:\\dir") = true := by esc_decide
example (env : Env) : escapable env (b "\\") = true := by esc_decide
example (env : Env) : escapable env (b "a\\\\b\\") = true := by esc_decide
example (env : Env) : escapable env (b "\\d+(\\.\\d+)") = true := by esc_decide
-- `*` and `?` stay excluded (K-escape-wild)
example (env : Env) : escapable env (b "a*") = false := by esc_decide
example (env : Env) : escapable env (b "a?") = false := by esc_decide
example (env : Env) : escapable env (b "15") = false := by esc_decide
example (env : Env) : escapable env (b "1e5") = false := by esc_decide

-- what escapeWord writes, for the concrete table
example : escapeWord asciiEnv (b "a b") = b "a\\ b" := by
  rw [escapeWord_ascii _ _ (by decide)]; decide
example : escapeWord asciiEnv (b "foo:bar(baz) \"q\" 'r' /s/") = b "foo\\:bar\\(baz\\)\\ \\\"q\\\"\\ \\'r\\'\\ \\/s\\/" := by
  rw [escapeWord_ascii _ _ (by decide)]; decide
example : escapeWord asciiEnv (b "AND") = b "\\AND" := by
  rw [escapeWord_ascii _ _ (by decide)]; decide
example : escapeWord asciiEnv (b "to") = b "\\to" := by
  rw [escapeWord_ascii _ _ (by decide)]; decide
example : escapeWord asciiEnv (b "-x") = b "\\-x" := by
  rw [escapeWord_ascii _ _ (by decide)]; decide
example : escapeWord asciiEnv (b "1.5") = b "1\\.5" := by
  rw [escapeWord_ascii _ _ (by decide)]; decide
-- a backslash in the text is written as two
example : escapeWord asciiEnv (b "C:\\dir") = b "C\\:\\\\dir" := by
  rw [escapeWord_ascii _ _ (by decide)]; decide
example : unescape (b "C\\:\\\\dir") = b "C:\\dir" := by decide
example : unescape (escapeWord asciiEnv (b "C:\\dir")) = b "C:\\dir" := unescape_escapeWord asciiEnv (by decide) _
-- … and `unescape` on texts that `escapeWord` never writes: a lone backslash at the end is dropped, `\x` is `x`
example : unescape (b "ab\\") = b "ab" := by decide
example : unescape (b "\\a\\b") = b "ab" := by decide
example : unescape (b "a\\\\\\") = b "a\\" := by decide
-- a non-ASCII letter needs no backslash; a non-ASCII non-letter (U+20AC) gets one
example : escapeWord asciiEnv [0x63, 0x61, 0x66, 0xC3, 0xA9] = [0x63, 0x61, 0x66, 0xC3, 0xA9] := by
  have h1 : decode1 0xC3 [0xA9] = (233, 2) := by decide
  unfold escapeWord
  rw [decode_ascii _ (by decide), decode_ascii _ (by decide), decode_ascii _ (by decide), decode_cons, h1]
  simp only [Nat.add_one_sub_one, List.drop_succ_cons, List.drop_zero, decode_nil]
  decide
example : escapeWord asciiEnv [0xE2, 0x82, 0xAC] = [92, 0xE2, 0x82, 0xAC] := by
  have h1 : decode1 0xE2 [0x82, 0xAC] = (8364, 3) := by decide
  unfold escapeWord
  rw [decode_cons, h1]
  simp only [Nat.add_one_sub_one, List.drop_succ_cons, List.drop_zero, decode_nil]
  decide

/-- `title:` ++ escapeWord of a hostile text, for any class table satisfying the hypotheses -/
example (env : Env) (hk : env.cls.escHyp) (hl : ∀ c ∈ b "title", env.cls.isLetter c.toNat = true) :
    parseQuery env (b "title:" ++ escapeWord env (b "a AND (b OR NOT c) /x/ [1 TO 2] ~3 ^4 \"q\" '; DROP TABLE t; --")) [] =
      .ok (tree (b "title") (b "a AND (b OR NOT c) /x/ [1 TO 2] ~3 ^4 \"q\" '; DROP TABLE t; --")) := by
  have := escaped_tree env hk (b "title") (by decide) (by decide) hl (by decide)
    (b "a AND (b OR NOT c) /x/ [1 TO 2] ~3 ^4 \"q\" '; DROP TABLE t; --") (by esc_decide) []
  have e : b "title:" = b "title" ++ b ":" := by decide
  rw [e]; exact this

-- keywords as values
example (env : Env) (hk : env.cls.escHyp) (hl : ∀ c ∈ b "t", env.cls.isLetter c.toNat = true) :
    parseQuery env (b "t" ++ b ":" ++ escapeWord env (b "AND")) [] = .ok (tree (b "t") (b "AND")) :=
  escaped_tree env hk (b "t") (by decide) (by decide) hl (by decide) _ (by esc_decide) []
-- text that is numeric once unescaped but is written with an escape: a string
example (env : Env) (hk : env.cls.escHyp) (hl : ∀ c ∈ b "t", env.cls.isLetter c.toNat = true) :
    parseQuery env (b "t" ++ b ":" ++ escapeWord env (b "x-1.5")) [] = .ok (tree (b "t") (b "x-1.5")) :=
  escaped_tree env hk (b "t") (by decide) (by decide) hl (by decide) _ (by esc_decide) []
-- a text with backslashes (fix F13): any class table satisfying the hypotheses
example (env : Env) (hk : env.cls.escHyp) (hl : ∀ c ∈ b "path", env.cls.isLetter c.toNat = true) :
    parseQuery env (b "path" ++ b ":" ++ escapeWord env (b "C:\\dir\\sub dir\\")) [] =
      .ok (tree (b "path") (b "C:\\dir\\sub dir\\")) :=
  escaped_tree env hk (b "path") (by decide) (by decide) hl (by decide) _ (by esc_decide) []
-- invalid UTF-8 and NUL: the tree is still exact (only the inline SQL text needs valid UTF-8 without NUL)
example (env : Env) (hk : env.cls.escHyp) (hl : ∀ c ∈ b "t", env.cls.isLetter c.toNat = true) :
    parseQuery env (b "t" ++ b ":" ++ escapeWord env [0xFF, 0x00, 0xC3]) [] = .ok (tree (b "t") [0xFF, 0x00, 0xC3]) :=
  escaped_tree env hk (b "t") (by decide) (by decide) hl (by decide) _ (by esc_decide) []

end Instances

namespace GoLucene
namespace EscapedVerbatim
open QuotedVerbatim

/-! ## The recorded defects on their concrete inputs -/

theorem alnum_of_letter (k : Cls) (c : UInt8) (h : k.isLetter c.toNat = true) : k.isAlnum c.toNat = true := by
  simp [Cls.isAlnum, h]

/-- **K-escape-wild**: `a:b\*` — the escaped `*` still makes the word a wildcard pattern, backslash kept.
    The clause says: the string `b*`. -/
theorem K_escape_wild (env : Env) (hk : env.cls.escHyp) (hl : ∀ c ∈ b "ab", env.cls.isLetter c.toNat = true) :
    parseQuery env (b "a:b\\*") [] = .ok (likeTree (b "a") (b "b\\*")) ∧
    parseQuery env (b "a:b\\*") [] ≠ .ok (tree (b "a") (b "b*")) := by
  obtain ⟨h58, h92, _⟩ := hk
  have a98 : env.cls.isAlnum 98 = true := alnum_of_letter _ 98 (hl 98 (by decide))
  have hq : parseQuery env (b "a:b\\*") [] = .ok (likeTree (b "a") (b "b\\*")) := by
    have e : b "a:b\\*" = b "a" ++ 58 :: cellsBytes (asciiCell 98 :: [asciiCell 92, asciiCell 42]) := by decide
    rw [e, field_word_query env h58 (b "a") (by decide) (by decide) (fun c hc => hl c ((by decide : ∀ c ∈ b "a", c ∈ b "ab") c hc)) (by decide)
      (asciiCell 98) [asciiCell 92, asciiCell 42] (Dec_asciiCells [98, 92, 42] (by decide)) (by decide) (by simp [asciiCell, a98])
      (by simp [lexWord, asciiCell, a98, h92, isWild, isEsc]) (by decide) []]
    exact finalize_like env [] _ _ (b "a") _ (parseLiteral_word _ (by decide) (by decide))
      (parseLiteral_wild _ (by decide) (by decide))
  refine ⟨hq, ?_⟩
  rw [hq]
  intro e
  exact likeTree_ne_tree _ _ _ (Out.ok.inj e)

/-- **the escaped backslash is kept (fix F13)**: `a:a\\b` — the value is `a\b`.  Before the fix every backslash byte
    was removed and the value was `ab` (finding K-escape-backslash, now closed). -/
theorem escaped_backslash_kept (env : Env) (hk : env.cls.escHyp) (hl : ∀ c ∈ b "ab", env.cls.isLetter c.toNat = true) :
    parseQuery env (b "a:a\\\\b") [] = .ok (tree (b "a") (b "a\\b")) ∧
    parseQuery env (b "a:a\\\\b") [] ≠ .ok (tree (b "a") (b "ab")) := by
  obtain ⟨h58, h92, _⟩ := hk
  have a97 : env.cls.isAlnum 97 = true := alnum_of_letter _ 97 (hl 97 (by decide))
  have a98 : env.cls.isAlnum 98 = true := alnum_of_letter _ 98 (hl 98 (by decide))
  have hq : parseQuery env (b "a:a\\\\b") [] = .ok (tree (b "a") (b "a\\b")) := by
    have e : b "a:a\\\\b" = b "a" ++ 58 :: cellsBytes (asciiCell 97 :: [asciiCell 92, asciiCell 92, asciiCell 98]) := by
      decide
    rw [e, field_word_query env h58 (b "a") (by decide) (by decide) (fun c hc => hl c ((by decide : ∀ c ∈ b "a", c ∈ b "ab") c hc)) (by decide)
      (asciiCell 97) [asciiCell 92, asciiCell 92, asciiCell 98] (Dec_asciiCells [97, 92, 92, 98] (by decide)) (by decide) (by simp [asciiCell, a97])
      (by simp [lexWord, asciiCell, a97, a98, h92, isWild, isEsc]) (by decide) []]
    refine finalize_eq env [] _ _ (b "a") _ (parseLiteral_word _ (by decide) (by decide)) ?_
    rw [parseLiteral_plain _ (by decide) (by decide)]
    congr 3
  refine ⟨hq, ?_⟩
  rw [hq]
  intro e
  have := tree_inj _ _ _ (Out.ok.inj e)
  revert this; decide

/-- the same through the general theorem: `a\b` is the text, `escapeWord` spells it `a\\b` -/
theorem escaped_backslash_kept' (env : Env) (hk : env.cls.escHyp) (hl : ∀ c ∈ b "ab", env.cls.isLetter c.toNat = true) :
    escapeWord env (b "a\\b") = b "a\\\\b" ∧
    parseQuery env (b "a" ++ b ":" ++ escapeWord env (b "a\\b")) [] = .ok (tree (b "a") (b "a\\b")) := by
  have a97 : env.cls.isAlnum 97 = true := alnum_of_letter _ 97 (hl 97 (by decide))
  have a98 : env.cls.isAlnum 98 = true := alnum_of_letter _ 98 (hl 98 (by decide))
  refine ⟨?_, escaped_backslash_tree env hk (b "a") (by decide) (by decide)
    (fun c hc => hl c ((by decide : ∀ c ∈ b "a", c ∈ b "ab") c hc)) (by decide) _ (by decide) (by decide) []⟩
  rw [escapeWord_ascii _ _ (by decide)]
  have e : (b "a\\b").map asciiCell = [asciiCell 97, asciiCell 92, asciiCell 98] := by decide
  have f0 : forceFirst (b "a\\b") = false := by decide
  rw [e, f0]
  simp [escCells, asciiCell, a97, a98, hk.2.1, cellsBytes, bsl]
  decide

/-- **K-dangling-escape**: `a:b\` (a lone backslash at the end of the input) — accepted, and the backslash is
    dropped: the same tree as `a:b`. -/
theorem K_dangling_escape (env : Env) (hk : env.cls.escHyp) (hl : ∀ c ∈ b "ab", env.cls.isLetter c.toNat = true) :
    parseQuery env (b "a:b\\") [] = .ok (tree (b "a") (b "b")) ∧
    parseQuery env (b "a:b\\") [] ≠ .ok (tree (b "a") (b "b\\")) := by
  obtain ⟨h58, h92, _⟩ := hk
  have a98 : env.cls.isAlnum 98 = true := alnum_of_letter _ 98 (hl 98 (by decide))
  have hq : parseQuery env (b "a:b\\") [] = .ok (tree (b "a") (b "b")) := by
    have e : b "a:b\\" = b "a" ++ 58 :: cellsBytes (asciiCell 98 :: [asciiCell 92]) := by decide
    rw [e, field_word_query env h58 (b "a") (by decide) (by decide) (fun c hc => hl c ((by decide : ∀ c ∈ b "a", c ∈ b "ab") c hc)) (by decide)
      (asciiCell 98) [asciiCell 92] (Dec_asciiCells [98, 92] (by decide)) (by decide) (by simp [asciiCell, a98])
      (by simp [lexWord, asciiCell, a98, h92, isWild, isEsc]) (by decide) []]
    refine finalize_eq env [] _ _ (b "a") _ (parseLiteral_word _ (by decide) (by decide)) ?_
    rw [parseLiteral_plain _ (by decide) (by decide)]
    congr 3
  refine ⟨hq, ?_⟩
  rw [hq]
  intro e
  have := tree_inj _ _ _ (Out.ok.inj e)
  revert this; decide

end EscapedVerbatim
end GoLucene

/-! ## Necessity of the side conditions and of the class-table hypotheses -/
namespace GoLucene
namespace EscapedVerbatim
open QuotedVerbatim

/-- `w` non-empty: `f:` alone is a syntax error (and `escapeWord env [] = []`) -/
theorem escapeWord_nil (env : Env) : escapeWord env [] = [] := by
  unfold escapeWord; rw [decode_nil]; rfl

theorem empty_word_err (env : Env) (hk : env.cls.escHyp) (f : Bytes) (hne : f ≠ [])
    (hasc : ∀ c ∈ f, isAsciiLetter c = true) (hlet : ∀ c ∈ f, env.cls.isLetter c.toNat = true)
    (hkw : keywordOf f = none) (df : Bytes) :
    parseQuery env (f ++ b ":" ++ escapeWord env []) df = .err := by
  obtain ⟨h58, _, _⟩ := hk
  have hlt : ∀ c ∈ f, c < 0x80 := fun c hc => asciiLetter_lt c (hasc c hc)
  have htoks : tokensOf env (f ++ b ":" ++ escapeWord env []) = [⟨.literal, f⟩, ⟨.colon, [58]⟩] := by
    unfold tokensOf
    rw [escapeWord_nil, List.append_nil, b_colon, decode_ascii_prefix f _ hlt, decode_ascii 58 (by decide), decode_nil]
    cases f with
    | nil => exact absurd rfl hne
    | cons c f =>
      have hx : ∀ y ∈ (c :: f).map asciiCell, env.cls.isAlnum y.r = true := by
        intro y hy
        obtain ⟨z, hz, rfl⟩ := List.mem_map.mp hy
        simp [Cls.isAlnum, asciiCell, hlet z hz]
      have hws' : isWs (asciiCell c).r = false := by
        have := asciiLetter_range c (hasc c (by simp))
        exact isWs_ge _ (by show 33 ≤ c.toNat; omega)
      have hn := next_word env.cls (asciiCell c) (f.map asciiCell) (asciiCell 58) [] hx hws'
        h58 (by decide) (by decide) (by decide) (by decide)
      rw [← List.map_cons, cellsBytes_map_ascii, hkw] at hn
      rw [lexAll_tok _ _ _ _ _ _ hn, lexAll_tok _ _ _ _ _ _ (next_colon env.cls h58 _),
        lexAll_eof _ [] [] (next_nil env.cls)]
      rfl
  unfold parseQuery parseTokens
  rw [htoks]
  have : parseToks (isNumOf env df) [⟨.literal, f⟩, ⟨.colon, [58]⟩] = .err := by
    unfold parseToks
    rw [step_leaf _ _ ⟨.literal, f⟩ _ (Or.inl rfl) rfl]
    rw [step_shift_op _ _ ⟨.colon, [58]⟩ _ (by decide) (by decide) rfl]
    rw [step_reduce _ _ [] (by simp) rfl]
    simp [reduce, reduceLoop, tryReduce]
  rw [this]

/-- the integer leaf tree `f = i` -/
def intTree (f : Bytes) (i : Int) : Expr :=
  Expr.mk (.expr (lit (.prim (.col f)))) .equals (.expr (lit (.prim (.int i)))) F64.one 1

theorem finalize_eq_int (env : Env) (df : Bytes) (tf tv : Tok) (f : Bytes) (i : Int)
    (hf : parseLiteral tf = lit (.prim (.str f))) (hv : parseLiteral tv = lit (.prim (.int i))) :
    finalize env df (.eq (.leaf tf) (.leaf tv)) = .ok (intTree f i) := by
  have hsem : sem env df (.eq (.leaf tf) (.leaf tv)) = .ok (intTree f i) := by
    simp only [sem, hf, hv]
    simp [bind, Out.bind, chainedOrLiterals, lit, mkLeaf, mkExpr_equals, fieldE, operatesOnColumn, intTree, Expr.op]
  unfold finalize
  rw [hsem]
  have hop : (intTree f i).op = .equals := rfl
  have hv : validateExpr (intTree f i) = true := by
    simp [intTree, validateExpr, validateNode, validateOp, lit, mkLeaf, isLiteralExpr, Node.isLiteral, Prim.isLiteral,
      Node.isNil, Expr.left, Expr.right, Expr.op]
  simp [bind, Out.bind, hop, hv]

/-- `w` not numeric-looking: the text `15` needs no backslash (digits are word characters), and `a:15` is the
    INTEGER 15, not the string "15" -/
theorem numeric_is_number (env : Env) (hk : env.cls.escHyp) (hl : env.cls.isLetter 97 = true)
    (hd : env.cls.isDigit 49 = true ∧ env.cls.isDigit 53 = true) :
    escapeWord env (b "15") = b "15" ∧
    parseQuery env (b "a" ++ b ":" ++ escapeWord env (b "15")) [] = .ok (intTree (b "a") 15) ∧
    parseQuery env (b "a" ++ b ":" ++ escapeWord env (b "15")) [] ≠ .ok (tree (b "a") (b "15")) := by
  obtain ⟨h58, h92, _⟩ := hk
  have a49 : env.cls.isAlnum 49 = true := by simp [Cls.isAlnum, hd.1]
  have a53 : env.cls.isAlnum 53 = true := by simp [Cls.isAlnum, hd.2]
  have he : escapeWord env (b "15") = b "15" := by
    rw [escapeWord_ascii _ _ (by decide)]
    have e : (b "15").map asciiCell = [asciiCell 49, asciiCell 53] := by decide
    have f0 : forceFirst (b "15") = false := by decide
    rw [e, f0]
    simp [escCells, asciiCell, a49, a53, cellsBytes]
    decide
  have hq : parseQuery env (b "a" ++ b ":" ++ escapeWord env (b "15")) [] = .ok (intTree (b "a") 15) := by
    have e : b "a" ++ b ":" ++ b "15" = b "a" ++ 58 :: cellsBytes (asciiCell 49 :: [asciiCell 53]) := by decide
    rw [he, e, field_word_query env h58 (b "a") (by decide) (by decide)
      (fun c hc => by have : c = 97 := by simpa [b] using hc
                      subst this; exact hl) (by decide)
      (asciiCell 49) [asciiCell 53] (Dec_asciiCells [49, 53] (by decide)) (by decide) (by simp [asciiCell, a49])
      (by simp [lexWord, asciiCell, a49, a53]) (by decide) []]
    exact finalize_eq_int env [] _ _ (b "a") 15 (parseLiteral_word _ (by decide) (by decide)) (by rfl)
  refine ⟨he, hq, ?_⟩
  rw [hq]
  intro e
  have := Out.ok.inj e
  simp [intTree, tree, lit, mkLeaf] at this

end EscapedVerbatim
end GoLucene

/-! ## The exact domain of the clause, and the Bool-valued form of the hypotheses -/
namespace GoLucene
namespace EscapedVerbatim
open QuotedVerbatim

/-- the tree `f = p` for a raw value `p` -/
def valTree (f : Bytes) (p : Prim) : Expr :=
  Expr.mk (.expr (lit (.prim (.col f)))) .equals (.expr (lit (.prim p))) F64.one 1

theorem tree_eq_valTree (f w : Bytes) : tree f w = valTree f (.str w) := rfl

theorem finalize_eq_prim (env : Env) (df : Bytes) (tf tv : Tok) (f : Bytes) (p : Prim) (hp : p.isLiteral = true)
    (hf : parseLiteral tf = lit (.prim (.str f))) (hv : parseLiteral tv = lit (.prim p)) :
    finalize env df (.eq (.leaf tf) (.leaf tv)) = .ok (valTree f p) := by
  have hsem : sem env df (.eq (.leaf tf) (.leaf tv)) = .ok (valTree f p) := by
    simp only [sem, hf, hv]
    simp [bind, Out.bind, chainedOrLiterals, lit, mkLeaf, mkExpr_equals, fieldE, operatesOnColumn, valTree, Expr.op]
  unfold finalize
  rw [hsem]
  have hop : (valTree f p).op = .equals := rfl
  have hv : validateExpr (valTree f p) = true := by
    cases p <;> first
      | (simp [valTree, validateExpr, validateNode, validateOp, lit, mkLeaf, isLiteralExpr, Node.isLiteral,
          Prim.isLiteral, Node.isNil, Expr.left, Expr.right, Expr.op]; done)
      | exact absurd hp (by decide)
  simp [bind, Out.bind, hop, hv]

/-- a numeric-looking word token is an int or a float leaf -/
theorem parseLiteral_number (v : Bytes) (hnum : numericLooking v = true) :
    ∃ p, parseLiteral ⟨.literal, v⟩ = lit (.prim p) ∧ p.isLiteral = true ∧ ∀ s, p ≠ .str s := by
  unfold parseLiteral
  cases ha : atoi v with
  | some i => exact ⟨.int i, by simp, rfl, by simp⟩
  | none =>
    simp only [numericLooking, ha, Option.isSome_none, Bool.false_or] at hnum
    cases hp : parseFloat v with
    | none => rw [hp] at hnum; cases hnum
    | some x =>
      rw [hp] at hnum
      have hx : (x.isInf || x.isNaN) = false := by
        cases h1 : (x.isInf || x.isNaN)
        · rfl
        · simp only [h1] at hnum; cases hnum
      refine ⟨.flt x, ?_, rfl, by simp⟩
      simp only [hx]
      simp

/-- the side condition in its weakest form: the test for numbers is made on the ESCAPED text (that is the text the
    parser sees), so `1.5`, `-5`, `+7` — numeric as they stand, but written `1\.5`, `\-5`, `\+7` — are fine -/
def escapableX (env : Env) (w : Bytes) : Bool :=
  !w.isEmpty && !w.any (fun c => c == 42 || c == 63) && !numericLooking (escapeWord env w)

theorem escapableX_iff (env : Env) (w : Bytes) : escapableX env w = true ↔
    w ≠ [] ∧ (∀ c ∈ w, c ≠ 42 ∧ c ≠ 63) ∧ numericLooking (escapeWord env w) = false := by
  unfold escapableX
  simp only [Bool.and_eq_true, Bool.not_eq_true', List.isEmpty_eq_false_iff, List.any_eq_false, Bool.or_eq_true,
    beq_iff_eq, not_or, and_assoc]

theorem escapable_escapableX (env : Env) (w : Bytes) (h : escapable env w = true) : escapableX env w = true := by
  obtain ⟨h1, h2, h3⟩ := (escapable_iff env w).mp h
  exact (escapableX_iff env w).mpr ⟨h1, h2, escapeWord_numeric env w h3⟩

/-- **The clause holds EXACTLY on `escapableX`.**  For the query `f:` ++ escapeWord w (any text `w` at all, any
    default field): the result is the plain string value `w` if and only if `w` is non-empty, has none of the bytes
    `*`, `?` (K-escape-wild), and its escaped spelling is not numeric-looking.  Every condition is necessary.
    (Since fix F13 a backslash in `w` is no obstacle.) -/
theorem escaped_tree_iff (env : Env) (hk : env.cls.escHyp) (f : Bytes) (hne : f ≠ [])
    (hasc : ∀ c ∈ f, isAsciiLetter c = true) (hlet : ∀ c ∈ f, env.cls.isLetter c.toNat = true)
    (hkw : keywordOf f = none) (w : Bytes) (df : Bytes) :
    parseQuery env (f ++ b ":" ++ escapeWord env w) df = .ok (tree f w) ↔ escapableX env w = true := by
  rw [escapableX_iff]
  by_cases hwne : w = []
  · subst hwne
    rw [empty_word_err env hk f hne hasc hlet hkw df]
    simp
  · cases hnum : numericLooking (escapeWord env w) with
    | true =>
      -- a number leaf
      obtain ⟨p, hp, hlit, hns⟩ := parseLiteral_number _ hnum
      have hq : parseQuery env (f ++ b ":" ++ escapeWord env w) df = .ok (valTree f p) := by
        unfold parseQuery parseTokens
        rw [b_colon, List.append_assoc, List.singleton_append,
          tokensOf_field_escaped env hk f hne hasc hlet hkw w hwne, parse_field_colon_value _ _ _ rfl rfl]
        exact finalize_eq_prim env df _ _ f p hlit (parseLiteral_word f hne hasc) hp
      rw [hq]
      constructor
      · intro e
        have := Out.ok.inj e
        simp only [valTree, tree, lit, mkLeaf, Expr.mk.injEq, Node.expr.injEq, Node.prim.injEq, true_and, and_true] at this
        exact absurd this (hns w)
      · intro h; cases h.2.2
    | false =>
      cases hwild : containsWild w with
      | true =>
        rw [escaped_wild_tree env hk f hne hasc hlet hkw w hwne hwild hnum df]
        constructor
        · intro e; exact absurd (Out.ok.inj e) (likeTree_ne_tree _ _ _)
        · intro h
          exfalso
          simp only [containsWild, List.any_eq_true, Bool.or_eq_true, beq_iff_eq] at hwild
          obtain ⟨c, hc, h1⟩ := hwild
          rcases h1 with h1 | h1
          · exact (h.2.1 c hc).1 h1
          · exact (h.2.1 c hc).2 h1
      | false =>
        rw [escaped_plain_tree env hk f hne hasc hlet hkw w hwne hwild hnum df]
        have hw' : ∀ c ∈ w, c ≠ 42 ∧ c ≠ 63 := by
          simp only [containsWild, List.any_eq_false, Bool.or_eq_true, beq_iff_eq, not_or] at hwild
          exact hwild
        exact ⟨fun _ => ⟨hwne, hw', rfl⟩, fun _ => rfl⟩

/-- (T) on the weakest side condition -/
theorem escaped_treeX (env : Env) (hk : env.cls.escHyp) (f : Bytes) (hne : f ≠ [])
    (hasc : ∀ c ∈ f, isAsciiLetter c = true) (hlet : ∀ c ∈ f, env.cls.isLetter c.toNat = true)
    (hkw : keywordOf f = none) (w : Bytes) (hw : escapableX env w = true) (df : Bytes) :
    parseQuery env (f ++ b ":" ++ escapeWord env w) df = .ok (tree f w) :=
  (escaped_tree_iff env hk f hne hasc hlet hkw w df).mpr hw

/-! ### the hypotheses as Bool-valued predicates -/

/-- `Cls.escHyp` as a finite check on the class table -/
def escHypB (k : Cls) : Bool :=
  !k.isAlnum 58 && !k.isAlnum 92 && !k.isAlnum 32 && !k.isAlnum 9 && !k.isAlnum 13 && !k.isAlnum 10

theorem escHyp_of_B (k : Cls) (h : escHypB k = true) : k.escHyp := by
  simp only [escHypB, Bool.and_eq_true, Bool.not_eq_true'] at h
  obtain ⟨⟨⟨⟨⟨h58, h92⟩, h32⟩, h9⟩, h13⟩, h10⟩ := h
  refine ⟨h58, h92, ?_⟩
  intro r hr
  simp only [isWs, Bool.or_eq_true, decide_eq_true_eq] at hr
  rcases hr with ((rfl | rfl) | rfl) | rfl
  · simpa [Cls.isAlnum] using h32
  · simpa [Cls.isAlnum] using h9
  · simpa [Cls.isAlnum] using h13
  · simpa [Cls.isAlnum] using h10

/-- a plain field name: a non-empty word of ASCII letters that the class table knows as letters, not a keyword -/
def plainField (env : Env) (f : Bytes) : Bool :=
  !f.isEmpty && f.all isAsciiLetter && f.all (fun c => env.cls.isLetter c.toNat) && (keywordOf f).isNone

theorem plainField_iff (env : Env) (f : Bytes) : plainField env f = true ↔
    f ≠ [] ∧ (∀ c ∈ f, isAsciiLetter c = true) ∧ (∀ c ∈ f, env.cls.isLetter c.toNat = true) ∧ keywordOf f = none := by
  unfold plainField
  simp only [Bool.and_eq_true, Bool.not_eq_true', List.isEmpty_eq_false_iff, List.all_eq_true, Option.isNone_iff_eq_none,
    and_assoc]

/-- **C08, escaping clause — the headline statement**, every hypothesis a Bool-valued predicate:
    tree, inline SQL constant, parameter list. -/
theorem escaped_verbatim_main (env : Env) (hk : escHypB env.cls = true) (f : Bytes) (hf : plainField env f = true)
    (w : Bytes) (hw : escapable env w = true) :
    parseQuery env (f ++ b ":" ++ escapeWord env w) [] =
        .ok (Expr.mk (.expr (lit (.prim (.col f)))) .equals (.expr (lit (.prim (.str w)))) F64.one 1) ∧
    (validUtf8 w = true → (∀ c ∈ w, c ≠ 0) →
      render pgFns (tree f w) = fnInfix " = " ([34] ++ f ++ [34]) (sqlQuote w) ∧
      ∃ t, render pgFns (tree f w) = .ok t ∧ Sql.parseSql t = some (.cmp .eq (.col f) (.str w))) ∧
    renderParam pgFns (tree f w) = .ok ([34] ++ f ++ [34] ++ b " = ?", [.str w]) := by
  obtain ⟨hne, hasc, hlet, hkw⟩ := (plainField_iff env f).mp hf
  have hc := colOk_letters f hne hasc
  exact ⟨escaped_tree env (escHyp_of_B _ hk) f hne hasc hlet hkw w hw [],
    fun hu h0 => ⟨render_tree f w hc hu h0, quoted_sql f w hc hu h0⟩, quoted_params f w hc⟩

end EscapedVerbatim
end GoLucene

section Necessity
open GoLucene GoLucene.QuotedVerbatim GoLucene.EscapedVerbatim

/-- a class table in which the backslash is a letter -/
def kBslLetter : Cls := ⟨fun r => r == 92 || (97 ≤ r && r ≤ 122), fun _ => false⟩
/-- a class table in which the space is a letter -/
def kSpaceLetter : Cls := ⟨fun r => r == 32 || (97 ≤ r && r ≤ 122), fun _ => false⟩

-- `escHyp`, backslash: if `\` were a letter it would be an ordinary word character (the lexer asks "word character?"
-- before "escape?"), the next rune would not be swallowed: `\(` is the word `\` followed by a parenthesis
example : next kBslLetter [asciiCell 92, asciiCell 40] =
    .tok ⟨.literal, [92]⟩ [] [asciiCell 92] [asciiCell 40] := by
  simp [next, dropWs, isWs, isWild, isEsc, lexWord, kBslLetter, Cls.isAlnum, asciiCell, cellsBytes, keywordOf, upperAscii]
-- … and `unescape (escapeWord w) = w` would be false: the backslash of `a\b` would not be doubled, and be lost
theorem unescape_needs_h92 :
    escapeWord ⟨kBslLetter, fun _ => true⟩ (b "a\\b") = b "a\\b" ∧
    unescape (escapeWord ⟨kBslLetter, fun _ => true⟩ (b "a\\b")) = b "ab" := by
  have e : escapeWord ⟨kBslLetter, fun _ => true⟩ (b "a\\b") = b "a\\b" := by
    rw [escapeWord_ascii _ _ (by decide)]; decide
  rw [e]
  exact ⟨rfl, by decide⟩
-- `escHyp`, whitespace: if the space were a letter, `escapeWord` would not escape it, and a leading space would be
-- skipped by the lexer before the word starts: the text ` a` would denote `a`
example : escCells kSpaceLetter false [asciiCell 32, asciiCell 97] = [asciiCell 32, asciiCell 97] := by decide
example : next kSpaceLetter [asciiCell 32, asciiCell 97] =
    .tok ⟨.literal, [97]⟩ [asciiCell 32] [asciiCell 97] [] := by
  simp [next, dropWs, isWs, isWild, isEsc, lexWord, kSpaceLetter, Cls.isAlnum, asciiCell, cellsBytes, keywordOf, upperAscii]
-- `escHyp`, colon: see `kColonLetter` in QuotedVerbatim (`f:` would be one word)
-- the leading backslash on keywords: without it the same letters lex as an operator
example : keywordOf (b "AND") = some .tand := by decide
example : keywordOf (b "to") = some .tto := by decide
example : keywordOf (b "\\AND") = none := by decide
-- no `*`, `?` in `w`: `K_escape_wild` (general: `escaped_wild_wrong`; with a backslash in `w`: `escaped_backslash_iff`)
-- not numeric-looking: `numeric_is_number`;  non-empty: `empty_word_err`

end Necessity

section Instances2
open GoLucene GoLucene.QuotedVerbatim GoLucene.EscapedVerbatim

-- non-vacuity of the Bool-valued hypotheses
example : escHypB asciiEnv.cls = true := by decide
example : plainField asciiEnv (b "title") = true := by decide
example : plainField asciiEnv (b "and") = false := by decide
-- `escapableX` is strictly weaker than `escapable`: `1.5` is numeric as it stands, its spelling `1\.5` is not
example : escapable asciiEnv (b "1.5") = false := by esc_decide
example : escapableX asciiEnv (b "1.5") = true := by
  have e : escapeWord asciiEnv (b "1.5") = b "1\\.5" := by
    rw [escapeWord_ascii _ _ (by decide)]; decide
  unfold escapableX
  rw [e]
  decide
-- the headline statement on a concrete instance with backslashes inside `w` (fix F13): the Windows path `C:\dir`,
-- written `path:C\:\\dir`, is the string `C:\dir` in the tree, in the inline SQL constant and in the parameter list
example : escapeWord asciiEnv (b "C:\\dir") = b "C\\:\\\\dir" ∧
    parseQuery asciiEnv (b "path:C\\:\\\\dir") [] = .ok (tree (b "path") (b "C:\\dir")) ∧
    (∃ t, render pgFns (tree (b "path") (b "C:\\dir")) = .ok t ∧
      Sql.parseSql t = some (.cmp .eq (.col (b "path")) (.str (b "C:\\dir")))) ∧
    renderParam pgFns (tree (b "path") (b "C:\\dir")) = .ok (b "\"path\" = ?", [.str (b "C:\\dir")]) := by
  have e : escapeWord asciiEnv (b "C:\\dir") = b "C\\:\\\\dir" := by
    rw [escapeWord_ascii _ _ (by decide)]; decide
  have h := escaped_verbatim_main asciiEnv (by decide) (b "path") (by decide) (b "C:\\dir") (by esc_decide)
  rw [e] at h
  exact ⟨e, h.1, (h.2.1 (validUtf8_ascii _ (by decide)) (by decide)).2, h.2.2⟩
-- the headline statement on a concrete instance
example : parseQuery asciiEnv (b "title" ++ b ":" ++ escapeWord asciiEnv (b "it's (not) a \"test\": x/y")) [] =
    .ok (tree (b "title") (b "it's (not) a \"test\": x/y")) :=
  (escaped_verbatim_main asciiEnv (by decide) (b "title") (by decide) _ (by esc_decide)).1

end Instances2

section Axioms
open GoLucene.EscapedVerbatim
#print axioms decode_escapeWord
#print axioms parseFloat_bsl
#print axioms parseLiteral_escaped
#print axioms tokensOf_field_escaped
#print axioms escaped_tree
#print axioms escaped_verbatim
#print axioms escaped_default_tree
#print axioms escaped_verbatim_sql
#print axioms escaped_default_verbatim_sql
#print axioms escaped_wild_tree
#print axioms escaped_wild_wrong
#print axioms escaped_backslash_tree
#print axioms escaped_backslash_iff
#print axioms unescape_escapeWord
#print axioms unescape_escapeWord_append
#print axioms dangling_escape_tree
#print axioms K_escape_wild
#print axioms escaped_backslash_kept
#print axioms escaped_backslash_kept'
#print axioms K_dangling_escape
#print axioms empty_word_err
#print axioms numeric_is_number
#print axioms escaped_tree_iff
#print axioms escaped_treeX
#print axioms escaped_verbatim_main
end Axioms
