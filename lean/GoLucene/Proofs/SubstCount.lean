import GoLucene.Proofs.Subst
/-
  C04 — the placeholder-count clause by itself.

  `param_count`: on a well-formed validated tree, whenever ToParameterizedPostgres (`renderParam`) succeeds — the
  inline renderer is not consulted — the number of `?` bytes outside quoted identifiers equals the number of
  parameters, under ONE exclusion (`rangeFieldsOK`): no Range node with a numeric lower end and two bounded ends
  stands over a field that is not a column.  That form prints the field text twice (`f >= ? AND f <= ?`) and sends
  its parameter once; it is the only source of a count mismatch (`Subst.count_false_numeric_field`).
  `param_template` is the template form: sqlP = fillQ tm for a clean template with `ps.length` holes.
-/
set_option linter.unusedSimpArgs false
set_option linter.unusedVariables false

namespace GoLucene.Subst
open GoLucene.NoPanic GoLucene.ParamAgree GoLucene.SqlMeaning

/-- some clean template with `ps.length` holes prints as `sP` -/
def HasP (ps : List Prim) (sP : Bytes) : Prop := ∃ sI, HasT ps sP sI

theorem HasP.nil : HasP [] [] := ⟨_, HasR.nil⟩
theorem HasP.text (t : Bytes) (h : cleanFrom false t = true) : HasP [] t := ⟨_, HasR.text t h⟩
theorem HasP.hole (p : Prim) : HasP [p] [63] := ⟨_, HasT.hole p⟩
theorem HasP.append {p1 p2 : List Prim} {x1 x2 : Bytes} (h1 : HasP p1 x1) (h2 : HasP p2 x2) :
    HasP (p1 ++ p2) (x1 ++ x2) := by
  obtain ⟨y1, h1⟩ := h1
  obtain ⟨y2, h2⟩ := h2
  exact ⟨_, HasR.append h1 h2⟩
theorem HasP.pre (t : Bytes) (h : cleanFrom false t = true) {ps : List Prim} {x : Bytes} (h1 : HasP ps x) :
    HasP ps (t ++ x) := by
  simpa using (HasP.text t h).append h1
theorem HasP.post (t : Bytes) (h : cleanFrom false t = true) {ps : List Prim} {x : Bytes} (h1 : HasP ps x) :
    HasP ps (x ++ t) := by
  simpa using h1.append (HasP.text t h)
theorem HasP.holeQ (p : Prim) : HasP [p] (b "?") := by rw [bq]; exact HasP.hole p

theorem HasP.count {ps : List Prim} {x : Bytes} (h : HasP ps x) : countQ false x = ps.length := by
  obtain ⟨y, h⟩ := h
  exact (HasT.subst h).2

theorem HasP.template {ps : List Prim} {x : Bytes} (h : HasP ps x) :
    ∃ tm : Tmpl, cleanT tm = true ∧ x = fillQ tm ∧ holes tm = ps.length := by
  obtain ⟨y, h⟩ := h
  obtain ⟨tm, c, q, hh, _⟩ := HasT.template h
  exact ⟨tm, c, q, hh⟩

theorem HasP.nohole {x : Bytes} (h : HasP [] x) : cleanFrom false x = true := by
  obtain ⟨y, h⟩ := h
  exact (HasR.nohole h).2

/-! ### the pieces, parameter mode only -/

theorem prim_cnt (q : Prim) (sP : Bytes) (ps : List Prim)
    (h2 : serializeParams pgFns (.prim q) = .ok (sP, ps)) : HasP ps sP := by
  cases q
  case col v =>
    rw [sp_col] at h2
    cases hc : serializeCol v with
    | err => simp [hc] at h2
    | panic => simp [hc] at h2
    | ok s =>
      simp [hc] at h2
      obtain ⟨rfl, rfl⟩ := h2
      exact HasP.text _ (serializeCol_clean v _ hc)
  all_goals
    rw [sp_prim_val _ _ (by intro s h; cases h)] at h2
    simp at h2
    obtain ⟨rfl, rfl⟩ := h2
    exact HasP.holeQ _

theorem leafy_cnt (e : Expr) (h : leafy e = true) (sP : Bytes) (ps : List Prim)
    (h2 : renderParam pgFns e = .ok (sP, ps)) : HasP ps sP := by
  rcases renderParam_leafy_ok e h with h' | ⟨q, h'⟩
  · rw [h'] at h2
    simp at h2
    obtain ⟨rfl, rfl⟩ := h2
    exact HasP.nil
  · rw [h'] at h2
    simp at h2
    obtain ⟨rfl, rfl⟩ := h2
    exact HasP.holeQ q

theorem leaf_cnt (q : Prim) (o : Op) (p : F64) (d : Int) (hq : ∀ s, q ≠ .col s)
    (ho : o.isLeafOp = true) (hk : o = .literal ∨ ∃ s, q = .str s) (sP : Bytes) (ps : List Prim)
    (h2 : renderParam pgFns (.mk (.prim q) o .nil p d) = .ok (sP, ps)) : HasP ps sP := by
  rw [renderParam_leaf_ok q o p d hq ho hk] at h2
  simp at h2
  obtain ⟨rfl, rfl⟩ := h2
  exact HasP.holeQ q

/-- a leaf over a Column: a clean text, no parameter -/
theorem leafcol_cnt (v : Bytes) (o : Op) (p : F64) (d : Int) (ho : o.isLeafOp = true) (sP : Bytes) (ps : List Prim)
    (h2 : renderParam pgFns (.mk (.prim (.col v)) o .nil p d) = .ok (sP, ps)) :
    ps = [] ∧ cleanFrom false sP = true := by
  obtain ⟨sl, pl, sr, pr, fn, hl, hr, hfn, hf, rfl⟩ :=
    renderParam_inv _ _ _ _ _ (leafOp_ne_like o ho) (leafOp_ne_range o ho) _ _ h2
  rw [pgFns_leaf o ho] at hfn
  cases hfn
  rw [sp_nil] at hr
  rw [sp_col] at hl
  cases hc : serializeCol v with
  | err => simp [hc] at hl
  | panic => simp [hc] at hl
  | ok s =>
    simp [hc] at hl hr
    obtain ⟨rfl, rfl⟩ := hl
    obtain ⟨rfl, rfl⟩ := hr
    have hpl : (parenOps o && !isSimple (.prim (.col v))) = false := by simp [isSimple]
    simp only [hpl, Bool.false_eq_true, if_false] at hf
    refine ⟨rfl, ?_⟩
    rcases fnLiteral_cases s (if (parenOps o && !isSimple .nil) = true then parenB [] else []) with h' | h' <;>
      rw [h'] at hf <;> cases hf
    exact serializeCol_clean v _ hc

theorem list_cnt : ∀ es : ExprList, es.allLeafy = true → ∀ (ss' : List Bytes) (ps : List Prim),
    serializeParamsList pgFns es = .ok (ss', ps) →
    ss'.length = es.length ∧ HasP ps (joinWith (b ", ") ss')
  | .nil, _, ss', ps, h2 => by
    rw [spl_nil] at h2
    simp at h2
    obtain ⟨rfl, rfl⟩ := h2
    exact ⟨rfl, HasP.nil⟩
  | .cons e t, hl, ss', ps, h2 => by
    simp only [ExprList.allLeafy, Bool.and_eq_true] at hl
    rw [spl_cons] at h2
    cases he' : renderParam pgFns e with
    | err => simp [he'] at h2
    | panic => simp [he'] at h2
    | ok v =>
      obtain ⟨s', pe⟩ := v
      cases ht' : serializeParamsList pgFns t with
      | err => simp [he', ht'] at h2
      | panic => simp [he', ht'] at h2
      | ok w =>
        obtain ⟨st', pt⟩ := w
        simp only [he', ht', Out.ok.injEq, Prod.mk.injEq] at h2
        obtain ⟨rfl, rfl⟩ := h2
        have hE := leafy_cnt e hl.1 s' pe he'
        obtain ⟨l2, hT⟩ := list_cnt t hl.2 st' pt ht'
        refine ⟨by simp [ExprList.length, ExprList.toList] at l2 ⊢; exact l2, ?_⟩
        cases t with
        | nil =>
          rw [spl_nil] at ht'
          simp at ht'
          obtain ⟨rfl, rfl⟩ := ht'
          simpa [joinWith] using hE
        | cons e2 t2 =>
          cases st' with
          | nil => simp [ExprList.length, ExprList.toList] at l2
          | cons y' ys' =>
            rw [joinWith_cons2]
            simpa [List.append_assoc] using hE.append ((HasP.text _ clean_b_comma).append hT)

theorem end_cnt (a : Expr) (ha : leafy a = true) (pa : Bytes) (pra : List Prim)
    (h2 : endOut pgFns (.expr a) = .ok (pa, pra)) : HasP pra pa := by
  simp only [endOut] at h2
  split at h2
  · simp at h2
    obtain ⟨rfl, rfl⟩ := h2
    exact HasP.text _ clean_starQ
  · exact leafy_cnt a ha pa pra h2

theorem HasP.bracket (incl : Bool) {p1 p2 : List Prim} {x1 x2 : Bytes} (h1 : HasP p1 x1) (h2 : HasP p2 x2) :
    HasP (p1 ++ p2) (bracket incl x1 x2) := by
  obtain ⟨y1, h1⟩ := h1
  obtain ⟨y2, h2⟩ := h2
  exact ⟨_, HasR.bracket incl h1 h2⟩

theorem bound_cnt (a c : Expr) (incl : Bool) (ha : leafy a = true) (hc : leafy c = true)
    (sP : Bytes) (ps : List Prim)
    (h2 : serializeParams pgFns (.bound (.expr a) (.expr c) incl) = .ok (sP, ps)) : HasP ps sP := by
  rw [sp_bound'] at h2
  obtain ⟨pa, pra, pc, prc, ea, ec, rfl, rfl⟩ := boundOut_inv incl _ _ _ _ h2
  exact (end_cnt a ha pa pra ea).bracket incl (end_cnt c hc pc prc ec)

theorem fn_cnt (o : Op) (fn : RenderFn) (hfn : pgFns o = some fn) (hleaf : o.isLeafOp = false)
    (ho1 : o ≠ .like) (ho2 : o ≠ .range) (pl pr : List Prim) (xl xr sP : Bytes) (hl : HasP pl xl) (hr : HasP pr xr)
    (hun : (o = .not ∨ o = .mustNot ∨ o = .must ∨ o = .list) → pr = [])
    (hP : fn xl xr = .ok sP) : HasP (pl ++ pr) sP := by
  obtain ⟨yl, hl⟩ := hl
  obtain ⟨yr, hr⟩ := hr
  obtain ⟨sI, hI⟩ := pgFn_total o fn hfn ho2 hleaf yl yr
  exact ⟨sI, fn_inst o fn hfn hleaf ho1 ho2 pl pr xl yl xr yr sP sI hl hr hun hP hI⟩

theorem HasP.parenIf (c : Bool) {ps : List Prim} {x : Bytes} (h : HasP ps x) :
    HasP ps (if c = true then parenB x else x) := by
  obtain ⟨y, h⟩ := h
  exact ⟨_, HasR.parenIf c h⟩

/-! ### Range nodes, parameter mode only -/

/-- the field of the Range node is a column, or the node is not of the form `num … TO bounded` -/
def endsFieldOK (hf : Bool) (qa qc : Prim) : Bool :=
  hf || decide (qa = .str (b "*")) || decide (qc = .str (b "*")) || !isNum qa

theorem rangParam_other (left : Bytes) (incl : Bool) (pa pc : Bytes) (p : Prim) (rest : List Prim)
    (ha : isEndText pa) (hc : isEndText pc) (hq : (pa == b "?" || pc == b "?") = true) (hp : isNum p = false) :
    rangParam left (bracket incl pa pc) (p :: rest) = .ok (left ++ b " BETWEEN " ++ pa ++ b " AND " ++ pc) := by
  rw [rangParam_val _ _ _ _ _ ha hc]
  simp only [hq, if_true]
  cases p <;> simp [isNum] at hp <;> rfl

theorem endP_cnt (q : Prim) : HasP (endP q).2 (endP q).1 := ⟨_, endP_inst exact_lit q⟩

theorem range_cnt (hf : Bool) (qa qc : Prim) (hok : endsFieldOK hf qa qc = true) (incl : Bool) (pl : List Prim)
    (xl : Bytes) (hleft : HasP pl xl) (hpl : hf = true → pl = []) (sP : Bytes)
    (hP : rangParam xl (bracket incl (endP qa).1 (endP qc).1) ((endP qa).2 ++ (endP qc).2) = .ok sP) :
    HasP (pl ++ ((endP qa).2 ++ (endP qc).2)) sP := by
  have between : ∀ p rest, (endP qa).2 ++ (endP qc).2 = p :: rest → isNum p = false →
      ((endP qa).1 == b "?" || (endP qc).1 == b "?") = true → HasP (pl ++ ((endP qa).2 ++ (endP qc).2)) sP := by
    intro p rest hpr hp hq
    rw [hpr, rangParam_other _ _ _ _ _ _ (endP_isEndText qa) (endP_isEndText qc) hq hp] at hP
    simp only [Out.ok.injEq] at hP
    subst hP
    simpa [List.append_assoc] using
      hleft.append ((HasP.text _ clean_b_between).append ((endP_cnt qa).append
        ((HasP.text _ clean_b_and).append (endP_cnt qc))))
  by_cases hsa : qa = .str (b "*")
  · subst hsa
    by_cases hsc : qc = .str (b "*")
    · subst hsc
      rw [endP_star] at hP ⊢
      rw [rangParam_val _ _ _ _ _ (.inr rfl) (.inr rfl)] at hP
      simp only [starQ_ne_q, Bool.or_self, Bool.false_eq_true, if_false, Out.ok.injEq] at hP
      rw [rt_ints _ _ _ _ _ _ toInts_star_star] at hP
      simp only [rangeCmp, beq_self_eq_true, if_true] at hP
      subst hP
      simpa using (hleft.post _ (clean_op incl _ _ clean_b_le clean_b_lt)).post _ clean_zero
    · cases hn : isNum qc with
      | false =>
        refine between qc [] ?_ hn ?_
        · rw [endP_star, endP_ne _ hsc]; rfl
        · rw [endP_star, endP_ne _ hsc]; simp only [q_eq_q, Bool.or_true]
      | true =>
        rw [endP_star, endP_ne _ hsc] at hP ⊢
        rw [List.nil_append, rangParam_num _ _ _ _ _ _ (.inr rfl) (.inl rfl) (by decide) hn] at hP
        simp only [Out.ok.injEq, rangeCmp, beq_self_eq_true, if_true] at hP
        subst hP
        simpa [List.append_assoc] using
          hleft.append ((HasP.text _ (clean_op incl _ _ clean_b_le clean_b_lt)).append (HasP.holeQ qc))
  · cases hn : isNum qa with
    | false =>
      refine between qa (endP qc).2 ?_ hn ?_
      · rw [endP_ne _ hsa]; rfl
      · rw [endP_ne _ hsa]; simp [q_eq_q]
    | true =>
      by_cases hsc : qc = .str (b "*")
      · subst hsc
        rw [endP_star, endP_ne _ hsa] at hP ⊢
        rw [List.append_nil, rangParam_num _ _ _ _ _ _ (.inl rfl) (.inr rfl) (by decide) hn] at hP
        simp only [Out.ok.injEq, rangeCmp, beq_self_eq_true, if_true, q_ne_starQ, Bool.false_eq_true, if_false] at hP
        subst hP
        simpa [List.append_assoc] using
          hleft.append ((HasP.text _ (clean_op incl _ _ clean_b_ge clean_b_gt)).append (HasP.holeQ qa))
      · -- two bounded ends under a numeric lower end: the field text is printed twice
        have hhf : hf = true := by simpa [endsFieldOK, hsa, hsc, hn] using hok
        have hnil := hpl hhf
        subst hnil
        rw [endP_ne _ hsa, endP_ne _ hsc] at hP ⊢
        have hP' : rangParam xl (bracket incl (b "?") (b "?")) (qa :: [qc]) = .ok sP := hP
        rw [rangParam_num _ _ _ _ _ _ (.inl rfl) (.inl rfl) (by decide) hn] at hP'
        simp only [Out.ok.injEq, rangeCmp, q_ne_starQ, Bool.false_eq_true, if_false] at hP'
        cases incl
        · simp only [Bool.false_eq_true, if_false] at hP'
          subst hP'
          simpa [List.append_assoc] using
            hleft.append ((HasP.text _ clean_b_gt).append ((HasP.holeQ qa).append ((HasP.text _ clean_b_and).append
              (hleft.append ((HasP.text _ clean_b_lt).append (HasP.holeQ qc))))))
        · simp only [if_true] at hP'
          subst hP'
          simpa [List.append_assoc] using
            hleft.append ((HasP.text _ clean_b_ge).append ((HasP.holeQ qa).append ((HasP.text _ clean_b_and).append
              (hleft.append ((HasP.text _ clean_b_le).append (HasP.holeQ qc))))))

/-! ### the theorem -/

/-- every Range node of the tree passes `endsFieldOK` -/
abbrev rangeFieldsOK (e : Expr) : Bool := rangesOK endsFieldOK e

/-- the ends of a validated boundary, parameter mode only -/
theorem end_val_param (a : Expr) (ha : leafy a = true) (hva : isLiteralExpr (.expr a) = true) :
    ∃ q o p d, a = .mk (.prim q) o .nil p d ∧ (∀ x, endOut pgFns (.expr a) = .ok x → x = endP q) := by
  obtain ⟨q, o, p, d, h1, _, _, h4⟩ := end_val a ha hva
  exact ⟨q, o, p, d, h1, h4⟩

/-- a Column in field position yields no parameter (parameter mode only) -/
theorem holeFree_params' (l : Node) (hf : holeFree l = true) (hv : validateNode l = true)
    (hlit : isLiteralExpr l = true) (sP : Bytes) (ps : List Prim)
    (h2 : serializeParams pgFns l = .ok (sP, ps)) : ps = [] := by
  unfold holeFree at hf
  split at hf
  · rename_i v lo lr lp ld
    simp only [validateNode] at hv
    obtain ⟨hop, _, _⟩ := validate_top _ _ _ _ _ hv
    have hleaf : lo.isLeafOp = true := by
      simp only [isLiteralExpr, Bool.and_eq_true, Bool.or_eq_true, decide_eq_true_eq] at hlit
      rcases hlit.1 with (h | h) | h <;> subst h <;> rfl
    obtain ⟨rfl, _⟩ := leafop_parts _ _ _ _ _ hleaf hop
    rw [sp_expr] at h2
    exact (leafcol_cnt v lo lp ld hleaf sP ps h2).1
  · cases hf

mutual
theorem node_cnt : ∀ n : Node, wfNode n = true → validateNode n = true → reNode endsFieldOK n = true →
    ∀ (sP : Bytes) (ps : List Prim), serializeParams pgFns n = .ok (sP, ps) → HasP ps sP
  | .nil, _, _, _, sP, ps, h2 => by
    rw [sp_nil] at h2
    simp at h2
    obtain ⟨rfl, rfl⟩ := h2
    exact HasP.nil
  | .prim q, _, _, _, sP, ps, h2 => prim_cnt q sP ps h2
  | .expr e, hw, hv, hre, sP, ps, h2 => by
    rw [sp_expr] at h2
    exact expr_cnt e (by simpa [wfNode] using hw) (by simpa [validateNode] using hv)
      (by simpa [reNode] using hre) sP ps h2
  | .list es, hw, _, _, sP, ps, h2 => by
    rw [sp_list] at h2
    cases hs' : serializeParamsList pgFns es with
    | err => simp [hs'] at h2
    | panic => simp [hs'] at h2
    | ok w =>
      obtain ⟨ss', ps'⟩ := w
      simp only [hs', Out.ok.injEq, Prod.mk.injEq] at h2
      obtain ⟨rfl, rfl⟩ := h2
      exact (list_cnt es (by simpa [wfNode] using hw) ss' ps' hs').2
  | .bound mn mx incl, hw, _, _, sP, ps, h2 => by
    simp only [wfNode, Bool.and_eq_true] at hw
    cases mn with
    | expr a =>
      cases mx with
      | expr c =>
        simp only at hw
        exact bound_cnt a c incl hw.1 hw.2 sP ps h2
      | _ => simp at hw
    | _ => simp at hw
theorem expr_cnt : ∀ e : Expr, wfTree e = true → validateExpr e = true → rangesOK endsFieldOK e = true →
    ∀ (sP : Bytes) (ps : List Prim), renderParam pgFns e = .ok (sP, ps) → HasP ps sP
  | .mk l o r p d, hw, hv, hre, sP, ps, h2 => by
    obtain ⟨hop, hvl, hvr⟩ := validate_top l o r p d hv
    simp only [wfTree, Bool.and_eq_true] at hw
    simp only [rangesOK, Bool.and_eq_true] at hre
    have hL := node_cnt l hw.1.2 hvl hre.1.2
    have hRt := node_cnt r hw.2 hvr hre.2
    by_cases hleaf : o.isLeafOp = true
    · obtain ⟨rfl, q, rfl⟩ := leafop_parts l o r p d hleaf hop
      cases q
      case col v =>
        obtain ⟨rfl, hc⟩ := leafcol_cnt v o p d hleaf sP ps h2
        exact HasP.text _ hc
      all_goals
        refine leaf_cnt _ o p d (by intro s h; cases h) hleaf ?_ sP ps h2
        cases o <;> simp [Op.isLeafOp] at hleaf <;> simp_all
    · by_cases ho1 : o = .like
      · subst ho1
        cases r <;> simp [validateOp, Expr.op, Expr.left, Expr.right] at hop
        rename_i re
        have hre' : re.op = .wild ∨ re.op = .regexp := by
          obtain ⟨_, _, _, _, _⟩ := re
          rcases hop.2 with h | h
          · exact .inl (of_decide_eq_true h)
          · exact .inr (of_decide_eq_true h)
        obtain ⟨s, ro, rp, rd, rfl, hro⟩ := like_pattern_shape re hre' (by simpa [wfNode] using hw.2)
          (by simpa [validateNode] using hvr)
        obtain ⟨xl, pl, xr, pr, hl, _⟩ := sp_ok_of_renderParam _ _ _ _ _ _ _ h2
        have hsr := isSimple_leafop (.prim (.str s)) ro .nil rp rd hro
        have hr := renderParam_leaf_ok (.str s) ro rp rd (by intro s' h; cases h) hro (.inr ⟨s, rfl⟩)
        rw [renderParam_like_val l _ p d s xl pl hl hr (isSimple_of_isLiteralExpr l hop.1.1.2) hsr] at h2
        have hleft := hL xl pl hl
        cases hs : slashy s with
        | true =>
          simp only [hs, if_true, Out.ok.injEq, Prod.mk.injEq] at h2
          obtain ⟨rfl, rfl⟩ := h2
          simpa [List.append_assoc] using hleft.append ((HasP.text _ clean_b_tilde).append (HasP.holeQ (.str s)))
        | false =>
          simp only [hs, Bool.false_eq_true, if_false, Out.ok.injEq, Prod.mk.injEq] at h2
          obtain ⟨rfl, rfl⟩ := h2
          simpa [List.append_assoc] using
            hleft.append ((HasP.text _ clean_b_similar).append (HasP.holeQ (.str (starPattern s))))
      · by_cases ho2 : o = .range
        · subst ho2
          cases r <;> simp [validateOp, Expr.op, Expr.left, Expr.right] at hop
          rename_i mn mx incl
          obtain ⟨hlit, ⟨⟨_, _⟩, hmn⟩, hmx⟩ := hop
          have hwr := hw.2
          simp only [wfNode, Bool.and_eq_true] at hwr
          cases mn with
          | expr a =>
            cases mx with
            | expr c =>
              simp only at hwr
              obtain ⟨qa, oa, pa, da, rfl, hea⟩ := end_val_param a hwr.1 hmn
              obtain ⟨qc, oc, pc, dc, rfl, hec⟩ := end_val_param c hwr.2 hmx
              have hex : endsFieldOK (holeFree l) qa qc = true := by
                have := hre.1.1
                simpa [rangeOK] using this
              obtain ⟨xl, pl, xr, pr, hl2, hr2, hfP, rfl⟩ := renderParam_inv_range _ _ _ _ _ _ h2
              rw [sp_bound'] at hr2
              obtain ⟨s1, p1, s2, p2, e1, e2, rfl, rfl⟩ := boundOut_inv incl _ _ _ _ hr2
              have e1' := hea _ e1
              have e2' := hec _ e2
              have hs1 : s1 = (endP qa).1 := by rw [← e1']
              have hp1 : p1 = (endP qa).2 := by rw [← e1']
              have hs2 : s2 = (endP qc).1 := by rw [← e2']
              have hp2 : p2 = (endP qc).2 := by rw [← e2']
              subst hs1 hp1 hs2 hp2
              exact range_cnt (holeFree l) qa qc hex incl pl xl (hL xl pl hl2)
                (fun hf => holeFree_params' l hf hvl hlit.2 xl pl hl2) sP hfP
            | _ => simp at hwr
          | _ => simp at hwr
        · obtain ⟨xl, pl, xr, pr, fn, hl2, hr2, hfn, hfP, rfl⟩ := renderParam_inv _ _ _ _ _ ho1 ho2 _ _ h2
          refine fn_cnt o fn hfn (by simpa using hleaf) ho1 ho2 pl pr _ _ sP
            ((hL xl pl hl2).parenIf _) ((hRt xr pr hr2).parenIf _) ?_ hfP
          intro hu
          have hnil : r = .nil := by
            rcases hu with rfl | rfl | rfl | rfl <;>
              (simp [validateOp, Expr.op, Expr.left, Expr.right] at hop; exact nil_of_isNil' (by simp [hop]))
          subst hnil
          rw [sp_nil] at hr2
          simp at hr2
          exact hr2.2
end

/-- **C04, placeholder count, parameter mode alone.** -/
theorem param_count (e : Expr) (hw : wfTree e = true) (hv : validateExpr e = true) (hr : rangeFieldsOK e = true)
    (sqlP : Bytes) (ps : List Prim) (hP : renderParam pgFns e = .ok (sqlP, ps)) :
    countQ false sqlP = ps.length :=
  (expr_cnt e hw hv hr sqlP ps hP).count

/-- the template form: the parameterized SQL is a clean template with one hole per parameter -/
theorem param_template (e : Expr) (hw : wfTree e = true) (hv : validateExpr e = true) (hr : rangeFieldsOK e = true)
    (sqlP : Bytes) (ps : List Prim) (hP : renderParam pgFns e = .ok (sqlP, ps)) :
    ∃ tm : Tmpl, cleanT tm = true ∧ sqlP = fillQ tm ∧ holes tm = ps.length :=
  (expr_cnt e hw hv hr sqlP ps hP).template

/-- a tree without Range nodes needs no hypothesis beyond well-formedness and Validate -/
theorem param_count_no_range (e : Expr) (hw : wfTree e = true) (hv : validateExpr e = true) (hn : noRange e = true)
    (sqlP : Bytes) (ps : List Prim) (hP : renderParam pgFns e = .ok (sqlP, ps)) :
    countQ false sqlP = ps.length :=
  param_count e hw hv (rangesOK_of_noRange endsFieldOK e hn) sqlP ps hP

/-- for results of `lucene.Parse` -/
theorem parse_param_count (env : Env) (s df : Bytes) (e : Expr) (h : parseQuery env s df = .ok e)
    (hr : rangeFieldsOK e = true) (sqlP : Bytes) (ps : List Prim) (hP : renderParam pgFns e = .ok (sqlP, ps)) :
    countQ false sqlP = ps.length := by
  obtain ⟨hw, hv⟩ := parse_wf env s df e h
  exact param_count e hw hv hr sqlP ps hP

/-- the exclusion is exactly the counterexample; the other excluded forms of the substitution clause pass -/
example : rangeFieldsOK exNumericField = false ∧ rangeFieldsOK cexIntStr = true ∧ rangeFieldsOK exFloat = true ∧
    rangeFieldsOK cexStarFloat = true ∧ rangeFieldsOK exRanges = true ∧ rangeFieldsOK exBig = true ∧
    rangeFieldsOK exInlineFails = true := by decide +kernel

/-- `a:["1,2" TO 3]` (ParamAgree.exInlineFails): the inline renderer fails, the count clause still holds -/
example : countQ false (b "\"a\" BETWEEN ? AND ?") = 2 :=
  param_count exInlineFails (by decide +kernel) (by decide +kernel) (by decide +kernel) _ _
    (by decide +kernel : renderParam pgFns exInlineFails = .ok (b "\"a\" BETWEEN ? AND ?", [.str (b "1,2"), .int 3]))

end GoLucene.Subst

#print axioms GoLucene.Subst.param_count
#print axioms GoLucene.Subst.param_template
#print axioms GoLucene.Subst.param_count_no_range
#print axioms GoLucene.Subst.parse_param_count
