import GoLucene.Proofs.Full4
namespace GoLucene

/-- top of the stack after pushing a token -/
theorem topTok (t : TT) (σ : List Item) (ν : List TT) : topTokOrEmpty ⟨.tok t :: σ, ν⟩ := Or.inr ⟨_, _, rfl⟩

theorem ctx_shift {cur o : TT} {n : Nat}
    (hctx : isOpen cur = true ∨ (anyClosingBracket cur = false ∧ cur.num > n)) (ho : o.num ≤ n) :
    isOpen cur = true ∨ (anyClosingBracket cur = false ∧ (cur.num > o.num ∨ (cur = o ∧ o.isPrefixOp = true))) := by
  rcases hctx with h | ⟨h1, h2⟩
  · exact Or.inl h
  · exact Or.inr ⟨h1, Or.inl (by omega)⟩

theorem pre_shift {cur o : TT} {T : Ft} (ha : admitsF cur T) (hl : T.lvl = o.num) (hl0 : T.lvl ≠ 0)
    (hp : T.prefixRoot = some o) (hpo : o.isPrefixOp = true) :
    isOpen cur = true ∨ (anyClosingBracket cur = false ∧ (cur.num > o.num ∨ (cur = o ∧ o.isPrefixOp = true))) := by
  rcases ha with h | h | ⟨h1, h2 | h2⟩
  · exact absurd h hl0
  · exact Or.inl h
  · exact Or.inr ⟨h1, Or.inl (by omega)⟩
  · rw [hp] at h2
    exact Or.inr ⟨h1, Or.inr ⟨(Option.some.inj h2).symm, hpo⟩⟩

macro "closesB_tac" : tactic => `(tactic| exact closes_of_B (by decide))

theorem masterF (isNum : Bool → Ex → Bool) (T : Ft) (hT : T.ok isNum) : FStmt isNum T := by
  induction T with
  | leaf t =>
    intro c rest hc _ _
    simpa [fpp, fsem] using step_leaf isNum c t rest hc hT
  | eq f useEq v =>
    intro c rest hc ha hcl
    obtain ⟨hf, hv⟩ := hT
    have hctx := admits_ctx ha (by simp [Ft.lvl]) (by simp [Ft.prefixRoot])
    simp only [Ft.lvl] at hctx hcl
    simp only [fpp, List.cons_append, List.nil_append]
    rw [step_leaf isNum c f _ hc hf]
    cases useEq
    · simp only [Bool.false_eq_true, if_false]
      rw [step_op2 isNum _ c.nts .colon _ (by decide) (ctx_shift (cur := curOf c) hctx (by decide))]
      rw [step_leaf isNum _ v _ (topTok ..) hv]
      rw [step_reduce isNum _ _ (by simp) (by simpa [curOf] using noShift_op hcl (o := .colon) (by decide) (by simp [TT.num]))]
      simp [red_eq_colon, fsem]
    · simp only [if_true]
      rw [step_op2 isNum _ c.nts .equal _ (by decide) (ctx_shift (cur := curOf c) hctx (by decide))]
      rw [step_leaf isNum _ v _ (topTok ..) hv]
      rw [step_reduce isNum _ _ (by simp) (by simpa [curOf] using noShift_op hcl (o := .equal) (by decide) (by simp [TT.num]))]
      simp [red_eq_equal, fsem]
  | eqGroup f e ih =>
    intro c rest hc ha hcl
    obtain ⟨hf, he⟩ := hT
    have hctx := admits_ctx ha (by simp [Ft.lvl]) (by simp [Ft.prefixRoot])
    simp only [Ft.lvl] at hctx hcl
    simp only [fpp, List.cons_append, List.append_assoc, List.nil_append]
    rw [step_leaf isNum c f _ hc hf]
    rw [step_op2 isNum _ c.nts .colon _ (by decide) (ctx_shift (cur := curOf c) hctx (by decide))]
    rw [step_shift_op isNum _ lp _ (by simp [lp]) (by simp [lp, TT.isTerminal])
      (by simp [lp, shouldShift, TT.isTerminal, anyOpenBracket])]
    rw [ih he _ _ (topTok ..) (by right; left; simp [curOf, lp, isOpen])
      ⟨by simp [nextOf, rp, TT.isTerm], by simp [nextOf, rp], by simp [nextOf, rp, isOpen],
       by simp [nextOf, rp, endingRange], by simp [nextOf, rp, TT.isPrefixOp],
       by simp [nextOf, rp, TT.num]; have := flvl_le e; omega⟩]
    rw [step_shift_op isNum _ rp _ (by simp [rp]) (by simp [rp, TT.isTerminal])
      (by simp [rp, lp, curOf, shouldShift, TT.isTerminal, anyOpenBracket])]
    rw [step_reduce isNum _ _ (by simp) (by simp [curOf, rp]; exact noShift_closing hcl rfl)]
    simp only [lp, rp, reduce_sub]
    rw [step_reduce isNum _ _ (by simp) (by simpa [curOf] using noShift_op hcl (o := .colon) (by decide) (by simp [TT.num]))]
    simp [red_eq_colon, fsem]
  | cmp f gt orEq v =>
    intro c rest hc ha hcl
    obtain ⟨hf, hv⟩ := hT
    have hctx := admits_ctx ha (by simp [Ft.lvl]) (by simp [Ft.prefixRoot])
    simp only [Ft.lvl] at hctx hcl
    simp only [fpp, List.cons_append, List.append_assoc, List.nil_append]
    rw [step_leaf isNum c f _ hc hf]
    rw [step_op2 isNum _ c.nts .colon _ (by decide) (ctx_shift (cur := curOf c) hctx (by decide))]
    cases gt <;> cases orEq <;> simp only [Bool.false_eq_true, if_false, if_true, List.nil_append, List.cons_append]
    · rw [step_op isNum _ .less _ (by decide) (Or.inr ⟨by simp [curOf, anyClosingBracket], Or.inl (by simp [curOf, TT.num])⟩)]
      rw [step_leaf isNum _ v _ (topTok ..) hv]
      rw [step_reduce isNum _ _ (by simp) (by simpa [curOf] using noShift_op hcl (o := .less) (by decide) (by simp [TT.num]))]
      simp [red_lt, fsem]
    · rw [step_op isNum _ .less _ (by decide) (Or.inr ⟨by simp [curOf, anyClosingBracket], Or.inl (by simp [curOf, TT.num])⟩)]
      rw [step_op isNum _ .equal _ (by decide) (Or.inr ⟨by simp [curOf, anyClosingBracket], Or.inl (by simp [curOf, TT.num])⟩)]
      rw [step_leaf isNum _ v _ (topTok ..) hv]
      rw [step_reduce isNum _ _ (by simp) (by simpa [curOf] using noShift_op hcl (o := .equal) (by decide) (by simp [TT.num]))]
      simp [red_le, fsem]
    · rw [step_op isNum _ .greater _ (by decide) (Or.inr ⟨by simp [curOf, anyClosingBracket], Or.inl (by simp [curOf, TT.num])⟩)]
      rw [step_leaf isNum _ v _ (topTok ..) hv]
      rw [step_reduce isNum _ _ (by simp) (by simpa [curOf] using noShift_op hcl (o := .greater) (by decide) (by simp [TT.num]))]
      simp [red_gt, fsem]
    · rw [step_op isNum _ .greater _ (by decide) (Or.inr ⟨by simp [curOf, anyClosingBracket], Or.inl (by simp [curOf, TT.num])⟩)]
      rw [step_op isNum _ .equal _ (by decide) (Or.inr ⟨by simp [curOf, anyClosingBracket], Or.inl (by simp [curOf, TT.num])⟩)]
      rw [step_leaf isNum _ v _ (topTok ..) hv]
      rw [step_reduce isNum _ _ (by simp) (by simpa [curOf] using noShift_op hcl (o := .equal) (by decide) (by simp [TT.num]))]
      simp [red_ge, fsem]
  | range f lo hi lb rb =>
    intro c rest hc ha hcl
    obtain ⟨hf, hlo, hhi⟩ := hT
    have hctx := admits_ctx ha (by simp [Ft.lvl]) (by simp [Ft.prefixRoot])
    simp only [Ft.lvl] at hctx hcl
    simp only [fpp, List.cons_append, List.nil_append]
    rw [step_leaf isNum c f _ hc hf]
    rw [step_op2 isNum _ c.nts .colon _ (by decide) (ctx_shift (cur := curOf c) hctx (by decide))]
    rw [step_open isNum _ lb.openT _ (by cases lb <;> simp [Br.openT, isOpen])]
    rw [step_leaf isNum _ lo _ (topTok ..) hlo]
    rw [step_under_open isNum _ .tto _ (by cases lb <;> simp [curOf, Br.openT, isOpen]) (Or.inl rfl)]
    rw [step_leaf isNum _ hi _ (topTok ..) hhi]
    rw [step_close_range isNum _ rb _ (by simp [curOf])]
    rw [step_reduce isNum _ _ (by simp) (by
      simp only [curOf, List.headD_cons]
      exact noShift_closer hcl (by cases rb <;> simp [Br.closeT, anyClosingBracket]))]
    simp [red_range, fsem]
  | and l r ihl ihr =>
    intro c rest hc ha hcl
    obtain ⟨hl, hr⟩ := hT
    have hctx := admits_ctx ha (by simp [Ft.lvl]) (by simp [Ft.prefixRoot])
    simp only [Ft.lvl] at hctx hcl
    simp only [fpp, List.append_assoc, List.cons_append]
    rw [wrapF isNum l (ihl hl) 13 c _ hc
      (by by_cases h : 13 < l.lvl
          · exact Or.inr h
          · exact Or.inl (admits_same l (by omega) hctx)) (by simp only [nextOf, tk]; closesB_tac)]
    rw [step_op2 isNum _ c.nts .tand _ (by decide) (ctx_shift (cur := curOf c) hctx (by decide))]
    rw [wrapF isNum r (ihr hr) 12 _ rest (topTok ..)
      (by by_cases h : 12 < r.lvl
          · exact Or.inr h
          · exact Or.inl (admits_under .tand r (by simp [curOf, anyClosingBracket]) (Or.inl (by simp [TT.num]; omega))))
      (hcl.mono (by omega))]
    rw [step_reduce isNum _ _ (by simp) (by simpa [curOf] using noShift_op hcl (o := .tand) (by decide) (by simp [TT.num]))]
    simp [reduce_and, fsem]
  | or l r ihl ihr =>
    intro c rest hc ha hcl
    obtain ⟨hl, hr⟩ := hT
    have hctx := admits_ctx ha (by simp [Ft.lvl]) (by simp [Ft.prefixRoot])
    simp only [Ft.lvl] at hctx hcl
    simp only [fpp, List.append_assoc, List.cons_append]
    rw [wrapF isNum l (ihl hl) 14 c _ hc
      (by by_cases h : 14 < l.lvl
          · exact Or.inr h
          · exact Or.inl (admits_same l (by omega) hctx)) (by simp only [nextOf, tk]; closesB_tac)]
    rw [step_op2 isNum _ c.nts .tor _ (by decide) (ctx_shift (cur := curOf c) hctx (by decide))]
    rw [wrapF isNum r (ihr hr) 13 _ rest (topTok ..)
      (by by_cases h : 13 < r.lvl
          · exact Or.inr h
          · exact Or.inl (admits_under .tor r (by simp [curOf, anyClosingBracket]) (Or.inl (by simp [TT.num]; omega))))
      (hcl.mono (by omega))]
    rw [step_reduce isNum _ _ (by simp) (by simpa [curOf] using noShift_op hcl (o := .tor) (by decide) (by simp [TT.num]))]
    simp [reduce_or, fsem]
  | not e ih =>
    intro c rest hc ha hcl
    simp only [Ft.lvl] at hcl
    simp only [fpp, List.cons_append]
    rw [step_op isNum _ .tnot _ (by decide) (pre_shift ha rfl (by simp [Ft.lvl]) (by simp [Ft.prefixRoot]) (by decide))]
    rw [wrapF isNum e (ih hT) 12 _ rest (topTok ..)
      (by by_cases h : 12 < e.lvl
          · exact Or.inr h
          · refine Or.inl (admits_under .tnot e (by simp [anyClosingBracket]) ?_)
            by_cases h2 : e.lvl = 12
            · exact Or.inr ⟨by simp [TT.num, h2], (lvl_prefixRoot e).1 h2⟩
            · exact Or.inl (by simp [TT.num]; omega))
      hcl]
    rw [step_reduce isNum _ _ (by simp) (by simpa [curOf] using noShift_op hcl (o := .tnot) (by decide) (by simp [TT.num]))]
    simp [reduce_not, fsem]
  | must e ih =>
    intro c rest hc ha hcl
    simp only [Ft.lvl] at hcl
    simp only [fpp, List.cons_append]
    rw [step_op isNum _ .plus _ (by decide) (pre_shift ha rfl (by simp [Ft.lvl]) (by simp [Ft.prefixRoot]) (by decide))]
    rw [wrapF isNum e (ih hT) 8 _ rest (topTok ..)
      (by by_cases h : 8 < e.lvl
          · exact Or.inr h
          · refine Or.inl (admits_under .plus e (by simp [anyClosingBracket]) ?_)
            by_cases h2 : e.lvl = 8
            · exact Or.inr ⟨by simp [TT.num, h2], (lvl_prefixRoot e).2.1 h2⟩
            · exact Or.inl (by simp [TT.num]; omega))
      hcl]
    rw [step_reduce isNum _ _ (by simp) (by simpa [curOf] using noShift_op hcl (o := .plus) (by decide) (by simp [TT.num]))]
    simp [red_must, fsem]
  | mustNot e ih =>
    intro c rest hc ha hcl
    simp only [Ft.lvl] at hcl
    simp only [fpp, List.cons_append]
    rw [step_op isNum _ .minus _ (by decide) (pre_shift ha rfl (by simp [Ft.lvl]) (by simp [Ft.prefixRoot]) (by decide))]
    rw [wrapF isNum e (ih hT) 9 _ rest (topTok ..)
      (by by_cases h : 9 < e.lvl
          · exact Or.inr h
          · refine Or.inl (admits_under .minus e (by simp [anyClosingBracket]) ?_)
            by_cases h2 : e.lvl = 9
            · exact Or.inr ⟨by simp [TT.num, h2], (lvl_prefixRoot e).2.2 h2⟩
            · exact Or.inl (by simp [TT.num]; omega))
      hcl]
    rw [step_reduce isNum _ _ (by simp) (by simpa [curOf] using noShift_op hcl (o := .minus) (by decide) (by simp [TT.num]))]
    simp [red_mustNot, fsem]
  | fuzzy e d ih =>
    intro c rest hc ha hcl
    obtain ⟨he, hd⟩ := hT
    have hctx := admits_ctx ha (by simp [Ft.lvl]) (by simp [Ft.prefixRoot])
    simp only [Ft.lvl] at hctx hcl
    simp only [fpp, List.append_assoc, List.cons_append]
    rw [wrapF isNum e (ih he) 10 c _ hc
      (by by_cases h : 10 < e.lvl
          · exact Or.inr h
          · exact Or.inl (admits_same e (by omega) hctx)) (by simp only [nextOf, tk]; closesB_tac)]
    rw [step_op2 isNum _ c.nts .tilde _ (by decide) (ctx_shift (cur := curOf c) hctx (by decide))]
    cases d with
    | none =>
      simp only [optTok, List.nil_append]
      rw [step_reduce isNum _ _ (by simp) (by simpa [curOf] using noShift_op hcl (o := .tilde) (by decide) (by simp [TT.num]))]
      simp [red_fuzzy0, fsem]
    | some dt =>
      obtain ⟨hdt, hnum⟩ := hd
      simp only [optTok, List.cons_append, List.nil_append]
      rw [step_leaf isNum _ dt _ (topTok ..) hdt]
      rw [step_reduce isNum _ _ (by simp) (by simpa [curOf] using noShift_op hcl (o := .tilde) (by decide) (by simp [TT.num]))]
      simp [red_fuzzy1, hnum, fsem]
  | boost e p ih =>
    intro c rest hc ha hcl
    obtain ⟨he, hp⟩ := hT
    have hctx := admits_ctx ha (by simp [Ft.lvl]) (by simp [Ft.prefixRoot])
    simp only [Ft.lvl] at hctx hcl
    simp only [fpp, List.append_assoc, List.cons_append]
    rw [wrapF isNum e (ih he) 11 c _ hc
      (by by_cases h : 11 < e.lvl
          · exact Or.inr h
          · exact Or.inl (admits_same e (by omega) hctx)) (by simp only [nextOf, tk]; closesB_tac)]
    rw [step_op2 isNum _ c.nts .carrot _ (by decide) (ctx_shift (cur := curOf c) hctx (by decide))]
    cases p with
    | none =>
      simp only [optTok, List.nil_append]
      rw [step_reduce isNum _ _ (by simp) (by simpa [curOf] using noShift_op hcl (o := .carrot) (by decide) (by simp [TT.num]))]
      simp [red_boost0, fsem]
    | some pt =>
      obtain ⟨hpt, hnum⟩ := hp
      simp only [optTok, List.cons_append, List.nil_append]
      rw [step_leaf isNum _ pt _ (topTok ..) hpt]
      rw [step_reduce isNum _ _ (by simp) (by simpa [curOf] using noShift_op hcl (o := .carrot) (by decide) (by simp [TT.num]))]
      simp [red_boost1, hnum, fsem]

  | paren e ih =>
    intro c rest hc _ hcl
    simp only [fpp, List.cons_append, List.append_assoc]
    rw [step_shift_op isNum c lp _ (by simp [lp]) (by simp [lp, TT.isTerminal])
      (by simp [lp, shouldShift, TT.isTerminal, anyOpenBracket])]
    rw [ih hT _ _ (topTok ..) (by right; left; simp [curOf, lp, isOpen])
      ⟨by simp [nextOf, rp, TT.isTerm], by simp [nextOf, rp], by simp [nextOf, rp, isOpen],
       by simp [nextOf, rp, endingRange], by simp [nextOf, rp, TT.isPrefixOp],
       by simp [nextOf, rp, TT.num]; have := flvl_le e; omega⟩]
    rw [step_shift_op isNum _ rp _ (by simp [rp]) (by simp [rp, TT.isTerminal])
      (by simp [rp, lp, curOf, shouldShift, TT.isTerminal, anyOpenBracket])]
    rw [step_reduce isNum _ _ (by simp) (by simp [curOf, rp]; exact noShift_closing hcl rfl)]
    simp [lp, rp, reduce_sub, fsem]

/-- C05 at token level, full grammar: print with minimal parentheses, parse, get the tree back. -/
theorem roundtripF (isNum : Bool → Ex → Bool) (T : Ft) (hT : T.ok isNum) :
    parseToks isNum (fpp T) = .ok (fsem T) := by
  have h := masterF isNum T hT ⟨[], [.start]⟩ [] (Or.inl rfl)
    (by by_cases h0 : T.lvl = 0
        · exact Or.inl h0
        · right; right; refine ⟨by simp [curOf, anyClosingBracket], Or.inl ?_⟩
          simp [curOf, TT.num]; have := flvl_le T; omega)
    ⟨by simp [nextOf, TT.isTerm], by simp [nextOf], by simp [nextOf, isOpen], by simp [nextOf, endingRange],
     by simp [nextOf, TT.isPrefixOp], by simp [nextOf, TT.num]; have := flvl_le T; omega⟩
  simp only [List.append_nil] at h
  rw [parseToks, h, runW]
  simp [nextOf]

end GoLucene
