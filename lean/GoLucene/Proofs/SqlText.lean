import GoLucene.Proofs.SqlText4
import GoLucene.Proofs.FloatRT3
/-
  C03 / C02, text level: PostgreSQL's scanner and expression grammar (Model/Sql.lean) read the SQL text produced by
  the inline renderer (`render pgFns`, Model/Driver.lean) as exactly the intended predicate `toAst e`
  (Proofs/SqlMeaning.lean).

  Route (files SqlText1 … SqlText4, FloatRT1 … FloatRT3):
    1. `RE c`           the shape of the concrete syntax trees the renderer emits; `parse_RE`: the grammar reads the
                        token list `ctoks c` back as `c` (fuel and placeholder numbering discharged);
    2. `lex_RE`         the scanner splits `cstText c` (the renderer's spacing and parentheses) into `ctoks c`;
                        `parseSql_RE` combines 1 and 2;
    3. numeric texts    `fmtInt`, `fmtG`, `fmtFixed … 2` of finite numbers are one numeric constant for the scanner;
                        `atoi (fmtInt i) = i`; a quoted text is not a number; `rang` splits its argument exactly;
    4. `good_expr`      on the clean fragment `render pgFns e = .ok (cstText c)` with `toCst e = some c`, `RE c` and
                        `toAst e = some c.toAst` — given, for float range bounds, that `strconv.ParseFloat` reads the
                        `%v` text of the bound back (`fltRT e`: the renderer re-parses that text);
    5. FloatRT          `parseFloat (fmtG f) = some f` for every finite float64 (`FloatRT.parseFloat_fmtG`): the
                        shortest-digits search stays inside the rounding interval (`shortest_spec`), `roundRatBits`
                        maps the whole interval back to the value (`roundRat_spec`), and the scanner of ParseFloat
                        reads each of the four `%v` layouts as that decimal.  Hence `fltRT_of_clean`.

  MAIN THEOREMS (this file)
    render_parses            parseSql t = toAst e                         (nesting bound `depthOK e`)
    render_parses_stack      the same under the exact stack condition `stackOK e`
    render_parses_iff        parseSql t = if stackOK e then toAst e else none
    rendered_sql_means_query for every row, evalSql row (parseSql t) = evalL row e
    parsed_cols_consts       every column reference of the parsed predicate is a field of `e`, every constant is (a
                             rendering of) a value of `e`
    need_depth               the depth hypothesis cannot be dropped (4500 nested NOTs: PostgreSQL's parser stack)
  (`…_of_fltRT`: the same three theorems with `fltRT e` as a hypothesis instead of the float round trip.)
-/
namespace GoLucene.SqlText
open GoLucene Sql SqlMeaning

/-- PostgreSQL's parser stack is not exhausted by the rendered text (`Cst.peak` of Model/Sql.lean on the concrete
    syntax tree of the text, inside `SELECT 1 FROM t WHERE (`) -/
def stackOK (e : Expr) : Bool :=
  match toCst e with
  | some c => decide (c.peak frameDepth < maxStack)
  | none => false

/-- MAIN THEOREM, exact form: PostgreSQL reads the rendered text as the intended predicate, and rejects it exactly
    when its parser stack would overflow. -/
theorem render_parses_iff_of_fltRT (e : Expr) (t : Bytes) (hc : cleanFilter e = true) (ht : textClean e = true)
    (hf : fltRT e = true) (hr : render pgFns e = .ok t) :
    parseSql t = if stackOK e then toAst e else none := by
  obtain ⟨c, hcst, hre, hren⟩ := good_expr e hc ht hf
  have e1 : t = cstText c := by rw [hren] at hr; cases hr; rfl
  rw [e1, parseSql_RE hre, toCst_toAst e]
  simp only [stackOK, hcst, Option.map_some, decide_eq_true_eq]

/-- the same under the stack condition (`hf` is discharged below: `fltRT_of_clean`) -/
theorem render_parses_stack_of_fltRT (e : Expr) (t : Bytes) (hc : cleanFilter e = true) (ht : textClean e = true)
    (hf : fltRT e = true) (hd : stackOK e = true) (hr : render pgFns e = .ok t) :
    parseSql t = toAst e := by
  rw [render_parses_iff_of_fltRT e t hc ht hf hr, hd]; rfl

/-! ## a simple sufficient depth bound -/

/-- parenthesis nesting of a concrete syntax tree -/
def pd : Cst → Nat
  | .paren x => pd x + 1
  | .and l r => max (pd l) (pd r)
  | .or l r => max (pd l) (pd r)
  | .not x => pd x
  | _ => 0

theorem atom_peak {a : Cst} (h : Atom a) (d : Nat) : a.peak d ≤ d + 2 := by
  cases h with
  | col f _ _ _ => simp [Cst.peak]
  | str s _ => simp [Cst.peak]
  | num neg raw _ => cases neg <;> simp [Cst.peak]

theorem atoms_peak {items : CstList} (h : Atoms items) (d : Nat) : ∀ first, items.peak first d ≤ d + 7 := by
  induction h with
  | one ha =>
    intro first
    have := atom_peak ha (d + 3); have := atom_peak ha (d + 5)
    cases first <;> simp only [CstList.peak] <;> omega
  | cons ha ht ih =>
    intro first
    have := atom_peak ha (d + 3); have := atom_peak ha (d + 5); have := ih false
    cases first <;> simp only [CstList.peak] at this ⊢ <;> omega

theorem leaf_peak {L : Cst} (h : Leaf L) (d : Nat) : L.peak d ≤ d + 7 ∧ pd L = 0 := by
  cases h with
  | cmp op hl hr =>
    have := atom_peak hl d; have := atom_peak hr (d + 2)
    simp only [Cst.peak, pd, and_true]; omega
  | similar hx hp =>
    have := atom_peak hx d; have := atom_peak hp (d + 3)
    simp only [Cst.peak, pd, and_true]; omega
  | regex hx hp =>
    have := atom_peak hx d; have := atom_peak hp (d + 2)
    simp only [Cst.peak, pd, and_true]; omega
  | between hx hlo hhi =>
    have := atom_peak hx d; have := atom_peak hlo (d + 3); have := atom_peak hhi (d + 5)
    simp only [Cst.peak, pd, and_true]; omega
  | inList hx hi =>
    have := atom_peak hx d; have := atoms_peak hi d true
    simp only [Cst.peak, pd, and_true]; omega

theorem re_peak {c : Cst} (h : RE c) : ∀ d, c.peak d ≤ d + 3 * pd c + 9 := by
  induction h with
  | leaf hL => intro d; have := leaf_peak hL d; omega
  | rng hA hC =>
    intro d
    have h1 := leaf_peak hA d; have h2 := leaf_peak hC (d + 2)
    simp only [Cst.peak, pd]; omega
  | and hl hr ihl ihr =>
    intro d
    have := ihl (d + 1); have := ihr (d + 2 + 1)
    simp only [Cst.peak, pd]; omega
  | or hl hr ihl ihr =>
    intro d
    have := ihl (d + 1); have := ihr (d + 2 + 1)
    simp only [Cst.peak, pd]; omega
  | not hx ih =>
    intro d
    have := ih (d + 1 + 1)
    simp only [Cst.peak, pd]; omega

mutual
theorem pd_emb : ∀ a : Ast, pd (emb a) = 0
  | .col _ => rfl
  | .str _ => rfl
  | .num _ _ => rfl
  | .param _ => rfl
  | .cmp _ _ _ => rfl
  | .between _ _ _ => rfl
  | .inList _ _ => rfl
  | .similar _ _ => rfl
  | .regex _ _ => rfl
  | .and l r => by simp only [emb, pd, pd_emb l, pd_emb r]; rfl
  | .or l r => by simp only [emb, pd, pd_emb l, pd_emb r]; rfl
  | .not x => by simp only [emb, pd, pd_emb x]
end

mutual
def nestNode : Node → Nat
  | .expr e => nest e
  | _ => 0
/-- nesting depth of AND / OR / NOT in the query tree -/
def nest : Expr → Nat
  | .mk l o r _ _ =>
    match o with
    | .and | .or => max (nestNode l) (nestNode r) + 1
    | .not | .mustNot => nestNode l + 1
    | .must => nestNode l
    | _ => 0
end

mutual
theorem pd_toCstNode : ∀ (n : Node) (c : Cst), toCstNode n = some c → pd c ≤ nestNode n
  | .expr e, c, h => by simp only [toCstNode] at h; simp only [nestNode]; exact pd_toCst e c h
  | .nil, _, h => by simp [toCstNode] at h
  | .prim _, _, h => by simp [toCstNode] at h
  | .list _, _, h => by simp [toCstNode] at h
  | .bound _ _ _, _, h => by simp [toCstNode] at h
theorem pd_toCst : ∀ (e : Expr) (c : Cst), toCst e = some c → pd c ≤ nest e
  | .mk l o r p d, c, h => by
    cases o
    case and =>
      simp only [toCst] at h
      split at h
      · rename_i x y hx hy
        cases h
        have := pd_toCstNode l x hx; have := pd_toCstNode r y hy
        simp only [pd, nest]; omega
      · cases h
    case or =>
      simp only [toCst] at h
      split at h
      · rename_i x y hx hy
        cases h
        have := pd_toCstNode l x hx; have := pd_toCstNode r y hy
        simp only [pd, nest]; omega
      · cases h
    case not =>
      simp only [toCst] at h
      cases hx : toCstNode l with
      | none => simp [hx] at h
      | some x =>
        simp only [hx, Option.map_some, Option.some.injEq] at h
        subst h
        have := pd_toCstNode l x hx
        simp only [pd, nest]; omega
    case mustNot =>
      simp only [toCst] at h
      cases hx : toCstNode l with
      | none => simp [hx] at h
      | some x =>
        simp only [hx, Option.map_some, Option.some.injEq] at h
        subst h
        have := pd_toCstNode l x hx
        simp only [pd, nest]; omega
    case must =>
      simp only [toCst] at h
      have := pd_toCstNode l c h
      simp only [nest]; omega
    all_goals first
      | (simp only [toCst, Option.map_eq_some_iff] at h
         obtain ⟨a, _, rfl⟩ := h
         rw [pd_emb]; exact Nat.zero_le _)
      | (simp [toCst] at h)
end

/-- AND / OR / NOT nested at most 2990 deep (PostgreSQL's parser stack holds 10000 entries; each level of
    parentheses takes three) -/
def depthOK (e : Expr) : Bool := decide (nest e ≤ 2990)

theorem stackOK_of_depthOK (e : Expr) (hc : cleanFilter e = true) (ht : textClean e = true) (hf : fltRT e = true)
    (hd : depthOK e = true) : stackOK e = true := by
  obtain ⟨c, hcst, hre, _⟩ := good_expr e hc ht hf
  have h1 := re_peak hre frameDepth
  have h2 := pd_toCst e c hcst
  have h3 : nest e ≤ 2990 := by simpa [depthOK] using hd
  simp only [stackOK, hcst, decide_eq_true_eq]
  unfold frameDepth at h1 ⊢
  unfold maxStack
  omega

/-- MAIN THEOREM with the simple depth bound -/
theorem render_parses_of_fltRT (e : Expr) (t : Bytes) (hc : cleanFilter e = true) (ht : textClean e = true)
    (hf : fltRT e = true) (hd : depthOK e = true) (hr : render pgFns e = .ok t) :
    parseSql t = toAst e :=
  render_parses_stack_of_fltRT e t hc ht hf (stackOK_of_depthOK e hc ht hf hd) hr

/-! ## the float hypothesis is a theorem: `strconv.ParseFloat` inverts `%v` (FloatRT1–3) -/

theorem fltBoundRT_of_bnd {n : Node} {b : Bnd} (h : bndOf n = some b) (hb : ∀ f, b = .flt f → f.isFinite = true) :
    fltBoundRT n = true := by
  unfold bndOf at h
  split at h
  · rfl
  · rfl
  · cases h
    simp only [fltBoundRT, beq_iff_eq]
    exact FloatRT.parseFloat_fmtG _ (hb _ rfl)
  · rfl
  · cases h

mutual
theorem fltRTNode_of_clean : ∀ n : Node, cleanNode n = true → fltRTNode n = true
  | .expr e, h => by simp only [cleanNode] at h; simp only [fltRTNode]; exact fltRT_of_clean e h
  | .nil, _ => rfl
  | .prim _, _ => rfl
  | .list _, _ => rfl
  | .bound _ _ _, _ => rfl
/-- on the clean fragment every float bound is finite, so its `%v` text is read back exactly -/
theorem fltRT_of_clean : ∀ e : Expr, cleanFilter e = true → fltRT e = true
  | .mk l o r p d, h => by
    cases o
    case and =>
      simp only [cleanFilter, Bool.and_eq_true] at h
      simp only [fltRT, Bool.and_eq_true]
      exact ⟨fltRTNode_of_clean l h.1, fltRTNode_of_clean r h.2⟩
    case or =>
      simp only [cleanFilter, Bool.and_eq_true] at h
      simp only [fltRT, Bool.and_eq_true]
      exact ⟨fltRTNode_of_clean l h.1, fltRTNode_of_clean r h.2⟩
    case not =>
      simp only [cleanFilter, Bool.and_eq_true] at h; simp only [fltRT]; exact fltRTNode_of_clean l h.1
    case mustNot =>
      simp only [cleanFilter, Bool.and_eq_true] at h; simp only [fltRT]; exact fltRTNode_of_clean l h.1
    case must =>
      simp only [cleanFilter, Bool.and_eq_true] at h; simp only [fltRT]; exact fltRTNode_of_clean l h.1
    case range =>
      simp only [cleanFilter, Bool.and_eq_true] at h
      obtain ⟨mn, mx, incl, ba, bc, rfl, hba, hbc, hcl⟩ := cleanRange_inv h.2
      simp only [fltRT, Bool.and_eq_true]
      cases ba <;> cases bc <;> simp only [cleanBounds, Bool.false_eq_true, Bool.and_eq_true] at hcl
      · exact ⟨fltBoundRT_of_bnd hba (by intro f hf; cases hf), fltBoundRT_of_bnd hbc (by intro f hf; cases hf)⟩
      · exact ⟨fltBoundRT_of_bnd hba (by intro f hf; cases hf),
          fltBoundRT_of_bnd hbc (by intro f hf; cases hf; exact twoDec_finite _ hcl.1)⟩
      · exact ⟨fltBoundRT_of_bnd hba (by intro f hf; cases hf), fltBoundRT_of_bnd hbc (by intro f hf; cases hf)⟩
      · exact ⟨fltBoundRT_of_bnd hba (by intro f hf; cases hf), fltBoundRT_of_bnd hbc (by intro f hf; cases hf)⟩
      · exact ⟨fltBoundRT_of_bnd hba (by intro f hf; cases hf; exact twoDec_finite _ hcl.1),
          fltBoundRT_of_bnd hbc (by intro f hf; cases hf)⟩
      · exact ⟨fltBoundRT_of_bnd hba (by intro f hf; cases hf; exact twoDec_finite _ hcl.1.1),
          fltBoundRT_of_bnd hbc (by intro f hf; cases hf; exact twoDec_finite _ hcl.1.2)⟩
      · exact ⟨fltBoundRT_of_bnd hba (by intro f hf; cases hf), fltBoundRT_of_bnd hbc (by intro f hf; cases hf)⟩
    all_goals rfl
end

/-- MAIN THEOREM (full strength): PostgreSQL's scanner and expression grammar read the SQL text produced by the
    renderer as exactly the intended predicate. -/
theorem render_parses (e : Expr) (t : Bytes) (hc : cleanFilter e = true) (ht : textClean e = true)
    (hd : depthOK e = true) (hr : render pgFns e = .ok t) : parseSql t = toAst e :=
  render_parses_of_fltRT e t hc ht (fltRT_of_clean e hc) hd hr

/-- … with the exact stack condition instead of the nesting bound -/
theorem render_parses_stack (e : Expr) (t : Bytes) (hc : cleanFilter e = true) (ht : textClean e = true)
    (hd : stackOK e = true) (hr : render pgFns e = .ok t) : parseSql t = toAst e :=
  render_parses_stack_of_fltRT e t hc ht (fltRT_of_clean e hc) hd hr

/-- … and the complete characterisation: the text is read as the intended predicate, or rejected exactly when
    PostgreSQL's parser stack would overflow -/
theorem render_parses_iff (e : Expr) (t : Bytes) (hc : cleanFilter e = true) (ht : textClean e = true)
    (hr : render pgFns e = .ok t) : parseSql t = if stackOK e then toAst e else none :=
  render_parses_iff_of_fltRT e t hc ht (fltRT_of_clean e hc) hr

/-! ## C03 at the text level -/

/-- COROLLARY (C03): the predicate PostgreSQL reads from the rendered text is true on exactly the rows on which the
    query is true, and undefined on exactly the rows on which the query is. -/
theorem rendered_sql_means_query (e : Expr) (t : Bytes) (hc : cleanFilter e = true) (ht : textClean e = true)
    (hd : depthOK e = true) (hr : render pgFns e = .ok t) :
    ∃ a, parseSql t = some a ∧ ∀ row : Row, evalSql row a = evalL row e := by
  obtain ⟨a, ha⟩ := toAst_total e hc
  exact ⟨a, by rw [render_parses e t hc ht hd hr, ha], sql_means_query e a hc ha⟩

/-- the same in one line -/
theorem rendered_sql_means_query' (e : Expr) (t : Bytes) (hc : cleanFilter e = true) (ht : textClean e = true)
    (hd : depthOK e = true) (hr : render pgFns e = .ok t) (row : Row) :
    (parseSql t).bind (evalSql row) = evalL row e := by
  obtain ⟨a, hp, hm⟩ := rendered_sql_means_query e t hc ht hd hr
  rw [hp, Option.bind_some, hm row]

/-! ## C02 at the text level: columns and constants of the parsed predicate -/

mutual
/-- the column references of a predicate -/
def cols : Ast → List Bytes
  | .col n => [n]
  | .str _ => []
  | .num _ _ => []
  | .param _ => []
  | .cmp _ l r => cols l ++ cols r
  | .between x lo hi => cols x ++ (cols lo ++ cols hi)
  | .inList x items => cols x ++ colsL items
  | .similar x p => cols x ++ cols p
  | .regex x p => cols x ++ cols p
  | .and l r => cols l ++ cols r
  | .or l r => cols l ++ cols r
  | .not x => cols x
def colsL : AstList → List Bytes
  | .nil => []
  | .cons a t => cols a ++ colsL t
end

mutual
/-- the constants (and placeholders) of a predicate -/
def consts : Ast → List Ast
  | .col _ => []
  | .str s => [.str s]
  | .num n r => [.num n r]
  | .param n => [.param n]
  | .cmp _ l r => consts l ++ consts r
  | .between x lo hi => consts x ++ (consts lo ++ consts hi)
  | .inList x items => consts x ++ constsL items
  | .similar x p => consts x ++ consts p
  | .regex x p => consts x ++ consts p
  | .and l r => consts l ++ consts r
  | .or l r => consts l ++ consts r
  | .not x => consts x
def constsL : AstList → List Ast
  | .nil => []
  | .cons a t => consts a ++ constsL t
end

mutual
/-- the raw values at the leaves of a query tree (field names are `Prim.col`) -/
def leavesNode : Node → List Prim
  | .nil => []
  | .prim q => [q]
  | .expr e => leaves e
  | .list es => leavesList es
  | .bound mn mx _ => leavesNode mn ++ leavesNode mx
def leaves : Expr → List Prim
  | .mk l _ r _ _ => leavesNode l ++ leavesNode r
def leavesList : ExprList → List Prim
  | .nil => []
  | .cons e t => leaves e ++ leavesList t
end

/-- the SQL constants by which the renderer may write a value: itself; for a LIKE pattern its translation
    `*`→`%`, `?`→`_`; for a float range bound its `%.2f` text -/
def rendersOf : Prim → List Ast
  | .str s => [.str s, .str (starPattern s)]
  | .int i => [intAst i]
  | .flt f => [numTextAst (fmtG f), fixedAst f]
  | _ => []

/-- the conclusion of the C02 corollary for a predicate `a` and a tree with leaves `ls` -/
def FromLeaves (a : Ast) (ls : List Prim) : Prop :=
  (∀ c ∈ cols a, Prim.col c ∈ ls) ∧ (∀ k ∈ consts a, ∃ q ∈ ls, k ∈ rendersOf q)

theorem FromLeaves.mono {a : Ast} {ls ls' : List Prim} (h : FromLeaves a ls) (hs : ∀ q ∈ ls, q ∈ ls') :
    FromLeaves a ls' :=
  ⟨fun c hc => hs _ (h.1 c hc), fun k hk => by obtain ⟨q, hq, hk'⟩ := h.2 k hk; exact ⟨q, hs q hq, hk'⟩⟩

theorem astOfPrim_leaf {q : Prim} {c : Ast} (h : astOfPrim q = some c) :
    cols c = [] ∧ consts c = [c] ∧ c ∈ rendersOf q := by
  cases q with
  | str s => simp [astOfPrim] at h; subst h; simp [cols, consts, rendersOf]
  | int i => simp [astOfPrim] at h; subst h; simp [cols, consts, rendersOf, intAst]
  | flt f =>
    rw [astOfPrim_flt] at h; cases h
    have : ∃ n r, numTextAst (fmtG f) = .num n r := by
      unfold numTextAst; split <;> exact ⟨_, _, rfl⟩
    obtain ⟨n, r, e⟩ := this
    rw [e]; simp [cols, consts, rendersOf, e]
  | _ => simp [astOfPrim] at h

theorem numTextAst_leaf (t : Bytes) : cols (numTextAst t) = [] ∧ consts (numTextAst t) = [numTextAst t] := by
  unfold numTextAst; split <;> simp [cols, consts]

theorem listAst_leaves : ∀ (es : ExprList) (items : AstList), listAst es = some items →
    colsL items = [] ∧ ∀ k ∈ constsL items, ∃ q ∈ leavesList es, k ∈ rendersOf q
  | .nil, items, h => by simp [listAst] at h; subst h; simp [colsL, constsL]
  | .cons e t, items, h => by
    unfold listAst at h
    split at h
    · rename_i heq; cases heq
    · rename_i q bz fz t' heq
      cases heq
      split at h
      · rename_i a as ha has
        cases h
        obtain ⟨h1, h2, h3⟩ := astOfPrim_leaf ha
        obtain ⟨i1, i2⟩ := listAst_leaves t as has
        refine ⟨by simp [colsL, h1, i1], ?_⟩
        intro k hk
        simp only [constsL, h2, List.mem_append, List.mem_singleton] at hk
        rcases hk with rfl | hk
        · exact ⟨q, by simp [leavesList, leaves, leavesNode], h3⟩
        · obtain ⟨q', hq', hk'⟩ := i2 k hk
          exact ⟨q', by simp [leavesList, hq'], hk'⟩
      · cases h
    · cases h

theorem bnd_leaf_int {n : Node} {i : Int} (h : bndOf n = some (.int i)) : Prim.int i ∈ leavesNode n := by
  unfold bndOf at h
  split at h
  · split at h <;> cases h
  · cases h; simp [leavesNode, leaves]
  all_goals cases h

theorem bnd_leaf_flt {n : Node} {f : F64} (h : bndOf n = some (.flt f)) : Prim.flt f ∈ leavesNode n := by
  unfold bndOf at h
  split at h
  · split at h <;> cases h
  · cases h
  · cases h; simp [leavesNode, leaves]
  all_goals cases h

theorem bnd_leaf_str {n : Node} {s : Bytes} (h : bndOf n = some (.str s)) : Prim.str s ∈ leavesNode n := by
  unfold bndOf at h
  split at h
  · split at h <;> cases h
  · cases h
  · cases h
  · cases h; simp [leavesNode, leaves]
  · cases h

theorem intAst_leaf (i : Int) : cols (intAst i) = [] ∧ consts (intAst i) = [intAst i] := by
  simp [intAst, cols, consts]

theorem fixedAst_leaf (f : F64) : cols (fixedAst f) = [] ∧ consts (fixedAst f) = [fixedAst f] :=
  numTextAst_leaf _

/-- a comparison of the field with one constant that renders the value `q` -/
theorem fromLeaves_cmp (op : CmpOp) (f : Bytes) (k : Ast) (q : Prim) (ls : List Prim)
    (hk : cols k = [] ∧ consts k = [k]) (hr : k ∈ rendersOf q) (hf : Prim.col f ∈ ls) (hq : q ∈ ls) :
    FromLeaves (.cmp op (.col f) k) ls := by
  constructor
  · intro c hc
    simp only [cols, hk.1, List.append_nil, List.mem_singleton] at hc
    subst hc; exact hf
  · intro k' hk'
    simp only [consts, hk.2, List.nil_append, List.mem_singleton] at hk'
    subst hk'; exact ⟨q, hq, hr⟩

theorem FromLeaves.and {a c : Ast} {ls : List Prim} (h1 : FromLeaves a ls) (h2 : FromLeaves c ls) :
    FromLeaves (.and a c) ls := by
  constructor
  · intro x hx
    simp only [cols, List.mem_append] at hx
    rcases hx with hx | hx; exact h1.1 x hx; exact h2.1 x hx
  · intro x hx
    simp only [consts, List.mem_append] at hx
    rcases hx with hx | hx; exact h1.2 x hx; exact h2.2 x hx

theorem FromLeaves.or {a c : Ast} {ls : List Prim} (h1 : FromLeaves a ls) (h2 : FromLeaves c ls) :
    FromLeaves (.or a c) ls := by
  constructor
  · intro x hx
    simp only [cols, List.mem_append] at hx
    rcases hx with hx | hx; exact h1.1 x hx; exact h2.1 x hx
  · intro x hx
    simp only [consts, List.mem_append] at hx
    rcases hx with hx | hx; exact h1.2 x hx; exact h2.2 x hx

theorem FromLeaves.not {a : Ast} {ls : List Prim} (h1 : FromLeaves a ls) : FromLeaves (.not a) ls :=
  ⟨fun x hx => h1.1 x (by simpa [cols] using hx), fun x hx => h1.2 x (by simpa [consts] using hx)⟩

theorem field_leaf {l : Node} {f : Bytes} (h : fieldCol l = some f) : Prim.col f ∈ leavesNode l := by
  obtain ⟨p, d, rfl⟩ := fieldCol_inv h
  simp [leavesNode, leaves]

mutual
theorem fromLeaves_node : ∀ (n : Node) (a : Ast), toAstNode n = some a → FromLeaves a (leavesNode n)
  | .expr e, a, h => by simp only [toAstNode] at h; simp only [leavesNode]; exact fromLeaves_expr e a h
  | .nil, _, h => by simp [toAstNode] at h
  | .prim _, _, h => by simp [toAstNode] at h
  | .list _, _, h => by simp [toAstNode] at h
  | .bound _ _ _, _, h => by simp [toAstNode] at h
/-- every column reference of the intended predicate is a field of the tree and every constant renders a value of
    the tree (no hypothesis on the tree: this is a property of `toAst`) -/
theorem fromLeaves_expr : ∀ (e : Expr) (a : Ast), toAst e = some a → FromLeaves a (leaves e)
  | .mk l o r p d, a, h => by
    have hL : ∀ q ∈ leavesNode l, q ∈ leaves (.mk l o r p d) := fun q hq => by simp [leaves, hq]
    have hR : ∀ q ∈ leavesNode r, q ∈ leaves (.mk l o r p d) := fun q hq => by simp [leaves, hq]
    cases o
    case and =>
      simp only [toAst] at h
      split at h
      · rename_i x y hx hy
        cases h
        exact ((fromLeaves_node l x hx).mono hL).and ((fromLeaves_node r y hy).mono hR)
      · cases h
    case or =>
      simp only [toAst] at h
      split at h
      · rename_i x y hx hy
        cases h
        exact ((fromLeaves_node l x hx).mono hL).or ((fromLeaves_node r y hy).mono hR)
      · cases h
    case not =>
      simp only [toAst, Option.map_eq_some_iff] at h
      obtain ⟨x, hx, rfl⟩ := h
      exact ((fromLeaves_node l x hx).mono hL).not
    case mustNot =>
      simp only [toAst, Option.map_eq_some_iff] at h
      obtain ⟨x, hx, rfl⟩ := h
      exact ((fromLeaves_node l x hx).mono hL).not
    case must =>
      simp only [toAst] at h
      exact (fromLeaves_node l a h).mono hL
    case like =>
      simp only [toAst] at h
      split at h
      · rename_i f pat _ _ hf
        have hfl := hL _ (field_leaf hf)
        have hq := hR (.str pat) (by simp [leavesNode, leaves])
        split at h
        · cases h
          constructor
          · intro c hc; simp only [cols, List.append_nil, List.mem_singleton] at hc; subst hc; exact hfl
          · intro k hk; simp only [consts, List.nil_append, List.mem_singleton] at hk; subst hk
            exact ⟨_, hq, by simp [rendersOf]⟩
        · cases h
          constructor
          · intro c hc; simp only [cols, List.append_nil, List.mem_singleton] at hc; subst hc; exact hfl
          · intro k hk; simp only [consts, List.nil_append, List.mem_singleton] at hk; subst hk
            exact ⟨_, hq, by simp [rendersOf]⟩
      · cases h
    case in_ =>
      simp only [toAst] at h
      split at h
      · rename_i f es _ _ hf
        have hfl := hL _ (field_leaf hf)
        split at h
        · rename_i x xs hl
          cases h
          obtain ⟨i1, i2⟩ := listAst_leaves es _ hl
          constructor
          · intro c hc
            simp only [cols, i1, List.append_nil, List.mem_singleton] at hc
            subst hc; exact hfl
          · intro k hk
            simp only [consts, List.nil_append] at hk
            obtain ⟨q, hq, hk'⟩ := i2 k hk
            exact ⟨q, by simp [leaves, leavesNode, hq], hk'⟩
        · cases h
      · cases h
    case range =>
      simp only [toAst] at h
      split at h
      · rename_i f mn mx incl hf
        have hfl := hL _ (field_leaf hf)
        have hMn : ∀ q ∈ leavesNode mn, q ∈ leaves (.mk l .range (.bound mn mx incl) p d) :=
          fun q hq => by simp [leaves, leavesNode, hq]
        have hMx : ∀ q ∈ leavesNode mx, q ∈ leaves (.mk l .range (.bound mn mx incl) p d) :=
          fun q hq => by simp [leaves, leavesNode, hq]
        split at h
        · rename_i ba bc hba hbc
          cases ba <;> cases bc <;> simp only [rangeAst] at h <;> cases h
          · exact fromLeaves_cmp _ f _ _ _ (intAst_leaf _) (by simp [rendersOf]) hfl (hMx _ (bnd_leaf_int hbc))
          · exact fromLeaves_cmp _ f _ _ _ (fixedAst_leaf _) (by simp [rendersOf]) hfl (hMx _ (bnd_leaf_flt hbc))
          · exact fromLeaves_cmp _ f _ _ _ (intAst_leaf _) (by simp [rendersOf]) hfl (hMn _ (bnd_leaf_int hba))
          · exact (fromLeaves_cmp _ f _ _ _ (intAst_leaf _) (by simp [rendersOf]) hfl (hMn _ (bnd_leaf_int hba))).and
              (fromLeaves_cmp _ f _ _ _ (intAst_leaf _) (by simp [rendersOf]) hfl (hMx _ (bnd_leaf_int hbc)))
          · exact fromLeaves_cmp _ f _ _ _ (fixedAst_leaf _) (by simp [rendersOf]) hfl (hMn _ (bnd_leaf_flt hba))
          · exact (fromLeaves_cmp _ f _ _ _ (fixedAst_leaf _) (by simp [rendersOf]) hfl (hMn _ (bnd_leaf_flt hba))).and
              (fromLeaves_cmp _ f _ _ _ (fixedAst_leaf _) (by simp [rendersOf]) hfl (hMx _ (bnd_leaf_flt hbc)))
          · rename_i lo hi
            constructor
            · intro c hc
              simp only [cols, List.append_nil, List.mem_singleton] at hc
              subst hc; exact hfl
            · intro k hk
              simp only [consts, List.nil_append, List.mem_append, List.mem_cons,
                List.not_mem_nil, or_false] at hk
              rcases hk with rfl | rfl
              · exact ⟨_, hMn _ (bnd_leaf_str hba), by simp [rendersOf]⟩
              · exact ⟨_, hMx _ (bnd_leaf_str hbc), by simp [rendersOf]⟩
        · cases h
      · cases h
    case equals =>
      simp only [toAst] at h
      split at h
      · rename_i f c hf hcst
        cases h
        obtain ⟨q, p2, d2, rfl, hq⟩ := litAst_inv hcst
        obtain ⟨k1, k2, k3⟩ := astOfPrim_leaf hq
        exact fromLeaves_cmp _ f c q _ ⟨k1, k2⟩ k3 (hL _ (field_leaf hf)) (hR _ (by simp [leavesNode, leaves]))
      · cases h
    case greater =>
      simp only [toAst] at h
      split at h
      · rename_i f c hf hcst
        cases h
        obtain ⟨q, p2, d2, rfl, hq⟩ := litAst_inv hcst
        obtain ⟨k1, k2, k3⟩ := astOfPrim_leaf hq
        exact fromLeaves_cmp _ f c q _ ⟨k1, k2⟩ k3 (hL _ (field_leaf hf)) (hR _ (by simp [leavesNode, leaves]))
      · cases h
    case less =>
      simp only [toAst] at h
      split at h
      · rename_i f c hf hcst
        cases h
        obtain ⟨q, p2, d2, rfl, hq⟩ := litAst_inv hcst
        obtain ⟨k1, k2, k3⟩ := astOfPrim_leaf hq
        exact fromLeaves_cmp _ f c q _ ⟨k1, k2⟩ k3 (hL _ (field_leaf hf)) (hR _ (by simp [leavesNode, leaves]))
      · cases h
    case greaterEq =>
      simp only [toAst] at h
      split at h
      · rename_i f c hf hcst
        cases h
        obtain ⟨q, p2, d2, rfl, hq⟩ := litAst_inv hcst
        obtain ⟨k1, k2, k3⟩ := astOfPrim_leaf hq
        exact fromLeaves_cmp _ f c q _ ⟨k1, k2⟩ k3 (hL _ (field_leaf hf)) (hR _ (by simp [leavesNode, leaves]))
      · cases h
    case lessEq =>
      simp only [toAst] at h
      split at h
      · rename_i f c hf hcst
        cases h
        obtain ⟨q, p2, d2, rfl, hq⟩ := litAst_inv hcst
        obtain ⟨k1, k2, k3⟩ := astOfPrim_leaf hq
        exact fromLeaves_cmp _ f c q _ ⟨k1, k2⟩ k3 (hL _ (field_leaf hf)) (hR _ (by simp [leavesNode, leaves]))
      · cases h
    all_goals simp [toAst] at h
end

/-- COROLLARY (C02): every column reference of the predicate PostgreSQL parses from the rendered text is a field
    (a `Column` leaf) of the query tree, and every constant of it is a rendering of a value leaf of the tree. -/
theorem parsed_cols_consts (e : Expr) (t : Bytes) (a : Ast) (hc : cleanFilter e = true) (ht : textClean e = true)
    (hr : render pgFns e = .ok t) (hp : parseSql t = some a) :
    (∀ c ∈ cols a, Prim.col c ∈ leaves e) ∧ (∀ k ∈ consts a, ∃ q ∈ leaves e, k ∈ rendersOf q) := by
  rw [render_parses_iff e t hc ht hr] at hp
  split at hp
  · exact fromLeaves_expr e a hp
  · cases hp

/-! ## the hypotheses are not vacuous; `fltRT` is vacuous without float ranges -/

def isFltBound : Node → Bool
  | .expr (.mk (.prim (.flt _)) .literal .nil _ _) => true
  | _ => false

mutual
def noFloatRangeNode : Node → Bool
  | .expr e => noFloatRange e
  | _ => true
/-- no range of the tree has a float bound -/
def noFloatRange : Expr → Bool
  | .mk l o r _ _ =>
    match o with
    | .and | .or => noFloatRangeNode l && noFloatRangeNode r
    | .not | .mustNot | .must => noFloatRangeNode l
    | .range =>
      (match r with
       | .bound mn mx _ => !isFltBound mn && !isFltBound mx
       | _ => true)
    | _ => true
end

theorem fltBoundRT_of_not {n : Node} (h : isFltBound n = false) : fltBoundRT n = true := by
  unfold fltBoundRT
  split
  · simp [isFltBound] at h
  · rfl

mutual
theorem fltRTNode_of_noFloatRange : ∀ n : Node, noFloatRangeNode n = true → fltRTNode n = true
  | .expr e, h => by simp only [noFloatRangeNode] at h; simp only [fltRTNode]; exact fltRT_of_noFloatRange e h
  | .nil, _ => rfl
  | .prim _, _ => rfl
  | .list _, _ => rfl
  | .bound _ _ _, _ => rfl
/-- trees without float ranges satisfy `fltRT` -/
theorem fltRT_of_noFloatRange : ∀ e : Expr, noFloatRange e = true → fltRT e = true
  | .mk l o r p d, h => by
    cases o
    case and =>
      simp only [noFloatRange, Bool.and_eq_true] at h
      simp only [fltRT, Bool.and_eq_true]
      exact ⟨fltRTNode_of_noFloatRange l h.1, fltRTNode_of_noFloatRange r h.2⟩
    case or =>
      simp only [noFloatRange, Bool.and_eq_true] at h
      simp only [fltRT, Bool.and_eq_true]
      exact ⟨fltRTNode_of_noFloatRange l h.1, fltRTNode_of_noFloatRange r h.2⟩
    case not => simp only [noFloatRange] at h; simp only [fltRT]; exact fltRTNode_of_noFloatRange l h
    case mustNot => simp only [noFloatRange] at h; simp only [fltRT]; exact fltRTNode_of_noFloatRange l h
    case must => simp only [noFloatRange] at h; simp only [fltRT]; exact fltRTNode_of_noFloatRange l h
    case range =>
      simp only [noFloatRange] at h
      simp only [fltRT]
      split
      · simp only [Bool.and_eq_true, Bool.not_eq_true'] at h
        simp only [Bool.and_eq_true]
        exact ⟨fltBoundRT_of_not h.1, fltBoundRT_of_not h.2⟩
      · rfl
    all_goals rfl
end

/-- `a:x AND n:[-3 TO 5] AND c:(1 OR y) AND NOT b:f*o?` (the example tree of SqlMeaning) -/
example : cleanFilter exTree = true ∧ textClean exTree = true ∧ fltRT exTree = true ∧ stackOK exTree = true ∧
    depthOK exTree = true ∧ noFloatRange exTree = true := by decide +kernel

/-- `x:{1.5 TO 2.25}`: a float range whose bounds `strconv.ParseFloat` reads back -/
example : cleanFilter exFloat = true ∧ textClean exFloat = true ∧ fltRT exFloat = true ∧ stackOK exFloat = true ∧
    depthOK exFloat = true := by decide +kernel

/-- `x:[* TO 1.5]` and `x:{2.25 TO *}`: OPEN float ranges (covered since fix F12) -/
example : cleanFilter exFloatUpTo = true ∧ textClean exFloatUpTo = true ∧ fltRT exFloatUpTo = true ∧
    stackOK exFloatUpTo = true ∧ depthOK exFloatUpTo = true := by decide +kernel
example : cleanFilter exFloatFrom = true ∧ textClean exFloatFrom = true ∧ fltRT exFloatFrom = true ∧
    stackOK exFloatFrom = true ∧ depthOK exFloatFrom = true := by decide +kernel

/-- the theorem applied: the text of the example tree, and what PostgreSQL reads -/
example : ∃ t, render pgFns exTree = .ok t ∧ parseSql t = toAst exTree := by
  obtain ⟨t, ht⟩ := toAst_renders exTree (by decide +kernel) (by decide +kernel)
  exact ⟨t, ht, render_parses exTree t (by decide +kernel) (by decide +kernel) (by decide +kernel) ht⟩

/-- the theorems applied to the open float range `x:[* TO 1.5]`: the text is `"x" <= 1.50`, PostgreSQL reads it as
    the intended predicate, and that predicate means the query -/
example : ∃ t a, render pgFns exFloatUpTo = .ok t ∧ parseSql t = some a ∧ toAst exFloatUpTo = some a ∧
    ∀ row, evalSql row a = evalL row exFloatUpTo := by
  obtain ⟨t, ht⟩ := toAst_renders exFloatUpTo (by decide +kernel) (by decide +kernel)
  obtain ⟨a, ha⟩ := toAst_total exFloatUpTo (by decide +kernel)
  have hp := render_parses exFloatUpTo t (by decide +kernel) (by decide +kernel) (by decide +kernel) ht
  exact ⟨t, a, ht, hp.trans ha, ha, sql_means_query exFloatUpTo a (by decide +kernel) ha⟩

/-- `x:[* TO 2.0]`: a float bound whose `%v` text is an integer numeral.  `rang` reads it with `strconv.Atoi` and
    prints `%d` (`"x" <= 2`), while `toAst` mirrors the `%.2f` layout (`2.00`): the clause `!(atoi (fmtG hi)).isSome` of
    `cleanBounds` for an open float range (as the corresponding clause for two-sided ones) is needed by the TEXT
    theorem (the two predicates mean the same; the wide fragment `SqlWide.toAstW` follows `rang` exactly) -/
def cexIntLike : Expr := .mk (exField [120]) .range (.bound exStar (exLit (.flt ⟨0x4000000000000000⟩)) true) F64.one 1
theorem need_not_intlike_open : cleanFilter cexIntLike = false ∧ textClean cexIntLike = true ∧
    render pgFns cexIntLike = .ok (b "\"x\" <= 2") ∧ (parseSql (b "\"x\" <= 2") == toAst cexIntLike) = false ∧
    (toAst cexIntLike).isSome = true := by decide +kernel

/-! ## the depth hypothesis cannot be dropped -/

/-- `NOT(NOT(… "a" = 1 …))`, `n` times -/
def deepNot : Nat → Expr
  | 0 => .mk (exField [97]) .equals (exLit (.int 1)) F64.one 1
  | n + 1 => .mk (.expr (deepNot n)) .not .nil F64.one 1

theorem deepNot_clean : ∀ n, cleanFilter (deepNot n) = true ∧ textClean (deepNot n) = true ∧ fltRT (deepNot n) = true
  | 0 => by decide +kernel
  | n + 1 => by
    have := deepNot_clean n
    simp only [deepNot, cleanFilter, cleanNode, textClean, textNode, fltRT, fltRTNode, this, Node.isNil, Bool.and_self,
      and_self]

theorem deepNot_peak : ∀ n, ∃ c, toCst (deepNot n) = some c ∧ ∀ d, d + 2 * n ≤ c.peak d
  | 0 => ⟨_, rfl, fun d => by simp [Cst.peak, emb]; omega⟩
  | n + 1 => by
    obtain ⟨c, hc, hp⟩ := deepNot_peak n
    refine ⟨.not (.paren c), by simp only [deepNot, toCst, toCstNode, hc, Option.map_some], fun d => ?_⟩
    have := hp (d + 1 + 1)
    simp only [Cst.peak]; omega

theorem need_depth_n (n : Nat) (hn : 4496 ≤ n) : ∃ t, cleanFilter (deepNot n) = true ∧ textClean (deepNot n) = true ∧
    render pgFns (deepNot n) = .ok t ∧ parseSql t = none ∧ (toAst (deepNot n)).isSome = true := by
  obtain ⟨hc, ht, hf⟩ := deepNot_clean n
  obtain ⟨t, hr⟩ := toAst_renders _ hc ht
  obtain ⟨a, ha⟩ := toAst_total _ hc
  obtain ⟨c, hcst, hp⟩ := deepNot_peak n
  refine ⟨t, hc, ht, hr, ?_, by rw [ha]; rfl⟩
  rw [render_parses_iff_of_fltRT _ t hc ht hf hr]
  have : stackOK (deepNot n) = false := by
    have := hp frameDepth
    simp only [stackOK, hcst, decide_eq_false_iff_not]
    have e1 : maxStack = 9000 := rfl
    have e2 : frameDepth = 8 := rfl
    rw [e1]; rw [e2] at this ⊢; omega
  rw [this]; rfl

/-- NECESSITY of the depth hypothesis: a clean query (4500 nested NOTs) whose rendered text PostgreSQL rejects
    ("memory exhausted": the parser stack), although the intended predicate exists -/
theorem need_depth : ∃ e t, cleanFilter e = true ∧ textClean e = true ∧ render pgFns e = .ok t ∧
    parseSql t = none ∧ (toAst e).isSome = true := by
  obtain ⟨t, h⟩ := need_depth_n 4500 (by decide)
  exact ⟨_, t, h⟩

end GoLucene.SqlText

#print axioms GoLucene.SqlText.render_parses
#print axioms GoLucene.SqlText.render_parses_stack
#print axioms GoLucene.SqlText.render_parses_iff
#print axioms GoLucene.SqlText.fltRT_of_clean
#print axioms GoLucene.SqlText.need_depth
#print axioms GoLucene.SqlText.need_not_intlike_open
#print axioms GoLucene.SqlText.rendered_sql_means_query
#print axioms GoLucene.SqlText.parsed_cols_consts
#print axioms GoLucene.SqlText.render_parses_of_fltRT
#print axioms GoLucene.SqlText.render_parses_iff_of_fltRT
#print axioms GoLucene.SqlText.render_parses_stack_of_fltRT
