import GoLucene.Proofs.SqlText3
/-
  SqlText, part 4: the renderer's text.  `toCst e` is the concrete syntax tree (the intended predicate `toAst e` plus
  the parentheses the renderer writes); on the clean fragment `render pgFns e = .ok (cstText (toCst e))`, and
  `toCst e` has the rendered shape `RE`.
-/
namespace GoLucene.SqlText
open GoLucene Sql SqlMeaning

/-! ## the intended predicate with the renderer's parentheses -/

mutual
/-- an `Ast` as a concrete syntax tree without any parentheses -/
def emb : Ast → Cst
  | .col n => .col n
  | .str s => .str s
  | .num n r => .num n r
  | .param n => .param n
  | .cmp op l r => .cmp op (emb l) (emb r)
  | .between x lo hi => .between (emb x) (emb lo) (emb hi)
  | .inList x items => .inList (emb x) (embList items)
  | .similar x p => .similar (emb x) (emb p)
  | .regex x p => .regex (emb x) (emb p)
  | .and l r => .and (emb l) (emb r)
  | .or l r => .or (emb l) (emb r)
  | .not x => .not (emb x)
def embList : AstList → CstList
  | .nil => .nil
  | .cons a t => .cons (emb a) (embList t)
end

mutual
theorem emb_toAst : ∀ a : Ast, (emb a).toAst = a
  | .col _ => rfl
  | .str _ => rfl
  | .num _ _ => rfl
  | .param _ => rfl
  | .cmp op l r => by simp only [emb, Cst.toAst, emb_toAst l, emb_toAst r]
  | .between x lo hi => by simp only [emb, Cst.toAst, emb_toAst x, emb_toAst lo, emb_toAst hi]
  | .inList x items => by simp only [emb, Cst.toAst, emb_toAst x, embList_toAst items]
  | .similar x p => by simp only [emb, Cst.toAst, emb_toAst x, emb_toAst p]
  | .regex x p => by simp only [emb, Cst.toAst, emb_toAst x, emb_toAst p]
  | .and l r => by simp only [emb, Cst.toAst, emb_toAst l, emb_toAst r]
  | .or l r => by simp only [emb, Cst.toAst, emb_toAst l, emb_toAst r]
  | .not x => by simp only [emb, Cst.toAst, emb_toAst x]
theorem embList_toAst : ∀ l : AstList, (embList l).toAstList = l
  | .nil => rfl
  | .cons a t => by simp only [embList, CstList.toAstList, emb_toAst a, embList_toAst t]
end

mutual
def toCstNode : Node → Option Cst
  | .expr e => toCst e
  | _ => none
/-- the concrete syntax tree of the text `render pgFns e`: AND / OR / NOT put their operands in parentheses,
    `must` does not, a predicate is written without parentheses -/
def toCst : Expr → Option Cst
  | .mk l o r p d =>
    match o with
    | .and =>
      (match toCstNode l, toCstNode r with
       | some a, some c => some (.and (.paren a) (.paren c))
       | _, _ => none)
    | .or =>
      (match toCstNode l, toCstNode r with
       | some a, some c => some (.or (.paren a) (.paren c))
       | _, _ => none)
    | .not | .mustNot => (toCstNode l).map (fun x => .not (.paren x))
    | .must => toCstNode l
    | .equals | .greater | .less | .greaterEq | .lessEq | .like | .in_ | .range => (toAst (.mk l o r p d)).map emb
    | _ => none
end

mutual
theorem toCstNode_toAst : ∀ n : Node, toAstNode n = (toCstNode n).map Cst.toAst
  | .expr e => by simp only [toAstNode, toCstNode]; exact toCst_toAst e
  | .nil => rfl
  | .prim _ => rfl
  | .list _ => rfl
  | .bound _ _ _ => rfl
/-- forgetting the parentheses gives the intended predicate -/
theorem toCst_toAst : ∀ e : Expr, toAst e = (toCst e).map Cst.toAst
  | .mk l o r p d => by
    cases o
    case and =>
      simp only [toAst, toCst, toCstNode_toAst l, toCstNode_toAst r]
      cases toCstNode l <;> cases toCstNode r <;> rfl
    case or =>
      simp only [toAst, toCst, toCstNode_toAst l, toCstNode_toAst r]
      cases toCstNode l <;> cases toCstNode r <;> rfl
    case not =>
      simp only [toAst, toCst, toCstNode_toAst l]
      cases toCstNode l <;> rfl
    case mustNot =>
      simp only [toAst, toCst, toCstNode_toAst l]
      cases toCstNode l <;> rfl
    case must =>
      simp only [toAst, toCst, toCstNode_toAst l]
    all_goals first
      | (simp only [toCst]
         cases toAst _ <;> simp [emb_toAst]; done)
      | rfl
end

/-! ## `strconv.ParseFloat` inverts `%v` on the float bounds of the tree (hypothesis of the main theorem) -/

def fltBoundRT : Node → Bool
  | .expr (.mk (.prim (.flt f)) .literal .nil _ _) => parseFloat (fmtG f) == some f
  | _ => true

mutual
def fltRTNode : Node → Bool
  | .expr e => fltRT e
  | _ => true
/-- every float bound of a range of the tree is read back from its `%v` text by `strconv.ParseFloat` -/
def fltRT : Expr → Bool
  | .mk l o r _ _ =>
    match o with
    | .and | .or => fltRTNode l && fltRTNode r
    | .not | .mustNot | .must => fltRTNode l
    | .range =>
      (match r with
       | .bound mn mx _ => fltBoundRT mn && fltBoundRT mx
       | _ => true)
    | _ => true
end


/-! ## fixed texts -/

theorem b_eq' : b " = " = opText .eq := by decide
theorem b_gt : b " > " = opText .gt := by decide
theorem b_lt : b " < " = opText .lt := by decide
theorem b_ge : b " >= " = opText .ge := by decide
theorem b_le : b " <= " = opText .le := by decide
theorem b_and : b " AND " = [32, 65, 78, 68, 32] := by decide
theorem b_or : b " OR " = [32, 79, 82, 32] := by decide
theorem b_in : b " IN " = [32, 73, 78, 32] := by decide
theorem b_similar : b " SIMILAR TO " = [32, 83, 73, 77, 73, 76, 65, 82, 32, 84, 79, 32] := by decide
theorem b_between : b " BETWEEN " = [32, 66, 69, 84, 87, 69, 69, 78, 32] := by decide
theorem b_notp : b "NOT(" = [78, 79, 84, 40] := by decide
theorem b_rp : b ")" = [41] := by decide
theorem b_lp : b "(" = [40] := by decide
theorem b_commaSp : b ", " = [44, 32] := by decide

/-! ## leaves -/

/-- a value leaf: its text is the text of the constant PostgreSQL is meant to read -/
theorem value_atom (q : Prim) (hq : cleanPrim q = true) (ht : primText q = true) :
    ∃ a, astOfPrim q = some a ∧ Atom (emb a) ∧ primTextOf q = cstText (emb a) := by
  cases q with
  | str s => exact ⟨.str s, rfl, Atom.str s (primText_noNul ht), by simp [primTextOf, emb, cstText]⟩
  | int i =>
    refine ⟨.num (decide (i < 0)) (fmtInt i.natAbs), rfl, ?_, ?_⟩
    · rw [emb, fmtInt_nat]; exact Atom.num _ _ (numShape_natDigits _)
    · simp only [primTextOf, fmtVPrim, emb, cstText, fmtInt_nat, decide_eq_true_eq]
      rfl
  | flt f =>
    have hf : f.isFinite = true := by simpa [cleanPrim] using hq
    obtain ⟨body, hb, he⟩ := fmtG_shape f hf
    refine ⟨.num f.isNeg body, ?_, ?_, ?_⟩
    · rw [astOfPrim_flt, he, numTextAst_signed _ _ hb]
    · rw [emb]; exact Atom.num _ _ hb
    · simp only [primTextOf, fmtVPrim, emb, cstText_num, he]
  | _ => simp [cleanPrim] at hq

/-- a field position -/
theorem field_atom {l : Node} (h : fieldText l = true) :
    ∃ f p d, l = .expr (.mk (.prim (.col f)) .literal .nil p d) ∧ Atom (.col f) ∧ isSimple l = true ∧
      serialize pgFns l = .ok (cstText (.col f)) := by
  obtain ⟨f, p, d, rfl, hs, hser⟩ := render_field h
  refine ⟨f, p, d, rfl, ?_, hs, by simpa [cstText] using hser⟩
  simp only [fieldText, fieldCol, Bool.and_eq_true, Bool.not_eq_true'] at h
  refine Atom.col f ?_ ?_ ?_
  · intro e; subst e; simp at h
  · intro c hc e; subst e
    have := List.any_eq_false.mp h.1.2 34 hc
    simp at this
  · intro c hc
    exact textOk_noNul h.2 c (by simp [hc])

theorem clean_notSimple {n : Node} (h : cleanNode n = true) : isSimple n = false := by
  cases n with
  | expr e =>
    obtain ⟨l, o, r, p, d⟩ := e
    simp only [cleanNode] at h
    cases o <;> simp [cleanFilter] at h <;> simp [isSimple, Expr.op]
  | nil => simp [cleanNode] at h
  | prim _ => simp [cleanNode] at h
  | list _ => simp [cleanNode] at h
  | bound _ _ _ => simp [cleanNode] at h

theorem isSimple_lit (x : Node) (o : Op) (y : Node) (p : F64) (d : Int) (ho : o = .literal ∨ o = .wild) :
    isSimple (.expr (.mk x o y p d)) = true := by
  rcases ho with rfl | rfl <;> simp [isSimple, Expr.op]


/-- what is proved about each expression of the fragment: its concrete syntax tree, that the tree has the rendered
    shape, and that the renderer's text is the text of the tree -/
def Good (e : Expr) (c : Cst) : Prop := toCst e = some c ∧ RE c ∧ render pgFns e = .ok (cstText c)

theorem cstText_cmp (op : CmpOp) (l r : Cst) : cstText (.cmp op l r) = cstText l ++ opText op ++ cstText r := by
  rw [cstText]
theorem cstText_str (s : Bytes) : cstText (.str s) = sqlQuote s := by rw [cstText]
theorem cstText_similar (x p : Cst) :
    cstText (.similar x p) = cstText x ++ [32, 83, 73, 77, 73, 76, 65, 82, 32, 84, 79, 32] ++ cstText p := by
  rw [cstText]
theorem cstText_between (x lo hi : Cst) : cstText (.between x lo hi) =
    cstText x ++ [32, 66, 69, 84, 87, 69, 69, 78, 32] ++ cstText lo ++ [32, 65, 78, 68, 32] ++ cstText hi := by
  rw [cstText]
theorem cstText_inList (x : Cst) (items : CstList) :
    cstText (.inList x items) = cstText x ++ [32, 73, 78, 32] ++ ([40] ++ listText items ++ [41]) := by
  rw [cstText]
theorem cstText_and (l r : Cst) : cstText (.and l r) = cstText l ++ [32, 65, 78, 68, 32] ++ cstText r := by
  rw [cstText]
theorem cstText_or (l r : Cst) : cstText (.or l r) = cstText l ++ [32, 79, 82, 32] ++ cstText r := by
  rw [cstText]
theorem cstText_not (x : Cst) : cstText (.not x) = [78, 79, 84] ++ cstText x := by rw [cstText]
theorem cstText_paren (x : Cst) : cstText (.paren x) = [40] ++ cstText x ++ [41] := by rw [cstText]

theorem joinWith_cons2 (sep x y : Bytes) (ys : List Bytes) :
    joinWith sep (x :: y :: ys) = x ++ sep ++ joinWith sep (y :: ys) := rfl

theorem good_cmp (l r : Node) (o : Op) (p : F64) (d : Int)
    (ho : o = .equals ∨ o = .greater ∨ o = .less ∨ o = .greaterEq ∨ o = .lessEq)
    (hcv : cleanValue r = true) (htl : fieldText l = true) (htv : valueText r = true) :
    ∃ c, Good (.mk l o r p d) c := by
  obtain ⟨f, p1, d1, rfl, hA, hsim, hx⟩ := field_atom htl
  obtain ⟨q, p2, d2, rfl, hq⟩ := cleanValue_inv hcv
  obtain ⟨a, ha, hAa, htxt⟩ := value_atom q hq htv
  have hy := render_leaf q .literal p2 d2 (.inl rfl) (isValPrim_of_clean hq) htv
  rw [← serialize_expr] at hy
  have hs2 := isSimple_lit (.prim q) .literal .nil p2 d2 (.inl rfl)
  refine ⟨.cmp (cmpOfOp o) (.col f) (emb a), ?_, RE.leaf (Leaf.cmp _ hA hAa), ?_⟩
  · rcases ho with rfl | rfl | rfl | rfl | rfl <;> simp [toCst, toAst, fieldCol, litAst, ha, emb]
  · rw [cstText_cmp, ← htxt]
    rcases ho with rfl | rfl | rfl | rfl | rfl
    · rw [render_of _ _ _ _ _ _ _ _ hx hy (rfl : pgFns .equals = some (fnInfix " = "))]
      simp only [hsim, hs2, Bool.not_true, Bool.and_false, Bool.false_eq_true, ↓reduceIte, fnInfix_ok, b_eq', cmpOfOp]
    · rw [render_of _ _ _ _ _ _ _ _ hx hy (rfl : pgFns .greater = some (fnInfix " > "))]
      simp only [hsim, hs2, Bool.not_true, Bool.and_false, Bool.false_eq_true, ↓reduceIte, fnInfix_ok, b_gt, cmpOfOp]
    · rw [render_of _ _ _ _ _ _ _ _ hx hy (rfl : pgFns .less = some (fnInfix " < "))]
      simp only [hsim, hs2, Bool.not_true, Bool.and_false, Bool.false_eq_true, ↓reduceIte, fnInfix_ok, b_lt, cmpOfOp]
    · rw [render_of _ _ _ _ _ _ _ _ hx hy (rfl : pgFns .greaterEq = some (fnInfix " >= "))]
      simp only [hsim, hs2, Bool.not_true, Bool.and_false, Bool.false_eq_true, ↓reduceIte, fnInfix_ok, b_ge, cmpOfOp]
    · rw [render_of _ _ _ _ _ _ _ _ hx hy (rfl : pgFns .lessEq = some (fnInfix " <= "))]
      simp only [hsim, hs2, Bool.not_true, Bool.and_false, Bool.false_eq_true, ↓reduceIte, fnInfix_ok, b_le, cmpOfOp]


theorem good_like (l r : Node) (p : F64) (d : Int)
    (hcp : cleanPattern r = true) (htl : fieldText l = true) (htv : valueText r = true) :
    ∃ c, Good (.mk l .like r p d) c := by
  obtain ⟨f, p1, d1, rfl, hA, hsim, hx⟩ := field_atom htl
  obtain ⟨pat, p2, d2, rfl, _, _, hre⟩ := cleanPattern_inv hcp
  have hy := render_leaf (.str pat) .wild p2 d2 (.inr rfl) rfl htv
  rw [← serialize_expr] at hy
  have hs2 := isSimple_lit (.prim (.str pat)) .wild .nil p2 d2 (.inr rfl)
  have h0 : ∀ c ∈ starPattern pat, c ≠ 0 := starPattern_noNul (primText_noNul htv)
  refine ⟨.similar (.col f) (.str (starPattern pat)), ?_, RE.leaf (Leaf.similar hA (Atom.str _ h0)), ?_⟩
  · simp [toCst, toAst, fieldCol, hre, emb]
  · rw [render_of _ _ _ _ _ _ _ _ hx hy (rfl : pgFns .like = some fnLike)]
    simp only [hsim, hs2, Bool.not_true, Bool.and_false, Bool.false_eq_true, ↓reduceIte, primTextOf]
    rw [fnLike_quoted _ _ hre, starPattern_sqlQuote, b_similar, cstText_similar, cstText_str]

/-- a non-empty value list: texts joined by `, ` -/
theorem items_good : ∀ (e : Expr) (t : ExprList), cleanItems (.cons e t) = true → itemsText (.cons e t) = true →
    ∃ a as s ss, listAst (.cons e t) = some (.cons a as) ∧ serializeList pgFns (.cons e t) = .ok (s :: ss) ∧
      Atoms (embList (.cons a as)) ∧ joinWith (b ", ") (s :: ss) = listText (embList (.cons a as))
  | e, .nil, hc, ht => by
    unfold cleanItems at hc
    split at hc
    · rename_i heq; cases heq
    · rename_i q bz fz t' heq
      cases heq
      simp only [Bool.and_eq_true] at hc
      simp only [itemsText, Bool.and_eq_true] at ht
      obtain ⟨a, ha, hAa, htxt⟩ := value_atom q hc.1 ht.1
      refine ⟨a, .nil, primTextOf q, [], ?_, ?_, ?_, ?_⟩
      · simp [listAst, ha]
      · simp only [serializeList, render_leaf q .literal bz fz (.inl rfl) (isValPrim_of_clean hc.1) ht.1]
      · exact Atoms.one hAa
      · simp only [joinWith, embList, listText, htxt]
    · cases hc
  | e, .cons e' t', hc, ht => by
    unfold cleanItems at hc
    split at hc
    · rename_i heq; cases heq
    · rename_i q bz fz t'' heq
      cases heq
      simp only [Bool.and_eq_true] at hc
      simp only [itemsText, Bool.and_eq_true] at ht
      obtain ⟨a, ha, hAa, htxt⟩ := value_atom q hc.1 ht.1
      obtain ⟨a', as', s', ss', hl', hs', hat', hj'⟩ := items_good e' t' hc.2 (by simpa [itemsText] using ht.2)
      refine ⟨a, .cons a' as', primTextOf q, s' :: ss', ?_, ?_, ?_, ?_⟩
      · simp [listAst, ha, hl']
      · rw [serializeList, render_leaf q .literal bz fz (.inl rfl) (isValPrim_of_clean hc.1) ht.1, hs']
      · exact Atoms.cons hAa hat'
      · simp only [embList] at hj' ⊢
        rw [joinWith_cons2, hj', listText, htxt, b_commaSp]
    · cases hc

theorem good_in (l : Node) (e : Expr) (t : ExprList) (p2 : F64) (d2 : Int) (p : F64) (d : Int)
    (hcl' : cleanItems (.cons e t) = true) (htl : fieldText l = true) (hti : itemsText (.cons e t) = true) :
    ∃ c, Good (.mk l .in_ (.expr (.mk (.list (.cons e t)) .list .nil p2 d2)) p d) c := by
  obtain ⟨f, p1, d1, rfl, hA, hsim, hx⟩ := field_atom htl
  obtain ⟨a, as, s0, ss, hla, hss, hat, hj⟩ := items_good e t hcl' hti
  have hl : serialize pgFns (.list (.cons e t)) = .ok (joinWith (b ", ") (s0 :: ss)) := by
    simp only [serialize, hss]
  have hy : serialize pgFns (.expr (.mk (.list (.cons e t)) .list .nil p2 d2)) =
      .ok ([40] ++ joinWith (b ", ") (s0 :: ss) ++ [41]) := by
    rw [serialize_expr, render_of _ _ _ _ _ _ _ _ hl serialize_nil (rfl : pgFns .list = some fnList)]
    rfl
  refine ⟨.inList (.col f) (embList (.cons a as)), ?_, RE.leaf (Leaf.inList hA hat), ?_⟩
  · simp [toCst, toAst, fieldCol, hla, emb]
  · rw [render_of _ _ _ _ _ _ _ _ hx hy (rfl : pgFns .in_ = some (fnInfix " IN "))]
    have hs2 : isSimple (.expr (.mk (.list (.cons e t)) .list .nil p2 d2)) = false := by simp [isSimple, Expr.op]
    have hp : parenOps .in_ = false := by decide
    simp only [hp, Bool.false_and, Bool.false_eq_true, ↓reduceIte, fnInfix_ok, b_in, hj, cstText_inList]


/-! ## ranges -/

theorem allNum_ne_starQ {s : Bytes} (h : AllNum s) : (s == starQ) = false := by
  cases hq : s == starQ with
  | false => rfl
  | true =>
    have : s = starQ := by simpa using hq
    subst this
    have := h 39 (by decide)
    revert this; decide

theorem allNum_ne_star {s : Bytes} (h : AllNum s) : (s == b "*") = false := by
  cases hq : s == b "*" with
  | false => rfl
  | true =>
    have : s = b "*" := by simpa using hq
    subst this
    have := h 42 (by decide)
    revert this; decide

theorem sqlQuote_ne_star (s : Bytes) : (sqlQuote s == b "*") = false := by
  cases hq : sqlQuote s == b "*" with
  | false => rfl
  | true =>
    have h : sqlQuote s = b "*" := by simpa using hq
    have := congrArg List.length h
    have h2 := sqlQuote_length s
    rw [this] at h2
    have h3 : (b "*").length = 1 := by decide
    omega

theorem sqlQuote_ne_starQ (s : Bytes) (h : (s != [42]) = true) : (sqlQuote s == starQ) = false := by
  cases hq : sqlQuote s == starQ with
  | false => rfl
  | true =>
    exfalso
    have he : sqlQuote s = starQ := by simpa using hq
    have hne : s ≠ [42] := by simpa using h
    match s, he, hne with
    | [], he, _ => revert he; decide
    | [c], he, hne =>
      by_cases hc : c = 39
      · subst hc; revert he; decide
      · have : (c == 39) = false := by simpa using hc
        simp [sqlQuote, replaceByte_cons, this, starQ, replaceByte_nil] at he
        have e42 : c = 42 := by
          have := he
          revert this
          intro h'
          have hb : b "'*'" = [39, 42, 39] := by decide
          rw [hb] at h'
          simpa using h'
        exact hne (by rw [e42])
    | c :: c' :: t, he, _ =>
      have := congrArg List.length he
      have h2 := sqlQuote_length (c :: c' :: t)
      rw [this] at h2
      have h3 : starQ.length = 3 := by decide
      simp only [List.length_cons] at h2
      omega

theorem opText_lo (incl : Bool) : (if incl then b " >= " else b " > ") = opText (loOp incl) := by
  cases incl <;> decide
theorem opText_hi (incl : Bool) : (if incl then b " <= " else b " < ") = opText (hiOp incl) := by
  cases incl <;> decide

theorem atoi_starQ : atoi starQ = none := by decide

/-- the two-sided layout of `rangeCmp` -/
theorem rangeCmp_two (left : Bytes) (incl : Bool) (rawMin rawMax smin smax : Bytes)
    (h1 : (rawMin == starQ) = false) (h2 : (rawMax == starQ) = false) :
    rangeCmp left incl rawMin rawMax smin smax =
      left ++ opText (loOp incl) ++ smin ++ [32, 65, 78, 68, 32] ++ left ++ opText (hiOp incl) ++ smax := by
  unfold rangeCmp
  simp only [h1, h2, Bool.false_eq_true, ↓reduceIte]
  cases incl
  · simp only [Bool.false_eq_true, ↓reduceIte, b_and, loOp, hiOp, ← b_gt, ← b_lt]
  · simp only [↓reduceIte, b_and, loOp, hiOp, ← b_ge, ← b_le]

theorem rangeCmp_upper (left : Bytes) (incl : Bool) (rawMax smin smax : Bytes) :
    rangeCmp left incl starQ rawMax smin smax = left ++ opText (hiOp incl) ++ smax := by
  unfold rangeCmp
  simp only [beq_self_eq_true, ↓reduceIte, opText_hi]

theorem rangeCmp_lower (left : Bytes) (incl : Bool) (rawMin smin smax : Bytes) (h1 : (rawMin == starQ) = false) :
    rangeCmp left incl rawMin starQ smin smax = left ++ opText (loOp incl) ++ smin := by
  unfold rangeCmp
  simp only [h1, beq_self_eq_true, Bool.false_eq_true, ↓reduceIte, opText_lo]

theorem rangeText_int_int (left : Bytes) (incl : Bool) (lo hi : Int) (h1 : inInt64 lo = true) (h2 : inInt64 hi = true) :
    rangeText left incl (fmtInt lo) (fmtInt hi) =
      left ++ opText (loOp incl) ++ fmtInt lo ++ [32, 65, 78, 68, 32] ++ left ++ opText (hiOp incl) ++ fmtInt hi := by
  have e1 := allNum_ne_starQ (fmtInt_numCh lo)
  have e2 := allNum_ne_starQ (fmtInt_numCh hi)
  unfold rangeText toInts
  simp only [e1, e2, Bool.false_eq_true, ↓reduceIte, atoi_fmtInt lo h1, atoi_fmtInt hi h2]
  exact rangeCmp_two _ _ _ _ _ _ e1 e2

theorem rangeText_star_int (left : Bytes) (incl : Bool) (hi : Int) (h2 : inInt64 hi = true) :
    rangeText left incl starQ (fmtInt hi) = left ++ opText (hiOp incl) ++ fmtInt hi := by
  have e2 := allNum_ne_starQ (fmtInt_numCh hi)
  unfold rangeText toInts
  simp only [beq_self_eq_true, e2, Bool.false_eq_true, ↓reduceIte, atoi_fmtInt hi h2, atoi_starQ, Option.getD_none]
  exact rangeCmp_upper _ _ _ _ _

theorem rangeText_int_star (left : Bytes) (incl : Bool) (lo : Int) (h1 : inInt64 lo = true) :
    rangeText left incl (fmtInt lo) starQ = left ++ opText (loOp incl) ++ fmtInt lo := by
  have e1 := allNum_ne_starQ (fmtInt_numCh lo)
  unfold rangeText toInts
  simp only [beq_self_eq_true, e1, Bool.false_eq_true, ↓reduceIte, atoi_fmtInt lo h1, atoi_starQ, Option.getD_none]
  exact rangeCmp_lower _ _ _ _ _ e1

theorem rangeText_flt_flt (left : Bytes) (incl : Bool) (lo hi : F64)
    (hi1 : ((atoi (fmtG lo)).isSome && (atoi (fmtG hi)).isSome) = false)
    (r1 : parseFloat (fmtG lo) = some lo) (r2 : parseFloat (fmtG hi) = some hi) :
    rangeText left incl (fmtG lo) (fmtG hi) =
      left ++ opText (loOp incl) ++ fmtFixed lo 2 ++ [32, 65, 78, 68, 32] ++ left ++ opText (hiOp incl) ++ fmtFixed hi 2 := by
  have e1 := allNum_ne_starQ (fmtG_allNum lo)
  have e2 := allNum_ne_starQ (fmtG_allNum hi)
  have ti : toInts (fmtG lo) (fmtG hi) = none := by
    unfold toInts
    simp only [e1, e2, Bool.false_eq_true, ↓reduceIte]
    cases h1 : atoi (fmtG lo) with
    | none => rfl
    | some a =>
      cases h2 : atoi (fmtG hi) with
      | none => rfl
      | some c => simp [h1, h2] at hi1
  have tf : toFloats (fmtG lo) (fmtG hi) = some (lo, hi) := by
    unfold toFloats
    simp only [e1, e2, Bool.false_eq_true, ↓reduceIte, r1, r2]
  unfold rangeText
  simp only [ti, tf]
  exact rangeCmp_two _ _ _ _ _ _ e1 e2

theorem isSome_false_none {α} {o : Option α} (h : o.isSome = false) : o = none := by
  cases o <;> simp_all

/-- an OPEN float range, upper bound only (fix F12: `toFloats` recognises `'*'`): `left <= 1.50` -/
theorem rangeText_star_flt (left : Bytes) (incl : Bool) (hi : F64)
    (hn : (atoi (fmtG hi)).isSome = false) (r2 : parseFloat (fmtG hi) = some hi) :
    rangeText left incl starQ (fmtG hi) = left ++ opText (hiOp incl) ++ fmtFixed hi 2 := by
  have e2 := allNum_ne_starQ (fmtG_allNum hi)
  have ti : toInts starQ (fmtG hi) = none := by
    unfold toInts
    simp only [beq_self_eq_true, e2, Bool.false_eq_true, ↓reduceIte, isSome_false_none hn]
  have tf : toFloats starQ (fmtG hi) = some ((parseFloat starQ).getD F64.zero, hi) := by
    unfold toFloats
    simp only [beq_self_eq_true, e2, Bool.false_eq_true, ↓reduceIte, r2]
  unfold rangeText
  simp only [ti, tf]
  exact rangeCmp_upper _ _ _ _ _

/-- an OPEN float range, lower bound only: `left >= 1.50` -/
theorem rangeText_flt_star (left : Bytes) (incl : Bool) (lo : F64)
    (hn : (atoi (fmtG lo)).isSome = false) (r1 : parseFloat (fmtG lo) = some lo) :
    rangeText left incl (fmtG lo) starQ = left ++ opText (loOp incl) ++ fmtFixed lo 2 := by
  have e1 := allNum_ne_starQ (fmtG_allNum lo)
  have ti : toInts (fmtG lo) starQ = none := by
    unfold toInts
    simp only [beq_self_eq_true, e1, Bool.false_eq_true, ↓reduceIte, isSome_false_none hn]
  have tf : toFloats (fmtG lo) starQ = some (lo, (parseFloat starQ).getD F64.zero) := by
    unfold toFloats
    simp only [beq_self_eq_true, e1, Bool.false_eq_true, ↓reduceIte, r1]
  unfold rangeText
  simp only [ti, tf]
  exact rangeCmp_lower _ _ _ _ _ e1

theorem rangeText_str_str (left : Bytes) (incl : Bool) (lo hi : Bytes) (h1 : (lo != [42]) = true) :
    rangeText left incl (sqlQuote lo) (sqlQuote hi) =
      left ++ [32, 66, 69, 84, 87, 69, 69, 78, 32] ++ sqlQuote lo ++ [32, 65, 78, 68, 32] ++ sqlQuote hi := by
  have e1 := sqlQuote_ne_starQ lo h1
  have a1 : atoi (sqlQuote lo) = none := atoi_quote _
  have p1 : parseFloat (sqlQuote lo) = none := parseFloat_quote _
  have ti : toInts (sqlQuote lo) (sqlQuote hi) = none := by
    unfold toInts
    simp only [e1, Bool.false_eq_true, ↓reduceIte, a1]
  have tf : toFloats (sqlQuote lo) (sqlQuote hi) = none := by
    unfold toFloats
    simp only [e1, Bool.false_eq_true, ↓reduceIte, p1]
  unfold rangeText
  simp only [ti, tf, b_between, b_and]


theorem intAst_atom (i : Int) : Atom (emb (intAst i)) ∧ cstText (emb (intAst i)) = fmtInt i := by
  obtain ⟨a, ha, hA, ht⟩ := value_atom (.int i) rfl rfl
  have : a = intAst i := by simpa [astOfPrim, intAst] using ha.symm
  subst this
  exact ⟨hA, ht.symm⟩

theorem twoDec_finite (f : F64) (h : twoDecExact f = true) : f.isFinite = true := by
  cases hf : f.isFinite with
  | true => rfl
  | false =>
    exfalso
    have e : fmtFixed f 2 = Num.nonFinite f := by
      unfold fmtFixed; simp only [hf, Bool.not_false, ↓reduceIte]
    have hv : sqlValue [] (fixedAst f) = none := by
      unfold fixedAst
      rw [e]
      unfold Num.nonFinite
      split
      · decide
      · split <;> decide
    unfold twoDecExact at h
    rw [hv] at h
    simp at h

theorem fixedAst_atom (f : F64) (hf : f.isFinite = true) :
    Atom (emb (fixedAst f)) ∧ cstText (emb (fixedAst f)) = fmtFixed f 2 := by
  obtain ⟨body, hb, he⟩ := fmtFixed_shape f hf
  have : fixedAst f = .num f.isNeg body := by unfold fixedAst; rw [he, numTextAst_signed _ _ hb]
  rw [this, emb, cstText_num, he]
  exact ⟨Atom.num _ _ hb, rfl⟩

theorem bndOf_str_text {n : Node} {s : Bytes} (h : bndOf n = some (.str s)) (ht : valueText n = true) :
    primText (.str s) = true := by
  unfold bndOf at h
  split at h
  · split at h <;> cases h
  · cases h
  · cases h
  · cases h; exact ht
  · cases h

theorem fltBoundRT_inv {n : Node} {f : F64} (h : bndOf n = some (.flt f)) (hr : fltBoundRT n = true) :
    parseFloat (fmtG f) = some f := by
  unfold bndOf at h
  split at h
  · split at h <;> cases h
  · cases h
  · cases h; simpa [fltBoundRT] using hr
  · cases h
  · cases h

theorem good_range (l mn mx : Node) (incl : Bool) (ba bc : Bnd) (p : F64) (d : Int)
    (hba : bndOf mn = some ba) (hbc : bndOf mx = some bc) (hcl : cleanBounds incl ba bc = true)
    (htl : fieldText l = true) (htv : valueText mn = true ∧ valueText mx = true)
    (hrt : fltBoundRT mn = true ∧ fltBoundRT mx = true) :
    ∃ c, Good (.mk l .range (.bound mn mx incl) p d) c := by
  obtain ⟨f, p1, d1, rfl, hA, hsim, hx⟩ := field_atom htl
  have h1 := bnd_render hba htv.1
  have h2 := bnd_render hbc htv.2
  have hy : serialize pgFns (.bound mn mx incl) =
      .ok ([if incl then 91 else 40] ++ bndText ba ++ [44, 32] ++ bndText bc ++ [if incl then 93 else 41]) := by
    simp only [serialize, h1, h2]
    exact bracket_text incl _ _
  have hp : parenOps .range = false := by decide
  have hrender : ∀ (hb1 : BoundText (bndText ba)) (hb2 : BoundText (bndText bc)),
      render pgFns (.mk (.expr (.mk (.prim (.col f)) .literal .nil p1 d1)) .range (.bound mn mx incl) p d) =
        .ok (rangeText (cstText (.col f)) incl (bndText ba) (bndText bc)) := by
    intro hb1 hb2
    rw [render_of _ _ _ _ _ _ _ _ hx hy (rfl : pgFns .range = some fnRang)]
    simp only [hp, Bool.false_and, Bool.false_eq_true, ↓reduceIte]
    unfold fnRang
    rw [rangeParts_exact incl _ _ hb1 hb2]
  have htoCst : toCst (.mk (.expr (.mk (.prim (.col f)) .literal .nil p1 d1)) .range (.bound mn mx incl) p d) =
      (rangeAst (.col f) incl ba bc).map emb := by
    simp [toCst, toAst, fieldCol, hba, hbc]
  cases ba <;> cases bc <;> simp only [cleanBounds, Bool.false_eq_true, Bool.and_eq_true] at hcl
  · -- star, int
    rename_i hi
    obtain ⟨hAhi, hthi⟩ := intAst_atom hi
    refine ⟨.cmp (hiOp incl) (.col f) (emb (intAst hi)), ?_, RE.leaf (Leaf.cmp _ hA hAhi), ?_⟩
    · rw [htoCst]; simp [rangeAst, emb]
    · rw [hrender boundText_starQ (boundText_fmtInt hi)]
      simp only [bndText, rangeText_star_int _ _ _ hcl, cstText_cmp, hthi]
  · -- star, flt
    rename_i hi
    obtain ⟨hAhi, hthi⟩ := fixedAst_atom hi (twoDec_finite hi hcl.1)
    refine ⟨.cmp (hiOp incl) (.col f) (emb (fixedAst hi)), ?_, RE.leaf (Leaf.cmp _ hA hAhi), ?_⟩
    · rw [htoCst]; simp [rangeAst, emb]
    · rw [hrender boundText_starQ (boundText_fmtG hi)]
      have hn : (atoi (fmtG hi)).isSome = false := by simpa using hcl.2
      simp only [bndText, rangeText_star_flt _ _ _ hn (fltBoundRT_inv hbc hrt.2), cstText_cmp, hthi]
  · -- int, star
    rename_i lo
    obtain ⟨hAlo, htlo⟩ := intAst_atom lo
    refine ⟨.cmp (loOp incl) (.col f) (emb (intAst lo)), ?_, RE.leaf (Leaf.cmp _ hA hAlo), ?_⟩
    · rw [htoCst]; simp [rangeAst, emb]
    · rw [hrender (boundText_fmtInt lo) boundText_starQ]
      simp only [bndText, rangeText_int_star _ _ _ hcl, cstText_cmp, htlo]
  · -- int, int
    rename_i lo hi
    obtain ⟨hAlo, htlo⟩ := intAst_atom lo
    obtain ⟨hAhi, hthi⟩ := intAst_atom hi
    refine ⟨.and (.cmp (loOp incl) (.col f) (emb (intAst lo))) (.cmp (hiOp incl) (.col f) (emb (intAst hi))), ?_,
      RE.rng (Leaf.cmp _ hA hAlo) (Leaf.cmp _ hA hAhi), ?_⟩
    · rw [htoCst]; simp [rangeAst, emb]
    · rw [hrender (boundText_fmtInt lo) (boundText_fmtInt hi)]
      simp only [bndText, rangeText_int_int _ _ _ _ hcl.1 hcl.2, cstText_and, cstText_cmp, htlo, hthi,
        List.append_assoc]
  · -- flt, star
    rename_i lo
    obtain ⟨hAlo, htlo⟩ := fixedAst_atom lo (twoDec_finite lo hcl.1)
    refine ⟨.cmp (loOp incl) (.col f) (emb (fixedAst lo)), ?_, RE.leaf (Leaf.cmp _ hA hAlo), ?_⟩
    · rw [htoCst]; simp [rangeAst, emb]
    · rw [hrender (boundText_fmtG lo) boundText_starQ]
      have hn : (atoi (fmtG lo)).isSome = false := by simpa using hcl.2
      simp only [bndText, rangeText_flt_star _ _ _ hn (fltBoundRT_inv hba hrt.1), cstText_cmp, htlo]
  · -- flt, flt
    rename_i lo hi
    obtain ⟨hAlo, htlo⟩ := fixedAst_atom lo (twoDec_finite lo hcl.1.1)
    obtain ⟨hAhi, hthi⟩ := fixedAst_atom hi (twoDec_finite hi hcl.1.2)
    refine ⟨.and (.cmp (loOp incl) (.col f) (emb (fixedAst lo))) (.cmp (hiOp incl) (.col f) (emb (fixedAst hi))), ?_,
      RE.rng (Leaf.cmp _ hA hAlo) (Leaf.cmp _ hA hAhi), ?_⟩
    · rw [htoCst]; simp [rangeAst, emb]
    · rw [hrender (boundText_fmtG lo) (boundText_fmtG hi)]
      have hi1 : ((atoi (fmtG lo)).isSome && (atoi (fmtG hi)).isSome) = false := by
        have := hcl.2
        simp only [Bool.not_eq_true'] at this
        exact this
      simp only [bndText, rangeText_flt_flt _ _ _ _ hi1 (fltBoundRT_inv hba hrt.1) (fltBoundRT_inv hbc hrt.2),
        cstText_and, cstText_cmp, htlo, hthi, List.append_assoc]
  · -- str, str
    rename_i lo hi
    have n1 := primText_noNul (bndOf_str_text hba htv.1)
    have n2 := primText_noNul (bndOf_str_text hbc htv.2)
    refine ⟨.between (.col f) (.str lo) (.str hi), ?_, RE.leaf (Leaf.between hA (Atom.str _ n1) (Atom.str _ n2)), ?_⟩
    · rw [htoCst]; simp [rangeAst, emb]
    · have c1 : lo.contains 44 = false := by simpa using hcl.1.2
      have c2 : hi.contains 44 = false := by simpa using hcl.2
      rw [hrender (boundText_sqlQuote lo c1) (boundText_sqlQuote hi c2)]
      simp only [bndText, rangeText_str_str _ _ _ _ hcl.1.1.1.2, cstText_between, cstText_str]


/-! ## the whole fragment -/

theorem parenB_eq (s : Bytes) : parenB s = [40] ++ s ++ [41] := rfl

mutual
theorem good_node : ∀ n : Node, cleanNode n = true → textNode n = true → fltRTNode n = true →
    ∃ c, toCstNode n = some c ∧ RE c ∧ serialize pgFns n = .ok (cstText c)
  | .expr e, hc, ht, hr => by
    simp only [cleanNode] at hc
    simp only [textNode] at ht
    simp only [fltRTNode] at hr
    rw [serialize_expr]
    simp only [toCstNode]
    exact good_expr e hc ht hr
  | .nil, hc, _, _ => by simp [cleanNode] at hc
  | .prim _, hc, _, _ => by simp [cleanNode] at hc
  | .list _, hc, _, _ => by simp [cleanNode] at hc
  | .bound _ _ _, hc, _, _ => by simp [cleanNode] at hc
theorem good_expr : ∀ e : Expr, cleanFilter e = true → textClean e = true → fltRT e = true → ∃ c, Good e c
  | .mk l o r p d, hc, ht, hr => by
    cases o
    case and =>
      simp only [cleanFilter, Bool.and_eq_true] at hc
      simp only [textClean, Bool.and_eq_true] at ht
      simp only [fltRT, Bool.and_eq_true] at hr
      obtain ⟨x, hx1, hx2, hx⟩ := good_node l hc.1 ht.1 hr.1
      obtain ⟨y, hy1, hy2, hy⟩ := good_node r hc.2 ht.2 hr.2
      refine ⟨.and (.paren x) (.paren y), by simp only [toCst, hx1, hy1], RE.and hx2 hy2, ?_⟩
      rw [render_of _ _ _ _ _ _ _ _ hx hy (rfl : pgFns .and = some (fnInfix " AND "))]
      have hp : parenOps .and = true := by decide
      simp only [hp, clean_notSimple hc.1, clean_notSimple hc.2, Bool.not_false, Bool.and_self, ↓reduceIte,
        fnInfix_ok, b_and, parenB_eq, cstText_and, cstText_paren]
    case or =>
      simp only [cleanFilter, Bool.and_eq_true] at hc
      simp only [textClean, Bool.and_eq_true] at ht
      simp only [fltRT, Bool.and_eq_true] at hr
      obtain ⟨x, hx1, hx2, hx⟩ := good_node l hc.1 ht.1 hr.1
      obtain ⟨y, hy1, hy2, hy⟩ := good_node r hc.2 ht.2 hr.2
      refine ⟨.or (.paren x) (.paren y), by simp only [toCst, hx1, hy1], RE.or hx2 hy2, ?_⟩
      rw [render_of _ _ _ _ _ _ _ _ hx hy (rfl : pgFns .or = some (fnInfix " OR "))]
      have hp : parenOps .or = true := by decide
      simp only [hp, clean_notSimple hc.1, clean_notSimple hc.2, Bool.not_false, Bool.and_self, ↓reduceIte,
        fnInfix_ok, b_or, parenB_eq, cstText_or, cstText_paren]
    case not =>
      simp only [cleanFilter, Bool.and_eq_true] at hc
      simp only [textClean] at ht
      simp only [fltRT] at hr
      obtain ⟨x, hx1, hx2, hx⟩ := good_node l hc.1 ht hr
      cases nil_of_isNil hc.2
      refine ⟨.not (.paren x), by simp only [toCst, hx1, Option.map_some], RE.not hx2, ?_⟩
      rw [render_of _ _ _ _ _ _ _ _ hx serialize_nil (rfl : pgFns .not = some fnWrapNot)]
      have hp : parenOps .not = false := by decide
      simp only [hp, Bool.false_and, Bool.false_eq_true, ↓reduceIte, fnWrapNot, b_notp, b_rp, cstText_not,
        cstText_paren]
      simp
    case mustNot =>
      simp only [cleanFilter, Bool.and_eq_true] at hc
      simp only [textClean] at ht
      simp only [fltRT] at hr
      obtain ⟨x, hx1, hx2, hx⟩ := good_node l hc.1 ht hr
      cases nil_of_isNil hc.2
      refine ⟨.not (.paren x), by simp only [toCst, hx1, Option.map_some], RE.not hx2, ?_⟩
      rw [render_of _ _ _ _ _ _ _ _ hx serialize_nil (rfl : pgFns .mustNot = some fnWrapNot)]
      have hp : parenOps .mustNot = false := by decide
      simp only [hp, Bool.false_and, Bool.false_eq_true, ↓reduceIte, fnWrapNot, b_notp, b_rp, cstText_not,
        cstText_paren]
      simp
    case must =>
      simp only [cleanFilter, Bool.and_eq_true] at hc
      simp only [textClean] at ht
      simp only [fltRT] at hr
      obtain ⟨x, hx1, hx2, hx⟩ := good_node l hc.1 ht hr
      cases nil_of_isNil hc.2
      refine ⟨x, by simp only [toCst, hx1], hx2, ?_⟩
      rw [render_of _ _ _ _ _ _ _ _ hx serialize_nil (rfl : pgFns .must = some fnNoop)]
      have hp : parenOps .must = false := by decide
      simp only [hp, Bool.false_and, Bool.false_eq_true, ↓reduceIte, fnNoop]
    case equals =>
      simp only [cleanFilter, Bool.and_eq_true] at hc
      simp only [textClean, Bool.and_eq_true] at ht
      exact good_cmp l r .equals p d (.inl rfl) hc.2 ht.1 ht.2
    case greater =>
      simp only [cleanFilter, Bool.and_eq_true] at hc
      simp only [textClean, Bool.and_eq_true] at ht
      exact good_cmp l r .greater p d (.inr (.inl rfl)) hc.2 ht.1 ht.2
    case less =>
      simp only [cleanFilter, Bool.and_eq_true] at hc
      simp only [textClean, Bool.and_eq_true] at ht
      exact good_cmp l r .less p d (.inr (.inr (.inl rfl))) hc.2 ht.1 ht.2
    case greaterEq =>
      simp only [cleanFilter, Bool.and_eq_true] at hc
      simp only [textClean, Bool.and_eq_true] at ht
      exact good_cmp l r .greaterEq p d (.inr (.inr (.inr (.inl rfl)))) hc.2 ht.1 ht.2
    case lessEq =>
      simp only [cleanFilter, Bool.and_eq_true] at hc
      simp only [textClean, Bool.and_eq_true] at ht
      exact good_cmp l r .lessEq p d (.inr (.inr (.inr (.inr rfl)))) hc.2 ht.1 ht.2
    case like =>
      simp only [cleanFilter, Bool.and_eq_true] at hc
      simp only [textClean, Bool.and_eq_true] at ht
      exact good_like l r p d hc.2 ht.1 ht.2
    case in_ =>
      simp only [cleanFilter, Bool.and_eq_true] at hc
      simp only [textClean, Bool.and_eq_true] at ht
      obtain ⟨e, t, p2, d2, rfl⟩ := cleanList_inv hc.2
      have hcl' : cleanItems (.cons e t) = true := by simpa [cleanList] using hc.2
      exact good_in l e t p2 d2 p d hcl' ht.1 ht.2
    case range =>
      simp only [cleanFilter, Bool.and_eq_true] at hc
      simp only [textClean, Bool.and_eq_true] at ht
      obtain ⟨mn, mx, incl, ba, bc, rfl, hba, hbc, hcl⟩ := cleanRange_inv hc.2
      simp only [fltRT, Bool.and_eq_true] at hr
      simp only [Bool.and_eq_true] at ht
      exact good_range l mn mx incl ba bc p d hba hbc hcl ht.1 ht.2 hr
    all_goals simp [cleanFilter] at hc
end

end GoLucene.SqlText

#print axioms GoLucene.SqlText.good_expr
