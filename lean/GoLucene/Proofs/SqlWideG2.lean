import GoLucene.Proofs.SqlWideG1
/-
  SqlWide, scanner part (generalises SqlText2): the text `qText c` of a rendered expression `RK pm k c` (placeholders
  written `?`) is split by PostgreSQL's scanner into the tokens `qtoks c`; with the grammar part:
    parseSql_RK   parseSql (qText c) = if peak … then some (renum 1 c).toAst else none
  and the parser-stack bound `rk_peak`.
-/
set_option linter.unusedSimpArgs false
set_option linter.unusedVariables false

namespace GoLucene.SqlWide
open GoLucene Sql SqlText

mutual
/-- the text of a concrete syntax tree with the renderer's spacing; a placeholder is `?` -/
def qText : Cst → Bytes
  | .col f => [34] ++ f ++ [34]
  | .str s => sqlQuote s
  | .num neg raw => if neg then 45 :: raw else raw
  | .param _ => [63]
  | .paren x => [40] ++ qText x ++ [41]
  | .cmp op l r => qText l ++ opText op ++ qText r
  | .between x lo hi =>
    qText x ++ [32, 66, 69, 84, 87, 69, 69, 78, 32] ++ qText lo ++ [32, 65, 78, 68, 32] ++ qText hi
  | .inList x items => qText x ++ [32, 73, 78, 32] ++ ([40] ++ qListText items ++ [41])
  | .similar x p => qText x ++ [32, 83, 73, 77, 73, 76, 65, 82, 32, 84, 79, 32] ++ qText p
  | .regex x p => qText x ++ [32, 126, 32] ++ qText p
  | .and l r => qText l ++ [32, 65, 78, 68, 32] ++ qText r
  | .or l r => qText l ++ [32, 79, 82, 32] ++ qText r
  | .not x => [78, 79, 84] ++ qText x
def qListText : CstList → Bytes
  | .nil => []
  | .cons a .nil => qText a
  | .cons a (.cons c t) => qText a ++ [44, 32] ++ qListText (.cons c t)
end

/-! ## without placeholders `qText` is `cstText` -/

theorem qText_atom {a : Cst} (h : Atom a) : qText a = cstText a := by
  cases h <;> simp only [qText, cstText]

theorem qText_atoms {l : CstList} (h : Atoms l) : qListText l = listText l := by
  induction h with
  | one ha => simp only [qListText, listText, qText_atom ha]
  | cons ha _ ih => simp only [qListText, listText, qText_atom ha, ih]

theorem qText_leaf {c : Cst} (h : Leaf c) : qText c = cstText c := by
  cases h with
  | cmp op hl hr => simp only [qText, cstText, qText_atom hl, qText_atom hr]
  | similar hx hp => simp only [qText, cstText, qText_atom hx, qText_atom hp]
  | regex hx hp => simp only [qText, cstText, qText_atom hx, qText_atom hp]
  | between hx hlo hhi => simp only [qText, cstText, qText_atom hx, qText_atom hlo, qText_atom hhi]
  | inList hx hi => simp only [qText, cstText, qText_atom hx, qText_atoms hi]

theorem qText_RE {c : Cst} (h : RE c) : qText c = cstText c := by
  induction h with
  | leaf hL => exact qText_leaf hL
  | rng hA hC => simp only [qText, cstText, qText_leaf hA, qText_leaf hC]
  | and _ _ ihl ihr => simp only [qText, cstText, ihl, ihr]
  | or _ _ ihl ihr => simp only [qText, cstText, ihl, ihr]
  | not _ ih => simp only [qText, cstText, ih]

/-! ## a placeholder -/

theorem lexFrom_63 (f : Nat) (rest : Bytes) : lexFrom (f + 1) (63 :: rest) =
      let run := (63 :: rest).takeWhile isOpChar
      if hasCommentStart run then none
      else
        let k := opLen run
        match opTok (run.take k) with
        | some t => (lexFrom f ((63 :: rest).drop k)).map (t :: ·)
        | none => none := rfl

theorem lx_qmark (rest : Bytes) (hr : term rest = true) (f : Nat) :
    lexFrom (f + 1) (63 :: rest) = (lexFrom f rest).map (Tok.qmark :: ·) := by
  have h1 : (63 :: rest).takeWhile isOpChar = [63] := by
    have h63 : isOpChar 63 = true := by decide
    rcases term_cases hr with rfl | ⟨r, rfl⟩ | ⟨r, rfl⟩ | ⟨c, r, rfl, _⟩
    · simp [h63]
    · have : isOpChar 41 = false := by decide
      simp [h63, this]
    · have : isOpChar 44 = false := by decide
      simp [h63, this]
    · have : isOpChar 32 = false := by decide
      simp [h63, this]
  rw [lexFrom_63]
  have c5 : hasCommentStart [63] = false := by decide
  have c6 : opLen [63] = 1 := by decide
  have c7 : opTok ([63].take 1) = some Tok.qmark := by decide
  simp only [h1, c5, c6, c7, Bool.false_eq_true, ↓reduceIte, List.drop_succ_cons, List.drop_zero]

/-! ## atoms, predicates, expressions -/

theorem qtoks_atom {a : Cst} (h : Atom a) : qtoks a = ctoks a := by
  cases h with
  | col f _ _ _ => simp [qtoks, ctoks, qm]
  | str s _ => simp [qtoks, ctoks, qm]
  | num neg raw _ => cases neg <;> simp [qtoks, ctoks, qm]

theorem lx_atomP {pm : Bool} {a : Cst} (h : AtomP pm a) : ∃ k, Lx (qText a) (qtoks a) k := by
  cases h with
  | col f h1 h2 h3 =>
    have hA := Atom.col f h1 h2 h3
    obtain ⟨k, hk⟩ := lx_atom hA
    exact ⟨k, hk.cast (qText_atom hA) (qtoks_atom hA)⟩
  | str s h1 =>
    have hA := Atom.str s h1
    obtain ⟨k, hk⟩ := lx_atom hA
    exact ⟨k, hk.cast (qText_atom hA) (qtoks_atom hA)⟩
  | num neg raw h1 =>
    have hA := Atom.num neg raw h1
    obtain ⟨k, hk⟩ := lx_atom hA
    exact ⟨k, hk.cast (qText_atom hA) (qtoks_atom hA)⟩
  | param n _ =>
    refine ⟨1, fun fu rest hr => ?_, by simp [qText]⟩
    simp only [qText, qtoks, ctoks, qm, List.map, List.singleton_append]
    rw [lx_qmark rest hr]

theorem qltoks_one (a : Cst) : qltoks (.cons a .nil) = qtoks a := by simp [qltoks, qtoks, ltoks]
theorem qltoks_cons (a c : Cst) (t : CstList) :
    qltoks (.cons a (.cons c t)) = qtoks a ++ [.comma] ++ qltoks (.cons c t) := by
  simp [qltoks, qtoks, ltoks, qm]

theorem lx_atomsP {pm : Bool} {items : CstList} (h : AtomsP pm items) :
    ∃ k, Lx (qListText items) (qltoks items) k := by
  induction h with
  | @one a ha =>
    obtain ⟨k, hk⟩ := lx_atomP ha
    exact ⟨k, hk.cast (by simp only [qListText]) (qltoks_one a)⟩
  | @cons a c t ha ht ih =>
    obtain ⟨k1, h1⟩ := lx_atomP ha
    obtain ⟨k2, h2⟩ := ih
    exact ⟨_, ((h1.seqU ux_commaSp (fun _ => rfl)).seqL h2).cast (by simp only [qListText]) (qltoks_cons a c t)⟩

theorem lx_leafP {pm : Bool} {L : Cst} (h : LeafP pm L) : ∃ k, Lx (qText L) (qtoks L) k := by
  cases h with
  | cmp op hl hr =>
    obtain ⟨k1, h1⟩ := lx_atomP hl
    obtain ⟨k2, h2⟩ := lx_atomP hr
    exact ⟨_, ((h1.seqU (ux_op op) (term_op op)).seqL h2).cast (by simp only [qText]) (by simp [qtoks, ctoks, qm])⟩
  | similar hx hp =>
    obtain ⟨k1, h1⟩ := lx_atomP hx
    obtain ⟨k2, h2⟩ := lx_atomP hp
    exact ⟨_, ((h1.seqU ux_SIMILAR_TO (fun _ => rfl)).seqL h2).cast (by simp only [qText])
      (by simp [qtoks, ctoks, qm])⟩
  | regex hx hp =>
    obtain ⟨k1, h1⟩ := lx_atomP hx
    obtain ⟨k2, h2⟩ := lx_atomP hp
    exact ⟨_, ((h1.seqU ux_tilde (fun _ => rfl)).seqL h2).cast (by simp only [qText]) (by simp [qtoks, ctoks, qm])⟩
  | between hx hlo hhi =>
    obtain ⟨k1, h1⟩ := lx_atomP hx
    obtain ⟨k2, h2⟩ := lx_atomP hlo
    obtain ⟨k3, h3⟩ := lx_atomP hhi
    exact ⟨_, (((((h1.seqU ux_BETWEEN (fun _ => rfl)).seqL h2).seqU ux_AND (fun _ => rfl))).seqL h3).cast
      (by simp only [qText]) (by simp [qtoks, ctoks, qm])⟩
  | inList hx hi =>
    obtain ⟨k1, h1⟩ := lx_atomP hx
    obtain ⟨k2, h2⟩ := lx_atomsP hi
    exact ⟨_, (((((h1.seqU ux_IN (fun _ => rfl)).seq ux_lparen).seqL h2).seqU ux_rparen (fun _ => rfl))).toLx.cast
      (by simp only [qText, List.append_assoc]) (by simp [qtoks, qltoks, ctoks, qm])⟩

theorem ux_parenQ {x : Cst} {k : Nat} (h : Lx (qText x) (qtoks x) k) :
    Ux ([40] ++ qText x ++ [41]) (.lparen :: (qtoks x ++ [.rparen])) (1 + k + 1) :=
  ((ux_lparen.seqL h).seqU ux_rparen (fun _ => rfl)).cast rfl (by simp)

/-- SCANNER: the text of a rendered expression is split into exactly its tokens -/
theorem lx_RK {pm : Bool} {k : Bool} {c : Cst} (h : RK pm k c) : ∃ n, Lx (qText c) (qtoks c) n := by
  induction h with
  | @atom a k ha => exact lx_atomP ha
  | @leaf L hL => exact lx_leafP hL
  | @rng a c hA hC =>
    obtain ⟨k1, h1⟩ := lx_leafP hA
    obtain ⟨k2, h2⟩ := lx_leafP hC
    exact ⟨_, ((h1.seqU ux_AND (fun _ => rfl)).seqL h2).cast (by simp only [qText]) (by simp [qtoks, ctoks, qm])⟩
  | @paren x _ ih =>
    obtain ⟨k1, h1⟩ := ih
    exact ⟨_, (ux_parenQ h1).toLx.cast (by simp only [qText]) (by simp [qtoks, ctoks, qm])⟩
  | @and l r _ _ ihl ihr =>
    obtain ⟨k1, h1⟩ := ihl
    obtain ⟨k2, h2⟩ := ihr
    exact ⟨_, ((h1.seqU ux_AND (fun _ => rfl)).seqL h2).cast (by simp only [qText]) (by simp [qtoks, ctoks, qm])⟩
  | @or l r _ _ ihl ihr =>
    obtain ⟨k1, h1⟩ := ihl
    obtain ⟨k2, h2⟩ := ihr
    exact ⟨_, ((h1.seqU ux_OR (fun _ => rfl)).seqL h2).cast (by simp only [qText]) (by simp [qtoks, ctoks, qm])⟩
  | @not x _ ih =>
    obtain ⟨k1, h1⟩ := ih
    exact ⟨_, ((ux_NOTp.seqL h1).seqU ux_rparen (fun _ => rfl)).toLx.cast (by simp [qText])
      (by simp [qtoks, ctoks, qm])⟩

theorem lex_RK {pm : Bool} {k : Bool} {c : Cst} (h : RK pm k c) : lex (qText c) = some (qtoks c) := by
  obtain ⟨n, hn⟩ := lx_RK h
  exact lex_of_Lx hn

/-- scanner and grammar together: the text is read as the tree with its placeholders numbered from left to right -/
theorem parseSql_RK {pm : Bool} {c : Cst} (h : RK pm false c) :
    parseSql (qText c) = if (renum 1 c).peak frameDepth < maxStack then some (renum 1 c).toAst else none := by
  unfold parseSql
  rw [lex_RK h]
  simp only [parse, parseCst_RK h]

/-- … without placeholders -/
theorem parseSql_RK_plain {c : Cst} (h : RK false false c) :
    parseSql (qText c) = if c.peak frameDepth < maxStack then some c.toAst else none := by
  rw [parseSql_RK h, (rk_plain h 1).1]

/-! ## parser stack -/

theorem atomP_peak {pm : Bool} {a : Cst} (h : AtomP pm a) (d : Nat) : a.peak d ≤ d + 2 ∧ pd a = 0 := by
  cases h with
  | col f _ _ _ => simp [Cst.peak, pd]
  | str s _ => simp [Cst.peak, pd]
  | num neg raw _ => cases neg <;> simp [Cst.peak, pd]
  | param n _ => simp [Cst.peak, pd]

theorem atomsP_peak {pm : Bool} {items : CstList} (h : AtomsP pm items) (d : Nat) :
    ∀ first, items.peak first d ≤ d + 7 := by
  induction h with
  | one ha =>
    intro first
    have := (atomP_peak ha (d + 3)).1; have := (atomP_peak ha (d + 5)).1
    cases first <;> simp only [CstList.peak] <;> omega
  | cons ha ht ih =>
    intro first
    have := (atomP_peak ha (d + 3)).1; have := (atomP_peak ha (d + 5)).1; have := ih false
    cases first <;> simp only [CstList.peak] at this ⊢ <;> omega

theorem leafP_peak {pm : Bool} {L : Cst} (h : LeafP pm L) (d : Nat) : L.peak d ≤ d + 7 ∧ pd L = 0 := by
  cases h with
  | cmp op hl hr =>
    have := (atomP_peak hl d).1; have := (atomP_peak hr (d + 2)).1
    simp only [Cst.peak, pd, and_true]; omega
  | similar hx hp =>
    have := (atomP_peak hx d).1; have := (atomP_peak hp (d + 3)).1
    simp only [Cst.peak, pd, and_true]; omega
  | regex hx hp =>
    have := (atomP_peak hx d).1; have := (atomP_peak hp (d + 2)).1
    simp only [Cst.peak, pd, and_true]; omega
  | between hx hlo hhi =>
    have := (atomP_peak hx d).1; have := (atomP_peak hlo (d + 3)).1; have := (atomP_peak hhi (d + 5)).1
    simp only [Cst.peak, pd, and_true]; omega
  | inList hx hi =>
    have := (atomP_peak hx d).1; have := atomsP_peak hi d true
    simp only [Cst.peak, pd, and_true]; omega

theorem rk_peak {pm : Bool} {k : Bool} {c : Cst} (h : RK pm k c) :
    ∀ d, c.peak d ≤ d + 3 * pd c + (if k then 7 else 9) := by
  induction h with
  | @atom a k ha =>
    intro d; have := atomP_peak ha d
    cases k <;> simp only [this.2, Bool.false_eq_true, ↓reduceIte] <;> omega
  | @leaf L hL =>
    intro d; have := leafP_peak hL d
    simp only [Bool.false_eq_true, ↓reduceIte]; omega
  | @rng a c hA hC =>
    intro d
    have h1 := leafP_peak hA d; have h2 := leafP_peak hC (d + 2)
    simp only [Cst.peak, pd, Bool.false_eq_true, ↓reduceIte]; omega
  | @paren x _ ih =>
    intro d
    have := ih (d + 1)
    simp only [Bool.false_eq_true, ↓reduceIte] at this
    simp only [Cst.peak, pd, ↓reduceIte]; omega
  | @and l r _ _ ihl ihr =>
    intro d
    have h1 := ihl d; have h2 := ihr (d + 2)
    simp only [↓reduceIte] at h1 h2
    simp only [Cst.peak, pd, Bool.false_eq_true, ↓reduceIte]; omega
  | @or l r _ _ ihl ihr =>
    intro d
    have h1 := ihl d; have h2 := ihr (d + 2)
    simp only [↓reduceIte] at h1 h2
    simp only [Cst.peak, pd, Bool.false_eq_true, ↓reduceIte]; omega
  | @not x _ ih =>
    intro d
    have := ih (d + 1 + 1)
    simp only [Bool.false_eq_true, ↓reduceIte] at this
    simp only [Cst.peak, pd, Bool.false_eq_true, ↓reduceIte]; omega

theorem pd_renum : ∀ (c : Cst) (j : Nat), pd (renum j c) = pd c
  | .col _, _ => rfl
  | .str _, _ => rfl
  | .num _ _, _ => rfl
  | .param _, _ => rfl
  | .paren x, j => by simp only [renum, pd, pd_renum x j]
  | .cmp _ _ _, _ => rfl
  | .between _ _ _, _ => rfl
  | .inList _ _, _ => rfl
  | .similar _ _, _ => rfl
  | .regex _ _, _ => rfl
  | .and l r, j => by simp only [renum, pd, pd_renum l, pd_renum r]
  | .or l r, j => by simp only [renum, pd, pd_renum l, pd_renum r]
  | .not x, j => by simp only [renum, pd, pd_renum x j]

/-- with at most 2990 levels of parentheses the parser stack suffices -/
theorem rk_stack {pm : Bool} {c : Cst} (h : RK pm false c) (hd : pd c ≤ 2990) :
    (renum 1 c).peak frameDepth < maxStack := by
  have h1 := rk_peak (rk_renum h 1) frameDepth
  rw [pd_renum] at h1
  simp only [Bool.false_eq_true, ↓reduceIte] at h1
  unfold frameDepth at h1 ⊢
  unfold maxStack
  omega

end GoLucene.SqlWide

#print axioms GoLucene.SqlWide.parseSql_RK
#print axioms GoLucene.SqlWide.rk_stack
