import GoLucene.Proofs.LawsFloatFmt2
/-
  Laws, float formatting side, part 3: the text `fmtJSON` writes is a JSON number literal (`fmtJSON_jsonNum`), and
  when `atoi` accepts it, it is the canonical decimal of that integer (`int_text_leaf`).
-/
set_option linter.unusedSimpArgs false
set_option linter.unusedVariables false
namespace GoLucene
namespace Laws
namespace Fmt
open Num JsonRoundTrip

/-! ## (4) the text of a float is a JSON number literal -/

def FrOK (fr : Bytes) : Prop := fr = [] ∨ ∃ ds, ds ≠ [] ∧ digs ds ∧ fr = 46 :: ds
def ExOK (ex : Bytes) : Prop :=
  ex = [] ∨ ∃ sg ds, (sg = 43 ∨ sg = 45) ∧ ds ≠ [] ∧ digs ds ∧ ex = 101 :: sg :: ds

/-- the unsigned part of a number text; `nz`: the number is not zero, so it is not the bare text `0` -/
def Body (nz : Bool) (body : Bytes) : Prop :=
  ∃ ip fr ex, body = ip ++ fr ++ ex ∧ IntPart ip ∧ FrOK fr ∧ ExOK ex ∧ (nz = true → ip = [48] → fr ≠ [])

theorem digs_zeros (n : Nat) : digs (zeros n) := by
  intro c hc
  unfold zeros at hc
  have := List.eq_of_mem_replicate hc
  subst this
  unfold dig; decide

theorem digs_append {x y : Bytes} (hx : digs x) (hy : digs y) : digs (x ++ y) := by
  intro c hc
  rcases List.mem_append.mp hc with h | h
  · exact hx c h
  · exact hy c h

theorem digs_cons {c : UInt8} {y : Bytes} (hc : dig c) (hy : digs y) : digs (c :: y) := by
  intro a ha
  rcases List.mem_cons.mp ha with h | h
  · subst h; exact hc
  · exact hy a h

theorem digs_take {x : Bytes} (n : Nat) (hx : digs x) : digs (x.take n) :=
  fun c hc => hx c (List.mem_of_mem_take hc)
theorem digs_drop {x : Bytes} (n : Nat) (hx : digs x) : digs (x.drop n) :=
  fun c hc => hx c (List.mem_of_mem_drop hc)

theorem fmtF_body (d : UInt8) (tl : Bytes) (dp : Int) (h1 : 49 ≤ d.toNat) (h2 : d.toNat ≤ 57) (htl : digs tl) :
    Body true (fmtFShortest (d :: tl) dp) := by
  have hd : dig d := ⟨by omega, h2⟩
  unfold fmtFShortest
  simp only [List.length_cons]
  by_cases hdp : dp ≤ 0
  · rw [if_pos hdp, if_neg (by omega)]
    refine ⟨[48], 46 :: (zeros (-dp).toNat ++ d :: tl), [], by simp, .inl rfl, .inr ⟨_, ?_, ?_, rfl⟩, .inl rfl, ?_⟩
    · simp
    · exact digs_append (digs_zeros _) (digs_cons hd htl)
    · intro _ _; simp
  · rw [if_neg hdp]
    by_cases hnd : tl.length + 1 ≤ dp.toNat
    · rw [if_pos hnd]
      refine ⟨d :: (tl ++ zeros (dp.toNat - (tl.length + 1))), [], [], by simp,
        .inr ⟨d, _, rfl, h1, h2, digs_append htl (digs_zeros _)⟩, .inl rfl, .inl rfl, ?_⟩
      intro _ h; simp at h
      have : d.toNat = 48 := by rw [h.1]; rfl
      omega
    · rw [if_neg hnd]
      obtain ⟨p, hp⟩ : ∃ p, dp.toNat = p + 1 := ⟨dp.toNat - 1, by omega⟩
      rw [hp]
      simp only [List.take_succ_cons, List.drop_succ_cons]
      refine ⟨d :: tl.take p, 46 :: tl.drop p, [], by simp,
        .inr ⟨d, _, rfl, h1, h2, digs_take p htl⟩, .inr ⟨_, ?_, digs_drop p htl, rfl⟩, .inl rfl, ?_⟩
      · intro h
        have := congrArg List.length h
        simp at this; omega
      · intro _ _; simp

theorem dig_not {c : UInt8} (h : dig c) : c ≠ 45 ∧ c ≠ 43 ∧ c ≠ 46 ∧ c ≠ 101 := by
  refine ⟨?_, ?_, ?_, ?_⟩ <;> (intro e; subst e; revert h; unfold dig; decide)

theorem jsonCleanExp_exp (pre : Bytes) (sg : UInt8) (ds2 : Bytes) (hsg : sg = 43 ∨ sg = 45) (hne : ds2 ≠ [])
    (hd : digs ds2) :
    ∃ ds3, ds3 ≠ [] ∧ digs ds3 ∧ jsonCleanExp (pre ++ 101 :: sg :: ds2) = pre ++ 101 :: sg :: ds3 := by
  unfold jsonCleanExp
  split
  · rename_i d more heq
    simp only [List.reverse_append, List.reverse_cons, List.append_assoc, List.cons_append, List.nil_append] at heq
    have hdr : ∀ c ∈ ds2.reverse, dig c := fun c hc => hd c (List.mem_reverse.mp hc)
    cases hr : ds2.reverse with
    | nil => exact absurd (List.reverse_eq_nil_iff.mp hr) hne
    | cons r0 rs =>
      rw [hr] at heq hdr
      simp only [List.cons_append, List.cons.injEq] at heq
      obtain ⟨e0, heq⟩ := heq
      subst e0
      cases rs with
      | nil =>
        simp only [List.nil_append, List.cons.injEq] at heq
        rcases hsg with h | h <;> (rw [h] at heq; exact absurd heq.1 (by decide))
      | cons r1 rs' =>
        simp only [List.cons_append, List.cons.injEq] at heq
        obtain ⟨e1, heq⟩ := heq
        cases rs' with
        | nil =>
          simp only [List.nil_append, List.cons.injEq] at heq
          obtain ⟨e2, _, e3⟩ := heq
          subst e2 e3
          refine ⟨[r0], by simp, ?_, by simp⟩
          intro c hc
          simp at hc; subst hc
          exact hdr _ (by simp)
        | cons r2 rs'' =>
          simp only [List.cons_append, List.cons.injEq] at heq
          have := (dig_not (hdr r2 (by simp))).1
          exact absurd heq.1 this
  · exact ⟨ds2, hne, hd, rfl⟩

theorem fmtExp_shape (exp : Int) : ∃ sg ds, (sg = 43 ∨ sg = 45) ∧ ds ≠ [] ∧ digs ds ∧ fmtExp exp = sg :: ds := by
  unfold fmtExp
  simp only []
  refine ⟨if exp < 0 then 45 else 43, _, ?_, ?_, ?_, rfl⟩
  · split <;> simp
  · split
    · simp
    · exact natDigits_ne_nil _
  · split
    · exact digs_cons (by unfold dig; decide) (natDigits_dig _)
    · exact natDigits_dig _

theorem fmtE_body (d : UInt8) (tl : Bytes) (dp : Int) (h1 : 49 ≤ d.toNat) (h2 : d.toNat ≤ 57) (htl : digs tl) :
    Body true (jsonCleanExp (fmtEShortest (d :: tl) dp)) := by
  unfold fmtEShortest
  simp only []
  obtain ⟨sg, ds2, hsg, hne, hd2, he⟩ := fmtExp_shape (dp - 1)
  rw [he]
  obtain ⟨ds3, hne3, hd3, hc⟩ := jsonCleanExp_exp (d :: (if tl.isEmpty then [] else 46 :: tl)) sg ds2 hsg hne hd2
  rw [hc]
  have hip : IntPart [d] := .inr ⟨d, [], rfl, h1, h2, by intro c hc; simp at hc⟩
  have hnz : ([d] : Bytes) = [48] → False := by
    intro h; simp at h
    have : d.toNat = 48 := by rw [h]; rfl
    omega
  cases tl with
  | nil =>
    exact ⟨[d], [], 101 :: sg :: ds3, by simp, hip, .inl rfl, .inr ⟨sg, ds3, hsg, hne3, hd3, rfl⟩,
      fun _ h => absurd h hnz⟩
  | cons a tl' =>
    exact ⟨[d], 46 :: a :: tl', 101 :: sg :: ds3, by simp, hip, .inr ⟨_, by simp, htl, rfl⟩,
      .inr ⟨sg, ds3, hsg, hne3, hd3, rfl⟩, fun _ h => absurd h hnz⟩

theorem signed_eq (neg : Bool) (body : Bytes) : signed neg body = (if neg then [45] else []) ++ body := by
  unfold signed; cases neg <;> rfl

/-- the shape of the text of a finite float -/
theorem fmtJSON_shape (f : F64) (t : Bytes) (h : fmtJSON f = some t) :
    ∃ body, t = signed f.isNeg body ∧ Body (!f.isZero) body := by
  unfold fmtJSON at h
  by_cases hfin : f.isFinite = true
  · simp only [hfin, Bool.not_true, Bool.false_eq_true, if_false] at h
    by_cases hz : f.isZero = true
    · have hs : Num.shortestOf f = ([], 0) := by unfold Num.shortestOf; rw [if_pos hz]
      rw [hs] at h
      simp only [hz, Bool.not_true, Bool.false_and, Bool.false_eq_true, if_false, Option.some.injEq] at h
      refine ⟨_, h.symm, ?_⟩
      refine ⟨[48], [], [], by decide, .inl rfl, .inl rfl, .inl rfl, ?_⟩
      intro h'; simp [hz] at h'
    · have hz' : f.isZero = false := by simpa using hz
      obtain ⟨c, k, hc, _, hs, _, _, _⟩ := shortest_spec f hfin hz'
      obtain ⟨d, tl, hdt, d1, d2, d3⟩ := natDigits_head c hc
      rw [hs, hdt] at h
      simp only [Option.some.injEq] at h
      refine ⟨_, h.symm, ?_⟩
      rw [hz']
      split
      · exact fmtE_body d tl _ d1 d2 d3
      · exact fmtF_body d tl _ d1 d2 d3
  · simp only [hfin, Bool.not_false, if_true] at h
    cases h

theorem _root_.GoLucene.Laws.fmtJSON_jsonNum (f : F64) (t : Bytes) (h : fmtJSON f = some t) : JsonNum t := by
  obtain ⟨body, ht, ip, fr, ex, hb, h1, h2, h3, _⟩ := fmtJSON_shape f t h
  refine ⟨f.isNeg, ip, fr, ex, ?_, h1, h2, h3⟩
  rw [ht, signed_eq, hb]
  simp only [List.append_assoc]

theorem _root_.GoLucene.Laws.fmtJSON_isSome (f : F64) (h : f.isFinite = true) : (fmtJSON f).isSome = true := by
  unfold fmtJSON
  simp only [h, Bool.not_true, Bool.false_eq_true, if_false]
  rfl



/-! ## (5) when `atoi` accepts the text of a float, the text is the canonical decimal -/

theorem natDigits_dval_acc (ds : Bytes) (hd : digs ds) : ∀ acc, 0 < acc → natDigits (dval acc ds) = natDigits acc ++ ds := by
  induction ds with
  | nil => intro acc _; simp [dval_nil]
  | cons c t ih =>
    intro acc hacc
    have hc : dig c := hd c (by simp)
    rw [dval_cons, ih (fun x hx => hd x (by simp [hx])) _ (by omega)]
    have hge : ¬ (10 * acc + (c.toNat - 48)) < 10 := by omega
    unfold dig at hc
    rw [natDigits_ge10 _ hge]
    have e1 : (10 * acc + (c.toNat - 48)) / 10 = acc := by omega
    have e2 : 48 + (10 * acc + (c.toNat - 48)) % 10 = c.toNat := by omega
    rw [e1, e2]
    simp

theorem intPart_canon (ip : Bytes) (h : IntPart ip) : natDigits (dval 0 ip) = ip := by
  rcases h with h | ⟨d, ds, h, h1, h2, h3⟩
  · subst h; decide
  · subst h
    rw [dval_cons, natDigits_dval_acc ds h3 _ (by omega)]
    have : natDigits (10 * 0 + (d.toNat - 48)) = [d] := by
      rw [natDigits_lt10 _ (by omega)]
      have : 48 + (10 * 0 + (d.toNat - 48)) = d.toNat := by omega
      rw [this]; simp
    rw [this]; rfl

theorem intPart_dval_zero (ip : Bytes) (h : IntPart ip) (hz : dval 0 ip = 0) : ip = [48] := by
  have := intPart_canon ip h
  rw [hz] at this
  rw [← this]; decide

theorem digitsVal_some : ∀ (ds : Bytes) (acc n : Nat), digitsVal acc ds = some n → digs ds ∧ n = dval acc ds := by
  intro ds
  induction ds with
  | nil => intro acc n h; simp [digitsVal] at h; exact ⟨by intro c hc; simp at hc, by rw [dval_nil]; exact h.symm⟩
  | cons c t ih =>
    intro acc n h
    rw [digitsVal] at h
    by_cases hc : Num.isDig c = true
    · rw [if_pos hc] at h
      obtain ⟨a1, a2⟩ := ih _ _ h
      exact ⟨digs_cons (dig_isDig.mp hc) a1, by rw [dval_cons, Nat.mul_comm 10]; exact a2⟩
    · rw [if_neg hc] at h; cases h

theorem atoiU_some (s : Bytes) (n : Nat) (h : atoiU s = some n) : digs s ∧ n = dval 0 s := by
  unfold atoiU at h
  cases s with
  | nil => cases h
  | cons c t => exact digitsVal_some _ _ _ h

/-- an all-digit text with the shape of a number body has neither fraction nor exponent -/
theorem digs_body (ip fr ex : Bytes) (hfr : FrOK fr) (hex : ExOK ex) (hd : digs (ip ++ fr ++ ex)) : fr = [] ∧ ex = [] := by
  constructor
  · rcases hfr with h | ⟨ds, _, _, h⟩
    · exact h
    · exfalso
      have := hd 46 (by rw [h]; simp)
      exact (dig_not this).2.2.1 rfl
  · rcases hex with h | ⟨sg, ds, _, _, _, h⟩
    · exact h
    · exfalso
      have := hd 101 (by rw [h]; simp)
      exact (dig_not this).2.2.2 rfl

theorem intPart_head (ip : Bytes) (h : IntPart ip) : ∃ c t, ip = c :: t ∧ dig c := by
  rcases h with h | ⟨d, ds, h, h1, h2, _⟩
  · exact ⟨48, [], h, by unfold dig; decide⟩
  · exact ⟨d, ds, h, by omega, h2⟩

theorem _root_.GoLucene.Laws.int_text_leaf (f : F64) (t : Bytes) (i : Int) (h : fmtJSON f = some t) (ha : atoi t = some i)
    (hz : isNegZero f = false) : fmtInt i = t := by
  obtain ⟨body, ht, ip, fr, ex, hb, hip, hfr, hex, hnz⟩ := fmtJSON_shape f t h
  obtain ⟨c0, t0, hip0, hc0⟩ := intPart_head ip hip
  subst ht
  by_cases hneg : f.isNeg = true
  · -- negative
    simp only [hneg, signed, if_true] at ha ⊢
    simp only [atoi, if_true] at ha
    cases hu : atoiU body with
    | none => rw [hu] at ha; cases ha
    | some n =>
      rw [hu] at ha
      simp only [] at ha
      obtain ⟨hd, hn⟩ := atoiU_some body n hu
      rw [hb] at hd
      obtain ⟨e1, e2⟩ := digs_body ip fr ex hfr hex hd
      have hbody : body = ip := by rw [hb, e1, e2]; simp
      by_cases hle : n ≤ two63
      · rw [if_pos hle] at ha
        cases ha
        have hn0 : n ≠ 0 := by
          intro h0
          have : ip = [48] := intPart_dval_zero ip hip (by rw [← hbody, ← hn]; exact h0)
          have hzz : (!f.isZero) = true → False := fun hh => hnz hh this e1
          have : f.isZero = true := by cases hfz : f.isZero <;> simp [hfz] at hzz ⊢
          simp [isNegZero, this, hneg] at hz
        have hlt : (-(n : Int)) < 0 := by omega
        rw [fmtInt_neg _ hlt]
        have : (-(n : Int)).natAbs = n := by omega
        rw [this, hn, hbody, intPart_canon ip hip]
      · rw [if_neg hle] at ha; cases ha
  · -- non-negative
    simp only [hneg, signed, if_false, Bool.false_eq_true] at ha ⊢
    have hbody0 : body = c0 :: (t0 ++ fr ++ ex) := by rw [hb, hip0]; simp
    have hc45 := (dig_ne hc0).1
    have hc43 := (dig_ne hc0).2.1
    rw [hbody0] at ha
    simp only [atoi, if_neg hc45, if_neg hc43] at ha
    rw [← hbody0] at ha
    cases hu : atoiU body with
    | none => rw [hu] at ha; cases ha
    | some n =>
      rw [hu] at ha
      simp only [] at ha
      obtain ⟨hd, hn⟩ := atoiU_some body n hu
      rw [hb] at hd
      obtain ⟨e1, e2⟩ := digs_body ip fr ex hfr hex hd
      have hbody : body = ip := by rw [hb, e1, e2]; simp
      by_cases hlt : n < two63
      · rw [if_pos hlt] at ha
        cases ha
        rw [fmtInt_nonneg _ (by omega)]
        have : ((n : Int)).natAbs = n := by omega
        rw [this, hn, hbody, intPart_canon ip hip]
      · rw [if_neg hlt] at ha; cases ha

#print axioms fmtJSON_jsonNum
#print axioms fmtJSON_isSome
#print axioms int_text_leaf

end Fmt
end Laws
end GoLucene
