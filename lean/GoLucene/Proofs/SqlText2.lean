import GoLucene.Proofs.SqlText1
import GoLucene.Proofs.SqlQuote
/-
  SqlText, part 2: the SCANNER half.  The text `cstText c` of a rendered expression (the renderer's spacing and
  parentheses) is split by PostgreSQL's scanner into exactly the tokens `ctoks c`.
-/
namespace GoLucene.SqlText
open GoLucene Sql

/-! ## single scanner steps on fixed texts -/

theorem lx_space (f : Nat) (r : Bytes) : lexFrom (f + 1) (32 :: r) = lexFrom f r := rfl
theorem lx_lparen (f : Nat) (r : Bytes) : lexFrom (f + 1) (40 :: r) = (lexFrom f r).map (Tok.lparen :: ·) := rfl
theorem lx_rparen (f : Nat) (r : Bytes) : lexFrom (f + 1) (41 :: r) = (lexFrom f r).map (Tok.rparen :: ·) := rfl
theorem lx_comma (f : Nat) (r : Bytes) : lexFrom (f + 1) (44 :: r) = (lexFrom f r).map (Tok.comma :: ·) := rfl

theorem lx_eq (f : Nat) (r : Bytes) :
    lexFrom (f + 1) (61 :: 32 :: r) = (lexFrom f (32 :: r)).map (Tok.cmp .eq :: ·) := rfl
theorem lx_lt (f : Nat) (r : Bytes) :
    lexFrom (f + 1) (60 :: 32 :: r) = (lexFrom f (32 :: r)).map (Tok.cmp .lt :: ·) := rfl
theorem lx_gt (f : Nat) (r : Bytes) :
    lexFrom (f + 1) (62 :: 32 :: r) = (lexFrom f (32 :: r)).map (Tok.cmp .gt :: ·) := rfl
theorem lx_le (f : Nat) (r : Bytes) :
    lexFrom (f + 1) (60 :: 61 :: 32 :: r) = (lexFrom f (32 :: r)).map (Tok.cmp .le :: ·) := rfl
theorem lx_ge (f : Nat) (r : Bytes) :
    lexFrom (f + 1) (62 :: 61 :: 32 :: r) = (lexFrom f (32 :: r)).map (Tok.cmp .ge :: ·) := rfl
theorem lx_ne (f : Nat) (r : Bytes) :
    lexFrom (f + 1) (60 :: 62 :: 32 :: r) = (lexFrom f (32 :: r)).map (Tok.cmp .ne :: ·) := rfl
theorem lx_tilde (f : Nat) (r : Bytes) :
    lexFrom (f + 1) (126 :: 32 :: r) = (lexFrom f (32 :: r)).map (Tok.tilde :: ·) := rfl

theorem lx_AND (f : Nat) (r : Bytes) :
    lexFrom (f + 1) (65 :: 78 :: 68 :: 32 :: r) = (lexFrom f (32 :: r)).map (Tok.kw .and :: ·) := rfl
theorem lx_OR (f : Nat) (r : Bytes) :
    lexFrom (f + 1) (79 :: 82 :: 32 :: r) = (lexFrom f (32 :: r)).map (Tok.kw .or :: ·) := rfl
theorem lx_NOT (f : Nat) (r : Bytes) :
    lexFrom (f + 1) (78 :: 79 :: 84 :: 40 :: r) = (lexFrom f (40 :: r)).map (Tok.kw .not :: ·) := rfl
theorem lx_IN (f : Nat) (r : Bytes) :
    lexFrom (f + 1) (73 :: 78 :: 32 :: r) = (lexFrom f (32 :: r)).map (Tok.kw .in_ :: ·) := rfl
theorem lx_TO (f : Nat) (r : Bytes) :
    lexFrom (f + 1) (84 :: 79 :: 32 :: r) = (lexFrom f (32 :: r)).map (Tok.kw .to :: ·) := rfl
theorem lx_SIMILAR (f : Nat) (r : Bytes) :
    lexFrom (f + 1) (83 :: 73 :: 77 :: 73 :: 76 :: 65 :: 82 :: 32 :: r) =
      (lexFrom f (32 :: r)).map (Tok.kw .similar :: ·) := rfl
theorem lx_BETWEEN (f : Nat) (r : Bytes) :
    lexFrom (f + 1) (66 :: 69 :: 84 :: 87 :: 69 :: 69 :: 78 :: 32 :: r) =
      (lexFrom f (32 :: r)).map (Tok.kw .between :: ·) := rfl


/-! ## digits -/

/-- a property of bytes that holds for all 256 of them -/
theorem byte_forall (P : UInt8 → Bool) (h : (List.range 256).all (fun n => P (UInt8.ofNat n)) = true) (c : UInt8) :
    P c = true := by
  have := List.all_eq_true.mp h c.toNat (List.mem_range.mpr (UInt8.toNat_lt c))
  simpa using this

/-- what the scanner needs to know about a digit -/
theorem dig_facts (c : UInt8) (h : isDigit c = true) :
    isSpace c = false ∧ c ≠ 39 ∧ c ≠ 34 ∧ c ≠ 40 ∧ c ≠ 41 ∧ c ≠ 44 ∧ isOpChar c = false ∧ c ≠ 46 ∧ c ≠ 101 ∧ c ≠ 69 ∧
      isPlusMinus c = false ∧ isIdentStart c = false ∧ c ≠ 32 := by
  have := byte_forall (fun c => !isDigit c || (!isSpace c && c != 39 && c != 34 && c != 40 && c != 41 && c != 44 &&
    !isOpChar c && c != 46 && c != 101 && c != 69 && !isPlusMinus c && !isIdentStart c && c != 32))
    (by decide +kernel) c
  simpa [h, and_assoc] using this


/-! ## numeric constants -/

/-- the mantissa stage of `scanNum` -/
def mantOf (s : Bytes) : Option (Bytes × Bytes) :=
  let ip := s.takeWhile isDigit
  let r1 := s.dropWhile isDigit
  match r1 with
  | c :: r2 =>
    if c == 46 then
      let fp := r2.takeWhile isDigit
      let r3 := r2.dropWhile isDigit
      if ip.isEmpty && fp.isEmpty then none
      else if fp.isEmpty && startsWith (· == 46) r3 then none
      else some (ip ++ 46 :: fp, r3)
    else if ip.isEmpty then none else some (ip, r1)
  | [] => if ip.isEmpty then none else some (ip, r1)

/-- the exponent stage of `scanNum` -/
def expOf (m r : Bytes) : Option (Bytes × Bytes) :=
  match r with
  | e :: r' =>
    if e == 101 || e == 69 then
      let sign := if startsWith isPlusMinus r' then r'.take 1 else []
      let r'' := if startsWith isPlusMinus r' then r'.drop 1 else r'
      let ed := r''.takeWhile isDigit
      if ed.isEmpty then none else some (m ++ e :: sign ++ ed, r''.dropWhile isDigit)
    else some (m, r)
  | [] => some (m, r)

theorem scanNum_eq (s : Bytes) : scanNum s =
    match mantOf s with
    | none => none
    | some (m, r) =>
      match expOf m r with
      | none => none
      | some (t, rest) => if startsWith isIdentStart rest then none else some (t, rest) := rfl

/-- the text continues with something that is not a digit -/
def NoDigHead (t : Bytes) : Prop := ∀ c r, t = c :: r → isDigit c = false

theorem tw_stop (ip t : Bytes) (hip : AllDig ip) (ht : NoDigHead t) :
    (ip ++ t).takeWhile isDigit = ip ∧ (ip ++ t).dropWhile isDigit = t := by
  rw [List.takeWhile_append_of_pos hip, List.dropWhile_append_of_pos hip]
  cases t with
  | nil => simp
  | cons c r => have := ht c r rfl; simp [this]

/-- after a numeric constant: end of text, `)`, `,` or a blank -/
def TermHead (rest : Bytes) : Prop := rest = [] ∨ ∃ c r, rest = c :: r ∧ (c = 41 ∨ c = 44 ∨ c = 32)

theorem TermHead.noDig {rest : Bytes} (h : TermHead rest) : NoDigHead rest := by
  intro c r e
  rcases h with rfl | ⟨c', r', rfl, hc⟩
  · cases e
  · cases e; rcases hc with rfl | rfl | rfl <;> decide

theorem isEmpty_false {l : Bytes} (h : l ≠ []) : l.isEmpty = false := by cases l <;> simp_all

theorem mantOf_shape (ip fr t : Bytes) (hne : ip ≠ []) (hip : AllDig ip) (hfr : FracShape fr)
    (ht : ∀ c r, t = c :: r → isDigit c = false ∧ c ≠ 46) :
    mantOf (ip ++ fr ++ t) = some (ip ++ fr, t) := by
  have hnd : NoDigHead t := fun c r e => (ht c r e).1
  rcases hfr with rfl | ⟨fp, rfl, hfp, hfd⟩
  · rw [List.append_nil]
    have h1 := tw_stop ip t hip hnd
    unfold mantOf
    simp only [h1.1, h1.2, isEmpty_false hne]
    cases t with
    | nil => simp
    | cons c r =>
      have := (ht c r rfl).2
      simp [this]
  · have e : ip ++ 46 :: fp ++ t = ip ++ (46 :: (fp ++ t)) := by simp
    have h1 := tw_stop ip (46 :: (fp ++ t)) hip (by intro c r e; cases e; decide)
    have h2 := tw_stop fp t hfd hnd
    rw [e]
    unfold mantOf
    simp only [h1.1, h1.2, h2.1, h2.2, isEmpty_false hne, isEmpty_false hfp]
    simp

theorem expOf_shape (m ex rest : Bytes) (hex : ExpShape ex) (hr : TermHead rest) :
    expOf m (ex ++ rest) = some (m ++ ex, rest) := by
  have hnd := hr.noDig
  rcases hex with rfl | ⟨sg, ed, rfl, hsg, hed, hdd⟩
  · rw [List.nil_append, List.append_nil]
    rcases hr with rfl | ⟨c, r, rfl, hc⟩
    · rfl
    · unfold expOf
      rcases hc with rfl | rfl | rfl <;> rfl
  · have h2 := tw_stop ed rest hdd hnd
    obtain ⟨d, ed', rfl⟩ : ∃ d ed', ed = d :: ed' := by
      cases ed with
      | nil => exact absurd rfl hed
      | cons d t => exact ⟨d, t, rfl⟩
    have hd := dig_facts d (hdd d (by simp))
    rcases hsg with rfl | rfl | rfl
    · have e : 101 :: ([] ++ d :: ed') ++ rest = 101 :: (d :: ed' ++ rest) := by simp
      rw [e]
      rw [List.cons_append] at h2 ⊢
      unfold expOf
      have hs : startsWith isPlusMinus (d :: (ed' ++ rest)) = false := by simp [startsWith, hd.2.2.2.2.2.2.2.2.2.2.1]
      simp only [hs]
      simp [h2.1, h2.2]
    · have e : 101 :: ([43] ++ d :: ed') ++ rest = 101 :: 43 :: (d :: ed' ++ rest) := by simp
      rw [e]
      unfold expOf
      have hs : startsWith isPlusMinus (43 :: (d :: ed' ++ rest)) = true := rfl
      simp only [hs, ↓reduceIte, List.drop_succ_cons, List.drop_zero, h2.1, h2.2]
      simp
    · have e : 101 :: ([45] ++ d :: ed') ++ rest = 101 :: 45 :: (d :: ed' ++ rest) := by simp
      rw [e]
      unfold expOf
      have hs : startsWith isPlusMinus (45 :: (d :: ed' ++ rest)) = true := rfl
      simp only [hs, ↓reduceIte, List.drop_succ_cons, List.drop_zero, h2.1, h2.2]
      simp

theorem ExpShape.head {ex rest : Bytes} (hex : ExpShape ex) (hr : TermHead rest) :
    ∀ c r, ex ++ rest = c :: r → isDigit c = false ∧ c ≠ 46 := by
  intro c r e
  rcases hex with rfl | ⟨sg, ed, rfl, _, _, _⟩
  · rcases hr with rfl | ⟨c', r', rfl, hc⟩
    · cases e
    · cases e; rcases hc with rfl | rfl | rfl <;> decide
  · cases e; decide

/-- PostgreSQL's scanner reads a numeric text of the renderer as one constant -/
theorem scanNum_shape (raw rest : Bytes) (h : NumShape raw) (hr : TermHead rest) :
    scanNum (raw ++ rest) = some (raw, rest) := by
  obtain ⟨ip, fr, ex, rfl, hne, hip, hfr, hex⟩ := h
  have e : ip ++ fr ++ ex ++ rest = ip ++ fr ++ (ex ++ rest) := by simp
  have hi : startsWith isIdentStart rest = false := by
    rcases hr with rfl | ⟨c, r, rfl, hc⟩
    · rfl
    · rcases hc with rfl | rfl | rfl <;> rfl
  rw [e, scanNum_eq, mantOf_shape ip fr _ hne hip hfr (hex.head hr)]
  simp only []
  rw [expOf_shape _ ex rest hex hr]
  simp only [hi]
  simp

theorem NumShape.head {raw : Bytes} (h : NumShape raw) : ∃ d t, raw = d :: t ∧ isDigit d = true := by
  obtain ⟨ip, fr, ex, rfl, hne, hip, _, _⟩ := h
  cases ip with
  | nil => exact absurd rfl hne
  | cons d t => exact ⟨d, t ++ fr ++ ex, by simp, hip d (by simp)⟩

theorem dig_cases (c : UInt8) (h : isDigit c = true) :
    c = 48 ∨ c = 49 ∨ c = 50 ∨ c = 51 ∨ c = 52 ∨ c = 53 ∨ c = 54 ∨ c = 55 ∨ c = 56 ∨ c = 57 := by
  have := byte_forall (fun c => !isDigit c || (c == 48 || c == 49 || c == 50 || c == 51 || c == 52 || c == 53 ||
    c == 54 || c == 55 || c == 56 || c == 57)) (by decide +kernel) c
  simpa [h, or_assoc] using this

theorem lexFrom_digit (f : Nat) (c : UInt8) (rest : Bytes) (h : isDigit c = true) :
    lexFrom (f + 1) (c :: rest) =
      match scanNum (c :: rest) with
      | some (t, r) => (lexFrom f r).map (Tok.num t :: ·)
      | none => none := by
  rcases dig_cases c h with rfl | rfl | rfl | rfl | rfl | rfl | rfl | rfl | rfl | rfl <;> rfl

theorem lexFrom_45 (f : Nat) (rest : Bytes) : lexFrom (f + 1) (45 :: rest) =
      let run := (45 :: rest).takeWhile isOpChar
      if hasCommentStart run then none
      else
        let k := opLen run
        match opTok (run.take k) with
        | some t => (lexFrom f ((45 :: rest).drop k)).map (t :: ·)
        | none => none := rfl

theorem lx_num (raw rest : Bytes) (h : NumShape raw) (hr : TermHead rest) (f : Nat) :
    lexFrom (f + 1) (raw ++ rest) = (lexFrom f rest).map (Tok.num raw :: ·) := by
  obtain ⟨d, t, rfl, hd⟩ := h.head
  have hs := scanNum_shape (d :: t) rest h hr
  rw [List.cons_append] at hs ⊢
  rw [lexFrom_digit f d _ hd, hs]

theorem lx_minus (d : UInt8) (r : Bytes) (hd : isDigit d = true) (f : Nat) :
    lexFrom (f + 1) (45 :: d :: r) = (lexFrom f (d :: r)).map (Tok.minus :: ·) := by
  have hf := dig_facts d hd
  have h1 : (45 :: d :: r).takeWhile isOpChar = [45] := by
    have : isOpChar 45 = true := by decide
    simp [hf.2.2.2.2.2.2.1, this]
  rw [lexFrom_45]
  have c5 : hasCommentStart [45] = false := by decide
  have c6 : opLen [45] = 1 := by decide
  have c7 : opTok ([45].take 1) = some Tok.minus := by decide
  simp only [h1, c5, c6, c7, Bool.false_eq_true, ↓reduceIte, List.drop_succ_cons, List.drop_zero]


/-! ## the text of a concrete syntax tree, with the renderer's spacing -/

def opText : CmpOp → Bytes
  | .eq => [32, 61, 32]
  | .lt => [32, 60, 32]
  | .gt => [32, 62, 32]
  | .le => [32, 60, 61, 32]
  | .ge => [32, 62, 61, 32]
  | .ne => [32, 60, 62, 32]

mutual
def cstText : Cst → Bytes
  | .col f => [34] ++ f ++ [34]
  | .str s => sqlQuote s
  | .num neg raw => if neg then 45 :: raw else raw
  | .param _ => []
  | .paren x => [40] ++ cstText x ++ [41]
  | .cmp op l r => cstText l ++ opText op ++ cstText r
  | .between x lo hi =>
    cstText x ++ [32, 66, 69, 84, 87, 69, 69, 78, 32] ++ cstText lo ++ [32, 65, 78, 68, 32] ++ cstText hi
  | .inList x items => cstText x ++ [32, 73, 78, 32] ++ ([40] ++ listText items ++ [41])
  | .similar x p => cstText x ++ [32, 83, 73, 77, 73, 76, 65, 82, 32, 84, 79, 32] ++ cstText p
  | .regex x p => cstText x ++ [32, 126, 32] ++ cstText p
  | .and l r => cstText l ++ [32, 65, 78, 68, 32] ++ cstText r
  | .or l r => cstText l ++ [32, 79, 82, 32] ++ cstText r
  | .not x => [78, 79, 84] ++ cstText x
def listText : CstList → Bytes
  | .nil => []
  | .cons a .nil => cstText a
  | .cons a (.cons c t) => cstText a ++ [44, 32] ++ listText (.cons c t)
end

/-- what may follow a constant or a column reference: the end, `)`, `,`, or one blank and a non-blank -/
def term : Bytes → Bool
  | [] => true
  | 41 :: _ => true
  | 44 :: _ => true
  | 32 :: c :: _ => !isSpace c
  | _ => false

theorem term_cases {rest : Bytes} (h : term rest = true) :
    rest = [] ∨ (∃ r, rest = 41 :: r) ∨ (∃ r, rest = 44 :: r) ∨ (∃ c r, rest = 32 :: c :: r ∧ isSpace c = false) := by
  unfold term at h
  split at h
  · exact .inl rfl
  · exact .inr (.inl ⟨_, rfl⟩)
  · exact .inr (.inr (.inl ⟨_, rfl⟩))
  · exact .inr (.inr (.inr ⟨_, _, rfl, by simpa using h⟩))
  · cases h

theorem term_termHead {rest : Bytes} (h : term rest = true) : TermHead rest := by
  rcases term_cases h with rfl | ⟨r, rfl⟩ | ⟨r, rfl⟩ | ⟨c, r, rfl, _⟩
  · exact .inl rfl
  · exact .inr ⟨_, _, rfl, .inl rfl⟩
  · exact .inr ⟨_, _, rfl, .inr (.inl rfl)⟩
  · exact .inr ⟨_, _, rfl, .inr (.inr rfl)⟩

theorem term_noDq {rest : Bytes} (h : term rest = true) : startsWith (· == 34) rest = false := by
  rcases term_cases h with rfl | ⟨r, rfl⟩ | ⟨r, rfl⟩ | ⟨c, r, rfl, _⟩ <;> rfl

theorem term_noCont {rest : Bytes} (h : term rest = true) : strContinues rest = false := by
  rcases term_cases h with rfl | ⟨r, rfl⟩ | ⟨r, rfl⟩ | ⟨c, r, rfl, hc⟩
  · rfl
  · exact strContinues_cons _ _ (by decide) (by decide)
  · exact strContinues_cons _ _ (by decide) (by decide)
  · exact strContinues_blank_cons c r hc

/-! ## pieces of text and their tokens -/

/-- `a` is scanned as the tokens `ta` in `k` scanner steps, whatever follows -/
def Ux (a : Bytes) (ta : List Sql.Tok) (k : Nat) : Prop :=
  (∀ (f : Nat) (rest : Bytes), lexFrom (f + k) (a ++ rest) = (lexFrom f rest).map (ta ++ ·)) ∧ k ≤ a.length

/-- the same when what follows ends a constant (`term`) -/
def Lx (a : Bytes) (ta : List Sql.Tok) (k : Nat) : Prop :=
  (∀ (f : Nat) (rest : Bytes), term rest = true → lexFrom (f + k) (a ++ rest) = (lexFrom f rest).map (ta ++ ·)) ∧
    k ≤ a.length

theorem Ux.toLx {a : Bytes} {ta : List Sql.Tok} {k : Nat} (h : Ux a ta k) : Lx a ta k :=
  ⟨fun f rest _ => h.1 f rest, h.2⟩

theorem map_map_app (x : Option (List Sql.Tok)) (ta tb : List Sql.Tok) :
    (x.map (tb ++ ·)).map (ta ++ ·) = x.map ((ta ++ tb) ++ ·) := by
  cases x <;> simp

theorem Ux.seq {a c : Bytes} {ta tc : List Sql.Tok} {k j : Nat} (h1 : Ux a ta k) (h2 : Ux c tc j) :
    Ux (a ++ c) (ta ++ tc) (k + j) := by
  refine ⟨fun f rest => ?_, by have := h1.2; have := h2.2; simp; omega⟩
  have e : f + (k + j) = (f + j) + k := by omega
  rw [e, List.append_assoc, h1.1, h2.1, map_map_app]

theorem Ux.seqL {a c : Bytes} {ta tc : List Sql.Tok} {k j : Nat} (h1 : Ux a ta k) (h2 : Lx c tc j) :
    Lx (a ++ c) (ta ++ tc) (k + j) := by
  refine ⟨fun f rest hr => ?_, by have := h1.2; have := h2.2; simp; omega⟩
  have e : f + (k + j) = (f + j) + k := by omega
  rw [e, List.append_assoc, h1.1, h2.1 f rest hr, map_map_app]

theorem Lx.seqU {a c : Bytes} {ta tc : List Sql.Tok} {k j : Nat} (h1 : Lx a ta k) (h2 : Ux c tc j)
    (ht : ∀ X, term (c ++ X) = true) : Ux (a ++ c) (ta ++ tc) (k + j) := by
  refine ⟨fun f rest => ?_, by have := h1.2; have := h2.2; simp; omega⟩
  have e : f + (k + j) = (f + j) + k := by omega
  rw [e, List.append_assoc, h1.1 _ _ (ht rest), h2.1, map_map_app]

theorem Lx.cast {a a' : Bytes} {ta ta' : List Sql.Tok} {k : Nat} (h : Lx a ta k) (ea : a' = a) (et : ta' = ta) :
    Lx a' ta' k := by subst ea; subst et; exact h

theorem Ux.cast {a a' : Bytes} {ta ta' : List Sql.Tok} {k : Nat} (h : Ux a ta k) (ea : a' = a) (et : ta' = ta) :
    Ux a' ta' k := by subst ea; subst et; exact h

theorem lexFrom_nil (f : Nat) : lexFrom (f + 1) [] = some [] := rfl

/-- a complete text -/
theorem lex_of_Lx {a : Bytes} {ta : List Sql.Tok} {k : Nat} (h : Lx a ta k) : lex a = some ta := by
  have h1 := h.1 (a.length - k + 1) [] rfl
  rw [List.append_nil, lexFrom_nil] at h1
  have e2 : a.length + 1 = (a.length - k + 1) + k := by have := h.2; omega
  unfold lex
  rw [e2, h1]
  simp

/-! ## separators -/

theorem ux_op (op : CmpOp) : Ux (opText op) [.cmp op] 3 := by
  refine ⟨fun f rest => ?_, by cases op <;> simp [opText]⟩
  cases op
  · show lexFrom (f + 3) (32 :: 61 :: 32 :: rest) = _
    rw [lx_space, lx_eq, lx_space]; rfl
  · show lexFrom (f + 3) (32 :: 60 :: 32 :: rest) = _
    rw [lx_space, lx_lt, lx_space]; rfl
  · show lexFrom (f + 3) (32 :: 62 :: 32 :: rest) = _
    rw [lx_space, lx_gt, lx_space]; rfl
  · show lexFrom (f + 3) (32 :: 60 :: 61 :: 32 :: rest) = _
    rw [lx_space, lx_le, lx_space]; rfl
  · show lexFrom (f + 3) (32 :: 62 :: 61 :: 32 :: rest) = _
    rw [lx_space, lx_ge, lx_space]; rfl
  · show lexFrom (f + 3) (32 :: 60 :: 62 :: 32 :: rest) = _
    rw [lx_space, lx_ne, lx_space]; rfl

theorem term_op (op : CmpOp) (X : Bytes) : term (opText op ++ X) = true := by cases op <;> rfl

theorem ux_AND : Ux [32, 65, 78, 68, 32] [.kw .and] 3 := by
  refine ⟨fun f rest => ?_, by simp⟩
  show lexFrom (f + 3) (32 :: 65 :: 78 :: 68 :: 32 :: rest) = _
  rw [lx_space, lx_AND, lx_space]; rfl

theorem ux_OR : Ux [32, 79, 82, 32] [.kw .or] 3 := by
  refine ⟨fun f rest => ?_, by simp⟩
  show lexFrom (f + 3) (32 :: 79 :: 82 :: 32 :: rest) = _
  rw [lx_space, lx_OR, lx_space]; rfl

theorem ux_IN : Ux [32, 73, 78, 32] [.kw .in_] 3 := by
  refine ⟨fun f rest => ?_, by simp⟩
  show lexFrom (f + 3) (32 :: 73 :: 78 :: 32 :: rest) = _
  rw [lx_space, lx_IN, lx_space]; rfl

theorem ux_BETWEEN : Ux [32, 66, 69, 84, 87, 69, 69, 78, 32] [.kw .between] 3 := by
  refine ⟨fun f rest => ?_, by simp⟩
  show lexFrom (f + 3) (32 :: 66 :: 69 :: 84 :: 87 :: 69 :: 69 :: 78 :: 32 :: rest) = _
  rw [lx_space, lx_BETWEEN, lx_space]; rfl

theorem ux_SIMILAR_TO : Ux [32, 83, 73, 77, 73, 76, 65, 82, 32, 84, 79, 32] [.kw .similar, .kw .to] 5 := by
  refine ⟨fun f rest => ?_, by simp⟩
  show lexFrom (f + 5) (32 :: 83 :: 73 :: 77 :: 73 :: 76 :: 65 :: 82 :: 32 :: 84 :: 79 :: 32 :: rest) = _
  rw [lx_space, lx_SIMILAR, lx_space, lx_TO, lx_space]
  cases lexFrom f rest <;> rfl

theorem ux_tilde : Ux [32, 126, 32] [.tilde] 3 := by
  refine ⟨fun f rest => ?_, by simp⟩
  show lexFrom (f + 3) (32 :: 126 :: 32 :: rest) = _
  rw [lx_space, lx_tilde, lx_space]; rfl

theorem ux_lparen : Ux [40] [.lparen] 1 := ⟨fun f rest => by rw [List.singleton_append, lx_lparen]; rfl, by simp⟩
theorem ux_rparen : Ux [41] [.rparen] 1 := ⟨fun f rest => by rw [List.singleton_append, lx_rparen]; rfl, by simp⟩

theorem ux_commaSp : Ux [44, 32] [.comma] 2 := by
  refine ⟨fun f rest => ?_, by simp⟩
  show lexFrom (f + 2) (44 :: 32 :: rest) = _
  rw [lx_comma, lx_space]; rfl

theorem ux_NOTp : Ux [78, 79, 84, 40] [.kw .not, .lparen] 2 := by
  refine ⟨fun f rest => ?_, by simp⟩
  show lexFrom (f + 2) (78 :: 79 :: 84 :: 40 :: rest) = _
  rw [lx_NOT, lx_lparen]
  cases lexFrom f rest <;> rfl

/-! ## atoms, predicates, expressions -/

theorem lx_atom {a : Cst} (h : Atom a) : ∃ k, Lx (cstText a) (ctoks a) k := by
  cases h with
  | col f hne h34 h0 =>
    refine ⟨1, fun fu rest hr => ?_, by simp [cstText]⟩
    simp only [cstText, ctoks]
    rw [lexFrom_quotedIdent f rest hne h34 h0 (term_noDq hr)]; rfl
  | str s h0 =>
    refine ⟨1, fun fu rest hr => ?_, by simp [cstText, sqlQuote]⟩
    simp only [cstText, ctoks]
    rw [lexFrom_sqlQuote s rest h0 (term_noCont hr)]; rfl
  | num neg raw hn =>
    obtain ⟨d, t, rfl, hd⟩ := hn.head
    cases neg
    · refine ⟨1, fun fu rest hr => ?_, by simp [cstText]⟩
      simp only [cstText, ctoks, Bool.false_eq_true, ↓reduceIte]
      rw [lx_num _ rest hn (term_termHead hr)]; rfl
    · refine ⟨2, fun fu rest hr => ?_, by simp [cstText]⟩
      simp only [cstText, ctoks, ↓reduceIte]
      have e : 45 :: d :: t ++ rest = 45 :: d :: (t ++ rest) := by simp
      rw [e, lx_minus d _ hd, ← List.cons_append, lx_num _ rest hn (term_termHead hr)]
      cases lexFrom fu rest <;> rfl

theorem lx_atoms {items : CstList} (h : Atoms items) : ∃ k, Lx (listText items) (ltoks items) k := by
  induction h with
  | one ha => simpa only [listText, ltoks] using lx_atom ha
  | cons ha ht ih =>
    obtain ⟨k1, h1⟩ := lx_atom ha
    obtain ⟨k2, h2⟩ := ih
    exact ⟨_, ((h1.seqU ux_commaSp (fun _ => rfl)).seqL h2).cast (by simp only [listText]) (by simp [ltoks])⟩

theorem lx_leaf {L : Cst} (h : Leaf L) : ∃ k, Lx (cstText L) (ctoks L) k := by
  cases h with
  | cmp op hl hr =>
    obtain ⟨k1, h1⟩ := lx_atom hl
    obtain ⟨k2, h2⟩ := lx_atom hr
    exact ⟨_, ((h1.seqU (ux_op op) (term_op op)).seqL h2).cast (by simp only [cstText]) (by simp [ctoks])⟩
  | similar hx hp =>
    obtain ⟨k1, h1⟩ := lx_atom hx
    obtain ⟨k2, h2⟩ := lx_atom hp
    exact ⟨_, ((h1.seqU ux_SIMILAR_TO (fun _ => rfl)).seqL h2).cast (by simp only [cstText]) (by simp [ctoks])⟩
  | regex hx hp =>
    obtain ⟨k1, h1⟩ := lx_atom hx
    obtain ⟨k2, h2⟩ := lx_atom hp
    exact ⟨_, ((h1.seqU ux_tilde (fun _ => rfl)).seqL h2).cast (by simp only [cstText]) (by simp [ctoks])⟩
  | between hx hlo hhi =>
    obtain ⟨k1, h1⟩ := lx_atom hx
    obtain ⟨k2, h2⟩ := lx_atom hlo
    obtain ⟨k3, h3⟩ := lx_atom hhi
    exact ⟨_, (((((h1.seqU ux_BETWEEN (fun _ => rfl)).seqL h2).seqU ux_AND (fun _ => rfl))).seqL h3).cast
      (by simp only [cstText]) (by simp [ctoks])⟩
  | inList hx hi =>
    obtain ⟨k1, h1⟩ := lx_atom hx
    obtain ⟨k2, h2⟩ := lx_atoms hi
    exact ⟨_, (((((h1.seqU ux_IN (fun _ => rfl)).seq ux_lparen).seqL h2).seqU ux_rparen (fun _ => rfl))).toLx.cast
      (by simp only [cstText, List.append_assoc]) (by simp [ctoks])⟩

theorem ux_paren {x : Cst} {k : Nat} (h : Lx (cstText x) (ctoks x) k) :
    Ux ([40] ++ cstText x ++ [41]) (.lparen :: (ctoks x ++ [.rparen])) (1 + k + 1) :=
  ((ux_lparen.seqL h).seqU ux_rparen (fun _ => rfl)).cast rfl (by simp)

/-- SCANNER: the text of a rendered expression is split into exactly its tokens -/
theorem lx_RE {c : Cst} (h : RE c) : ∃ k, Lx (cstText c) (ctoks c) k := by
  induction h with
  | leaf hL => exact lx_leaf hL
  | rng hA hC =>
    obtain ⟨k1, h1⟩ := lx_leaf hA
    obtain ⟨k2, h2⟩ := lx_leaf hC
    exact ⟨_, ((h1.seqU ux_AND (fun _ => rfl)).seqL h2).cast (by simp only [cstText]) (by simp [ctoks])⟩
  | and hl hr ihl ihr =>
    obtain ⟨k1, h1⟩ := ihl
    obtain ⟨k2, h2⟩ := ihr
    exact ⟨_, (((ux_paren h1).seq ux_AND).seq (ux_paren h2)).toLx.cast (by simp only [cstText]) (by simp [ctoks])⟩
  | or hl hr ihl ihr =>
    obtain ⟨k1, h1⟩ := ihl
    obtain ⟨k2, h2⟩ := ihr
    exact ⟨_, (((ux_paren h1).seq ux_OR).seq (ux_paren h2)).toLx.cast (by simp only [cstText]) (by simp [ctoks])⟩
  | not hx ih =>
    obtain ⟨k1, h1⟩ := ih
    exact ⟨_, ((ux_NOTp.seqL h1).seqU ux_rparen (fun _ => rfl)).toLx.cast (by simp [cstText]) (by simp [ctoks])⟩

theorem lex_RE {c : Cst} (h : RE c) : lex (cstText c) = some (ctoks c) := by
  obtain ⟨k, hk⟩ := lx_RE h
  exact lex_of_Lx hk

/-- scanner and grammar together -/
theorem parseSql_RE {c : Cst} (h : RE c) :
    parseSql (cstText c) = if c.peak frameDepth < maxStack then some c.toAst else none := by
  unfold parseSql
  rw [lex_RE h]
  exact parse_RE h

end GoLucene.SqlText

#print axioms GoLucene.SqlText.parseSql_RE
