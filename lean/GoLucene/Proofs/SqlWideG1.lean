import GoLucene.Proofs.SqlText
/-
  SqlWide, grammar part (generalises SqlText1): the rendered shapes `RK`, which extend `RE` by
    * PLACEHOLDER atoms (`?`, parameterized text), when the flag `pm` is set, and
    * BARE ATOMS as a whole expression and as operands of AND / OR / NOT (a Lucene term without a field renders
      as a bare constant: `'foo' AND ("a" = 1)`, `NOT('foo')`);
  and the GRAMMAR half: PostgreSQL's expression grammar reads the token list of such a tree back as that tree,
  after numbering the `?` placeholders from left to right (`renum`).
-/
set_option linter.unusedSimpArgs false
set_option linter.unusedVariables false

namespace GoLucene.SqlWide
open GoLucene Sql SqlText

/-! ## shapes -/

/-- constants, column references and (if `pm`) placeholders -/
inductive AtomP (pm : Bool) : Cst → Prop
  | col (f : Bytes) : f ≠ [] → (∀ c ∈ f, c ≠ 34) → (∀ c ∈ f, c ≠ 0) → AtomP pm (.col f)
  | str (s : Bytes) : (∀ c ∈ s, c ≠ 0) → AtomP pm (.str s)
  | num (neg : Bool) (raw : Bytes) : NumShape raw → AtomP pm (.num neg raw)
  | param (n : Nat) : pm = true → AtomP pm (.param n)

inductive AtomsP (pm : Bool) : CstList → Prop
  | one {a : Cst} : AtomP pm a → AtomsP pm (.cons a .nil)
  | cons {a c : Cst} {t : CstList} : AtomP pm a → AtomsP pm (.cons c t) → AtomsP pm (.cons a (.cons c t))

inductive LeafP (pm : Bool) : Cst → Prop
  | cmp (op : CmpOp) {l r : Cst} : AtomP pm l → AtomP pm r → LeafP pm (.cmp op l r)
  | similar {x p : Cst} : AtomP pm x → AtomP pm p → LeafP pm (.similar x p)
  | regex {x p : Cst} : AtomP pm x → AtomP pm p → LeafP pm (.regex x p)
  | between {x lo hi : Cst} : AtomP pm x → AtomP pm lo → AtomP pm hi → LeafP pm (.between x lo hi)
  | inList {x : Cst} {items : CstList} : AtomP pm x → AtomsP pm items → LeafP pm (.inList x items)

/-- the rendered expressions.  Index `false`: a complete expression; index `true`: an operand of AND / OR as the
    renderer writes it — a parenthesised expression, or a bare atom (`isSimple` operands get no parentheses). -/
inductive RK (pm : Bool) : Bool → Cst → Prop
  | atom {a : Cst} (k : Bool) : AtomP pm a → RK pm k a
  | leaf {c : Cst} : LeafP pm c → RK pm false c
  | rng {a c : Cst} : LeafP pm a → LeafP pm c → RK pm false (.and a c)
  | paren {x : Cst} : RK pm false x → RK pm true (.paren x)
  | and {l r : Cst} : RK pm true l → RK pm true r → RK pm false (.and l r)
  | or {l r : Cst} : RK pm true l → RK pm true r → RK pm false (.or l r)
  | not {x : Cst} : RK pm false x → RK pm false (.not (.paren x))

theorem AtomP.of {pm : Bool} {a : Cst} (h : Atom a) : AtomP pm a := by
  cases h with
  | col f h1 h2 h3 => exact .col f h1 h2 h3
  | str s h1 => exact .str s h1
  | num neg raw h1 => exact .num neg raw h1

theorem AtomsP.of {pm : Bool} {l : CstList} (h : Atoms l) : AtomsP pm l := by
  induction h with
  | one ha => exact .one (.of ha)
  | cons ha _ ih => exact .cons (.of ha) ih

theorem LeafP.of {pm : Bool} {c : Cst} (h : Leaf c) : LeafP pm c := by
  cases h with
  | cmp op hl hr => exact .cmp op (.of hl) (.of hr)
  | similar hx hp => exact .similar (.of hx) (.of hp)
  | regex hx hp => exact .regex (.of hx) (.of hp)
  | between hx hlo hhi => exact .between (.of hx) (.of hlo) (.of hhi)
  | inList hx hi => exact .inList (.of hx) (.of hi)

theorem RK.of {pm : Bool} {c : Cst} (h : RE c) : RK pm false c := by
  induction h with
  | leaf hL => exact .leaf (.of hL)
  | rng hA hC => exact .rng (.of hA) (.of hC)
  | and _ _ ihl ihr => exact .and (.paren ihl) (.paren ihr)
  | or _ _ ihl ihr => exact .or (.paren ihl) (.paren ihr)
  | not _ ih => exact .not ih

/-! ## atoms -/

theorem pPrim_atomP {pm : Bool} {a : Cst} (h : AtomP pm a) (f : Nat) (rest : List Sql.Tok) :
    pPrim (f + 1) (ctoks a ++ rest) = some (a, rest) := by
  cases h with
  | col f' _ _ _ => simp [ctoks, pPrim]
  | str s _ => simp [ctoks, pPrim]
  | num neg raw _ => cases neg <;> simp [ctoks, pPrim]
  | param n _ => simp [ctoks, pPrim]

theorem pOp_atomP {pm : Bool} {a : Cst} (h : AtomP pm a) (f : Nat) (rest : List Sql.Tok) (hr : noTilde rest = true) :
    pOp (f + 2) (ctoks a ++ rest) = some (a, rest) := by
  simp only [pOp, pPrim_atomP h]
  exact pOpLoop_stop f a rest (noTilde_ne hr)

theorem atomP_headNot {pm : Bool} {a : Cst} (h : AtomP pm a) (r : List Sql.Tok) : headNot (ctoks a ++ r) = false := by
  cases h with
  | col f' _ _ _ => rfl
  | str s _ => rfl
  | num neg raw _ => cases neg <;> rfl
  | param n _ => rfl

theorem pBet_atomP {pm : Bool} {a : Cst} (h : AtomP pm a) (f : Nat) (rest : List Sql.Tok) (h1 : noTilde rest = true)
    (h2 : betStop rest = true) : pBet (f + 3) (ctoks a ++ rest) = some (a, rest) :=
  pBet_other _ _ _ _ (pOp_atomP h f rest h1) h2

theorem pBet_similarP {pm : Bool} {x p : Cst} (hx : AtomP pm x) (hp : AtomP pm p) (f : Nat) (rest : List Sql.Tok)
    (hr : noTilde rest = true) :
    pBet (f + 3) (ctoks (.similar x p) ++ rest) = some (.similar x p, rest) := by
  have e : ctoks (.similar x p) ++ rest = ctoks x ++ (.kw .similar :: .kw .to :: (ctoks p ++ rest)) := by
    simp [ctoks]
  rw [e]
  simp only [pBet, pOp_atomP hx f _ (rfl : noTilde (.kw .similar :: .kw .to :: (ctoks p ++ rest)) = true),
    pOp_atomP hp f rest hr]

theorem pBet_betweenP {pm : Bool} {x lo hi : Cst} (hx : AtomP pm x) (hlo : AtomP pm lo) (hhi : AtomP pm hi) (f : Nat)
    (rest : List Sql.Tok) (hr : noTilde rest = true) :
    pBet (f + 3) (ctoks (.between x lo hi) ++ rest) = some (.between x lo hi, rest) := by
  have e : ctoks (.between x lo hi) ++ rest =
      ctoks x ++ (.kw .between :: (ctoks lo ++ (.kw .and :: (ctoks hi ++ rest)))) := by
    simp [ctoks]
  rw [e]
  simp only [pBet, pOp_atomP hx f _ (rfl : noTilde (.kw .between :: (ctoks lo ++ (.kw .and :: (ctoks hi ++ rest)))) = true),
    pOp_atomP hlo f _ (rfl : noTilde (.kw .and :: (ctoks hi ++ rest)) = true), pOp_atomP hhi f rest hr]

theorem pOp_regexP {pm : Bool} {x p : Cst} (hx : AtomP pm x) (hp : AtomP pm p) (f : Nat) (rest : List Sql.Tok)
    (hr : noTilde rest = true) :
    pOp (f + 3) (ctoks (.regex x p) ++ rest) = some (.regex x p, rest) := by
  have e : ctoks (.regex x p) ++ rest = ctoks x ++ (.tilde :: (ctoks p ++ rest)) := by simp [ctoks]
  rw [e]
  simp only [pOp, pPrim_atomP hx, pOpLoop, pPrim_atomP hp]
  exact pOpLoop_stop f _ rest (noTilde_ne hr)

theorem pBet_regexP {pm : Bool} {x p : Cst} (hx : AtomP pm x) (hp : AtomP pm p) (f : Nat) (rest : List Sql.Tok)
    (hr : noTilde rest = true) (h2 : betStop rest = true) :
    pBet (f + 4) (ctoks (.regex x p) ++ rest) = some (.regex x p, rest) :=
  pBet_other _ _ _ _ (pOp_regexP hx hp f rest hr) h2

theorem pCmp_cmpP {pm : Bool} (op : CmpOp) {l r : Cst} (hl : AtomP pm l) (hr : AtomP pm r) (f : Nat)
    (rest : List Sql.Tok) (hs : stopTok rest = true) :
    pCmp (f + 4) (ctoks (.cmp op l r) ++ rest) = some (.cmp op l r, rest) := by
  have e : ctoks (.cmp op l r) ++ rest = ctoks l ++ (.cmp op :: (ctoks r ++ rest)) := by simp [ctoks]
  rw [e]
  simp only [pCmp, pBet_atomP hl f _ (rfl : noTilde (.cmp op :: (ctoks r ++ rest)) = true) rfl,
    pBet_atomP hr f rest (stop_noTilde hs) (stop_betStop hs), stop_notCmp hs]
  rfl

/-- an atom at the level of `pNot` (an operand of AND / OR) -/
theorem pNot_atomP {pm : Bool} {a : Cst} (h : AtomP pm a) (f : Nat) (rest : List Sql.Tok) (hs : stopTok rest = true) :
    pNot (f + 5) (ctoks a ++ rest) = some (a, rest) := by
  rw [pNot_other _ _ (atomP_headNot h rest)]
  exact pCmp_other _ _ _ _ (pBet_atomP h f rest (stop_noTilde hs) (stop_betStop hs)) (stop_notCmp hs)

theorem pOr_atomP {pm : Bool} {a : Cst} (h : AtomP pm a) (f : Nat) (rest : List Sql.Tok) (hr : endTok rest = true) :
    pOr (f + 7) (ctoks a ++ rest) = some (a, rest) := by
  have h2 := pNot_atomP h f rest (end_stop hr)
  simp only [pOr, pAnd, h2, pAndLoop_stop _ _ _ (end_notAnd hr), pOrLoop_stop _ _ _ (end_notOr hr)]

theorem pList_atomsP {pm : Bool} {items : CstList} (h : AtomsP pm items) : ∀ (f : Nat) (rest : List Sql.Tok),
    pList (f + llen items + 7) (ltoks items ++ .rparen :: rest) = some (items, .rparen :: rest) := by
  induction h with
  | one ha =>
    intro f rest
    rename_i a
    show pList ((f + 7) + 1) (ctoks a ++ .rparen :: rest) = _
    rw [pList, pOr_atomP ha f (.rparen :: rest) rfl]
  | cons ha ht ih =>
    intro f rest
    rename_i a c t
    have e : ltoks (.cons a (.cons c t)) ++ .rparen :: rest =
        ctoks a ++ (.comma :: (ltoks (.cons c t) ++ .rparen :: rest)) := by simp [ltoks]
    have e2 : f + llen (.cons a (.cons c t)) + 7 = (f + llen (.cons c t) + 7) + 1 := by simp [llen]; omega
    rw [e, e2, pList]
    have e3 : f + llen (.cons c t) + 7 = (f + llen (.cons c t)) + 7 := rfl
    rw [e3, pOr_atomP ha _ _ rfl]
    simp only []
    rw [← e3, ih f rest]

theorem pBet_inListP {pm : Bool} {x : Cst} {items : CstList} (hx : AtomP pm x) (hi : AtomsP pm items) (f : Nat)
    (rest : List Sql.Tok) :
    pBet (f + llen items + 8) (ctoks (.inList x items) ++ rest) = some (.inList x items, rest) := by
  have e : ctoks (.inList x items) ++ rest =
      ctoks x ++ (.kw .in_ :: .lparen :: (ltoks items ++ .rparen :: rest)) := by simp [ctoks]
  rw [e]
  show pBet (f + llen items + 7 + 1) _ = _
  simp only [pBet]
  have e3 : f + llen items + 7 = (f + llen items + 5) + 2 := by omega
  rw [e3, pOp_atomP hx _ _ (rfl : noTilde (.kw .in_ :: .lparen :: (ltoks items ++ .rparen :: rest)) = true)]
  simp only []
  rw [← e3, pList_atomsP hi f rest]

theorem leafP_headNot {pm : Bool} {L : Cst} (h : LeafP pm L) (rest : List Sql.Tok) :
    headNot (ctoks L ++ rest) = false := by
  cases h with
  | cmp op hl hr => simp only [ctoks, List.append_assoc]; exact atomP_headNot hl _
  | similar hx hp => simp only [ctoks, List.append_assoc]; exact atomP_headNot hx _
  | regex hx hp => simp only [ctoks, List.append_assoc]; exact atomP_headNot hx _
  | between hx _ _ => simp only [ctoks, List.append_assoc]; exact atomP_headNot hx _
  | inList hx _ => simp only [ctoks, List.append_assoc]; exact atomP_headNot hx _

theorem pNot_leafP {pm : Bool} {L : Cst} (h : LeafP pm L) (F : Nat) (rest : List Sql.Tok) (hF : need L ≤ F + 3)
    (hs : stopTok rest = true) : pNot F (ctoks L ++ rest) = some (L, rest) := by
  have hn := leafP_headNot h rest
  cases h with
  | cmp op hl hr =>
    obtain ⟨f, rfl⟩ : ∃ f, F = f + 5 := ⟨F - 5, by simp only [need] at hF; omega⟩
    rw [pNot_other _ _ hn]; exact pCmp_cmpP op hl hr f rest hs
  | similar hx hp =>
    obtain ⟨f, rfl⟩ : ∃ f, F = f + 5 := ⟨F - 5, by simp only [need] at hF; omega⟩
    rw [pNot_other _ _ hn]
    exact pCmp_other _ _ _ _ (pBet_similarP hx hp f rest (stop_noTilde hs)) (stop_notCmp hs)
  | regex hx hp =>
    obtain ⟨f, rfl⟩ : ∃ f, F = f + 6 := ⟨F - 6, by simp only [need] at hF; omega⟩
    rw [pNot_other _ _ hn]
    exact pCmp_other _ _ _ _ (pBet_regexP hx hp f rest (stop_noTilde hs) (stop_betStop hs)) (stop_notCmp hs)
  | between hx hlo hhi =>
    obtain ⟨f, rfl⟩ : ∃ f, F = f + 5 := ⟨F - 5, by simp only [need] at hF; omega⟩
    rw [pNot_other _ _ hn]
    exact pCmp_other _ _ _ _ (pBet_betweenP hx hlo hhi f rest (stop_noTilde hs)) (stop_notCmp hs)
  | inList hx hi =>
    rename_i x items
    obtain ⟨f, rfl⟩ : ∃ f, F = f + llen items + 8 + 1 + 1 :=
      ⟨F - (llen items + 10), by simp only [need] at hF; omega⟩
    rw [pNot_other _ _ hn]
    exact pCmp_other _ _ _ _ (pBet_inListP hx hi f rest) (stop_notCmp hs)

theorem leafP_need {pm : Bool} {L : Cst} (h : LeafP pm L) : 10 ≤ need L := by cases h <;> simp [need]
theorem atomP_need {pm : Bool} {a : Cst} (h : AtomP pm a) : need a = 10 := by cases h <;> simp [need]

theorem need_ge (c : Cst) : 2 ≤ need c := by
  cases c <;> simp [need] <;> omega

/-! ## the grammar reads a rendered expression back -/

theorem p_RK {pm : Bool} {k : Bool} {c : Cst} (h : RK pm k c) : ∀ (F : Nat) (rest : List Sql.Tok), need c ≤ F →
    (k = false → closeTok rest = true → pOr F (ctoks c ++ rest) = some (c, rest)) ∧
    (k = true → stopTok rest = true → pNot F (ctoks c ++ rest) = some (c, rest)) := by
  induction h with
  | @atom a k ha =>
    intro F rest hF
    rw [atomP_need ha] at hF
    constructor
    · intro _ hc
      obtain ⟨f, rfl⟩ : ∃ f, F = f + 7 := ⟨F - 7, by omega⟩
      have he : endTok rest = true := by
        unfold closeTok at hc; split at hc <;> first | rfl | cases hc
      exact pOr_atomP ha f rest he
    · intro _ hs
      obtain ⟨f, rfl⟩ : ∃ f, F = f + 5 := ⟨F - 5, by omega⟩
      exact pNot_atomP ha f rest hs
  | @leaf L hL =>
    intro F rest hF
    refine ⟨fun _ hc => ?_, fun hk => by cases hk⟩
    have hge := leafP_need hL
    obtain ⟨f, rfl⟩ : ∃ f, F = f + 3 := ⟨F - 3, by omega⟩
    rw [pOr, pAnd, pNot_leafP hL (f + 1) rest (by omega) (stop_of_close hc)]
    simp only []
    rw [pAndLoop_stop _ _ _ (close_notAnd hc)]
    simp only []
    rw [pOrLoop_stop _ _ _ (close_notOr hc)]
  | @rng a c hA hC =>
    intro F rest hF
    refine ⟨fun _ hc => ?_, fun hk => by cases hk⟩
    have hga := leafP_need hA
    simp only [need] at hF
    obtain ⟨f, rfl⟩ : ∃ f, F = f + 4 := ⟨F - 4, by omega⟩
    have e : ctoks (.and a c) ++ rest = ctoks a ++ (.kw .and :: (ctoks c ++ rest)) := by simp [ctoks]
    rw [e, pOr, pAnd, pNot_leafP hA (f + 2) _ (by omega) rfl]
    simp only []
    rw [pAndLoop, pNot_leafP hC (f + 1) rest (by omega) (stop_of_close hc)]
    simp only []
    rw [pAndLoop_stop _ _ _ (close_notAnd hc)]
    simp only []
    rw [pOrLoop_stop _ _ _ (close_notOr hc)]
  | @paren x hx ih =>
    intro F rest hF
    refine ⟨fun hk => (by cases hk), fun _ hs => ?_⟩
    simp only [need] at hF
    obtain ⟨f, rfl⟩ : ∃ f, F = f + 6 := ⟨F - 6, by omega⟩
    have e : ctoks (.paren x) ++ rest = .lparen :: (ctoks x ++ .rparen :: rest) := by simp [ctoks]
    rw [e]
    exact pNot_paren (fun F' rest' hF' hc' => (ih F' rest' hF').1 rfl hc') f rest (by omega) hs
  | @and l r hl hr ihl ihr =>
    intro F rest hF
    refine ⟨fun _ hc => ?_, fun hk => by cases hk⟩
    simp only [need] at hF
    have hr2 := need_ge r
    obtain ⟨f, rfl⟩ : ∃ f, F = f + 4 := ⟨F - 4, by omega⟩
    have e : ctoks (.and l r) ++ rest = ctoks l ++ (.kw .and :: (ctoks r ++ rest)) := by simp [ctoks]
    rw [e, pOr, pAnd, (ihl (f + 2) _ (by omega)).2 rfl rfl]
    simp only []
    rw [pAndLoop, (ihr (f + 1) rest (by omega)).2 rfl (stop_of_close hc)]
    simp only []
    rw [pAndLoop_stop _ _ _ (close_notAnd hc)]
    simp only []
    rw [pOrLoop_stop _ _ _ (close_notOr hc)]
  | @or l r hl hr ihl ihr =>
    intro F rest hF
    refine ⟨fun _ hc => ?_, fun hk => by cases hk⟩
    simp only [need] at hF
    have hr2 := need_ge r
    obtain ⟨f, rfl⟩ : ∃ f, F = f + 4 := ⟨F - 4, by omega⟩
    have e : ctoks (.or l r) ++ rest = ctoks l ++ (.kw .or :: (ctoks r ++ rest)) := by simp [ctoks]
    rw [e, pOr, pAnd, (ihl (f + 2) _ (by omega)).2 rfl rfl]
    simp only []
    rw [pAndLoop_stop _ _ _ (by intro r' e'; cases e')]
    simp only []
    rw [pOrLoop, pAnd, (ihr (f + 1) rest (by omega)).2 rfl (stop_of_close hc)]
    simp only []
    rw [pAndLoop_stop _ _ _ (close_notAnd hc)]
    simp only []
    rw [pOrLoop_stop _ _ _ (close_notOr hc)]
  | @not x hx ih =>
    intro F rest hF
    refine ⟨fun _ hc => ?_, fun hk => by cases hk⟩
    simp only [need] at hF
    obtain ⟨f, rfl⟩ : ∃ f, F = f + 9 := ⟨F - 9, by omega⟩
    have e : ctoks (.not (.paren x)) ++ rest = .kw .not :: .lparen :: (ctoks x ++ .rparen :: rest) := by
      simp [ctoks]
    rw [e, pOr, pAnd, pNot]
    simp only [startsNotLa, Bool.false_eq_true, ↓reduceIte]
    rw [pNot_paren (fun F' rest' hF' hc' => (ih F' rest' hF').1 rfl hc') f rest (by omega) (stop_of_close hc)]
    simp only []
    rw [pAndLoop_stop _ _ _ (close_notAnd hc)]
    simp only []
    rw [pOrLoop_stop _ _ _ (close_notOr hc)]

/-! ## enough fuel -/

theorem atomP_len {pm : Bool} {a : Cst} (h : AtomP pm a) : 1 ≤ (ctoks a).length := by
  cases h with
  | col f' _ _ _ => simp [ctoks]
  | str s _ => simp [ctoks]
  | num neg raw _ => cases neg <;> simp [ctoks]
  | param n _ => simp [ctoks]

theorem atomsP_len {pm : Bool} {items : CstList} (h : AtomsP pm items) : llen items ≤ (ltoks items).length := by
  induction h with
  | one ha => simpa [ltoks, llen] using atomP_len ha
  | cons ha ht ih =>
    have := atomP_len ha
    simp only [ltoks, llen, List.length_append, List.length_cons] at ih ⊢; omega

theorem leafP_fuel {pm : Bool} {L : Cst} (h : LeafP pm L) : need L ≤ 12 * (ctoks L).length := by
  cases h with
  | cmp op hl hr =>
    have := atomP_len hl; have := atomP_len hr
    simp only [ctoks, need, List.length_append, List.length_cons]; omega
  | similar hx hp =>
    have := atomP_len hx; have := atomP_len hp
    simp only [ctoks, need, List.length_append, List.length_cons]; omega
  | regex hx hp =>
    have := atomP_len hx; have := atomP_len hp
    simp only [ctoks, need, List.length_append, List.length_cons]; omega
  | between hx hlo hhi =>
    have := atomP_len hx
    simp only [ctoks, need, List.length_append, List.length_cons]; omega
  | inList hx hi =>
    have := atomP_len hx; have := atomsP_len hi
    simp only [ctoks, need, List.length_append, List.length_cons, List.length_nil]; omega

theorem rk_fuel {pm : Bool} {k : Bool} {c : Cst} (h : RK pm k c) : need c ≤ 12 * (ctoks c).length := by
  induction h with
  | atom k ha => have := atomP_len ha; rw [atomP_need ha]; omega
  | leaf hL => exact leafP_fuel hL
  | rng hA hC =>
    have := leafP_fuel hA; have := leafP_fuel hC
    simp only [ctoks, need, List.length_append, List.length_cons]; omega
  | paren hx ih => simp only [ctoks, need, List.length_append, List.length_cons, List.length_nil]; omega
  | and hl hr ihl ihr => simp only [ctoks, need, List.length_append, List.length_cons]; omega
  | or hl hr ihl ihr => simp only [ctoks, need, List.length_append, List.length_cons]; omega
  | not hx ih => simp only [ctoks, need, List.length_append, List.length_cons, List.length_nil]; omega

/-! ## placeholders: `?` tokens, numbered from left to right -/

/-- a `$n` token back to the `?` the renderer wrote -/
def qm : Sql.Tok → Sql.Tok
  | .param _ => .qmark
  | t => t

/-- the tokens of the rendered text: placeholders are `?` -/
def qtoks (c : Cst) : List Sql.Tok := (ctoks c).map qm
def qltoks (l : CstList) : List Sql.Tok := (ltoks l).map qm

mutual
/-- number of placeholders -/
def pcount : Cst → Nat
  | .col _ => 0
  | .str _ => 0
  | .num _ _ => 0
  | .param _ => 1
  | .paren x => pcount x
  | .cmp _ l r => pcount l + pcount r
  | .between x lo hi => pcount x + (pcount lo + pcount hi)
  | .inList x items => pcount x + pcountL items
  | .similar x p => pcount x + pcount p
  | .regex x p => pcount x + pcount p
  | .and l r => pcount l + pcount r
  | .or l r => pcount l + pcount r
  | .not x => pcount x
def pcountL : CstList → Nat
  | .nil => 0
  | .cons a t => pcount a + pcountL t
end

mutual
/-- number the placeholders from left to right, starting at `k` -/
def renum : Nat → Cst → Cst
  | _, .col f => .col f
  | _, .str s => .str s
  | _, .num n r => .num n r
  | k, .param _ => .param k
  | k, .paren x => .paren (renum k x)
  | k, .cmp op l r => .cmp op (renum k l) (renum (k + pcount l) r)
  | k, .between x lo hi => .between (renum k x) (renum (k + pcount x) lo) (renum (k + pcount x + pcount lo) hi)
  | k, .inList x items => .inList (renum k x) (renumL (k + pcount x) items)
  | k, .similar x p => .similar (renum k x) (renum (k + pcount x) p)
  | k, .regex x p => .regex (renum k x) (renum (k + pcount x) p)
  | k, .and l r => .and (renum k l) (renum (k + pcount l) r)
  | k, .or l r => .or (renum k l) (renum (k + pcount l) r)
  | k, .not x => .not (renum k x)
def renumL : Nat → CstList → CstList
  | _, .nil => .nil
  | k, .cons a t => .cons (renum k a) (renumL (k + pcount a) t)
end

theorem numberParams_cons_plain (k : Nat) (t : Sql.Tok) (ts : List Sql.Tok) (h : isQmark t = false) :
    numberParams k (t :: ts) = t :: numberParams k ts := by
  cases t <;> first | rfl | (simp [isQmark] at h)

theorem qtoks_app (c : Cst) (rest : List Sql.Tok) : qtoks c ++ rest = (ctoks c).map qm ++ rest := rfl

mutual
theorem number_qtoks : ∀ (c : Cst) (k : Nat) (rest : List Sql.Tok),
    numberParams k (qtoks c ++ rest) = ctoks (renum k c) ++ numberParams (k + pcount c) rest
  | .col f, k, rest => by simp [qtoks, ctoks, qm, renum, pcount, numberParams]
  | .str s, k, rest => by simp [qtoks, ctoks, qm, renum, pcount, numberParams]
  | .num neg raw, k, rest => by cases neg <;> simp [qtoks, ctoks, qm, renum, pcount, numberParams]
  | .param n, k, rest => by simp [qtoks, ctoks, qm, renum, pcount, numberParams]
  | .paren x, k, rest => by
    have ih := number_qtoks x k (.rparen :: rest)
    have e : qtoks (.paren x) ++ rest = .lparen :: (qtoks x ++ .rparen :: rest) := by simp [qtoks, ctoks, qm]
    rw [e, numberParams_cons_plain _ _ _ rfl, ih, numberParams_cons_plain _ _ _ rfl]
    simp [ctoks, renum, pcount]
  | .cmp op l r, k, rest => by
    have e : qtoks (.cmp op l r) ++ rest = qtoks l ++ (.cmp op :: (qtoks r ++ rest)) := by simp [qtoks, ctoks, qm]
    rw [e, number_qtoks l k, numberParams_cons_plain _ _ _ rfl, number_qtoks r (k + pcount l) rest]
    simp [ctoks, renum, pcount, Nat.add_assoc]
  | .between x lo hi, k, rest => by
    have e : qtoks (.between x lo hi) ++ rest =
        qtoks x ++ (.kw .between :: (qtoks lo ++ (.kw .and :: (qtoks hi ++ rest)))) := by simp [qtoks, ctoks, qm]
    rw [e, number_qtoks x k, numberParams_cons_plain _ _ _ rfl, number_qtoks lo (k + pcount x),
      numberParams_cons_plain _ _ _ rfl, number_qtoks hi (k + pcount x + pcount lo) rest]
    simp [ctoks, renum, pcount, Nat.add_assoc]
  | .inList x items, k, rest => by
    have e : qtoks (.inList x items) ++ rest =
        qtoks x ++ (.kw .in_ :: .lparen :: (qltoks items ++ .rparen :: rest)) := by
      simp [qtoks, qltoks, ctoks, qm]
    rw [e, number_qtoks x k, numberParams_cons_plain _ _ _ rfl, numberParams_cons_plain _ _ _ rfl,
      number_qltoks items (k + pcount x) (.rparen :: rest), numberParams_cons_plain _ _ _ rfl]
    simp [ctoks, renum, pcount, Nat.add_assoc]
  | .similar x p, k, rest => by
    have e : qtoks (.similar x p) ++ rest = qtoks x ++ (.kw .similar :: .kw .to :: (qtoks p ++ rest)) := by
      simp [qtoks, ctoks, qm]
    rw [e, number_qtoks x k, numberParams_cons_plain _ _ _ rfl, numberParams_cons_plain _ _ _ rfl,
      number_qtoks p (k + pcount x) rest]
    simp [ctoks, renum, pcount, Nat.add_assoc]
  | .regex x p, k, rest => by
    have e : qtoks (.regex x p) ++ rest = qtoks x ++ (.tilde :: (qtoks p ++ rest)) := by simp [qtoks, ctoks, qm]
    rw [e, number_qtoks x k, numberParams_cons_plain _ _ _ rfl, number_qtoks p (k + pcount x) rest]
    simp [ctoks, renum, pcount, Nat.add_assoc]
  | .and l r, k, rest => by
    have e : qtoks (.and l r) ++ rest = qtoks l ++ (.kw .and :: (qtoks r ++ rest)) := by simp [qtoks, ctoks, qm]
    rw [e, number_qtoks l k, numberParams_cons_plain _ _ _ rfl, number_qtoks r (k + pcount l) rest]
    simp [ctoks, renum, pcount, Nat.add_assoc]
  | .or l r, k, rest => by
    have e : qtoks (.or l r) ++ rest = qtoks l ++ (.kw .or :: (qtoks r ++ rest)) := by simp [qtoks, ctoks, qm]
    rw [e, number_qtoks l k, numberParams_cons_plain _ _ _ rfl, number_qtoks r (k + pcount l) rest]
    simp [ctoks, renum, pcount, Nat.add_assoc]
  | .not x, k, rest => by
    have e : qtoks (.not x) ++ rest = .kw .not :: (qtoks x ++ rest) := by simp [qtoks, ctoks, qm]
    rw [e, numberParams_cons_plain _ _ _ rfl, number_qtoks x k rest]
    simp [ctoks, renum, pcount]
theorem number_qltoks : ∀ (l : CstList) (k : Nat) (rest : List Sql.Tok),
    numberParams k (qltoks l ++ rest) = ltoks (renumL k l) ++ numberParams (k + pcountL l) rest
  | .nil, k, rest => by simp [qltoks, ltoks, renumL, pcountL]
  | .cons a .nil, k, rest => by
    have e : qltoks (.cons a .nil) ++ rest = qtoks a ++ rest := by simp [qltoks, qtoks, ltoks]
    rw [e, number_qtoks a k rest]
    simp [ltoks, renumL, pcountL]
  | .cons a (.cons c t), k, rest => by
    have e : qltoks (.cons a (.cons c t)) ++ rest = qtoks a ++ (.comma :: (qltoks (.cons c t) ++ rest)) := by
      simp [qltoks, qtoks, ltoks, qm]
    rw [e, number_qtoks a k, numberParams_cons_plain _ _ _ rfl, number_qltoks (.cons c t) (k + pcount a) rest]
    simp [ltoks, renumL, pcountL, Nat.add_assoc]
end

/-! ### renumbering keeps the shape -/

theorem atomP_renum {pm : Bool} {a : Cst} (h : AtomP pm a) (j : Nat) : AtomP pm (renum j a) := by
  cases h with
  | col f h1 h2 h3 => rw [renum]; exact .col f h1 h2 h3
  | str s h1 => rw [renum]; exact .str s h1
  | num neg raw h1 => rw [renum]; exact .num neg raw h1
  | param n hp => rw [renum]; exact .param j hp

theorem renumL_cons (j : Nat) (a : Cst) (t : CstList) :
    renumL j (.cons a t) = .cons (renum j a) (renumL (j + pcount a) t) := by rw [renumL]

theorem atomsP_renum {pm : Bool} {l : CstList} (h : AtomsP pm l) : ∀ j : Nat, AtomsP pm (renumL j l) := by
  induction h with
  | @one a ha => intro j; rw [renumL_cons, renumL]; exact .one (atomP_renum ha j)
  | @cons a c t ha _ ih =>
    intro j
    have h2 := ih (j + pcount a)
    rw [renumL_cons] at h2 ⊢
    rw [renumL_cons]
    exact .cons (atomP_renum ha j) h2

theorem leafP_renum {pm : Bool} {c : Cst} (h : LeafP pm c) (j : Nat) : LeafP pm (renum j c) := by
  cases h with
  | cmp op hl hr => rw [renum]; exact .cmp op (atomP_renum hl _) (atomP_renum hr _)
  | similar hx hp => rw [renum]; exact .similar (atomP_renum hx _) (atomP_renum hp _)
  | regex hx hp => rw [renum]; exact .regex (atomP_renum hx _) (atomP_renum hp _)
  | between hx hlo hhi => rw [renum]; exact .between (atomP_renum hx _) (atomP_renum hlo _) (atomP_renum hhi _)
  | inList hx hi => rw [renum]; exact .inList (atomP_renum hx _) (atomsP_renum hi _)

theorem rk_renum {pm : Bool} {k : Bool} {c : Cst} (h : RK pm k c) : ∀ j : Nat, RK pm k (renum j c) := by
  induction h with
  | @atom a k ha => intro j; exact .atom k (atomP_renum ha j)
  | @leaf L hL => intro j; exact .leaf (leafP_renum hL j)
  | @rng a c hA hC => intro j; rw [renum]; exact .rng (leafP_renum hA _) (leafP_renum hC _)
  | @paren x _ ih => intro j; rw [renum]; exact .paren (ih j)
  | @and l r _ _ ihl ihr => intro j; rw [renum]; exact .and (ihl _) (ihr _)
  | @or l r _ _ ihl ihr => intro j; rw [renum]; exact .or (ihl _) (ihr _)
  | @not x _ ih => intro j; rw [renum, renum]; exact .not (ih j)

/-- without placeholders there is nothing to number -/
theorem atomP_plain {a : Cst} (h : AtomP false a) (j : Nat) : renum j a = a ∧ pcount a = 0 := by
  cases h with
  | col f h1 h2 h3 => exact ⟨rfl, rfl⟩
  | str s h1 => exact ⟨rfl, rfl⟩
  | num neg raw h1 => exact ⟨rfl, rfl⟩
  | param n hp => cases hp

theorem atomsP_plain {l : CstList} (h : AtomsP false l) : ∀ j : Nat, renumL j l = l ∧ pcountL l = 0 := by
  induction h with
  | @one a ha =>
    intro j
    have := atomP_plain ha j
    rw [renumL_cons, this.1]
    simp only [renumL, pcountL, this.2, and_self]
  | @cons a c t ha _ ih =>
    intro j
    have h1 := atomP_plain ha j
    have h2 := ih (j + pcount a)
    rw [renumL_cons, h1.1, h2.1]
    have e : pcountL (.cons a (.cons c t)) = pcount a + pcountL (.cons c t) := by rw [pcountL]
    rw [e, h1.2, h2.2]
    exact ⟨rfl, rfl⟩

theorem leafP_plain {c : Cst} (h : LeafP false c) (j : Nat) : renum j c = c ∧ pcount c = 0 := by
  cases h with
  | cmp op hl hr =>
    have h1 := atomP_plain hl j; have h2 := atomP_plain hr j
    simp only [renum, pcount, h1.1, h1.2, h2.1, h2.2, Nat.add_zero, and_self]
  | similar hl hr =>
    have h1 := atomP_plain hl j; have h2 := atomP_plain hr j
    simp only [renum, pcount, h1.1, h1.2, h2.1, h2.2, Nat.add_zero, and_self]
  | regex hl hr =>
    have h1 := atomP_plain hl j; have h2 := atomP_plain hr j
    simp only [renum, pcount, h1.1, h1.2, h2.1, h2.2, Nat.add_zero, and_self]
  | between hx hlo hhi =>
    have h1 := atomP_plain hx j; have h2 := atomP_plain hlo j; have h3 := atomP_plain hhi j
    simp only [renum, pcount, h1.1, h1.2, h2.1, h2.2, h3.1, h3.2, Nat.add_zero, and_self]
  | inList hx hi =>
    have h1 := atomP_plain hx j; have h2 := atomsP_plain hi j
    simp only [renum, pcount, h1.1, h1.2, h2.1, h2.2, Nat.add_zero, and_self]

theorem rk_plain {k : Bool} {c : Cst} (h : RK false k c) : ∀ j : Nat, renum j c = c ∧ pcount c = 0 := by
  induction h with
  | @atom a k ha => intro j; exact atomP_plain ha j
  | @leaf L hL => intro j; exact leafP_plain hL j
  | @rng a c hA hC =>
    intro j
    have h1 := leafP_plain hA j; have h2 := leafP_plain hC j
    simp only [renum, pcount, h1.1, h1.2, h2.1, h2.2, Nat.add_zero, and_self]
  | @paren x _ ih => intro j; have := ih j; simp only [renum, pcount, this.1, this.2, and_self]
  | @and l r _ _ ihl ihr =>
    intro j
    have h1 := ihl j; have h2 := ihr j
    simp only [renum, pcount, h1.1, h1.2, h2.1, h2.2, Nat.add_zero, and_self]
  | @or l r _ _ ihl ihr =>
    intro j
    have h1 := ihl j; have h2 := ihr j
    simp only [renum, pcount, h1.1, h1.2, h2.1, h2.2, Nat.add_zero, and_self]
  | @not x _ ih => intro j; have := ih j; simp only [renum, pcount, this.1, this.2, and_self]

/-! ## `parseCst` on the tokens of the rendered text -/

theorem numberParams_length : ∀ (l : List Sql.Tok) (k : Nat), (numberParams k l).length = l.length
  | [], _ => rfl
  | t :: ts, k => by
    cases t <;> simp [numberParams, numberParams_length ts]

theorem qm_notParam (t : Sql.Tok) : isParam (qm t) = false := by cases t <;> rfl

theorem qtoks_noParam (c : Cst) : (qtoks c).any isParam = false := by
  rw [List.any_eq_false]
  intro t ht
  obtain ⟨u, _, rfl⟩ := List.mem_map.mp ht
  simp [qm_notParam]

/-- GRAMMAR: the `?`-token list of a rendered expression is read back as that expression with its placeholders
    numbered from left to right -/
theorem parseCst_RK {pm : Bool} {c : Cst} (h : RK pm false c) : parseCst (qtoks c) = some (renum 1 c) := by
  have hr := rk_renum h 1
  have hlen : (qtoks c).length = (ctoks (renum 1 c)).length := by
    have := congrArg List.length (number_qtoks c 1 [])
    simp only [List.append_nil, numberParams, numberParams_length] at this
    exact this
  have hn := number_qtoks c 1 []
  simp only [List.append_nil, numberParams] at hn
  have h1 := (p_RK hr (parseFuel (qtoks c).length) [] (by
    have := rk_fuel hr; rw [hlen]; unfold parseFuel; omega)).1 rfl rfl
  rw [List.append_nil] at h1
  unfold parseCst
  rw [qtoks_noParam, Bool.and_false, hn, h1]
  rfl

end GoLucene.SqlWide

#print axioms GoLucene.SqlWide.parseCst_RK
