import GoLucene.Proofs.Master
namespace GoLucene

theorem Closes.mono {n m : Nat} {la : TT} (h : Closes n la) (hm : m ≤ n) : Closes m la :=
  { h with prec := Nat.le_trans hm h.prec }

theorem noShift_of_closes {o la : TT} {n : Nat} (hc : Closes n la) (ho : o.num ≤ n)
    (hcl : anyClosingBracket o = false) (hop : isOpen o = false) : shouldShift o la = false := by
  have h1 := hc.nterm; have h2 := hc.nerr; have h3 := hc.nopen; have h4 := hc.nend; have h5 := hc.prec
  have h6 := hc.npre
  cases o <;> cases la <;> simp_all [shouldShift, TT.isTerm, TT.isTerminal, anyOpenBracket, isOpen,
    endingRange, anyClosingBracket, hasLessPrecedence, TT.num, TT.isPrefixOp] <;> omega

theorem noShift_closing {o la : TT} {n : Nat} (hc : Closes n la) (hcl : o = .rparen) : shouldShift o la = false := by
  have h1 := hc.nterm; have h2 := hc.nerr; have h3 := hc.nopen; have h4 := hc.nend
  subst hcl
  cases la <;> simp_all [shouldShift, TT.isTerm, TT.isTerminal, anyOpenBracket, isOpen,
    endingRange, anyClosingBracket, hasLessPrecedence, TT.num, TT.isPrefixOp]

theorem shift_of_admits {cur o : TT} (ha : admits cur o.num) (ho : o = .tand ∨ o = .tor ∨ o = .tnot) :
    shouldShift cur o = true := by
  rcases ho with rfl | rfl | rfl <;> rcases ha with h | h | ⟨h1, h2⟩ <;>
    cases cur <;> simp_all [shouldShift, TT.isTerm, TT.isTerminal, anyOpenBracket, isOpen,
      endingRange, anyClosingBracket, hasLessPrecedence, TT.num, TT.isPrefixOp]

def Stmt (isNum : Bool → Ex → Bool) (T : Tr) : Prop :=
  ∀ (c : Cfg) (rest : List Tok), topTokOrEmpty c → admits (curOf c) T.lvl → Closes T.lvl (nextOf rest) →
    runW isNum c (trPP T ++ rest) = runW isNum ⟨.ex (trSem T) :: c.stack, c.nts⟩ rest

theorem lvl_le (T : Tr) : T.lvl ≤ 14 := by cases T <;> simp [Tr.lvl]

/-- the (possibly parenthesised) operand lemma -/
theorem wrap_stmt (isNum : Bool → Ex → Bool) (T : Tr) (ih : Stmt isNum T) (n : Nat) (hn : n ≤ 14)
    (c : Cfg) (rest : List Tok) (hc : topTokOrEmpty c) (ha : admits (curOf c) n ∨ n < T.lvl)
    (hcl : Closes n (nextOf rest)) :
    runW isNum c (paren (decide (n < T.lvl)) (trPP T) ++ rest) = runW isNum ⟨.ex (trSem T) :: c.stack, c.nts⟩ rest := by
  by_cases hlt : n < T.lvl
  · -- parenthesised
    simp only [paren, hlt, decide_true, if_true, List.cons_append, List.append_assoc]
    rw [step_shift_op isNum c lp _ (by simp [lp]) (by simp [lp, TT.isTerminal])
      (by simp [lp, shouldShift, TT.isTerminal, anyOpenBracket])]
    rw [ih _ _ (Or.inr ⟨_, _, rfl⟩) (by simp [admits, curOf, lp, isOpen])
      ⟨by simp [nextOf, rp, TT.isTerm], by simp [nextOf, rp], by simp [nextOf, rp, isOpen],
       by simp [nextOf, rp, endingRange], by simp [nextOf, rp, TT.isPrefixOp],
       by simp [nextOf, rp, TT.num]; have := lvl_le T; omega⟩]
    simp only [List.singleton_append]
    rw [step_shift_op isNum _ rp _ (by simp [rp]) (by simp [rp, TT.isTerminal])
      (by simp [rp, lp, curOf, shouldShift, TT.isTerminal, anyOpenBracket])]
    rw [step_reduce isNum _ _ (by simp) (by simp [curOf, rp]; exact noShift_closing hcl rfl)]
    simp [lp, rp, reduce_sub]
  · simp only [paren, hlt, decide_false, Bool.false_eq_true, if_false]
    have hle : T.lvl ≤ n := Nat.le_of_not_lt hlt
    refine ih c rest hc ?_ (hcl.mono hle)
    rcases ha with ha | ha
    · rcases ha with h | h | ⟨h1, h2⟩
      · left; omega
      · right; left; exact h
      · right; right; exact ⟨h1, by omega⟩
    · omega

theorem master (isNum : Bool → Ex → Bool) (T : Tr) (hT : T.leavesOK) : Stmt isNum T := by
  induction T with
  | leaf t =>
    intro c rest hc _ _
    simpa [trPP, trSem] using step_leaf isNum c t rest hc hT
  | and l r ihl ihr =>
    intro c rest hc ha hcl
    obtain ⟨hl, hr⟩ := hT
    simp only [trPP, List.append_assoc, List.cons_append]
    rw [wrap_stmt isNum l (ihl hl) 13 (by omega) c _ hc (Or.inl ha)
      ⟨by simp [nextOf, TT.isTerm], by simp [nextOf], by simp [nextOf, isOpen], by simp [nextOf, endingRange],
       by simp [nextOf, TT.isPrefixOp], by simp [nextOf, TT.num]⟩]
    rw [step_shift_op isNum _ ⟨.tand, [65, 78, 68]⟩ _ (by simp) (by simp [TT.isTerminal])
      (by simpa [curOf] using shift_of_admits (cur := curOf c) (o := .tand) (by simpa [TT.num, Tr.lvl] using ha) (Or.inl rfl))]
    rw [wrap_stmt isNum r (ihr hr) 12 (by omega) _ rest (Or.inr ⟨_, _, rfl⟩)
      (Or.inl (by simp [admits, curOf, anyClosingBracket, TT.num])) (hcl.mono (by simp [Tr.lvl]))]
    rw [step_reduce isNum _ _ (by simp) (by
      simp [curOf]; exact noShift_of_closes hcl (by simp [TT.num, Tr.lvl]) (by simp [anyClosingBracket]) (by simp [isOpen]))]
    simp [reduce_and, trSem]
  | or l r ihl ihr =>
    intro c rest hc ha hcl
    obtain ⟨hl, hr⟩ := hT
    simp only [trPP, List.append_assoc, List.cons_append]
    rw [wrap_stmt isNum l (ihl hl) 14 (by omega) c _ hc (Or.inl ha)
      ⟨by simp [nextOf, TT.isTerm], by simp [nextOf], by simp [nextOf, isOpen], by simp [nextOf, endingRange],
       by simp [nextOf, TT.isPrefixOp], by simp [nextOf, TT.num]⟩]
    rw [step_shift_op isNum _ ⟨.tor, [79, 82]⟩ _ (by simp) (by simp [TT.isTerminal])
      (by simpa [curOf] using shift_of_admits (cur := curOf c) (o := .tor) (by simpa [TT.num, Tr.lvl] using ha) (Or.inr (Or.inl rfl)))]
    rw [wrap_stmt isNum r (ihr hr) 13 (by omega) _ rest (Or.inr ⟨_, _, rfl⟩)
      (Or.inl (by simp [admits, curOf, anyClosingBracket, TT.num])) (hcl.mono (by simp [Tr.lvl]))]
    rw [step_reduce isNum _ _ (by simp) (by
      simp [curOf]; exact noShift_of_closes hcl (by simp [TT.num, Tr.lvl]) (by simp [anyClosingBracket]) (by simp [isOpen]))]
    simp [reduce_or, trSem]
  | not e ih =>
    intro c rest hc ha hcl
    simp only [trPP, List.cons_append]
    rw [step_shift_op isNum _ ⟨.tnot, [78, 79, 84]⟩ _ (by simp) (by simp [TT.isTerminal])
      (by simpa [curOf] using shift_of_admits (cur := curOf c) (o := .tnot) (by simpa [TT.num, Tr.lvl] using ha) (Or.inr (Or.inr rfl)))]
    rw [wrap_stmt isNum e (ih hT) 11 (by omega) _ rest (Or.inr ⟨_, _, rfl⟩)
      (Or.inl (by simp [admits, curOf, anyClosingBracket, TT.num])) (hcl.mono (by simp [Tr.lvl]))]
    rw [step_reduce isNum _ _ (by simp) (by
      simp [curOf]; exact noShift_of_closes hcl (by simp [TT.num, Tr.lvl]) (by simp [anyClosingBracket]) (by simp [isOpen]))]
    simp [reduce_not, trSem]

/-- C05 (prototype sub-language): printing a tree with minimal parentheses and parsing it gives the tree back. -/
theorem roundtrip (isNum : Bool → Ex → Bool) (T : Tr) (hT : T.leavesOK) :
    parseToks isNum (trPP T) = .ok (trSem T) := by
  have h := master isNum T hT ⟨[], [.start]⟩ [] (Or.inl rfl)
    (by right; right; simp [curOf, anyClosingBracket, TT.num]; have := lvl_le T; omega)
    ⟨by simp [nextOf, TT.isTerm], by simp [nextOf], by simp [nextOf, isOpen], by simp [nextOf, endingRange],
     by simp [nextOf, TT.isPrefixOp], by simp [nextOf, TT.num]; have := lvl_le T; omega⟩
  simp only [List.append_nil] at h
  rw [parseToks, h, runW]
  simp [nextOf]

end GoLucene
