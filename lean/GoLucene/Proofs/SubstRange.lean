import GoLucene.Proofs.SubstLeaf
/-
  C04, substitution clause — RANGE nodes: `fnRang` / `rangeText` (inline) against `rangParam` (parameter mode).
-/
set_option linter.unusedSimpArgs false
set_option linter.unusedVariables false

namespace GoLucene.Subst
open GoLucene.NoPanic GoLucene.ParamAgree GoLucene.SqlMeaning

/-! ### texts of numbers -/

theorem isDig_eq (c : UInt8) : Num.isDig c = GoLucene.isDig c := rfl

theorem digitsVal_eq (ds : Bytes) (h : ∀ c ∈ ds, GoLucene.isDig c = true) (acc : Nat) :
    Num.digitsVal acc ds = some (ds.foldl (fun n c => 10 * n + (c.toNat - 48)) acc) := by
  induction ds generalizing acc with
  | nil => rfl
  | cons c t ih =>
    have hc : Num.isDig c = true := h c (by simp)
    rw [Num.digitsVal, if_pos hc, ih (fun x hx => h x (by simp [hx]))]
    simp only [List.foldl_cons]
    rw [Nat.mul_comm]

theorem atoiU_natDigits (n : Nat) : Num.atoiU (Num.natDigits n) = some n := by
  unfold Num.atoiU
  have hne := natDigits_ne_nil n
  cases hd : Num.natDigits n with
  | nil => exact absurd hd hne
  | cons c t =>
    simp only []
    rw [← hd, digitsVal_eq _ (natDigits_isDig n)]
    have := digVal_natDigits n
    unfold digVal at this
    rw [this]

theorem natDigits_head (n : Nat) : ∃ c t, Num.natDigits n = c :: t ∧ GoLucene.isDig c = true := by
  have hne := natDigits_ne_nil n
  cases hd : Num.natDigits n with
  | nil => exact absurd hd hne
  | cons c t => exact ⟨c, t, rfl, natDigits_isDig n c (by rw [hd]; simp)⟩

theorem isDig_ne (c : UInt8) (h : GoLucene.isDig c = true) : c ≠ 45 ∧ c ≠ 43 := by
  have := (isDig_iff c).mp h
  constructor <;> (intro e; subst e; simp at this)

/-- `strconv.Atoi` reads back what `%d` printed, for an int64 -/
theorem atoi_fmtInt (i : Int) (h : inInt64 i = true) : atoi (fmtInt i) = some i := by
  simp only [inInt64, Bool.and_eq_true, decide_eq_true_eq] at h
  unfold fmtInt
  split
  · rename_i hneg
    simp only [atoi, if_true, atoiU_natDigits]
    have : i.natAbs ≤ Num.two63 := by unfold Num.two63; omega
    simp only [this, if_true]
    congr 1
    omega
  · rename_i hpos
    obtain ⟨c, t, hd, hc⟩ := natDigits_head i.natAbs
    have hne := isDig_ne c hc
    rw [hd]
    simp only [atoi, hne.1, hne.2, if_false]
    rw [← hd, atoiU_natDigits]
    have : i.natAbs < Num.two63 := by unfold Num.two63; omega
    simp only [this, if_true]
    congr 1
    omega

theorem numCh_ne (c : UInt8) (h : numCh c = true) : c ≠ 32 ∧ c ≠ 39 := by
  constructor <;> (intro e; subst e; revert h; decide)

/-! ### texts of quoted strings -/

theorem isDig39 : Num.isDig 39 = false := by decide

theorem atoi_quote (t : Bytes) : atoi (39 :: t) = none := by
  simp [atoi, Num.atoiU, Num.digitsVal, isDig39]

theorem parseFloat_quote (t : Bytes) : parseFloat (39 :: t) = none := by
  have hs : Num.special (39 :: t) = none := by
    simp [Num.special, Num.lowerAZ]
  unfold parseFloat
  rw [hs]
  simp [Num.scanMant, isDig39]

theorem sqlQuote_head (s : Bytes) : ∃ t, sqlQuote s = 39 :: t := ⟨_, sqlQuote_esc s⟩

theorem sqlQuote_eq_starQ (s : Bytes) (h : sqlQuote s = starQ) : s = b "*" := by
  rw [sqlQuote_esc] at h
  have hq : starQ = 39 :: ([42] ++ [39]) := by decide
  rw [hq] at h
  have h' := List.append_cancel_right (List.cons.inj h).2
  cases s with
  | nil => simp [esc_nil] at h'
  | cons c t =>
    rw [esc_cons] at h'
    by_cases hc : c = 39
    · subst hc; simp at h'
    · simp [hc] at h'
      obtain ⟨rfl, ht⟩ := h'
      cases t with
      | nil => decide
      | cons d u =>
        rw [esc_cons] at ht
        by_cases hd : d = 39 <;> simp [hd] at ht

/-! ### `strings.Split(s, ",")` and `strings.Trim(s, " ")` on a boundary text -/

theorem commaFold_nocomma (s : Bytes) (h : ∀ c ∈ s, c ≠ 44) (cur : Bytes) (acc : List Bytes) :
    s.foldl commaStep (cur, acc) = (s.reverse ++ cur, acc) := by
  induction s generalizing cur with
  | nil => rfl
  | cons c t ih =>
    have hc : (c == 44) = false := by simpa using h c (by simp)
    rw [List.foldl_cons]
    have : commaStep (cur, acc) c = (c :: cur, acc) := by simp [commaStep, hc]
    rw [this, ih (fun x hx => h x (by simp [hx]))]
    simp

theorem splitComma_two (x y : Bytes) (hx : ∀ c ∈ x, c ≠ 44) (hy : ∀ c ∈ y, c ≠ 44) :
    splitComma (x ++ 44 :: y) = [x, y] := by
  show (match (x ++ 44 :: y).foldl commaStep ([], []) with | (cur, acc) => (cur.reverse :: acc).reverse) = _
  rw [List.foldl_append, commaFold_nocomma x hx, List.foldl_cons]
  have : commaStep (x.reverse ++ [], []) 44 = ([], [x]) := by simp [commaStep]
  rw [this, commaFold_nocomma y hy]
  simp

theorem nocomma_of_count (s : Bytes) (h : s.count 44 = 0) : ∀ c ∈ s, c ≠ 44 := by
  intro c hc e
  subst e
  exact (List.count_eq_zero.mp h) hc

/-- what `rangeParts` returns on the text of a boundary, when it returns something -/
theorem rangeParts_val (o c : UInt8) (smin smax : Bytes) (x : Bool × Bytes × Bytes)
    (h : rangeParts ([o] ++ smin ++ [44, 32] ++ smax ++ [c]) = .ok x) :
    x = (!(o == 40 && c == 41), trimSpaces smin, trimSpaces (32 :: smax)) := by
  have hstrip : (([o] ++ smin ++ [44, 32] ++ smax ++ [c]).drop 1).take (([o] ++ smin ++ [44, 32] ++ smax ++ [c]).length - 2)
      = smin ++ [44, 32] ++ smax := by
    have e : ([o] ++ smin ++ [44, 32] ++ smax ++ [c]).drop 1 = (smin ++ [44, 32] ++ smax) ++ [c] := by simp
    rw [e]
    have l : ([o] ++ smin ++ [44, 32] ++ smax ++ [c]).length - 2 = (smin ++ [44, 32] ++ smax).length := by
      simp
    rw [l, List.take_left' rfl]
  have hlast : ([o] ++ smin ++ [44, 32] ++ smax ++ [c]).getLast? = some c := by
    rw [List.getLast?_append]; rfl
  have hshape : ∃ z t, [o] ++ smin ++ [44, 32] ++ smax ++ [c] = o :: z :: t := by
    cases smin with
    | nil => exact ⟨44, 32 :: (smax ++ [c]), by simp⟩
    | cons a t => exact ⟨a, t ++ 44 :: 32 :: (smax ++ [c]), by simp⟩
  obtain ⟨z, t, hs⟩ := hshape
  unfold rangeParts at h
  rw [hs] at hstrip hlast h
  simp only [hstrip, hlast] at h
  split at h
  · rename_i p0 p1 hsp
    have hlen := splitComma_len (smin ++ [44, 32] ++ smax)
    rw [hsp] at hlen
    simp [List.count_append] at hlen
    have h1 := nocomma_of_count smin (by omega)
    have h2 := nocomma_of_count smax (by omega)
    have e : smin ++ [44, 32] ++ smax = smin ++ 44 :: (32 :: smax) := by simp
    rw [e, splitComma_two smin (32 :: smax) h1 (by
      intro c hc
      simp only [List.mem_cons] at hc
      rcases hc with rfl | hc
      · decide
      · exact h2 c hc)] at hsp
    simp only [List.cons.injEq, and_true] at hsp
    obtain ⟨rfl, rfl⟩ := hsp
    simp only [Out.ok.injEq] at h
    rw [← h]
    simp
  · cases h

theorem dropSpaces_of_head (t : Bytes) (h : t.head? ≠ some 32) : dropSpaces t = t := by
  cases t with
  | nil => rfl
  | cons c r =>
    have hc : c ≠ 32 := by simpa using h
    unfold dropSpaces
    split
    · rename_i heq
      exact absurd (List.cons.inj heq).1 hc
    · rfl

theorem trimSpaces_id (t : Bytes) (h1 : t.head? ≠ some 32) (h2 : t.getLast? ≠ some 32) : trimSpaces t = t := by
  unfold trimSpaces
  rw [dropSpaces_of_head t h1, dropSpaces_of_head t.reverse (by rwa [List.head?_reverse]), List.reverse_reverse]

theorem trimSpaces_sp (t : Bytes) : trimSpaces (32 :: t) = trimSpaces t := by
  unfold trimSpaces
  rw [dropSpaces]

/-- a text without spaces at its ends -/
def Stable (t : Bytes) : Prop := t.head? ≠ some 32 ∧ t.getLast? ≠ some 32

theorem Stable.trim {t : Bytes} (h : Stable t) : trimSpaces t = t := trimSpaces_id t h.1 h.2
theorem Stable.trim_sp {t : Bytes} (h : Stable t) : trimSpaces (32 :: t) = t := by
  rw [trimSpaces_sp]; exact h.trim

theorem stable_of_no32 (t : Bytes) (h : ∀ c ∈ t, c ≠ 32) : Stable t := by
  constructor
  · intro e
    exact h 32 (List.mem_of_mem_head? e) rfl
  · intro e
    exact h 32 (List.mem_of_getLast? e) rfl

theorem stable_allNum (t : Bytes) (h : AllNum t) : Stable t :=
  stable_of_no32 t (fun c hc => (numCh_ne c (h c hc)).1)

theorem stable_sqlQuote (s : Bytes) : Stable (sqlQuote s) := by
  rw [sqlQuote_esc]
  constructor
  · simp
  · rw [← List.cons_append, List.getLast?_append]
    simp

theorem stable_starQ : Stable starQ := by
  constructor <;> decide

/-- the inline texts of the values that can stand at a range end -/
theorem stable_litText (q : Prim) (hq : ∀ s, q ≠ .col s) : Stable (litText q) := by
  cases q
  case str s => exact stable_sqlQuote s
  case int i => exact stable_allNum _ (fmtInt_numCh i)
  case flt f => exact stable_allNum _ (fmtG_allNum f)
  case bool v => cases v <;> (constructor <;> decide)
  case col s => exact absurd rfl (hq s)
  all_goals (constructor <;> decide)

/-! ### the two range renderers on a boundary text -/

theorem bracket_shape (incl : Bool) (x y : Bytes) :
    bracket incl x y = [if incl then 91 else 40] ++ x ++ [44, 32] ++ y ++ [if incl then 93 else 41] := by
  unfold bracket
  cases incl <;> simp [b_lbr, b_rbr, b_lpar, b_rpar, b_comma]

/-- `rang` on the text of a boundary whose end texts carry no spaces at their ends -/
theorem fnRang_val (left ta tc : Bytes) (incl : Bool) (sI : Bytes) (ha : Stable ta) (hc : Stable tc)
    (h : fnRang left (bracket incl ta tc) = .ok sI) : sI = rangeText left incl ta tc := by
  unfold fnRang at h
  rw [bracket_shape] at h
  cases hrp : rangeParts ([if incl then 91 else 40] ++ ta ++ [44, 32] ++ tc ++ [if incl then 93 else 41]) with
  | err => rw [hrp] at h; cases h
  | panic => rw [hrp] at h; cases h
  | ok x =>
    have hx := rangeParts_val _ _ _ _ x hrp
    rw [hrp, hx, ha.trim, hc.trim_sp] at h
    simp only [Out.ok.injEq] at h
    rw [← h]
    cases incl <;> rfl

/-- the placeholder ends of parameter mode -/
def isEndText (t : Bytes) : Prop := t = b "?" ∨ t = starQ

theorem rangeParts_param (incl : Bool) (pa pc : Bytes) (ha : isEndText pa) (hc : isEndText pc) :
    rangeParts (bracket incl pa pc) = .ok (incl, pa, pc) := by
  rcases ha with rfl | rfl <;> rcases hc with rfl | rfl <;> cases incl <;> decide

theorem rangParam_val (left : Bytes) (incl : Bool) (pa pc : Bytes) (pr : List Prim)
    (ha : isEndText pa) (hc : isEndText pc) :
    rangParam left (bracket incl pa pc) pr =
      (if (pa == b "?" || pc == b "?") = true then
        (match pr with
         | [] => .panic
         | p :: _ =>
           (match p with
            | .int _ | .flt _ => .ok (rangeCmp left incl pa pc pa pc)
            | _ => .ok (left ++ b " BETWEEN " ++ pa ++ b " AND " ++ pc)))
       else .ok (rangeText left incl pa pc)) := by
  unfold rangParam
  rw [rangeParts_param incl pa pc ha hc]
  simp only []
  split
  · cases pr with
    | nil => rfl
    | cons p _ => cases p <;> rfl
  · rfl

/-! ### `rangeText` on the texts that occur -/

theorem rt_between (left : Bytes) (incl : Bool) (ta tc : Bytes) (h1 : toInts ta tc = none) (h2 : toFloats ta tc = none) :
    rangeText left incl ta tc = left ++ b " BETWEEN " ++ ta ++ b " AND " ++ tc := by
  unfold rangeText
  rw [h1, h2]

theorem rt_ints (left : Bytes) (incl : Bool) (ta tc : Bytes) (i j : Int) (h : toInts ta tc = some (i, j)) :
    rangeText left incl ta tc = rangeCmp left incl ta tc (fmtInt i) (fmtInt j) := by
  unfold rangeText
  rw [h]

theorem fmtInt_ne_starQ (i : Int) : (fmtInt i == starQ) = false := by
  apply beq_false_of_ne
  intro h
  have := fmtInt_numCh i 39 (by rw [h]; decide)
  revert this
  decide

theorem sqlQuote_ne_star (s : Bytes) : (sqlQuote s == b "*") = false := by
  apply beq_false_of_ne
  rw [sqlQuote_esc]
  intro h
  have : b "*" = [42] := by decide
  rw [this] at h
  cases (List.cons.inj h).1

theorem sqlQuote_ne_starQ (s : Bytes) (hs : s ≠ b "*") : (sqlQuote s == starQ) = false := by
  apply beq_false_of_ne
  intro h
  exact hs (sqlQuote_eq_starQ s h)

theorem atoi_sqlQuote (s : Bytes) : atoi (sqlQuote s) = none := by
  rw [sqlQuote_esc]; exact atoi_quote _

theorem parseFloat_sqlQuote (s : Bytes) : parseFloat (sqlQuote s) = none := by
  rw [sqlQuote_esc]; exact parseFloat_quote _

theorem starQ_cons : starQ = 39 :: [42, 39] := by decide

theorem toInts_quote_left (s tc : Bytes) (hs : s ≠ b "*") : toInts (sqlQuote s) tc = none := by
  unfold toInts
  simp only [sqlQuote_ne_starQ s hs, Bool.false_eq_true, if_false, atoi_sqlQuote]

theorem toFloats_quote_left (s tc : Bytes) (hs : s ≠ b "*") : toFloats (sqlQuote s) tc = none := by
  unfold toFloats
  simp only [sqlQuote_ne_starQ s hs, Bool.false_eq_true, if_false, parseFloat_sqlQuote]

theorem toInts_star_quote (s : Bytes) (hs : s ≠ b "*") : toInts starQ (sqlQuote s) = none := by
  unfold toInts
  simp only [beq_self_eq_true, if_true, sqlQuote_ne_starQ s hs, Bool.false_eq_true, if_false, atoi_sqlQuote]

/-- since fix F12 `toFloats` recognises the open end `'*'`; next to a quoted string it still fails (on the string) -/
theorem toFloats_star_quote (s : Bytes) (hs : s ≠ b "*") : toFloats starQ (sqlQuote s) = none := by
  unfold toFloats
  simp only [beq_self_eq_true, if_true, sqlQuote_ne_starQ s hs, Bool.false_eq_true, if_false, parseFloat_sqlQuote]

theorem atoi_starQ : atoi starQ = none := by rw [starQ_cons]; exact atoi_quote _

theorem toInts_star_star : toInts starQ starQ = some (0, 0) := by
  unfold toInts
  simp [atoi_starQ]

theorem toInts_star_int (j : Int) (hj : inInt64 j = true) : toInts starQ (fmtInt j) = some (0, j) := by
  unfold toInts
  simp [atoi_starQ, fmtInt_ne_starQ, atoi_fmtInt j hj]

theorem toInts_int_star (i : Int) (hi : inInt64 i = true) : toInts (fmtInt i) starQ = some (i, 0) := by
  unfold toInts
  simp [atoi_starQ, fmtInt_ne_starQ, atoi_fmtInt i hi]

theorem toInts_int_int (i j : Int) (hi : inInt64 i = true) (hj : inInt64 j = true) :
    toInts (fmtInt i) (fmtInt j) = some (i, j) := by
  unfold toInts
  simp [fmtInt_ne_starQ, atoi_fmtInt i hi, atoi_fmtInt j hj]

theorem q_ne_starQ : (b "?" == starQ) = false := by decide
theorem q_eq_q : (b "?" == b "?") = true := by decide

theorem clean_op (c : Bool) (x y : Bytes) (hx : cleanFrom false x = true) (hy : cleanFrom false y = true) :
    cleanFrom false (if c = true then x else y) = true := by
  cases c <;> simpa

theorem stable_fmtInt (i : Int) : Stable (fmtInt i) := stable_allNum _ (fmtInt_numCh i)

theorem fmtInt_zero : fmtInt 0 = [48] := by decide
theorem clean_zero : cleanFrom false (fmtInt 0) = true := by decide

/-! ### the forms of a Range node on which the two texts are instances of one template -/

/-- both ends unbounded: the same text `left <= 0` in both modes -/
theorem core_star_star {R : Prim → Bytes → Prop} (hR : ∀ p, R p (litText p)) (incl : Bool) (pl : List Prim) (xl yl : Bytes) (hleft : HasR R pl xl yl) (sP sI : Bytes)
    (hP : rangParam xl (bracket incl starQ starQ) [] = .ok sP)
    (hI : fnRang yl (bracket incl starQ starQ) = .ok sI) : HasR R pl sP sI := by
  rw [rangParam_val _ _ _ _ _ (.inr rfl) (.inr rfl)] at hP
  simp only [starQ_ne_q, Bool.or_self, Bool.false_eq_true, if_false, Out.ok.injEq] at hP
  have hI' := fnRang_val yl starQ starQ incl sI stable_starQ stable_starQ hI
  rw [rt_ints _ _ _ _ _ _ toInts_star_star] at hP hI'
  simp only [rangeCmp, beq_self_eq_true, if_true] at hP hI'
  subst hP; subst hI'
  exact (hleft.post _ (clean_op incl _ _ clean_b_le clean_b_lt)).post _ clean_zero

/-- open lower end, integer upper end -/
theorem core_star_int {R : Prim → Bytes → Prop} (hR : ∀ p, R p (litText p)) (incl : Bool) (j : Int) (hj : inInt64 j = true) (pl : List Prim) (xl yl : Bytes)
    (hleft : HasR R pl xl yl) (sP sI : Bytes)
    (hP : rangParam xl (bracket incl starQ (b "?")) [.int j] = .ok sP)
    (hI : fnRang yl (bracket incl starQ (fmtInt j)) = .ok sI) : HasR R (pl ++ [.int j]) sP sI := by
  rw [rangParam_val _ _ _ _ _ (.inr rfl) (.inl rfl)] at hP
  simp only [q_eq_q, Bool.or_true, if_true, Out.ok.injEq, rangeCmp, beq_self_eq_true] at hP
  have hI' := fnRang_val yl starQ (fmtInt j) incl sI stable_starQ (stable_fmtInt j) hI
  rw [rt_ints _ _ _ _ _ _ (toInts_star_int j hj)] at hI'
  simp only [rangeCmp, beq_self_eq_true, if_true] at hI'
  subst hP; subst hI'
  have hh : HasR R [.int j] (b "?") (fmtInt j) := by rw [bq]; exact HasR.hole (hR (.int j))
  simpa [List.append_assoc] using
    hleft.append ((HasR.text _ (clean_op incl _ _ clean_b_le clean_b_lt)).append hh)

/-- integer lower end, open upper end -/
theorem core_int_star {R : Prim → Bytes → Prop} (hR : ∀ p, R p (litText p)) (incl : Bool) (i : Int) (hi : inInt64 i = true) (pl : List Prim) (xl yl : Bytes)
    (hleft : HasR R pl xl yl) (sP sI : Bytes)
    (hP : rangParam xl (bracket incl (b "?") starQ) [.int i] = .ok sP)
    (hI : fnRang yl (bracket incl (fmtInt i) starQ) = .ok sI) : HasR R (pl ++ [.int i]) sP sI := by
  rw [rangParam_val _ _ _ _ _ (.inl rfl) (.inr rfl)] at hP
  simp only [q_eq_q, Bool.true_or, if_true, Out.ok.injEq, rangeCmp, beq_self_eq_true, q_ne_starQ,
    Bool.false_eq_true, if_false] at hP
  have hI' := fnRang_val yl (fmtInt i) starQ incl sI (stable_fmtInt i) stable_starQ hI
  rw [rt_ints _ _ _ _ _ _ (toInts_int_star i hi)] at hI'
  simp only [rangeCmp, beq_self_eq_true, if_true, fmtInt_ne_starQ, Bool.false_eq_true, if_false] at hI'
  subst hP; subst hI'
  have hh : HasR R [.int i] (b "?") (fmtInt i) := by rw [bq]; exact HasR.hole (hR (.int i))
  simpa [List.append_assoc] using
    hleft.append ((HasR.text _ (clean_op incl _ _ clean_b_ge clean_b_gt)).append hh)

/-- two integer ends: the field text is printed twice, so it must not hold a placeholder -/
theorem core_int_int {R : Prim → Bytes → Prop} (hR : ∀ p, R p (litText p)) (incl : Bool) (i j : Int) (hi : inInt64 i = true) (hj : inInt64 j = true) (xl yl : Bytes)
    (hleft : HasR R [] xl yl) (sP sI : Bytes)
    (hP : rangParam xl (bracket incl (b "?") (b "?")) [.int i, .int j] = .ok sP)
    (hI : fnRang yl (bracket incl (fmtInt i) (fmtInt j)) = .ok sI) : HasR R [.int i, .int j] sP sI := by
  rw [rangParam_val _ _ _ _ _ (.inl rfl) (.inl rfl)] at hP
  simp only [q_eq_q, Bool.true_or, if_true, Out.ok.injEq, rangeCmp, q_ne_starQ,
    Bool.false_eq_true, if_false] at hP
  have hI' := fnRang_val yl (fmtInt i) (fmtInt j) incl sI (stable_fmtInt i) (stable_fmtInt j) hI
  rw [rt_ints _ _ _ _ _ _ (toInts_int_int i j hi hj)] at hI'
  simp only [rangeCmp, fmtInt_ne_starQ, Bool.false_eq_true, if_false] at hI'
  have hi' : HasR R [.int i] (b "?") (fmtInt i) := by rw [bq]; exact HasR.hole (hR (.int i))
  have hj' : HasR R [.int j] (b "?") (fmtInt j) := by rw [bq]; exact HasR.hole (hR (.int j))
  cases incl
  · simp only [Bool.false_eq_true, if_false] at hP hI'
    subst hP; subst hI'
    simpa [List.append_assoc] using
      hleft.append ((HasR.text _ clean_b_gt).append (hi'.append ((HasR.text _ clean_b_and).append
        (hleft.append ((HasR.text _ clean_b_lt).append hj')))))
  · simp only [if_true] at hP hI'
    subst hP; subst hI'
    simpa [List.append_assoc] using
      hleft.append ((HasR.text _ clean_b_ge).append (hi'.append ((HasR.text _ clean_b_and).append
        (hleft.append ((HasR.text _ clean_b_le).append hj')))))

/-- the BETWEEN form: the first parameter of the boundary is neither an int nor a float, and the inline end texts
    are not both numbers -/
theorem core_between {R : Prim → Bytes → Prop} (hR : ∀ p, R p (litText p)) (incl : Bool) (pl : List Prim) (xl yl : Bytes) (hleft : HasR R pl xl yl)
    (pa pc ta tc : Bytes) (pra prc : List Prim) (p : Prim) (rest : List Prim)
    (hpr : pra ++ prc = p :: rest) (hp1 : ∀ i, p ≠ .int i) (hp2 : ∀ f, p ≠ .flt f)
    (hea : isEndText pa) (hec : isEndText pc) (hq : (pa == b "?" || pc == b "?") = true)
    (hTa : HasR R pra pa ta) (hTc : HasR R prc pc tc) (sta : Stable ta) (stc : Stable tc)
    (hi : toInts ta tc = none) (hf : toFloats ta tc = none) (sP sI : Bytes)
    (hP : rangParam xl (bracket incl pa pc) (pra ++ prc) = .ok sP)
    (hI : fnRang yl (bracket incl ta tc) = .ok sI) : HasR R (pl ++ (pra ++ prc)) sP sI := by
  rw [rangParam_val _ _ _ _ _ hea hec, hpr] at hP
  simp only [hq, if_true] at hP
  have hP' : sP = xl ++ b " BETWEEN " ++ pa ++ b " AND " ++ pc := by
    cases p
    case int i => exact absurd rfl (hp1 i)
    case flt f => exact absurd rfl (hp2 f)
    all_goals (simp only [Out.ok.injEq] at hP; exact hP.symm)
  have hI' := fnRang_val yl ta tc incl sI sta stc hI
  rw [rt_between _ _ _ _ hi hf] at hI'
  subst hP'; subst hI'
  simpa [List.append_assoc] using
    hleft.append ((HasR.text _ clean_b_between).append (hTa.append ((HasR.text _ clean_b_and).append hTc)))

/-! ### the exactness predicate on the ends of a boundary -/

/-- text and parameters of one end of a boundary in parameter mode: the unbounded end `*` is not a parameter -/
def endP (q : Prim) : Bytes × List Prim := if q = .str (b "*") then (starQ, []) else (b "?", [q])

theorem endP_star : endP (.str (b "*")) = (starQ, []) := by simp [endP]
theorem endP_ne (q : Prim) (h : q ≠ .str (b "*")) : endP q = (b "?", [q]) := by simp [endP, h]

theorem endP_inst {R : Prim → Bytes → Prop} (hR : ∀ p, R p (litText p)) (q : Prim) : HasR R (endP q).2 (endP q).1 (litText q) := by
  by_cases h : q = .str (b "*")
  · subst h; rw [endP_star, starQ_lit]; exact HasR.text _ clean_starQ
  · rw [endP_ne q h, bq]; exact HasR.hole (hR q)

theorem endP_isEndText (q : Prim) : isEndText (endP q).1 := by
  by_cases h : q = .str (b "*")
  · subst h; rw [endP_star]; exact .inr rfl
  · rw [endP_ne q h]; exact .inl rfl

/-- a string, an int, a float or a bool -/
def valueKind : Prim → Bool
  | .str _ | .int _ | .flt _ | .bool _ => true
  | _ => false

/-- The forms of a range boundary `[qa TO qc]` on which the two renderers print instances of one template
    (`hf`: the field text holds no placeholder):
    * `[* TO *]`, `[* TO int]`, `[int TO *]` — comparison form in both modes;
    * `[int TO int]` — `f >= a AND f <= b`; the field is printed twice, so it must be a column (`hf`);
    * `[* TO "str"]`, `["str" TO anything]` — BETWEEN in both modes (also when exclusive, also with an open end).
    Ints must be int64 values (the model's `Int` is unbounded; Go's `int` is not).
    Excluded: a float as the first bounded end (`rang` re-formats it with `%.2f`: see `endsRenum`, which since fix F12
    also covers the open float ranges), and an int as lower end with a non-int, non-`*` upper end. -/
def endsExact (hf : Bool) (qa qc : Prim) : Bool :=
  match qa with
  | .str sa =>
    if sa = b "*" then
      (match qc with
       | .str _ => true
       | .int j => inInt64 j
       | _ => false)
    else valueKind qc
  | .int i =>
    inInt64 i &&
      (match qc with
       | .str sc => sc == b "*"
       | .int j => inInt64 j && hf
       | _ => false)
  | _ => false

/-- the Range node on the level of texts -/
theorem range_core {R : Prim → Bytes → Prop} (hR : ∀ p, R p (litText p)) (hf : Bool) (qa qc : Prim) (hex : endsExact hf qa qc = true) (incl : Bool) (pl : List Prim)
    (xl yl : Bytes) (hleft : HasR R pl xl yl) (hpl : hf = true → pl = []) (sP sI : Bytes)
    (hP : rangParam xl (bracket incl (endP qa).1 (endP qc).1) ((endP qa).2 ++ (endP qc).2) = .ok sP)
    (hI : fnRang yl (bracket incl (litText qa) (litText qc)) = .ok sI) :
    HasR R (pl ++ ((endP qa).2 ++ (endP qc).2)) sP sI := by
  cases qa
  case str sa =>
    by_cases hsa : sa = b "*"
    · subst hsa
      simp only [endsExact, if_true] at hex
      rw [endP_star] at hP ⊢
      rw [starQ_lit] at hI
      cases qc
      case str sc =>
        by_cases hsc : sc = b "*"
        · subst hsc
          rw [endP_star] at hP ⊢
          rw [starQ_lit] at hI
          simpa using core_star_star hR incl pl xl yl hleft sP sI hP hI
        · have hne : Prim.str sc ≠ .str (b "*") := by intro h; cases h; exact hsc rfl
          rw [endP_ne _ hne] at hP ⊢
          have hh : HasR R [.str sc] (b "?") (sqlQuote sc) := by rw [bq]; exact HasR.hole (hR (.str sc))
          exact core_between hR incl pl xl yl hleft starQ (b "?") starQ (sqlQuote sc) [] [.str sc] (.str sc) [] rfl
            (by intro i h; cases h) (by intro f h; cases h) (.inr rfl) (.inl rfl) (by decide)
            (HasR.text _ clean_starQ) hh stable_starQ (stable_sqlQuote sc)
            (toInts_star_quote sc hsc) (toFloats_star_quote sc hsc) sP sI hP hI
      case int j =>
        have hne : Prim.int j ≠ .str (b "*") := by intro h; cases h
        rw [endP_ne _ hne] at hP ⊢
        exact core_star_int hR incl j hex pl xl yl hleft sP sI hP hI
      all_goals simp at hex
    · simp only [endsExact, hsa, if_false] at hex
      have hne : Prim.str sa ≠ .str (b "*") := by intro h; cases h; exact hsa rfl
      rw [endP_ne _ hne] at hP ⊢
      have hh : HasR R [.str sa] (b "?") (sqlQuote sa) := by rw [bq]; exact HasR.hole (hR (.str sa))
      have hqc : ∀ s, qc ≠ .col s := by intro s h; subst h; simp [valueKind] at hex
      exact core_between hR incl pl xl yl hleft (b "?") (endP qc).1 (sqlQuote sa) (litText qc) [.str sa] (endP qc).2
        (.str sa) (endP qc).2 rfl (by intro i h; cases h) (by intro f h; cases h) (.inl rfl) (endP_isEndText qc)
        (by simp [q_eq_q]) hh (endP_inst hR qc) (stable_sqlQuote sa) (stable_litText qc hqc)
        (toInts_quote_left sa _ hsa) (toFloats_quote_left sa _ hsa) sP sI hP hI
  case int i =>
    simp only [endsExact, Bool.and_eq_true] at hex
    obtain ⟨hi, hex⟩ := hex
    have hne : Prim.int i ≠ .str (b "*") := by intro h; cases h
    rw [endP_ne _ hne] at hP ⊢
    cases qc
    case str sc =>
      simp only [beq_iff_eq] at hex
      subst hex
      rw [endP_star] at hP ⊢
      rw [starQ_lit] at hI
      simpa using core_int_star hR incl i hi pl xl yl hleft sP sI hP hI
    case int j =>
      simp only [Bool.and_eq_true] at hex
      have hne' : Prim.int j ≠ .str (b "*") := by intro h; cases h
      rw [endP_ne _ hne'] at hP ⊢
      have := hpl hex.2
      subst this
      simpa using core_int_int hR incl i j hi hex.1 xl yl hleft sP sI hP hI
    all_goals simp at hex
  all_goals simp [endsExact] at hex

/-! ### numeric ends in general: equality up to the re-formatting of `rang` -/

/-- the text `rang` prints for a numeric end: the literal text, or the literal text read by `strconv.Atoi` and
    printed with `%d`, or read by `strconv.ParseFloat` and printed with `%.2f` -/
def Renum (p : Prim) (v : Bytes) : Prop :=
  v = litText p ∨ (∃ i, atoi (litText p) = some i ∧ v = fmtInt i) ∨
    (∃ g, parseFloat (litText p) = some g ∧ v = fmtFixed g 2)

theorem renum_lit (p : Prim) : Renum p (litText p) := .inl rfl

def isNum : Prim → Bool
  | .int _ | .flt _ => true
  | _ => false

theorem isNum_allNum (q : Prim) (h : isNum q = true) : AllNum (litText q) := by
  cases q <;> simp [isNum] at h
  · exact fmtInt_numCh _
  · exact fmtG_allNum _

theorem allNum_ne_starQ (t : Bytes) (h : AllNum t) : (t == starQ) = false := by
  apply beq_false_of_ne
  intro e
  have := h 39 (by rw [e]; decide)
  revert this
  decide

theorem allNum_ne_star (t : Bytes) (h : AllNum t) : (t == b "*") = false := by
  apply beq_false_of_ne
  intro e
  have := h 42 (by rw [e]; decide)
  revert this
  decide

theorem isNum_ne_star (q : Prim) (h : isNum q = true) : q ≠ .str (b "*") := by
  intro e; subst e; simp [isNum] at h

theorem toInts_inv (ta tc : Bytes) (i j : Int) (h : toInts ta tc = some (i, j)) :
    ((ta == starQ) = false → atoi ta = some i) ∧ ((tc == starQ) = false → atoi tc = some j) := by
  unfold toInts at h
  constructor
  · intro hs
    simp only [hs, Bool.false_eq_true, if_false] at h
    cases ha : atoi ta with
    | none => simp [ha] at h
    | some i' =>
      simp only [ha] at h
      split at h
      · cases h
      · simp at h; rw [h.1]
  · intro hs
    simp only [hs, Bool.false_eq_true, if_false] at h
    split at h
    · cases h
    · cases hc : atoi tc with
      | none => simp [hc] at h
      | some j' => simp [hc] at h; rw [h.2]

theorem toFloats_inv (ta tc : Bytes) (f g : F64) (h : toFloats ta tc = some (f, g)) :
    ((ta == starQ) = false → parseFloat ta = some f) ∧ ((tc == starQ) = false → parseFloat tc = some g) := by
  unfold toFloats at h
  constructor
  · intro hs
    simp only [hs, Bool.false_eq_true, if_false] at h
    cases ha : parseFloat ta with
    | none => simp [ha] at h
    | some f' =>
      simp only [ha] at h
      split at h
      · cases h
      · simp at h; rw [h.1]
  · intro hs
    simp only [hs, Bool.false_eq_true, if_false] at h
    split at h
    · cases h
    · cases hc : parseFloat tc with
      | none => simp [hc] at h
      | some g' => simp [hc] at h; rw [h.2]

theorem rt_floats (left : Bytes) (incl : Bool) (ta tc : Bytes) (f g : F64) (h1 : toInts ta tc = none)
    (h2 : toFloats ta tc = some (f, g)) :
    rangeText left incl ta tc = rangeCmp left incl ta tc (fmtFixed f 2) (fmtFixed g 2) := by
  unfold rangeText
  rw [h1, h2]

theorem rangParam_num (left : Bytes) (incl : Bool) (pa pc : Bytes) (p : Prim) (rest : List Prim)
    (ha : isEndText pa) (hc : isEndText pc) (hq : (pa == b "?" || pc == b "?") = true) (hp : isNum p = true) :
    rangParam left (bracket incl pa pc) (p :: rest) = .ok (rangeCmp left incl pa pc pa pc) := by
  rw [rangParam_val _ _ _ _ _ ha hc]
  simp only [hq, if_true]
  cases p <;> simp [isNum] at hp <;> rfl

/-- the comparison forms with numeric ends, the inline renderer printing `X`, `Y` for the bounded ends -/
theorem core_cmp {R : Prim → Bytes → Prop} (incl : Bool) (qa qc : Prim) (X Y : Bytes)
    (ha : qa = .str (b "*") ∨ isNum qa = true) (hc : qc = .str (b "*") ∨ isNum qc = true)
    (hnb : ¬ (qa = .str (b "*") ∧ qc = .str (b "*")))
    (pl : List Prim) (xl yl : Bytes) (hleft : HasR R pl xl yl)
    (hpl : isNum qa = true → isNum qc = true → pl = [])
    (hX : isNum qa = true → R qa X) (hY : isNum qc = true → R qc Y) (sP sI : Bytes)
    (hP : rangParam xl (bracket incl (endP qa).1 (endP qc).1) ((endP qa).2 ++ (endP qc).2) = .ok sP)
    (hI : sI = rangeCmp yl incl (litText qa) (litText qc) X Y) :
    HasR R (pl ++ ((endP qa).2 ++ (endP qc).2)) sP sI := by
  rcases ha with rfl | ha <;> rcases hc with rfl | hc
  · exact absurd ⟨rfl, rfl⟩ hnb
  · -- open lower end
    rw [endP_star, endP_ne _ (isNum_ne_star qc hc)] at hP ⊢
    rw [List.nil_append, rangParam_num _ _ _ _ _ _ (.inr rfl) (.inl rfl) (by decide) hc] at hP
    simp only [Out.ok.injEq, rangeCmp, beq_self_eq_true, if_true] at hP
    rw [starQ_lit] at hI
    simp only [rangeCmp, beq_self_eq_true, if_true] at hI
    subst hP; subst hI
    have hh : HasR R [qc] (b "?") Y := by rw [bq]; exact HasR.hole (hY hc)
    simpa [List.append_assoc] using
      hleft.append ((HasR.text _ (clean_op incl _ _ clean_b_le clean_b_lt)).append hh)
  · -- open upper end
    rw [endP_star, endP_ne _ (isNum_ne_star qa ha)] at hP ⊢
    rw [List.append_nil, rangParam_num _ _ _ _ _ _ (.inl rfl) (.inr rfl) (by decide) ha] at hP
    simp only [Out.ok.injEq, rangeCmp, beq_self_eq_true, if_true, q_ne_starQ, Bool.false_eq_true, if_false] at hP
    rw [starQ_lit] at hI
    simp only [rangeCmp, beq_self_eq_true, if_true, allNum_ne_starQ _ (isNum_allNum qa ha), Bool.false_eq_true,
      if_false] at hI
    subst hP; subst hI
    have hh : HasR R [qa] (b "?") X := by rw [bq]; exact HasR.hole (hX ha)
    simpa [List.append_assoc] using
      hleft.append ((HasR.text _ (clean_op incl _ _ clean_b_ge clean_b_gt)).append hh)
  · -- two bounded ends
    rw [endP_ne _ (isNum_ne_star qa ha), endP_ne _ (isNum_ne_star qc hc)] at hP ⊢
    have hnil := hpl ha hc
    subst hnil
    have hP' : rangParam xl (bracket incl (b "?") (b "?")) (qa :: [qc]) = .ok sP := hP
    rw [rangParam_num _ _ _ _ _ _ (.inl rfl) (.inl rfl) (by decide) ha] at hP'
    simp only [Out.ok.injEq, rangeCmp, q_ne_starQ, Bool.false_eq_true, if_false] at hP'
    simp only [rangeCmp, allNum_ne_starQ _ (isNum_allNum qa ha), allNum_ne_starQ _ (isNum_allNum qc hc),
      Bool.false_eq_true, if_false] at hI
    have hx : HasR R [qa] (b "?") X := by rw [bq]; exact HasR.hole (hX ha)
    have hy : HasR R [qc] (b "?") Y := by rw [bq]; exact HasR.hole (hY hc)
    cases incl
    · simp only [Bool.false_eq_true, if_false] at hP' hI
      subst hP'; subst hI
      simpa [List.append_assoc] using
        hleft.append ((HasR.text _ clean_b_gt).append (hx.append ((HasR.text _ clean_b_and).append
          (hleft.append ((HasR.text _ clean_b_lt).append hy)))))
    · simp only [if_true] at hP' hI
      subst hP'; subst hI
      simpa [List.append_assoc] using
        hleft.append ((HasR.text _ clean_b_ge).append (hx.append ((HasR.text _ clean_b_and).append
          (hleft.append ((HasR.text _ clean_b_le).append hy)))))

/-- The forms of a range boundary on which the two renderers print instances of one template UP TO the
    re-formatting of numeric ends (`Renum`): the exact forms, and the comparison forms with int / float ends for which
    `rang` does not fall through to BETWEEN (`toInts` or `toFloats` succeeds); a two-sided one needs a column field.
    Since fix F12 (`toFloats` compares the open end with `'*'`, as `toInts` does) this includes the OPEN FLOAT ranges
    `[* TO 2.5]`, `[2.5 TO *]`: inline `f <= 2.50`, parameter mode `f <= ?`.
    Still excluded: a numeric first bounded end where `rang` prints BETWEEN (`[1 TO "b"]`), and a two-sided
    comparison over a non-column field. -/
def endsRenum (hf : Bool) (qa qc : Prim) : Bool :=
  endsExact hf qa qc ||
    (decide (qa = .str (b "*")) && isNum qc &&
      ((toInts (litText qa) (litText qc)).isSome || (toFloats (litText qa) (litText qc)).isSome)) ||
    (isNum qa && decide (qc = .str (b "*")) &&
      ((toInts (litText qa) (litText qc)).isSome || (toFloats (litText qa) (litText qc)).isSome)) ||
    (isNum qa && isNum qc && hf &&
      ((toInts (litText qa) (litText qc)).isSome || (toFloats (litText qa) (litText qc)).isSome))

theorem stable_num (q : Prim) (h : isNum q = true) : Stable (litText q) := stable_allNum _ (isNum_allNum q h)

/-- the numeric comparison forms, from what `toInts` / `toFloats` return -/
theorem core_num (incl : Bool) (qa qc : Prim)
    (ha : qa = .str (b "*") ∨ isNum qa = true) (hc : qc = .str (b "*") ∨ isNum qc = true)
    (hnb : ¬ (qa = .str (b "*") ∧ qc = .str (b "*")))
    (hsome : (toInts (litText qa) (litText qc)).isSome = true ∨ (toFloats (litText qa) (litText qc)).isSome = true)
    (pl : List Prim) (xl yl : Bytes) (hleft : HasR Renum pl xl yl)
    (hpl : isNum qa = true → isNum qc = true → pl = []) (sP sI : Bytes)
    (hP : rangParam xl (bracket incl (endP qa).1 (endP qc).1) ((endP qa).2 ++ (endP qc).2) = .ok sP)
    (hI : fnRang yl (bracket incl (litText qa) (litText qc)) = .ok sI) :
    HasR Renum (pl ++ ((endP qa).2 ++ (endP qc).2)) sP sI := by
  have sta : Stable (litText qa) := by
    rcases ha with rfl | ha
    · rw [starQ_lit]; exact stable_starQ
    · exact stable_num qa ha
  have stc : Stable (litText qc) := by
    rcases hc with rfl | hc
    · rw [starQ_lit]; exact stable_starQ
    · exact stable_num qc hc
  have hI' := fnRang_val yl _ _ incl sI sta stc hI
  cases hti : toInts (litText qa) (litText qc) with
  | some ij =>
    obtain ⟨i, j⟩ := ij
    rw [rt_ints _ _ _ _ _ _ hti] at hI'
    obtain ⟨h1, h2⟩ := toInts_inv _ _ _ _ hti
    exact core_cmp incl qa qc (fmtInt i) (fmtInt j) ha hc hnb pl xl yl hleft hpl
      (fun hn => .inr (.inl ⟨i, h1 (allNum_ne_starQ _ (isNum_allNum qa hn)), rfl⟩))
      (fun hn => .inr (.inl ⟨j, h2 (allNum_ne_starQ _ (isNum_allNum qc hn)), rfl⟩)) sP sI hP hI'
  | none =>
    rw [hti] at hsome
    cases htf : toFloats (litText qa) (litText qc) with
    | none => rw [htf] at hsome; simp at hsome
    | some fg =>
      obtain ⟨f, g⟩ := fg
      rw [rt_floats _ _ _ _ _ _ hti htf] at hI'
      obtain ⟨h1, h2⟩ := toFloats_inv _ _ _ _ htf
      exact core_cmp incl qa qc (fmtFixed f 2) (fmtFixed g 2) ha hc hnb pl xl yl hleft hpl
        (fun hn => .inr (.inr ⟨f, h1 (allNum_ne_starQ _ (isNum_allNum qa hn)), rfl⟩))
        (fun hn => .inr (.inr ⟨g, h2 (allNum_ne_starQ _ (isNum_allNum qc hn)), rfl⟩)) sP sI hP hI'

theorem range_core_renum (hf : Bool) (qa qc : Prim) (hex : endsRenum hf qa qc = true) (incl : Bool) (pl : List Prim)
    (xl yl : Bytes) (hleft : HasR Renum pl xl yl) (hpl : hf = true → pl = []) (sP sI : Bytes)
    (hP : rangParam xl (bracket incl (endP qa).1 (endP qc).1) ((endP qa).2 ++ (endP qc).2) = .ok sP)
    (hI : fnRang yl (bracket incl (litText qa) (litText qc)) = .ok sI) :
    HasR Renum (pl ++ ((endP qa).2 ++ (endP qc).2)) sP sI := by
  simp only [endsRenum, Bool.or_eq_true, Bool.and_eq_true, decide_eq_true_eq] at hex
  rcases hex with ((hex | ⟨⟨rfl, hc⟩, hs⟩) | ⟨⟨ha, rfl⟩, hs⟩) | ⟨⟨⟨ha, hc⟩, hhf⟩, hs⟩
  · exact range_core renum_lit hf qa qc hex incl pl xl yl hleft hpl sP sI hP hI
  · exact core_num incl _ qc (.inl rfl) (.inr hc) (fun h => isNum_ne_star qc hc h.2) hs pl xl yl hleft
      (fun h _ => by simp [isNum] at h) sP sI hP hI
  · exact core_num incl qa _ (.inr ha) (.inl rfl) (fun h => isNum_ne_star qa ha h.1) hs pl xl yl hleft
      (fun _ h => by simp [isNum] at h) sP sI hP hI
  · exact core_num incl qa qc (.inr ha) (.inr hc) (fun h => isNum_ne_star qa ha h.1) hs pl xl yl hleft
      (fun _ _ => hpl hhf) sP sI hP hI

end GoLucene.Subst
