import GoLucene.Proofs.CodecShape
import GoLucene.Proofs.MarshalOk
import GoLucene.Proofs.NoPanic
import GoLucene.Proofs.QuotedVerbatim
/-
  C12 — the JSON round trip  Parse → MarshalJSON → UnmarshalJSON.

  Fragment: every tree of the strict parser shape `semShapeT` (Proofs/NoPanic.lean) that passes `validateExpr` —
  and/or/not/must/mustNot/boost/fuzzy/equals/like/comparisons over leaves, IN lists, ranges.

  Nothing of Model/Json.lean (the text layer of encoding/json) and nothing of Model/Num.lean (strconv) is unfolded.
  Every fact about those two layers that the proofs use is a field of one of the structures of hypotheses
    `JsonLaws`  (text layer; used by (1)),
    `NumLaws`   (Atoi / ParseFloat / Itoa / float formatting; used by (1), (2)),
    `NumLaws2`  (one fact on float64 <-> int64; only for the idempotence of `retype` on range bounds),
    `FmtLaws`   (two facts on the JSON text of integer-valued floats; only for "re-encodes to the identical bytes").
  They are hypotheses of the theorems, not axioms — and all four are PROVED from the definitions of Model/Json.lean and
  Model/Num.lean in Proofs/Laws.lean (`Laws.jsonLaws`, `Laws.numLaws`, `Laws.numLaws2`, `Laws.fmtLaws`), which also
  states the law-free corollaries (`Laws.roundtrip_decodes`, `Laws.roundtrip_full`, …).

  (1) `roundtrip_decodes`   marshalExpr e = .ok j → unmarshalTop j = .ok (retype e)
      (`roundtrip_total` adds the success of the encoder, C01).  `retype` is what the decoder infers; it also models
      the two recorded findings (-0 → int 0; range bounds through float64), so (1) needs neither exclusion.
      It needs `depthOK e`: the encoding nests at most `Json.maxNestingDepth` = 10000 arrays / objects (the limit of
      encoding/json's scanner).  `Enc` carries the nesting depth as an index and the laws about `valid` / `parse1` are
      stated within the limit; without it they are false of Model/Json.lean and (1) is false of the model
      (`Laws.valid_enc_unbounded_false`, `Laws.decode_needs_depth` in Proofs/Laws*.lean).
  (2) `roundtrip_stable`    retype (retype e) = retype e  (all trees);
                            marshalExpr (retype e) = marshalExpr e  (fragment + `fieldsCanon`, `noNegZeroLeaf`,
                            `noBigIntBound` — which covers int bounds AND integer-valued float bounds beyond 2^53;
                            each is necessary: `reencode_needs_*`);
                            kindStable e = true → retype e = e  (all trees).
  (3) `roundtrip_validates` validateExpr (retype e) = true  (all validated trees with `likeKindOK`; necessary:
                            `validate_needs_likeKind`);
      `roundtrip_prints`    strE ip false (retype e) = strE ip false e  (fragment + `printStable`);
      `print_not_preserved` the print clause of C12 is FALSE without `printStable`: `a:1000000.0` prints `a:1e+06`
                            before and `a:1000000` after the round trip (finding K-json-float-exp).
  `roundtrip_full` assembles everything.  NOT proved here: identity of the inline / parameterized SQL renderings.
-/
set_option linter.unusedSimpArgs false
set_option linter.unusedVariables false
set_option linter.unusedSectionVars false

namespace GoLucene
namespace JsonRoundTrip

open Json NoPanic

/-! ## 1. the texts the encoder produces -/

/-- the JSON names of the members the encoder writes -/
def keyNames : List String := ["left", "operator", "right", "distance", "power", "min", "max", "inclusive"]

/-- one object member `"key":value` -/
def member (kv : String × Bytes) : Bytes := jsonKey kv.1 ++ kv.2

/-- `{"k1":v1,"k2":v2,…}` -/
def objText (kvs : List (String × Bytes)) : Bytes := b "{" ++ joinC (kvs.map member) ++ b "}"

/-- `[v1,v2,…]` -/
def arrText (vs : List Bytes) : Bytes := b "[" ++ joinC vs ++ b "]"

def boolText (v : Bool) : Bytes := if v then b "true" else b "false"

/-- `t` is the text json.Marshal writes for a scalar: a string, an int, a finite float -/
inductive LeafEnc : Bytes → Prop
  | str (s : Bytes) : LeafEnc (encodeString s)
  | int (i : Int) : LeafEnc (fmtInt i)
  | flt (f : F64) (t : Bytes) : fmtJSON f = some t → LeafEnc t

/-- `Enc n t`: `t` is a text the encoder can produce — a scalar, `true`/`false`, an array of such texts, an object
    whose keys are among `keyNames` and whose values are such texts — whose arrays / objects are nested at most `n`
    deep.  No insignificant whitespace anywhere.
    The depth index matters: encoding/json's scanner (and `Json.valid`) rejects a document that opens more than
    `Json.maxNestingDepth` = 10000 nested arrays / objects, so the laws about `valid` / `parse1` below are stated for
    `n ≤ maxNestingDepth` only (without the bound they are FALSE of Model/Json.lean: `Laws.valid_enc_unbounded_false`). -/
inductive Enc : Nat → Bytes → Prop
  | leaf (n : Nat) (t : Bytes) : LeafEnc t → Enc n t
  | bool (n : Nat) (v : Bool) : Enc n (boolText v)
  | arr (n : Nat) (vs : List Bytes) : (∀ v, v ∈ vs → Enc n v) → Enc (n + 1) (arrText vs)
  | obj (n : Nat) (kvs : List (String × Bytes)) : kvs ≠ [] → (∀ kv, kv ∈ kvs → kv.1 ∈ keyNames) →
    (∀ kv, kv ∈ kvs → Enc n kv.2) → Enc (n + 1) (objText kvs)

/-- the depth index is an upper bound -/
theorem Enc.mono {n : Nat} {t : Bytes} (h : Enc n t) : ∀ {m : Nat}, n ≤ m → Enc m t := by
  induction h with
  | leaf n t hl => intro m _; exact .leaf m t hl
  | bool n v => intro m _; exact .bool m v
  | arr n vs _ ih =>
    intro m hm
    obtain ⟨m', rfl⟩ : ∃ m', m = m' + 1 := ⟨m - 1, by omega⟩
    exact .arr m' vs (fun v hv => ih v hv (by omega))
  | obj n kvs hne hk _ ih =>
    intro m hm
    obtain ⟨m', rfl⟩ : ∃ m', m = m' + 1 := ⟨m - 1, by omega⟩
    exact .obj m' kvs hne hk (fun kv hkv => ih kv hkv (by omega))

/-- first byte of a number text: `-` or a digit -/
def numHead : Bytes → Bool
  | c :: _ => c == 45 || (48 ≤ c && c ≤ 57)
  | [] => false

def isInt64 (i : Int) : Bool := decide (-9223372036854775808 ≤ i ∧ i < 9223372036854775808)




/-- `{"min":A,"max":C,"inclusive":B}` -/
def boundText (A C : Bytes) (incl : Bool) : Bytes :=
  objText [("min", A), ("max", C), ("inclusive", boolText incl)]

/-! ## 2. the two structures of hypotheses -/

/-- what the proofs use of encoding/json's text layer (Model/Json.lean), on texts of the shapes the encoder produces -/
structure JsonLaws : Prop where
  /-- json.Valid accepts everything json.Marshal writes, up to the scanner's nesting limit -/
  valid_enc : ∀ n t, n ≤ maxNestingDepth → Enc n t → valid t = true
  /-- marshalled texts carry no surrounding JSON whitespace, so the RawMessage of the document is the document -/
  trim_enc : ∀ n t, Enc n t → trim t = t
  /-- marshalled texts begin and end with a non-space ASCII byte (`"`, `{`, `}`, `[`, `]`, `-`, digit, `e`), so
      bytes.TrimSpace returns them unchanged -/
  trimSpace_enc : ∀ n t, Enc n t → trimSpace t = t
  /-- appendString opens with a double quote -/
  str_head : ∀ s, ∃ m, encodeString s = 34 :: m
  /-- unquote inverts appendString on valid UTF-8 (invalid bytes would come back as U+FFFD) -/
  parse_str : ∀ s, validUtf8 s = true → parse1 (encodeString s) = some (.str s)
  /-- an integer literal is a JSON number; the decoder sees its text unchanged -/
  parse_int : ∀ i, parse1 (fmtInt i) = some (.num (fmtInt i))
  /-- a marshalled float is a JSON number; the decoder sees its text unchanged -/
  parse_flt : ∀ f t, fmtJSON f = some t → parse1 t = some (.num t)
  /-- a marshalled array (within the nesting limit) splits into its element texts, exactly as written -/
  parse_arr : ∀ n vs, n < maxNestingDepth → (∀ v, v ∈ vs → Enc n v) → parse1 (arrText vs) = some (.arr vs)
  /-- a marshalled object splits into its members: keys decoded (they are plain ASCII names), values as written -/
  parse_obj : ∀ n kvs, n < maxNestingDepth → kvs ≠ [] → (∀ kv, kv ∈ kvs → kv.1 ∈ keyNames) →
    (∀ kv, kv ∈ kvs → Enc n kv.2) → parse1 (objText kvs) = some (.obj (kvs.map (fun kv => (b kv.1, kv.2))))
  /-- Unmarshal of a marshalled string into `any` succeeds: there is no number token outside the string -/
  any_str : ∀ nk s, anyDecodable nk (encodeString s) = true
  /-- Unmarshal of a number text into `any` succeeds iff ParseFloat accepts that text (it is the only number token) -/
  any_int : ∀ nk i, anyDecodable nk (fmtInt i) = nk (fmtInt i)
  any_flt : ∀ nk f t, fmtJSON f = some t → anyDecodable nk t = nk t
  /-- strings.Fields/Join keeps every non-space byte in order: a text that starts `{"left":` still contains `"left":` -/
  strip_left : ∀ rest, containsSub (b "\"left\":") (stripSpaces (b "{" ++ jsonKey "left" ++ rest)) = true
  /-- inside a marshalled string every `"` is preceded by `\`, and after the closing quote nothing follows; a number
      text has no quote at all: so a scalar text, with or without its spaces, never contains `"min":` -/
  strip_leaf : ∀ t, LeafEnc t → containsSub (b "\"min\":") (stripSpaces t) = false
  /-- an encoded boundary with scalar bounds contains its two keys, and — for the reason given at `strip_leaf` —
      `"left":` neither inside a bound nor across a member border -/
  strip_bound : ∀ A C incl, LeafEnc A → LeafEnc C →
    containsSub (b "\"min\":") (stripSpaces (boundText A C incl)) = true ∧
    containsSub (b "\"max\":") (stripSpaces (boundText A C incl)) = true ∧
    containsSub (b "\"left\":") (stripSpaces (boundText A C incl)) = false

/-- what the proofs use of strconv (Atoi, ParseFloat, Itoa, the float formatting of encoding/json) and of the float64
    conversions (Model/Num.lean) -/
structure NumLaws : Prop where
  /-- Atoi inverts Itoa on int64 -/
  atoi_fmtInt : ∀ i, isInt64 i = true → atoi (fmtInt i) = some i
  /-- Atoi and ParseFloat reject a text that starts with a double quote -/
  atoi_quote : ∀ t, atoi (34 :: t) = none
  parseFloat_quote : ∀ t, parseFloat (34 :: t) = none
  /-- ParseFloat inverts the shortest-round-trip formatting ('e'/'f', -1 digits) of every finite float64 -/
  parseFloat_fmtJSON : ∀ f t, fmtJSON f = some t → parseFloat t = some f
  /-- ParseFloat of a decimal integer is the correctly rounded float64(i) -/
  parseFloat_fmtInt : ∀ i, isInt64 i = true → parseFloat (fmtInt i) = some (F64.ofInt i)
  /-- Itoa and the float formatting start with `-` or a digit -/
  head_int : ∀ i, numHead (fmtInt i) = true
  head_flt : ∀ f t, fmtJSON f = some t → numHead t = true
  /-- 1.0 has a single representation -/
  eq_one : ∀ p, F64.eq p F64.one = true → p = F64.one

/-! ## 3. what the decoder infers: `retype` -/

/-- the integer the decoder reads a float leaf as: Atoi succeeds on its JSON text (`5.0` is written `5`) -/
def floatAsInt (f : F64) : Option Int := (fmtJSON f).bind atoi

/-- `unmarshalLiteral` of the text of a raw leaf value -/
def retypePrim : Prim → Expr
  | .str s => literalToExpr (.prim (.str s))
  | .col s => literalToExpr (.prim (.str s))
  | .int i => lit (.prim (.int i))
  | .flt f =>
    (match floatAsInt f with
     | some i => lit (.prim (.int i))
     | none => lit (.prim (.flt f)))
  | .bool v => lit (.prim (.bool v))
  | .opaque => lit (.prim .opaque)

/-- a range bound after the decoder: boundaries are decoded into `any` (numbers through float64, then
    `toIntIfNecessary`), then `literalToExpr` -/
def retypeBound : Expr → Expr
  | .mk (.prim (.str s)) _ _ _ _ => literalToExpr (.prim (.str s))
  | .mk (.prim (.int i)) _ _ _ _ => lit (.prim (toIntIfNecessary (F64.ofInt i)))
  | .mk (.prim (.flt f)) _ _ _ _ => lit (.prim (toIntIfNecessary f))
  | e => e

def retypeBoundNode : Node → Node
  | .expr e => .expr (retypeBound e)
  | n => n

mutual
def retypeNode : Node → Node
  | .nil => .nil
  | .prim q => .prim q
  | .expr e => .expr (retype e)
  | .list es => .list (retypeList es)
  | .bound mn mx incl => .bound (retypeBoundNode mn) (retypeBoundNode mx) incl
/-- the expression `UnmarshalJSON` builds from the encoding of `e`: a string leaf gets the operator `literalToExpr`
    gives its text, a float leaf whose text is an integer becomes an int leaf, a string-like left operand of a column
    operator is wrapped as a Column again, range bounds go through `any`; `boost` / `fuzzy` are kept only where the
    decoder reads them (Boost / Fuzzy nodes) and are the defaults elsewhere -/
def retype : Expr → Expr
  | .mk l o r p d =>
    if o = .literal || o = .wild || o = .regexp then
      (match l with
       | .prim q => retypePrim q
       | .nil => .mk .nil o r p d
       | .expr x => .mk (.expr x) o r p d
       | .list x => .mk (.list x) o r p d
       | .bound x y z => .mk (.bound x y z) o r p d)
    else
      .mk (if isStringlike (retypeNode l) && operatesOnColumn o then wrapInColumn (retypeNode l) else retypeNode l)
        o (retypeNode r) (if o = .boost then p else F64.one) (if o = .fuzzy then d else 1)
def retypeList : ExprList → ExprList
  | .nil => .nil
  | .cons e t => .cons (retype e) (retypeList t)
end

/-! ## 4. executable side conditions -/

def primStrValid : Prim → Bool
  | .str s => validUtf8 s
  | .col s => validUtf8 s
  | _ => true

def primIntOK : Prim → Bool
  | .int i => isInt64 i
  | _ => true

mutual
def allStringsValidNode : Node → Bool
  | .nil => true
  | .prim q => primStrValid q
  | .expr e => allStringsValid e
  | .list es => allStringsValidList es
  | .bound mn mx _ => allStringsValidNode mn && allStringsValidNode mx
/-- every string / Column in the tree is valid UTF-8 (true of what Parse returns for a valid-UTF-8 query) -/
def allStringsValid : Expr → Bool
  | .mk l _ r _ _ => allStringsValidNode l && allStringsValidNode r
def allStringsValidList : ExprList → Bool
  | .nil => true
  | .cons e t => allStringsValid e && allStringsValidList t
end

mutual
def intsInt64Node : Node → Bool
  | .nil => true
  | .prim q => primIntOK q
  | .expr e => intsInt64 e
  | .list es => intsInt64List es
  | .bound mn mx _ => intsInt64Node mn && intsInt64Node mx
/-- every int leaf and every fuzzy distance is an int64 (Go's `int`; the model's `Int` is unbounded) -/
def intsInt64 : Expr → Bool
  | .mk l _ r _ d => isInt64 d && intsInt64Node l && intsInt64Node r
def intsInt64List : ExprList → Bool
  | .nil => true
  | .cons e t => intsInt64 e && intsInt64List t
end

/-! ### nesting depth of the encoding -/

mutual
def depthNode : Node → Nat
  | .nil => 0
  | .prim _ => 0
  | .expr e => depthExpr e
  | .list es => depthList es + 1
  | .bound mn mx _ => max (depthNode mn) (depthNode mx) + 1
/-- how deep arrays / objects are nested in the text `marshalExpr e` writes: a leaf is a scalar, every operator node
    is one object, an `IN` list one array, a range boundary one object -/
def depthExpr : Expr → Nat
  | .mk l o r _ _ =>
    if o = .literal || o = .wild || o = .regexp then depthNode l else max (depthNode l) (depthNode r) + 1
def depthList : ExprList → Nat
  | .nil => 0
  | .cons e t => max (depthExpr e) (depthList t)
end

/-- the encoding of `e` stays within the nesting limit of encoding/json's scanner (10000).  Beyond it real Go fails
    already in `json.Marshal` ("exceeded max depth", raised when the encoder compacts the output of `MarshalJSON`),
    the model's `marshalExpr` succeeds and `unmarshalTop` rejects the text: `Laws.decode_needs_depth`. -/
def depthOK (e : Expr) : Bool := decide (depthExpr e ≤ maxNestingDepth)

theorem depthNode_expr (e : Expr) : depthNode (.expr e) = depthExpr e := by simp only [depthNode]
theorem depthNode_list (es : ExprList) : depthNode (.list es) = depthList es + 1 := by simp only [depthNode]
theorem depthNode_bound (x y : Node) (i : Bool) : depthNode (.bound x y i) = max (depthNode x) (depthNode y) + 1 := by
  simp only [depthNode]
theorem depthNode_nil : depthNode .nil = 0 := by simp only [depthNode]
theorem depthExpr_leafop (l : Node) (o : Op) (r : Node) (p : F64) (d : Int)
    (ho : (o = .literal || o = .wild || o = .regexp) = true) : depthExpr (.mk l o r p d) = depthNode l := by
  simp only [depthExpr, ho, if_true]
theorem depthExpr_node (l : Node) (o : Op) (r : Node) (p : F64) (d : Int)
    (ho : (o = .literal || o = .wild || o = .regexp) = false) :
    depthExpr (.mk l o r p d) = max (depthNode l) (depthNode r) + 1 := by
  simp only [depthExpr, ho, Bool.false_eq_true, if_false]

/-! ## 5. small facts about the fixed texts -/

theorem b_lbrace : b "{" = [123] := by decide
theorem b_rbrace : b "}" = [125] := by decide
theorem b_lbrack : b "[" = [91] := by decide
theorem b_rbrack : b "]" = [93] := by decide
theorem b_comma : b "," = [44] := by decide

/-- `,x1,x2,…` -/
def tailC : List Bytes → Bytes
  | [] => []
  | x :: xs => 44 :: x ++ tailC xs

theorem joinC_cons : ∀ (xs : List Bytes) (x : Bytes), joinC (x :: xs) = x ++ tailC xs
  | [], x => by simp [joinC, tailC]
  | y :: ys, x => by
    have ih := joinC_cons ys y
    simp only [joinC, tailC, ih]
    simp

theorem tailC_append : ∀ (xs ys : List Bytes), tailC (xs ++ ys) = tailC xs ++ tailC ys
  | [], ys => by simp [tailC]
  | x :: xs, ys => by simp [tailC, tailC_append xs ys]

theorem objText_cons (kv : String × Bytes) (kvs : List (String × Bytes)) :
    objText (kv :: kvs) = 123 :: (member kv ++ tailC (kvs.map member) ++ [125]) := by
  simp [objText, joinC_cons, b_lbrace, b_rbrace]

theorem arrText_eq (vs : List Bytes) : arrText vs = 91 :: (joinC vs ++ [93]) := by
  simp [arrText, b_lbrack, b_rbrack]

theorem getLast_snoc (a c : UInt8) (x : Bytes) : (a :: (x ++ [c])).getLast? = some c := by
  rw [← List.cons_append, List.getLast?_append]; simp

theorem getLast_snoc2 (a c : UInt8) (x y : Bytes) : (a :: (x ++ (y ++ [c]))).getLast? = some c := by
  rw [← List.append_assoc, getLast_snoc]

theorem leaf_enc {n : Nat} {t : Bytes} (h : LeafEnc t) : Enc n t := .leaf n t h

section
variable (J : JsonLaws) (N : NumLaws)
include J N

/-- a scalar text starts with `"`, `-` or a digit -/
theorem leaf_head {t : Bytes} (h : LeafEnc t) : ∃ a m, t = a :: m ∧ a ≠ 123 ∧ a ≠ 91 := by
  have num : ∀ t : Bytes, numHead t = true → ∃ a m, t = a :: m ∧ a ≠ 123 ∧ a ≠ 91 := by
    intro t ht
    cases t with
    | nil => simp [numHead] at ht
    | cons a m =>
      refine ⟨a, m, rfl, ?_, ?_⟩ <;> (intro ha; subst ha; simp [numHead] at ht)
  cases h with
  | str s =>
    obtain ⟨m, hm⟩ := J.str_head s
    exact ⟨34, m, hm, by decide, by decide⟩
  | int i => exact num _ (N.head_int i)
  | flt f t hf => exact num _ (N.head_flt f t hf)

theorem leaf_not_object {t : Bytes} (h : LeafEnc t) : isJSONObject t = false := by
  obtain ⟨a, m, rfl, h1, _⟩ := leaf_head J N h
  simp [isJSONObject, J.trimSpace_enc 0 _ (leaf_enc h), h1]

theorem leaf_not_array {t : Bytes} (h : LeafEnc t) : isArray t = false := by
  obtain ⟨a, m, rfl, _, h2⟩ := leaf_head J N h
  simp [isArray, J.trimSpace_enc 0 _ (leaf_enc h), h2]

theorem leaf_not_boundary {t : Bytes} (h : LeafEnc t) : looksLikeRangeBoundary t = false := by
  simp [looksLikeRangeBoundary, J.strip_leaf t h]

theorem obj_is_object {n : Nat} (kvs : List (String × Bytes)) (h : Enc n (objText kvs)) (hne : kvs ≠ []) :
    isJSONObject (objText kvs) = true := by
  cases kvs with
  | nil => exact absurd rfl hne
  | cons kv kvs =>
    simp only [isJSONObject, J.trimSpace_enc _ _ h]
    rw [objText_cons]
    simp [getLast_snoc2]

theorem obj_not_array {n : Nat} (kvs : List (String × Bytes)) (h : Enc n (objText kvs)) (hne : kvs ≠ []) :
    isArray (objText kvs) = false := by
  cases kvs with
  | nil => exact absurd rfl hne
  | cons kv kvs =>
    simp only [isArray, J.trimSpace_enc _ _ h]
    rw [objText_cons]
    simp

theorem arr_is_array {n : Nat} (vs : List Bytes) (h : Enc n (arrText vs)) : isArray (arrText vs) = true := by
  simp only [isArray, J.trimSpace_enc _ _ h]
  rw [arrText_eq]
  simp [getLast_snoc]

/-! ## 6. scalars -/

theorem lit_str (s : Bytes) (hv : validUtf8 s = true) :
    unmarshalLiteral (encodeString s) = .ok (literalToExpr (.prim (.str s))) := by
  obtain ⟨m, hm⟩ := J.str_head s
  have h1 : atoi (encodeString s) = none := by rw [hm]; exact N.atoi_quote m
  have h2 : parseFloat (encodeString s) = none := by rw [hm]; exact N.parseFloat_quote m
  simp only [unmarshalLiteral, h1, h2, J.parse_str s hv]

theorem lit_int (i : Int) (hi : isInt64 i = true) : unmarshalLiteral (fmtInt i) = .ok (lit (.prim (.int i))) := by
  simp only [unmarshalLiteral, N.atoi_fmtInt i hi]

theorem lit_flt (f : F64) (t : Bytes) (hf : fmtJSON f = some t) : unmarshalLiteral t = .ok (retypePrim (.flt f)) := by
  have hfi : floatAsInt f = atoi t := by simp [floatAsInt, hf]
  simp only [unmarshalLiteral, retypePrim, hfi]
  cases atoi t with
  | some i => rfl
  | none => simp only [N.parseFloat_fmtJSON f t hf]

/-- a raw value the parser puts under a leaf operator, with the side conditions on it -/
def primOK : Prim → Bool
  | .str s => validUtf8 s
  | .col s => validUtf8 s
  | .int i => isInt64 i
  | .flt _ => true
  | _ => false

theorem prim_roundtrip (q : Prim) (hq : primOK q = true) (j : Bytes) (h : marshalNode (.prim q) = .ok j) :
    LeafEnc j ∧ unmarshalLiteral j = .ok (retypePrim q) := by
  cases q with
  | str s =>
    simp only [marshalNode, Out.ok.injEq] at h; subst h
    exact ⟨.str s, lit_str J N s hq⟩
  | col s =>
    simp only [marshalNode, Out.ok.injEq] at h; subst h
    exact ⟨.str s, lit_str J N s hq⟩
  | int i =>
    simp only [marshalNode, Out.ok.injEq] at h; subst h
    exact ⟨.int i, lit_int J N i hq⟩
  | flt f =>
    simp only [marshalNode] at h
    cases hf : fmtJSON f with
    | none => simp [hf] at h
    | some t =>
      simp only [hf, Out.ok.injEq] at h; subst h
      exact ⟨.flt f t hf, lit_flt J N f t hf⟩
  | _ => simp [primOK] at hq

end

/-! ## 7. the shape of an encoded operator node -/

/-- the optional `"distance"` member -/
def optD (d : Int) : List (String × Bytes) := if d != 1 then [("distance", fmtInt d)] else []

theorem rightPartOf_form (r : Node) (rp : Bytes) (h : rightPartOf r = .ok rp) :
    ∃ optR : List (String × Bytes), rp = tailC (optR.map member) ∧
      ((r = .nil ∧ optR = []) ∨ (∃ rr, r ≠ .nil ∧ marshalNode r = .ok rr ∧ optR = [("right", rr)])) := by
  cases r with
  | nil =>
    simp only [rightPartOf, Out.ok.injEq] at h; subst h
    exact ⟨[], rfl, .inl ⟨rfl, rfl⟩⟩
  | prim q =>
    simp only [rightPartOf] at h
    cases hm : marshalNode (.prim q) with
    | ok rr =>
      simp only [hm, Out.ok.injEq] at h; subst h
      exact ⟨[("right", rr)], by simp [tailC, member, b_comma], .inr ⟨rr, by simp, rfl, rfl⟩⟩
    | err => simp [hm] at h
    | panic => simp [hm] at h
  | expr e =>
    simp only [rightPartOf] at h
    cases hm : marshalNode (.expr e) with
    | ok rr =>
      simp only [hm, Out.ok.injEq] at h; subst h
      exact ⟨[("right", rr)], by simp [tailC, member, b_comma], .inr ⟨rr, by simp, rfl, rfl⟩⟩
    | err => simp [hm] at h
    | panic => simp [hm] at h
  | list es =>
    simp only [rightPartOf] at h
    cases hm : marshalNode (.list es) with
    | ok rr =>
      simp only [hm, Out.ok.injEq] at h; subst h
      exact ⟨[("right", rr)], by simp [tailC, member, b_comma], .inr ⟨rr, by simp, rfl, rfl⟩⟩
    | err => simp [hm] at h
    | panic => simp [hm] at h
  | bound mn mx incl =>
    simp only [rightPartOf] at h
    cases hm : marshalNode (.bound mn mx incl) with
    | ok rr =>
      simp only [hm, Out.ok.injEq] at h; subst h
      exact ⟨[("right", rr)], by simp [tailC, member, b_comma], .inr ⟨rr, by simp, rfl, rfl⟩⟩
    | err => simp [hm] at h
    | panic => simp [hm] at h

theorem powerOf_form (p : F64) (pw : Bytes) (h : powerOf p = .ok pw) :
    ∃ optP : List (String × Bytes), pw = tailC (optP.map member) ∧
      ((F64.eq p F64.one = true ∧ optP = []) ∨
       (∃ t, F64.eq p F64.one = false ∧ fmtJSON p = some t ∧ optP = [("power", t)])) := by
  unfold powerOf at h
  split at h
  · rename_i he
    simp only [Out.ok.injEq] at h; subst h
    exact ⟨[], rfl, .inl ⟨he, rfl⟩⟩
  · rename_i he
    cases hf : fmtJSON p with
    | none => simp [hf] at h
    | some t =>
      simp only [hf, Out.ok.injEq] at h; subst h
      exact ⟨[("power", t)], by simp [tailC, member, b_comma], .inr ⟨t, by simpa using he, rfl, rfl⟩⟩

theorem optD_text (d : Int) :
    (if d != 1 then b "," ++ jsonKey "distance" ++ fmtInt d else []) = tailC ((optD d).map member) := by
  unfold optD
  split <;> simp [tailC, member, b_comma]

/-- an operator node is written `{"left":L,"operator":"OP"(,"right":R)(,"distance":D)(,"power":P)}` -/
theorem node_form (l : Node) (o : Op) (r : Node) (p : F64) (d : Int) (j : Bytes)
    (ho : (o = .literal || o = .wild || o = .regexp) = false) (h : marshalExpr (.mk l o r p d) = .ok j) :
    ∃ L optR optP, marshalNode l = .ok L ∧
      j = objText (("left", L) :: ("operator", encodeString o.toStr) :: (optR ++ optD d ++ optP)) ∧
      ((r = .nil ∧ optR = []) ∨ (∃ rr, r ≠ .nil ∧ marshalNode r = .ok rr ∧ optR = [("right", rr)])) ∧
      ((F64.eq p F64.one = true ∧ optP = []) ∨
       (∃ t, F64.eq p F64.one = false ∧ fmtJSON p = some t ∧ optP = [("power", t)])) := by
  rw [marshalExpr_eq, if_neg (by simp [ho])] at h
  cases hl : marshalNode l with
  | err => simp [hl] at h
  | panic => simp [hl] at h
  | ok L =>
    cases hr : rightPartOf r with
    | err => simp [hl, hr] at h
    | panic => simp [hl, hr] at h
    | ok rp =>
      cases hp : powerOf p with
      | err => simp [hl, hr, hp] at h
      | panic => simp [hl, hr, hp] at h
      | ok pw =>
        simp only [hl, hr, hp, Out.ok.injEq] at h
        obtain ⟨optR, hrp, hR⟩ := rightPartOf_form r rp hr
        obtain ⟨optP, hpw, hP⟩ := powerOf_form p pw hp
        refine ⟨L, optR, optP, rfl, ?_, hR, hP⟩
        rw [← h, optD_text, hrp, hpw, objText_cons]
        simp [tailC, tailC_append, member, b_lbrace, b_rbrace, b_comma]

/-! ## 8. decoding the members of an encoded node -/

/-- the step function of `decodeFields` -/
def fieldStep (c : JFields) (kv : Bytes × Bytes) : JFields :=
    match fieldOf ["left", "operator", "right", "boundaries", "distance", "power"] kv.1 with
    | some "left" => { c with left := kv.2 }
    | some "right" => { c with right := kv.2 }
    | some "operator" =>
      (match parse1 kv.2 with
       | some (.str s) => { c with operator := s }
       | some .null => c
       | _ => { c with bad := true })
    | some "boundaries" =>
      (match parse1 kv.2 with
       | some .null => c
       | some (.obj _) => if (decodeBoundary kv.2).isSome then c else { c with bad := true }
       | _ => { c with bad := true })
    | some "distance" =>
      (match parse1 kv.2 with
       | some .null => { c with distance := none }
       | some (.num r) =>
         (match atoi r with
          | some i => { c with distance := some i }
          | none => { c with bad := true })
       | _ => { c with bad := true })
    | some "power" =>
      (match parse1 kv.2 with
       | some .null => { c with power := none }
       | some (.num r) =>
         (match parseFloat r with
          | some f => { c with power := some f }
          | none => { c with bad := true })
       | _ => { c with bad := true })
    | _ => c

theorem decodeFields_eq (ms : List (Bytes × Bytes)) : decodeFields ms = ms.foldl fieldStep {} := rfl

theorem step_left (c : JFields) (v : Bytes) : fieldStep c (b "left", v) = { c with left := v } := rfl
theorem step_right (c : JFields) (v : Bytes) : fieldStep c (b "right", v) = { c with right := v } := rfl
theorem step_operator (c : JFields) (v s : Bytes) (h : parse1 v = some (.str s)) :
    fieldStep c (b "operator", v) = { c with operator := s } := by
  have : fieldOf ["left", "operator", "right", "boundaries", "distance", "power"] (b "operator") = some "operator" := by
    decide
  simp only [fieldStep, this, h]

theorem step_distance (c : JFields) (v : Bytes) (i : Int) (h1 : parse1 v = some (.num v)) (h2 : atoi v = some i) :
    fieldStep c (b "distance", v) = { c with distance := some i } := by
  have : fieldOf ["left", "operator", "right", "boundaries", "distance", "power"] (b "distance") = some "distance" := by
    decide
  simp only [fieldStep, this, h1, h2]

theorem step_power (c : JFields) (v : Bytes) (f : F64) (h1 : parse1 v = some (.num v)) (h2 : parseFloat v = some f) :
    fieldStep c (b "power", v) = { c with power := some f } := by
  have : fieldOf ["left", "operator", "right", "boundaries", "distance", "power"] (b "power") = some "power" := by
    decide
  simp only [fieldStep, this, h1, h2]

section
variable (J : JsonLaws) (N : NumLaws)
include J N

/-- the decoded fields of an encoded operator node -/
theorem decode_node_fields (L O os R : Bytes) (optR optP : List (String × Bytes)) (d : Int) (p : F64) (pw : Option F64)
    (hO : parse1 O = some (.str os)) (hd : isInt64 d = true)
    (hR : (optR = [] ∧ R = []) ∨ optR = [("right", R)])
    (hP : (optP = [] ∧ pw = none) ∨ (∃ t, optP = [("power", t)] ∧ fmtJSON p = some t ∧ pw = some p)) :
    decodeFields ((("left", L) :: ("operator", O) :: (optR ++ optD d ++ optP)).map (fun kv => (b kv.1, kv.2))) =
      { left := L, operator := os, right := R, distance := if d != 1 then some d else none, power := pw,
        bad := false } := by
  have hdist : ∀ c : JFields, fieldStep c (b "distance", fmtInt d) = { c with distance := some d } :=
    fun c => step_distance c _ d (J.parse_int d) (N.atoi_fmtInt d hd)
  rw [decodeFields_eq]
  rcases hP with ⟨rfl, rfl⟩ | ⟨t, rfl, hf, rfl⟩
  · rcases hR with ⟨rfl, rfl⟩ | rfl <;> by_cases hd1 : d = 1 <;>
      simp [optD, hd1, List.foldl, step_left, step_right, step_operator _ _ _ hO, hdist]
  · rcases hR with ⟨rfl, rfl⟩ | rfl <;> by_cases hd1 : d = 1 <;>
      simp [optD, hd1, List.foldl, step_left, step_right, step_operator _ _ _ hO, hdist,
        step_power _ t p (J.parse_flt p t hf) (N.parseFloat_fmtJSON p t hf)]

end

/-! ## 9. the operands as functions of their texts -/

/-- `leftOf` depends on the decoded fields only through the text of `"left"` -/
def leftOfText (fuel : Nat) (L : Bytes) : Out Node :=
  if isArray L then
    (match parse1 L with
     | some (.arr elems) =>
       (match unmarshalLiterals elems with
        | .ok es => .ok (.list es)
        | .err => .err
        | .panic => .panic)
     | _ => .err)
  else if L.isEmpty then .err
  else
    (match unmarshalVal fuel L with
     | .ok e => .ok (.expr e)
     | .err => .err
     | .panic => .panic)

def rightOfText (fuel : Nat) (R : Bytes) : Out Node :=
  if !R.isEmpty && looksLikeRangeBoundary R then
    (match decodeBoundary R with
     | some (mn, mx, incl) => .ok (.bound (.expr (literalToExpr mn)) (.expr (literalToExpr mx)) incl)
     | none => .err)
  else if !R.isEmpty then
    (match unmarshalVal fuel R with
     | .ok e => .ok (.expr e)
     | .err => .err
     | .panic => .panic)
  else .ok .nil

theorem leftOf_text (fuel : Nat) (c : JFields) : leftOf fuel c = leftOfText fuel c.left := rfl
theorem rightOf_text (fuel : Nat) (c : JFields) : rightOf fuel c = rightOfText fuel c.right := rfl

/-- what the induction carries for an encoded expression -/
def Good (e : Expr) (j : Bytes) : Prop :=
  Enc (depthExpr e) j ∧ isArray j = false ∧ j ≠ [] ∧ looksLikeRangeBoundary j = false ∧
  (depthExpr e ≤ maxNestingDepth → ∀ fuel, j.length < fuel → unmarshalVal fuel j = .ok (retype e))

/-- what a node needs of its left operand -/
def LeftGood (l : Node) (L : Bytes) : Prop :=
  Enc (depthNode l) L ∧
  (depthNode l ≤ maxNestingDepth → ∀ fuel, L.length < fuel → leftOfText fuel L = .ok (retypeNode l))

/-- what a node needs of its (present) right operand -/
def RightGood (r : Node) (R : Bytes) : Prop :=
  Enc (depthNode r) R ∧
  (depthNode r ≤ maxNestingDepth → ∀ fuel, R.length < fuel → rightOfText fuel R = .ok (retypeNode r))

theorem rightOfText_nil (fuel : Nat) : rightOfText fuel [] = .ok .nil := by simp [rightOfText]

theorem good_left (a : Expr) (L : Bytes) (h : Good a L) : LeftGood (.expr a) L := by
  obtain ⟨h1, h2, h3, _, h5⟩ := h
  refine ⟨by rw [depthNode_expr]; exact h1, fun hdep fuel hf => ?_⟩
  rw [depthNode_expr] at hdep
  have : L.isEmpty = false := by cases L <;> simp_all
  simp only [leftOfText, h2, this, h5 hdep fuel hf, retypeNode]
  simp

theorem good_right (a : Expr) (R : Bytes) (h : Good a R) : RightGood (.expr a) R := by
  obtain ⟨h1, _, h3, h4, h5⟩ := h
  refine ⟨by rw [depthNode_expr]; exact h1, fun hdep fuel hf => ?_⟩
  rw [depthNode_expr] at hdep
  have : R.isEmpty = false := by cases R <;> simp_all
  simp only [rightOfText, h4, this, h5 hdep fuel hf, retypeNode]
  simp

theorem Op.ofStr_toStr (o : Op) (h : o ≠ .undefined) : Op.ofStr o.toStr = o := by
  cases o <;> first | rfl | exact absurd rfl h

theorem Op.toStr_valid (o : Op) : validUtf8 o.toStr = true := by
  apply QuotedVerbatim.validUtf8_ascii
  cases o <;> decide

section
variable (J : JsonLaws) (N : NumLaws)
include J N

/-- a leaf: the text of its raw value -/
theorem leaf_good (q : Prim) (o : Op) (r : Node) (p : F64) (d : Int) (j : Bytes)
    (ho : (o = .literal || o = .wild || o = .regexp) = true) (hq : primOK q = true)
    (h : marshalExpr (.mk (.prim q) o r p d) = .ok j) : Good (.mk (.prim q) o r p d) j := by
  rw [marshalExpr_eq, if_pos ho] at h
  obtain ⟨hle, hdec⟩ := prim_roundtrip J N q hq j h
  obtain ⟨a, m, hj, _, _⟩ := leaf_head J N hle
  refine ⟨leaf_enc hle, leaf_not_array J N hle, by simp [hj], leaf_not_boundary J N hle, fun _ fuel hf => ?_⟩
  cases fuel with
  | zero => omega
  | succ f =>
    rw [unmarshalVal_succ, leaf_not_object J N hle]
    simp only [Bool.not_false, if_true, hdec, retype, ho]

/-- an operator node whose operands decode -/
theorem node_good (l : Node) (o : Op) (r : Node) (p : F64) (d : Int) (j : Bytes)
    (ho : (o = .literal || o = .wild || o = .regexp) = false) (hou : o ≠ .undefined) (hd : isInt64 d = true)
    (h : marshalExpr (.mk l o r p d) = .ok j)
    (hl : ∀ L, marshalNode l = .ok L → LeftGood l L)
    (hr : r ≠ .nil → ∀ R, marshalNode r = .ok R → RightGood r R) :
    Good (.mk l o r p d) j := by
  obtain ⟨L, optR, optP, hL, hj, hR, hP⟩ := node_form l o r p d j ho h
  obtain ⟨encL0, decL⟩ := hl L hL
  have hdE := depthExpr_node l o r p d ho
  generalize hn : max (depthNode l) (depthNode r) = n at hdE
  have hnl : depthNode l ≤ n := by omega
  have hnr : depthNode r ≤ n := by omega
  have encL : Enc n L := encL0.mono hnl
  -- the right operand
  obtain ⟨R, hR', encR, decR, lenR⟩ : ∃ R, ((optR = [] ∧ R = []) ∨ optR = [("right", R)]) ∧
      (∀ kv, kv ∈ optR → kv.1 ∈ keyNames ∧ Enc n kv.2) ∧
      (depthNode r ≤ maxNestingDepth → ∀ fuel, R.length < fuel → rightOfText fuel R = .ok (retypeNode r)) ∧
      R.length ≤ (tailC (optR.map member)).length := by
    rcases hR with ⟨rfl, rfl⟩ | ⟨rr, hne, hrr, rfl⟩
    · exact ⟨[], .inl ⟨rfl, rfl⟩, by simp, fun _ fuel _ => by simp [rightOfText_nil, retypeNode], by simp⟩
    · obtain ⟨e1, e2⟩ := hr hne rr hrr
      refine ⟨rr, .inr rfl, ?_, e2, ?_⟩
      · intro kv hkv
        simp at hkv; subst hkv
        exact ⟨by simp [keyNames], e1.mono hnr⟩
      · simp [tailC, member]; omega
  -- the power
  obtain ⟨pw, hP', encP, hpw⟩ : ∃ pw : Option F64,
      ((optP = [] ∧ pw = none) ∨ (∃ t, optP = [("power", t)] ∧ fmtJSON p = some t ∧ pw = some p)) ∧
      (∀ kv, kv ∈ optP → kv.1 ∈ keyNames ∧ Enc n kv.2) ∧ pw.getD F64.one = p := by
    rcases hP with ⟨he, rfl⟩ | ⟨t, he, hf, rfl⟩
    · exact ⟨none, .inl ⟨rfl, rfl⟩, by simp, by simp [N.eq_one p he]⟩
    · refine ⟨some p, .inr ⟨t, rfl, hf, rfl⟩, ?_, rfl⟩
      intro kv hkv
      simp at hkv; subst hkv
      exact ⟨by simp [keyNames], leaf_enc (.flt p t hf)⟩
  have encD : ∀ kv, kv ∈ optD d → kv.1 ∈ keyNames ∧ Enc n kv.2 := by
    intro kv hkv
    unfold optD at hkv
    split at hkv
    · simp at hkv; subst hkv
      exact ⟨by simp [keyNames], leaf_enc (.int d)⟩
    · simp at hkv
  have hOparse : parse1 (encodeString o.toStr) = some (.str o.toStr) := J.parse_str _ (Op.toStr_valid o)
  have hall : ∀ kv, kv ∈ (("left", L) :: ("operator", encodeString o.toStr) :: (optR ++ optD d ++ optP)) →
      kv.1 ∈ keyNames ∧ Enc n kv.2 := by
    intro kv hkv
    simp only [List.mem_cons, List.mem_append] at hkv
    rcases hkv with rfl | rfl | (hkv | hkv) | hkv
    · exact ⟨by simp [keyNames], encL⟩
    · exact ⟨by simp [keyNames], leaf_enc (.str _)⟩
    · exact encR kv hkv
    · exact encD kv hkv
    · exact encP kv hkv
  have hne : (("left", L) :: ("operator", encodeString o.toStr) :: (optR ++ optD d ++ optP)) ≠ [] := by simp
  have encJ : Enc (n + 1) j := by
    rw [hj]; exact .obj n _ hne (fun kv hkv => (hall kv hkv).1) (fun kv hkv => (hall kv hkv).2)
  have hpre : j = b "{" ++ jsonKey "left" ++
      (L ++ tailC ((("operator", encodeString o.toStr) :: (optR ++ optD d ++ optP)).map member) ++ b "}") := by
    rw [hj, objText_cons]; simp [member, b_lbrace, b_rbrace]
  have lenL : L.length < j.length := by
    rw [hpre]; simp [b_lbrace]; omega
  have lenR' : R.length < j.length := by
    rw [hpre]; simp [b_lbrace, tailC, tailC_append]; omega
  refine ⟨by rw [hdE]; exact encJ, ?_, ?_, ?_, fun hdep fuel hf => ?_⟩
  · rw [hj] at encJ ⊢; exact obj_not_array J N _ encJ hne
  · rw [hj, objText_cons]; simp
  · rw [hpre]; simp only [looksLikeRangeBoundary, J.strip_left]; simp
  · cases fuel with
    | zero => omega
    | succ f =>
      have hobj : isJSONObject j = true := by rw [hj] at encJ ⊢; exact obj_is_object J N _ encJ hne
      rw [unmarshalVal_succ, hobj]
      simp only [Bool.not_true, Bool.false_eq_true, if_false]
      rw [hdE] at hdep
      rw [hj, J.parse_obj n _ (by omega) hne (fun kv hkv => (hall kv hkv).1) (fun kv hkv => (hall kv hkv).2)]
      simp only []
      rw [decode_node_fields J N L _ o.toStr R optR optP d p pw hOparse hd hR' hP']
      simp only [assemble, leftOf_text, rightOf_text, decL (by omega) f (by omega), decR (by omega) f (by omega),
        Op.ofStr_toStr o hou,
        Bool.false_eq_true, if_false, retype, ho]
      rw [hpw]
      by_cases hd1 : d = 1 <;> simp [hd1]

end

/-! ## 10. terms, lists, range bounds -/

/-- a raw value of a term: string, int or float -/
def termPrim : Prim → Bool
  | .str _ => true
  | .int _ => true
  | .flt _ => true
  | _ => false

/-- a term (`termLeaf`) is a leaf operator over a string / int / float, and the side conditions reach that value -/
theorem termLeaf_inv (e : Expr) (ht : termLeaf e = true) (hsv : allStringsValid e = true) (hi : intsInt64 e = true) :
    ∃ q o p d, e = .mk (.prim q) o .nil p d ∧ (o = .literal || o = .wild || o = .regexp) = true ∧
      primOK q = true ∧ termPrim q = true := by
  obtain ⟨l, o, r, p, d⟩ := e
  cases l with
  | prim q =>
    cases r <;> simp [termLeaf] at ht
    refine ⟨q, o, p, d, rfl, ?_, ?_, ?_⟩
    · cases q <;> simp_all [Op.isLeafOp]
    · cases q <;> simp_all [primOK, allStringsValid, allStringsValidNode, primStrValid, intsInt64, intsInt64Node, primIntOK]
    · cases q <;> simp_all [termPrim]
  | _ => simp [termLeaf] at ht

theorem literalToExpr_toInt (f : F64) : literalToExpr (.prim (toIntIfNecessary f)) = lit (.prim (toIntIfNecessary f)) := by
  unfold toIntIfNecessary
  simp only []
  split <;> rfl

theorem parse_boolText (v : Bool) : parse1 (boolText v) = some (.bool v) := by
  cases v <;> decide

section
variable (J : JsonLaws) (N : NumLaws)
include J N

theorem termLeaf_good (e : Expr) (ht : termLeaf e = true) (hsv : allStringsValid e = true) (hi : intsInt64 e = true)
    (j : Bytes) (h : marshalExpr e = .ok j) : Good e j := by
  obtain ⟨q, o, p, d, rfl, ho, hq, _⟩ := termLeaf_inv e ht hsv hi
  exact leaf_good J N q o .nil p d j ho hq h

/-- the Column of a field position -/
theorem colField_good (a : Expr) (hc : isColField (.expr a) = true) (hsv : allStringsValid a = true)
    (j : Bytes) (h : marshalExpr a = .ok j) : Good a j := by
  unfold isColField at hc
  split at hc
  · rename_i heq
    simp only [Node.expr.injEq] at heq; subst heq
    refine leaf_good J N _ _ _ _ _ j rfl ?_ h
    simpa [allStringsValid, allStringsValidNode, primStrValid, primOK] using hsv
  · exact absurd hc Bool.false_ne_true

/-- the elements of an `IN` list -/
theorem list_roundtrip : ∀ (es : ExprList), allTermLit es = true → allStringsValidList es = true →
    intsInt64List es = true → ∀ parts, marshalList es = .ok parts →
    (∀ v, v ∈ parts → LeafEnc v) ∧ unmarshalLiterals parts = .ok (retypeList es)
  | .nil, _, _, _, parts, h => by
    simp only [marshalList, Out.ok.injEq] at h; subst h
    simp [unmarshalLiterals, retypeList]
  | .cons e t, ht, hsv, hi, parts, h => by
    simp only [allTermLit, Bool.and_eq_true] at ht
    simp only [allStringsValidList, Bool.and_eq_true] at hsv
    simp only [intsInt64List, Bool.and_eq_true] at hi
    obtain ⟨q, o, p, d, rfl, ho, hq, _⟩ := termLeaf_inv e ht.1.1 hsv.1 hi.1
    rw [marshalList] at h
    cases hm : marshalExpr (.mk (.prim q) o .nil p d) with
    | err => simp [hm] at h
    | panic => simp [hm] at h
    | ok s =>
      cases hl : marshalList t with
      | err => simp [hm, hl] at h
      | panic => simp [hm, hl] at h
      | ok ss =>
        simp only [hm, hl, Out.ok.injEq] at h; subst h
        obtain ⟨ih1, ih2⟩ := list_roundtrip t ht.2 hsv.2 hi.2 ss hl
        rw [marshalExpr_eq, if_pos ho] at hm
        obtain ⟨hle, hdec⟩ := prim_roundtrip J N q hq s hm
        refine ⟨?_, ?_⟩
        · intro v hv
          simp only [List.mem_cons] at hv
          rcases hv with rfl | hv
          · exact hle
          · exact ih1 v hv
        · simp only [unmarshalLiterals, hdec, ih2, retypeList, retype, ho, if_true]

theorem leftOK_list (es : ExprList) (ht : allTermLit es = true) (hsv : allStringsValidList es = true)
    (hi : intsInt64List es = true) : ∀ L, marshalNode (.list es) = .ok L → LeftGood (.list es) L := by
  intro L hL
  rw [marshalNode] at hL
  cases hl : marshalList es with
  | err => simp [hl] at hL
  | panic => simp [hl] at hL
  | ok parts =>
    simp only [hl, Out.ok.injEq] at hL
    obtain ⟨h1, h2⟩ := list_roundtrip J N es ht hsv hi parts hl
    have hev : ∀ v, v ∈ parts → Enc (depthList es) v := fun v hv => leaf_enc (h1 v hv)
    have hL' : L = arrText parts := hL.symm
    subst hL'
    have encL : Enc (depthList es + 1) (arrText parts) := .arr _ parts hev
    refine ⟨by rw [depthNode_list]; exact encL, fun hdep fuel _ => ?_⟩
    rw [depthNode_list] at hdep
    simp only [leftOfText, arr_is_array J N parts encL, J.parse_arr _ parts (by omega) hev, h2, retypeNode, if_true]

/-- the value `decodeBoundary` stores for a scalar bound -/
theorem decodeAny_leaf (q : Prim) (o : Op) (r : Node) (p : F64) (d : Int) (hq : primOK q = true) (ht : termPrim q = true)
    (A : Bytes) (h : marshalNode (.prim q) = .ok A) :
    LeafEnc A ∧ ∃ v, decodeAny A = some v ∧ literalToExpr v = retypeBound (.mk (.prim q) o r p d) := by
  cases q with
  | str s =>
    simp only [marshalNode, Out.ok.injEq] at h; subst h
    refine ⟨.str s, .prim (.str s), ?_, rfl⟩
    simp only [decodeAny, J.any_str, J.parse_str s hq]
    simp
  | int i =>
    simp only [marshalNode, Out.ok.injEq] at h; subst h
    refine ⟨.int i, .prim (toIntIfNecessary (F64.ofInt i)), ?_, ?_⟩
    · simp only [decodeAny, J.any_int, J.parse_int, N.parseFloat_fmtInt i hq]
      simp
    · simp only [retypeBound, literalToExpr_toInt]
  | flt f =>
    simp only [marshalNode] at h
    cases hf : fmtJSON f with
    | none => simp [hf] at h
    | some t =>
      simp only [hf, Out.ok.injEq] at h; subst h
      refine ⟨.flt f t hf, .prim (toIntIfNecessary f), ?_, ?_⟩
      · simp only [decodeAny, J.any_flt _ f t hf, J.parse_flt f t hf, N.parseFloat_fmtJSON f t hf]
        simp
      · simp only [retypeBound, literalToExpr_toInt]
  | _ => simp [termPrim] at ht

theorem rightOK_bound (a c : Expr) (incl : Bool) (hta : termLeaf a = true) (htc : termLeaf c = true)
    (hsa : allStringsValid a = true) (hsc : allStringsValid c = true) (hia : intsInt64 a = true)
    (hic : intsInt64 c = true) :
    ∀ R, marshalNode (.bound (.expr a) (.expr c) incl) = .ok R → RightGood (.bound (.expr a) (.expr c) incl) R := by
  intro R hR
  obtain ⟨qa, oa, pa, da, rfl, hoa, hqa, hta'⟩ := termLeaf_inv a hta hsa hia
  obtain ⟨qc, oc, pc, dc, rfl, hoc, hqc, htc'⟩ := termLeaf_inv c htc hsc hic
  rw [marshalNode] at hR
  simp only [marshalNode_expr, marshalExpr_eq, if_pos hoa, if_pos hoc] at hR
  cases hA : marshalNode (.prim qa) with
  | err => simp [hA] at hR
  | panic => simp [hA] at hR
  | ok A =>
    cases hC : marshalNode (.prim qc) with
    | err => simp [hA, hC] at hR
    | panic => simp [hA, hC] at hR
    | ok C =>
      simp only [hA, hC, Out.ok.injEq] at hR
      obtain ⟨leA, vA, dA, eA⟩ := decodeAny_leaf J N qa oa .nil pa da hqa hta' A hA
      obtain ⟨leC, vC, dC, eC⟩ := decodeAny_leaf J N qc oc .nil pc dc hqc htc' C hC
      have hRt : R = boundText A C incl := by
        rw [← hR]
        simp [boundText, objText, joinC, member, boolText, b_comma]
      subst hRt
      have hkeys : ∀ kv, kv ∈ [("min", A), ("max", C), ("inclusive", boolText incl)] → kv.1 ∈ keyNames := by
        intro kv hkv; simp at hkv; rcases hkv with rfl | rfl | rfl <;> simp [keyNames]
      have hD := depthNode_bound (.expr (.mk (.prim qa) oa .nil pa da)) (.expr (.mk (.prim qc) oc .nil pc dc)) incl
      generalize max (depthNode (.expr (.mk (.prim qa) oa .nil pa da)))
        (depthNode (.expr (.mk (.prim qc) oc .nil pc dc))) = n at hD
      have hvals : ∀ kv, kv ∈ [("min", A), ("max", C), ("inclusive", boolText incl)] → Enc n kv.2 := by
        intro kv hkv; simp at hkv
        rcases hkv with rfl | rfl | rfl
        · exact leaf_enc leA
        · exact leaf_enc leC
        · exact .bool n incl
      have encR : Enc (n + 1) (boundText A C incl) := .obj n _ (by simp) hkeys hvals
      obtain ⟨s1, s2, s3⟩ := J.strip_bound A C incl leA leC
      have hlook : looksLikeRangeBoundary (boundText A C incl) = true := by
        simp [looksLikeRangeBoundary, s1, s2, s3]
      have hne : (boundText A C incl).isEmpty = false := by
        simp [boundText, objText_cons]
      have hmin : fieldOf ["min", "max", "inclusive"] (b "min") = some "min" := by decide
      have hmax : fieldOf ["min", "max", "inclusive"] (b "max") = some "max" := by decide
      have hinc : fieldOf ["min", "max", "inclusive"] (b "inclusive") = some "inclusive" := by decide
      have hdec : n < maxNestingDepth → decodeBoundary (boundText A C incl) = some (vA, vC, incl) := by
        intro hn
        unfold decodeBoundary
        rw [show boundText A C incl = objText [("min", A), ("max", C), ("inclusive", boolText incl)] from rfl,
          J.parse_obj n _ hn (by simp) hkeys hvals]
        simp [List.foldl, hmin, hmax, hinc, dA, dC, parse_boolText]
      refine ⟨by rw [hD]; exact encR, fun hdep fuel _ => ?_⟩
      rw [hD] at hdep
      simp only [rightOfText, hne, hlook, hdec (by omega), eA, eC, retypeNode, retypeBoundNode]
      simp

end

/-! ## 11. the induction over the parser shape -/

theorem leftOK_expr (a : Expr) (h : ∀ L, marshalExpr a = .ok L → Good a L) :
    ∀ L, marshalNode (.expr a) = .ok L → LeftGood (.expr a) L :=
  fun L hL => good_left a L (h L (by rwa [marshalNode_expr] at hL))

theorem rightOK_expr (a : Expr) (h : ∀ R, marshalExpr a = .ok R → Good a R) :
    Node.expr a ≠ Node.nil → ∀ R, marshalNode (.expr a) = .ok R → RightGood (.expr a) R :=
  fun _ R hR => good_right a R (h R (by rwa [marshalNode_expr] at hR))

theorem field_expr (l : Node) (h : (semNodeT l || isColField l) = true) :
    ∃ a, l = .expr a ∧ (semShapeT a || isColField (.expr a)) = true := by
  cases l with
  | expr a => exact ⟨a, rfl, by simpa [semNodeT] using h⟩
  | _ => simp [semNodeT, isColField] at h

theorem semNodeT_expr (l : Node) (h : semNodeT l = true) : ∃ a, l = .expr a ∧ semShapeT a = true := by
  cases l with
  | expr a => exact ⟨a, rfl, by simpa [semNodeT] using h⟩
  | _ => simp [semNodeT] at h

theorem isNil_eq (r : Node) (h : r.isNil = true) : r = .nil := by
  cases r <;> simp [Node.isNil] at h ⊢

section
variable (J : JsonLaws) (N : NumLaws)
include J N

/-- a field position: a shaped expression or the wrapped Column -/
theorem field_good (a : Expr) (hf : (semShapeT a || isColField (.expr a)) = true)
    (ih : semShapeT a = true → ∀ L, marshalExpr a = .ok L → Good a L) (hsv : allStringsValid a = true) :
    ∀ L, marshalExpr a = .ok L → Good a L := by
  intro L hL
  by_cases hs : semShapeT a = true
  · exact ih hs L hL
  · rcases Bool.or_eq_true _ _ |>.mp hf with h' | h'
    · exact absurd h' hs
    · exact colField_good J N a h' hsv L hL

/-- the induction: every encoded parser-shaped tree decodes, at every sufficient fuel, to `retype` of it -/
theorem good_of_shape : ∀ e : Expr, semShapeT e = true → validateExpr e = true → allStringsValid e = true →
    intsInt64 e = true → ∀ j, marshalExpr e = .ok j → Good e j
  | .mk l o r p d, hs, hv, hsv, hi, j, h => by
    obtain ⟨hop, hvl, hvr⟩ := validate_top l o r p d hv
    simp only [allStringsValid, Bool.and_eq_true] at hsv
    simp only [intsInt64, Bool.and_eq_true] at hi
    obtain ⟨⟨hd, hil⟩, hir⟩ := hi
    obtain ⟨hsl, hsr⟩ := hsv
    cases o with
    | undefined => simp [semShapeT] at hs
    | list => simp [semShapeT] at hs
    | literal =>
      simp only [semShapeT] at hs
      exact termLeaf_good J N _ hs (by simp [allStringsValid, hsl, hsr]) (by simp [intsInt64, hd, hil, hir]) j h
    | wild =>
      simp only [semShapeT] at hs
      exact termLeaf_good J N _ hs (by simp [allStringsValid, hsl, hsr]) (by simp [intsInt64, hd, hil, hir]) j h
    | regexp =>
      simp only [semShapeT] at hs
      exact termLeaf_good J N _ hs (by simp [allStringsValid, hsl, hsr]) (by simp [intsInt64, hd, hil, hir]) j h
    | and =>
      simp only [semShapeT, Bool.and_eq_true] at hs
      cases l <;> simp [semNodeT] at hs
      cases r <;> simp [semNodeT] at hs
      rename_i a c
      simp only [validateNode] at hvl hvr
      simp only [allStringsValidNode] at hsl hsr
      simp only [intsInt64Node] at hil hir
      exact node_good J N _ _ _ _ _ j rfl (by decide) hd h
        (leftOK_expr a (good_of_shape a hs.1 hvl hsl hil)) (rightOK_expr c (good_of_shape c hs.2 hvr hsr hir))
    | or =>
      simp only [semShapeT, Bool.and_eq_true] at hs
      cases l <;> simp [semNodeT] at hs
      cases r <;> simp [semNodeT] at hs
      rename_i a c
      simp only [validateNode] at hvl hvr
      simp only [allStringsValidNode] at hsl hsr
      simp only [intsInt64Node] at hil hir
      exact node_good J N _ _ _ _ _ j rfl (by decide) hd h
        (leftOK_expr a (good_of_shape a hs.1 hvl hsl hil)) (rightOK_expr c (good_of_shape c hs.2 hvr hsr hir))
    | equals =>
      simp only [semShapeT, Bool.and_eq_true] at hs
      obtain ⟨a, rfl, hfa⟩ := field_expr l hs.1
      obtain ⟨c, rfl, hsc⟩ := semNodeT_expr r hs.2
      simp only [validateNode] at hvl hvr
      simp only [allStringsValidNode] at hsl hsr
      simp only [intsInt64Node] at hil hir
      exact node_good J N _ _ _ _ _ j rfl (by decide) hd h
        (leftOK_expr a (field_good J N a hfa (fun hs' => good_of_shape a hs' hvl hsl hil) hsl))
        (rightOK_expr c (good_of_shape c hsc hvr hsr hir))
    | greater =>
      simp only [semShapeT, Bool.and_eq_true] at hs
      obtain ⟨a, rfl, hfa⟩ := field_expr l hs.1
      obtain ⟨c, rfl, hsc⟩ := semNodeT_expr r hs.2
      simp only [validateNode] at hvl hvr
      simp only [allStringsValidNode] at hsl hsr
      simp only [intsInt64Node] at hil hir
      exact node_good J N _ _ _ _ _ j rfl (by decide) hd h
        (leftOK_expr a (field_good J N a hfa (fun hs' => good_of_shape a hs' hvl hsl hil) hsl))
        (rightOK_expr c (good_of_shape c hsc hvr hsr hir))
    | less =>
      simp only [semShapeT, Bool.and_eq_true] at hs
      obtain ⟨a, rfl, hfa⟩ := field_expr l hs.1
      obtain ⟨c, rfl, hsc⟩ := semNodeT_expr r hs.2
      simp only [validateNode] at hvl hvr
      simp only [allStringsValidNode] at hsl hsr
      simp only [intsInt64Node] at hil hir
      exact node_good J N _ _ _ _ _ j rfl (by decide) hd h
        (leftOK_expr a (field_good J N a hfa (fun hs' => good_of_shape a hs' hvl hsl hil) hsl))
        (rightOK_expr c (good_of_shape c hsc hvr hsr hir))
    | greaterEq =>
      simp only [semShapeT, Bool.and_eq_true] at hs
      obtain ⟨a, rfl, hfa⟩ := field_expr l hs.1
      obtain ⟨c, rfl, hsc⟩ := semNodeT_expr r hs.2
      simp only [validateNode] at hvl hvr
      simp only [allStringsValidNode] at hsl hsr
      simp only [intsInt64Node] at hil hir
      exact node_good J N _ _ _ _ _ j rfl (by decide) hd h
        (leftOK_expr a (field_good J N a hfa (fun hs' => good_of_shape a hs' hvl hsl hil) hsl))
        (rightOK_expr c (good_of_shape c hsc hvr hsr hir))
    | lessEq =>
      simp only [semShapeT, Bool.and_eq_true] at hs
      obtain ⟨a, rfl, hfa⟩ := field_expr l hs.1
      obtain ⟨c, rfl, hsc⟩ := semNodeT_expr r hs.2
      simp only [validateNode] at hvl hvr
      simp only [allStringsValidNode] at hsl hsr
      simp only [intsInt64Node] at hil hir
      exact node_good J N _ _ _ _ _ j rfl (by decide) hd h
        (leftOK_expr a (field_good J N a hfa (fun hs' => good_of_shape a hs' hvl hsl hil) hsl))
        (rightOK_expr c (good_of_shape c hsc hvr hsr hir))
    | not =>
      simp only [semShapeT, Bool.and_eq_true] at hs
      cases l <;> simp [semNodeT] at hs
      rename_i a
      obtain rfl := isNil_eq r hs.2
      simp only [validateNode] at hvl
      simp only [allStringsValidNode] at hsl
      simp only [intsInt64Node] at hil
      exact node_good J N _ _ _ _ _ j rfl (by decide) hd h
        (leftOK_expr a (good_of_shape a hs.1 hvl hsl hil)) (fun hne => absurd rfl hne)
    | must =>
      simp only [semShapeT, Bool.and_eq_true] at hs
      cases l <;> simp [semNodeT] at hs
      rename_i a
      obtain rfl := isNil_eq r hs.2
      simp only [validateNode] at hvl
      simp only [allStringsValidNode] at hsl
      simp only [intsInt64Node] at hil
      exact node_good J N _ _ _ _ _ j rfl (by decide) hd h
        (leftOK_expr a (good_of_shape a hs.1 hvl hsl hil)) (fun hne => absurd rfl hne)
    | mustNot =>
      simp only [semShapeT, Bool.and_eq_true] at hs
      cases l <;> simp [semNodeT] at hs
      rename_i a
      obtain rfl := isNil_eq r hs.2
      simp only [validateNode] at hvl
      simp only [allStringsValidNode] at hsl
      simp only [intsInt64Node] at hil
      exact node_good J N _ _ _ _ _ j rfl (by decide) hd h
        (leftOK_expr a (good_of_shape a hs.1 hvl hsl hil)) (fun hne => absurd rfl hne)
    | boost =>
      simp only [semShapeT, Bool.and_eq_true] at hs
      cases l <;> simp [semNodeT] at hs
      rename_i a
      obtain rfl := isNil_eq r hs.2
      simp only [validateNode] at hvl
      simp only [allStringsValidNode] at hsl
      simp only [intsInt64Node] at hil
      exact node_good J N _ _ _ _ _ j rfl (by decide) hd h
        (leftOK_expr a (good_of_shape a hs.1 hvl hsl hil)) (fun hne => absurd rfl hne)
    | fuzzy =>
      simp only [semShapeT, Bool.and_eq_true] at hs
      cases l <;> simp [semNodeT] at hs
      rename_i a
      obtain rfl := isNil_eq r hs.2
      simp only [validateNode] at hvl
      simp only [allStringsValidNode] at hsl
      simp only [intsInt64Node] at hil
      exact node_good J N _ _ _ _ _ j rfl (by decide) hd h
        (leftOK_expr a (good_of_shape a hs.1 hvl hsl hil)) (fun hne => absurd rfl hne)
    | like =>
      simp only [semShapeT, Bool.and_eq_true] at hs
      obtain ⟨a, rfl, hfa⟩ := field_expr l hs.1
      cases r <;> simp at hs
      rename_i re
      simp only [validateNode] at hvl
      simp only [allStringsValidNode] at hsl hsr
      simp only [intsInt64Node] at hil hir
      exact node_good J N _ _ _ _ _ j rfl (by decide) hd h
        (leftOK_expr a (field_good J N a hfa (fun hs' => good_of_shape a hs' hvl hsl hil) hsl))
        (rightOK_expr re (termLeaf_good J N re hs.2.1 hsr hir))
    | in_ =>
      simp only [semShapeT, Bool.and_eq_true] at hs
      obtain ⟨a, rfl, hfa⟩ := field_expr l hs.1
      simp only [validateNode] at hvl
      simp only [allStringsValidNode] at hsl
      simp only [intsInt64Node] at hil
      obtain ⟨hs1, hs2⟩ := hs
      split at hs2
      · rename_i es p' d'
        simp only [Bool.and_eq_true] at hs2
        simp only [allStringsValidNode, allStringsValid, Bool.and_eq_true] at hsr
        simp only [intsInt64Node, intsInt64, Bool.and_eq_true] at hir
        exact node_good J N _ _ _ _ _ j rfl (by decide) hd h
          (leftOK_expr a (field_good J N a hfa (fun hs' => good_of_shape a hs' hvl hsl hil) hsl))
          (rightOK_expr _ (fun R hR => node_good J N _ _ _ _ _ R rfl (by decide) hir.1.1 hR
            (leftOK_list J N es hs2.1 hsr.1 hir.1.2) (fun hne => absurd rfl hne)))
      · exact absurd hs2 Bool.false_ne_true
    | range =>
      cases r with
      | bound mn mx incl =>
        unfold semShapeT at hs
        simp only [Bool.and_eq_true] at hs
        obtain ⟨a, rfl, hfa⟩ := field_expr l hs.1
        simp only [validateNode] at hvl
        simp only [allStringsValidNode] at hsl
        simp only [intsInt64Node] at hil
        cases mn with
        | expr lo =>
          cases mx with
          | expr hi =>
            simp only [Bool.and_eq_true] at hs
            simp only [allStringsValidNode, Bool.and_eq_true] at hsr
            simp only [intsInt64Node, Bool.and_eq_true] at hir
            have hlit : isLiteralExpr (.expr lo) = true ∧ isLiteralExpr (.expr hi) = true := by
              simp [validateOp, Expr.op, Expr.left, Expr.right] at hop
              exact ⟨hop.2.1.2, hop.2.2⟩
            have hlo : termLeaf lo = true := by
              obtain ⟨ll, lo', lr, lp, ld⟩ := lo
              have h1 := hlit.1
              simp [isLiteralExpr] at h1
              exact termLeaf_of_shapeT_leafop _ hs.2.1 (by rcases h1.1 with (h' | h') | h' <;> subst h' <;> rfl)
            have hhi : termLeaf hi = true := by
              obtain ⟨ll, lo', lr, lp, ld⟩ := hi
              have h1 := hlit.2
              simp [isLiteralExpr] at h1
              exact termLeaf_of_shapeT_leafop _ hs.2.2 (by rcases h1.1 with (h' | h') | h' <;> subst h' <;> rfl)
            exact node_good J N _ _ _ _ _ j rfl (by decide) hd h
              (leftOK_expr a (field_good J N a hfa (fun hs' => good_of_shape a hs' hvl hsl hil) hsl))
              (fun _ => rightOK_bound J N lo hi incl hlo hhi hsr.1 hsr.2 hir.1 hir.2)
          | _ => simp at hs
        | _ => simp at hs
      | _ => unfold semShapeT at hs; simp at hs

/-- C12, decoding: the encoding of a parser-shaped, validated tree decodes, and decodes to `retype` of the tree -/
theorem roundtrip_decodes (e : Expr) (hs : semShapeT e = true) (hv : validateExpr e = true)
    (hsv : allStringsValid e = true) (hi : intsInt64 e = true) (hdp : depthOK e = true)
    (j : Bytes) (h : marshalExpr e = .ok j) :
    unmarshalTop j = .ok (retype e) := by
  obtain ⟨enc, _, _, _, hdec⟩ := good_of_shape J N e hs hv hsv hi j h
  have hdp' : depthExpr e ≤ maxNestingDepth := by simpa [depthOK] using hdp
  unfold unmarshalTop
  rw [J.valid_enc _ j hdp' enc, J.trim_enc _ j enc]
  simp only [Bool.not_true, Bool.false_eq_true, if_false]
  exact hdec hdp' _ (by omega)

end

/-! ## 12. `retype` is idempotent, and the identity on kind-stable trees -/

/-- one more fact about the float64 conversions, used only for the idempotence of `retype` on range bounds -/
structure NumLaws2 : Prop where
  /-- an integer-valued float64 within int64 converts to an int64 that converts back to the same value, and that
      int64 is a fixed point of float64→int64 (Go: `float64(int(f)) == f` implies `int(float64(int(f))) == int(f)`) -/
  toInt_stable : ∀ f : F64, F64.eq f (F64.ofInt f.toInt) = true →
    toIntIfNecessary (F64.ofInt f.toInt) = .int f.toInt

theorem retype_leaf (q : Prim) (o : Op) (r : Node) (p : F64) (d : Int)
    (ho : (o = .literal || o = .wild || o = .regexp) = true) : retype (.mk (.prim q) o r p d) = retypePrim q := by
  simp only [retype, ho, if_true]

theorem retype_node (l : Node) (o : Op) (r : Node) (p : F64) (d : Int)
    (ho : (o = .literal || o = .wild || o = .regexp) = false) :
    retype (.mk l o r p d) =
      .mk (if isStringlike (retypeNode l) && operatesOnColumn o then wrapInColumn (retypeNode l) else retypeNode l)
        o (retypeNode r) (if o = .boost then p else F64.one) (if o = .fuzzy then d else 1) := by
  simp only [retype, ho, Bool.false_eq_true, if_false]

theorem literalToExpr_str_form (s : Bytes) :
    ∃ o, (o = .literal || o = .wild || o = .regexp) = true ∧
      literalToExpr (.prim (.str s)) = .mk (.prim (.str s)) o .nil F64.one 1 := by
  simp only [literalToExpr]
  split
  · exact ⟨.regexp, rfl, rfl⟩
  · split
    · exact ⟨.wild, rfl, rfl⟩
    · exact ⟨.literal, rfl, rfl⟩

theorem retype_literalToExpr_str (s : Bytes) :
    retype (literalToExpr (.prim (.str s))) = literalToExpr (.prim (.str s)) := by
  obtain ⟨o, ho, h⟩ := literalToExpr_str_form s
  rw [h, retype_leaf _ _ _ _ _ ho, retypePrim, h]

theorem retype_retypePrim (q : Prim) : retype (retypePrim q) = retypePrim q := by
  cases q with
  | str s => exact retype_literalToExpr_str s
  | col s => exact retype_literalToExpr_str s
  | int i => simp only [retypePrim, lit, mkLeaf]; rw [retype_leaf _ _ _ _ _ rfl]; rfl
  | flt f =>
    simp only [retypePrim]
    cases hf : floatAsInt f with
    | some i => simp only [lit, mkLeaf]; rw [retype_leaf _ _ _ _ _ rfl]; rfl
    | none => simp only [lit, mkLeaf]; rw [retype_leaf _ _ _ _ _ rfl]; simp only [retypePrim, hf]; rfl
  | bool v => simp only [retypePrim, lit, mkLeaf]; rw [retype_leaf _ _ _ _ _ rfl]; rfl
  | _ => simp only [retypePrim, lit, mkLeaf]; rw [retype_leaf _ _ _ _ _ rfl]; rfl

/-- a string-like operand is wrapped as `lit (Column s)` -/
theorem wrap_of_stringlike (n : Node) (h : isStringlike n = true) : ∃ s, wrapInColumn n = .expr (lit (.prim (.col s))) := by
  unfold isStringlike at h
  split at h
  · exact ⟨_, rfl⟩
  · exact ⟨_, rfl⟩
  · exact absurd h Bool.false_ne_true

theorem retypeNode_litcol (s : Bytes) :
    retypeNode (.expr (lit (.prim (.col s)))) = .expr (literalToExpr (.prim (.str s))) := by
  simp only [retypeNode, lit, mkLeaf]; rw [retype_leaf _ _ _ _ _ rfl]; rfl

theorem stringlike_literalToExpr (s : Bytes) : isStringlike (.expr (literalToExpr (.prim (.str s)))) = true := by
  obtain ⟨o, _, h⟩ := literalToExpr_str_form s
  rw [h]; rfl

theorem wrap_literalToExpr (s : Bytes) :
    wrapInColumn (.expr (literalToExpr (.prim (.str s)))) = .expr (lit (.prim (.col s))) := by
  obtain ⟨o, _, h⟩ := literalToExpr_str_form s
  rw [h]; rfl

/-- the column re-wrapping of the left operand is idempotent once `retypeNode` is -/
theorem wrap_idem (m : Node) (o : Op) (hm : retypeNode m = m) :
    let W := if isStringlike m && operatesOnColumn o then wrapInColumn m else m
    (if isStringlike (retypeNode W) && operatesOnColumn o then wrapInColumn (retypeNode W) else retypeNode W) = W := by
  intro W
  by_cases hc : (isStringlike m && operatesOnColumn o) = true
  · have hW : W = wrapInColumn m := by simp only [W, hc, if_true]
    simp only [Bool.and_eq_true] at hc
    obtain ⟨s, hs⟩ := wrap_of_stringlike m hc.1
    rw [hW, hs, retypeNode_litcol, stringlike_literalToExpr, hc.2, wrap_literalToExpr]
    simp
  · have hW : W = m := by simp only [W, hc, if_false]; simp
    rw [hW, hm]
    simp only [hc, if_false]; simp

section
variable (N2 : NumLaws2)
include N2

theorem retypeBound_idem (e : Expr) : retypeBound (retypeBound e) = retypeBound e := by
  have key : ∀ f : F64, retypeBound (lit (.prim (toIntIfNecessary f))) = lit (.prim (toIntIfNecessary f)) := by
    intro f
    by_cases he : F64.eq f (F64.ofInt f.toInt) = true
    · have h1 : toIntIfNecessary f = .int f.toInt := by simp [toIntIfNecessary, he]
      rw [h1]
      simp only [retypeBound, lit, mkLeaf, N2.toInt_stable f he]
    · have h1 : toIntIfNecessary f = .flt f := by simp [toIntIfNecessary, he]
      rw [h1]
      simp only [retypeBound, lit, mkLeaf, h1]
  obtain ⟨l, o, r, p, d⟩ := e
  cases l with
  | prim q =>
    cases q with
    | str s =>
      obtain ⟨o', _, h⟩ := literalToExpr_str_form s
      simp only [retypeBound]; rw [h]; simp only [retypeBound]; rw [h]
    | int i => simp only [retypeBound]; exact key _
    | flt f => simp only [retypeBound]; exact key _
    | _ => simp only [retypeBound]
  | _ => simp only [retypeBound]

theorem retypeBoundNode_idem (n : Node) : retypeBoundNode (retypeBoundNode n) = retypeBoundNode n := by
  cases n <;> simp only [retypeBoundNode, retypeBound_idem N2]

mutual
theorem retypeNode_idem : ∀ n : Node, retypeNode (retypeNode n) = retypeNode n
  | .nil => by simp only [retypeNode]
  | .prim q => by simp only [retypeNode]
  | .expr e => by simp only [retypeNode, retype_idem e]
  | .list es => by simp only [retypeNode, retypeList_idem es]
  | .bound mn mx incl => by simp only [retypeNode, retypeBoundNode_idem N2]
/-- C12: decoding the re-encoding of a decoded tree gives the decoded tree again -/
theorem retype_idem : ∀ e : Expr, retype (retype e) = retype e
  | .mk l o r p d => by
    by_cases ho : (o = .literal || o = .wild || o = .regexp) = true
    · cases l with
      | prim q => rw [retype_leaf _ _ _ _ _ ho]; exact retype_retypePrim q
      | nil => simp only [retype, ho, if_true]
      | expr x => simp only [retype, ho, if_true]
      | list x => simp only [retype, ho, if_true]
      | bound x y z => simp only [retype, ho, if_true]
    · have ho' : (o = .literal || o = .wild || o = .regexp) = false := by simpa using ho
      have hl := retypeNode_idem l
      have hr := retypeNode_idem r
      have hw := wrap_idem (retypeNode l) o hl
      simp only [] at hw
      rw [retype_node _ _ _ _ _ ho', retype_node _ _ _ _ _ ho', hw, hr]
      congr 1
      · split <;> simp_all
      · split <;> simp_all
theorem retypeList_idem : ∀ es : ExprList, retypeList (retypeList es) = retypeList es
  | .nil => by simp only [retypeList]
  | .cons e t => by simp only [retypeList, retype_idem e, retypeList_idem t]
end

end

/-! ## 13. kind-stable trees: `retype e = e` -/

/-- a leaf already has the kind the decoder infers from its text: a string leaf carries the operator `literalToExpr`
    gives its text, a float leaf is not written as an integer, there is no bare Column; default `boost` / `fuzzy` -/
def leafStable (l : Node) (o : Op) (r : Node) (p : F64) (d : Int) : Bool :=
  match l with
  | .prim (.str s) =>
    decide (o = (literalToExpr (.prim (.str s))).op) && r.isNil && decide (p = F64.one) && decide (d = 1)
  | .prim (.col _) => false
  | .prim (.int _) => decide (o = .literal) && r.isNil && decide (p = F64.one) && decide (d = 1)
  | .prim (.flt f) =>
    (floatAsInt f).isNone && decide (o = .literal) && r.isNil && decide (p = F64.one) && decide (d = 1)
  | .prim (.bool _) => decide (o = .literal) && r.isNil && decide (p = F64.one) && decide (d = 1)
  | .prim .opaque => decide (o = .literal) && r.isNil && decide (p = F64.one) && decide (d = 1)
  | _ => true

/-- a range bound survives the decoder's detour through `any`: a string bound carries the operator of its text, an int
    bound survives float64 (`noBigIntBound`), a float bound is not integer-valued -/
def boundStable : Expr → Bool
  | .mk (.prim (.str s)) o r p d =>
    decide (o = (literalToExpr (.prim (.str s))).op) && r.isNil && decide (p = F64.one) && decide (d = 1)
  | .mk (.prim (.int i)) o r p d =>
    decide (toIntIfNecessary (F64.ofInt i) = .int i) && decide (o = .literal) && r.isNil && decide (p = F64.one) &&
      decide (d = 1)
  | .mk (.prim (.flt f)) o r p d =>
    decide (toIntIfNecessary f = .flt f) && decide (o = .literal) && r.isNil && decide (p = F64.one) && decide (d = 1)
  | _ => true

def boundStableNode : Node → Bool
  | .expr e => boundStable e
  | _ => true

/-- the wrapped Column `lit (Column s)` -/
def isLitCol : Node → Bool
  | .expr (.mk (.prim (.col _)) .literal .nil p d) => decide (p = F64.one) && decide (d = 1)
  | _ => false

mutual
def kindStableNode : Node → Bool
  | .nil => true
  | .prim _ => true
  | .expr e => kindStable e
  | .list es => kindStableList es
  | .bound mn mx _ => boundStableNode mn && boundStableNode mx
/-- every leaf has the kind the decoder infers, the Column leaves are exactly the wrapped left operands of the
    column operators, and `boost` / `fuzzy` are the defaults except on Boost / Fuzzy nodes -/
def kindStable : Expr → Bool
  | .mk l o r p d =>
    if o = .literal || o = .wild || o = .regexp then leafStable l o r p d
    else
      ((isLitCol l && operatesOnColumn o) || (kindStableNode l && !(isStringlike l && operatesOnColumn o))) &&
      kindStableNode r && (decide (o = .boost) || decide (p = F64.one)) && (decide (o = .fuzzy) || decide (d = 1))
def kindStableList : ExprList → Bool
  | .nil => true
  | .cons e t => kindStable e && kindStableList t
end

theorem retypeBound_stable (e : Expr) (h : boundStable e = true) : retypeBound e = e := by
  obtain ⟨l, o, r, p, d⟩ := e
  cases l with
  | prim q =>
    cases q with
    | str s =>
      obtain ⟨o', _, hf⟩ := literalToExpr_str_form s
      simp only [boundStable, Bool.and_eq_true, decide_eq_true_eq] at h
      obtain ⟨⟨⟨h1, h2⟩, h3⟩, h4⟩ := h
      obtain rfl := isNil_eq r h2
      subst h3 h4
      rw [hf] at h1; simp only [Expr.op] at h1; subst h1
      simp only [retypeBound, hf]
    | int i =>
      simp only [boundStable, Bool.and_eq_true, decide_eq_true_eq] at h
      obtain ⟨⟨⟨⟨h0, h1⟩, h2⟩, h3⟩, h4⟩ := h
      obtain rfl := isNil_eq r h2
      subst h1 h3 h4
      simp only [retypeBound, h0]; rfl
    | flt f =>
      simp only [boundStable, Bool.and_eq_true, decide_eq_true_eq] at h
      obtain ⟨⟨⟨⟨h0, h1⟩, h2⟩, h3⟩, h4⟩ := h
      obtain rfl := isNil_eq r h2
      subst h1 h3 h4
      simp only [retypeBound, h0]; rfl
    | _ => simp only [retypeBound]
  | _ => simp only [retypeBound]

theorem retypeBoundNode_stable (n : Node) (h : boundStableNode n = true) : retypeBoundNode n = n := by
  cases n with
  | expr e => simp only [retypeBoundNode, retypeBound_stable e (by simpa [boundStableNode] using h)]
  | _ => simp only [retypeBoundNode]

theorem retype_leafStable (l : Node) (o : Op) (r : Node) (p : F64) (d : Int)
    (ho : (o = .literal || o = .wild || o = .regexp) = true) (h : leafStable l o r p d = true) :
    retype (.mk l o r p d) = .mk l o r p d := by
  cases l with
  | prim q =>
    rw [retype_leaf _ _ _ _ _ ho]
    cases q with
    | str s =>
      obtain ⟨o', _, hf⟩ := literalToExpr_str_form s
      simp only [leafStable, Bool.and_eq_true, decide_eq_true_eq] at h
      obtain ⟨⟨⟨h1, h2⟩, h3⟩, h4⟩ := h
      obtain rfl := isNil_eq r h2
      subst h3 h4
      rw [hf] at h1; simp only [Expr.op] at h1; subst h1
      simp only [retypePrim, hf]
    | col s => simp [leafStable] at h
    | int i =>
      simp only [leafStable, Bool.and_eq_true, decide_eq_true_eq] at h
      obtain ⟨⟨⟨h1, h2⟩, h3⟩, h4⟩ := h
      obtain rfl := isNil_eq r h2
      subst h1 h3 h4
      rfl
    | flt f =>
      simp only [leafStable, Bool.and_eq_true, decide_eq_true_eq, Option.isNone_iff_eq_none] at h
      obtain ⟨⟨⟨⟨h0, h1⟩, h2⟩, h3⟩, h4⟩ := h
      obtain rfl := isNil_eq r h2
      subst h1 h3 h4
      simp only [retypePrim, h0]; rfl
    | bool v =>
      simp only [leafStable, Bool.and_eq_true, decide_eq_true_eq] at h
      obtain ⟨⟨⟨h1, h2⟩, h3⟩, h4⟩ := h
      obtain rfl := isNil_eq r h2
      subst h1 h3 h4
      rfl
    | _ =>
      simp only [leafStable, Bool.and_eq_true, decide_eq_true_eq] at h
      obtain ⟨⟨⟨h1, h2⟩, h3⟩, h4⟩ := h
      obtain rfl := isNil_eq r h2
      subst h1 h3 h4
      rfl
  | nil => simp only [retype, ho, if_true]
  | expr x => simp only [retype, ho, if_true]
  | list x => simp only [retype, ho, if_true]
  | bound x y z => simp only [retype, ho, if_true]

/-- the wrapped Column is reproduced by decoding its text and wrapping it again -/
theorem wrap_litcol (l : Node) (o : Op) (h1 : isLitCol l = true) (h2 : operatesOnColumn o = true) :
    (if isStringlike (retypeNode l) && operatesOnColumn o then wrapInColumn (retypeNode l) else retypeNode l) = l := by
  unfold isLitCol at h1
  split at h1
  · rename_i s p d
    simp only [Bool.and_eq_true, decide_eq_true_eq] at h1
    obtain ⟨rfl, rfl⟩ := h1
    have := retypeNode_litcol s
    simp only [lit, mkLeaf] at this
    rw [this, stringlike_literalToExpr, h2, wrap_literalToExpr]
    simp [lit, mkLeaf]
  · exact absurd h1 Bool.false_ne_true

mutual
theorem retypeNode_stable : ∀ n : Node, kindStableNode n = true → retypeNode n = n
  | .nil, _ => by simp only [retypeNode]
  | .prim q, _ => by simp only [retypeNode]
  | .expr e, h => by
    simp only [kindStableNode] at h
    simp only [retypeNode, retype_stable e h]
  | .list es, h => by
    simp only [kindStableNode] at h
    simp only [retypeNode, retypeList_stable es h]
  | .bound mn mx incl, h => by
    simp only [kindStableNode, Bool.and_eq_true] at h
    simp only [retypeNode, retypeBoundNode_stable mn h.1, retypeBoundNode_stable mx h.2]
/-- C12, deep equality: a kind-stable tree is the tree the decoder rebuilds -/
theorem retype_stable : ∀ e : Expr, kindStable e = true → retype e = e
  | .mk l o r p d, h => by
    by_cases ho : (o = .literal || o = .wild || o = .regexp) = true
    · simp only [kindStable, ho, if_true] at h
      exact retype_leafStable l o r p d ho h
    · have ho' : (o = .literal || o = .wild || o = .regexp) = false := by simpa using ho
      simp only [kindStable, ho', Bool.false_eq_true, if_false, Bool.and_eq_true, Bool.or_eq_true,
        decide_eq_true_eq] at h
      obtain ⟨⟨⟨hl, hr⟩, hp⟩, hd⟩ := h
      rw [retype_node _ _ _ _ _ ho', retypeNode_stable r hr]
      have hleft : (if isStringlike (retypeNode l) && operatesOnColumn o then wrapInColumn (retypeNode l)
          else retypeNode l) = l := by
        rcases hl with ⟨h1, h2⟩ | ⟨h1, h2⟩
        · exact wrap_litcol l o h1 h2
        · rw [retypeNode_stable l h1]
          simp only [Bool.not_eq_true'] at h2
          simp only [h2, Bool.false_eq_true, if_false]
      rw [hleft]
      congr 1
      · rcases hp with hp | hp <;> simp [hp]
      · rcases hd with hd | hd <;> simp [hd]
theorem retypeList_stable : ∀ es : ExprList, kindStableList es = true → retypeList es = es
  | .nil, _ => by simp only [retypeList]
  | .cons e t, h => by
    simp only [kindStableList, Bool.and_eq_true] at h
    simp only [retypeList, retype_stable e h.1, retypeList_stable t h.2]
end

/-! ## 14. re-encoding gives the identical bytes -/

/-- negative zero (finding: `-0` is written `-0` and read back as the int 0) -/
def isNegZero (f : F64) : Bool := f.isZero && f.isNeg

/-- the facts about number formatting behind "re-encodes to the identical bytes" -/
structure FmtLaws : Prop where
  /-- when Atoi accepts the JSON text of a float64 other than -0, the text is the canonical decimal of that integer
      (no sign `+`, no leading zeros, no exponent, no fraction), i.e. what Itoa prints -/
  int_text_leaf : ∀ f t i, fmtJSON f = some t → atoi t = some i → isNegZero f = false → fmtInt i = t
  /-- a float64 with `float64(int(f)) == f` (so: finite, integer-valued, within int64) and `|f| < 2^53`, other than
      -0, is written by encoding/json as the decimal of that integer.  The bound is needed: beyond 2^53 the shortest
      round-tripping digits are in general not the exact integer (2^62 = 4611686018427387904 is written
      `4611686018427388000`; `Laws.int_text_bound_unbounded_false`). -/
  int_text_bound : ∀ f, F64.eq f (F64.ofInt f.toInt) = true → isNegZero f = false →
    f.toInt.natAbs < 9007199254740992 → fmtJSON f = some (fmtInt f.toInt)

def primNoNegZero : Prim → Bool
  | .flt f => !isNegZero f
  | _ => true

mutual
def noNegZeroNode : Node → Bool
  | .nil => true
  | .prim q => primNoNegZero q
  | .expr e => noNegZeroLeaf e
  | .list es => noNegZeroList es
  | .bound mn mx _ => noNegZeroNode mn && noNegZeroNode mx
/-- no float leaf (term, list element or range bound) is negative zero -/
def noNegZeroLeaf : Expr → Bool
  | .mk l _ r _ _ => noNegZeroNode l && noNegZeroNode r
def noNegZeroList : ExprList → Bool
  | .nil => true
  | .cons e t => noNegZeroLeaf e && noNegZeroList t
end

/-- an integer-valued range bound survives the decoder's float64 and is written back with the same digits.
    An int bound: exactly `int(float64(i)) == i` with `float64(i)` integer-valued; true of every `|i| ≤ 2^53`.
    A float bound that the decoder turns into an int (`float64(int(f)) == f`): `|f| < 2^53` — beyond, the float is
    written with its shortest digits (`4611686018427388000` for 2^62) but the int it becomes with all its digits
    (`4611686018427387904`): `reencode_needs_noBigFloatBound`. -/
def boundIntOK : Node → Bool
  | .expr (.mk (.prim (.int i)) _ _ _ _) => decide (toIntIfNecessary (F64.ofInt i) = .int i)
  | .expr (.mk (.prim (.flt f)) _ _ _ _) =>
    !F64.eq f (F64.ofInt f.toInt) || decide (f.toInt.natAbs < 9007199254740992)
  | _ => true

mutual
def noBigIntBoundNode : Node → Bool
  | .nil => true
  | .prim _ => true
  | .expr e => noBigIntBound e
  | .list es => noBigIntBoundList es
  | .bound mn mx _ => boundIntOK mn && boundIntOK mx
/-- no integer range bound is changed by the decoder's float64 (finding: bounds beyond 2^53 are rounded) -/
def noBigIntBound : Expr → Bool
  | .mk l _ r _ _ => noBigIntBoundNode l && noBigIntBoundNode r
def noBigIntBoundList : ExprList → Bool
  | .nil => true
  | .cons e t => noBigIntBound e && noBigIntBoundList t
end

mutual
def fieldsCanonNode : Node → Bool
  | .nil => true
  | .prim _ => true
  | .expr e => fieldsCanon e
  | .list es => fieldsCanonList es
  | .bound _ _ _ => true
/-- `boost` is 1.0 except on Boost nodes and `fuzzy` is 1 except on Fuzzy nodes (the decoder reads the two members only
    there; the parser never sets them elsewhere); nothing is asked of leaves, whose two fields are not encoded -/
def fieldsCanon : Expr → Bool
  | .mk l o r p d =>
    if o = .literal || o = .wild || o = .regexp then true
    else (decide (o = .boost) || F64.eq p F64.one) && (decide (o = .fuzzy) || decide (d = 1)) &&
      fieldsCanonNode l && fieldsCanonNode r
def fieldsCanonList : ExprList → Bool
  | .nil => true
  | .cons e t => fieldsCanon e && fieldsCanonList t
end

theorem marshal_leaf (q : Prim) (o : Op) (r : Node) (p : F64) (d : Int)
    (ho : (o = .literal || o = .wild || o = .regexp) = true) :
    marshalExpr (.mk (.prim q) o r p d) = marshalNode (.prim q) := by
  rw [marshalExpr_eq, if_pos ho]

theorem marshal_literalToExpr_str (s : Bytes) : marshalExpr (literalToExpr (.prim (.str s))) = .ok (encodeString s) := by
  obtain ⟨o, ho, h⟩ := literalToExpr_str_form s
  rw [h, marshal_leaf _ _ _ _ _ ho, marshalNode]

theorem marshal_lit (q : Prim) : marshalExpr (lit (.prim q)) = marshalNode (.prim q) := by
  simp only [lit, mkLeaf]; exact marshal_leaf _ _ _ _ _ rfl

section
variable (N : NumLaws) (F : FmtLaws)
include N F

/-- a term re-encodes identically -/
theorem marshal_retypePrim (q : Prim) (hz : primNoNegZero q = true) :
    marshalExpr (retypePrim q) = marshalNode (.prim q) := by
  cases q with
  | str s => simp only [retypePrim, marshal_literalToExpr_str, marshalNode]
  | col s => simp only [retypePrim, marshal_literalToExpr_str, marshalNode]
  | int i => simp only [retypePrim, marshal_lit]
  | flt f =>
    simp only [retypePrim]
    cases hf : floatAsInt f with
    | none => simp only [marshal_lit]
    | some i =>
      simp only [marshal_lit]
      simp only [floatAsInt] at hf
      cases hj : fmtJSON f with
      | none => simp [hj] at hf
      | some t =>
        simp only [hj, Option.bind_some] at hf
        have := F.int_text_leaf f t i hj hf (by simpa [primNoNegZero] using hz)
        simp only [marshalNode, hj, this]
  | bool v => simp only [retypePrim, marshal_lit]
  | _ => simp only [retypePrim, marshal_lit]

/-- a scalar range bound re-encodes identically -/
theorem marshal_retypeBound (q : Prim) (o : Op) (r : Node) (p : F64) (d : Int)
    (ho : (o = .literal || o = .wild || o = .regexp) = true)
    (hz : primNoNegZero q = true) (hb : boundIntOK (.expr (.mk (.prim q) o r p d)) = true) :
    marshalExpr (retypeBound (.mk (.prim q) o r p d)) = marshalNode (.prim q) := by
  cases q with
  | str s => simp only [retypeBound, marshal_literalToExpr_str, marshalNode]
  | int i =>
    simp only [boundIntOK, decide_eq_true_eq] at hb
    simp only [retypeBound, hb, marshal_lit]
  | flt f =>
    simp only [retypeBound, marshal_lit]
    by_cases he : F64.eq f (F64.ofInt f.toInt) = true
    · have h1 : toIntIfNecessary f = .int f.toInt := by simp [toIntIfNecessary, he]
      rw [h1]
      have hb' : f.toInt.natAbs < 9007199254740992 := by
        simpa [boundIntOK, he] using hb
      have := F.int_text_bound f he (by simpa [primNoNegZero] using hz) hb'
      simp only [marshalNode, this]
    · have h1 : toIntIfNecessary f = .flt f := by simp [toIntIfNecessary, he]
      rw [h1]
  | col s => simp only [retypeBound]; rw [marshal_leaf _ _ _ _ _ ho]
  | bool v => simp only [retypeBound]; rw [marshal_leaf _ _ _ _ _ ho]
  | _ => simp only [retypeBound]; rw [marshal_leaf _ _ _ _ _ ho]

end

theorem powerOf_one : powerOf F64.one = .ok [] := by
  have : F64.eq F64.one F64.one = true := by decide
  simp [powerOf, this]

/-- an operator node re-encodes identically when its operands do and its `boost` / `fuzzy` are canonical -/
theorem node_marshal (l : Node) (o : Op) (r : Node) (p : F64) (d : Int)
    (ho : (o = .literal || o = .wild || o = .regexp) = false)
    (hp : (decide (o = .boost) || F64.eq p F64.one) = true) (hd : (decide (o = .fuzzy) || decide (d = 1)) = true)
    (hl : marshalNode (if isStringlike (retypeNode l) && operatesOnColumn o then wrapInColumn (retypeNode l)
      else retypeNode l) = marshalNode l)
    (hr : rightPartOf (retypeNode r) = rightPartOf r) :
    marshalExpr (retype (.mk l o r p d)) = marshalExpr (.mk l o r p d) := by
  have hp' : powerOf (if o = .boost then p else F64.one) = powerOf p := by
    by_cases hb : o = .boost
    · simp [hb]
    · simp only [hb, decide_false, Bool.false_or] at hp
      simp only [hb, if_false, powerOf_one]
      simp [powerOf, hp]
  have hd' : (if o = .fuzzy then d else 1) = d := by
    by_cases hb : o = .fuzzy
    · simp [hb]
    · simp only [hb, decide_false, Bool.false_or, decide_eq_true_eq] at hd
      simp [hb, hd]
  rw [retype_node _ _ _ _ _ ho, marshalExpr_eq, marshalExpr_eq, hl, hr, hp', hd']

theorem wrapInColumn_expr (e : Expr) : ∃ e', wrapInColumn (.expr e) = .expr e' := by
  unfold wrapInColumn
  split
  · rename_i h; cases h
  · exact ⟨_, rfl⟩
  · exact ⟨_, rfl⟩

theorem retypePrim_op (q : Prim) :
    ((retypePrim q).op = .literal || (retypePrim q).op = .wild || (retypePrim q).op = .regexp) = true := by
  cases q with
  | str s => obtain ⟨o, ho, h⟩ := literalToExpr_str_form s; simp only [retypePrim, h, Expr.op, ho]
  | col s => obtain ⟨o, ho, h⟩ := literalToExpr_str_form s; simp only [retypePrim, h, Expr.op, ho]
  | int i => rfl
  | flt f =>
    have : retypePrim (.flt f) = lit (.prim (.flt f)) ∨ ∃ i, retypePrim (.flt f) = lit (.prim (.int i)) := by
      simp only [retypePrim]
      cases floatAsInt f with
      | none => exact .inl rfl
      | some i => exact .inr ⟨i, rfl⟩
    rcases this with h | ⟨i, h⟩ <;> rw [h] <;> rfl
  | bool v => rfl
  | _ => rfl

/-- a non-leaf node of the parser shape has an expression on its left -/
theorem shape_left_expr (l : Node) (o : Op) (r : Node) (p : F64) (d : Int)
    (hs : semShapeT (.mk l o r p d) = true) (ho : (o = .literal || o = .wild || o = .regexp) = false) :
    ∃ x, l = .expr x := by
  cases l with
  | expr x => exact ⟨x, rfl⟩
  | _ =>
    exfalso
    cases o <;> first
      | (simp at ho; done)
      | (unfold semShapeT at hs; simp [semNodeT, isColField] at hs)

/-- if the decoded form of a field / operand is string-like, it is a leaf -/
theorem retype_stringlike_leaf (a : Expr) (hs : (semShapeT a || isColField (.expr a)) = true)
    (h : isStringlike (.expr (retype a)) = true) :
    ((retype a).op = .literal || (retype a).op = .wild || (retype a).op = .regexp) = true := by
  obtain ⟨l, o, r, p, d⟩ := a
  by_cases ho : (o = .literal || o = .wild || o = .regexp) = true
  · have hl : ∃ q, l = .prim q := by
      rcases Bool.or_eq_true _ _ |>.mp hs with h' | h'
      · have := termLeaf_of_shapeT_leafop _ h' (by simp only [Expr.op, Op.isLeafOp]; exact ho)
        cases l <;> simp [termLeaf] at this
        exact ⟨_, rfl⟩
      · unfold isColField at h'
        split at h'
        · rename_i heq; cases heq; exact ⟨_, rfl⟩
        · exact absurd h' Bool.false_ne_true
    obtain ⟨q, rfl⟩ := hl
    rw [retype_leaf _ _ _ _ _ ho]
    exact retypePrim_op q
  · have ho' : (o = .literal || o = .wild || o = .regexp) = false := by simpa using ho
    exfalso
    have hsh : semShapeT (.mk l o r p d) = true := by
      rcases Bool.or_eq_true _ _ |>.mp hs with h' | h'
      · exact h'
      · unfold isColField at h'
        split at h'
        · rename_i heq; cases heq; simp at ho'
        · exact absurd h' Bool.false_ne_true
    obtain ⟨x, rfl⟩ := shape_left_expr l o r p d hsh ho'
    have hrn : retypeNode (Node.expr x) = .expr (retype x) := by simp only [retypeNode]
    rw [retype_node _ _ _ _ _ ho', hrn] at h
    obtain ⟨e', he'⟩ := wrapInColumn_expr (retype x)
    by_cases hc : (isStringlike (Node.expr (retype x)) && operatesOnColumn o) = true
    · rw [if_pos hc, he'] at h; simp [isStringlike] at h
    · rw [if_neg hc] at h; simp [isStringlike] at h

/-- the left operand: re-wrapping a string-like decoded leaf as a Column does not change its text -/
theorem left_marshal (a : Expr) (o : Op) (hs : (semShapeT a || isColField (.expr a)) = true)
    (ih : marshalExpr (retype a) = marshalExpr a) :
    marshalNode (if isStringlike (retypeNode (.expr a)) && operatesOnColumn o then wrapInColumn (retypeNode (.expr a))
      else retypeNode (.expr a)) = marshalNode (.expr a) := by
  have hrn : retypeNode (Node.expr a) = .expr (retype a) := by simp only [retypeNode]
  rw [hrn]
  by_cases hc : (isStringlike (Node.expr (retype a)) && operatesOnColumn o) = true
  · rw [if_pos hc]
    simp only [Bool.and_eq_true] at hc
    have hleaf := retype_stringlike_leaf a hs hc.1
    have hsl := hc.1
    rw [marshalNode_expr, ← ih]
    generalize retype a = ra at hsl hleaf ⊢
    obtain ⟨l', o', r', p', d'⟩ := ra
    unfold isStringlike at hsl
    split at hsl
    · rename_i heq; cases heq
    · rename_i heq
      simp only [Node.expr.injEq, Expr.mk.injEq] at heq
      obtain ⟨rfl, rfl, rfl, rfl, rfl⟩ := heq
      simp only [Expr.op] at hleaf
      simp only [wrapInColumn, marshalNode_expr, marshal_lit, marshal_leaf _ _ _ _ _ hleaf, marshalNode]
    · exact absurd hsl Bool.false_ne_true
  · rw [if_neg hc, marshalNode_expr, marshalNode_expr, ih]

theorem right_marshal_expr (c : Expr) (ih : marshalExpr (retype c) = marshalExpr c) :
    rightPartOf (retypeNode (.expr c)) = rightPartOf (.expr c) := by
  simp only [retypeNode, rightPartOf, marshalNode_expr, ih]

section
variable (N : NumLaws) (F : FmtLaws)
include N F

theorem termLeaf_marshal (e : Expr) (ht : termLeaf e = true) (hz : noNegZeroLeaf e = true) :
    marshalExpr (retype e) = marshalExpr e := by
  obtain ⟨l, o, r, p, d⟩ := e
  cases l with
  | prim q =>
    have ho : (o = .literal || o = .wild || o = .regexp) = true := by
      cases r <;> simp [termLeaf] at ht
      cases q <;> simp_all [Op.isLeafOp]
    rw [retype_leaf _ _ _ _ _ ho, marshal_leaf _ _ _ _ _ ho]
    exact marshal_retypePrim N F q (by simp only [noNegZeroLeaf, noNegZeroNode, Bool.and_eq_true] at hz; exact hz.1)
  | _ => simp [termLeaf] at ht

theorem colField_marshal (a : Expr) (hc : isColField (.expr a) = true) : marshalExpr (retype a) = marshalExpr a := by
  unfold isColField at hc
  split at hc
  · rename_i heq
    simp only [Node.expr.injEq] at heq; subst heq
    rw [retype_leaf _ _ _ _ _ rfl, marshal_leaf _ _ _ _ _ rfl]
    exact marshal_retypePrim N F _ rfl
  · exact absurd hc Bool.false_ne_true

theorem field_marshal (a : Expr) (hf : (semShapeT a || isColField (.expr a)) = true)
    (ih : semShapeT a = true → marshalExpr (retype a) = marshalExpr a) : marshalExpr (retype a) = marshalExpr a := by
  by_cases hs : semShapeT a = true
  · exact ih hs
  · rcases Bool.or_eq_true _ _ |>.mp hf with h' | h'
    · exact absurd h' hs
    · exact colField_marshal N F a h'

theorem list_marshal : ∀ es : ExprList, allTermLit es = true → noNegZeroList es = true →
    marshalList (retypeList es) = marshalList es
  | .nil, _, _ => by simp only [retypeList]
  | .cons e t, ht, hz => by
    simp only [allTermLit, Bool.and_eq_true] at ht
    simp only [noNegZeroList, Bool.and_eq_true] at hz
    simp only [retypeList, marshalList, termLeaf_marshal N F e ht.1.1 hz.1, list_marshal t ht.2 hz.2]

theorem bound_marshal (lo hi : Expr) (incl : Bool) (hlo : termLeaf lo = true) (hhi : termLeaf hi = true)
    (hzl : noNegZeroLeaf lo = true) (hzh : noNegZeroLeaf hi = true)
    (hbl : boundIntOK (.expr lo) = true) (hbh : boundIntOK (.expr hi) = true) :
    rightPartOf (retypeNode (.bound (.expr lo) (.expr hi) incl)) = rightPartOf (.bound (.expr lo) (.expr hi) incl) := by
  have one : ∀ e : Expr, termLeaf e = true → noNegZeroLeaf e = true → boundIntOK (.expr e) = true →
      marshalExpr (retypeBound e) = marshalExpr e := by
    intro e ht hz hb
    obtain ⟨l, o, r, p, d⟩ := e
    cases l with
    | prim q =>
      have ho : (o = .literal || o = .wild || o = .regexp) = true := by
        cases r <;> simp [termLeaf] at ht
        cases q <;> simp_all [Op.isLeafOp]
      rw [marshal_leaf _ _ _ _ _ ho]
      exact marshal_retypeBound N F q o r p d ho
        (by simp only [noNegZeroLeaf, noNegZeroNode, Bool.and_eq_true] at hz; exact hz.1) hb
    | _ => simp [termLeaf] at ht
  simp only [retypeNode, retypeBoundNode, rightPartOf, marshalNode, marshalNode_expr, one lo hlo hzl hbl,
    one hi hhi hzh hbh]

end

theorem fieldsCanon_node (l : Node) (o : Op) (r : Node) (p : F64) (d : Int)
    (ho : (o = .literal || o = .wild || o = .regexp) = false) (hc : fieldsCanon (.mk l o r p d) = true) :
    (decide (o = .boost) || F64.eq p F64.one) = true ∧ (decide (o = .fuzzy) || decide (d = 1)) = true ∧
      fieldsCanonNode l = true ∧ fieldsCanonNode r = true := by
  simp only [fieldsCanon, ho, Bool.false_eq_true, if_false, Bool.and_eq_true] at hc
  exact ⟨hc.1.1.1, hc.1.1.2, hc.1.2, hc.2⟩

theorem rightPart_nil : rightPartOf (retypeNode .nil) = rightPartOf .nil := by simp only [retypeNode]

section
variable (N : NumLaws) (F : FmtLaws)
include N F

/-- the induction for "re-encodes to the identical bytes" -/
theorem marshal_retype : ∀ e : Expr, semShapeT e = true → validateExpr e = true → fieldsCanon e = true →
    noNegZeroLeaf e = true → noBigIntBound e = true → marshalExpr (retype e) = marshalExpr e
  | .mk l o r p d, hs, hv, hc, hz, hb => by
    obtain ⟨hop, hvl, hvr⟩ := validate_top l o r p d hv
    have hz0 := hz
    simp only [noNegZeroLeaf, Bool.and_eq_true] at hz
    simp only [noBigIntBound, Bool.and_eq_true] at hb
    obtain ⟨hzl, hzr⟩ := hz
    obtain ⟨hbl, hbr⟩ := hb
    cases o with
    | undefined => simp [semShapeT] at hs
    | list => simp [semShapeT] at hs
    | literal => simp only [semShapeT] at hs; exact termLeaf_marshal N F _ hs hz0
    | wild => simp only [semShapeT] at hs; exact termLeaf_marshal N F _ hs hz0
    | regexp => simp only [semShapeT] at hs; exact termLeaf_marshal N F _ hs hz0
    | and =>
      obtain ⟨hp, hd, hcl, hcr⟩ := fieldsCanon_node l _ r p d rfl hc
      simp only [semShapeT, Bool.and_eq_true] at hs
      obtain ⟨a, rfl, hsa⟩ := semNodeT_expr l hs.1
      obtain ⟨c, rfl, hsc⟩ := semNodeT_expr r hs.2
      simp only [validateNode] at hvl hvr
      simp only [fieldsCanonNode] at hcl hcr
      simp only [noNegZeroNode] at hzl hzr
      simp only [noBigIntBoundNode] at hbl hbr
      exact node_marshal _ _ _ _ _ rfl hp hd
        (left_marshal a _ (by simp [hsa]) (marshal_retype a hsa hvl hcl hzl hbl))
        (right_marshal_expr c (marshal_retype c hsc hvr hcr hzr hbr))
    | or =>
      obtain ⟨hp, hd, hcl, hcr⟩ := fieldsCanon_node l _ r p d rfl hc
      simp only [semShapeT, Bool.and_eq_true] at hs
      obtain ⟨a, rfl, hsa⟩ := semNodeT_expr l hs.1
      obtain ⟨c, rfl, hsc⟩ := semNodeT_expr r hs.2
      simp only [validateNode] at hvl hvr
      simp only [fieldsCanonNode] at hcl hcr
      simp only [noNegZeroNode] at hzl hzr
      simp only [noBigIntBoundNode] at hbl hbr
      exact node_marshal _ _ _ _ _ rfl hp hd
        (left_marshal a _ (by simp [hsa]) (marshal_retype a hsa hvl hcl hzl hbl))
        (right_marshal_expr c (marshal_retype c hsc hvr hcr hzr hbr))
    | equals =>
      obtain ⟨hp, hd, hcl, hcr⟩ := fieldsCanon_node l _ r p d rfl hc
      simp only [semShapeT, Bool.and_eq_true] at hs
      obtain ⟨a, rfl, hfa⟩ := field_expr l hs.1
      obtain ⟨c, rfl, hsc⟩ := semNodeT_expr r hs.2
      simp only [validateNode] at hvl hvr
      simp only [fieldsCanonNode] at hcl hcr
      simp only [noNegZeroNode] at hzl hzr
      simp only [noBigIntBoundNode] at hbl hbr
      exact node_marshal _ _ _ _ _ rfl hp hd
        (left_marshal a _ hfa (field_marshal N F a hfa (fun hs' => marshal_retype a hs' hvl hcl hzl hbl)))
        (right_marshal_expr c (marshal_retype c hsc hvr hcr hzr hbr))
    | greater =>
      obtain ⟨hp, hd, hcl, hcr⟩ := fieldsCanon_node l _ r p d rfl hc
      simp only [semShapeT, Bool.and_eq_true] at hs
      obtain ⟨a, rfl, hfa⟩ := field_expr l hs.1
      obtain ⟨c, rfl, hsc⟩ := semNodeT_expr r hs.2
      simp only [validateNode] at hvl hvr
      simp only [fieldsCanonNode] at hcl hcr
      simp only [noNegZeroNode] at hzl hzr
      simp only [noBigIntBoundNode] at hbl hbr
      exact node_marshal _ _ _ _ _ rfl hp hd
        (left_marshal a _ hfa (field_marshal N F a hfa (fun hs' => marshal_retype a hs' hvl hcl hzl hbl)))
        (right_marshal_expr c (marshal_retype c hsc hvr hcr hzr hbr))
    | less =>
      obtain ⟨hp, hd, hcl, hcr⟩ := fieldsCanon_node l _ r p d rfl hc
      simp only [semShapeT, Bool.and_eq_true] at hs
      obtain ⟨a, rfl, hfa⟩ := field_expr l hs.1
      obtain ⟨c, rfl, hsc⟩ := semNodeT_expr r hs.2
      simp only [validateNode] at hvl hvr
      simp only [fieldsCanonNode] at hcl hcr
      simp only [noNegZeroNode] at hzl hzr
      simp only [noBigIntBoundNode] at hbl hbr
      exact node_marshal _ _ _ _ _ rfl hp hd
        (left_marshal a _ hfa (field_marshal N F a hfa (fun hs' => marshal_retype a hs' hvl hcl hzl hbl)))
        (right_marshal_expr c (marshal_retype c hsc hvr hcr hzr hbr))
    | greaterEq =>
      obtain ⟨hp, hd, hcl, hcr⟩ := fieldsCanon_node l _ r p d rfl hc
      simp only [semShapeT, Bool.and_eq_true] at hs
      obtain ⟨a, rfl, hfa⟩ := field_expr l hs.1
      obtain ⟨c, rfl, hsc⟩ := semNodeT_expr r hs.2
      simp only [validateNode] at hvl hvr
      simp only [fieldsCanonNode] at hcl hcr
      simp only [noNegZeroNode] at hzl hzr
      simp only [noBigIntBoundNode] at hbl hbr
      exact node_marshal _ _ _ _ _ rfl hp hd
        (left_marshal a _ hfa (field_marshal N F a hfa (fun hs' => marshal_retype a hs' hvl hcl hzl hbl)))
        (right_marshal_expr c (marshal_retype c hsc hvr hcr hzr hbr))
    | lessEq =>
      obtain ⟨hp, hd, hcl, hcr⟩ := fieldsCanon_node l _ r p d rfl hc
      simp only [semShapeT, Bool.and_eq_true] at hs
      obtain ⟨a, rfl, hfa⟩ := field_expr l hs.1
      obtain ⟨c, rfl, hsc⟩ := semNodeT_expr r hs.2
      simp only [validateNode] at hvl hvr
      simp only [fieldsCanonNode] at hcl hcr
      simp only [noNegZeroNode] at hzl hzr
      simp only [noBigIntBoundNode] at hbl hbr
      exact node_marshal _ _ _ _ _ rfl hp hd
        (left_marshal a _ hfa (field_marshal N F a hfa (fun hs' => marshal_retype a hs' hvl hcl hzl hbl)))
        (right_marshal_expr c (marshal_retype c hsc hvr hcr hzr hbr))
    | not =>
      obtain ⟨hp, hd, hcl, hcr⟩ := fieldsCanon_node l _ r p d rfl hc
      simp only [semShapeT, Bool.and_eq_true] at hs
      obtain ⟨a, rfl, hsa⟩ := semNodeT_expr l hs.1
      obtain rfl := isNil_eq r hs.2
      simp only [validateNode] at hvl
      simp only [fieldsCanonNode] at hcl
      simp only [noNegZeroNode] at hzl
      simp only [noBigIntBoundNode] at hbl
      exact node_marshal _ _ _ _ _ rfl hp hd
        (left_marshal a _ (by simp [hsa]) (marshal_retype a hsa hvl hcl hzl hbl)) rightPart_nil
    | must =>
      obtain ⟨hp, hd, hcl, hcr⟩ := fieldsCanon_node l _ r p d rfl hc
      simp only [semShapeT, Bool.and_eq_true] at hs
      obtain ⟨a, rfl, hsa⟩ := semNodeT_expr l hs.1
      obtain rfl := isNil_eq r hs.2
      simp only [validateNode] at hvl
      simp only [fieldsCanonNode] at hcl
      simp only [noNegZeroNode] at hzl
      simp only [noBigIntBoundNode] at hbl
      exact node_marshal _ _ _ _ _ rfl hp hd
        (left_marshal a _ (by simp [hsa]) (marshal_retype a hsa hvl hcl hzl hbl)) rightPart_nil
    | mustNot =>
      obtain ⟨hp, hd, hcl, hcr⟩ := fieldsCanon_node l _ r p d rfl hc
      simp only [semShapeT, Bool.and_eq_true] at hs
      obtain ⟨a, rfl, hsa⟩ := semNodeT_expr l hs.1
      obtain rfl := isNil_eq r hs.2
      simp only [validateNode] at hvl
      simp only [fieldsCanonNode] at hcl
      simp only [noNegZeroNode] at hzl
      simp only [noBigIntBoundNode] at hbl
      exact node_marshal _ _ _ _ _ rfl hp hd
        (left_marshal a _ (by simp [hsa]) (marshal_retype a hsa hvl hcl hzl hbl)) rightPart_nil
    | boost =>
      obtain ⟨hp, hd, hcl, hcr⟩ := fieldsCanon_node l _ r p d rfl hc
      simp only [semShapeT, Bool.and_eq_true] at hs
      obtain ⟨a, rfl, hsa⟩ := semNodeT_expr l hs.1
      obtain rfl := isNil_eq r hs.2
      simp only [validateNode] at hvl
      simp only [fieldsCanonNode] at hcl
      simp only [noNegZeroNode] at hzl
      simp only [noBigIntBoundNode] at hbl
      exact node_marshal _ _ _ _ _ rfl hp hd
        (left_marshal a _ (by simp [hsa]) (marshal_retype a hsa hvl hcl hzl hbl)) rightPart_nil
    | fuzzy =>
      obtain ⟨hp, hd, hcl, hcr⟩ := fieldsCanon_node l _ r p d rfl hc
      simp only [semShapeT, Bool.and_eq_true] at hs
      obtain ⟨a, rfl, hsa⟩ := semNodeT_expr l hs.1
      obtain rfl := isNil_eq r hs.2
      simp only [validateNode] at hvl
      simp only [fieldsCanonNode] at hcl
      simp only [noNegZeroNode] at hzl
      simp only [noBigIntBoundNode] at hbl
      exact node_marshal _ _ _ _ _ rfl hp hd
        (left_marshal a _ (by simp [hsa]) (marshal_retype a hsa hvl hcl hzl hbl)) rightPart_nil
    | like =>
      obtain ⟨hp, hd, hcl, hcr⟩ := fieldsCanon_node l _ r p d rfl hc
      simp only [semShapeT, Bool.and_eq_true] at hs
      obtain ⟨a, rfl, hfa⟩ := field_expr l hs.1
      cases r <;> simp at hs
      rename_i re
      simp only [validateNode] at hvl
      simp only [fieldsCanonNode] at hcl
      simp only [noNegZeroNode] at hzl hzr
      simp only [noBigIntBoundNode] at hbl
      exact node_marshal _ _ _ _ _ rfl hp hd
        (left_marshal a _ hfa (field_marshal N F a hfa (fun hs' => marshal_retype a hs' hvl hcl hzl hbl)))
        (right_marshal_expr re (termLeaf_marshal N F re hs.2.1 hzr))
    | in_ =>
      obtain ⟨hp, hd, hcl, hcr⟩ := fieldsCanon_node l _ r p d rfl hc
      simp only [semShapeT, Bool.and_eq_true] at hs
      obtain ⟨a, rfl, hfa⟩ := field_expr l hs.1
      simp only [validateNode] at hvl
      simp only [fieldsCanonNode] at hcl
      simp only [noNegZeroNode] at hzl
      simp only [noBigIntBoundNode] at hbl
      obtain ⟨hs1, hs2⟩ := hs
      split at hs2
      · rename_i es p' d'
        simp only [Bool.and_eq_true] at hs2
        simp only [fieldsCanonNode] at hcr
        obtain ⟨hp', hd', _, _⟩ := fieldsCanon_node _ _ _ p' d' rfl hcr
        simp only [noNegZeroNode, noNegZeroLeaf, Bool.and_eq_true] at hzr
        have hlist : marshalExpr (retype (.mk (.list es) .list .nil p' d')) = marshalExpr (.mk (.list es) .list .nil p' d') := by
          refine node_marshal _ _ _ _ _ rfl hp' hd' ?_ rightPart_nil
          have hrn : retypeNode (Node.list es) = .list (retypeList es) := by simp only [retypeNode]
          rw [hrn]
          have : (isStringlike (Node.list (retypeList es)) && operatesOnColumn .list) = false := by simp [isStringlike]
          rw [if_neg (by simp [this])]
          simp only [marshalNode, list_marshal N F es hs2.1 hzr.1]
        exact node_marshal _ _ _ _ _ rfl hp hd
          (left_marshal a _ hfa (field_marshal N F a hfa (fun hs' => marshal_retype a hs' hvl hcl hzl hbl)))
          (right_marshal_expr _ hlist)
      · exact absurd hs2 Bool.false_ne_true
    | range =>
      obtain ⟨hp, hd, hcl, hcr⟩ := fieldsCanon_node l _ r p d rfl hc
      cases r with
      | bound mn mx incl =>
        unfold semShapeT at hs
        simp only [Bool.and_eq_true] at hs
        obtain ⟨a, rfl, hfa⟩ := field_expr l hs.1
        simp only [validateNode] at hvl
        simp only [fieldsCanonNode] at hcl
        simp only [noNegZeroNode] at hzl
        simp only [noBigIntBoundNode] at hbl
        cases mn with
        | expr lo =>
          cases mx with
          | expr hi =>
            simp only [Bool.and_eq_true] at hs
            simp only [noNegZeroNode, Bool.and_eq_true] at hzr
            simp only [noBigIntBoundNode, Bool.and_eq_true] at hbr
            have hlit : isLiteralExpr (.expr lo) = true ∧ isLiteralExpr (.expr hi) = true := by
              simp [validateOp, Expr.op, Expr.left, Expr.right] at hop
              exact ⟨hop.2.1.2, hop.2.2⟩
            have hlo : termLeaf lo = true := by
              obtain ⟨ll, lo', lr, lp, ld⟩ := lo
              have h1 := hlit.1
              simp [isLiteralExpr] at h1
              exact termLeaf_of_shapeT_leafop _ hs.2.1 (by rcases h1.1 with (h' | h') | h' <;> subst h' <;> rfl)
            have hhi : termLeaf hi = true := by
              obtain ⟨ll, lo', lr, lp, ld⟩ := hi
              have h1 := hlit.2
              simp [isLiteralExpr] at h1
              exact termLeaf_of_shapeT_leafop _ hs.2.2 (by rcases h1.1 with (h' | h') | h' <;> subst h' <;> rfl)
            exact node_marshal _ _ _ _ _ rfl hp hd
              (left_marshal a _ hfa (field_marshal N F a hfa (fun hs' => marshal_retype a hs' hvl hcl hzl hbl)))
              (bound_marshal N F lo hi incl hlo hhi hzr.1 hzr.2 hbr.1 hbr.2)
          | _ => simp at hs
        | _ => simp at hs
      | _ => unfold semShapeT at hs; simp at hs

end


/-! ## 15. the theorems -/

section
variable (J : JsonLaws) (N : NumLaws)
include J N

/-- C12 (1), as stated: decoding succeeds and the decoded expression is `retype e` -/
theorem roundtrip_decodes' (e : Expr) (hs : semShapeT e = true) (hv : validateExpr e = true)
    (hsv : allStringsValid e = true) (hi : intsInt64 e = true) (hdp : depthOK e = true)
    (j : Bytes) (h : marshalExpr e = .ok j) :
    ∃ e', unmarshalTop j = .ok e' ∧ e' = retype e :=
  ⟨retype e, roundtrip_decodes J N e hs hv hsv hi hdp j h, rfl⟩

/-- C12 (1) with the success of the encoder (C01) included: finite boost powers (`boostsFinite`) and the one numeric
    fact `marshal_ok_of_shape` needs (`fmtJSON` is defined on finite floats) -/
theorem roundtrip_total (hfin : ∀ f : F64, f.isInf = false → f.isNaN = false → (fmtJSON f).isSome = true)
    (e : Expr) (hs : semShapeT e = true) (hv : validateExpr e = true) (hb : boostsFinite e = true)
    (hsv : allStringsValid e = true) (hi : intsInt64 e = true) (hdp : depthOK e = true) :
    ∃ j, marshalExpr e = .ok j ∧ unmarshalTop j = .ok (retype e) := by
  obtain ⟨j, hj⟩ := marshal_ok_of_shape hfin e (semShape_of_semShapeT e hs) hb
  exact ⟨j, hj, roundtrip_decodes J N e hs hv hsv hi hdp j hj⟩

end

/-- C12 (2): `retype` is idempotent (every tree); it preserves the encoding (parser-shaped validated trees with
    canonical `boost`/`fuzzy` fields, outside the two findings); it is the identity on kind-stable trees (every tree) -/
theorem roundtrip_stable (N : NumLaws) (N2 : NumLaws2) (F : FmtLaws) (e : Expr) :
    retype (retype e) = retype e ∧
    (semShapeT e = true → validateExpr e = true → fieldsCanon e = true → noNegZeroLeaf e = true →
      noBigIntBound e = true → marshalExpr (retype e) = marshalExpr e) ∧
    (kindStable e = true → retype e = e) :=
  ⟨retype_idem N2 e, marshal_retype N F e, retype_stable e⟩

/-- C12, the chain: the decoded expression re-encodes to the identical bytes, and decoding those again gives the same
    expression -/
theorem roundtrip_reencode (J : JsonLaws) (N : NumLaws) (F : FmtLaws) (e : Expr) (hs : semShapeT e = true)
    (hv : validateExpr e = true) (hsv : allStringsValid e = true) (hi : intsInt64 e = true) (hdp : depthOK e = true)
    (hc : fieldsCanon e = true) (hz : noNegZeroLeaf e = true) (hb : noBigIntBound e = true)
    (j : Bytes) (h : marshalExpr e = .ok j) :
    ∃ e', unmarshalTop j = .ok e' ∧ marshalExpr e' = .ok j ∧ (kindStable e = true → e' = e) :=
  ⟨retype e, roundtrip_decodes J N e hs hv hsv hi hdp j h, by rw [marshal_retype N F e hs hv hc hz hb, h],
    retype_stable e⟩

/-! ## 16. corollary: the decoded expression validates -/

mutual
def likeKindOKNode : Node → Bool
  | .nil => true
  | .prim _ => true
  | .expr e => likeKindOK e
  | .list _ => true
  | .bound _ _ _ => true
/-- the pattern operand of every LIKE node keeps a pattern operator through the decoder: it is a string that contains
    `*` / `?` or is `/slash-delimited/` (what `literalToExpr` recognises); true of what Parse returns, which builds LIKE
    only from such tokens -/
def likeKindOK : Expr → Bool
  | .mk l o r _ _ =>
    (if o = .like then
      (match r with
       | .expr re => decide ((retype re).op = .wild) || decide ((retype re).op = .regexp)
       | _ => true)
     else true) && likeKindOKNode l && likeKindOKNode r
end

theorem validate_lit_col (s : Bytes) : validateExpr (lit (.prim (.col s))) = true := by
  simp [lit, mkLeaf, validateExpr, validateOp, validateNode, Expr.op, Expr.left, Expr.right, Node.isNil, Node.isLiteral,
    Prim.isLiteral]

theorem validate_leaf (q : Prim) (o : Op) (hq : q.isLiteral = true)
    (ho : (o = .literal || o = .wild || o = .regexp) = true) :
    validateExpr (.mk (.prim q) o .nil F64.one 1) = true := by
  have : o = .literal ∨ o = .wild ∨ o = .regexp := by simpa [or_assoc] using ho
  rcases this with rfl | rfl | rfl <;>
    simp [validateExpr, validateOp, validateNode, Expr.op, Expr.left, Expr.right, Node.isNil, Node.isLiteral, hq]

theorem retypePrim_form (q : Prim) (hq : q.isLiteral = true) :
    ∃ q' o, q'.isLiteral = true ∧ (o = .literal || o = .wild || o = .regexp) = true ∧
      retypePrim q = .mk (.prim q') o .nil F64.one 1 := by
  cases q with
  | str s => obtain ⟨o, ho, h⟩ := literalToExpr_str_form s; exact ⟨.str s, o, rfl, ho, by simp only [retypePrim, h]⟩
  | col s => obtain ⟨o, ho, h⟩ := literalToExpr_str_form s; exact ⟨.str s, o, rfl, ho, by simp only [retypePrim, h]⟩
  | int i => exact ⟨.int i, .literal, rfl, rfl, rfl⟩
  | flt f =>
    simp only [retypePrim]
    cases floatAsInt f with
    | none => exact ⟨.flt f, .literal, rfl, rfl, rfl⟩
    | some i => exact ⟨.int i, .literal, rfl, rfl, rfl⟩
  | bool v => exact ⟨.bool v, .literal, rfl, rfl, rfl⟩
  | _ => simp [Prim.isLiteral] at hq

/-- a literal expression (leaf operator over a raw literal) stays one -/
theorem isLiteralExpr_inv (n : Node) (h : isLiteralExpr n = true) :
    ∃ q o r p d, n = .expr (.mk (.prim q) o r p d) ∧ q.isLiteral = true ∧
      (o = .literal || o = .wild || o = .regexp) = true := by
  cases n with
  | expr e =>
    obtain ⟨l, o, r, p, d⟩ := e
    simp only [isLiteralExpr, Bool.and_eq_true] at h
    cases l with
    | prim q => exact ⟨q, o, r, p, d, rfl, by simpa [Node.isLiteral] using h.2, h.1⟩
    | _ => simp [Node.isLiteral] at h
  | _ => simp [isLiteralExpr] at h

theorem isLiteralExpr_leafform (q : Prim) (o : Op) (r : Node) (p : F64) (d : Int) (hq : q.isLiteral = true)
    (ho : (o = .literal || o = .wild || o = .regexp) = true) : isLiteralExpr (.expr (.mk (.prim q) o r p d)) = true := by
  simp only [isLiteralExpr, ho, Node.isLiteral, hq, Bool.and_self]

theorem isLiteralExpr_retypeNode (n : Node) (h : isLiteralExpr n = true) : isLiteralExpr (retypeNode n) = true := by
  obtain ⟨q, o, r, p, d, rfl, hq, ho⟩ := isLiteralExpr_inv n h
  have hrn : retypeNode (.expr (.mk (.prim q) o r p d)) = .expr (retypePrim q) := by
    simp only [retypeNode, retype_leaf _ _ _ _ _ ho]
  obtain ⟨q', o', hq', ho', hf⟩ := retypePrim_form q hq
  rw [hrn, hf]
  exact isLiteralExpr_leafform _ _ _ _ _ hq' ho'

theorem isLiteralExpr_wrap (n : Node) (o : Op) (h : isLiteralExpr n = true) :
    isLiteralExpr (if isStringlike n && operatesOnColumn o then wrapInColumn n else n) = true := by
  by_cases hc : (isStringlike n && operatesOnColumn o) = true
  · rw [if_pos hc]
    simp only [Bool.and_eq_true] at hc
    obtain ⟨s, hs⟩ := wrap_of_stringlike n hc.1
    rw [hs]; rfl
  · rw [if_neg hc]; exact h

theorem validateNode_wrap (n : Node) (o : Op) (h : validateNode n = true) :
    validateNode (if isStringlike n && operatesOnColumn o then wrapInColumn n else n) = true := by
  by_cases hc : (isStringlike n && operatesOnColumn o) = true
  · rw [if_pos hc]
    simp only [Bool.and_eq_true] at hc
    obtain ⟨s, hs⟩ := wrap_of_stringlike n hc.1
    rw [hs]; simp only [validateNode]; exact validate_lit_col s
  · rw [if_neg hc]; exact h

theorem isNil_retypeNode (n : Node) : (retypeNode n).isNil = n.isNil := by
  cases n <;> simp only [retypeNode, Node.isNil]

theorem isNil_wrap (n : Node) (o : Op) :
    (if isStringlike n && operatesOnColumn o then wrapInColumn n else n).isNil = n.isNil := by
  by_cases hc : (isStringlike n && operatesOnColumn o) = true
  · rw [if_pos hc]
    simp only [Bool.and_eq_true] at hc
    obtain ⟨s, hs⟩ := wrap_of_stringlike n hc.1
    rw [hs]
    cases n <;> simp [isStringlike, Node.isNil] at hc ⊢
  · rw [if_neg hc]

theorem retype_op (l : Node) (o : Op) (r : Node) (p : F64) (d : Int)
    (ho : (o = .literal || o = .wild || o = .regexp) = false) : (retype (.mk l o r p d)).op = o := by
  rw [retype_node _ _ _ _ _ ho]; rfl

/-- a literal range bound stays a non-nil literal expression -/
theorem isLiteralExpr_retypeBoundNode (n : Node) (h : isLiteralExpr n = true) :
    isLiteralExpr (retypeBoundNode n) = true ∧ (retypeBoundNode n).isNil = false := by
  obtain ⟨q, o, r, p, d, rfl, hq, ho⟩ := isLiteralExpr_inv n h
  refine ⟨?_, rfl⟩
  simp only [retypeBoundNode]
  cases q with
  | str s =>
    obtain ⟨o', ho', hf⟩ := literalToExpr_str_form s
    simp only [retypeBound, hf]; exact isLiteralExpr_leafform _ _ _ _ _ rfl ho'
  | int i =>
    simp only [retypeBound, lit, mkLeaf]
    refine isLiteralExpr_leafform _ _ _ _ _ ?_ rfl
    unfold toIntIfNecessary; simp only []; split <;> rfl
  | flt f =>
    simp only [retypeBound, lit, mkLeaf]
    refine isLiteralExpr_leafform _ _ _ _ _ ?_ rfl
    unfold toIntIfNecessary; simp only []; split <;> rfl
  | col s => simp only [retypeBound]; exact isLiteralExpr_leafform _ _ _ _ _ hq ho
  | bool v => simp only [retypeBound]; exact isLiteralExpr_leafform _ _ _ _ _ hq ho
  | _ => simp [Prim.isLiteral] at hq

theorem allLiteralExprs_retype : ∀ es : ExprList, es.allLiteralExprs = true → (retypeList es).allLiteralExprs = true
  | .nil, _ => by simp only [retypeList, ExprList.allLiteralExprs]
  | .cons e t, h => by
    simp only [ExprList.allLiteralExprs, Bool.and_eq_true] at h
    have h1 := isLiteralExpr_retypeNode (.expr e) h.1
    simp only [retypeNode] at h1
    simp only [retypeList, ExprList.allLiteralExprs, h1, allLiteralExprs_retype t h.2, Bool.and_self]

theorem validateExpr_of_parts (l : Node) (o : Op) (r : Node) (p : F64) (d : Int)
    (h1 : validateOp (.mk l o r p d) = some true) (h2 : validateNode l = true) (h3 : validateNode r = true) :
    validateExpr (.mk l o r p d) = true := by
  simp only [validateExpr, h1, h2, h3, Bool.and_self]

theorem validateOp_like (l r : Node) (p : F64) (d : Int) :
    validateOp (.mk l .like r p d) = some (!l.isNil && isLiteralExpr l && !r.isNil &&
      (match r with
       | .expr re => decide (re.op = .wild) || decide (re.op = .regexp)
       | _ => false)) := rfl

theorem validateOp_in (l r : Node) (p : F64) (d : Int) :
    validateOp (.mk l .in_ r p d) = some (!l.isNil && isLiteralExpr l && !r.isNil &&
      (match r with
       | .expr re => decide (re.op = .list)
       | _ => false)) := rfl

theorem validateOp_list (l r : Node) (p : F64) (d : Int) :
    validateOp (.mk l .list r p d) = some (!l.isNil && r.isNil &&
      (match l with
       | .list es => es.allLiteralExprs
       | _ => false)) := rfl

theorem validateOp_range (l r : Node) (p : F64) (d : Int) :
    validateOp (.mk l .range r p d) = some (!l.isNil && !r.isNil && isLiteralExpr l &&
      (match r with
       | .bound mn mx _ => !mn.isNil && !mx.isNil && isLiteralExpr mn && isLiteralExpr mx
       | _ => false)) := rfl

mutual
theorem validateNode_retype : ∀ n : Node, validateNode n = true → likeKindOKNode n = true →
    validateNode (retypeNode n) = true
  | .nil, _, _ => by simp only [retypeNode, validateNode]
  | .prim q, _, _ => by simp only [retypeNode, validateNode]
  | .expr e, hv, hk => by
    simp only [validateNode] at hv
    simp only [likeKindOKNode] at hk
    simp only [retypeNode, validateNode]
    exact validate_retype e hv hk
  | .list es, _, _ => by simp only [retypeNode, validateNode]
  | .bound mn mx incl, _, _ => by simp only [retypeNode, validateNode]
/-- C12 (3): the decoded expression validates (every validated tree whose LIKE patterns are patterns) -/
theorem validate_retype : ∀ e : Expr, validateExpr e = true → likeKindOK e = true → validateExpr (retype e) = true
  | .mk l o r p d, hv, hk => by
    obtain ⟨hop, hvl, hvr⟩ := validate_top l o r p d hv
    by_cases ho : (o = .literal || o = .wild || o = .regexp) = true
    · have hl : ∃ q, l = .prim q ∧ q.isLiteral = true := by
        have : o = .literal ∨ o = .wild ∨ o = .regexp := by simpa [or_assoc] using ho
        rcases this with rfl | rfl | rfl <;>
          (simp [validateOp, Expr.op, Expr.left, Expr.right] at hop
           cases l <;> simp [Node.isLiteral] at hop
           exact ⟨_, rfl, hop.2⟩)
      obtain ⟨q, rfl, hq⟩ := hl
      obtain ⟨q', o', hq', ho', hf⟩ := retypePrim_form q hq
      rw [retype_leaf _ _ _ _ _ ho, hf]
      exact validate_leaf q' o' hq' ho'
    · have ho' : (o = .literal || o = .wild || o = .regexp) = false := by simpa using ho
      simp only [likeKindOK, Bool.and_eq_true] at hk
      obtain ⟨⟨hlike, hkl⟩, hkr⟩ := hk
      have hW := validateNode_wrap _ o (validateNode_retype l hvl hkl)
      have hR := validateNode_retype r hvr hkr
      have hWnil := (isNil_wrap (retypeNode l) o).trans (isNil_retypeNode l)
      have hRnil := isNil_retypeNode r
      have hWlit : isLiteralExpr l = true → isLiteralExpr (if isStringlike (retypeNode l) && operatesOnColumn o then
          wrapInColumn (retypeNode l) else retypeNode l) = true :=
        fun h => isLiteralExpr_wrap _ o (isLiteralExpr_retypeNode l h)
      rw [retype_node _ _ _ _ _ ho']
      generalize hWd : (if isStringlike (retypeNode l) && operatesOnColumn o then wrapInColumn (retypeNode l)
        else retypeNode l) = W at hW hWnil hWlit ⊢
      refine validateExpr_of_parts _ _ _ _ _ ?_ hW hR
      cases o with
      | undefined => simp [validateOp, Expr.op] at hop
      | literal => simp at ho'
      | wild => simp at ho'
      | regexp => simp at ho'
      | and =>
        simp [validateOp, Expr.op, Expr.left, Expr.right] at hop ⊢
        simp [hWnil, hRnil, hop]
      | or =>
        simp [validateOp, Expr.op, Expr.left, Expr.right] at hop ⊢
        simp [hWnil, hRnil, hop]
      | not =>
        simp [validateOp, Expr.op, Expr.left, Expr.right] at hop ⊢
        simp [hWnil, hRnil, hop]
      | must =>
        simp [validateOp, Expr.op, Expr.left, Expr.right] at hop ⊢
        simp [hWnil, hRnil, hop]
      | mustNot =>
        simp [validateOp, Expr.op, Expr.left, Expr.right] at hop ⊢
        simp [hWnil, hRnil, hop]
      | boost =>
        simp [validateOp, Expr.op, Expr.left, Expr.right] at hop ⊢
        simp [hWnil, hRnil, hop]
      | fuzzy =>
        simp [validateOp, Expr.op, Expr.left, Expr.right] at hop ⊢
        simp [hWnil, hRnil, hop]
      | equals =>
        simp [validateOp, Expr.op, Expr.left, Expr.right] at hop ⊢
        exact hWlit hop
      | greater =>
        simp [validateOp, Expr.op, Expr.left, Expr.right] at hop ⊢
        exact hWlit hop
      | less =>
        simp [validateOp, Expr.op, Expr.left, Expr.right] at hop ⊢
        exact hWlit hop
      | greaterEq =>
        simp [validateOp, Expr.op, Expr.left, Expr.right] at hop ⊢
        exact hWlit hop
      | lessEq =>
        simp [validateOp, Expr.op, Expr.left, Expr.right] at hop ⊢
        exact hWlit hop
      | like =>
        cases r with
        | expr re =>
          have hrn : retypeNode (Node.expr re) = .expr (retype re) := by simp only [retypeNode]
          rw [hrn]
          rw [validateOp_like] at hop ⊢
          simp only [Option.some.injEq, Bool.and_eq_true, Bool.not_eq_true', Bool.or_eq_true, decide_eq_true_eq] at hop ⊢
          obtain ⟨⟨⟨h1, h2⟩, _⟩, _⟩ := hop
          simp only [if_true, Bool.or_eq_true, decide_eq_true_eq] at hlike
          exact ⟨⟨⟨hWnil.trans h1, hWlit h2⟩, rfl⟩, hlike⟩
        | _ => simp [validateOp, Expr.op, Expr.left, Expr.right] at hop
      | in_ =>
        cases r with
        | expr re =>
          have hrn : retypeNode (Node.expr re) = .expr (retype re) := by simp only [retypeNode]
          rw [hrn]
          rw [validateOp_in] at hop ⊢
          simp only [Option.some.injEq, Bool.and_eq_true, Bool.not_eq_true', decide_eq_true_eq] at hop ⊢
          obtain ⟨⟨⟨h1, h2⟩, _⟩, h4⟩ := hop
          obtain ⟨rl, ro, rr, rp, rd⟩ := re
          simp only [Expr.op] at h4
          subst h4
          exact ⟨⟨⟨hWnil.trans h1, hWlit h2⟩, rfl⟩, retype_op _ _ _ _ _ rfl⟩
        | _ => simp [validateOp, Expr.op, Expr.left, Expr.right] at hop
      | list =>
        cases l with
        | list es =>
          have hrn : retypeNode (Node.list es) = .list (retypeList es) := by simp only [retypeNode]
          rw [hrn] at hWd
          have : (isStringlike (Node.list (retypeList es)) && operatesOnColumn .list) = false := by simp [isStringlike]
          rw [if_neg (by simp [this])] at hWd
          subst hWd
          rw [validateOp_list] at hop ⊢
          simp only [Option.some.injEq, Bool.and_eq_true, Bool.not_eq_true'] at hop ⊢
          obtain ⟨⟨_, h2⟩, h3⟩ := hop
          exact ⟨⟨rfl, hRnil.trans h2⟩, allLiteralExprs_retype es h3⟩
        | _ => simp [validateOp, Expr.op, Expr.left, Expr.right] at hop
      | range =>
        cases r with
        | bound mn mx incl =>
          have hrn : retypeNode (Node.bound mn mx incl) = .bound (retypeBoundNode mn) (retypeBoundNode mx) incl := by
            simp only [retypeNode]
          rw [hrn]
          rw [validateOp_range] at hop ⊢
          simp only [Option.some.injEq, Bool.and_eq_true, Bool.not_eq_true'] at hop ⊢
          obtain ⟨⟨⟨h1, _⟩, h3⟩, ⟨⟨_, _⟩, h6⟩, h7⟩ := hop
          obtain ⟨b1, b2⟩ := isLiteralExpr_retypeBoundNode mn h6
          obtain ⟨c1, c2⟩ := isLiteralExpr_retypeBoundNode mx h7
          exact ⟨⟨⟨hWnil.trans h1, rfl⟩, hWlit h3⟩, ⟨⟨b2, c2⟩, b1⟩, c1⟩
        | _ => simp [validateOp, Expr.op, Expr.left, Expr.right] at hop
end

/-! ## 17. corollary: the decoded expression prints identically

  FALSE as stated in C12 ("prints identically" for every Parse result): `cexPrint` below.  `fmt`'s `%v` prints a float64
  with the `%e` form from exponent 6 on (`1e+06`), encoding/json only from 21 on (`1000000`), so an integer-valued
  float leaf in `[1e6, 1e21)` is written as an integer, read back as an int and then printed differently.
  The strongest true variant: `printStable` asks of every float leaf that is read back as an int that `%v` prints
  both alike (integer-valued, not -0, below 1e6). -/

/-- `a:1000000.0` -/
def cexPrint : Expr :=
  .mk (.expr (lit (.prim (.col (b "a"))))) .equals (.expr (lit (.prim (.flt (F64.ofInt 1000000))))) F64.one 1

/-- the counterexample: a parser-shaped, validated tree with canonical fields, outside both recorded findings, whose
    print changes through the JSON round trip (`a:1e+06` before, `a:1000000` after) -/
theorem print_not_preserved :
    semShapeT cexPrint = true ∧ validateExpr cexPrint = true ∧ fieldsCanon cexPrint = true ∧
    noNegZeroLeaf cexPrint = true ∧ noBigIntBound cexPrint = true ∧
    strE (fun _ => true) false cexPrint = .ok (PT.ok (b "a:1e+06")) ∧
    strE (fun _ => true) false (retype cexPrint) = .ok (PT.ok (b "a:1000000")) := by decide +kernel

/-- `a LIKE b` with a Wild operand whose text has no wildcard -/
def cexLikeKind : Expr :=
  .mk (.expr (lit (.prim (.col [97])))) .like (.expr (mkLeaf (.prim (.str [98])) .wild)) F64.one 1

/-- `likeKindOK` cannot be dropped from `validate_retype` for parser-SHAPED trees (Parse itself never builds this tree) -/
theorem validate_needs_likeKind :
    semShapeT cexLikeKind = true ∧ validateExpr cexLikeKind = true ∧ validateExpr (retype cexLikeKind) = false := by
  decide +kernel

def primPrintOK : Prim → Bool
  | .flt f =>
    (match floatAsInt f with
     | some i => decide (fmtG f = fmtInt i)
     | none => true)
  | _ => true

def boundPrintOK : Node → Bool
  | .expr (.mk (.prim (.int i)) _ _ _ _) => decide (toIntIfNecessary (F64.ofInt i) = .int i)
  | .expr (.mk (.prim (.flt f)) _ _ _ _) =>
    (match toIntIfNecessary f with
     | .int j => decide (fmtG f = fmtInt j)
     | _ => true)
  | _ => true

mutual
def printStableNode : Node → Bool
  | .nil => true
  | .prim q => primPrintOK q
  | .expr e => printStable e
  | .list es => printStableList es
  | .bound mn mx _ => boundPrintOK mn && boundPrintOK mx
/-- every float leaf the decoder reads back as an int prints (`%v`) like that int; every int range bound survives
    float64 and every float bound read back as an int prints like it; and the left operand of a column operator is
    the wrapped Column or does not decode to a string leaf (Parse always wraps it) -/
def printStable : Expr → Bool
  | .mk l o r _ _ =>
    (!operatesOnColumn o || isColField l || !isStringlike (retypeNode l)) && printStableNode l && printStableNode r
def printStableList : ExprList → Bool
  | .nil => true
  | .cons e t => printStable e && printStableList t
end

section
variable (ip : Nat → Bool)

/-- the print of an operator node depends on its operands only through their `%s` prints -/
theorem strE_congr (l l' : Node) (o : Op) (r r' : Node) (p p' : F64) (d d' : Int)
    (ho : (o = .literal || o = .wild || o = .regexp || o = .range || o = .list) = false)
    (hl : fmtNode ip .s l' = fmtNode ip .s l) (hr : fmtNode ip .s r' = fmtNode ip .s r)
    (hp : o = .boost → p' = p) (hd : o = .fuzzy → d' = d) :
    strE ip false (.mk l' o r' p' d') = strE ip false (.mk l o r p d) := by
  cases o <;> simp at ho <;> simp [strE, hl, hr]
  · rw [hp rfl]
  · rw [hd rfl]

theorem strE_leaf_str (s : Bytes) (o o' : Op) (r r' : Node) (p p' : F64) (d d' : Int)
    (ho : (o = .literal || o = .wild || o = .regexp) = true) (ho' : (o' = .literal || o' = .wild || o' = .regexp) = true) :
    strE ip false (.mk (.prim (.str s)) o r p d) = strE ip false (.mk (.prim (.str s)) o' r' p' d') := by
  have h1 : o = .literal ∨ o = .wild ∨ o = .regexp := by simpa [or_assoc] using ho
  have h2 : o' = .literal ∨ o' = .wild ∨ o' = .regexp := by simpa [or_assoc] using ho'
  rcases h1 with rfl | rfl | rfl <;> rcases h2 with rfl | rfl | rfl <;> simp [strE]

theorem strE_leaf_other (q : Prim) (o : Op) (r : Node) (p : F64) (d : Int)
    (ho : (o = .literal || o = .wild || o = .regexp) = true) (hq : ∀ s, q ≠ .str s) :
    strE ip false (.mk (.prim q) o r p d) = .ok (fmtPrim ip .v q) := by
  have h1 : o = .literal ∨ o = .wild ∨ o = .regexp := by simpa [or_assoc] using ho
  rcases h1 with rfl | rfl | rfl <;> cases q <;> simp_all [strE, fmtNode]

/-- a term prints identically after the decoder -/
theorem strE_retypePrim (q : Prim) (o : Op) (r : Node) (p : F64) (d : Int)
    (ho : (o = .literal || o = .wild || o = .regexp) = true) (ht : termPrim q = true) (hk : primPrintOK q = true) :
    strE ip false (retypePrim q) = strE ip false (.mk (.prim q) o r p d) := by
  cases q with
  | str s =>
    obtain ⟨o', ho', hf⟩ := literalToExpr_str_form s
    simp only [retypePrim, hf]
    exact strE_leaf_str ip s _ _ _ _ _ _ _ _ ho' ho
  | int i =>
    rw [strE_leaf_other ip _ o r p d ho (by intro s h; cases h)]
    simp only [retypePrim, lit, mkLeaf]
    rw [strE_leaf_other ip _ _ _ _ _ rfl (by intro s h; cases h)]
  | flt f =>
    rw [strE_leaf_other ip _ o r p d ho (by intro s h; cases h)]
    simp only [retypePrim]
    simp only [primPrintOK] at hk
    cases hfi : floatAsInt f with
    | none =>
      simp only [lit, mkLeaf]
      rw [strE_leaf_other ip _ _ _ _ _ rfl (by intro s h; cases h)]
    | some i =>
      simp only [hfi, decide_eq_true_eq] at hk
      simp only [lit, mkLeaf]
      rw [strE_leaf_other ip _ _ _ _ _ rfl (by intro s h; cases h)]
      simp only [fmtPrim, hk]
  | _ => simp [termPrim] at ht

end

section
variable (ip : Nat → Bool)

theorem termLeaf_prim (e : Expr) (ht : termLeaf e = true) :
    ∃ q o p d, e = .mk (.prim q) o .nil p d ∧ (o = .literal || o = .wild || o = .regexp) = true ∧ termPrim q = true := by
  obtain ⟨l, o, r, p, d⟩ := e
  cases l with
  | prim q =>
    cases r <;> simp [termLeaf] at ht
    refine ⟨q, o, p, d, rfl, ?_, ?_⟩
    · cases q <;> simp_all [Op.isLeafOp]
    · cases q <;> simp_all [termPrim]
  | _ => simp [termLeaf] at ht

theorem listLefts_cons (v : Bool) (e : Expr) (t : ExprList) :
    listLefts ip v (.cons e t) = fmtNode ip (if v then .g else .v) e.left :: listLefts ip v t := by
  obtain ⟨l, o, r, p, d⟩ := e
  simp only [listLefts, Expr.left]

theorem left_retypePrim (q : Prim) (ht : termPrim q = true) (hk : primPrintOK q = true) :
    fmtNode ip .v (retypePrim q).left = fmtNode ip .v (.prim q) := by
  cases q with
  | str s => obtain ⟨o', _, hf⟩ := literalToExpr_str_form s; simp only [retypePrim, hf, Expr.left]
  | int i => rfl
  | flt f =>
    simp only [retypePrim]
    simp only [primPrintOK] at hk
    cases hfi : floatAsInt f with
    | none => rfl
    | some i =>
      simp only [hfi, decide_eq_true_eq] at hk
      simp only [lit, mkLeaf, Expr.left, fmtNode, fmtPrim, hk]
  | _ => simp [termPrim] at ht

theorem listLefts_retype : ∀ es : ExprList, allTermLit es = true → printStableList es = true →
    listLefts ip false (retypeList es) = listLefts ip false es
  | .nil, _, _ => by simp only [retypeList]
  | .cons e t, ht, hk => by
    simp only [allTermLit, Bool.and_eq_true] at ht
    simp only [printStableList, Bool.and_eq_true] at hk
    have ih := listLefts_retype t ht.2 hk.2
    obtain ⟨q, o, p, d, rfl, ho, htq⟩ := termLeaf_prim e ht.1.1
    have hq : primPrintOK q = true := by
      have := hk.1; simp only [printStable, printStableNode, Bool.and_eq_true] at this; exact this.1.2
    have hre : retypeList (.cons (.mk (.prim q) o .nil p d) t) = .cons (retypePrim q) (retypeList t) := by
      simp only [retypeList, retype_leaf _ _ _ _ _ ho]
    rw [hre, listLefts_cons, listLefts_cons, ih]
    simp only [Bool.false_eq_true, if_false]
    rw [left_retypePrim ip q htq hq]
    rfl

/-- a scalar range bound prints identically after the decoder's detour through `any` -/
theorem strE_retypeBound (e : Expr) (ht : termLeaf e = true) (hk : boundPrintOK (.expr e) = true) :
    strE ip false (retypeBound e) = strE ip false e := by
  obtain ⟨q, o, p, d, rfl, ho, htq⟩ := termLeaf_prim e ht
  cases q with
  | str s =>
    obtain ⟨o', ho', hf⟩ := literalToExpr_str_form s
    simp only [retypeBound, hf]
    exact strE_leaf_str ip s _ _ _ _ _ _ _ _ ho' ho
  | int i =>
    simp only [boundPrintOK, decide_eq_true_eq] at hk
    simp only [retypeBound, hk, lit, mkLeaf]
    rw [strE_leaf_other ip _ o .nil p d ho (by intro s h; cases h),
      strE_leaf_other ip _ _ _ _ _ rfl (by intro s h; cases h)]
  | flt f =>
    simp only [boundPrintOK] at hk
    simp only [retypeBound, lit, mkLeaf]
    rw [strE_leaf_other ip _ o .nil p d ho (by intro s h; cases h)]
    by_cases he : F64.eq f (F64.ofInt f.toInt) = true
    · have h1 : toIntIfNecessary f = .int f.toInt := by simp [toIntIfNecessary, he]
      rw [h1] at hk ⊢
      simp only [decide_eq_true_eq] at hk
      rw [strE_leaf_other ip _ _ _ _ _ rfl (by intro s h; cases h)]
      simp only [fmtPrim, hk]
    · have h1 : toIntIfNecessary f = .flt f := by simp [toIntIfNecessary, he]
      rw [h1]
      rw [strE_leaf_other ip _ _ _ _ _ rfl (by intro s h; cases h)]
  | _ => simp [termPrim] at htq

theorem fmtNode_expr_s (e : Expr) : fmtNode ip .s (.expr e) = outPT (strE ip false e) := by
  simp only [fmtNode]; rfl

/-- the wrapped Column of a field position prints as before -/
theorem left_print_col (a : Expr) (o : Op) (hc : isColField (.expr a) = true) (ho : operatesOnColumn o = true) :
    fmtNode ip .s (if isStringlike (retypeNode (.expr a)) && operatesOnColumn o then wrapInColumn (retypeNode (.expr a))
      else retypeNode (.expr a)) = fmtNode ip .s (.expr a) := by
  unfold isColField at hc
  split at hc
  · rename_i heq
    simp only [Node.expr.injEq] at heq; subst heq
    rename_i s p d
    have hrn : retypeNode (Node.expr (.mk (.prim (.col s)) .literal .nil p d)) = .expr (literalToExpr (.prim (.str s))) := by
      simp only [retypeNode]
      rw [retype_leaf _ .literal _ _ _ rfl]
      rfl
    rw [hrn, stringlike_literalToExpr, ho, wrap_literalToExpr]
    simp only [Bool.and_self, if_true, fmtNode_expr_s, lit, mkLeaf]
    rw [strE_leaf_other ip _ _ _ _ _ rfl (by intro s h; cases h),
      strE_leaf_other ip _ _ _ _ _ rfl (by intro s h; cases h)]
  · exact absurd hc Bool.false_ne_true

/-- a shaped left operand that is not re-wrapped prints as before -/
theorem left_print_shape (a : Expr) (o : Op)
    (hcol : (!operatesOnColumn o || isColField (.expr a) || !isStringlike (retypeNode (.expr a))) = true)
    (hnc : isColField (.expr a) = false)
    (ih : strE ip false (retype a) = strE ip false a) :
    fmtNode ip .s (if isStringlike (retypeNode (.expr a)) && operatesOnColumn o then wrapInColumn (retypeNode (.expr a))
      else retypeNode (.expr a)) = fmtNode ip .s (.expr a) := by
  have hc : (isStringlike (retypeNode (.expr a)) && operatesOnColumn o) = false := by
    simp only [hnc, Bool.or_false, Bool.or_eq_true, Bool.not_eq_true'] at hcol
    rcases hcol with h | h <;> simp [h]
  rw [if_neg (by simp [hc])]
  have hrn : retypeNode (Node.expr a) = .expr (retype a) := by simp only [retypeNode]
  rw [hrn, fmtNode_expr_s, fmtNode_expr_s, ih]

theorem colField_not_shape (a : Expr) (hs : semShapeT a = true) : isColField (.expr a) = false := by
  cases hc : isColField (.expr a) with
  | false => rfl
  | true =>
    exfalso
    unfold isColField at hc
    split at hc
    · rename_i heq
      simp only [Node.expr.injEq] at heq; subst heq
      simp [semShapeT, termLeaf] at hs
    · exact absurd hc Bool.false_ne_true

theorem left_print (a : Expr) (o : Op) (hf : (semShapeT a || isColField (.expr a)) = true)
    (hcol : (!operatesOnColumn o || isColField (.expr a) || !isStringlike (retypeNode (.expr a))) = true)
    (ho : isColField (.expr a) = true → operatesOnColumn o = true)
    (ih : semShapeT a = true → strE ip false (retype a) = strE ip false a) :
    fmtNode ip .s (if isStringlike (retypeNode (.expr a)) && operatesOnColumn o then wrapInColumn (retypeNode (.expr a))
      else retypeNode (.expr a)) = fmtNode ip .s (.expr a) := by
  by_cases hs : semShapeT a = true
  · exact left_print_shape ip a o hcol (colField_not_shape a hs) (ih hs)
  · rcases Bool.or_eq_true _ _ |>.mp hf with h' | h'
    · exact absurd h' hs
    · exact left_print_col ip a o h' (ho h')

theorem right_print (c : Expr) (ih : strE ip false (retype c) = strE ip false c) :
    fmtNode ip .s (retypeNode (.expr c)) = fmtNode ip .s (.expr c) := by
  have hrn : retypeNode (Node.expr c) = .expr (retype c) := by simp only [retypeNode]
  rw [hrn, fmtNode_expr_s, fmtNode_expr_s, ih]

theorem right_print_nil : fmtNode ip .s (retypeNode .nil) = fmtNode ip .s .nil := by simp only [retypeNode]

theorem printStable_parts (l : Node) (o : Op) (r : Node) (p : F64) (d : Int) (h : printStable (.mk l o r p d) = true) :
    (!operatesOnColumn o || isColField l || !isStringlike (retypeNode l)) = true ∧ printStableNode l = true ∧
      printStableNode r = true := by
  simp only [printStable, Bool.and_eq_true] at h
  exact ⟨h.1.1, h.1.2, h.2⟩

end

section
variable (ip : Nat → Bool)

theorem termLeaf_print (e : Expr) (ht : termLeaf e = true) (hk : printStable e = true) :
    strE ip false (retype e) = strE ip false e := by
  obtain ⟨q, o, p, d, rfl, ho, htq⟩ := termLeaf_prim e ht
  rw [retype_leaf _ _ _ _ _ ho]
  obtain ⟨_, hkl, _⟩ := printStable_parts _ _ _ _ _ hk
  exact strE_retypePrim ip q o .nil p d ho htq (by simpa [printStableNode] using hkl)

theorem listExpr_print (es : ExprList) (p d) (ht : allTermLit es = true) (hk : printStableList es = true) :
    strE ip false (retype (.mk (.list es) .list .nil p d)) = strE ip false (.mk (.list es) .list .nil p d) := by
  rw [retype_node _ _ _ _ _ rfl]
  have hrn : retypeNode (Node.list es) = .list (retypeList es) := by simp only [retypeNode]
  rw [hrn]
  have : (isStringlike (Node.list (retypeList es)) && operatesOnColumn .list) = false := by simp [isStringlike]
  rw [if_neg (by simp [this])]
  simp only [strE, listLefts_retype ip es ht hk]

theorem range_print (l l' : Node) (lo hi : Expr) (incl : Bool) (p p' : F64) (d d' : Int)
    (hl : fmtNode ip .s l' = fmtNode ip .s l)
    (hlo : strE ip false (retypeBound lo) = strE ip false lo) (hhi : strE ip false (retypeBound hi) = strE ip false hi) :
    strE ip false (.mk l' .range (retypeNode (.bound (.expr lo) (.expr hi) incl)) p' d') =
      strE ip false (.mk l .range (.bound (.expr lo) (.expr hi) incl) p d) := by
  have hrn : retypeNode (Node.bound (.expr lo) (.expr hi) incl) = .bound (.expr (retypeBound lo)) (.expr (retypeBound hi)) incl := by
    simp only [retypeNode, retypeBoundNode]
  rw [hrn]
  simp only [strE, Bool.false_eq_true, if_false, hl, fmtNode_expr_s, hlo, hhi]

/-- the induction for "prints identically" -/
theorem print_retype : ∀ e : Expr, semShapeT e = true → validateExpr e = true → printStable e = true →
    strE ip false (retype e) = strE ip false e
  | .mk l o r p d, hs, hv, hk => by
    obtain ⟨hop, hvl, hvr⟩ := validate_top l o r p d hv
    have hk0 := hk
    obtain ⟨hcol, hkl, hkr⟩ := printStable_parts _ _ _ _ _ hk
    cases o with
    | undefined => simp [semShapeT] at hs
    | list => simp [semShapeT] at hs
    | literal => simp only [semShapeT] at hs; exact termLeaf_print ip _ hs hk0
    | wild => simp only [semShapeT] at hs; exact termLeaf_print ip _ hs hk0
    | regexp => simp only [semShapeT] at hs; exact termLeaf_print ip _ hs hk0
    | and =>
      simp only [semShapeT, Bool.and_eq_true] at hs
      obtain ⟨a, rfl, hsa⟩ := semNodeT_expr l hs.1
      obtain ⟨c, rfl, hsc⟩ := semNodeT_expr r hs.2
      simp only [validateNode] at hvl hvr
      simp only [printStableNode] at hkl hkr
      rw [retype_node _ _ _ _ _ rfl]
      exact strE_congr ip _ _ _ _ _ _ _ _ _ rfl
        (left_print ip a _ (by simp [hsa]) hcol (fun h => by simp [colField_not_shape a hsa] at h)
          (fun hs' => print_retype a hs' hvl hkl))
        (right_print ip c (print_retype c hsc hvr hkr)) (by simp) (by simp)
    | or =>
      simp only [semShapeT, Bool.and_eq_true] at hs
      obtain ⟨a, rfl, hsa⟩ := semNodeT_expr l hs.1
      obtain ⟨c, rfl, hsc⟩ := semNodeT_expr r hs.2
      simp only [validateNode] at hvl hvr
      simp only [printStableNode] at hkl hkr
      rw [retype_node _ _ _ _ _ rfl]
      exact strE_congr ip _ _ _ _ _ _ _ _ _ rfl
        (left_print ip a _ (by simp [hsa]) hcol (fun h => by simp [colField_not_shape a hsa] at h)
          (fun hs' => print_retype a hs' hvl hkl))
        (right_print ip c (print_retype c hsc hvr hkr)) (by simp) (by simp)
    | equals =>
      simp only [semShapeT, Bool.and_eq_true] at hs
      obtain ⟨a, rfl, hfa⟩ := field_expr l hs.1
      obtain ⟨c, rfl, hsc⟩ := semNodeT_expr r hs.2
      simp only [validateNode] at hvl hvr
      simp only [printStableNode] at hkl hkr
      rw [retype_node _ _ _ _ _ rfl]
      exact strE_congr ip _ _ _ _ _ _ _ _ _ rfl
        (left_print ip a _ hfa hcol (fun _ => rfl) (fun hs' => print_retype a hs' hvl hkl))
        (right_print ip c (print_retype c hsc hvr hkr)) (by simp) (by simp)
    | greater =>
      simp only [semShapeT, Bool.and_eq_true] at hs
      obtain ⟨a, rfl, hfa⟩ := field_expr l hs.1
      obtain ⟨c, rfl, hsc⟩ := semNodeT_expr r hs.2
      simp only [validateNode] at hvl hvr
      simp only [printStableNode] at hkl hkr
      rw [retype_node _ _ _ _ _ rfl]
      exact strE_congr ip _ _ _ _ _ _ _ _ _ rfl
        (left_print ip a _ hfa hcol (fun _ => rfl) (fun hs' => print_retype a hs' hvl hkl))
        (right_print ip c (print_retype c hsc hvr hkr)) (by simp) (by simp)
    | less =>
      simp only [semShapeT, Bool.and_eq_true] at hs
      obtain ⟨a, rfl, hfa⟩ := field_expr l hs.1
      obtain ⟨c, rfl, hsc⟩ := semNodeT_expr r hs.2
      simp only [validateNode] at hvl hvr
      simp only [printStableNode] at hkl hkr
      rw [retype_node _ _ _ _ _ rfl]
      exact strE_congr ip _ _ _ _ _ _ _ _ _ rfl
        (left_print ip a _ hfa hcol (fun _ => rfl) (fun hs' => print_retype a hs' hvl hkl))
        (right_print ip c (print_retype c hsc hvr hkr)) (by simp) (by simp)
    | greaterEq =>
      simp only [semShapeT, Bool.and_eq_true] at hs
      obtain ⟨a, rfl, hfa⟩ := field_expr l hs.1
      obtain ⟨c, rfl, hsc⟩ := semNodeT_expr r hs.2
      simp only [validateNode] at hvl hvr
      simp only [printStableNode] at hkl hkr
      rw [retype_node _ _ _ _ _ rfl]
      exact strE_congr ip _ _ _ _ _ _ _ _ _ rfl
        (left_print ip a _ hfa hcol (fun _ => rfl) (fun hs' => print_retype a hs' hvl hkl))
        (right_print ip c (print_retype c hsc hvr hkr)) (by simp) (by simp)
    | lessEq =>
      simp only [semShapeT, Bool.and_eq_true] at hs
      obtain ⟨a, rfl, hfa⟩ := field_expr l hs.1
      obtain ⟨c, rfl, hsc⟩ := semNodeT_expr r hs.2
      simp only [validateNode] at hvl hvr
      simp only [printStableNode] at hkl hkr
      rw [retype_node _ _ _ _ _ rfl]
      exact strE_congr ip _ _ _ _ _ _ _ _ _ rfl
        (left_print ip a _ hfa hcol (fun _ => rfl) (fun hs' => print_retype a hs' hvl hkl))
        (right_print ip c (print_retype c hsc hvr hkr)) (by simp) (by simp)
    | not =>
      simp only [semShapeT, Bool.and_eq_true] at hs
      obtain ⟨a, rfl, hsa⟩ := semNodeT_expr l hs.1
      obtain rfl := isNil_eq r hs.2
      simp only [validateNode] at hvl
      simp only [printStableNode] at hkl
      rw [retype_node _ _ _ _ _ rfl]
      exact strE_congr ip _ _ _ _ _ _ _ _ _ rfl
        (left_print ip a _ (by simp [hsa]) hcol (fun h => by simp [colField_not_shape a hsa] at h)
          (fun hs' => print_retype a hs' hvl hkl))
        (right_print_nil ip) (by simp) (by simp)
    | must =>
      simp only [semShapeT, Bool.and_eq_true] at hs
      obtain ⟨a, rfl, hsa⟩ := semNodeT_expr l hs.1
      obtain rfl := isNil_eq r hs.2
      simp only [validateNode] at hvl
      simp only [printStableNode] at hkl
      rw [retype_node _ _ _ _ _ rfl]
      exact strE_congr ip _ _ _ _ _ _ _ _ _ rfl
        (left_print ip a _ (by simp [hsa]) hcol (fun h => by simp [colField_not_shape a hsa] at h)
          (fun hs' => print_retype a hs' hvl hkl))
        (right_print_nil ip) (by simp) (by simp)
    | mustNot =>
      simp only [semShapeT, Bool.and_eq_true] at hs
      obtain ⟨a, rfl, hsa⟩ := semNodeT_expr l hs.1
      obtain rfl := isNil_eq r hs.2
      simp only [validateNode] at hvl
      simp only [printStableNode] at hkl
      rw [retype_node _ _ _ _ _ rfl]
      exact strE_congr ip _ _ _ _ _ _ _ _ _ rfl
        (left_print ip a _ (by simp [hsa]) hcol (fun h => by simp [colField_not_shape a hsa] at h)
          (fun hs' => print_retype a hs' hvl hkl))
        (right_print_nil ip) (by simp) (by simp)
    | boost =>
      simp only [semShapeT, Bool.and_eq_true] at hs
      obtain ⟨a, rfl, hsa⟩ := semNodeT_expr l hs.1
      obtain rfl := isNil_eq r hs.2
      simp only [validateNode] at hvl
      simp only [printStableNode] at hkl
      rw [retype_node _ _ _ _ _ rfl]
      exact strE_congr ip _ _ _ _ _ _ _ _ _ rfl
        (left_print ip a _ (by simp [hsa]) hcol (fun h => by simp [colField_not_shape a hsa] at h)
          (fun hs' => print_retype a hs' hvl hkl))
        (right_print_nil ip) (by simp) (by simp)
    | fuzzy =>
      simp only [semShapeT, Bool.and_eq_true] at hs
      obtain ⟨a, rfl, hsa⟩ := semNodeT_expr l hs.1
      obtain rfl := isNil_eq r hs.2
      simp only [validateNode] at hvl
      simp only [printStableNode] at hkl
      rw [retype_node _ _ _ _ _ rfl]
      exact strE_congr ip _ _ _ _ _ _ _ _ _ rfl
        (left_print ip a _ (by simp [hsa]) hcol (fun h => by simp [colField_not_shape a hsa] at h)
          (fun hs' => print_retype a hs' hvl hkl))
        (right_print_nil ip) (by simp) (by simp)
    | like =>
      simp only [semShapeT, Bool.and_eq_true] at hs
      obtain ⟨a, rfl, hfa⟩ := field_expr l hs.1
      cases r <;> simp at hs
      rename_i re
      simp only [validateNode] at hvl
      simp only [printStableNode] at hkl hkr
      rw [retype_node _ _ _ _ _ rfl]
      exact strE_congr ip _ _ _ _ _ _ _ _ _ rfl
        (left_print ip a _ hfa hcol (fun _ => rfl) (fun hs' => print_retype a hs' hvl hkl))
        (right_print ip re (termLeaf_print ip re hs.2.1 hkr)) (by simp) (by simp)
    | in_ =>
      simp only [semShapeT, Bool.and_eq_true] at hs
      obtain ⟨a, rfl, hfa⟩ := field_expr l hs.1
      simp only [validateNode] at hvl
      simp only [printStableNode] at hkl
      obtain ⟨hs1, hs2⟩ := hs
      split at hs2
      · rename_i es p' d'
        simp only [Bool.and_eq_true] at hs2
        simp only [printStableNode] at hkr
        obtain ⟨_, hkes, _⟩ := printStable_parts _ _ _ _ _ hkr
        simp only [printStableNode] at hkes
        rw [retype_node _ _ _ _ _ rfl]
        exact strE_congr ip _ _ _ _ _ _ _ _ _ rfl
          (left_print ip a _ hfa hcol (fun _ => rfl) (fun hs' => print_retype a hs' hvl hkl))
          (right_print ip _ (listExpr_print ip es p' d' hs2.1 hkes)) (by simp) (by simp)
      · exact absurd hs2 Bool.false_ne_true
    | range =>
      cases r with
      | bound mn mx incl =>
        unfold semShapeT at hs
        simp only [Bool.and_eq_true] at hs
        obtain ⟨a, rfl, hfa⟩ := field_expr l hs.1
        simp only [validateNode] at hvl
        simp only [printStableNode] at hkl
        cases mn with
        | expr lo =>
          cases mx with
          | expr hi =>
            simp only [Bool.and_eq_true] at hs
            simp only [printStableNode, Bool.and_eq_true] at hkr
            have hlit : isLiteralExpr (.expr lo) = true ∧ isLiteralExpr (.expr hi) = true := by
              simp [validateOp, Expr.op, Expr.left, Expr.right] at hop
              exact ⟨hop.2.1.2, hop.2.2⟩
            have hlo : termLeaf lo = true := by
              obtain ⟨ll, lo', lr, lp, ld⟩ := lo
              have h1 := hlit.1
              simp [isLiteralExpr] at h1
              exact termLeaf_of_shapeT_leafop _ hs.2.1 (by rcases h1.1 with (h' | h') | h' <;> subst h' <;> rfl)
            have hhi : termLeaf hi = true := by
              obtain ⟨ll, lo', lr, lp, ld⟩ := hi
              have h1 := hlit.2
              simp [isLiteralExpr] at h1
              exact termLeaf_of_shapeT_leafop _ hs.2.2 (by rcases h1.1 with (h' | h') | h' <;> subst h' <;> rfl)
            rw [retype_node _ _ _ _ _ rfl]
            exact range_print ip _ _ lo hi incl _ _ _ _
              (left_print ip a _ hfa hcol (fun _ => rfl) (fun hs' => print_retype a hs' hvl hkl))
              (strE_retypeBound ip lo hlo hkr.1) (strE_retypeBound ip hi hhi hkr.2)
          | _ => simp at hs
        | _ => simp at hs
      | _ => unfold semShapeT at hs; simp at hs

end


/-! ## 18. C12 assembled, and the necessity of the exclusions -/

/-- C12 for parser-shaped trees: encoding `e` and decoding the bytes gives `e' = retype e`, which validates, re-encodes
    to the identical bytes, prints identically, and is `e` itself when `e` is kind-stable.
    Side conditions (all executable): valid UTF-8 strings, int64 ints, canonical `boost`/`fuzzy`, LIKE patterns are
    patterns, the two recorded findings (`noNegZeroLeaf`, `noBigIntBound`) and — for the print only — `printStable`
    (finding K-json-float-exp: an integer-valued float leaf in [1e6, 2^63) prints differently, `print_not_preserved`). -/
theorem roundtrip_full (J : JsonLaws) (N : NumLaws) (F : FmtLaws) (ip : Nat → Bool) (e : Expr)
    (hs : semShapeT e = true) (hv : validateExpr e = true) (hsv : allStringsValid e = true) (hi : intsInt64 e = true)
    (hdp : depthOK e = true)
    (hc : fieldsCanon e = true) (hlk : likeKindOK e = true) (hz : noNegZeroLeaf e = true) (hb : noBigIntBound e = true)
    (hp : printStable e = true) (j : Bytes) (h : marshalExpr e = .ok j) :
    ∃ e', unmarshalTop j = .ok e' ∧ e' = retype e ∧ validateExpr e' = true ∧ marshalExpr e' = .ok j ∧
      strE ip false e' = strE ip false e ∧ (kindStable e = true → e' = e) :=
  ⟨retype e, roundtrip_decodes J N e hs hv hsv hi hdp j h, rfl, validate_retype e hv hlk,
    by rw [marshal_retype N F e hs hv hc hz hb, h], print_retype ip e hs hv hp, retype_stable e⟩

/-- C12 (3) -/
theorem roundtrip_validates (e : Expr) (hv : validateExpr e = true) (hlk : likeKindOK e = true) :
    validateExpr (retype e) = true := validate_retype e hv hlk

/-- C12 (3) -/
theorem roundtrip_prints (ip : Nat → Bool) (e : Expr) (hs : semShapeT e = true) (hv : validateExpr e = true)
    (hp : printStable e = true) : strE ip false (retype e) = strE ip false e := print_retype ip e hs hv hp

/-! ### necessity (kernel-evaluated on the model) -/

/-- `a:-0.0` -/
def cexNegZero : Expr :=
  .mk (.expr (lit (.prim (.col (b "a"))))) .equals (.expr (lit (.prim (.flt F64.negZero)))) F64.one 1

/-- finding "-0": without `noNegZeroLeaf` the re-encoding differs (`-0` becomes `0`) -/
theorem reencode_needs_noNegZero :
    semShapeT cexNegZero = true ∧ validateExpr cexNegZero = true ∧ fieldsCanon cexNegZero = true ∧
    noBigIntBound cexNegZero = true ∧ noNegZeroLeaf cexNegZero = false ∧
    marshalExpr (retype cexNegZero) ≠ marshalExpr cexNegZero := by decide +kernel

/-- `a:[1 TO 9007199254740993]` -/
def cexBigBound : Expr :=
  .mk (.expr (lit (.prim (.col (b "a"))))) .range
    (.bound (.expr (lit (.prim (.int 1)))) (.expr (lit (.prim (.int 9007199254740993)))) true) F64.one 1

/-- finding "2^53": without `noBigIntBound` the re-encoding differs (the bound is rounded to 9007199254740992) -/
theorem reencode_needs_noBigIntBound :
    semShapeT cexBigBound = true ∧ validateExpr cexBigBound = true ∧ fieldsCanon cexBigBound = true ∧
    noNegZeroLeaf cexBigBound = true ∧ noBigIntBound cexBigBound = false ∧
    marshalExpr (retype cexBigBound) ≠ marshalExpr cexBigBound := by decide +kernel

/-- `a:[1 TO 4611686018427387904.0]` (the float 2^62) -/
def cexBigFloatBound : Expr :=
  .mk (.expr (lit (.prim (.col (b "a"))))) .range
    (.bound (.expr (lit (.prim (.int 1)))) (.expr (lit (.prim (.flt ⟨0x43D0000000000000⟩)))) true) F64.one 1

/-- finding "2^53", float bounds: an integer-valued FLOAT bound beyond 2^53 is written with its shortest digits
    (`4611686018427388000`), decoded into the int 4611686018427387904 and re-encoded with all the digits of that int;
    so `noBigIntBound` has to cover float bounds too -/
theorem reencode_needs_noBigFloatBound :
    semShapeT cexBigFloatBound = true ∧ validateExpr cexBigFloatBound = true ∧ fieldsCanon cexBigFloatBound = true ∧
    noNegZeroLeaf cexBigFloatBound = true ∧ noBigIntBound cexBigFloatBound = false ∧
    marshalExpr (retype cexBigFloatBound) ≠ marshalExpr cexBigFloatBound := by decide +kernel

/-- `NOT(foo)` carrying a fuzzy distance the parser never sets there -/
def cexFields : Expr := .mk (.expr (lit (.prim (.str (b "foo"))))) .not .nil F64.one 3

/-- the decoder reads `distance` / `power` only on Fuzzy / Boost nodes: without `fieldsCanon` the re-encoding differs -/
theorem reencode_needs_fieldsCanon :
    semShapeT cexFields = true ∧ validateExpr cexFields = true ∧ noNegZeroLeaf cexFields = true ∧
    noBigIntBound cexFields = true ∧ fieldsCanon cexFields = false ∧
    marshalExpr (retype cexFields) ≠ marshalExpr cexFields := by decide +kernel

/-- a quoted string containing `*`: the leaf comes back as Wild (and EQUALS is kept), so `retype e ≠ e` although the
    bytes, the print and Validate agree; this is the "quotes a string containing * or ?" clause of C12 -/
def cexQuotedStar : Expr :=
  .mk (.expr (lit (.prim (.col (b "a"))))) .equals (.expr (lit (.prim (.str (b "b*"))))) F64.one 1

theorem quoted_star_retyped :
    semShapeT cexQuotedStar = true ∧ validateExpr cexQuotedStar = true ∧ kindStable cexQuotedStar = false ∧
    (retype cexQuotedStar).right = .expr (mkLeaf (.prim (.str (b "b*"))) .wild) :=
  ⟨by decide +kernel, by decide +kernel, by decide +kernel, by rfl⟩

end JsonRoundTrip
end GoLucene

section Axioms
open GoLucene.JsonRoundTrip
#print axioms roundtrip_decodes
#print axioms roundtrip_total
#print axioms roundtrip_stable
#print axioms roundtrip_reencode
#print axioms roundtrip_validates
#print axioms roundtrip_prints
#print axioms roundtrip_full
#print axioms print_not_preserved
#print axioms validate_needs_likeKind
#print axioms reencode_needs_noNegZero
#print axioms reencode_needs_noBigIntBound
#print axioms reencode_needs_noBigFloatBound
#print axioms reencode_needs_fieldsCanon
#print axioms quoted_star_retyped
end Axioms
