import GoLucene.Model.Parser
/-
  The fuel of the implicit-AND loop always suffices.

  `reduceUntilShift isNum next fuel c` models Go's

      for !p.shouldShift(implAnd) { p.reduce() }

  with an explicit fuel argument, and `runW` calls it with `fuel = c.stack.length + 1`.  Every successful
  `reduce` strictly shrinks the stack and leaves it non-empty (`reduce_len`), so at most `c.stack.length - 1`
  reductions can succeed in a row and any fuel `> c.stack.length` is never exhausted.

  COROLLARY (in words).  With the fuel `runW` supplies, the `0 => none` branch of `reduceUntilShift` is
  unreachable: the result does not depend on the fuel as long as it exceeds the stack length
  (`reduceUntilShift_fuel_irrelevant`), it coincides with the fuel-free relational description of the loop
  (`Loop`/`LoopFails`, `reduceUntilShift_some_iff`, `reduceUntilShift_none_iff`), and it is `none` only when some
  `reduce` along the way returned `none` — which is Go's `reduce` returning an error inside the loop.  Hence the
  model's bounded loop is exactly Go's unbounded `for` loop; the fuel is a termination device only, not a
  behavioural restriction.
-/
namespace GoLucene

/-- Fuel-free description of Go's loop terminating normally: `Loop isNum next c c'` iff starting from `c`,
    repeatedly reducing while `shouldShift` is false reaches `c'`, where `shouldShift` holds. -/
inductive Loop (isNum : Bool → Ex → Bool) (next : TT) : Cfg → Cfg → Prop
  | stop {c} : shouldShift (curOf c) next = true → Loop isNum next c c
  | step {c c₁ c'} : shouldShift (curOf c) next = false → reduce isNum c = some c₁ →
      Loop isNum next c₁ c' → Loop isNum next c c'

/-- Fuel-free description of Go's loop failing: some `reduce` on the way returns `none` (Go: an error). -/
inductive LoopFails (isNum : Bool → Ex → Bool) (next : TT) : Cfg → Prop
  | fail {c} : shouldShift (curOf c) next = false → reduce isNum c = none → LoopFails isNum next c
  | step {c c₁} : shouldShift (curOf c) next = false → reduce isNum c = some c₁ →
      LoopFails isNum next c₁ → LoopFails isNum next c

theorem reduceUntilShift_succ (isNum : Bool → Ex → Bool) (next : TT) (fuel : Nat) (c : Cfg) :
    reduceUntilShift isNum next (fuel + 1) c =
      if shouldShift (curOf c) next then some c
      else match reduce isNum c with
        | none => none
        | some c' => reduceUntilShift isNum next fuel c' := by
  rw [reduceUntilShift]; rfl

/-- Any two fuels larger than the stack length give the same result. -/
theorem reduceUntilShift_fuel_irrelevant (isNum : Bool → Ex → Bool) (next : TT) :
    ∀ (fuel₁ fuel₂ : Nat) (c : Cfg), c.stack.length < fuel₁ → c.stack.length < fuel₂ →
      reduceUntilShift isNum next fuel₁ c = reduceUntilShift isNum next fuel₂ c := by
  intro fuel₁
  induction fuel₁ with
  | zero => intro _ _ h; omega
  | succ n ih =>
    intro fuel₂ c h1 h2
    cases fuel₂ with
    | zero => omega
    | succ m =>
      rw [reduceUntilShift_succ, reduceUntilShift_succ]
      cases hs : shouldShift (curOf c) next with
      | true => simp
      | false =>
        simp only [Bool.false_eq_true, if_false]
        cases hr : reduce isNum c with
        | none => rfl
        | some c₁ =>
          have hl := reduce_len isNum _ _ hr
          exact ih m c₁ (by omega) (by omega)

/-- More fuel than the stack length: the loop succeeds with `c'` iff Go's unbounded loop reaches `c'`. -/
theorem reduceUntilShift_some_iff (isNum : Bool → Ex → Bool) (next : TT) :
    ∀ (fuel : Nat) (c c' : Cfg), c.stack.length < fuel →
      (reduceUntilShift isNum next fuel c = some c' ↔ Loop isNum next c c') := by
  intro fuel
  induction fuel with
  | zero => intro _ _ h; omega
  | succ n ih =>
    intro c c' hf
    rw [reduceUntilShift_succ]
    cases hs : shouldShift (curOf c) next with
    | true =>
      simp only [if_true]
      constructor
      · intro h; cases h; exact .stop hs
      · intro h
        cases h with
        | stop _ => rfl
        | step h0 _ _ => rw [hs] at h0; cases h0
    | false =>
      simp only [Bool.false_eq_true, if_false]
      cases hr : reduce isNum c with
      | none =>
        constructor
        · intro h; cases h
        · intro h
          cases h with
          | stop h0 => rw [hs] at h0; cases h0
          | step _ h1 _ => rw [hr] at h1; cases h1
      | some c₁ =>
        have hl := reduce_len isNum _ _ hr
        have := ih c₁ c' (by omega)
        constructor
        · intro h; exact .step hs hr (this.mp h)
        · intro h
          cases h with
          | stop h0 => rw [hs] at h0; cases h0
          | step _ h1 h2 => rw [hr] at h1; cases h1; exact this.mpr h2

/-- More fuel than the stack length: the loop returns `none` iff some `reduce` on the way returned `none`;
    the `0 => none` (out of fuel) branch does not contribute. -/
theorem reduceUntilShift_none_iff (isNum : Bool → Ex → Bool) (next : TT) :
    ∀ (fuel : Nat) (c : Cfg), c.stack.length < fuel →
      (reduceUntilShift isNum next fuel c = none ↔ LoopFails isNum next c) := by
  intro fuel
  induction fuel with
  | zero => intro _ h; omega
  | succ n ih =>
    intro c hf
    rw [reduceUntilShift_succ]
    cases hs : shouldShift (curOf c) next with
    | true =>
      simp only [if_true]
      constructor
      · intro h; cases h
      · intro h
        cases h with
        | fail h0 _ => rw [hs] at h0; cases h0
        | step h0 _ _ => rw [hs] at h0; cases h0
    | false =>
      simp only [Bool.false_eq_true, if_false]
      cases hr : reduce isNum c with
      | none =>
        constructor
        · intro _; exact .fail hs hr
        · intro _; rfl
      | some c₁ =>
        have hl := reduce_len isNum _ _ hr
        have := ih c₁ (by omega)
        constructor
        · intro h; exact .step hs hr (this.mp h)
        · intro h
          cases h with
          | fail _ h1 => rw [hr] at h1; cases h1
          | step _ h1 h2 => rw [hr] at h1; cases h1; exact this.mpr h2

/-- The call made by `runW`: `none` only if some `reduce` returned `none` (never because fuel ran out). -/
theorem reduceUntilShift_runW_none (isNum : Bool → Ex → Bool) (next : TT) (c : Cfg)
    (h : reduceUntilShift isNum next (c.stack.length + 1) c = none) :
    ∃ c₀ : Cfg, shouldShift (curOf c₀) next = false ∧ reduce isNum c₀ = none ∧
      c₀.stack.length ≤ c.stack.length := by
  have hf := (reduceUntilShift_none_iff isNum next _ c (Nat.lt_succ_self _)).mp h
  clear h
  induction hf with
  | fail hs hr => exact ⟨_, hs, hr, Nat.le_refl _⟩
  | step hs hr _ ih =>
    obtain ⟨c₀, a, b, d⟩ := ih
    have := reduce_len isNum _ _ hr
    exact ⟨c₀, a, b, by omega⟩

/-- The call made by `runW` agrees with every larger fuel: the bound is not a restriction. -/
theorem reduceUntilShift_runW_fuel (isNum : Bool → Ex → Bool) (next : TT) (c : Cfg) (fuel : Nat)
    (h : c.stack.length < fuel) :
    reduceUntilShift isNum next fuel c = reduceUntilShift isNum next (c.stack.length + 1) c :=
  reduceUntilShift_fuel_irrelevant isNum next _ _ c h (Nat.lt_succ_self _)

/-- Go's unbounded loop always terminates: from every configuration it either reaches a shiftable
    configuration or hits a failing `reduce`; the two outcomes are exclusive and the former is unique. -/
theorem loop_total (isNum : Bool → Ex → Bool) (next : TT) (c : Cfg) :
    (∃ c', Loop isNum next c c') ∨ LoopFails isNum next c := by
  cases h : reduceUntilShift isNum next (c.stack.length + 1) c with
  | none => exact .inr ((reduceUntilShift_none_iff isNum next _ c (Nat.lt_succ_self _)).mp h)
  | some c' => exact .inl ⟨c', (reduceUntilShift_some_iff isNum next _ c c' (Nat.lt_succ_self _)).mp h⟩

theorem loop_deterministic (isNum : Bool → Ex → Bool) (next : TT) (c c₁ c₂ : Cfg)
    (h₁ : Loop isNum next c c₁) (h₂ : Loop isNum next c c₂) : c₁ = c₂ := by
  have a := (reduceUntilShift_some_iff isNum next _ c c₁ (Nat.lt_succ_self _)).mpr h₁
  have b := (reduceUntilShift_some_iff isNum next _ c c₂ (Nat.lt_succ_self _)).mpr h₂
  rw [a] at b; cases b; rfl

theorem loop_exclusive (isNum : Bool → Ex → Bool) (next : TT) (c c' : Cfg)
    (h₁ : Loop isNum next c c') (h₂ : LoopFails isNum next c) : False := by
  have a := (reduceUntilShift_some_iff isNum next _ c c' (Nat.lt_succ_self _)).mpr h₁
  have b := (reduceUntilShift_none_iff isNum next _ c (Nat.lt_succ_self _)).mpr h₂
  rw [a] at b; cases b

#print axioms reduceUntilShift_fuel_irrelevant
#print axioms reduceUntilShift_some_iff
#print axioms reduceUntilShift_none_iff
#print axioms reduceUntilShift_runW_none
#print axioms loop_total

end GoLucene
