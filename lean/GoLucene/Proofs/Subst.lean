import GoLucene.Proofs.SubstRange
import GoLucene.Proofs.LexSlash
import GoLucene.Proofs.FloatRT3
/-
  C04 — the substitution clause and the placeholder-count clause.
  (Files: SubstTmpl = templates and the scan of the SQL text; SubstLeaf = leaves, render-function table, LIKE, lists,
  boundaries; SubstRange = RANGE; this file = the tree theorem, parse results, examples and refutations;
  SubstCount = the count clause from parameter mode alone.)

  Both PostgreSQL renderers print instances of ONE template (`Tmpl`): `renderParam` prints every hole as `?`,
  `render` prints the i-th hole as the literal text (`litText`) of the i-th parameter.

  * `subst_template` — for every tree with `wfTree`, `validateExpr` and `rangesExact` (every Range node is of one
    of the forms of `endsExact`, SubstRange), whenever both renderers succeed:
        ∃ tm, cleanT tm ∧ sqlP = fillQ tm ∧ holes tm = ps.length ∧ fillV tm (ps.map litText) = some sqlI.
    `subst_no_range` is the special case of a tree without Range nodes: no further hypothesis.  Neither
    `noQuotedStarBound` nor `likePatternsOK` is needed: for LIKE, quoting and pattern translation commute for EVERY
    pattern (`starPattern_sqlQuote`), and the regexp tests of `like` (on the quoted text) and of `likeParam` (on the
    raw parameter) agree (`likeCond`); a quoted `*` end is the text `'*'` in both modes.
  * `subst_text`, `placeholder_count` — the same without templates: replacing the `?` bytes of sqlP that stand
    outside quoted identifiers by the literal texts of the parameters gives exactly sqlI (`substQ`), and the number
    of such `?` bytes is the number of parameters (`countQ`).  A field name may hold `?` (`exNoRange`).
  * `subst_template_renum`, `subst_text_renum` — float ends, int next to float ends, and (since fix F12 of `toFloats`)
    OPEN float ranges `[* TO 2.5]`, `[2.5 TO *]` (`endsRenum_star_float`, `endsRenum_float_star`): the same template,
    the substituted texts related to the parameters by `Renum` (literal text, or re-read by strconv and re-printed
    with `%d` / `%.2f`), under `rangesRenum` (`endsRenum`).
  * `parse_subst_template`, `parse_subst`, `parse_subst'`, `parse_subst_renum`, `parse_C04` — for results of
    `lucene.Parse`.
  * What is false (all by evaluation): the count clause in general (`count_false_numeric_field`: `5:[1 TO 2]`
    gives `? >= ? AND ? <= ?` with 3 parameters); the texts for `[1 TO "b"]` (`differ_int_str`: BETWEEN against
    comparison form), float ends (`differ_float`, `differ_float_round`, `differ_int_float`, and for an open float
    range `differ_star_float`: `%.2f`).  (Before fix F12 an open end next to a float end gave `BETWEEN '*' AND 2.25`
    inline against `<= ?`: not even the templates agreed.  Now they do: `agree_star_float`.)
-/
set_option linter.unusedSimpArgs false
set_option linter.unusedVariables false

namespace GoLucene.Subst
open GoLucene.NoPanic GoLucene.ParamAgree GoLucene.SqlMeaning

/-! ### the exactness predicate on trees -/

/-- the field position holds a Column (so its text holds no placeholder) -/
def holeFree : Node → Bool
  | .expr (.mk (.prim (.col _)) _ _ _ _) => true
  | _ => false

/-- the Range node `l:[a TO c]` is of one of the forms `E` (`endsExact`, `endsRenum`) -/
def rangeOK (E : Bool → Prim → Prim → Bool) (l r : Node) : Bool :=
  match r with
  | .bound (.expr (.mk (.prim qa) _ _ _ _)) (.expr (.mk (.prim qc) _ _ _ _)) _ => E (holeFree l) qa qc
  | _ => false

mutual
def reNode (E : Bool → Prim → Prim → Bool) : Node → Bool
  | .expr e => rangesOK E e
  | _ => true
/-- every Range node of the tree is of one of the forms `E` -/
def rangesOK (E : Bool → Prim → Prim → Bool) : Expr → Bool
  | .mk l o r _ _ => (if o = .range then rangeOK E l r else true) && reNode E l && reNode E r
end

/-- every Range node of the tree is of one of the forms of `endsExact` -/
abbrev rangesExact (e : Expr) : Bool := rangesOK endsExact e
/-- every Range node of the tree is of one of the forms of `endsRenum` -/
abbrev rangesRenum (e : Expr) : Bool := rangesOK endsRenum e

/-- what the main theorem needs to know about Range nodes of the forms `E`, on the level of texts -/
def RangeCore (R : Prim → Bytes → Prop) (E : Bool → Prim → Prim → Bool) : Prop :=
  ∀ (hf : Bool) (qa qc : Prim), E hf qa qc = true → ∀ (incl : Bool) (pl : List Prim) (xl yl : Bytes),
    HasR R pl xl yl → (hf = true → pl = []) → ∀ (sP sI : Bytes),
    rangParam xl (bracket incl (endP qa).1 (endP qc).1) ((endP qa).2 ++ (endP qc).2) = .ok sP →
    fnRang yl (bracket incl (litText qa) (litText qc)) = .ok sI →
    HasR R (pl ++ ((endP qa).2 ++ (endP qc).2)) sP sI

theorem exact_lit (p : Prim) : Exact p (litText p) := rfl
theorem rangeCore_exact : RangeCore Exact endsExact := range_core exact_lit
theorem rangeCore_renum : RangeCore Renum endsRenum := range_core_renum

mutual
def nrNode : Node → Bool
  | .expr e => noRange e
  | _ => true
/-- the tree has no Range node -/
def noRange : Expr → Bool
  | .mk l o r _ _ => o != .range && nrNode l && nrNode r
end

mutual
theorem reNode_of_nr (E : Bool → Prim → Prim → Bool) : ∀ n : Node, nrNode n = true → reNode E n = true
  | .expr e, h => by
    simp only [nrNode] at h
    simpa [reNode] using rangesOK_of_noRange E e h
  | .nil, _ => by simp [reNode]
  | .prim _, _ => by simp [reNode]
  | .list _, _ => by simp [reNode]
  | .bound _ _ _, _ => by simp [reNode]
theorem rangesOK_of_noRange (E : Bool → Prim → Prim → Bool) : ∀ e : Expr, noRange e = true → rangesOK E e = true
  | .mk l o r p d, h => by
    simp only [noRange, Bool.and_eq_true, bne_iff_ne, ne_eq] at h
    simp only [rangesOK, h.1.1, if_false, Bool.true_and, Bool.and_eq_true]
    exact ⟨reNode_of_nr E l h.1.2, reNode_of_nr E r h.2⟩
end

theorem rangesExact_of_noRange (e : Expr) (h : noRange e = true) : rangesExact e = true :=
  rangesOK_of_noRange endsExact e h

mutual
theorem reNode_mono (E E' : Bool → Prim → Prim → Bool) (hE : ∀ hf qa qc, E hf qa qc = true → E' hf qa qc = true) :
    ∀ n : Node, reNode E n = true → reNode E' n = true
  | .expr e, h => by
    simp only [reNode] at h ⊢
    exact rangesOK_mono E E' hE e h
  | .nil, _ => by simp [reNode]
  | .prim _, _ => by simp [reNode]
  | .list _, _ => by simp [reNode]
  | .bound _ _ _, _ => by simp [reNode]
theorem rangesOK_mono (E E' : Bool → Prim → Prim → Bool) (hE : ∀ hf qa qc, E hf qa qc = true → E' hf qa qc = true) :
    ∀ e : Expr, rangesOK E e = true → rangesOK E' e = true
  | .mk l o r p d, h => by
    simp only [rangesOK, Bool.and_eq_true] at h ⊢
    refine ⟨⟨?_, reNode_mono E E' hE l h.1.2⟩, reNode_mono E E' hE r h.2⟩
    have h1 := h.1.1
    split at h1
    · rw [if_pos (by assumption)]
      unfold rangeOK at h1 ⊢
      split at h1
      · exact hE _ _ _ h1
      · cases h1
    · rw [if_neg (by assumption)]
end

theorem rangesRenum_of_exact (e : Expr) (h : rangesExact e = true) : rangesRenum e = true :=
  rangesOK_mono endsExact endsRenum (fun hf qa qc h => by simp [endsRenum, h]) e h

/-! ### the ends of a validated boundary, the pattern of a validated Like node -/

theorem starLeft_prim (q : Prim) (o : Op) (p : F64) (d : Int) :
    starLeft (.mk (.prim q) o .nil p d) = decide (q = .str (b "*")) := by
  cases q <;> simp [starLeft, Expr.left]
  rename_i s
  by_cases h : s = b "*" <;> simp [h]

theorem end_val (a : Expr) (ha : leafy a = true) (hva : isLiteralExpr (.expr a) = true) :
    ∃ q o p d, a = .mk (.prim q) o .nil p d ∧ (∀ s, q ≠ .col s) ∧
      (∀ t, render pgFns a = .ok t → t = litText q) ∧
      (∀ x, endOut pgFns (.expr a) = .ok x → x = endP q) := by
  obtain ⟨l, o, r, p, d⟩ := a
  obtain ⟨ho, hr, hl⟩ := leafy_parts l o r p d ha
  subst hr
  simp only [leafy, Bool.and_eq_true] at ha
  simp only [isLiteralExpr, Bool.and_eq_true] at hva
  rcases hl with rfl | ⟨q, rfl⟩
  · simp [Node.isLiteral] at hva
  · have hq : ∀ s, q ≠ .col s := by
      intro s hs; subst hs; simp [leafKindOK] at ha
    have hk : o = .literal ∨ ∃ s, q = .str s := by
      cases q <;> simp_all [leafKindOK]
    refine ⟨q, o, p, d, rfl, hq, fun t ht => render_leaf_inv q o p d hq ho hk t ht, ?_⟩
    intro x hx
    simp only [endOut, starLeft_prim] at hx
    by_cases hs : q = .str (b "*")
    · subst hs
      simp at hx
      rw [endP_star, hx]
    · simp only [hs, decide_false, Bool.false_eq_true, if_false] at hx
      rw [renderParam_leaf_ok q o p d hq ho hk] at hx
      simp at hx
      rw [endP_ne q hs, hx]

theorem like_pattern_shape (re : Expr) (hop : re.op = .wild ∨ re.op = .regexp) (hw : wfTree re = true)
    (hv : validateExpr re = true) :
    ∃ s ro rp rd, re = .mk (.prim (.str s)) ro .nil rp rd ∧ ro.isLeafOp = true := by
  obtain ⟨rl, ro, rr, rp, rd⟩ := re
  simp only [Expr.op] at hop
  obtain ⟨hvo, _, _⟩ := validate_top rl ro rr rp rd hv
  have hleaf : ro.isLeafOp = true := by rcases hop with rfl | rfl <;> rfl
  have hwr : (ro = .wild || ro = .regexp) = true := by rcases hop with rfl | rfl <;> rfl
  have hrr : rr = .nil := by
    rcases hop with rfl | rfl <;>
      (simp [validateOp, Expr.op, Expr.left, Expr.right] at hvo; cases rr <;> simp_all [Node.isNil])
  subst hrr
  have hlit : rl.isLiteral = true := by
    rcases hop with rfl | rfl <;> (simp [validateOp, Expr.op, Expr.left, Expr.right] at hvo; exact hvo.2)
  simp only [wfTree, hwr, if_true, Bool.and_eq_true] at hw
  cases rl with
  | prim q =>
    cases q with
    | str s => exact ⟨s, ro, rp, rd, rfl, hleaf⟩
    | _ => simp at hw
  | _ => simp [Node.isLiteral] at hlit

theorem isSimple_of_isLiteralExpr (l : Node) (h : isLiteralExpr l = true) : isSimple l = true := by
  cases l with
  | expr e =>
    obtain ⟨ll, lo, lr, lp, ld⟩ := e
    simp only [isLiteralExpr, Bool.and_eq_true, Bool.or_eq_true, decide_eq_true_eq] at h
    apply isSimple_leafop
    rcases h.1 with (h | h) | h <;> subst h <;> rfl
  | _ => simp [isLiteralExpr] at h

theorem nil_of_isNil' {r : Node} (h : r.isNil = true) : r = .nil := by
  cases r <;> simp [Node.isNil] at h ⊢

/-- a Column in field position yields no parameter -/
theorem holeFree_params (l : Node) (hf : holeFree l = true) (hv : validateNode l = true)
    (hlit : isLiteralExpr l = true) (sI sP : Bytes) (ps : List Prim)
    (h1 : serialize pgFns l = .ok sI) (h2 : serializeParams pgFns l = .ok (sP, ps)) : ps = [] := by
  unfold holeFree at hf
  split at hf
  · rename_i v lo lr lp ld
    simp only [validateNode] at hv
    obtain ⟨hop, _, _⟩ := validate_top _ _ _ _ _ hv
    have hleaf : lo.isLeafOp = true := by
      simp only [isLiteralExpr, Bool.and_eq_true, Bool.or_eq_true, decide_eq_true_eq] at hlit
      rcases hlit.1 with (h | h) | h <;> subst h <;> rfl
    obtain ⟨rfl, _⟩ := leafop_parts _ _ _ _ _ hleaf hop
    rw [serialize] at h1
    rw [sp_expr, leaf_col_agree v lo lp ld hleaf sI h1] at h2
    simp at h2
    exact h2.2
  · cases hf

/-! ### the theorem -/

theorem exact_sub {R : Prim → Bytes → Prop} (hR : ∀ p, R p (litText p)) : ∀ p v, Exact p v → R p v := by
  intro p v h
  rw [h]
  exact hR p

mutual
/-- operand positions -/
theorem node_inst {R : Prim → Bytes → Prop} (hR : ∀ p, R p (litText p)) (E : Bool → Prim → Prim → Bool)
    (hcore : RangeCore R E) : ∀ n : Node, wfNode n = true → validateNode n = true → reNode E n = true →
    ∀ (sI sP : Bytes) (ps : List Prim), serialize pgFns n = .ok sI → serializeParams pgFns n = .ok (sP, ps) →
    HasR R ps sP sI
  | .nil, _, _, _, sI, sP, ps, h1, h2 => by
    rw [sp_nil] at h2
    simp [serialize] at h1 h2
    obtain ⟨rfl, rfl⟩ := h2
    subst h1
    exact HasR.nil
  | .prim q, _, _, _, sI, sP, ps, h1, h2 => (prim_inst q sI sP ps h1 h2).mono (exact_sub hR)
  | .expr e, hw, hv, hre, sI, sP, ps, h1, h2 => by
    rw [serialize] at h1
    rw [sp_expr] at h2
    exact expr_inst hR E hcore e (by simpa [wfNode] using hw) (by simpa [validateNode] using hv)
      (by simpa [reNode] using hre) sI sP ps h1 h2
  | .list es, hw, _, _, sI, sP, ps, h1, h2 => by
    rw [serialize] at h1
    rw [sp_list] at h2
    cases hs : serializeList pgFns es with
    | err => simp [hs] at h1
    | panic => simp [hs] at h1
    | ok ss =>
      cases hs' : serializeParamsList pgFns es with
      | err => simp [hs'] at h2
      | panic => simp [hs'] at h2
      | ok w =>
        obtain ⟨ss', ps'⟩ := w
        simp only [hs, Out.ok.injEq] at h1
        simp only [hs', Out.ok.injEq, Prod.mk.injEq] at h2
        obtain ⟨rfl, rfl⟩ := h2
        subst h1
        exact ((list_inst es (by simpa [wfNode] using hw) ss ss' ps' hs hs').2.2).mono (exact_sub hR)
  | .bound mn mx incl, hw, _, _, sI, sP, ps, h1, h2 => by
    simp only [wfNode, Bool.and_eq_true] at hw
    cases mn with
    | expr a =>
      cases mx with
      | expr c =>
        simp only at hw
        exact (bound_inst a c incl hw.1 hw.2 sI sP ps h1 h2).mono (exact_sub hR)
      | _ => simp at hw
    | _ => simp at hw
/-- expressions -/
theorem expr_inst {R : Prim → Bytes → Prop} (hR : ∀ p, R p (litText p)) (E : Bool → Prim → Prim → Bool)
    (hcore : RangeCore R E) : ∀ e : Expr, wfTree e = true → validateExpr e = true → rangesOK E e = true →
    ∀ (sI sP : Bytes) (ps : List Prim), render pgFns e = .ok sI → renderParam pgFns e = .ok (sP, ps) →
    HasR R ps sP sI
  | .mk l o r p d, hw, hv, hre, sI, sP, ps, h1, h2 => by
    obtain ⟨hop, hvl, hvr⟩ := validate_top l o r p d hv
    have hw0 := hw
    simp only [wfTree, Bool.and_eq_true] at hw
    simp only [rangesOK, Bool.and_eq_true] at hre
    have hL := node_inst hR E hcore l hw.1.2 hvl hre.1.2
    have hRt := node_inst hR E hcore r hw.2 hvr hre.2
    by_cases hleaf : o.isLeafOp = true
    · -- Literal / Wild / Regexp
      obtain ⟨rfl, q, rfl⟩ := leafop_parts l o r p d hleaf hop
      cases q
      case col v => exact (leafcol_inst v o p d hleaf sI sP ps h1 h2).mono (exact_sub hR)
      all_goals
        refine (leaf_inst _ o p d (by intro s h; cases h) hleaf ?_ sI sP ps h1 h2).mono (exact_sub hR)
        cases o <;> simp [Op.isLeafOp] at hleaf <;> simp_all
    · by_cases ho1 : o = .like
      · subst ho1
        cases r <;> simp [validateOp, Expr.op, Expr.left, Expr.right] at hop
        rename_i re
        have hre' : re.op = .wild ∨ re.op = .regexp := by
          obtain ⟨_, _, _, _, _⟩ := re
          rcases hop.2 with h | h
          · exact .inl (of_decide_eq_true h)
          · exact .inr (of_decide_eq_true h)
        obtain ⟨s, ro, rp, rd, rfl, hro⟩ := like_pattern_shape re hre' (by simpa [wfNode] using hw.2)
          (by simpa [validateNode] using hvr)
        exact like_inst hR l p d s ro rp rd hro (isSimple_of_isLiteralExpr l hop.1.1.2) hL sI sP ps h1 h2
      · by_cases ho2 : o = .range
        · subst ho2
          cases r <;> simp [validateOp, Expr.op, Expr.left, Expr.right] at hop
          rename_i mn mx incl
          obtain ⟨hlit, ⟨⟨_, _⟩, hmn⟩, hmx⟩ := hop
          have hwr := hw.2
          simp only [wfNode, Bool.and_eq_true] at hwr
          cases mn with
          | expr a =>
            cases mx with
            | expr c =>
              simp only at hwr
              obtain ⟨qa, oa, pa, da, rfl, hqa, hra, hea⟩ := end_val a hwr.1 hmn
              obtain ⟨qc, oc, pc, dc, rfl, hqc, hrc, hec⟩ := end_val c hwr.2 hmx
              have hex : E (holeFree l) qa qc = true := by
                have := hre.1.1
                simpa [rangeOK] using this
              -- the inline side
              obtain ⟨yl, yr, fn, hl1, hr1, hfn, hfI⟩ := render_ok_inv _ _ _ _ _ _ h1
              rw [pgFns_range] at hfn
              cases hfn
              simp only [parenOps_range, Bool.false_and, Bool.false_eq_true, if_false] at hfI
              obtain ⟨ta, tc, rta, rtc, rfl⟩ := serialize_bound_inv _ _ incl yr hr1
              rw [hra ta rta, hrc tc rtc] at hfI
              -- the parameter side
              obtain ⟨xl, pl, xr, pr, hl2, hr2, hfP, rfl⟩ := renderParam_inv_range _ _ _ _ _ _ h2
              rw [sp_bound'] at hr2
              obtain ⟨s1, p1, s2, p2, e1, e2, rfl, rfl⟩ := boundOut_inv incl _ _ _ _ hr2
              have e1' := hea _ e1
              have e2' := hec _ e2
              have hs1 : s1 = (endP qa).1 := by rw [← e1']
              have hp1 : p1 = (endP qa).2 := by rw [← e1']
              have hs2 : s2 = (endP qc).1 := by rw [← e2']
              have hp2 : p2 = (endP qc).2 := by rw [← e2']
              subst hs1 hp1 hs2 hp2
              exact hcore (holeFree l) qa qc hex incl pl xl yl (hL yl xl pl hl1 hl2)
                (fun hf => holeFree_params l hf hvl hlit.2 yl xl pl hl1 hl2) sP sI hfP hfI
            | _ => simp at hwr
          | _ => simp at hwr
        · obtain ⟨yl, yr, fn, hl1, hr1, hfn, hfI⟩ := render_ok_inv _ _ _ _ _ _ h1
          obtain ⟨xl, pl, xr, pr, fn', hl2, hr2, hfn', hfP, rfl⟩ := renderParam_inv _ _ _ _ _ ho1 ho2 _ _ h2
          rw [hfn] at hfn'
          cases hfn'
          refine fn_inst o fn hfn (by simpa using hleaf) ho1 ho2 pl pr _ _ _ _ sP sI
            ((hL yl xl pl hl1 hl2).parenIf _) ((hRt yr xr pr hr1 hr2).parenIf _) ?_ hfP hfI
          intro hu
          have hnil : r = .nil := by
            rcases hu with rfl | rfl | rfl | rfl <;>
              (simp [validateOp, Expr.op, Expr.left, Expr.right] at hop; exact nil_of_isNil' (by simp [hop]))
          subst hnil
          rw [sp_nil] at hr2
          simp at hr2
          exact hr2.2
end

/-! ### statements -/

theorem expr_exact (e : Expr) (hw : wfTree e = true) (hv : validateExpr e = true) (hr : rangesExact e = true)
    (sqlI sqlP : Bytes) (ps : List Prim) (hI : render pgFns e = .ok sqlI)
    (hP : renderParam pgFns e = .ok (sqlP, ps)) : HasT ps sqlP sqlI :=
  expr_inst exact_lit endsExact rangeCore_exact e hw hv hr sqlI sqlP ps hI hP

/-- **C04, substitution clause (template form).**  On a well-formed validated tree all of whose Range nodes are of
    the forms of `endsExact`, whenever both renderers succeed, the parameterized SQL and the inline SQL are the
    two readings of one template: holes as `?`, resp. as the literal texts of the parameters, in order. -/
theorem subst_template (e : Expr) (hw : wfTree e = true) (hv : validateExpr e = true) (hr : rangesExact e = true)
    (sqlI sqlP : Bytes) (ps : List Prim) (hI : render pgFns e = .ok sqlI)
    (hP : renderParam pgFns e = .ok (sqlP, ps)) :
    ∃ tm : Tmpl, cleanT tm = true ∧ sqlP = fillQ tm ∧ holes tm = ps.length ∧
      fillV tm (ps.map litText) = some sqlI :=
  HasT.template (expr_exact e hw hv hr sqlI sqlP ps hI hP)

/-- the main theorem as asked: no Range node, no other hypothesis -/
theorem subst_no_range (e : Expr) (hw : wfTree e = true) (hv : validateExpr e = true) (hn : noRange e = true)
    (sqlI sqlP : Bytes) (ps : List Prim) (hI : render pgFns e = .ok sqlI)
    (hP : renderParam pgFns e = .ok (sqlP, ps)) :
    ∃ tm : Tmpl, sqlP = fillQ tm ∧ holes tm = ps.length ∧ fillV tm (ps.map litText) = some sqlI := by
  obtain ⟨tm, _, q, h, v⟩ := subst_template e hw hv (rangesExact_of_noRange e hn) sqlI sqlP ps hI hP
  exact ⟨tm, q, h, v⟩

/-- **C04, substitution clause (text form).**  Replacing the `?` bytes of the parameterized SQL that stand outside
    quoted identifiers by the literal texts of the parameters, left to right, gives exactly the inline SQL. -/
theorem subst_text (e : Expr) (hw : wfTree e = true) (hv : validateExpr e = true) (hr : rangesExact e = true)
    (sqlI sqlP : Bytes) (ps : List Prim) (hI : render pgFns e = .ok sqlI)
    (hP : renderParam pgFns e = .ok (sqlP, ps)) : substQ false sqlP (ps.map litText) = some sqlI :=
  (HasT.subst (expr_exact e hw hv hr sqlI sqlP ps hI hP)).1

/-- **C04, placeholder count.**  Under the same hypotheses the number of `?` bytes outside quoted identifiers is
    the number of parameters.  (False without `rangesExact`: `count_false_numeric_field`.) -/
theorem placeholder_count (e : Expr) (hw : wfTree e = true) (hv : validateExpr e = true) (hr : rangesExact e = true)
    (sqlI sqlP : Bytes) (ps : List Prim) (hI : render pgFns e = .ok sqlI)
    (hP : renderParam pgFns e = .ok (sqlP, ps)) : countQ false sqlP = ps.length :=
  (HasT.subst (expr_exact e hw hv hr sqlI sqlP ps hI hP)).2

/-- **C04, substitution clause up to numeric re-formatting.**  With float ends, mixed int / float ends (and ints
    beyond int64) the inline renderer re-reads the end texts with strconv and prints them with `%d` / `%.2f`.  On a
    tree whose Range nodes are of the forms of `endsRenum` the two SQL texts are still the two readings of one
    template; each substituted text is related to its parameter by `Renum`: the literal text, or the literal text
    re-read and re-printed (which is what `rang` does). -/
theorem subst_template_renum (e : Expr) (hw : wfTree e = true) (hv : validateExpr e = true)
    (hr : rangesRenum e = true) (sqlI sqlP : Bytes) (ps : List Prim) (hI : render pgFns e = .ok sqlI)
    (hP : renderParam pgFns e = .ok (sqlP, ps)) :
    ∃ (tm : Tmpl) (vs : List Bytes), cleanT tm = true ∧ sqlP = fillQ tm ∧ holes tm = ps.length ∧
      fillV tm vs = some sqlI ∧ Rel2 Renum ps vs := by
  obtain ⟨tm, vs, c, q, v, f⟩ := expr_inst renum_lit endsRenum rangeCore_renum e hw hv hr sqlI sqlP ps hI hP
  exact ⟨tm, vs, c, q, by rw [fillV_holes tm _ _ v, f.length_eq], v, f⟩

/-- the same without templates; in particular the placeholder count holds on these trees too -/
theorem subst_text_renum (e : Expr) (hw : wfTree e = true) (hv : validateExpr e = true)
    (hr : rangesRenum e = true) (sqlI sqlP : Bytes) (ps : List Prim) (hI : render pgFns e = .ok sqlI)
    (hP : renderParam pgFns e = .ok (sqlP, ps)) :
    ∃ vs, Rel2 Renum ps vs ∧ substQ false sqlP vs = some sqlI ∧ countQ false sqlP = ps.length :=
  HasR.subst (expr_inst renum_lit endsRenum rangeCore_renum e hw hv hr sqlI sqlP ps hI hP)

/-! ### results of `lucene.Parse` -/

theorem parse_subst_renum (env : Env) (s df : Bytes) (e : Expr) (h : parseQuery env s df = .ok e)
    (hr : rangesRenum e = true) (sqlI sqlP : Bytes) (ps : List Prim) (hI : render pgFns e = .ok sqlI)
    (hP : renderParam pgFns e = .ok (sqlP, ps)) :
    ∃ vs, Rel2 Renum ps vs ∧ substQ false sqlP vs = some sqlI ∧ countQ false sqlP = ps.length := by
  obtain ⟨hw, hv⟩ := parse_wf env s df e h
  exact subst_text_renum e hw hv hr sqlI sqlP ps hI hP

theorem parse_subst_template (env : Env) (s df : Bytes) (e : Expr) (h : parseQuery env s df = .ok e)
    (hr : rangesExact e = true) (sqlI sqlP : Bytes) (ps : List Prim) (hI : render pgFns e = .ok sqlI)
    (hP : renderParam pgFns e = .ok (sqlP, ps)) :
    ∃ tm : Tmpl, cleanT tm = true ∧ sqlP = fillQ tm ∧ holes tm = ps.length ∧
      fillV tm (ps.map litText) = some sqlI := by
  obtain ⟨hw, hv⟩ := parse_wf env s df e h
  exact subst_template e hw hv hr sqlI sqlP ps hI hP

theorem parse_subst (env : Env) (s df : Bytes) (e : Expr) (h : parseQuery env s df = .ok e)
    (hr : rangesExact e = true) (sqlI sqlP : Bytes) (ps : List Prim) (hI : render pgFns e = .ok sqlI)
    (hP : renderParam pgFns e = .ok (sqlP, ps)) :
    substQ false sqlP (ps.map litText) = some sqlI ∧ countQ false sqlP = ps.length := by
  obtain ⟨hw, hv⟩ := parse_wf env s df e h
  exact HasT.subst (expr_exact e hw hv hr sqlI sqlP ps hI hP)

/-- for a `lucene.Parse` result the inline success alone is enough (`parse_param_succeeds`) -/
theorem parse_subst' (env : Env) (s df : Bytes) (e : Expr) (h : parseQuery env s df = .ok e)
    (hr : rangesExact e = true) (sqlI : Bytes) (hI : render pgFns e = .ok sqlI) :
    ∃ sqlP ps, renderParam pgFns e = .ok (sqlP, ps) ∧
      substQ false sqlP (ps.map litText) = some sqlI ∧ countQ false sqlP = ps.length := by
  obtain ⟨sqlP, ps, hP⟩ := parse_param_succeeds env s df e h sqlI hI
  exact ⟨sqlP, ps, hP, parse_subst env s df e h hr sqlI sqlP ps hI hP⟩

/-- **C04 for a `lucene.Parse` result, all clauses together**: whenever ToPostgres succeeds, ToParameterizedPostgres
    succeeds, its parameters are the query's values left to right with their kinds, there is exactly one placeholder
    per parameter, and substituting the literal texts of the parameters for the placeholders gives the inline SQL.
    Hypotheses: `/` is not alphanumeric for the lexer (so that `likePatternsOK` holds, LexSlash), no quoted `*` as a
    range end (needed by the parameter-list clause only), Range nodes of the forms of `endsExact` (needed by the
    count and substitution clauses only). -/
theorem parse_C04 (env : Env) (hk : env.cls.slashNotAlnum) (s df : Bytes) (e : Expr)
    (h : parseQuery env s df = .ok e) (hq : noQuotedStarBound e = true) (hr : rangesExact e = true)
    (sqlI : Bytes) (hI : render pgFns e = .ok sqlI) :
    ∃ sqlP ps, renderParam pgFns e = .ok (sqlP, ps) ∧ ps = treeValues false (.expr e) ∧
      countQ false sqlP = ps.length ∧ substQ false sqlP (ps.map litText) = some sqlI := by
  obtain ⟨sqlP, ps, hP⟩ := parse_param_succeeds env s df e h sqlI hI
  have hl := LexSlash.parse_likePatternsOK env hk s df e h
  have h2 := parse_subst env s df e h hr sqlI sqlP ps hI hP
  exact ⟨sqlP, ps, hP, parse_params_are_values env s df e h hq hl sqlP ps hP, h2.2, h2.1⟩

/-! ### the hypotheses are not vacuous -/

/-- `a:b* AND c:/x*y/ AND d:[1 TO *] AND NOT e:(1 OR 2 OR "z")` (ParamAgree.exBig) -/
theorem exBig_hyps : wfTree exBig = true ∧ validateExpr exBig = true ∧ rangesExact exBig = true := by
  decide +kernel

theorem exBig_inline : render pgFns exBig =
    .ok (b "(((\"a\" SIMILAR TO 'b%') AND (\"c\" ~ '/x*y/')) AND (\"d\" >= 1)) AND (NOT(\"e\" IN (1, 2, 'z')))") := by
  decide +kernel

/-- the theorem applied to a non-trivial tree -/
example : substQ false
    (b "(((\"a\" SIMILAR TO ?) AND (\"c\" ~ ?)) AND (\"d\" >= ?)) AND (NOT(\"e\" IN (?, ?, ?)))")
    ([.str (b "b%"), .str (b "/x*y/"), .int 1, .int 1, .int 2, .str (b "z")].map litText) =
    some (b "(((\"a\" SIMILAR TO 'b%') AND (\"c\" ~ '/x*y/')) AND (\"d\" >= 1)) AND (NOT(\"e\" IN (1, 2, 'z')))") :=
  subst_text exBig exBig_hyps.1 exBig_hyps.2.1 exBig_hyps.2.2 _ _ _ exBig_inline exBig_params

/-- a tree without Range nodes: `NOT(a:"it's" AND b?c:x*)`; the field `b?c` holds a `?` -/
def exNoRange : Expr :=
  node (.expr (node (.expr (node (col "a") .equals (.expr (strLeaf "it's")))) .and
    (.expr (node (col "b?c") .like (.expr (wildLeaf "x*")))))) .not .nil

example : wfTree exNoRange = true ∧ validateExpr exNoRange = true ∧ noRange exNoRange = true ∧
    render pgFns exNoRange = .ok (b "NOT((\"a\" = 'it''s') AND (\"b?c\" SIMILAR TO 'x%'))") ∧
    renderParam pgFns exNoRange =
      .ok (b "NOT((\"a\" = ?) AND (\"b?c\" SIMILAR TO ?))", [.str (b "it's"), .str (b "x%")]) ∧
    countQ false (b "NOT((\"a\" = ?) AND (\"b?c\" SIMILAR TO ?))") = 2 := by decide +kernel

/-- every form of `endsExact`, in one tree:
    `a:[* TO *] AND b:[* TO 5] AND c:{3 TO *} AND d:[1 TO 2] AND e:{"x" TO "y"} AND f:[* TO "y"] AND g:["x" TO 7]` -/
def exRanges : Expr :=
  let rg (f : String) (a c : Expr) (incl : Bool) : Node := .expr (node (col f) .range (.bound (.expr a) (.expr c) incl))
  node (.expr (node (.expr (node (.expr (node (.expr (node (.expr (node
    (rg "a" (wildLeaf "*") (wildLeaf "*") true) .and
    (rg "b" (wildLeaf "*") (intLeaf 5) true))) .and
    (rg "c" (intLeaf 3) (wildLeaf "*") false))) .and
    (rg "d" (intLeaf 1) (intLeaf 2) true))) .and
    (rg "e" (strLeaf "x") (strLeaf "y") false))) .and
    (rg "f" (wildLeaf "*") (strLeaf "y") true))) .and
    (rg "g" (strLeaf "x") (intLeaf 7) true)

theorem exRanges_hyps : wfTree exRanges = true ∧ validateExpr exRanges = true ∧ rangesExact exRanges = true ∧
    noRange exRanges = false := by decide +kernel

def exRangesI : Bytes := b ("((((((\"a\" <= 0) AND (\"b\" <= 5)) AND (\"c\" > 3)) AND " ++
  "(\"d\" >= 1 AND \"d\" <= 2)) AND (\"e\" BETWEEN 'x' AND 'y')) AND (\"f\" BETWEEN '*' AND 'y')) AND " ++
  "(\"g\" BETWEEN 'x' AND 7)")
def exRangesP : Bytes := b ("((((((\"a\" <= 0) AND (\"b\" <= ?)) AND (\"c\" > ?)) AND " ++
  "(\"d\" >= ? AND \"d\" <= ?)) AND (\"e\" BETWEEN ? AND ?)) AND (\"f\" BETWEEN '*' AND ?)) AND " ++
  "(\"g\" BETWEEN ? AND ?)")
def exRangesPs : List Prim :=
  [.int 5, .int 3, .int 1, .int 2, .str (b "x"), .str (b "y"), .str (b "y"), .str (b "x"), .int 7]

theorem exRanges_inline : render pgFns exRanges = .ok exRangesI := by decide +kernel
theorem exRanges_params : renderParam pgFns exRanges = .ok (exRangesP, exRangesPs) := by decide +kernel

/-- the theorem applied to it -/
example : substQ false exRangesP (exRangesPs.map litText) = some exRangesI ∧ countQ false exRangesP = 9 :=
  ⟨subst_text exRanges exRanges_hyps.1 exRanges_hyps.2.1 exRanges_hyps.2.2.1 _ _ _ exRanges_inline exRanges_params,
   placeholder_count exRanges exRanges_hyps.1 exRanges_hyps.2.1 exRanges_hyps.2.2.1 _ _ _ exRanges_inline exRanges_params⟩

/-! ### what is false, and the excluded Range forms -/

/-- **The placeholder-count clause is false in general.**  `5:[1 TO 2]` (ParamAgree.exNumericField; it has the parser's
    shape `semShapeT` and passes Validate): a numeric-looking field is a raw value, RenderParam prints it twice
    (`? >= ? AND ? <= ?`) but sends it once: 4 placeholders, 3 parameters.  `rangesExact` excludes it (`holeFree`). -/
theorem count_false_numeric_field :
    semShapeT exNumericField = true ∧ wfTree exNumericField = true ∧ validateExpr exNumericField = true ∧
    rangesExact exNumericField = false ∧
    render pgFns exNumericField = .ok (b "5 >= 1 AND 5 <= 2") ∧
    renderParam pgFns exNumericField = .ok (b "? >= ? AND ? <= ?", [.int 5, .int 1, .int 2]) ∧
    countQ false (b "? >= ? AND ? <= ?") = 4 ∧
    substQ false (b "? >= ? AND ? <= ?") ([Prim.int 5, .int 1, .int 2].map litText) = none := by decide +kernel

/-- the one-sided forms are fine with a numeric-looking field (the field is printed once) -/
example : rangesExact (node (.expr (intLeaf 5)) .range (.bound (.expr (intLeaf 1)) (.expr (wildLeaf "*")) true)) = true := by
  decide +kernel

/-- the outcome of both renderers and of the textual substitution on one tree -/
def outcome (e : Expr) : Option (Bytes × Bytes × Option Bytes) :=
  match render pgFns e, renderParam pgFns e with
  | .ok sqlI, .ok (sqlP, ps) => some (sqlI, sqlP, substQ false sqlP (ps.map litText))
  | _, _ => none

/-- an int lower end with a string upper end: BETWEEN inline, comparison form in parameter mode -/
def cexIntStr : Expr := node (col "a") .range (.bound (.expr (intLeaf 1)) (.expr (strLeaf "b")) true)

theorem differ_int_str : wfTree cexIntStr = true ∧ validateExpr cexIntStr = true ∧ rangesExact cexIntStr = false ∧
    outcome cexIntStr = some (b "\"a\" BETWEEN 1 AND 'b'", b "\"a\" >= ? AND \"a\" <= ?",
      some (b "\"a\" >= 1 AND \"a\" <= 'b'")) := by decide +kernel

/-- float ends are printed with `%.2f` inline: `x:{1.5 TO 2.25}` (SqlMeaning.exFloat) -/
theorem differ_float : wfTree exFloat = true ∧ validateExpr exFloat = true ∧ rangesExact exFloat = false ∧
    outcome exFloat = some (b "\"x\" > 1.50 AND \"x\" < 2.25", b "\"x\" > ? AND \"x\" < ?",
      some (b "\"x\" > 1.5 AND \"x\" < 2.25")) := by decide +kernel

/-- floats needing more than two decimals lose them inline: `f:[0.001 TO 0.002]` (SqlMeaning.cexRound) -/
theorem differ_float_round : wfTree cexRound = true ∧ validateExpr cexRound = true ∧ rangesExact cexRound = false ∧
    outcome cexRound = some (b "\"f\" >= 0.00 AND \"f\" <= 0.00", b "\"f\" >= ? AND \"f\" <= ?",
      some (b "\"f\" >= 0.001 AND \"f\" <= 0.002")) := by decide +kernel

/-- an int end next to a float end is printed with `%.2f` too -/
def cexIntFloat : Expr := node (col "a") .range (.bound (.expr (intLeaf 1)) (.expr (lit (.prim (.flt f225)))) true)

theorem differ_int_float : wfTree cexIntFloat = true ∧ validateExpr cexIntFloat = true ∧
    rangesExact cexIntFloat = false ∧
    outcome cexIntFloat = some (b "\"a\" >= 1.00 AND \"a\" <= 2.25", b "\"a\" >= ? AND \"a\" <= ?",
      some (b "\"a\" >= 1 AND \"a\" <= 2.25")) := by decide +kernel

/-- the float forms are instances of one template up to re-formatting (`subst_template_renum` applies) -/
example : rangesRenum exFloat = true ∧ rangesRenum cexRound = true ∧ rangesRenum cexIntFloat = true ∧
    rangesRenum exRanges = true ∧ rangesRenum cexIntStr = false ∧ rangesRenum exNumericField = false := by
  decide +kernel

/-! #### open float ranges (fix F12)

Before fix F12 `toFloats` compared the end text with `*` while the text is `'*'`: for `a:[* TO 2.25]` `rang` printed
`"a" BETWEEN '*' AND 2.25` and `rangParam` `"a" <= ?`; not even the templates agreed (the old `differ_star_float`).
Now both print the comparison form. -/

/-- `a:[* TO 2.25]`: an open end next to a float end -/
def exStarFloat : Expr := node (col "a") .range (.bound (.expr (wildLeaf "*")) (.expr (lit (.prim (.flt f225)))) true)

/-- the two renderers agree on `a:[* TO 2.25]` (here even literally: `%.2f` of 2.25 is its `%v` text) -/
theorem agree_star_float : wfTree exStarFloat = true ∧ validateExpr exStarFloat = true ∧
    rangesRenum exStarFloat = true ∧
    outcome exStarFloat = some (b "\"a\" <= 2.25", b "\"a\" <= ?", some (b "\"a\" <= 2.25")) := by
  decide +kernel

/-- `a:[* TO 1.5]`, `a:{1.5 TO *}` -/
def cexStarFloat : Expr := node (col "a") .range (.bound (.expr (wildLeaf "*")) (.expr (lit (.prim (.flt f15)))) true)
def cexFloatStar : Expr := node (col "a") .range (.bound (.expr (lit (.prim (.flt f15)))) (.expr (wildLeaf "*")) false)

/-- what remains false for an open float range is the LITERAL substitution: the float end is printed with `%.2f`
    inline (`1.50` against `1.5`), as for the two-sided float ranges (`differ_float`) -/
theorem differ_star_float : wfTree cexStarFloat = true ∧ validateExpr cexStarFloat = true ∧
    rangesExact cexStarFloat = false ∧
    outcome cexStarFloat = some (b "\"a\" <= 1.50", b "\"a\" <= ?", some (b "\"a\" <= 1.5")) ∧
    outcome cexFloatStar = some (b "\"a\" > 1.50", b "\"a\" > ?", some (b "\"a\" > 1.5")) := by
  decide +kernel

/-- … but the templates agree up to that re-formatting (`subst_template_renum` applies) -/
example : rangesRenum cexStarFloat = true ∧ rangesRenum cexFloatStar = true := by decide +kernel

theorem toFloats_star_fmtG (f : F64) (h : f.isFinite = true) :
    toFloats starQ (fmtG f) = some ((parseFloat starQ).getD F64.zero, f) := by
  unfold toFloats
  simp only [beq_self_eq_true, if_true, allNum_ne_starQ _ (fmtG_allNum f), Bool.false_eq_true, if_false,
    FloatRT.parseFloat_fmtG f h]

theorem toFloats_fmtG_star (f : F64) (h : f.isFinite = true) :
    toFloats (fmtG f) starQ = some (f, (parseFloat starQ).getD F64.zero) := by
  unfold toFloats
  simp only [beq_self_eq_true, if_true, allNum_ne_starQ _ (fmtG_allNum f), Bool.false_eq_true, if_false,
    FloatRT.parseFloat_fmtG f h]

/-- EVERY open range with a finite float end is of one of the forms of `endsRenum` (whatever the field) -/
theorem endsRenum_star_float (hf : Bool) (f : F64) (h : f.isFinite = true) :
    endsRenum hf (.str (b "*")) (.flt f) = true := by
  have e : litText (.flt f) = fmtG f := rfl
  simp only [endsRenum, starQ_lit, e, toFloats_star_fmtG f h, isNum, decide_true, Option.isSome_some, Bool.or_true,
    Bool.and_true, Bool.true_or, Bool.true_and]

theorem endsRenum_float_star (hf : Bool) (f : F64) (h : f.isFinite = true) :
    endsRenum hf (.flt f) (.str (b "*")) = true := by
  have e : litText (.flt f) = fmtG f := rfl
  simp only [endsRenum, starQ_lit, e, toFloats_fmtG_star f h, isNum, decide_true, Option.isSome_some, Bool.or_true,
    Bool.and_true, Bool.true_or, Bool.true_and]

/-- the theorem applied to the open float range `a:[* TO 1.5]`: one template, the hole filled with `?` in parameter
    mode and with a `Renum`-text of the parameter 1.5 (here `1.50`) inline -/
example : ∃ vs, Rel2 Renum [.flt f15] vs ∧ substQ false (b "\"a\" <= ?") vs = some (b "\"a\" <= 1.50") ∧
    countQ false (b "\"a\" <= ?") = 1 :=
  subst_text_renum cexStarFloat (by decide +kernel) (by decide +kernel) (by decide +kernel) _ _ _
    (by decide +kernel) (by decide +kernel)

/-- a float that prints as an integer: `a:[* TO 2.0]` is `<= 2` in both modes (`toInts` reads the text `2`) -/
example : rangesRenum (node (col "a") .range (.bound (.expr (wildLeaf "*")) (.expr (lit (.prim (.flt ⟨0x4000000000000000⟩)))) true)) = true ∧
    outcome (node (col "a") .range (.bound (.expr (wildLeaf "*")) (.expr (lit (.prim (.flt ⟨0x4000000000000000⟩)))) true)) =
      some (b "\"a\" <= 2", b "\"a\" <= ?", some (b "\"a\" <= 2")) := by decide +kernel

/-- string ranges (also exclusive ones, also with an open end) are BETWEEN in both modes: the texts agree, the
    recorded defect (exclusive / open string ranges) is common to both renderers -/
example : outcome (node (col "a") .range (.bound (.expr (strLeaf "x")) (.expr (wildLeaf "*")) false)) =
    some (b "\"a\" BETWEEN 'x' AND '*'", b "\"a\" BETWEEN ? AND '*'", some (b "\"a\" BETWEEN 'x' AND '*'")) := by
  decide +kernel

/-- a quoted `*` end (`a:["*" TO 5]`, ParamAgree.cexQuotedStar) is no problem for the substitution clause: both
    renderers treat it as the open end -/
example : rangesExact cexQuotedStar = true ∧
    outcome cexQuotedStar = some (b "\"a\" <= 5", b "\"a\" <= ?", some (b "\"a\" <= 5")) := by decide +kernel

/-- a mislabelled Like pattern (ParamAgree.cexWildSlashed, cexRegexpBare) is no problem either -/
example : outcome cexWildSlashed = some (b "\"a\" ~ '/x*/'", b "\"a\" ~ ?", some (b "\"a\" ~ '/x*/'")) ∧
    outcome cexRegexpBare = some (b "\"a\" SIMILAR TO 'x%'", b "\"a\" SIMILAR TO ?", some (b "\"a\" SIMILAR TO 'x%'")) := by
  decide +kernel

/-- LIKE with a quote in the pattern: quoting and translation commute -/
example : outcome (node (col "a") .like (.expr (wildLeaf "it's*?"))) =
    some (b "\"a\" SIMILAR TO 'it''s%_'", b "\"a\" SIMILAR TO ?", some (b "\"a\" SIMILAR TO 'it''s%_'")) := by
  decide +kernel

end GoLucene.Subst

#print axioms GoLucene.Subst.subst_template
#print axioms GoLucene.Subst.subst_no_range
#print axioms GoLucene.Subst.subst_text
#print axioms GoLucene.Subst.placeholder_count
#print axioms GoLucene.Subst.subst_template_renum
#print axioms GoLucene.Subst.subst_text_renum
#print axioms GoLucene.Subst.parse_subst_renum
#print axioms GoLucene.Subst.differ_star_float
#print axioms GoLucene.Subst.agree_star_float
#print axioms GoLucene.Subst.endsRenum_star_float
#print axioms GoLucene.Subst.endsRenum_float_star
#print axioms GoLucene.Subst.parse_subst_template
#print axioms GoLucene.Subst.parse_subst
#print axioms GoLucene.Subst.parse_subst'
#print axioms GoLucene.Subst.parse_C04
#print axioms GoLucene.Subst.starPattern_sqlQuote
#print axioms GoLucene.Subst.count_false_numeric_field
#print axioms GoLucene.Subst.differ_int_str
#print axioms GoLucene.Subst.differ_float
#print axioms GoLucene.Subst.differ_float_round
#print axioms GoLucene.Subst.differ_int_float
