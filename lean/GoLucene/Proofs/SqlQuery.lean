import GoLucene.Proofs.SqlWide
import GoLucene.Proofs.JsonSql
import GoLucene.Proofs.KeywordCase
/-
  C02 (confinement) and C03 (meaning) lifted from TREES to QUERIES: what `lucene.Parse` accepts and the PostgreSQL
  renderer renders.

  The tree theorems (Proofs/SqlWide*.lean, Proofs/SqlText.lean) are stated on the decidable fragments `confinedFilter` /
  `textWide` (inline text), `confinedParam` / `textParam` (parameterized text), `cleanFilter` / `textClean` (C03).
  Here the hypotheses on the tree are DERIVED from `parseQuery env s df = .ok e` (through `JsonParse.parse_shape`:
  `semShapeT e ∧ validateExpr e`) and from the success of the renderer:

    conf_expr / confP_expr   KEY LEMMAS: a validated tree of the parser's shape that renders is in the fragment —
                             the renderer has itself checked every text (`literal`: UTF-8 / NUL; `serialize`: column
                             names; `rang`: commas), Fuzzy / Boost have no render function, floats are finite (fix F4)
    query_floats_finite      every float leaf of a parse result is finite (`shape_flt`)
    query_confined           parseQuery = .ok e → valsAtomic e → render pgFns e = .ok t → depthOK e →
                               parseSql t = toAstW e ∧ columns are fields of e ∧ constants are renderings of values of e
    query_confined_iff       for a parse result that renders: confinedFilter e ↔ valsAtomic e  (exact characterisation)
    query_confined_param     … → valsAtomic e → fieldsCols e → renderParam pgFns e = .ok (sqlP, ps) → depthOK e →
                               parseSql sqlP = toAstP e ∧ paramsP e = some ps ∧ placeholders are 1..n ∧ provenance
    query_confinedParam_iff  for a parse result that RenderParam renders: confinedParam e ↔ valsAtomic e ∧ fieldsCols e
    query_sql_means_query    C03 end to end: parseQuery = .ok e → cleanFilter e → render = .ok t → depthOK e →
                               ∀ row, (parseSql t).bind (evalSql row) = evalL row e   (`textClean` is derived)

  THE TWO EXCLUSIONS (decidable predicates on the tree) and why they are there
    valsAtomic e   the value of every `f:v` / `f:>v` … node is a term.  `lucene.Parse` also accepts a parenthesised
                   SUB-QUERY as value (`a:(b AND c)`, `a:>(b OR c)`, `a:(b:c)`; `a:(x OR y)` with only literals becomes
                   a value list and is inside).  FINDING `grouped_value_outside` (whole parser, ASCII class table):
                   `a:(b AND c)` renders to  "a" = ('b' AND 'c') ; the tree is outside `confinedFilter`, `toAstW` is
                   `none`, so the unrestricted statement is false (`query_confined_full_false`).  PostgreSQL's GRAMMAR
                   still reads the text as one predicate over the query's own column and constants
                   (`grouped_value_still_one_predicate`) — it is the proved FRAGMENT that ends here, not confinement —
                   but the predicate compares a column with a boolean expression over text constants, which
                   PostgreSQL's analyser rejects: the query is accepted and rendered into SQL that cannot run.
    fieldsCols e   (parameter mode only) every field position holds a column.  `5:[1 TO 2]` keeps the NUMBER 5 in field
                   position; FINDING `numeric_field_query` (recorded class K-numfield-range, now through the whole
                   parser): RenderParam answers  ? >= ? AND ? <= ?  with THREE parameters — `$4` has no value
                   (`numeric_field_placeholders`, `query_confined_param_needs_fieldsCols`).  The inline theorem covers it.
  The unrestricted statements with `toAstW` / `toAstP` are false as stated (see above).  Proofs/SqlQueryX.lean extends
  the rendered shapes of SqlWideG1 by `atom op ( expr )` and the translations accordingly (`toAstX`, `toAstPX`), and
  proves C02 over queries WITHOUT `valsAtomic` (`SqlQueryX.query_confined_full`, `query_confined_param_full`); the
  depth hypothesis must then count sub-queries in value position (`depthOKX`; `SqlQueryX.need_depthX`).
-/
set_option linter.unusedSimpArgs false
set_option linter.unusedVariables false

namespace GoLucene.SqlQuery
open GoLucene Sql SqlMeaning SqlText SqlWide NoPanic

/-! ## 1. the exclusion: the value of `f:v` / `f:>v` is a term -/

mutual
def valsAtomicNode : Node → Bool
  | .expr e => valsAtomic e
  | _ => true
/-- in every `field:value` / `field:>value` (… `>=`, `<`, `<=`) node the VALUE is a single term (a leaf expression or
    a raw value), not a parenthesised sub-query such as `a:(b AND c)` -/
def valsAtomic : Expr → Bool
  | .mk l o r _ _ =>
    match o with
    | .and | .or => valsAtomicNode l && valsAtomicNode r
    | .not | .mustNot | .must => valsAtomicNode l
    | .equals | .greater | .less | .greaterEq | .lessEq => (opdPrim r).isSome
    | _ => true
end

/-! ## 2. inversion of a successful render -/

theorem fnLiteral_inv {x r t : Bytes} (h : fnLiteral x r = .ok t) : t = x ∧ textOk x = true := by
  unfold fnLiteral at h
  split at h
  · cases h
  · rename_i h1
    split at h
    · cases h
    · rename_i h2
      cases h
      refine ⟨rfl, ?_⟩
      simp only [textOk, Bool.and_eq_true, Bool.not_eq_true']
      exact ⟨by simpa using h1, Bool.eq_false_iff.mpr h2⟩

theorem render_inv {l r : Node} {o : Op} {p : F64} {d : Int} {t : Bytes} (h : render pgFns (.mk l o r p d) = .ok t) :
    ∃ left right fn, serialize pgFns l = .ok left ∧ serialize pgFns r = .ok right ∧ pgFns o = some fn ∧
      fn (if parenOps o && !isSimple l then parenB left else left)
         (if parenOps o && !isSimple r then parenB right else right) = .ok t := by
  simp only [render] at h
  cases hl : serialize pgFns l <;> simp only [hl] at h <;> try (cases h; done)
  cases hr : serialize pgFns r <;> simp only [hr] at h <;> try (cases h; done)
  cases hf : pgFns o <;> simp only [hf] at h <;> try (cases h; done)
  exact ⟨_, _, _, rfl, rfl, rfl, h⟩

theorem isSimple_shape {q : Prim} (h : primShape q = true) : isSimple (.prim q) = true := by
  cases q <;> simp_all [primShape, cleanPrim, isSimple]

/-- a leaf that renders passes the renderer's own text test -/
theorem leaf_text (q : Prim) (o : Op) (p : F64) (d : Int) (t : Bytes) (ho : leafOp o = true)
    (hs : primShape q = true) (h : render pgFns (.mk (.prim q) o .nil p d) = .ok t) : primTextW q = true := by
  obtain ⟨left, right, fn, hl, _, hfn, hfn2⟩ := render_inv h
  rw [pgFns_leaf ho] at hfn
  cases hfn
  rw [isSimple_shape hs] at hfn2
  simp only [Bool.not_true, Bool.and_false, Bool.false_eq_true, ↓reduceIte] at hfn2
  have hok := (fnLiteral_inv hfn2).2
  cases q with
  | col f =>
    simp only [serialize, serializeCol] at hl
    split at hl
    · cases hl
    · rename_i h1
      split at hl
      · cases hl
      · rename_i h2
        cases hl
        simp only [primTextW, Bool.and_eq_true, Bool.not_eq_true']
        exact ⟨⟨by simpa using h1, Bool.eq_false_iff.mpr h2⟩, hok⟩
  | str s =>
    simp only [serialize] at hl
    cases hl
    exact hok
  | int i => rfl
  | flt f => rfl
  | _ => simp [primShape, cleanPrim] at hs

/-- … and its text is the serialized raw value -/
theorem leaf_render (q : Prim) (o : Op) (p : F64) (d : Int) (t : Bytes) (ho : leafOp o = true)
    (hs : primShape q = true) (h : render pgFns (.mk (.prim q) o .nil p d) = .ok t) :
    serialize pgFns (.prim q) = .ok t := by
  obtain ⟨left, right, fn, hl, _, hfn, hfn2⟩ := render_inv h
  rw [pgFns_leaf ho] at hfn
  cases hfn
  rw [isSimple_shape hs] at hfn2
  simp only [Bool.not_true, Bool.and_false, Bool.false_eq_true, ↓reduceIte] at hfn2
  rw [(fnLiteral_inv hfn2).1]
  exact hl

/-! ## 3. inversion of the parser's shape -/

theorem semNodeT_inv {n : Node} (h : semNodeT n = true) : ∃ a, n = .expr a ∧ semShapeT a = true := by
  cases n <;> simp [semNodeT] at h
  exact ⟨_, rfl, h⟩

theorem finite_of_not {f : F64} (h1 : f.isInf = false) (h2 : f.isNaN = false) : f.isFinite = true := by
  simp only [F64.isInf, F64.isNaN, F64.isFinite, beq_eq_false_iff_ne, ne_eq, decide_eq_false_iff_not,
    decide_eq_true_eq] at *
  omega

theorem leafOp_of_isLeafOp {o : Op} (h : o.isLeafOp = true) : leafOp o = true := by
  revert h; cases o <;> decide

theorem isLeafOp_of_validator {o : Op} (h : (decide (o = .literal) || decide (o = .wild) || decide (o = .regexp)) = true) :
    o.isLeafOp = true := h

/-- a term leaf: a leaf operator over a string, an int or a FINITE float (fix F4) -/
theorem termLeaf_inv {e : Expr} (h : termLeaf e = true) :
    ∃ q o p d, e = .mk (.prim q) o .nil p d ∧ leafOp o = true ∧ cleanPrim q = true := by
  obtain ⟨l, o, r, p, d⟩ := e
  cases l with
  | prim q =>
    cases r <;> simp only [termLeaf] at h <;> try (cases h; done)
    cases q with
    | str s => exact ⟨_, _, _, _, rfl, leafOp_of_isLeafOp h, rfl⟩
    | int i =>
      simp only [decide_eq_true_eq] at h
      subst h
      exact ⟨_, _, _, _, rfl, rfl, rfl⟩
    | flt f =>
      simp only [Bool.and_eq_true, decide_eq_true_eq, Bool.not_eq_true'] at h
      obtain ⟨⟨rfl, h1⟩, h2⟩ := h
      exact ⟨_, _, _, _, rfl, rfl, finite_of_not h1 h2⟩
    | _ => cases h
  | _ => simp [termLeaf] at h

theorem primShape_of_clean {q : Prim} (h : cleanPrim q = true) : primShape q = true := by
  cases q <;> simp_all [primShape, cleanPrim]

/-- a validated leaf expression of the parser's shape is a term leaf -/
theorem leafexpr_inv {a : Expr} (hs : semShapeT a = true) (hv : isLiteralExpr (.expr a) = true) : termLeaf a = true := by
  obtain ⟨l, o, r, p, d⟩ := a
  simp only [isLiteralExpr, Bool.and_eq_true] at hv
  exact termLeaf_of_shapeT_leafop _ hs hv.1

/-- the field position of a validated predicate: a leaf over a column (the wrapped field name), an int or a finite float -/
theorem field_inv {l : Node} (hs : (semNodeT l || isColField l) = true) (hv : isLiteralExpr l = true) :
    ∃ q o p d, l = .expr (.mk (.prim q) o .nil p d) ∧ leafOp o = true ∧ primShape q = true := by
  cases hc : isColField l with
  | true =>
    unfold isColField at hc
    split at hc
    · exact ⟨_, _, _, _, rfl, rfl, rfl⟩
    · cases hc
  | false =>
    rw [hc, Bool.or_false] at hs
    obtain ⟨a, rfl, ha⟩ := semNodeT_inv hs
    obtain ⟨q, o, p, d, rfl, ho, hq⟩ := termLeaf_inv (leafexpr_inv ha hv)
    exact ⟨_, _, _, _, rfl, ho, primShape_of_clean hq⟩

/-- the items of a value list -/
theorem items_conf : ∀ (es : ExprList) (ss : List Bytes), allTermLit es = true → serializeList pgFns es = .ok ss →
    itemsOKW es = true ∧ itemsTextW es = true
  | .nil, _, _, _ => by simp [itemsOKW, itemsTextW]
  | .cons e t, ss, h, hr => by
    simp only [allTermLit, Bool.and_eq_true] at h
    obtain ⟨q, o, p, d, rfl, ho, hq⟩ := termLeaf_inv h.1.1
    simp only [serializeList] at hr
    cases h1 : render pgFns (.mk (.prim q) o .nil p d) <;> simp only [h1] at hr <;> try (cases hr; done)
    cases h2 : serializeList pgFns t <;> simp only [h2] at hr <;> try (cases hr; done)
    have ih := items_conf t _ h.2 h2
    have hsh : primShape q = true := primShape_of_clean hq
    have ht := leaf_text q o p d _ ho hsh h1
    simp [itemsOKW, itemsTextW, ho, hsh, ht, ih.1, ih.2]

theorem mem_sqlQuote_comma {s : Bytes} (h : s.contains 44 = true) : (44 : UInt8) ∈ sqlQuote s := by
  have hm : (44 : UInt8) ∈ s := by simpa using h
  simp only [sqlQuote, replaceByte, List.mem_append, List.mem_flatMap, List.mem_singleton]
  exact .inl (.inr ⟨44, hm, by decide⟩)

/-! ## 3b. fix F4 over queries: every float leaf of a tree of the parser's shape is finite -/

theorem allTermLit_flt : ∀ es : ExprList, allTermLit es = true → ∀ f, Prim.flt f ∈ leavesList es → f.isFinite = true
  | .nil, _, f, hf => by simp [leavesList] at hf
  | .cons e t, h, f, hf => by
    simp only [allTermLit, Bool.and_eq_true] at h
    obtain ⟨q, o, p, d, rfl, ho, hq⟩ := termLeaf_inv h.1.1
    simp only [leavesList, leaves, leavesNode, List.mem_append, List.mem_singleton, List.not_mem_nil, or_false] at hf
    rcases hf with hf | hf
    · subst hf; exact hq
    · exact allTermLit_flt t h.2 f hf

mutual
theorem shape_flt_node : ∀ n : Node, (semNodeT n || isColField n) = true → ∀ f, Prim.flt f ∈ leavesNode n →
    f.isFinite = true
  | .expr e, h, f, hf => by
    simp only [leavesNode] at hf
    cases hc : isColField (.expr e) with
    | true =>
      unfold isColField at hc
      split at hc
      · rename_i heq
        cases heq
        simp [leaves, leavesNode] at hf
      · cases hc
    | false =>
      rw [hc, Bool.or_false] at h
      simp only [semNodeT] at h
      exact shape_flt e h f hf
  | .nil, _, f, hf => by simp [leavesNode] at hf
  | .prim _, h, _, _ => by simp [semNodeT, isColField] at h
  | .list _, h, _, _ => by simp [semNodeT, isColField] at h
  | .bound _ _ _, h, _, _ => by simp [semNodeT, isColField] at h
theorem shape_flt : ∀ e : Expr, semShapeT e = true → ∀ f, Prim.flt f ∈ leaves e → f.isFinite = true
  | .mk l o r p d, hs, f, hf => by
    simp only [leaves, List.mem_append] at hf
    have leafcase : termLeaf (.mk l o r p d) = true → f.isFinite = true := by
      intro h
      obtain ⟨q, o', p', d', e, _, hq⟩ := termLeaf_inv h
      cases e
      simp only [leavesNode, List.mem_singleton, List.not_mem_nil, or_false] at hf
      subst hf; exact hq
    have two : (semNodeT l || isColField l) = true → (semNodeT r || isColField r) = true → f.isFinite = true := by
      intro h1 h2
      rcases hf with hf | hf
      · exact shape_flt_node l h1 f hf
      · exact shape_flt_node r h2 f hf
    have one : (semNodeT l || isColField l) = true → r.isNil = true → f.isFinite = true := by
      intro h1 h2
      cases r <;> simp [Node.isNil] at h2
      rcases hf with hf | hf
      · exact shape_flt_node l h1 f hf
      · simp [leavesNode] at hf
    cases o with
    | undefined => simp [semShapeT] at hs
    | list => simp [semShapeT] at hs
    | literal => simp only [semShapeT] at hs; exact leafcase hs
    | wild => simp only [semShapeT] at hs; exact leafcase hs
    | regexp => simp only [semShapeT] at hs; exact leafcase hs
    | and => simp only [semShapeT, Bool.and_eq_true] at hs; exact two (by simp [hs.1]) (by simp [hs.2])
    | or => simp only [semShapeT, Bool.and_eq_true] at hs; exact two (by simp [hs.1]) (by simp [hs.2])
    | equals => simp only [semShapeT, Bool.and_eq_true] at hs; exact two hs.1 (by simp [hs.2])
    | greater => simp only [semShapeT, Bool.and_eq_true] at hs; exact two hs.1 (by simp [hs.2])
    | less => simp only [semShapeT, Bool.and_eq_true] at hs; exact two hs.1 (by simp [hs.2])
    | greaterEq => simp only [semShapeT, Bool.and_eq_true] at hs; exact two hs.1 (by simp [hs.2])
    | lessEq => simp only [semShapeT, Bool.and_eq_true] at hs; exact two hs.1 (by simp [hs.2])
    | not => simp only [semShapeT, Bool.and_eq_true] at hs; exact one (by simp [hs.1]) hs.2
    | must => simp only [semShapeT, Bool.and_eq_true] at hs; exact one (by simp [hs.1]) hs.2
    | mustNot => simp only [semShapeT, Bool.and_eq_true] at hs; exact one (by simp [hs.1]) hs.2
    | fuzzy => simp only [semShapeT, Bool.and_eq_true] at hs; exact one (by simp [hs.1]) hs.2
    | boost => simp only [semShapeT, Bool.and_eq_true] at hs; exact one (by simp [hs.1]) hs.2
    | like =>
      simp only [semShapeT, Bool.and_eq_true] at hs
      rcases hf with hf | hf
      · exact shape_flt_node l hs.1 f hf
      · cases r with
        | expr re =>
          simp only [Bool.and_eq_true] at hs
          obtain ⟨q', o', p', d', rfl, ho', hq'⟩ := termLeaf_inv hs.2.1
          simp only [leavesNode, leaves, List.mem_append, List.mem_singleton, List.not_mem_nil, or_false] at hf
          subst hf; exact hq'
        | _ => simp at hs
    | in_ =>
      simp only [semShapeT, Bool.and_eq_true] at hs
      rcases hf with hf | hf
      · exact shape_flt_node l hs.1 f hf
      · have hs2 := hs.2
        split at hs2
        · rename_i es p2 d2
          simp only [Bool.and_eq_true] at hs2
          simp only [leavesNode, leaves, List.mem_append, List.not_mem_nil, or_false] at hf
          exact allTermLit_flt es hs2.1 f hf
        · cases hs2
    | range =>
      unfold semShapeT at hs
      simp only [Bool.and_eq_true] at hs
      rcases hf with hf | hf
      · exact shape_flt_node l hs.1 f hf
      · cases r with
        | bound mn mx incl =>
          simp only [leavesNode, List.mem_append] at hf
          have hs2 := hs.2
          split at hs2
          · rename_i a c incl' heq
            cases heq
            simp only [Bool.and_eq_true] at hs2
            rcases hf with hf | hf
            · exact shape_flt_node (.expr a) (by simp [semNodeT, hs2.1]) f hf
            · exact shape_flt_node (.expr c) (by simp [semNodeT, hs2.2]) f hf
          · cases hs2
        | _ => simp at hs
end

/-! ## 4. a tree of the parser's shape that renders is in the wide confinement fragment -/

/-- the comparison-like case, shared by `=`, `>`, `<`, `>=`, `<=` -/
theorem conf_cmp (l r : Node) (o : Op) (p : F64) (d : Int) (left right : Bytes)
    (hsl : (semNodeT l || isColField l) = true) (hsr : semNodeT r = true) (hvl : isLiteralExpr l = true)
    (hx : (opdPrim r).isSome = true) (hl : serialize pgFns l = .ok left) (hr : serialize pgFns r = .ok right) :
    (opdOK l && opdOK r) = true ∧ (opdTextW l && opdTextW r) = true := by
  obtain ⟨q, ol, pl, dl, rfl, hol, hq⟩ := field_inv hsl hvl
  obtain ⟨a, rfl, ha⟩ := semNodeT_inv hsr
  obtain ⟨q', hq'⟩ := Option.isSome_iff_exists.mp hx
  rcases opdPrim_inv hq' with ⟨o', p', d', he, ho'⟩ | he
  · cases he
    have hc : cleanPrim q' = true := by
      obtain ⟨q2, o2, p2, d2, e2, _, hq2⟩ := termLeaf_inv (termLeaf_of_shapeT_leafop _ ha (by
        rcases leafOp_cases ho' with rfl | rfl | rfl <;> rfl))
      cases e2; exact hq2
    have hs' := primShape_of_clean hc
    rw [serialize_expr] at hl hr
    have t1 := leaf_text q ol pl dl _ hol hq hl
    have t2 := leaf_text q' o' p' d' _ ho' hs' hr
    simp only [opdOK, opdTextW, opdPrim_leaf _ _ _ _ hol, opdPrim_leaf _ _ _ _ ho', hq, hs', t1, t2, Bool.and_self,
      and_self]
  · cases he

mutual
theorem conf_node : ∀ (n : Node) (t : Bytes), semNodeT n = true → validateNode n = true → valsAtomicNode n = true →
    serialize pgFns n = .ok t → confinedNode n = true ∧ textWideNode n = true
  | .expr e, t, hs, hv, hx, hr => by
    simp only [semNodeT] at hs
    simp only [validateNode] at hv
    simp only [valsAtomicNode] at hx
    rw [serialize_expr] at hr
    simp only [confinedNode, textWideNode]
    exact conf_expr e t hs hv hx hr
  | .nil, _, hs, _, _, _ => by simp [semNodeT] at hs
  | .prim _, _, hs, _, _, _ => by simp [semNodeT] at hs
  | .list _, _, hs, _, _, _ => by simp [semNodeT] at hs
  | .bound _ _ _, _, hs, _, _, _ => by simp [semNodeT] at hs
/-- KEY LEMMA: for a tree of the parser's shape (`semShapeT`) that passes Validate and whose comparison values are
    terms, success of the PostgreSQL renderer implies membership in the wide confinement fragment: the renderer has
    itself checked every text (`literal`: UTF-8, NUL; `serialize`: column names; `rang`: commas), Fuzzy / Boost have no
    render function, floats are finite (fix F4, recorded in `termLeaf`) -/
theorem conf_expr : ∀ (e : Expr) (t : Bytes), semShapeT e = true → validateExpr e = true → valsAtomic e = true →
    render pgFns e = .ok t → confinedFilter e = true ∧ textWide e = true
  | .mk l o r p d, t, hs, hv, hx, hr => by
    obtain ⟨hop, hvl, hvr⟩ := validate_top l o r p d hv
    obtain ⟨left, right, fn, hl, hrr, hfn, hfn2⟩ := render_inv hr
    cases o with
    | undefined => simp [semShapeT] at hs
    | list => simp [semShapeT] at hs
    | fuzzy => cases hfn
    | boost => cases hfn
    | and =>
      simp only [semShapeT, Bool.and_eq_true] at hs
      simp only [valsAtomic, Bool.and_eq_true] at hx
      have h1 := conf_node l left hs.1 hvl hx.1 hl
      have h2 := conf_node r right hs.2 hvr hx.2 hrr
      simp only [confinedFilter, textWide, h1.1, h1.2, h2.1, h2.2, Bool.and_self, and_self]
    | or =>
      simp only [semShapeT, Bool.and_eq_true] at hs
      simp only [valsAtomic, Bool.and_eq_true] at hx
      have h1 := conf_node l left hs.1 hvl hx.1 hl
      have h2 := conf_node r right hs.2 hvr hx.2 hrr
      simp only [confinedFilter, textWide, h1.1, h1.2, h2.1, h2.2, Bool.and_self, and_self]
    | not =>
      simp only [semShapeT, Bool.and_eq_true] at hs
      simp only [valsAtomic] at hx
      have h1 := conf_node l left hs.1 hvl hx hl
      simp only [confinedFilter, textWide, h1.1, h1.2, hs.2, Bool.and_self, and_self]
    | must =>
      simp only [semShapeT, Bool.and_eq_true] at hs
      simp only [valsAtomic] at hx
      have h1 := conf_node l left hs.1 hvl hx hl
      simp only [confinedFilter, textWide, h1.1, h1.2, hs.2, Bool.and_self, and_self]
    | mustNot =>
      simp only [semShapeT, Bool.and_eq_true] at hs
      simp only [valsAtomic] at hx
      have h1 := conf_node l left hs.1 hvl hx hl
      simp only [confinedFilter, textWide, h1.1, h1.2, hs.2, Bool.and_self, and_self]
    | literal =>
      simp only [semShapeT] at hs
      obtain ⟨q, o, p', d', e, ho, hq⟩ := termLeaf_inv hs
      cases e
      have hsh := primShape_of_clean hq
      have ht := leaf_text q _ p d t rfl hsh hr
      simp only [confinedFilter, textWide, hsh, ht, Node.isNil, Bool.and_self, and_self]
    | wild =>
      simp only [semShapeT] at hs
      obtain ⟨q, o, p', d', e, ho, hq⟩ := termLeaf_inv hs
      cases e
      have hsh := primShape_of_clean hq
      have ht := leaf_text q _ p d t rfl hsh hr
      simp only [confinedFilter, textWide, hsh, ht, Node.isNil, Bool.and_self, and_self]
    | regexp =>
      simp only [semShapeT] at hs
      obtain ⟨q, o, p', d', e, ho, hq⟩ := termLeaf_inv hs
      cases e
      have hsh := primShape_of_clean hq
      have ht := leaf_text q _ p d t rfl hsh hr
      simp only [confinedFilter, textWide, hsh, ht, Node.isNil, Bool.and_self, and_self]
    | equals =>
      simp only [semShapeT, Bool.and_eq_true] at hs
      simp only [valsAtomic] at hx
      simp only [validateOp, Expr.op, Expr.left, Option.some.injEq] at hop
      simpa only [confinedFilter, textWide] using conf_cmp l r .equals p d left right hs.1 hs.2 hop hx hl hrr
    | greater =>
      simp only [semShapeT, Bool.and_eq_true] at hs
      simp only [valsAtomic] at hx
      simp only [validateOp, Expr.op, Expr.left, Option.some.injEq] at hop
      simpa only [confinedFilter, textWide] using conf_cmp l r .greater p d left right hs.1 hs.2 hop hx hl hrr
    | less =>
      simp only [semShapeT, Bool.and_eq_true] at hs
      simp only [valsAtomic] at hx
      simp only [validateOp, Expr.op, Expr.left, Option.some.injEq] at hop
      simpa only [confinedFilter, textWide] using conf_cmp l r .less p d left right hs.1 hs.2 hop hx hl hrr
    | greaterEq =>
      simp only [semShapeT, Bool.and_eq_true] at hs
      simp only [valsAtomic] at hx
      simp only [validateOp, Expr.op, Expr.left, Option.some.injEq] at hop
      simpa only [confinedFilter, textWide] using conf_cmp l r .greaterEq p d left right hs.1 hs.2 hop hx hl hrr
    | lessEq =>
      simp only [semShapeT, Bool.and_eq_true] at hs
      simp only [valsAtomic] at hx
      simp only [validateOp, Expr.op, Expr.left, Option.some.injEq] at hop
      simpa only [confinedFilter, textWide] using conf_cmp l r .lessEq p d left right hs.1 hs.2 hop hx hl hrr
    | like =>
      simp only [semShapeT, Bool.and_eq_true] at hs
      simp only [validateOp, Expr.op, Expr.left, Expr.right, Option.some.injEq, Bool.and_eq_true] at hop
      obtain ⟨q, ol, pl, dl, rfl, hol, hq⟩ := field_inv hs.1 hop.1.1.2
      cases r with
      | expr re =>
        simp only [Bool.and_eq_true] at hs
        obtain ⟨q', o', p', d', rfl, ho', hq'⟩ := termLeaf_inv hs.2.1
        have hstr : ∃ s, q' = .str s := by
          have h2 := hs.2.1
          have h3 := hs.2.2
          cases q' <;> simp_all [termLeaf, Expr.op]
        obtain ⟨s, rfl⟩ := hstr
        rw [serialize_expr] at hl hrr
        have t1 := leaf_text q ol pl dl _ hol hq hl
        have t2 := leaf_text (.str s) o' p' d' _ ho' rfl hrr
        simp only [confinedFilter, textWide, opdOK, opdTextW, patOK, opdPrim_leaf _ _ _ _ hol, opdPrim_leaf _ _ _ _ ho',
          hq, t1, t2, Bool.and_self, and_self]
      | _ => simp at hs
    | in_ =>
      simp only [semShapeT, Bool.and_eq_true] at hs
      simp only [validateOp, Expr.op, Expr.left, Expr.right, Option.some.injEq, Bool.and_eq_true] at hop
      obtain ⟨q, ol, pl, dl, rfl, hol, hq⟩ := field_inv hs.1 hop.1.1.2
      rw [serialize_expr] at hl
      have t1 := leaf_text q ol pl dl _ hol hq hl
      have hs2 := hs.2
      split at hs2
      · rename_i es p2 d2
        simp only [Bool.and_eq_true, decide_eq_true_eq] at hs2
        rw [serialize_expr] at hrr
        obtain ⟨l2, r2, fn2, hl2, _, _, _⟩ := render_inv hrr
        simp only [serialize] at hl2
        cases hsl : serializeList pgFns es <;> simp only [hsl] at hl2 <;> try (cases hl2; done)
        have hi := items_conf es _ hs2.1 hsl
        cases es with
        | nil => simp [ExprList.length, ExprList.toList] at hs2
        | cons e1 t1' =>
          simp only [confinedFilter, textWide, opdOK, opdTextW, listOKW, opdPrim_leaf _ _ _ _ hol, hq, t1, hi.1, hi.2,
            Bool.and_self, and_self]
      · cases hs2
    | range =>
      unfold semShapeT at hs
      simp only [Bool.and_eq_true] at hs
      simp only [validateOp, Expr.op, Expr.left, Expr.right, Option.some.injEq, Bool.and_eq_true] at hop
      obtain ⟨q, ol, pl, dl, rfl, hol, hq⟩ := field_inv hs.1 hop.1.2
      have hl' := hl
      rw [serialize_expr] at hl'
      have t1 := leaf_text q ol pl dl _ hol hq hl'
      have hs2 := hs.2
      split at hs2
      · rename_i a c incl
        simp only [Bool.and_eq_true] at hs2 hop
        obtain ⟨qa, oa, pa, da, rfl, hoa, hqa⟩ := termLeaf_inv (leafexpr_inv hs2.1 hop.2.1.2)
        obtain ⟨qc, oc, pc, dc, rfl, hoc, hqc⟩ := termLeaf_inv (leafexpr_inv hs2.2 hop.2.2)
        have hb := hrr
        simp only [serialize] at hb
        cases ha : render pgFns (.mk (.prim qa) oa .nil pa da) <;> simp only [ha] at hb <;> try (cases hb; done)
        cases hc : render pgFns (.mk (.prim qc) oc .nil pc dc) <;> simp only [hc] at hb <;> try (cases hb; done)
        rename_i smin smax
        have ta := leaf_text qa oa pa da _ hoa (primShape_of_clean hqa) ha
        have tc := leaf_text qc oc pc dc _ hoc (primShape_of_clean hqc) hc
        have sa := leaf_render qa oa pa da _ hoa (primShape_of_clean hqa) ha
        have sc := leaf_render qc oc pc dc _ hoc (primShape_of_clean hqc) hc
        have nocomma : ¬ ((44 : UInt8) ∈ smin ∨ (44 : UInt8) ∈ smax) := by
          intro hcm
          have := range_comma_err (.expr (.mk (.prim q) ol .nil pl dl)) (.expr (.mk (.prim qa) oa .nil pa da))
            (.expr (.mk (.prim qc) oc .nil pc dc)) incl p d left smin smax hl (by rw [serialize_expr]; exact ha)
            (by rw [serialize_expr]; exact hc) hcm
          rw [this] at hr
          cases hr
        have ba : bndTextW (.expr (.mk (.prim qa) oa .nil pa da)) = true := by
          simp only [bndTextW, opdPrim_leaf _ _ _ _ hoa]
          cases qa with
          | str s =>
            simp only [Bool.and_eq_true, Bool.not_eq_true']
            refine ⟨ta, ?_⟩
            cases hcm : s.contains 44 with
            | false => rfl
            | true =>
              simp only [serialize] at sa
              cases sa
              exact absurd (.inl (mem_sqlQuote_comma hcm)) nocomma
          | _ => rfl
        have bc : bndTextW (.expr (.mk (.prim qc) oc .nil pc dc)) = true := by
          simp only [bndTextW, opdPrim_leaf _ _ _ _ hoc]
          cases qc with
          | str s =>
            simp only [Bool.and_eq_true, Bool.not_eq_true']
            refine ⟨tc, ?_⟩
            cases hcm : s.contains 44 with
            | false => rfl
            | true =>
              simp only [serialize] at sc
              cases sc
              exact absurd (.inr (mem_sqlQuote_comma hcm)) nocomma
          | _ => rfl
        simp only [confinedFilter, textWide, opdOK, opdTextW, rangeOKW, valOK, opdPrim_leaf _ _ _ _ hol,
          opdPrim_leaf _ _ _ _ hoa, opdPrim_leaf _ _ _ _ hoc, hq, t1, hqa, hqc, ba, bc, Bool.and_self, and_self]
      · cases hs2
end

/-! ## 5. the exclusion is exactly the difference -/

mutual
theorem valsAtomicNode_of_confined : ∀ n : Node, confinedNode n = true → valsAtomicNode n = true
  | .expr e, h => by
    simp only [confinedNode] at h
    simp only [valsAtomicNode]
    exact valsAtomic_of_confined e h
  | .nil, _ => by simp [valsAtomicNode]
  | .prim _, _ => by simp [valsAtomicNode]
  | .list _, _ => by simp [valsAtomicNode]
  | .bound _ _ _, _ => by simp [valsAtomicNode]
/-- every tree of the wide fragment satisfies the exclusion predicate -/
theorem valsAtomic_of_confined : ∀ e : Expr, confinedFilter e = true → valsAtomic e = true
  | .mk l o r p d, h => by
    cases o with
    | and =>
      simp only [confinedFilter, Bool.and_eq_true] at h
      simp only [valsAtomic, valsAtomicNode_of_confined l h.1, valsAtomicNode_of_confined r h.2, Bool.and_self]
    | or =>
      simp only [confinedFilter, Bool.and_eq_true] at h
      simp only [valsAtomic, valsAtomicNode_of_confined l h.1, valsAtomicNode_of_confined r h.2, Bool.and_self]
    | not =>
      simp only [confinedFilter, Bool.and_eq_true] at h
      simp only [valsAtomic, valsAtomicNode_of_confined l h.1]
    | must =>
      simp only [confinedFilter, Bool.and_eq_true] at h
      simp only [valsAtomic, valsAtomicNode_of_confined l h.1]
    | mustNot =>
      simp only [confinedFilter, Bool.and_eq_true] at h
      simp only [valsAtomic, valsAtomicNode_of_confined l h.1]
    | equals =>
      simp only [confinedFilter, Bool.and_eq_true] at h
      obtain ⟨q, hq, _⟩ := opdOK_inv h.2
      simp only [valsAtomic, hq, Option.isSome_some]
    | greater =>
      simp only [confinedFilter, Bool.and_eq_true] at h
      obtain ⟨q, hq, _⟩ := opdOK_inv h.2
      simp only [valsAtomic, hq, Option.isSome_some]
    | less =>
      simp only [confinedFilter, Bool.and_eq_true] at h
      obtain ⟨q, hq, _⟩ := opdOK_inv h.2
      simp only [valsAtomic, hq, Option.isSome_some]
    | greaterEq =>
      simp only [confinedFilter, Bool.and_eq_true] at h
      obtain ⟨q, hq, _⟩ := opdOK_inv h.2
      simp only [valsAtomic, hq, Option.isSome_some]
    | lessEq =>
      simp only [confinedFilter, Bool.and_eq_true] at h
      obtain ⟨q, hq, _⟩ := opdOK_inv h.2
      simp only [valsAtomic, hq, Option.isSome_some]
    | _ => simp only [valsAtomic]
end

/-! ## 6. QUERIES: the inline text -/

section Query
variable (env : Env) (s df : Bytes) (e : Expr)

/-- for a parse result whose comparison values are terms, success of the renderer puts it in the wide fragment -/
theorem query_in_fragment (t : Bytes) (h : parseQuery env s df = .ok e) (hx : valsAtomic e = true)
    (hr : render pgFns e = .ok t) : confinedFilter e = true ∧ textWide e = true := by
  obtain ⟨hs, hv⟩ := JsonParse.parse_shape env s df e h
  exact conf_expr e t hs hv hx hr

/-- **fix F4 over queries**: every float leaf of a parse result is finite (`parseLiteral` reads the NaN / Inf
    spellings as words), whatever the class table and the default field -/
theorem query_floats_finite (h : parseQuery env s df = .ok e) (f : F64) (hf : Prim.flt f ∈ leaves e) :
    f.isFinite = true :=
  shape_flt e (JsonParse.parse_shape env s df e h).1 f hf

/-- EXACT CHARACTERISATION: a parse result that renders is in the wide confinement fragment iff the value of each of
    its `f:v` / comparison nodes is a term (`valsAtomic`) -/
theorem query_confined_iff (t : Bytes) (h : parseQuery env s df = .ok e) (hr : render pgFns e = .ok t) :
    confinedFilter e = true ↔ valsAtomic e = true :=
  ⟨valsAtomic_of_confined e, fun hx => (query_in_fragment env s df e t h hx hr).1⟩

/-- … and then every text of it has passed the renderer's own tests -/
theorem query_textWide (t : Bytes) (h : parseQuery env s df = .ok e) (hr : render pgFns e = .ok t)
    (hc : confinedFilter e = true) : textWide e = true :=
  (query_in_fragment env s df e t h (valsAtomic_of_confined e hc) hr).2

/-- **C02 over queries (inline text).**  Every query that `lucene.Parse` accepts, whose comparison values are terms
    (`valsAtomic`: no `f:(sub-query)`), that the PostgreSQL renderer renders, and that nests within PostgreSQL's parser
    stack, yields exactly ONE confined predicate `toAstW e`; its column references are fields (and the default field)
    of the query, its constants are renderings of values of the query. -/
theorem query_confined (t : Bytes) (h : parseQuery env s df = .ok e) (hx : valsAtomic e = true)
    (hr : render pgFns e = .ok t) (hd : SqlText.depthOK e = true) :
    Sql.parseSql t = toAstW e ∧ ∀ a, Sql.parseSql t = some a →
      (∀ c ∈ cols a, Prim.col c ∈ leaves e) ∧ (∀ k ∈ consts a, ∃ q ∈ leaves e, k ∈ rendersOfW q) := by
  obtain ⟨hc, ht⟩ := query_in_fragment env s df e t h hx hr
  exact ⟨render_parses_wide e t hc ht hd hr, fun a ha => confined_cols_consts e t a hc ht hr ha⟩

/-- … and the predicate exists: PostgreSQL does read the text -/
theorem query_confined_some (t : Bytes) (h : parseQuery env s df = .ok e) (hx : valsAtomic e = true)
    (hr : render pgFns e = .ok t) (hd : SqlText.depthOK e = true) :
    ∃ a, Sql.parseSql t = some a ∧ toAstW e = some a := by
  obtain ⟨hc, ht⟩ := query_in_fragment env s df e t h hx hr
  obtain ⟨a, ha⟩ := toAstW_total e hc ht
  exact ⟨a, by rw [render_parses_wide e t hc ht hd hr, ha], ha⟩

/-- the exact form (no depth hypothesis): PostgreSQL rejects the text exactly when its parser stack would overflow -/
theorem query_confined_stack (t : Bytes) (h : parseQuery env s df = .ok e) (hx : valsAtomic e = true)
    (hr : render pgFns e = .ok t) : Sql.parseSql t = if stackOKW e then toAstW e else none := by
  obtain ⟨hc, ht⟩ := query_in_fragment env s df e t h hx hr
  exact render_parses_wide_iff e t hc ht hr

end Query

/-! ## 6b. QUERIES: the parameterized text -/

mutual
def fieldsColsNode : Node → Bool
  | .expr e => fieldsCols e
  | _ => true
/-- every FIELD position holds a column: no `5:x`, `1.5:[1 TO 2]` (a number before the colon stays a number; recorded
    finding K-numfield-range: under a two-sided range the parameterized text then has more `?` than parameters) -/
def fieldsCols : Expr → Bool
  | .mk l o r _ _ =>
    match o with
    | .and | .or => fieldsColsNode l && fieldsColsNode r
    | .not | .mustNot | .must => fieldsColsNode l
    | .equals | .greater | .less | .greaterEq | .lessEq | .like | .in_ | .range => fldOKP l
    | _ => true
end

theorem renderParam_inv {l r : Node} {o : Op} {p : F64} {d : Int} {x : Bytes × List Prim} :
    renderParam pgFns (.mk l o r p d) = .ok x →
    ∃ sl pl sr pr, serializeParams pgFns l = .ok (sl, pl) ∧ serializeParams pgFns r = .ok (sr, pr) := by
  rw [renderParam]
  cases h1 : serializeParams pgFns l with
  | err => simp
  | panic => simp
  | ok v =>
    obtain ⟨sl, pl⟩ := v
    cases h2 : serializeParams pgFns r with
    | err => simp
    | panic => simp
    | ok w =>
      obtain ⟨sr, pr⟩ := w
      intro _
      exact ⟨_, _, _, _, rfl, rfl⟩

/-- Fuzzy / Boost have no render function in parameter mode either -/
theorem renderParam_nofn (l r : Node) (o : Op) (p : F64) (d : Int) (x : Bytes × List Prim) (ho1 : o ≠ .like)
    (ho2 : o ≠ .range) (hfn : pgFns o = none) : renderParam pgFns (.mk l o r p d) ≠ .ok x := by
  rw [renderParam]
  cases h1 : serializeParams pgFns l with
  | err => simp
  | panic => simp
  | ok v =>
    obtain ⟨sl, pl⟩ := v
    cases h2 : serializeParams pgFns r with
    | err => simp
    | panic => simp
    | ok w =>
      obtain ⟨sr, pr⟩ := w
      simp only [ho1, ho2, if_false, hfn]
      simp

theorem serializeCol_inv {f s : Bytes} (h : serializeCol f = .ok s) :
    f.isEmpty = false ∧ f.any (· == 34) = false ∧ s = [34] ++ f ++ [34] := by
  unfold serializeCol at h
  split at h
  · cases h
  · rename_i h1
    split at h
    · cases h
    · rename_i h2
      cases h
      exact ⟨by simpa using h1, Bool.eq_false_iff.mpr h2, rfl⟩

/-- a column leaf that renders in parameter mode has passed the renderer's tests -/
theorem colLeaf_param (f : Bytes) (o : Op) (p : F64) (d : Int) (x : Bytes × List Prim) (ho : leafOp o = true)
    (h : renderParam pgFns (.mk (.prim (.col f)) o .nil p d) = .ok x) : primTextW (.col f) = true := by
  obtain ⟨sl, pl, sr, pr, h1, h2⟩ := renderParam_inv h
  rw [renderParam_of _ _ _ _ _ (leafOp_ne ho).1 (leafOp_ne ho).2 _ (pgFns_leaf ho) _ _ _ _ h1 h2] at h
  have hsim : isSimple (.prim (.col f)) = true := rfl
  rw [hsim] at h
  simp only [Bool.not_true, Bool.and_false, Bool.false_eq_true, ↓reduceIte] at h
  rw [sp_col] at h1
  cases hc : serializeCol f with
  | err => rw [hc] at h1; cases h1
  | panic => rw [hc] at h1; cases h1
  | ok s =>
    rw [hc] at h1
    cases h1
    obtain ⟨e1, e2, rfl⟩ := serializeCol_inv hc
    cases hf : fnLiteral ([34] ++ f ++ [34]) (if (parenOps o && !isSimple .nil) = true then parenB sr else sr) with
    | err => rw [hf] at h; cases h
    | panic => rw [hf] at h; cases h
    | ok t =>
      have hok := (fnLiteral_inv hf).2
      simp only [primTextW, e1, e2, hok, Bool.not_false, Bool.and_self]

/-- the items of a value list in parameter mode: nothing to check, values never reach the text -/
theorem items_confP : ∀ es : ExprList, allTermLit es = true → itemsOKP es = true ∧ itemsTextP es = true
  | .nil, _ => by simp [itemsOKP, itemsTextP]
  | .cons e t, h => by
    simp only [allTermLit, Bool.and_eq_true] at h
    obtain ⟨q, o, p, d, rfl, ho, hq⟩ := termLeaf_inv h.1.1
    have ih := items_confP t h.2
    obtain ⟨h1, _, h3⟩ := pShape_of_clean hq
    simp [itemsOKP, itemsTextP, ho, h1, h3, ih.1, ih.2]

/-- a column in field position of a validated predicate of the parser's shape that renders -/
theorem fieldP_inv {l : Node} {sl : Bytes} {pl : List Prim} (hs : (semNodeT l || isColField l) = true)
    (hv : isLiteralExpr l = true) (hf : fldOKP l = true) (hl : serializeParams pgFns l = .ok (sl, pl)) :
    opdTextP l = true := by
  obtain ⟨f, hf'⟩ := fldOKP_inv hf
  have hq := fldColOf_inv hf'
  rcases opdPrim_inv hq with ⟨o, p, d, rfl, ho⟩ | rfl
  · rw [sp_expr] at hl
    simp only [opdTextP, hq, pTextOK]
    exact colLeaf_param f o p d _ ho hl
  · simp [isLiteralExpr] at hv

/-- a term in value position -/
theorem valueP_inv {r : Node} (hsr : semNodeT r = true) (hx : (opdPrim r).isSome = true) :
    opdOKP r = true ∧ opdTextP r = true := by
  obtain ⟨a, rfl, ha⟩ := semNodeT_inv hsr
  obtain ⟨q', hq'⟩ := Option.isSome_iff_exists.mp hx
  rcases opdPrim_inv hq' with ⟨o', p', d', he, ho'⟩ | he
  · cases he
    have hc : cleanPrim q' = true := by
      obtain ⟨q2, o2, p2, d2, e2, _, hq2⟩ := termLeaf_inv (termLeaf_of_shapeT_leafop _ ha (by
        rcases leafOp_cases ho' with rfl | rfl | rfl <;> rfl))
      cases e2; exact hq2
    obtain ⟨h1, _, h3⟩ := pShape_of_clean hc
    simp only [opdOKP, opdTextP, hq', h1, h3, and_self]
  · cases he

mutual
theorem confP_node : ∀ (n : Node) (x : Bytes × List Prim), semNodeT n = true → validateNode n = true →
    valsAtomicNode n = true → fieldsColsNode n = true → serializeParams pgFns n = .ok x →
    confinedParamNode n = true ∧ textParamNode n = true
  | .expr e, x, hs, hv, hx, hf, hr => by
    simp only [semNodeT] at hs
    simp only [validateNode] at hv
    simp only [valsAtomicNode] at hx
    simp only [fieldsColsNode] at hf
    rw [sp_expr] at hr
    simp only [confinedParamNode, textParamNode]
    exact confP_expr e x hs hv hx hf hr
  | .nil, _, hs, _, _, _, _ => by simp [semNodeT] at hs
  | .prim _, _, hs, _, _, _, _ => by simp [semNodeT] at hs
  | .list _, _, hs, _, _, _, _ => by simp [semNodeT] at hs
  | .bound _ _ _, _, hs, _, _, _, _ => by simp [semNodeT] at hs
/-- KEY LEMMA (parameter mode): a validated tree of the parser's shape whose comparison values are terms and whose
    fields are columns, and that `renderParam` renders, is in the fragment `confinedParam` / `textParam` -/
theorem confP_expr : ∀ (e : Expr) (x : Bytes × List Prim), semShapeT e = true → validateExpr e = true →
    valsAtomic e = true → fieldsCols e = true → renderParam pgFns e = .ok x →
    confinedParam e = true ∧ textParam e = true
  | .mk l o r p d, x, hs, hv, hx, hf, hr => by
    obtain ⟨hop, hvl, hvr⟩ := validate_top l o r p d hv
    obtain ⟨sl, pl, sr, pr, hl, hrr⟩ := renderParam_inv hr
    cases o with
    | undefined => simp [semShapeT] at hs
    | list => simp [semShapeT] at hs
    | fuzzy => exact absurd hr (renderParam_nofn _ _ _ _ _ _ (by decide) (by decide) rfl)
    | boost => exact absurd hr (renderParam_nofn _ _ _ _ _ _ (by decide) (by decide) rfl)
    | and =>
      simp only [semShapeT, Bool.and_eq_true] at hs
      simp only [valsAtomic, Bool.and_eq_true] at hx
      simp only [fieldsCols, Bool.and_eq_true] at hf
      have h1 := confP_node l _ hs.1 hvl hx.1 hf.1 hl
      have h2 := confP_node r _ hs.2 hvr hx.2 hf.2 hrr
      simp only [confinedParam, textParam, h1.1, h1.2, h2.1, h2.2, Bool.and_self, and_self]
    | or =>
      simp only [semShapeT, Bool.and_eq_true] at hs
      simp only [valsAtomic, Bool.and_eq_true] at hx
      simp only [fieldsCols, Bool.and_eq_true] at hf
      have h1 := confP_node l _ hs.1 hvl hx.1 hf.1 hl
      have h2 := confP_node r _ hs.2 hvr hx.2 hf.2 hrr
      simp only [confinedParam, textParam, h1.1, h1.2, h2.1, h2.2, Bool.and_self, and_self]
    | not =>
      simp only [semShapeT, Bool.and_eq_true] at hs
      simp only [valsAtomic] at hx
      simp only [fieldsCols] at hf
      have h1 := confP_node l _ hs.1 hvl hx hf hl
      simp only [confinedParam, textParam, h1.1, h1.2, hs.2, Bool.and_self, and_self]
    | must =>
      simp only [semShapeT, Bool.and_eq_true] at hs
      simp only [valsAtomic] at hx
      simp only [fieldsCols] at hf
      have h1 := confP_node l _ hs.1 hvl hx hf hl
      simp only [confinedParam, textParam, h1.1, h1.2, hs.2, Bool.and_self, and_self]
    | mustNot =>
      simp only [semShapeT, Bool.and_eq_true] at hs
      simp only [valsAtomic] at hx
      simp only [fieldsCols] at hf
      have h1 := confP_node l _ hs.1 hvl hx hf hl
      simp only [confinedParam, textParam, h1.1, h1.2, hs.2, Bool.and_self, and_self]
    | literal =>
      simp only [semShapeT] at hs
      obtain ⟨q, o, p', d', e, ho, hq⟩ := termLeaf_inv hs
      cases e
      obtain ⟨h1, _, h3⟩ := pShape_of_clean hq
      simp only [confinedParam, textParam, h1, h3, Node.isNil, Bool.and_self, and_self]
    | wild =>
      simp only [semShapeT] at hs
      obtain ⟨q, o, p', d', e, ho, hq⟩ := termLeaf_inv hs
      cases e
      obtain ⟨h1, _, h3⟩ := pShape_of_clean hq
      simp only [confinedParam, textParam, h1, h3, Node.isNil, Bool.and_self, and_self]
    | regexp =>
      simp only [semShapeT] at hs
      obtain ⟨q, o, p', d', e, ho, hq⟩ := termLeaf_inv hs
      cases e
      obtain ⟨h1, _, h3⟩ := pShape_of_clean hq
      simp only [confinedParam, textParam, h1, h3, Node.isNil, Bool.and_self, and_self]
    | equals =>
      simp only [semShapeT, Bool.and_eq_true] at hs
      simp only [valsAtomic] at hx
      simp only [fieldsCols] at hf
      simp only [validateOp, Expr.op, Expr.left, Option.some.injEq] at hop
      have t1 := fieldP_inv hs.1 hop hf hl
      have t2 := valueP_inv hs.2 hx
      simp only [confinedParam, textParam, hf, t1, t2.1, t2.2, Bool.and_self, and_self]
    | greater =>
      simp only [semShapeT, Bool.and_eq_true] at hs
      simp only [valsAtomic] at hx
      simp only [fieldsCols] at hf
      simp only [validateOp, Expr.op, Expr.left, Option.some.injEq] at hop
      have t1 := fieldP_inv hs.1 hop hf hl
      have t2 := valueP_inv hs.2 hx
      simp only [confinedParam, textParam, hf, t1, t2.1, t2.2, Bool.and_self, and_self]
    | less =>
      simp only [semShapeT, Bool.and_eq_true] at hs
      simp only [valsAtomic] at hx
      simp only [fieldsCols] at hf
      simp only [validateOp, Expr.op, Expr.left, Option.some.injEq] at hop
      have t1 := fieldP_inv hs.1 hop hf hl
      have t2 := valueP_inv hs.2 hx
      simp only [confinedParam, textParam, hf, t1, t2.1, t2.2, Bool.and_self, and_self]
    | greaterEq =>
      simp only [semShapeT, Bool.and_eq_true] at hs
      simp only [valsAtomic] at hx
      simp only [fieldsCols] at hf
      simp only [validateOp, Expr.op, Expr.left, Option.some.injEq] at hop
      have t1 := fieldP_inv hs.1 hop hf hl
      have t2 := valueP_inv hs.2 hx
      simp only [confinedParam, textParam, hf, t1, t2.1, t2.2, Bool.and_self, and_self]
    | lessEq =>
      simp only [semShapeT, Bool.and_eq_true] at hs
      simp only [valsAtomic] at hx
      simp only [fieldsCols] at hf
      simp only [validateOp, Expr.op, Expr.left, Option.some.injEq] at hop
      have t1 := fieldP_inv hs.1 hop hf hl
      have t2 := valueP_inv hs.2 hx
      simp only [confinedParam, textParam, hf, t1, t2.1, t2.2, Bool.and_self, and_self]
    | like =>
      simp only [semShapeT, Bool.and_eq_true] at hs
      simp only [fieldsCols] at hf
      simp only [validateOp, Expr.op, Expr.left, Expr.right, Option.some.injEq, Bool.and_eq_true] at hop
      have t1 := fieldP_inv hs.1 hop.1.1.2 hf hl
      cases r with
      | expr re =>
        simp only [Bool.and_eq_true] at hs
        obtain ⟨q', o', p', d', rfl, ho', hq'⟩ := termLeaf_inv hs.2.1
        have hstr : ∃ s, q' = .str s := by
          have h2 := hs.2.1
          have h3 := hs.2.2
          cases q' <;> simp_all [termLeaf, Expr.op]
        obtain ⟨s, rfl⟩ := hstr
        simp only [confinedParam, textParam, patOK, opdPrim_leaf _ _ _ _ ho', hf, t1, Bool.and_self, and_self]
      | _ => simp at hs
    | in_ =>
      simp only [semShapeT, Bool.and_eq_true] at hs
      simp only [fieldsCols] at hf
      simp only [validateOp, Expr.op, Expr.left, Expr.right, Option.some.injEq, Bool.and_eq_true] at hop
      have t1 := fieldP_inv hs.1 hop.1.1.2 hf hl
      have hs2 := hs.2
      split at hs2
      · rename_i es p2 d2
        simp only [Bool.and_eq_true, decide_eq_true_eq] at hs2
        have hi := items_confP es hs2.1
        cases es with
        | nil => simp [ExprList.length, ExprList.toList] at hs2
        | cons e1 t1' =>
          simp only [confinedParam, textParam, listOKP, hf, t1, hi.1, hi.2, Bool.and_self, and_self]
      · cases hs2
    | range =>
      unfold semShapeT at hs
      simp only [Bool.and_eq_true] at hs
      simp only [fieldsCols] at hf
      simp only [validateOp, Expr.op, Expr.left, Expr.right, Option.some.injEq, Bool.and_eq_true] at hop
      have t1 := fieldP_inv hs.1 hop.1.2 hf hl
      have hs2 := hs.2
      split at hs2
      · rename_i a c incl
        simp only [Bool.and_eq_true] at hs2 hop
        obtain ⟨qa, oa, pa, da, rfl, hoa, hqa⟩ := termLeaf_inv (leafexpr_inv hs2.1 hop.2.1.2)
        obtain ⟨qc, oc, pc, dc, rfl, hoc, hqc⟩ := termLeaf_inv (leafexpr_inv hs2.2 hop.2.2)
        simp only [confinedParam, textParam, rangeOKP, valOKP, opdPrim_leaf _ _ _ _ hoa, opdPrim_leaf _ _ _ _ hoc,
          (pShape_of_clean hqa).2.1, (pShape_of_clean hqc).2.1, hf, t1, Bool.and_self, and_self]
      · cases hs2
end

mutual
theorem exclP_node_of_confined : ∀ n : Node, confinedParamNode n = true →
    valsAtomicNode n = true ∧ fieldsColsNode n = true
  | .expr e, h => by
    simp only [confinedParamNode] at h
    simp only [valsAtomicNode, fieldsColsNode]
    exact exclP_of_confined e h
  | .nil, _ => by simp [valsAtomicNode, fieldsColsNode]
  | .prim _, _ => by simp [valsAtomicNode, fieldsColsNode]
  | .list _, _ => by simp [valsAtomicNode, fieldsColsNode]
  | .bound _ _ _, _ => by simp [valsAtomicNode, fieldsColsNode]
/-- every tree of the parameter-mode fragment satisfies both exclusion predicates -/
theorem exclP_of_confined : ∀ e : Expr, confinedParam e = true → valsAtomic e = true ∧ fieldsCols e = true
  | .mk l o r p d, h => by
    cases o with
    | and =>
      simp only [confinedParam, Bool.and_eq_true] at h
      have h1 := exclP_node_of_confined l h.1
      have h2 := exclP_node_of_confined r h.2
      simp only [valsAtomic, fieldsCols, h1.1, h1.2, h2.1, h2.2, Bool.and_self, and_self]
    | or =>
      simp only [confinedParam, Bool.and_eq_true] at h
      have h1 := exclP_node_of_confined l h.1
      have h2 := exclP_node_of_confined r h.2
      simp only [valsAtomic, fieldsCols, h1.1, h1.2, h2.1, h2.2, Bool.and_self, and_self]
    | not =>
      simp only [confinedParam, Bool.and_eq_true] at h
      have h1 := exclP_node_of_confined l h.1
      simp only [valsAtomic, fieldsCols, h1.1, h1.2, and_self]
    | must =>
      simp only [confinedParam, Bool.and_eq_true] at h
      have h1 := exclP_node_of_confined l h.1
      simp only [valsAtomic, fieldsCols, h1.1, h1.2, and_self]
    | mustNot =>
      simp only [confinedParam, Bool.and_eq_true] at h
      have h1 := exclP_node_of_confined l h.1
      simp only [valsAtomic, fieldsCols, h1.1, h1.2, and_self]
    | equals =>
      simp only [confinedParam, Bool.and_eq_true] at h
      obtain ⟨q, hq, _⟩ := opdOKP_inv h.2
      simp only [valsAtomic, fieldsCols, hq, h.1, Option.isSome_some, and_self]
    | greater =>
      simp only [confinedParam, Bool.and_eq_true] at h
      obtain ⟨q, hq, _⟩ := opdOKP_inv h.2
      simp only [valsAtomic, fieldsCols, hq, h.1, Option.isSome_some, and_self]
    | less =>
      simp only [confinedParam, Bool.and_eq_true] at h
      obtain ⟨q, hq, _⟩ := opdOKP_inv h.2
      simp only [valsAtomic, fieldsCols, hq, h.1, Option.isSome_some, and_self]
    | greaterEq =>
      simp only [confinedParam, Bool.and_eq_true] at h
      obtain ⟨q, hq, _⟩ := opdOKP_inv h.2
      simp only [valsAtomic, fieldsCols, hq, h.1, Option.isSome_some, and_self]
    | lessEq =>
      simp only [confinedParam, Bool.and_eq_true] at h
      obtain ⟨q, hq, _⟩ := opdOKP_inv h.2
      simp only [valsAtomic, fieldsCols, hq, h.1, Option.isSome_some, and_self]
    | like =>
      simp only [confinedParam, Bool.and_eq_true] at h
      simp only [valsAtomic, fieldsCols, h.1, and_self]
    | in_ =>
      simp only [confinedParam, Bool.and_eq_true] at h
      simp only [valsAtomic, fieldsCols, h.1, and_self]
    | range =>
      simp only [confinedParam, Bool.and_eq_true] at h
      simp only [valsAtomic, fieldsCols, h.1, and_self]
    | _ => simp only [valsAtomic, fieldsCols, and_self]
end

section QueryP
variable (env : Env) (s df : Bytes) (e : Expr)

theorem query_in_param_fragment (sqlP : Bytes) (ps : List Prim) (h : parseQuery env s df = .ok e)
    (hx : valsAtomic e = true) (hf : fieldsCols e = true) (hr : renderParam pgFns e = .ok (sqlP, ps)) :
    confinedParam e = true ∧ textParam e = true := by
  obtain ⟨hs, hv⟩ := JsonParse.parse_shape env s df e h
  exact confP_expr e _ hs hv hx hf hr

/-- EXACT CHARACTERISATION (parameter mode): a parse result that `RenderParam` renders is in the fragment
    `confinedParam` iff its comparison values are terms and its fields are columns -/
theorem query_confinedParam_iff (sqlP : Bytes) (ps : List Prim) (h : parseQuery env s df = .ok e)
    (hr : renderParam pgFns e = .ok (sqlP, ps)) :
    confinedParam e = true ↔ (valsAtomic e = true ∧ fieldsCols e = true) :=
  ⟨exclP_of_confined e, fun hx => (query_in_param_fragment env s df e sqlP ps h hx.1 hx.2 hr).1⟩

/-- **C02 over queries (parameterized text).**  For every query that `lucene.Parse` accepts, whose comparison values
    are terms and whose fields are columns, that `RenderParam` renders and that nests within PostgreSQL's stack:
    PostgreSQL reads the text as exactly ONE predicate `toAstP e`; the parameter list is `paramsP e`; the placeholders
    are `$1 … $n` from left to right with `n` the number of parameters; column references are fields of the query;
    the only constants are placeholders and the fixed `'*'` / `0` of open ranges; the left operand of every predicate
    is a column; every parameter is a value of the query or the LIKE translation of one. -/
theorem query_confined_param (sqlP : Bytes) (ps : List Prim) (h : parseQuery env s df = .ok e)
    (hx : valsAtomic e = true) (hf : fieldsCols e = true) (hr : renderParam pgFns e = .ok (sqlP, ps))
    (hd : SqlText.depthOK e = true) :
    Sql.parseSql sqlP = toAstP e ∧ paramsP e = some ps ∧ ∀ a, Sql.parseSql sqlP = some a →
      pnums a = List.range' 1 ps.length ∧
      (∀ f ∈ cols a, Prim.col f ∈ leaves e) ∧ (∀ k ∈ consts a, fixedConst k) ∧ fieldsAreCols a = true ∧
      ∀ q ∈ ps, paramFrom q (leaves e) := by
  obtain ⟨hc, ht⟩ := query_in_param_fragment env s df e sqlP ps h hx hf hr
  obtain ⟨h1, h2⟩ := render_parses_param e sqlP ps hc ht hd hr
  exact ⟨h1, h2, fun a ha => ⟨param_numbers e sqlP ps a hc ht hr ha, param_cols_consts e sqlP ps a hc ht hr ha⟩⟩

/-- … and the predicate exists -/
theorem query_confined_param_some (sqlP : Bytes) (ps : List Prim) (h : parseQuery env s df = .ok e)
    (hx : valsAtomic e = true) (hf : fieldsCols e = true) (hr : renderParam pgFns e = .ok (sqlP, ps))
    (hd : SqlText.depthOK e = true) : ∃ a, Sql.parseSql sqlP = some a := by
  obtain ⟨hc, ht⟩ := query_in_param_fragment env s df e sqlP ps h hx hf hr
  obtain ⟨h1, h2⟩ := render_parses_param e sqlP ps hc ht hd hr
  rw [h1]
  simp only [paramsP] at h2
  cases hcp : toCstP e with
  | none => rw [hcp] at h2; cases h2
  | some cp => exact ⟨(renum 1 cp.1).toAst, by simp [toAstP, hcp]⟩

end QueryP

/-! ## 6c. C03 over queries: on the clean fragment `textClean` follows from `textWide` -/

theorem fieldText_of_wide {l : Node} (h : cleanField l = true) (ht : opdTextW l = true) : fieldText l = true := by
  obtain ⟨f, hf, _, _⟩ := cleanField_inv h
  have hp := opdPrim_field hf
  unfold opdTextW at ht
  rw [hp] at ht
  unfold fieldText
  rw [hf]
  exact ht

theorem itemsText_of_wide : ∀ es : ExprList, cleanItems es = true → itemsTextW es = true → itemsText es = true
  | .nil, _, _ => rfl
  | .cons e t, h, ht => by
    unfold cleanItems at h
    split at h
    · rename_i heq; cases heq
    · rename_i q bz fz t' heq
      cases heq
      simp only [Bool.and_eq_true] at h
      simp only [itemsTextW, Bool.and_eq_true] at ht
      simp only [itemsText, Bool.and_eq_true]
      exact ⟨by rw [← primTextW_of_clean h.1]; exact ht.1, itemsText_of_wide _ h.2 ht.2⟩
    · cases h

theorem valueText_of_bnd {n : Node} {ba : Bnd} (h : bndOf n = some ba) (ht : bndTextW n = true) :
    valueText n = true := by
  have hp := opdPrim_bnd h
  unfold bndTextW at ht
  rw [hp] at ht
  unfold bndOf at h
  split at h
  · split at h
    · cases h
      simp only [primOfBnd, Bool.and_eq_true] at ht
      rename_i s _ _ hs
      have : s = [42] := by simpa using hs
      subst this
      exact ht.1
    · cases h
  · cases h; rfl
  · cases h; rfl
  · cases h
    simp only [primOfBnd, Bool.and_eq_true] at ht
    exact ht.1
  · cases h

mutual
theorem textNode_of_wide : ∀ n : Node, cleanNode n = true → textWideNode n = true → textNode n = true
  | .expr e, h, ht => by
    simp only [cleanNode] at h; simp only [textWideNode] at ht; simp only [textNode]
    exact textClean_of_wide e h ht
  | .nil, _, _ => rfl
  | .prim _, h, _ => by simp [cleanNode] at h
  | .list _, _, _ => rfl
  | .bound _ _ _, _, _ => rfl
/-- on the clean fragment `textWide` (the renderer's own tests) gives `textClean` (converse of
    `SqlWide.textWide_of_clean`) -/
theorem textClean_of_wide : ∀ e : Expr, cleanFilter e = true → textWide e = true → textClean e = true
  | .mk l o r p d, h, ht => by
    cases o
    case and =>
      simp only [cleanFilter, Bool.and_eq_true] at h
      simp only [textWide, Bool.and_eq_true] at ht
      simp only [textClean, Bool.and_eq_true]
      exact ⟨textNode_of_wide l h.1 ht.1, textNode_of_wide r h.2 ht.2⟩
    case or =>
      simp only [cleanFilter, Bool.and_eq_true] at h
      simp only [textWide, Bool.and_eq_true] at ht
      simp only [textClean, Bool.and_eq_true]
      exact ⟨textNode_of_wide l h.1 ht.1, textNode_of_wide r h.2 ht.2⟩
    case not =>
      simp only [cleanFilter, Bool.and_eq_true] at h
      simp only [textWide] at ht
      simp only [textClean]
      exact textNode_of_wide l h.1 ht
    case mustNot =>
      simp only [cleanFilter, Bool.and_eq_true] at h
      simp only [textWide] at ht
      simp only [textClean]
      exact textNode_of_wide l h.1 ht
    case must =>
      simp only [cleanFilter, Bool.and_eq_true] at h
      simp only [textWide] at ht
      simp only [textClean]
      exact textNode_of_wide l h.1 ht
    case like =>
      simp only [cleanFilter, Bool.and_eq_true] at h
      simp only [textWide, Bool.and_eq_true] at ht
      obtain ⟨pat, p2, d2, rfl, _, _, _⟩ := cleanPattern_inv h.2
      simp only [textClean, Bool.and_eq_true]
      exact ⟨fieldText_of_wide h.1 ht.1, ht.2⟩
    case in_ =>
      simp only [cleanFilter, Bool.and_eq_true] at h
      simp only [textWide, Bool.and_eq_true] at ht
      obtain ⟨e, t, p2, d2, rfl⟩ := cleanList_inv h.2
      have hcl : cleanItems (.cons e t) = true := by simpa [cleanList] using h.2
      simp only [textClean, Bool.and_eq_true]
      exact ⟨fieldText_of_wide h.1 ht.1, itemsText_of_wide _ hcl ht.2⟩
    case range =>
      simp only [cleanFilter, Bool.and_eq_true] at h
      simp only [textWide, Bool.and_eq_true] at ht
      obtain ⟨mn, mx, incl, ba, bc, rfl, hba, hbc, hcl⟩ := cleanRange_inv h.2
      simp only [Bool.and_eq_true] at ht
      simp only [textClean, Bool.and_eq_true]
      exact ⟨fieldText_of_wide h.1 ht.1, valueText_of_bnd hba ht.2.1, valueText_of_bnd hbc ht.2.2⟩
    case equals =>
      simp only [cleanFilter, Bool.and_eq_true] at h
      simp only [textWide, Bool.and_eq_true] at ht
      obtain ⟨q, p2, d2, rfl, hq⟩ := cleanValue_inv h.2
      simp only [textClean, Bool.and_eq_true]
      exact ⟨fieldText_of_wide h.1 ht.1, by
        have := ht.2; simp only [opdTextW, opdPrim_lit, primTextW_of_clean hq] at this; exact this⟩
    case greater =>
      simp only [cleanFilter, Bool.and_eq_true] at h
      simp only [textWide, Bool.and_eq_true] at ht
      obtain ⟨q, p2, d2, rfl, hq⟩ := cleanValue_inv h.2
      simp only [textClean, Bool.and_eq_true]
      exact ⟨fieldText_of_wide h.1 ht.1, by
        have := ht.2; simp only [opdTextW, opdPrim_lit, primTextW_of_clean hq] at this; exact this⟩
    case less =>
      simp only [cleanFilter, Bool.and_eq_true] at h
      simp only [textWide, Bool.and_eq_true] at ht
      obtain ⟨q, p2, d2, rfl, hq⟩ := cleanValue_inv h.2
      simp only [textClean, Bool.and_eq_true]
      exact ⟨fieldText_of_wide h.1 ht.1, by
        have := ht.2; simp only [opdTextW, opdPrim_lit, primTextW_of_clean hq] at this; exact this⟩
    case greaterEq =>
      simp only [cleanFilter, Bool.and_eq_true] at h
      simp only [textWide, Bool.and_eq_true] at ht
      obtain ⟨q, p2, d2, rfl, hq⟩ := cleanValue_inv h.2
      simp only [textClean, Bool.and_eq_true]
      exact ⟨fieldText_of_wide h.1 ht.1, by
        have := ht.2; simp only [opdTextW, opdPrim_lit, primTextW_of_clean hq] at this; exact this⟩
    case lessEq =>
      simp only [cleanFilter, Bool.and_eq_true] at h
      simp only [textWide, Bool.and_eq_true] at ht
      obtain ⟨q, p2, d2, rfl, hq⟩ := cleanValue_inv h.2
      simp only [textClean, Bool.and_eq_true]
      exact ⟨fieldText_of_wide h.1 ht.1, by
        have := ht.2; simp only [opdTextW, opdPrim_lit, primTextW_of_clean hq] at this; exact this⟩
    all_goals simp [cleanFilter] at h
end

section QueryC03
variable (env : Env) (s df : Bytes) (e : Expr)

/-- for a parse result in the clean fragment, `textClean` follows from success of the renderer -/
theorem query_textClean (t : Bytes) (h : parseQuery env s df = .ok e) (hc : cleanFilter e = true)
    (hr : render pgFns e = .ok t) : textClean e = true :=
  textClean_of_wide e hc (query_textWide env s df e t h hr (confined_of_clean e hc))

/-- **C03 end to end over queries.**  For every query that `lucene.Parse` accepts, whose tree is in the clean
    filterable fragment, that the PostgreSQL renderer renders and that nests within PostgreSQL's stack: the predicate
    PostgreSQL reads from the rendered text is true on exactly the rows on which the query is true (and undefined on
    exactly the rows on which the query is).  No hypothesis on the texts: `textClean` is derived. -/
theorem query_sql_means_query (t : Bytes) (h : parseQuery env s df = .ok e) (hc : cleanFilter e = true)
    (hr : render pgFns e = .ok t) (hd : SqlText.depthOK e = true) (row : Row) :
    (Sql.parseSql t).bind (evalSql row) = evalL row e :=
  rendered_sql_means_query' e t hc (query_textClean env s df e t h hc hr) hd hr row

end QueryC03

/-! ## 7. concrete queries through the whole of `lucene.Parse` (ASCII class table) -/

section Concrete
open JsonParse

/-! ### `Ast.beq` decides equality (for stating concrete readings with `=`) -/

mutual
theorem ast_eq_of_beq : ∀ a c : Ast, a.beq c = true → a = c
  | .col a, c, h => by
    cases c <;> simp only [Ast.beq, beq_iff_eq] at h <;> first | (rw [h]) | (cases h)
  | .str a, c, h => by
    cases c <;> simp only [Ast.beq, beq_iff_eq] at h <;> first | (rw [h]) | (cases h)
  | .num n a, c, h => by
    cases c <;> simp only [Ast.beq, Bool.and_eq_true, beq_iff_eq] at h <;> first | (rw [h.1, h.2]) | (cases h)
  | .param a, c, h => by
    cases c <;> simp only [Ast.beq, beq_iff_eq] at h <;> first | (rw [h]) | (cases h)
  | .cmp o l r, c, h => by
    cases c with
    | cmp o' l' r' =>
      simp only [Ast.beq, Bool.and_eq_true, beq_iff_eq] at h
      rw [h.1.1, ast_eq_of_beq l l' h.1.2, ast_eq_of_beq r r' h.2]
    | _ => simp only [Ast.beq] at h <;> cases h
  | .between x lo hi, c, h => by
    cases c with
    | between x' lo' hi' =>
      simp only [Ast.beq, Bool.and_eq_true] at h
      rw [ast_eq_of_beq x x' h.1.1, ast_eq_of_beq lo lo' h.1.2, ast_eq_of_beq hi hi' h.2]
    | _ => simp only [Ast.beq] at h <;> cases h
  | .inList x items, c, h => by
    cases c with
    | inList x' items' =>
      simp only [Ast.beq, Bool.and_eq_true] at h
      rw [ast_eq_of_beq x x' h.1, astList_eq_of_beq items items' h.2]
    | _ => simp only [Ast.beq] at h <;> cases h
  | .similar x p, c, h => by
    cases c with
    | similar x' p' =>
      simp only [Ast.beq, Bool.and_eq_true] at h
      rw [ast_eq_of_beq x x' h.1, ast_eq_of_beq p p' h.2]
    | _ => simp only [Ast.beq] at h <;> cases h
  | .regex x p, c, h => by
    cases c with
    | regex x' p' =>
      simp only [Ast.beq, Bool.and_eq_true] at h
      rw [ast_eq_of_beq x x' h.1, ast_eq_of_beq p p' h.2]
    | _ => simp only [Ast.beq] at h <;> cases h
  | .and l r, c, h => by
    cases c with
    | and l' r' =>
      simp only [Ast.beq, Bool.and_eq_true] at h
      rw [ast_eq_of_beq l l' h.1, ast_eq_of_beq r r' h.2]
    | _ => simp only [Ast.beq] at h <;> cases h
  | .or l r, c, h => by
    cases c with
    | or l' r' =>
      simp only [Ast.beq, Bool.and_eq_true] at h
      rw [ast_eq_of_beq l l' h.1, ast_eq_of_beq r r' h.2]
    | _ => simp only [Ast.beq] at h <;> cases h
  | .not x, c, h => by
    cases c with
    | not x' =>
      simp only [Ast.beq] at h
      rw [ast_eq_of_beq x x' h]
    | _ => simp only [Ast.beq] at h <;> cases h
theorem astList_eq_of_beq : ∀ a c : AstList, a.beq c = true → a = c
  | .nil, .nil, _ => rfl
  | .cons a t, .cons a' t', h => by
    simp only [AstList.beq, Bool.and_eq_true] at h
    rw [ast_eq_of_beq a a' h.1, astList_eq_of_beq t t' h.2]
  | .nil, .cons _ _, h => by simp [AstList.beq] at h
  | .cons _ _, .nil, h => by simp [AstList.beq] at h
end

theorem parse_eq_of_beq {x : Option Ast} {a : Ast} (h : (x == some a) = true) : x = some a := by
  cases x with
  | none => cases h
  | some c => 
    have : c.beq a = true := h
    rw [ast_eq_of_beq c a this]

def cs (s : String) : List Cell := (b s).map asciiCell

theorem lex_step (k : Cls) (inp rest ws w : List Cell) (t : GoLucene.Tok) (ts : List GoLucene.Tok) (e : End)
    (h : next k inp = .tok t ws w rest)
    (hrest : (lexAll k rest).1.map (·.2) = ts ∧ (lexAll k rest).2.1 = e) :
    (lexAll k inp).1.map (·.2) = t :: ts ∧ (lexAll k inp).2.1 = e := by
  rw [lexAll_tok k inp t ws w rest h]
  exact ⟨by simp [hrest.1], hrest.2⟩

theorem lex_end (k : Cls) : (lexAll k []).1.map (·.2) = [] ∧ (lexAll k []).2.1 = End.eof := by
  rw [lexAll_eof k [] [] (QuotedVerbatim.next_nil k)]
  exact ⟨rfl, rfl⟩

/-- the token stream of an ASCII query, from the steps of the lexer -/
theorem tokensOf_of_lex (env : Env) (q : Bytes) (ts : List GoLucene.Tok) (hq : ∀ c ∈ q, c < 0x80)
    (h : (lexAll env.cls (q.map asciiCell)).1.map (·.2) = ts ∧ (lexAll env.cls (q.map asciiCell)).2.1 = End.eof) :
    tokensOf env q = ts := by
  unfold tokensOf
  have hd : decode q = q.map asciiCell := by
    have := QuotedVerbatim.decode_ascii_prefix q [] hq
    simpa [QuotedVerbatim.decode_nil] using this
  simp only [hd, h.1, h.2]
  simp

/-! ### `a:(b AND c)`: a sub-query as the value of a field -/

theorem tokensOf_grp : tokensOf asciiEnv (b "a:(b AND c)") =
    [⟨.literal, b "a"⟩, ⟨.colon, b ":"⟩, ⟨.lparen, b "("⟩, ⟨.literal, b "b"⟩, ⟨.tand, b "AND"⟩, ⟨.literal, b "c"⟩,
     ⟨.rparen, b ")"⟩] := by
  refine tokensOf_of_lex asciiEnv (b "a:(b AND c)") _ (by decide +kernel) ?_
  refine lex_step _ _ (cs ":(b AND c)") [] (cs "a") _ _ _ (by decide +kernel) ?_
  refine lex_step _ _ (cs "(b AND c)") [] (cs ":") _ _ _ (by decide +kernel) ?_
  refine lex_step _ _ (cs "b AND c)") [] (cs "(") _ _ _ (by decide +kernel) ?_
  refine lex_step _ _ (cs " AND c)") [] (cs "b") _ _ _ (by decide +kernel) ?_
  refine lex_step _ _ (cs " c)") (cs " ") (cs "AND") _ _ _ (by decide +kernel) ?_
  refine lex_step _ _ (cs ")") (cs " ") (cs "c") _ _ _ (by decide +kernel) ?_
  refine lex_step _ _ [] [] (cs ")") _ _ _ (by decide +kernel) ?_
  exact lex_end _

/-- what `Parse("a:(b AND c)")` returns: `a = (b AND c)`, an Equals node whose VALUE is an expression -/
def eGrp : Expr :=
  .mk (.expr (lit (.prim (.col (b "a"))))) .equals
    (.expr (.mk (.expr (lit (.prim (.str (b "b"))))) .and (.expr (lit (.prim (.str (b "c"))))) F64.one 1)) F64.one 1

theorem parse_grp : parseQuery asciiEnv (b "a:(b AND c)") [] = .ok eGrp := by
  unfold parseQuery parseTokens
  rw [tokensOf_grp]
  have hp : parseToks (isNumOf asciiEnv [])
      [⟨.literal, b "a"⟩, ⟨.colon, b ":"⟩, ⟨.lparen, b "("⟩, ⟨.literal, b "b"⟩, ⟨.tand, b "AND"⟩, ⟨.literal, b "c"⟩,
       ⟨.rparen, b ")"⟩] =
      .ok (.eq (.leaf ⟨.literal, b "a"⟩) (.and (.leaf ⟨.literal, b "b"⟩) (.leaf ⟨.literal, b "c"⟩))) := by
    rw [parseToks_tokSim _
      (fpp (.eqGroup ⟨.literal, b "a"⟩ (.and (.leaf ⟨.literal, b "b"⟩) (.leaf ⟨.literal, b "c"⟩)))) _
      (by repeat (first | exact .nil | refine .cons ⟨rfl, by decide⟩ ?_))]
    exact roundtripF _ _ (by simp [Ft.ok, TT.isTerm])
  rw [hp]
  decide +kernel

/-- **FINDING (the exclusion `valsAtomic` is necessary for the theorem as stated).**  The query `a:(b AND c)` is
    accepted by `lucene.Parse`; the PostgreSQL renderer succeeds with the text `"a" = ('b' AND 'c')`; the tree is
    outside `confinedFilter` (an EXPRESSION in value position) and `toAstW` gives nothing for it.  PostgreSQL's
    grammar does read the text as ONE expression — a comparison whose right operand is the boolean expression
    `'b' AND 'c'` — so this is not an injection; but the predicate is not of the proved shape (and PostgreSQL's
    analyser would reject it: AND over text constants). -/
theorem grouped_value_outside :
    parseQuery asciiEnv (b "a:(b AND c)") [] = .ok eGrp ∧
    render pgFns eGrp = .ok (b "\"a\" = ('b' AND 'c')") ∧
    SqlText.depthOK eGrp = true ∧ valsAtomic eGrp = false ∧ confinedFilter eGrp = false ∧ textWide eGrp = true ∧
    toAstW eGrp = none ∧
    (parseSql (b "\"a\" = ('b' AND 'c')") ==
      some (.cmp .eq (.col (b "a")) (.and (.str (b "b")) (.str (b "c"))))) = true :=
  ⟨parse_grp, by decide +kernel, by decide +kernel, by decide +kernel, by decide +kernel, by decide +kernel,
    by decide +kernel, by decide +kernel⟩

/-- the full-strength statement (no hypothesis on the tree) is FALSE -/
theorem query_confined_full_false :
    ¬ ∀ (env : Env) (s df : Bytes) (e : Expr) (t : Bytes), parseQuery env s df = .ok e → render pgFns e = .ok t →
        SqlText.depthOK e = true → Sql.parseSql t = toAstW e := by
  intro h
  obtain ⟨h1, h2, h3, _, _, _, h7, h8⟩ := grouped_value_outside
  have := h _ _ _ _ _ h1 h2 h3
  rw [h7] at this
  rw [this] at h8
  cases h8

/-- PostgreSQL's reading of the witness text -/
theorem grouped_value_reading : Sql.parseSql (b "\"a\" = ('b' AND 'c')") =
    some (.cmp .eq (.col (b "a")) (.and (.str (b "b")) (.str (b "c")))) :=
  parse_eq_of_beq (by decide +kernel)

/-- … which is still ONE predicate whose column is a field of the query and whose constants are values of the query:
    the witness is outside the PROVED fragment (`confinedFilter`, `toAstW`), it is not an escape from confinement.
    No parse result is known whose rendered text PostgreSQL's grammar does not read as one such predicate. -/
theorem grouped_value_still_one_predicate :
    ∃ a, Sql.parseSql (b "\"a\" = ('b' AND 'c')") = some a ∧
      (∀ c ∈ cols a, Prim.col c ∈ leaves eGrp) ∧ (∀ k ∈ consts a, ∃ q ∈ leaves eGrp, k ∈ rendersOfW q) := by
  refine ⟨_, grouped_value_reading, ?_, ?_⟩
  · intro c hc
    simp only [cols, List.append_nil, List.mem_singleton, List.nil_append] at hc
    subst hc
    decide +kernel
  · intro k hk
    simp only [consts, List.nil_append, List.cons_append, List.mem_cons, List.not_mem_nil, or_false] at hk
    rcases hk with rfl | rfl
    · exact ⟨.str (b "b"), by decide +kernel, by rw [rendersOfW_str _ (by decide)]; exact List.mem_cons_self ..⟩
    · exact ⟨.str (b "c"), by decide +kernel, by rw [rendersOfW_str _ (by decide)]; exact List.mem_cons_self ..⟩

/-! ### `5:[1 TO 2]`: a number in field position (recorded finding K-numfield-range), through the parser -/

theorem tokensOf_numfield : tokensOf asciiEnv (b "5:[1 TO 2]") =
    [⟨.literal, b "5"⟩, ⟨.colon, b ":"⟩, ⟨.lsquare, b "["⟩, ⟨.literal, b "1"⟩, ⟨.tto, b "TO"⟩, ⟨.literal, b "2"⟩,
     ⟨.rsquare, b "]"⟩] := by
  refine tokensOf_of_lex asciiEnv (b "5:[1 TO 2]") _ (by decide +kernel) ?_
  refine lex_step _ _ (cs ":[1 TO 2]") [] (cs "5") _ _ _ (by decide +kernel) ?_
  refine lex_step _ _ (cs "[1 TO 2]") [] (cs ":") _ _ _ (by decide +kernel) ?_
  refine lex_step _ _ (cs "1 TO 2]") [] (cs "[") _ _ _ (by decide +kernel) ?_
  refine lex_step _ _ (cs " TO 2]") [] (cs "1") _ _ _ (by decide +kernel) ?_
  refine lex_step _ _ (cs " 2]") (cs " ") (cs "TO") _ _ _ (by decide +kernel) ?_
  refine lex_step _ _ (cs "]") (cs " ") (cs "2") _ _ _ (by decide +kernel) ?_
  refine lex_step _ _ [] [] (cs "]") _ _ _ (by decide +kernel) ?_
  exact lex_end _

/-- `Parse("5:[1 TO 2]")` is the tree `SqlWide.exNumField`: the range `[1 TO 2]` over the NUMBER 5 -/
theorem parse_numfield : parseQuery asciiEnv (b "5:[1 TO 2]") [] = .ok exNumField := by
  unfold parseQuery parseTokens
  rw [tokensOf_numfield]
  have hp : parseToks (isNumOf asciiEnv [])
      [⟨.literal, b "5"⟩, ⟨.colon, b ":"⟩, ⟨.lsquare, b "["⟩, ⟨.literal, b "1"⟩, ⟨.tto, b "TO"⟩, ⟨.literal, b "2"⟩,
       ⟨.rsquare, b "]"⟩] =
      .ok (.range (.leaf ⟨.literal, b "5"⟩) (.leaf ⟨.literal, b "1"⟩) (.leaf ⟨.literal, b "2"⟩) true) := by
    rw [parseToks_tokSim _
      (fpp (.range ⟨.literal, b "5"⟩ ⟨.literal, b "1"⟩ ⟨.literal, b "2"⟩ .sq .sq)) _
      (by repeat (first | exact .nil | refine .cons ⟨rfl, by decide⟩ ?_))]
    exact roundtripF _ _ (by simp [Ft.ok, TT.isTerm])
  rw [hp]
  decide +kernel

/-- **the exclusion `fieldsCols` is necessary** (finding K-numfield-range, now through the whole of `lucene.Parse`):
    the query `5:[1 TO 2]` is accepted, satisfies `valsAtomic`, is INSIDE the inline fragment (the inline text
    `5 >= 1 AND 5 <= 2` is confined), and `RenderParam` succeeds with the text `? >= ? AND ? <= ?` — FOUR placeholders
    (PostgreSQL numbers them `$1 … $4`) for THREE parameters `[5, 1, 2]`: `$4` has no value. -/
theorem numeric_field_query :
    parseQuery asciiEnv (b "5:[1 TO 2]") [] = .ok exNumField ∧ valsAtomic exNumField = true ∧
    fieldsCols exNumField = false ∧ confinedFilter exNumField = true ∧ SqlText.depthOK exNumField = true ∧
    render pgFns exNumField = .ok (b "5 >= 1 AND 5 <= 2") ∧
    renderParam pgFns exNumField = .ok (b "? >= ? AND ? <= ?", [.int 5, .int 1, .int 2]) ∧
    (parseSql (b "? >= ? AND ? <= ?") ==
      some (.and (.cmp .ge (.param 1) (.param 2)) (.cmp .le (.param 3) (.param 4)))) = true ∧
    toAstP exNumField = none :=
  ⟨parse_numfield, by decide +kernel, by decide +kernel, by decide +kernel, by decide +kernel, by decide +kernel,
    by decide +kernel, by decide +kernel, by decide +kernel⟩

/-- without `fieldsCols` the parameter-mode statement is FALSE -/
theorem query_confined_param_needs_fieldsCols :
    ¬ ∀ (env : Env) (s df : Bytes) (e : Expr) (sqlP : Bytes) (ps : List Prim), parseQuery env s df = .ok e →
        valsAtomic e = true → renderParam pgFns e = .ok (sqlP, ps) → SqlText.depthOK e = true →
        Sql.parseSql sqlP = toAstP e := by
  intro h
  obtain ⟨h1, h2, _, _, h5, _, h7, h8, h9⟩ := numeric_field_query
  have := h _ _ _ _ _ _ h1 h2 h7 h5
  rw [h9] at this
  rw [this] at h8
  cases h8

/-- the placeholders PostgreSQL sees are `$1 … $4`; there are three parameters -/
theorem numeric_field_placeholders :
    ∃ a, Sql.parseSql (b "? >= ? AND ? <= ?") = some a ∧ pnums a = [1, 2, 3, 4] ∧
      renderParam pgFns exNumField = .ok (b "? >= ? AND ? <= ?", [.int 5, .int 1, .int 2]) :=
  ⟨_, parse_eq_of_beq (numeric_field_query.2.2.2.2.2.2.2.1), rfl, numeric_field_query.2.2.2.2.2.2.1⟩

/-- … while the INLINE theorem applies to the same query (numbers in field position are inside `confinedFilter`) -/
example : ∃ a, Sql.parseSql (b "5 >= 1 AND 5 <= 2") = some a ∧ toAstW exNumField = some a :=
  query_confined_some asciiEnv (b "5:[1 TO 2]") [] exNumField _ parse_numfield (by decide +kernel)
    numeric_field_query.2.2.2.2.2.1 (by decide +kernel)

/-! ### non-vacuity -/

/-- the exclusion predicates hold of a non-trivial tree of the parser's shape:
    `a:x AND n:[-3 TO 5] AND c:(1 OR y) AND NOT b:f*o?` -/
example : valsAtomic exTree = true ∧ fieldsCols exTree = true ∧ semShapeT exTree = true ∧
    validateExpr exTree = true ∧ cleanFilter exTree = true := by decide +kernel

/-- … and `valsAtomic` of trees far outside the clean fragment (bare terms, numbers as fields, open ranges, /re/) -/
example : valsAtomic exWide = true ∧ fieldsCols exWide = false ∧ fieldsCols exBare = true := by decide +kernel

/-- `query_confined` applied to `Parse("a:b*")`, every hypothesis discharged -/
example : ∃ a, Sql.parseSql (b "\"a\" SIMILAR TO 'b%'") = some a ∧ toAstW eLike = some a :=
  query_confined_some asciiEnv (b "a:b*") [] eLike _ parse_qLike (by decide +kernel) (by decide +kernel)
    (by decide +kernel)

/-- `query_confined_param` applied to `Parse("a:b*")`: the text `"a" SIMILAR TO ?` with the translated pattern -/
example : Sql.parseSql (b "\"a\" SIMILAR TO ?") = toAstP eLike ∧ paramsP eLike = some [.str (b "b%")] :=
  let h := query_confined_param asciiEnv (b "a:b*") [] eLike (b "\"a\" SIMILAR TO ?") [.str (b "b%")] parse_qLike
    (by decide +kernel) (by decide +kernel) (by decide +kernel) (by decide +kernel)
  ⟨h.1, h.2.1⟩

/-- `query_sql_means_query` (C03) applied to `Parse("a:b*")` -/
example (row : Row) : (Sql.parseSql (b "\"a\" SIMILAR TO 'b%'")).bind (evalSql row) = evalL row eLike :=
  query_sql_means_query asciiEnv (b "a:b*") [] eLike _ parse_qLike (by decide +kernel) (by decide +kernel)
    (by decide +kernel) row

/-- … and to a query under a default field: `Parse("foo", WithDefaultField("d"))` -/
example (row : Row) : (Sql.parseSql (b "\"d\" = 'foo'")).bind (evalSql row) = evalL row eDf :=
  query_sql_means_query asciiEnv (b "foo") (b "d") eDf _ parse_qDf (by decide +kernel) (by decide +kernel)
    (by decide +kernel) row

end Concrete

end GoLucene.SqlQuery

section Axioms
open GoLucene.SqlQuery
#print axioms conf_expr
#print axioms confP_expr
#print axioms shape_flt
#print axioms query_floats_finite
#print axioms query_in_fragment
#print axioms query_confined_iff
#print axioms query_confined
#print axioms query_confined_some
#print axioms query_confined_stack
#print axioms query_in_param_fragment
#print axioms query_confinedParam_iff
#print axioms query_confined_param
#print axioms query_confined_param_some
#print axioms textClean_of_wide
#print axioms query_textClean
#print axioms query_sql_means_query
#print axioms parse_grp
#print axioms grouped_value_outside
#print axioms query_confined_full_false
#print axioms grouped_value_reading
#print axioms grouped_value_still_one_predicate
#print axioms parse_numfield
#print axioms numeric_field_query
#print axioms numeric_field_placeholders
#print axioms query_confined_param_needs_fieldsCols
#print axioms ast_eq_of_beq
end Axioms
