import GoLucene.Proofs.JsonParse
import GoLucene.Proofs.Laws
/-
  C12, last clause — the decoded expression renders IDENTICAL inline and parameterized SQL.

  `retype e` (Proofs/JsonRoundTrip.lean) is the tree `UnmarshalJSON` rebuilds from `MarshalJSON e`.  Here: what the two
  PostgreSQL renderers (`render pgFns`, `renderParam pgFns`, Model/Driver.lean) do with it.

  INLINE (`ToPostgres`)
    `render_retype` :  semShapeT e → printStable e → render pgFns (retype e) = render pgFns e      (no Validate needed)
    `printStable` (JsonRoundTrip) = `printFieldOK` (the left operand of a column operator is the wrapped Column — true
    of every Parse result, `JsonParse.parse_printFieldOK`) && `printNumOK` (every float term / bound the decoder reads
    back as an int is written by `%v` like that int; every int bound survives float64).
    Kind changes are harmless: a quoted `"b*"` / `"/b/"` under EQUALS comes back as a Wild / Regexp leaf under EQUALS and
    renders the same (`quoted_star_same_sql`, `quoted_slash_same_sql`: the three leaf operators share `literal`, and
    `isSimple` does not distinguish them); a LIKE pattern that comes back Literal renders the same; a float bound below
    1e6 that becomes an int does not change `rang`'s branch (`float_bound_same_sql`).
    Each numeric clause is NECESSARY (refutations, `decide +kernel`), all inside the recorded finding classes:
      render_needs_floatExp        a:1000000.0            "a" = 1e+06                     → "a" = 1000000          K-json-float-exp
      render_needs_boundExp        a:[1000000.0 TO 5]     >= 1000000.00 AND <= 5.00       → >= 1000000 AND <= 5    K-json-float-exp
      render_needs_starExp         a:[* TO 1000000.0]     "a" <= 1000000.00               → "a" <= 1000000         K-json-float-exp
                                   (before fix F12 of `toFloats` the left text was "a" BETWEEN '*' AND 1e+06)
      render_needs_noNegZero       a:-0.0                 "a" = -0                        → "a" = 0                K-negzero
      render_needs_noNegZeroBound  a:[-0.0 TO 2.5]        >= -0.00                        → >= 0.00                K-negzero
      render_needs_noBigIntBound   a:[1 TO 2^53+1]        <= 9007199254740993             → <= 9007199254740992    K-json-bigint-bound
      render_needs_noBigFloatBound a:[1 TO 2^62 (float)]  >= 1.00 AND <= 4611686018427387904.00 → >= 1 AND <= 46…904 K-json-bigfloat-bound
    and so are the field clause (`render_needs_fieldOK`, a tree Parse never builds) and the shape (`render_needs_shape`).
    `printNumOK` is not an exact characterisation: `a:[-0.0 TO 5]` violates it and renders identically
    (`printNumOK_not_exact`: `rang` re-parses `-0` with Atoi).
    `query_inline_sql_not_preserved`: the clause is FALSE for the query `a:1000000.0` (through the whole of Parse).

  PARAMETERIZED (`ToParameterizedPostgres`)
    `renderParam_retype`        :  semShapeT e → printFieldOK e → the SQL TEXT is identical (`sqlOf`), same failure otherwise;
                                   NO numeric exclusion and no Validate
    `renderParam_retype_rel`    :  … with Validate: the parameter lists have the same length and are pointwise `paramRel`:
                                   p' = retypeVal p (term value: a float whose JSON text is an integer numeral becomes that
                                   int) or p' = retypeBoundVal p (range bound: through float64 and toIntIfNecessary)
    `renderParam_retype_params` :  the same in "whenever one side succeeds" form
    `paramRel_float`            :  a changed parameter denotes the same float64 (exactly, or `==` for a bound that became an
                                   int), -0 aside; an int bound is first rounded to float64 (K-json-bigint-bound)
    `param_int_not_exact`       :  NEW OBSERVATION (parameter values only): the float term 2^62 (`a:4611686018427387904.0`)
                                   comes back as the int parameter 4611686018427388000 — the shortest-digits numeral,
                                   which converts back to the same float64 but is not the float's exact value …904.

  OVER QUERIES
    `query_render`, `query_renderParam`, and `query_roundtrip_sql` = `Laws.query_roundtrip` + the two SQL clauses:
    inline under `printNumOK e`, parameterized unconditionally.

  Proof method: `render` / `renderParam` of a node are functions `rNode` / `rpNode` of the operands' outcomes and
  `isSimple` flags (`render_eq`, `renderParam_eq`, by `rfl`); `retype` preserves `isSimple` (`isSimple_retype`);
  `rpNode` respects any relation on parameters that keeps strings and "is a number" (`rpNode_rel`: `likeParam`,
  `rangParam` and the Like pattern translation look at nothing else); then one induction over the parser shape each.
-/
set_option linter.unusedSimpArgs false
set_option linter.unusedVariables false

namespace GoLucene
namespace JsonSql
open GoLucene.JsonRoundTrip GoLucene.NoPanic GoLucene.JsonParse

/-! ## 1. one node of `Base.Render` as a function of its operands' texts -/

/-- the body of `render pgFns (.mk l o r _ _)` after the two operands have been serialized -/
def rNode (o : Op) (sl sr : Bool) (x y : Out Bytes) : Out Bytes :=
  match x with
  | .err => .err
  | .panic => .panic
  | .ok left =>
    match y with
    | .err => .err
    | .panic => .panic
    | .ok right =>
      match pgFns o with
      | none => .err
      | some fn =>
        fn (if parenOps o && !sl then parenB left else left) (if parenOps o && !sr then parenB right else right)

theorem render_eq (l : Node) (o : Op) (r : Node) (p : F64) (d : Int) :
    render pgFns (.mk l o r p d) = rNode o (isSimple l) (isSimple r) (serialize pgFns l) (serialize pgFns r) := by
  rw [render]
  cases serialize pgFns l <;> cases serialize pgFns r <;> rfl

/-- the three leaf operators share one table entry, and a simple operand gets no parentheses -/
theorem rNode_leaf (o : Op) (ho : (o = .literal || o = .wild || o = .regexp) = true) (x y : Out Bytes) :
    rNode o true true x y = rNode .literal true true x y := by
  have : o = .literal ∨ o = .wild ∨ o = .regexp := by simpa [or_assoc] using ho
  rcases this with rfl | rfl | rfl <;> cases x <;> cases y <;> rfl

theorem ser_expr (e : Expr) : serialize pgFns (.expr e) = render pgFns e := by rw [serialize]
theorem ser_nil : serialize pgFns .nil = .ok [] := by rw [serialize]

theorem isSimple_leafop (l : Node) (o : Op) (r : Node) (p : F64) (d : Int)
    (ho : (o = .literal || o = .wild || o = .regexp) = true) : isSimple (.expr (.mk l o r p d)) = true := by
  have : o = .literal ∨ o = .wild ∨ o = .regexp := by simpa [or_assoc] using ho
  rcases this with rfl | rfl | rfl <;> rfl

/-- decoding never changes whether an operand is "simple" (gets no parentheses) -/
theorem isSimple_retype (a : Expr) : isSimple (.expr (retype a)) = isSimple (.expr a) := by
  obtain ⟨l, o, r, p, d⟩ := a
  by_cases ho : (o = .literal || o = .wild || o = .regexp) = true
  · rw [isSimple_leafop _ _ _ _ _ ho]
    cases l with
    | prim q =>
      rw [retype_leaf _ _ _ _ _ ho]
      have h := retypePrim_op q
      generalize retypePrim q = e' at h
      obtain ⟨l', o', r', p', d'⟩ := e'
      exact isSimple_leafop _ _ _ _ _ h
    | nil => simp only [retype, ho, if_true]; exact isSimple_leafop _ _ _ _ _ ho
    | expr x => simp only [retype, ho, if_true]; exact isSimple_leafop _ _ _ _ _ ho
    | list x => simp only [retype, ho, if_true]; exact isSimple_leafop _ _ _ _ _ ho
    | bound x y z => simp only [retype, ho, if_true]; exact isSimple_leafop _ _ _ _ _ ho
  · have ho' : (o = .literal || o = .wild || o = .regexp) = false := by simpa using ho
    rw [retype_node _ _ _ _ _ ho']
    cases o <;> rfl

/-! ## 2. leaves -/

theorem ser_prim_str (s : Bytes) : serialize pgFns (.prim (.str s)) = .ok (sqlQuote s) := by rw [serialize]
theorem ser_prim_int (i : Int) : serialize pgFns (.prim (.int i)) = .ok (fmtInt i) := by simp [serialize, fmtVPrim]
theorem ser_prim_flt (f : F64) : serialize pgFns (.prim (.flt f)) = .ok (fmtG f) := by simp [serialize, fmtVPrim]
theorem isSimple_nil : isSimple .nil = true := rfl

theorem isSimple_termPrim (q : Prim) (ht : termPrim q = true) : isSimple (.prim q) = true := by
  cases q <;> simp [termPrim] at ht <;> rfl

/-- the text of a raw term value after the decoder -/
theorem ser_retypePrim_left (q : Prim) (ht : termPrim q = true) (hk : primPrintOK q = true) :
    ∃ q' o', (o' = .literal || o' = .wild || o' = .regexp) = true ∧ retypePrim q = .mk (.prim q') o' .nil F64.one 1 ∧
      termPrim q' = true ∧ serialize pgFns (.prim q') = serialize pgFns (.prim q) := by
  cases q with
  | str s =>
    obtain ⟨o', ho', hf⟩ := literalToExpr_str_form s
    exact ⟨.str s, o', ho', by simp only [retypePrim, hf], rfl, rfl⟩
  | int i => exact ⟨.int i, .literal, rfl, rfl, rfl, rfl⟩
  | flt f =>
    simp only [primPrintOK] at hk
    cases hfi : floatAsInt f with
    | none => exact ⟨.flt f, .literal, rfl, by simp only [retypePrim, hfi]; rfl, rfl, rfl⟩
    | some i =>
      simp only [hfi, decide_eq_true_eq] at hk
      exact ⟨.int i, .literal, rfl, by simp only [retypePrim, hfi]; rfl, rfl, by rw [ser_prim_int, ser_prim_flt, hk]⟩
  | _ => simp [termPrim] at ht

/-- a term renders identically after the decoder -/
theorem render_retypePrim (q : Prim) (o : Op) (p : F64) (d : Int)
    (ho : (o = .literal || o = .wild || o = .regexp) = true) (ht : termPrim q = true) (hk : primPrintOK q = true) :
    render pgFns (retypePrim q) = render pgFns (.mk (.prim q) o .nil p d) := by
  obtain ⟨q', o', ho', hf, ht', hser⟩ := ser_retypePrim_left q ht hk
  rw [hf, render_eq, render_eq, isSimple_termPrim q ht, isSimple_termPrim q' ht', hser, isSimple_nil,
    rNode_leaf o ho, rNode_leaf o' ho']

theorem termLeaf_render (e : Expr) (ht : termLeaf e = true) (hk : printStable e = true) :
    render pgFns (retype e) = render pgFns e := by
  obtain ⟨q, o, p, d, rfl, ho, htq⟩ := termLeaf_prim e ht
  rw [retype_leaf _ _ _ _ _ ho]
  obtain ⟨_, hkl, _⟩ := printStable_parts _ _ _ _ _ hk
  exact render_retypePrim q o p d ho htq (by simpa [printStableNode] using hkl)


/-! ## 3. the shape of the operands of a non-leaf node -/

/-- the left operand of a non-leaf node of the parser shape: a shaped expression, or (under a column operator) the
    wrapped Column -/
theorem shape_left (l : Node) (o : Op) (r : Node) (p : F64) (d : Int)
    (hs : semShapeT (.mk l o r p d) = true) (ho : (o = .literal || o = .wild || o = .regexp) = false) :
    ∃ a, l = .expr a ∧ (semShapeT a || isColField (.expr a)) = true ∧
      (isColField (.expr a) = true → operatesOnColumn o = true) := by
  have node : ∀ n : Node, semNodeT n = true → operatesOnColumn o = false →
      ∃ a, n = .expr a ∧ (semShapeT a || isColField (.expr a)) = true ∧
        (isColField (.expr a) = true → operatesOnColumn o = true) := by
    intro n hn _
    obtain ⟨a, rfl, hsa⟩ := semNodeT_expr n hn
    exact ⟨a, rfl, by simp [hsa], fun h => by simp [colField_not_shape a hsa] at h⟩
  have field : ∀ n : Node, (semNodeT n || isColField n) = true → operatesOnColumn o = true →
      ∃ a, n = .expr a ∧ (semShapeT a || isColField (.expr a)) = true ∧
        (isColField (.expr a) = true → operatesOnColumn o = true) := by
    intro n hn hc
    obtain ⟨a, rfl, hfa⟩ := field_expr n hn
    exact ⟨a, rfl, hfa, fun _ => hc⟩
  cases o with
  | undefined => simp [semShapeT] at hs
  | list => simp [semShapeT] at hs
  | literal => simp at ho
  | wild => simp at ho
  | regexp => simp at ho
  | and => simp only [semShapeT, Bool.and_eq_true] at hs; exact node l hs.1 rfl
  | or => simp only [semShapeT, Bool.and_eq_true] at hs; exact node l hs.1 rfl
  | not => simp only [semShapeT, Bool.and_eq_true] at hs; exact node l hs.1 rfl
  | must => simp only [semShapeT, Bool.and_eq_true] at hs; exact node l hs.1 rfl
  | mustNot => simp only [semShapeT, Bool.and_eq_true] at hs; exact node l hs.1 rfl
  | boost => simp only [semShapeT, Bool.and_eq_true] at hs; exact node l hs.1 rfl
  | fuzzy => simp only [semShapeT, Bool.and_eq_true] at hs; exact node l hs.1 rfl
  | equals => simp only [semShapeT, Bool.and_eq_true] at hs; exact field l hs.1 rfl
  | greater => simp only [semShapeT, Bool.and_eq_true] at hs; exact field l hs.1 rfl
  | less => simp only [semShapeT, Bool.and_eq_true] at hs; exact field l hs.1 rfl
  | greaterEq => simp only [semShapeT, Bool.and_eq_true] at hs; exact field l hs.1 rfl
  | lessEq => simp only [semShapeT, Bool.and_eq_true] at hs; exact field l hs.1 rfl
  | like => simp only [semShapeT, Bool.and_eq_true] at hs; exact field l hs.1 rfl
  | in_ => simp only [semShapeT, Bool.and_eq_true] at hs; exact field l hs.1 rfl
  | range => unfold semShapeT at hs; simp only [Bool.and_eq_true] at hs; exact field l hs.1 rfl

/-- the right operand of a non-leaf node of the parser shape: nothing, a shaped expression (a pattern term is one), the
    list expression of IN, or a range boundary over two shaped expressions -/
theorem shape_right (l : Node) (o : Op) (r : Node) (p : F64) (d : Int)
    (hs : semShapeT (.mk l o r p d) = true) (ho : (o = .literal || o = .wild || o = .regexp) = false) :
    r = .nil ∨ (∃ c, r = .expr c ∧ semShapeT c = true) ∨
    (∃ es p' d', r = .expr (.mk (.list es) .list .nil p' d') ∧ allTermLit es = true) ∨
    (∃ lo hi incl, r = .bound (.expr lo) (.expr hi) incl ∧ semShapeT lo = true ∧ semShapeT hi = true ∧ o = .range) := by
  have node : ∀ n : Node, semNodeT n = true → ∃ c, n = .expr c ∧ semShapeT c = true := semNodeT_expr
  cases o with
  | undefined => simp [semShapeT] at hs
  | list => simp [semShapeT] at hs
  | literal => simp at ho
  | wild => simp at ho
  | regexp => simp at ho
  | and => simp only [semShapeT, Bool.and_eq_true] at hs; exact .inr (.inl (node r hs.2))
  | or => simp only [semShapeT, Bool.and_eq_true] at hs; exact .inr (.inl (node r hs.2))
  | equals => simp only [semShapeT, Bool.and_eq_true] at hs; exact .inr (.inl (node r hs.2))
  | greater => simp only [semShapeT, Bool.and_eq_true] at hs; exact .inr (.inl (node r hs.2))
  | less => simp only [semShapeT, Bool.and_eq_true] at hs; exact .inr (.inl (node r hs.2))
  | greaterEq => simp only [semShapeT, Bool.and_eq_true] at hs; exact .inr (.inl (node r hs.2))
  | lessEq => simp only [semShapeT, Bool.and_eq_true] at hs; exact .inr (.inl (node r hs.2))
  | not => simp only [semShapeT, Bool.and_eq_true] at hs; exact .inl (isNil_eq r hs.2)
  | must => simp only [semShapeT, Bool.and_eq_true] at hs; exact .inl (isNil_eq r hs.2)
  | mustNot => simp only [semShapeT, Bool.and_eq_true] at hs; exact .inl (isNil_eq r hs.2)
  | boost => simp only [semShapeT, Bool.and_eq_true] at hs; exact .inl (isNil_eq r hs.2)
  | fuzzy => simp only [semShapeT, Bool.and_eq_true] at hs; exact .inl (isNil_eq r hs.2)
  | like =>
    simp only [semShapeT, Bool.and_eq_true] at hs
    obtain ⟨_, hs2⟩ := hs
    split at hs2
    · rename_i re
      simp only [Bool.and_eq_true] at hs2
      exact .inr (.inl ⟨re, rfl, semShapeT_leaf re hs2.1⟩)
    · exact absurd hs2 Bool.false_ne_true
  | in_ =>
    simp only [semShapeT, Bool.and_eq_true] at hs
    obtain ⟨_, hs2⟩ := hs
    split at hs2
    · rename_i es p' d'
      simp only [Bool.and_eq_true] at hs2
      exact .inr (.inr (.inl ⟨es, p', d', rfl, hs2.1⟩))
    · exact absurd hs2 Bool.false_ne_true
  | range =>
    unfold semShapeT at hs
    simp only [Bool.and_eq_true] at hs
    obtain ⟨_, hs2⟩ := hs
    split at hs2
    · rename_i lo hi incl
      simp only [Bool.and_eq_true] at hs2
      exact .inr (.inr (.inr ⟨lo, hi, incl, rfl, hs2.1, hs2.2, rfl⟩))
    · exact absurd hs2 Bool.false_ne_true

/-- what `retype` puts on the left of a non-leaf node: the decoded operand, or the very same wrapped Column -/
theorem left_cases (a : Expr) (o : Op) (hf : (semShapeT a || isColField (.expr a)) = true)
    (hcol : (!operatesOnColumn o || isColField (.expr a) || !isStringlike (retypeNode (.expr a))) = true)
    (ho : isColField (.expr a) = true → operatesOnColumn o = true) :
    (semShapeT a = true ∧
      (if isStringlike (retypeNode (.expr a)) && operatesOnColumn o then wrapInColumn (retypeNode (.expr a))
        else retypeNode (.expr a)) = .expr (retype a)) ∨
    (∃ s p d, a = .mk (.prim (.col s)) .literal .nil p d ∧
      (if isStringlike (retypeNode (.expr a)) && operatesOnColumn o then wrapInColumn (retypeNode (.expr a))
        else retypeNode (.expr a)) = .expr (.mk (.prim (.col s)) .literal .nil F64.one 1)) := by
  by_cases hs : semShapeT a = true
  · left
    refine ⟨hs, ?_⟩
    have hnc := colField_not_shape a hs
    have hc : (isStringlike (retypeNode (.expr a)) && operatesOnColumn o) = false := by
      simp only [hnc, Bool.or_false, Bool.or_eq_true, Bool.not_eq_true'] at hcol
      rcases hcol with h | h <;> simp [h]
    rw [if_neg (by simp [hc])]
    simp only [retypeNode]
  · right
    have hc : isColField (.expr a) = true := by
      rcases Bool.or_eq_true _ _ |>.mp hf with h' | h'
      · exact absurd h' hs
      · exact h'
    have hoc := ho hc
    unfold isColField at hc
    split at hc
    · rename_i heq
      simp only [Node.expr.injEq] at heq; subst heq
      rename_i s p d
      refine ⟨s, p, d, rfl, ?_⟩
      have hrn : retypeNode (Node.expr (.mk (.prim (.col s)) .literal .nil p d)) = .expr (literalToExpr (.prim (.str s))) := by
        simp only [retypeNode]
        rw [retype_leaf _ .literal _ _ _ rfl]
        rfl
      rw [hrn, stringlike_literalToExpr, hoc, wrap_literalToExpr]
      rfl
    · exact absurd hc Bool.false_ne_true

/-! ## 4. `render`: operands -/

theorem render_pd (l : Node) (o : Op) (r : Node) (p p' : F64) (d d' : Int) :
    render pgFns (.mk l o r p d) = render pgFns (.mk l o r p' d') := by rw [render_eq, render_eq]

theorem left_render (a : Expr) (o : Op) (hf : (semShapeT a || isColField (.expr a)) = true)
    (hcol : (!operatesOnColumn o || isColField (.expr a) || !isStringlike (retypeNode (.expr a))) = true)
    (ho : isColField (.expr a) = true → operatesOnColumn o = true)
    (ih : semShapeT a = true → render pgFns (retype a) = render pgFns a) :
    serialize pgFns (if isStringlike (retypeNode (.expr a)) && operatesOnColumn o then wrapInColumn (retypeNode (.expr a))
        else retypeNode (.expr a)) = serialize pgFns (.expr a) ∧
    isSimple (if isStringlike (retypeNode (.expr a)) && operatesOnColumn o then wrapInColumn (retypeNode (.expr a))
        else retypeNode (.expr a)) = isSimple (.expr a) := by
  rcases left_cases a o hf hcol ho with ⟨hs, h⟩ | ⟨s, p, d, rfl, h⟩
  · rw [h, ser_expr, ser_expr, ih hs, isSimple_retype]
    exact ⟨rfl, rfl⟩
  · rw [h, ser_expr, ser_expr, render_pd _ _ _ F64.one p 1 d]
    exact ⟨rfl, rfl⟩

theorem ser_list (es : ExprList) : serialize pgFns (.list es) =
    (match serializeList pgFns es with
     | .ok strs => .ok (joinWith (b ", ") strs)
     | .err => .err
     | .panic => .panic) := by rw [serialize]; cases serializeList pgFns es <;> rfl

theorem serList_retype : ∀ es : ExprList, allTermLit es = true → printStableList es = true →
    serializeList pgFns (retypeList es) = serializeList pgFns es
  | .nil, _, _ => by simp only [retypeList]
  | .cons e t, ht, hk => by
    simp only [allTermLit, Bool.and_eq_true] at ht
    simp only [printStableList, Bool.and_eq_true] at hk
    simp only [retypeList, serializeList, termLeaf_render e ht.1.1 hk.1, serList_retype t ht.2 hk.2]

theorem retypeNode_list (es : ExprList) : retypeNode (.list es) = .list (retypeList es) := by simp only [retypeNode]
theorem retypeNode_nil : retypeNode .nil = .nil := by simp only [retypeNode]
theorem retypeNode_expr (e : Expr) : retypeNode (.expr e) = .expr (retype e) := by simp only [retypeNode]
theorem retypeNode_bound (lo hi : Expr) (incl : Bool) :
    retypeNode (.bound (.expr lo) (.expr hi) incl) = .bound (.expr (retypeBound lo)) (.expr (retypeBound hi)) incl := by
  simp only [retypeNode, retypeBoundNode]

/-- what `retype` does to the list expression of IN -/
theorem retype_listExpr (es : ExprList) (p : F64) (d : Int) :
    retype (.mk (.list es) .list .nil p d) = .mk (.list (retypeList es)) .list .nil F64.one 1 := by
  rw [retype_node _ _ _ _ _ rfl, retypeNode_list, retypeNode_nil]
  have : (isStringlike (Node.list (retypeList es)) && operatesOnColumn .list) = false := by simp [isStringlike]
  rw [if_neg (by simp [this])]
  rfl

theorem listExpr_render (es : ExprList) (p : F64) (d : Int) (ht : allTermLit es = true) (hk : printStableList es = true) :
    render pgFns (retype (.mk (.list es) .list .nil p d)) = render pgFns (.mk (.list es) .list .nil p d) := by
  rw [retype_listExpr, render_eq, render_eq, ser_list, ser_list, serList_retype es ht hk]
  rfl

theorem ser_bound (mn mx : Node) (incl : Bool) : serialize pgFns (.bound mn mx incl) =
    (match serialize pgFns mn with
     | .err => .err
     | .panic => .panic
     | .ok smin =>
       match serialize pgFns mx with
       | .err => .err
       | .panic => .panic
       | .ok smax =>
         if incl then .ok (b "[" ++ smin ++ b ", " ++ smax ++ b "]")
         else .ok (b "(" ++ smin ++ b ", " ++ smax ++ b ")")) := by
  rw [serialize]; cases serialize pgFns mn <;> cases serialize pgFns mx <;> rfl

/-- two leaves over raw term values with the same text render alike, whatever their leaf operators -/
theorem render_leaf_congr (q q' : Prim) (o o' : Op) (p p' : F64) (d d' : Int)
    (ho : (o = .literal || o = .wild || o = .regexp) = true) (ho' : (o' = .literal || o' = .wild || o' = .regexp) = true)
    (ht : termPrim q = true) (ht' : termPrim q' = true)
    (hser : serialize pgFns (.prim q') = serialize pgFns (.prim q)) :
    render pgFns (.mk (.prim q') o' .nil p' d') = render pgFns (.mk (.prim q) o .nil p d) := by
  rw [render_eq, render_eq, isSimple_termPrim q ht, isSimple_termPrim q' ht', hser, isSimple_nil,
    rNode_leaf o ho, rNode_leaf o' ho']

/-- a non-leaf shaped expression is left alone by the decoder's treatment of range bounds -/
theorem retypeBound_nonleaf (l : Node) (o : Op) (r : Node) (p : F64) (d : Int)
    (hs : semShapeT (.mk l o r p d) = true) (ho : (o = .literal || o = .wild || o = .regexp) = false) :
    retypeBound (.mk l o r p d) = .mk l o r p d := by
  obtain ⟨x, rfl⟩ := shape_left_expr l o r p d hs ho
  simp only [retypeBound]

/-- a range bound renders identically after the decoder's detour through `any` -/
theorem render_retypeBound (e : Expr) (hs : semShapeT e = true) (hk : boundPrintOK (.expr e) = true) :
    render pgFns (retypeBound e) = render pgFns e := by
  obtain ⟨l, o, r, p, d⟩ := e
  by_cases ho : (o = .literal || o = .wild || o = .regexp) = true
  · have ht := termLeaf_of_shapeT_leafop _ hs (by simp only [Expr.op, Op.isLeafOp]; exact ho)
    obtain ⟨q, o2, p2, d2, heq, ho2, htq⟩ := termLeaf_prim _ ht
    cases heq
    cases q with
    | str s =>
      obtain ⟨o', ho', hf⟩ := literalToExpr_str_form s
      simp only [retypeBound, hf]
      exact render_leaf_congr _ _ _ _ _ _ _ _ ho ho' rfl rfl rfl
    | int i =>
      simp only [boundPrintOK, decide_eq_true_eq] at hk
      simp only [retypeBound, hk, lit, mkLeaf]
      exact render_leaf_congr _ _ _ _ _ _ _ _ ho rfl rfl rfl rfl
    | flt f =>
      simp only [boundPrintOK] at hk
      simp only [retypeBound, lit, mkLeaf]
      by_cases he : F64.eq f (F64.ofInt f.toInt) = true
      · have h1 : toIntIfNecessary f = .int f.toInt := by simp [toIntIfNecessary, he]
        rw [h1] at hk ⊢
        simp only [decide_eq_true_eq] at hk
        exact render_leaf_congr _ _ _ _ _ _ _ _ ho rfl rfl rfl (by rw [ser_prim_int, ser_prim_flt, hk])
      · have h1 : toIntIfNecessary f = .flt f := by simp [toIntIfNecessary, he]
        rw [h1]
        exact render_leaf_congr _ _ _ _ _ _ _ _ ho rfl rfl rfl rfl
    | _ => simp [termPrim] at htq
  · have ho' : (o = .literal || o = .wild || o = .regexp) = false := by simpa using ho
    rw [retypeBound_nonleaf _ _ _ _ _ hs ho']

theorem bound_ser (lo hi : Expr) (incl : Bool)
    (hlo : render pgFns (retypeBound lo) = render pgFns lo) (hhi : render pgFns (retypeBound hi) = render pgFns hi) :
    serialize pgFns (retypeNode (.bound (.expr lo) (.expr hi) incl)) = serialize pgFns (.bound (.expr lo) (.expr hi) incl) := by
  rw [retypeNode_bound, ser_bound, ser_bound, ser_expr, ser_expr, ser_expr, ser_expr, hlo, hhi]

/-! ## 5. `render (retype e) = render e` -/

/-- **Inline SQL.**  For every tree of the parser's shape, under `printStable` (the field clause, which every Parse
    result has, and the numeric clause `printNumOK`: every float leaf / bound that the decoder reads back as an int is
    written by `%v` like that int, every int bound survives float64), the decoded tree renders the identical inline
    PostgreSQL text — or fails in the identical way.  `validateExpr` is not needed. -/
theorem render_retype : ∀ e : Expr, semShapeT e = true → printStable e = true →
    render pgFns (retype e) = render pgFns e
  | .mk l o r p d, hs, hk => by
    by_cases ho : (o = .literal || o = .wild || o = .regexp) = true
    · exact termLeaf_render _ (termLeaf_of_shapeT_leafop _ hs (by simp only [Expr.op, Op.isLeafOp]; exact ho)) hk
    · have ho' : (o = .literal || o = .wild || o = .regexp) = false := by simpa using ho
      obtain ⟨a, rfl, hfa, hoc⟩ := shape_left l o r p d hs ho'
      obtain ⟨hcol, hkl, hkr⟩ := printStable_parts _ _ _ _ _ hk
      simp only [printStableNode] at hkl
      have hL := left_render a o hfa hcol hoc (fun hs' => render_retype a hs' hkl)
      have hR : serialize pgFns (retypeNode r) = serialize pgFns r ∧ isSimple (retypeNode r) = isSimple r := by
        rcases shape_right _ o r p d hs ho' with rfl | ⟨c, rfl, hsc⟩ | ⟨es, p', d', rfl, hes⟩ | ⟨lo, hi, incl, rfl, hlo, hhi, _⟩
        · rw [retypeNode_nil]; exact ⟨rfl, rfl⟩
        · simp only [printStableNode] at hkr
          rw [retypeNode_expr, ser_expr, ser_expr, render_retype c hsc hkr, isSimple_retype]
          exact ⟨rfl, rfl⟩
        · simp only [printStableNode] at hkr
          obtain ⟨_, hkes, _⟩ := printStable_parts _ _ _ _ _ hkr
          simp only [printStableNode] at hkes
          rw [retypeNode_expr, ser_expr, ser_expr, listExpr_render es p' d' hes hkes, isSimple_retype]
          exact ⟨rfl, rfl⟩
        · simp only [printStableNode, Bool.and_eq_true] at hkr
          rw [bound_ser lo hi incl (render_retypeBound lo hlo hkr.1) (render_retypeBound hi hhi hkr.2), retypeNode_bound]
          exact ⟨rfl, rfl⟩
      rw [retype_node _ _ _ _ _ ho', render_eq, render_eq, hL.1, hL.2, hR.1, hR.2]


/-! ## 6. parameterized SQL: how the parameter values are related -/

/-- the value the decoder gives a raw TERM value (a leaf, a list element, a field): a float whose JSON text is an
    integer numeral comes back as that int; everything else is unchanged -/
def retypeVal : Prim → Prim
  | .flt f =>
    (match floatAsInt f with
     | some i => .int i
     | none => .flt f)
  | q => q

/-- the value the decoder gives a raw RANGE BOUND: numbers pass through float64 and `toIntIfNecessary` -/
def retypeBoundVal : Prim → Prim
  | .int i => toIntIfNecessary (F64.ofInt i)
  | .flt f => toIntIfNecessary f
  | q => q

/-- a parameter of the decoded tree is the decoder's reading of the corresponding parameter of the original tree -/
def paramRel (p p' : Prim) : Bool := decide (p' = retypeVal p) || decide (p' = retypeBoundVal p)

/-- the weaker relation used when range bounds are not known to be leaves: also "unchanged" -/
def paramRel3 (p p' : Prim) : Bool := decide (p' = p) || paramRel p p'

def listRel (R : Prim → Prim → Bool) : List Prim → List Prim → Bool
  | [], [] => true
  | p :: ps, p' :: ps' => R p p' && listRel R ps ps'
  | _, _ => false

/-- pointwise `paramRel`, equal lengths -/
def paramsRel : List Prim → List Prim → Bool := listRel paramRel

def strOf : Prim → Option Bytes
  | .str s => some s
  | _ => none

def isNum : Prim → Bool
  | .int _ => true
  | .flt _ => true
  | _ => false

theorem toInt_class (f : F64) : strOf (toIntIfNecessary f) = none ∧ isNum (toIntIfNecessary f) = true := by
  unfold toIntIfNecessary
  simp only []
  split <;> exact ⟨rfl, rfl⟩

theorem retypeVal_class (p : Prim) : strOf (retypeVal p) = strOf p ∧ isNum (retypeVal p) = isNum p := by
  cases p with
  | flt f =>
    simp only [retypeVal]
    cases floatAsInt f <;> exact ⟨rfl, rfl⟩
  | _ => exact ⟨rfl, rfl⟩

theorem retypeBoundVal_class (p : Prim) : strOf (retypeBoundVal p) = strOf p ∧ isNum (retypeBoundVal p) = isNum p := by
  cases p with
  | int i => exact toInt_class _
  | flt f => exact toInt_class _
  | _ => exact ⟨rfl, rfl⟩

/-- the two renderers look at a parameter only through "is it this string" / "is it a number": both are preserved -/
theorem paramRel3_class (p p' : Prim) (h : paramRel3 p p' = true) : strOf p' = strOf p ∧ isNum p' = isNum p := by
  simp only [paramRel3, paramRel, Bool.or_eq_true, decide_eq_true_eq] at h
  rcases h with rfl | rfl | rfl
  · exact ⟨rfl, rfl⟩
  · exact retypeVal_class p
  · exact retypeBoundVal_class p

section Rel
variable (R : Prim → Prim → Bool) (hR : ∀ p p', R p p' = true → strOf p' = strOf p ∧ isNum p' = isNum p)

theorem listRel_nil : listRel R [] [] = true := rfl

theorem listRel_append : ∀ (ps ps' qs qs' : List Prim), listRel R ps ps' = true → listRel R qs qs' = true →
    listRel R (ps ++ qs) (ps' ++ qs') = true
  | [], [], _, _, _, h => h
  | [], _ :: _, _, _, h, _ => by simp [listRel] at h
  | _ :: _, [], _, _, h, _ => by simp [listRel] at h
  | p :: ps, p' :: ps', qs, qs', h, h2 => by
    simp only [listRel, Bool.and_eq_true] at h
    simp only [List.cons_append, listRel, Bool.and_eq_true]
    exact ⟨h.1, listRel_append ps ps' qs qs' h.2 h2⟩

/-- the outcomes of the two renderings: the same failure, or the same text with related parameters -/
def PRel (x y : Out (Bytes × List Prim)) : Prop :=
  (x = .err ∧ y = .err) ∨ (x = .panic ∧ y = .panic) ∨
  ∃ s ps ps', x = .ok (s, ps) ∧ y = .ok (s, ps') ∧ listRel R ps ps' = true

def PRelL (x y : Out (List Bytes × List Prim)) : Prop :=
  (x = .err ∧ y = .err) ∨ (x = .panic ∧ y = .panic) ∨
  ∃ s ps ps', x = .ok (s, ps) ∧ y = .ok (s, ps') ∧ listRel R ps ps' = true

/-- `if e.Op == expr.Like { rval := rparams[0].(string) … }` -/
def likeStep (rparams0 : List Prim) : Out (List Prim) :=
  match rparams0 with
  | .str rval :: rest =>
    if rval.length < 2 || rval.head? != some 47 || rval.getLast? != some 47
    then .ok (.str (starPattern rval) :: rest) else .ok rparams0
  | _ => .panic

/-- the body of `renderParam pgFns (.mk l o r _ _)` after the two operands have been serialized -/
def rpNode (o : Op) (sl sr : Bool) (x y : Out (Bytes × List Prim)) : Out (Bytes × List Prim) :=
  match x with
  | .err => .err
  | .panic => .panic
  | .ok (left, lparams) =>
    match y with
    | .err => .err
    | .panic => .panic
    | .ok (right, rparams0) =>
      match (if o = .like then likeStep rparams0 else .ok rparams0) with
      | .err => .err
      | .panic => .panic
      | .ok rparams =>
        if o = .like then
          (match likeParam (if parenOps o && !sl then parenB left else left)
              (if parenOps o && !sr then parenB right else right) rparams with
           | .ok s => .ok (s, lparams ++ rparams) | .err => .err | .panic => .panic)
        else if o = .range then
          (match rangParam (if parenOps o && !sl then parenB left else left)
              (if parenOps o && !sr then parenB right else right) rparams with
           | .ok s => .ok (s, lparams ++ rparams) | .err => .err | .panic => .panic)
        else
          match pgFns o with
          | none => .err
          | some fn =>
            (match fn (if parenOps o && !sl then parenB left else left)
                (if parenOps o && !sr then parenB right else right) with
             | .ok s => .ok (s, lparams ++ rparams) | .err => .err | .panic => .panic)

end Rel

theorem renderParam_eq (l : Node) (o : Op) (r : Node) (p : F64) (d : Int) :
    renderParam pgFns (.mk l o r p d) =
      rpNode o (isSimple l) (isSimple r) (serializeParams pgFns l) (serializeParams pgFns r) := by
  rw [renderParam]
  generalize serializeParams pgFns l = x
  generalize serializeParams pgFns r = y
  cases x with
  | err => rfl
  | panic => rfl
  | ok v =>
    obtain ⟨left, lparams⟩ := v
    cases y with
    | err => rfl
    | panic => rfl
    | ok w =>
      obtain ⟨right, rparams0⟩ := w
      rfl


/-! ## 7. the node function respects the relation -/

section Rel2
variable (R : Prim → Prim → Bool) (hR : ∀ p p', R p p' = true → strOf p' = strOf p ∧ isNum p' = isNum p)

theorem PRel_ok (s : Bytes) (ps ps' : List Prim) (h : listRel R ps ps' = true) : PRel R (.ok (s, ps)) (.ok (s, ps')) :=
  .inr (.inr ⟨s, ps, ps', rfl, rfl, h⟩)

theorem PRel_err : PRel R .err .err := .inl ⟨rfl, rfl⟩
theorem PRel_panic : PRel R .panic .panic := .inr (.inl ⟨rfl, rfl⟩)

/-- lift a text-level result `Out Bytes` with a parameter list -/
def withParams (t : Out Bytes) (ps : List Prim) : Out (Bytes × List Prim) :=
  match t with
  | .ok s => .ok (s, ps) | .err => .err | .panic => .panic

theorem withParams_rel (t : Out Bytes) (ps ps' : List Prim) (h : listRel R ps ps' = true) :
    PRel R (withParams t ps) (withParams t ps') := by
  cases t with
  | ok s => exact PRel_ok R s ps ps' h
  | err => exact PRel_err R
  | panic => exact PRel_panic R

include hR

theorem str_inv (s : Bytes) (p' : Prim) (h : R (.str s) p' = true) : p' = .str s := by
  have := (hR _ _ h).1
  cases p' <;> simp [strOf] at this
  rw [this]

theorem nonstr_inv (p p' : Prim) (h : R p p' = true) (hp : strOf p = none) : strOf p' = none := by
  rw [(hR _ _ h).1, hp]

theorem likeParam_rel (L Rt : Bytes) (ps ps' : List Prim) (h : listRel R ps ps' = true) :
    likeParam L Rt ps = likeParam L Rt ps' := by
  match ps, ps', h with
  | [], [], _ => rfl
  | [], _ :: _, h => simp [listRel] at h
  | _ :: _, [], h => simp [listRel] at h
  | [p], [p'], h =>
    simp only [listRel, Bool.and_eq_true] at h
    cases p with
    | str s => rw [str_inv R hR s p' h.1]
    | _ =>
      have := nonstr_inv R hR _ p' h.1 rfl
      cases p' <;> simp [strOf] at this <;> rfl
  | [_], _ :: _ :: _, h => simp [listRel] at h
  | _ :: _ :: _, [_], h => simp [listRel] at h
  | _ :: _ :: _, _ :: _ :: _, _ => rfl

theorem rangParam_rel (L Rt : Bytes) (ps ps' : List Prim) (h : listRel R ps ps' = true) :
    rangParam L Rt ps = rangParam L Rt ps' := by
  unfold rangParam
  cases rangeParts Rt with
  | err => rfl
  | panic => rfl
  | ok v =>
    obtain ⟨incl, rawMin, rawMax⟩ := v
    simp only []
    split
    · match ps, ps', h with
      | [], [], _ => rfl
      | [], _ :: _, h => simp [listRel] at h
      | _ :: _, [], h => simp [listRel] at h
      | p :: _, p' :: _, h =>
        simp only [listRel, Bool.and_eq_true] at h
        have := (hR _ _ h.1).2
        cases p <;> cases p' <;> simp [isNum] at this <;> rfl
    · rfl

variable (hS : ∀ s, R (.str s) (.str s) = true)
include hS

theorem likeStep_rel (ps ps' : List Prim) (h : listRel R ps ps' = true) :
    (likeStep ps = .panic ∧ likeStep ps' = .panic) ∨
    ∃ qs qs', likeStep ps = .ok qs ∧ likeStep ps' = .ok qs' ∧ listRel R qs qs' = true := by
  match ps, ps', h with
  | [], [], _ => exact .inl ⟨rfl, rfl⟩
  | [], _ :: _, h => simp [listRel] at h
  | _ :: _, [], h => simp [listRel] at h
  | p :: t, p' :: t', h =>
    have h0 := h
    simp only [listRel, Bool.and_eq_true] at h
    cases p with
    | str s =>
      obtain rfl := str_inv R hR s p' h.1
      simp only [likeStep]
      split
      · refine .inr ⟨_, _, rfl, rfl, ?_⟩
        simp only [listRel, Bool.and_eq_true]
        exact ⟨hS _, h.2⟩
      · exact .inr ⟨_, _, rfl, rfl, h0⟩
    | _ =>
      have := nonstr_inv R hR _ p' h.1 rfl
      cases p' <;> simp [strOf] at this <;> exact .inl ⟨rfl, rfl⟩


/-- **the node function respects the relation**: related operand outcomes give related node outcomes -/
theorem rpNode_rel (o : Op) (sl sr : Bool) (x x' y y' : Out (Bytes × List Prim))
    (hx : PRel R x x') (hy : PRel R y y') : PRel R (rpNode o sl sr x y) (rpNode o sl sr x' y') := by
  rcases hx with ⟨rfl, rfl⟩ | ⟨rfl, rfl⟩ | ⟨left, lps, lps', rfl, rfl, hl⟩
  · exact PRel_err R
  · exact PRel_panic R
  · rcases hy with ⟨rfl, rfl⟩ | ⟨rfl, rfl⟩ | ⟨right, rps, rps', rfl, rfl, hr⟩
    · exact PRel_err R
    · exact PRel_panic R
    · by_cases h1 : o = .like
      · subst h1
        simp only [rpNode, if_true]
        rcases likeStep_rel R hR hS rps rps' hr with ⟨e1, e2⟩ | ⟨qs, qs', e1, e2, hq⟩
        · rw [e1, e2]; exact PRel_panic R
        · rw [e1, e2]
          simp only []
          rw [likeParam_rel R hR _ _ qs qs' hq]
          exact withParams_rel R _ _ _ (listRel_append R _ _ _ _ hl hq)
      · by_cases h2 : o = .range
        · subst h2
          simp only [rpNode, h1, if_false, if_true]
          rw [rangParam_rel R hR _ _ rps rps' hr]
          exact withParams_rel R _ _ _ (listRel_append R _ _ _ _ hl hr)
        · simp only [rpNode, h1, h2, if_false]
          cases pgFns o with
          | none => exact PRel_err R
          | some fn => exact withParams_rel R _ _ _ (listRel_append R _ _ _ _ hl hr)

end Rel2


/-! ## 8. `renderParam`: leaves, fields, lists, bounds -/

theorem rpNode_leaf (o : Op) (ho : (o = .literal || o = .wild || o = .regexp) = true) (x y : Out (Bytes × List Prim)) :
    rpNode o true true x y = rpNode .literal true true x y := by
  have : o = .literal ∨ o = .wild ∨ o = .regexp := by simpa [or_assoc] using ho
  rcases this with rfl | rfl | rfl
  · rfl
  · cases x with
    | err => rfl
    | panic => rfl
    | ok v =>
      obtain ⟨s, ps⟩ := v
      cases y with
      | err => rfl
      | panic => rfl
      | ok w => obtain ⟨t, qs⟩ := w; rfl
  · cases x with
    | err => rfl
    | panic => rfl
    | ok v =>
      obtain ⟨s, ps⟩ := v
      cases y with
      | err => rfl
      | panic => rfl
      | ok w => obtain ⟨t, qs⟩ := w; rfl

theorem sp_termPrim (q : Prim) (ht : termPrim q = true) : serializeParams pgFns (.prim q) = .ok (b "?", [q]) :=
  sp_prim_val _ q (by intro s h; subst h; simp [termPrim] at ht)

theorem renderParam_pd (l : Node) (o : Op) (r : Node) (p p' : F64) (d d' : Int) :
    renderParam pgFns (.mk l o r p d) = renderParam pgFns (.mk l o r p' d') := by rw [renderParam_eq, renderParam_eq]

theorem retypeVal_term (q : Prim) (ht : termPrim q = true) : termPrim (retypeVal q) = true := by
  cases q with
  | flt f => simp only [retypeVal]; cases floatAsInt f <;> rfl
  | _ => exact ht

theorem toInt_term (f : F64) : termPrim (toIntIfNecessary f) = true := by
  unfold toIntIfNecessary
  simp only []
  split <;> rfl

theorem retypeBoundVal_term (q : Prim) (ht : termPrim q = true) : termPrim (retypeBoundVal q) = true := by
  cases q with
  | int i => exact toInt_term _
  | flt f => exact toInt_term _
  | _ => exact ht

/-- the decoded form of a term: a leaf over `retypeVal` of its value -/
theorem retypePrim_form (q : Prim) (ht : termPrim q = true) :
    ∃ o', (o' = .literal || o' = .wild || o' = .regexp) = true ∧
      retypePrim q = .mk (.prim (retypeVal q)) o' .nil F64.one 1 := by
  cases q with
  | str s =>
    obtain ⟨o', ho', hf⟩ := literalToExpr_str_form s
    exact ⟨o', ho', by simp only [retypePrim, hf, retypeVal]⟩
  | int i => exact ⟨.literal, rfl, rfl⟩
  | flt f =>
    refine ⟨.literal, rfl, ?_⟩
    simp only [retypePrim, retypeVal]
    cases floatAsInt f <;> rfl
  | _ => simp [termPrim] at ht

/-- the decoded form of a scalar range bound: a leaf over `retypeBoundVal` of its value -/
theorem retypeBound_form (q : Prim) (o : Op) (p : F64) (d : Int) (ht : termPrim q = true) :
    ∃ o', (o' = .literal || o' = .wild || o' = .regexp) = true ∧
      retypeBound (.mk (.prim q) o .nil p d) = .mk (.prim (retypeBoundVal q)) o' .nil F64.one 1 := by
  cases q with
  | str s =>
    obtain ⟨o', ho', hf⟩ := literalToExpr_str_form s
    exact ⟨o', ho', by simp only [retypeBound, hf, retypeBoundVal]⟩
  | int i => exact ⟨.literal, rfl, rfl⟩
  | flt f => exact ⟨.literal, rfl, rfl⟩
  | _ => simp [termPrim] at ht

theorem starLeft_prim (q : Prim) (o : Op) (r : Node) (p : F64) (d : Int) :
    starLeft (.mk (.prim q) o r p d) = (match strOf q with | some s => s == b "*" | none => false) := by
  cases q <;> rfl

section Rel3
variable (R : Prim → Prim → Bool) (hR : ∀ p p', R p p' = true → strOf p' = strOf p ∧ isNum p' = isNum p)
  (hS : ∀ s, R (.str s) (.str s) = true)
  (hV : ∀ q, termPrim q = true → R q (retypeVal q) = true)
  (hB : ∀ q, termPrim q = true → R q (retypeBoundVal q) = true)

theorem listRel_refl (h : ∀ p, R p p = true) : ∀ ps : List Prim, listRel R ps ps = true
  | [] => rfl
  | p :: ps => by simp only [listRel, h p, listRel_refl h ps, Bool.and_self]

theorem PRel_refl (h : ∀ p, R p p = true) (x : Out (Bytes × List Prim)) : PRel R x x := by
  cases x with
  | err => exact PRel_err R
  | panic => exact PRel_panic R
  | ok v => obtain ⟨s, ps⟩ := v; exact PRel_ok R s ps ps (listRel_refl R h ps)

include hR hS

/-- two leaves over related raw term values render related parameterized SQL, whatever their leaf operators -/
theorem rp_leaf_rel (q q' : Prim) (o o' : Op) (p p' : F64) (d d' : Int)
    (ho : (o = .literal || o = .wild || o = .regexp) = true) (ho' : (o' = .literal || o' = .wild || o' = .regexp) = true)
    (ht : termPrim q = true) (ht' : termPrim q' = true) (hq : R q q' = true) :
    PRel R (renderParam pgFns (.mk (.prim q) o .nil p d)) (renderParam pgFns (.mk (.prim q') o' .nil p' d')) := by
  rw [renderParam_eq, renderParam_eq, isSimple_termPrim q ht, isSimple_termPrim q' ht', isSimple_nil,
    rpNode_leaf o ho, rpNode_leaf o' ho', sp_termPrim q ht, sp_termPrim q' ht']
  exact rpNode_rel R hR hS _ _ _ _ _ _ _ (PRel_ok R _ _ _ (by simp only [listRel, hq, Bool.and_self]))
    (by rw [sp_nil]; exact PRel_ok R _ _ _ rfl)


include hV

theorem termLeaf_rp (e : Expr) (ht : termLeaf e = true) :
    PRel R (renderParam pgFns e) (renderParam pgFns (retype e)) := by
  obtain ⟨q, o, p, d, rfl, ho, htq⟩ := termLeaf_prim e ht
  obtain ⟨o', ho', hf⟩ := retypePrim_form q htq
  rw [retype_leaf _ _ _ _ _ ho, hf]
  exact rp_leaf_rel R hR hS _ _ _ _ _ _ _ _ ho ho' htq (retypeVal_term q htq) (hV q htq)

omit hV in
theorem left_rp (a : Expr) (o : Op) (hf : (semShapeT a || isColField (.expr a)) = true)
    (hcol : (!operatesOnColumn o || isColField (.expr a) || !isStringlike (retypeNode (.expr a))) = true)
    (ho : isColField (.expr a) = true → operatesOnColumn o = true)
    (ih : semShapeT a = true → PRel R (renderParam pgFns a) (renderParam pgFns (retype a))) :
    PRel R (serializeParams pgFns (.expr a))
      (serializeParams pgFns (if isStringlike (retypeNode (.expr a)) && operatesOnColumn o
        then wrapInColumn (retypeNode (.expr a)) else retypeNode (.expr a))) ∧
    isSimple (if isStringlike (retypeNode (.expr a)) && operatesOnColumn o then wrapInColumn (retypeNode (.expr a))
        else retypeNode (.expr a)) = isSimple (.expr a) := by
  rcases left_cases a o hf hcol ho with ⟨hs, h⟩ | ⟨s, p, d, rfl, h⟩
  · rw [h, sp_expr, sp_expr, isSimple_retype]
    exact ⟨ih hs, rfl⟩
  · rw [h, sp_expr, sp_expr, renderParam_pd _ _ _ F64.one p 1 d]
    refine ⟨?_, rfl⟩
    -- a wrapped Column has no parameters
    rw [renderParam_eq, sp_col, sp_nil]
    cases serializeCol s with
    | err => exact PRel_err R
    | panic => exact PRel_panic R
    | ok t =>
      exact rpNode_rel R hR hS _ _ _ _ _ _ _ (PRel_ok R _ _ _ rfl) (PRel_ok R _ _ _ rfl)

theorem spl_rel : ∀ es : ExprList, allTermLit es = true →
    PRelL R (serializeParamsList pgFns es) (serializeParamsList pgFns (retypeList es))
  | .nil, _ => by
    simp only [retypeList]
    rw [spl_nil]
    exact .inr (.inr ⟨[], [], [], rfl, rfl, rfl⟩)
  | .cons e t, ht => by
    simp only [allTermLit, Bool.and_eq_true] at ht
    have h1 := termLeaf_rp R hR hS hV e ht.1.1
    have h2 := spl_rel t ht.2
    simp only [retypeList]
    rw [spl_cons, spl_cons]
    rcases h1 with ⟨e1, e2⟩ | ⟨e1, e2⟩ | ⟨s, ps, ps', e1, e2, hps⟩
    · rw [e1, e2]; exact .inl ⟨rfl, rfl⟩
    · rw [e1, e2]; exact .inr (.inl ⟨rfl, rfl⟩)
    · rw [e1, e2]
      rcases h2 with ⟨f1, f2⟩ | ⟨f1, f2⟩ | ⟨ss, qs, qs', f1, f2, hqs⟩
      · rw [f1, f2]; exact .inl ⟨rfl, rfl⟩
      · rw [f1, f2]; exact .inr (.inl ⟨rfl, rfl⟩)
      · rw [f1, f2]
        exact .inr (.inr ⟨s :: ss, ps ++ qs, ps' ++ qs', rfl, rfl, listRel_append R _ _ _ _ hps hqs⟩)

theorem listExpr_rp (es : ExprList) (p : F64) (d : Int) (ht : allTermLit es = true) :
    PRel R (renderParam pgFns (.mk (.list es) .list .nil p d))
      (renderParam pgFns (retype (.mk (.list es) .list .nil p d))) := by
  rw [retype_listExpr, renderParam_eq, renderParam_eq]
  refine rpNode_rel R hR hS _ _ _ _ _ _ _ ?_ (by rw [sp_nil]; exact PRel_ok R _ _ _ rfl)
  rw [sp_list, sp_list]
  rcases spl_rel R hR hS hV es ht with ⟨f1, f2⟩ | ⟨f1, f2⟩ | ⟨ss, qs, qs', f1, f2, hqs⟩
  · rw [f1, f2]; exact PRel_err R
  · rw [f1, f2]; exact PRel_panic R
  · rw [f1, f2]; exact PRel_ok R _ _ _ hqs

omit hV
include hB

/-- one end of a range boundary (a term) and its decoded form -/
theorem endOut_rel (a : Expr) (ht : termLeaf a = true) :
    PRel R (endOut pgFns (.expr a)) (endOut pgFns (.expr (retypeBound a))) := by
  obtain ⟨q, o, p, d, rfl, ho, htq⟩ := termLeaf_prim a ht
  obtain ⟨o', ho', hf⟩ := retypeBound_form q o p d htq
  rw [hf]
  simp only [endOut, starLeft_prim, (retypeBoundVal_class q).1]
  have key := rp_leaf_rel R hR hS _ _ o o' p F64.one d 1 ho ho' htq (retypeBoundVal_term q htq) (hB q htq)
  cases strOf q with
  | none => simpa using key
  | some s =>
    simp only []
    by_cases hst : (s == b "*") = true
    · rw [if_pos hst, if_pos hst]; exact PRel_ok R starQ [] [] rfl
    · rw [if_neg hst, if_neg hst]; exact key

omit hB hS hR

theorem boundOut_rel (incl : Bool) (x x' y y' : Out (Bytes × List Prim)) (hx : PRel R x x') (hy : PRel R y y') :
    PRel R (boundOut incl x y) (boundOut incl x' y') := by
  rcases hx with ⟨rfl, rfl⟩ | ⟨rfl, rfl⟩ | ⟨smin, ps, ps', rfl, rfl, hps⟩
  · exact PRel_err R
  · exact PRel_panic R
  · rcases hy with ⟨rfl, rfl⟩ | ⟨rfl, rfl⟩ | ⟨smax, qs, qs', rfl, rfl, hqs⟩
    · exact PRel_err R
    · exact PRel_panic R
    · cases incl
      · exact PRel_ok R _ _ _ (listRel_append R _ _ _ _ hps hqs)
      · exact PRel_ok R _ _ _ (listRel_append R _ _ _ _ hps hqs)


theorem printFieldOK_parts (l : Node) (o : Op) (r : Node) (p : F64) (d : Int) (h : printFieldOK (.mk l o r p d) = true) :
    (!operatesOnColumn o || isColField l || !isStringlike (retypeNode l)) = true ∧ printFieldOKNode l = true ∧
      printFieldOKNode r = true := by
  simp only [printFieldOK, Bool.and_eq_true] at h
  exact ⟨h.1.1, h.1.2, h.2⟩

theorem isLiteralExpr_leafop (l : Node) (o : Op) (r : Node) (p : F64) (d : Int)
    (h : isLiteralExpr (.expr (.mk l o r p d)) = true) : (o = .literal || o = .wild || o = .regexp) = true := by
  simp only [isLiteralExpr, Bool.and_eq_true] at h
  exact h.1

include hR hS hB

/-- one end of a range boundary of the parser shape: a term (always, on validated trees), or an untouched non-leaf -/
theorem endOut_shape_rel (a : Expr) (hs : semShapeT a = true)
    (hb : (∀ p, R p p = true) ∨ isLiteralExpr (.expr a) = true) :
    PRel R (endOut pgFns (.expr a)) (endOut pgFns (.expr (retypeBound a))) := by
  obtain ⟨l, o, r, p, d⟩ := a
  by_cases ho : (o = .literal || o = .wild || o = .regexp) = true
  · exact endOut_rel R hR hS hB _ (termLeaf_of_shapeT_leafop _ hs (by simp only [Expr.op, Op.isLeafOp]; exact ho))
  · rcases hb with hb | hb
    · have ho' : (o = .literal || o = .wild || o = .regexp) = false := by simpa using ho
      rw [retypeBound_nonleaf _ _ _ _ _ hs ho']
      exact PRel_refl R hb _
    · exact absurd (isLiteralExpr_leafop _ _ _ _ _ hb) ho

theorem bound_rp (lo hi : Expr) (incl : Bool) (hlo : semShapeT lo = true) (hhi : semShapeT hi = true)
    (hb : (∀ p, R p p = true) ∨ (isLiteralExpr (.expr lo) = true ∧ isLiteralExpr (.expr hi) = true)) :
    PRel R (serializeParams pgFns (.bound (.expr lo) (.expr hi) incl))
      (serializeParams pgFns (retypeNode (.bound (.expr lo) (.expr hi) incl))) := by
  rw [retypeNode_bound, sp_bound', sp_bound']
  exact boundOut_rel R incl _ _ _ _
    (endOut_shape_rel R hR hS hB lo hlo (hb.imp id (·.1))) (endOut_shape_rel R hR hS hB hi hhi (hb.imp id (·.2)))

include hV

/-- the induction for the parameterized renderer, for any relation `R` on parameter values that keeps strings and
    "is a number", relates every term value to its decoded form(s); range bounds are terms (Validate), or `R` is reflexive -/
theorem rp_retype_gen : ∀ e : Expr, semShapeT e = true → printFieldOK e = true →
    ((∀ p, R p p = true) ∨ validateExpr e = true) →
    PRel R (renderParam pgFns e) (renderParam pgFns (retype e))
  | .mk l o r p d, hs, hk, hb => by
    by_cases ho : (o = .literal || o = .wild || o = .regexp) = true
    · exact termLeaf_rp R hR hS hV _ (termLeaf_of_shapeT_leafop _ hs (by simp only [Expr.op, Op.isLeafOp]; exact ho))
    · have ho' : (o = .literal || o = .wild || o = .regexp) = false := by simpa using ho
      obtain ⟨a, rfl, hfa, hoc⟩ := shape_left l o r p d hs ho'
      obtain ⟨hcol, hkl, hkr⟩ := printFieldOK_parts _ _ _ _ _ hk
      simp only [printFieldOKNode] at hkl
      have hbl : (∀ p, R p p = true) ∨ validateExpr a = true :=
        hb.imp id (fun hv => by have := (validate_top _ _ _ _ _ hv).2.1; simpa [validateNode] using this)
      have hL := left_rp R hR hS a o hfa hcol hoc (fun hs' => rp_retype_gen a hs' hkl hbl)
      have hRt : PRel R (serializeParams pgFns r) (serializeParams pgFns (retypeNode r)) ∧
          isSimple (retypeNode r) = isSimple r := by
        rcases shape_right _ o r p d hs ho' with rfl | ⟨c, rfl, hsc⟩ | ⟨es, p', d', rfl, hes⟩ |
          ⟨lo, hi, incl, rfl, hlo, hhi, rfl⟩
        · rw [retypeNode_nil, sp_nil]; exact ⟨PRel_ok R _ _ _ rfl, rfl⟩
        · simp only [printFieldOKNode] at hkr
          have hbc : (∀ p, R p p = true) ∨ validateExpr c = true :=
            hb.imp id (fun hv => by have := (validate_top _ _ _ _ _ hv).2.2; simpa [validateNode] using this)
          rw [retypeNode_expr, sp_expr, sp_expr, isSimple_retype]
          exact ⟨rp_retype_gen c hsc hkr hbc, rfl⟩
        · rw [retypeNode_expr, sp_expr, sp_expr, isSimple_retype]
          exact ⟨listExpr_rp R hR hS hV es p' d' hes, rfl⟩
        · refine ⟨bound_rp R hR hS hB lo hi incl hlo hhi (hb.imp id (fun hv => ?_)), by rw [retypeNode_bound]; rfl⟩
          have hop := (validate_top _ _ _ _ _ hv).1
          simp [validateOp, Expr.op, Expr.left, Expr.right] at hop
          exact ⟨hop.2.1.2, hop.2.2⟩
      rw [retype_node _ _ _ _ _ ho', renderParam_eq, renderParam_eq, hL.2, hRt.2]
      exact rpNode_rel R hR hS _ _ _ _ _ _ _ hL.1 hRt.1

end Rel3


/-! ## 9. `renderParam (retype e)` against `renderParam e` -/

theorem paramRel_class (p p' : Prim) (h : paramRel p p' = true) : strOf p' = strOf p ∧ isNum p' = isNum p :=
  paramRel3_class p p' (by simp only [paramRel3, h, Bool.or_true])

theorem paramRel_str (s : Bytes) : paramRel (.str s) (.str s) = true := by simp [paramRel, retypeVal]
theorem paramRel_val (q : Prim) : paramRel q (retypeVal q) = true := by simp [paramRel]
theorem paramRel_bound (q : Prim) : paramRel q (retypeBoundVal q) = true := by simp [paramRel]
theorem paramRel3_refl (p : Prim) : paramRel3 p p = true := by simp [paramRel3]

/-- the SQL text of a parameterized rendering -/
def sqlOf (x : Out (Bytes × List Prim)) : Out Bytes :=
  match x with
  | .ok (s, _) => .ok s
  | .err => .err
  | .panic => .panic

theorem sqlOf_rel (R : Prim → Prim → Bool) (x y : Out (Bytes × List Prim)) (h : PRel R x y) : sqlOf y = sqlOf x := by
  rcases h with ⟨rfl, rfl⟩ | ⟨rfl, rfl⟩ | ⟨s, ps, ps', rfl, rfl, _⟩ <;> rfl

/-- **Parameterized SQL, full statement.**  For every validated tree of the parser's shape whose column-operator fields
    are wrapped Columns (`printFieldOK`: true of every Parse result), the parameterized rendering of the decoded tree
    fails exactly when the original one does, and otherwise gives the IDENTICAL SQL text with a parameter list of the
    same length that is pointwise `paramRel`-related: each parameter is the decoder's reading (`retypeVal` for a term
    value, `retypeBoundVal` for a range bound) of the original one.  NO numeric exclusion is needed. -/
theorem renderParam_retype_rel (e : Expr) (hs : semShapeT e = true) (hv : validateExpr e = true)
    (hk : printFieldOK e = true) : PRel paramRel (renderParam pgFns e) (renderParam pgFns (retype e)) :=
  rp_retype_gen paramRel paramRel_class paramRel_str (fun q _ => paramRel_val q) (fun q _ => paramRel_bound q)
    e hs hk (.inr hv)

/-- the same without Validate, with the relation weakened by "or unchanged" (a non-leaf range bound is not decoded) -/
theorem renderParam_retype_rel3 (e : Expr) (hs : semShapeT e = true) (hk : printFieldOK e = true) :
    PRel paramRel3 (renderParam pgFns e) (renderParam pgFns (retype e)) :=
  rp_retype_gen paramRel3 paramRel3_class (fun s => paramRel3_refl _)
    (fun q _ => by simp only [paramRel3, paramRel_val, Bool.or_true])
    (fun q _ => by simp only [paramRel3, paramRel_bound, Bool.or_true]) e hs hk (.inl paramRel3_refl)

/-- **Parameterized SQL: the text is identical** (Validate not needed) -/
theorem renderParam_retype (e : Expr) (hs : semShapeT e = true) (hk : printFieldOK e = true) :
    sqlOf (renderParam pgFns (retype e)) = sqlOf (renderParam pgFns e) :=
  sqlOf_rel _ _ _ (renderParam_retype_rel3 e hs hk)

/-- **Parameterized SQL: the parameter values** — in the form "whenever one side succeeds" -/
theorem renderParam_retype_params (e : Expr) (hs : semShapeT e = true) (hv : validateExpr e = true)
    (hk : printFieldOK e = true) :
    (∀ sql ps, renderParam pgFns e = .ok (sql, ps) →
      ∃ ps', renderParam pgFns (retype e) = .ok (sql, ps') ∧ paramsRel ps ps' = true) ∧
    (∀ sql ps', renderParam pgFns (retype e) = .ok (sql, ps') →
      ∃ ps, renderParam pgFns e = .ok (sql, ps) ∧ paramsRel ps ps' = true) := by
  have h := renderParam_retype_rel e hs hv hk
  constructor
  · intro sql ps h1
    rcases h with ⟨e1, _⟩ | ⟨e1, _⟩ | ⟨s, qs, qs', e1, e2, hq⟩
    · rw [e1] at h1; cases h1
    · rw [e1] at h1; cases h1
    · rw [e1] at h1; cases h1; exact ⟨qs', e2, hq⟩
  · intro sql ps' h1
    rcases h with ⟨_, e2⟩ | ⟨_, e2⟩ | ⟨s, qs, qs', e1, e2, hq⟩
    · rw [e2] at h1; cases h1
    · rw [e2] at h1; cases h1
    · rw [e2] at h1; cases h1; exact ⟨qs, e1, hq⟩


/-! ## 10. what a changed parameter denotes -/

/-- the float64 a numeric parameter denotes -/
def floatOf : Prim → Option F64
  | .int i => some (F64.ofInt i)
  | .flt f => some f
  | _ => none

/-- a float TERM value that comes back as an int (other than -0): the int converts back to exactly that float64 -/
theorem retypeVal_float (f : F64) (i : Int) (h : floatAsInt f = some i) (hz : isNegZero f = false) :
    F64.ofInt i = f := by
  unfold floatAsInt at h
  cases hj : fmtJSON f with
  | none => rw [hj] at h; cases h
  | some t =>
    rw [hj] at h
    have ha : atoi t = some i := h
    have h1 := Laws.fmtLaws.int_text_leaf f t i hj ha hz
    have h2 := Laws.numLaws.parseFloat_fmtJSON f t hj
    have h3 := Laws.numLaws.parseFloat_fmtInt i (atoi_int64 t i ha)
    rw [h1, h2] at h3
    exact (Option.some.inj h3).symm

/-- a range bound that comes back as an int: it is `==` (float64 comparison) to that int -/
theorem toInt_float (f : F64) (j : Int) (h : toIntIfNecessary f = .int j) : F64.eq f (F64.ofInt j) = true := by
  unfold toIntIfNecessary at h
  simp only [] at h
  split at h
  · rename_i he; cases h; exact he
  · cases h

/-- every parameter of the decoded tree denotes the same float64 as the original one (exactly, or `==` for a bound that
    became an int), except that an INT range bound is first rounded to float64 (finding K-json-bigint-bound) and that
    -0 becomes 0 (finding K-negzero).  The INTEGER a float becomes need not be the float's exact value
    (`param_int_not_exact`). -/
theorem paramRel_float (p p' : Prim) (h : paramRel p p' = true) (hz : primNoNegZero p = true) :
    p' = p ∨ ∃ x y, floatOf p = some x ∧ floatOf p' = some y ∧ (y = x ∨ F64.eq x y = true) := by
  simp only [paramRel, Bool.or_eq_true, decide_eq_true_eq] at h
  rcases h with rfl | rfl
  · cases p with
    | flt f =>
      simp only [retypeVal]
      cases hfi : floatAsInt f with
      | none => exact .inl rfl
      | some i =>
        refine .inr ⟨f, F64.ofInt i, rfl, rfl, .inl ?_⟩
        exact retypeVal_float f i hfi (by simpa [primNoNegZero] using hz)
    | _ => exact .inl rfl
  · cases p with
    | int i =>
      simp only [retypeBoundVal]
      cases hti : toIntIfNecessary (F64.ofInt i) with
      | int j => exact .inr ⟨_, _, rfl, rfl, .inr (toInt_float _ j hti)⟩
      | flt g =>
        have : g = F64.ofInt i := by
          unfold toIntIfNecessary at hti; simp only [] at hti; split at hti <;> cases hti; rfl
        exact .inr ⟨_, _, rfl, rfl, .inl this⟩
      | _ => have := (toInt_class (F64.ofInt i)).2; rw [hti] at this; cases this
    | flt f =>
      simp only [retypeBoundVal]
      cases hti : toIntIfNecessary f with
      | int j => exact .inr ⟨_, _, rfl, rfl, .inr (toInt_float _ j hti)⟩
      | flt g =>
        have : g = f := by
          unfold toIntIfNecessary at hti; simp only [] at hti; split at hti <;> cases hti; rfl
        exact .inr ⟨_, _, rfl, rfl, .inl this⟩
      | _ => have := (toInt_class f).2; rw [hti] at this; cases this
    | _ => exact .inl rfl

/-! ## 11. necessity of the exclusions (kernel-evaluated on the model) -/

def fltLeaf (f : F64) : Expr := lit (.prim (.flt f))
def intLeaf (i : Int) : Expr := lit (.prim (.int i))

/-- finding K-json-float-exp, inline SQL: `a:1000000.0` is `"a" = 1e+06` before and `"a" = 1000000` after; the
    parameterized text is `"a" = ?` on both sides, the parameter changes from the float to the int -/
theorem render_needs_floatExp :
    semShapeT cexPrint = true ∧ validateExpr cexPrint = true ∧ printFieldOK cexPrint = true ∧
    noNegZeroLeaf cexPrint = true ∧ noBigIntBound cexPrint = true ∧ printNumOK cexPrint = false ∧
    render pgFns cexPrint = .ok (b "\"a\" = 1e+06") ∧ render pgFns (retype cexPrint) = .ok (b "\"a\" = 1000000") ∧
    renderParam pgFns cexPrint = .ok (b "\"a\" = ?", [.flt (F64.ofInt 1000000)]) ∧
    renderParam pgFns (retype cexPrint) = .ok (b "\"a\" = ?", [.int 1000000]) := by decide +kernel

/-- finding K-negzero, inline SQL: `a:-0.0` is `"a" = -0` before and `"a" = 0` after -/
theorem render_needs_noNegZero :
    semShapeT cexNegZero = true ∧ validateExpr cexNegZero = true ∧ printFieldOK cexNegZero = true ∧
    printNumOK cexNegZero = false ∧
    render pgFns cexNegZero = .ok (b "\"a\" = -0") ∧ render pgFns (retype cexNegZero) = .ok (b "\"a\" = 0") := by
  decide +kernel

/-- finding K-json-bigint-bound, inline SQL: `a:[1 TO 9007199254740993]` ends in `…993` before and `…992` after; in
    parameterized mode the text agrees and the PARAMETER is the rounded one -/
theorem render_needs_noBigIntBound :
    semShapeT cexBigBound = true ∧ validateExpr cexBigBound = true ∧ printFieldOK cexBigBound = true ∧
    printNumOK cexBigBound = false ∧
    render pgFns cexBigBound = .ok (b "\"a\" >= 1 AND \"a\" <= 9007199254740993") ∧
    render pgFns (retype cexBigBound) = .ok (b "\"a\" >= 1 AND \"a\" <= 9007199254740992") ∧
    renderParam pgFns cexBigBound = .ok (b "\"a\" >= ? AND \"a\" <= ?", [.int 1, .int 9007199254740993]) ∧
    renderParam pgFns (retype cexBigBound) = .ok (b "\"a\" >= ? AND \"a\" <= ?", [.int 1, .int 9007199254740992]) := by
  decide +kernel

/-- finding K-json-bigfloat-bound, inline SQL: `a:[1 TO 4611686018427387904.0]` takes `rang`'s float branch before
    (`%.2f`) and its int branch after -/
theorem render_needs_noBigFloatBound :
    semShapeT cexBigFloatBound = true ∧ validateExpr cexBigFloatBound = true ∧ printNumOK cexBigFloatBound = false ∧
    render pgFns cexBigFloatBound = .ok (b "\"a\" >= 1.00 AND \"a\" <= 4611686018427387904.00") ∧
    render pgFns (retype cexBigFloatBound) = .ok (b "\"a\" >= 1 AND \"a\" <= 4611686018427387904") := by
  decide +kernel

/-- `a:[1000000.0 TO 5]` -/
def cexBoundExp : Expr :=
  .mk colA .range (.bound (.expr (fltLeaf (F64.ofInt 1000000))) (.expr (intLeaf 5)) true) F64.one 1

/-- K-json-float-exp on a range bound: the float bound `1e+06` makes `rang` re-parse both ends as floats and print
    them with `%.2f`; after decoding both are ints -/
theorem render_needs_boundExp :
    semShapeT cexBoundExp = true ∧ validateExpr cexBoundExp = true ∧ noNegZeroLeaf cexBoundExp = true ∧
    noBigIntBound cexBoundExp = true ∧ printNumOK cexBoundExp = false ∧
    render pgFns cexBoundExp = .ok (b "\"a\" >= 1000000.00 AND \"a\" <= 5.00") ∧
    render pgFns (retype cexBoundExp) = .ok (b "\"a\" >= 1000000 AND \"a\" <= 5") := by decide +kernel

/-- `a:[* TO 1000000.0]` -/
def cexStarExp : Expr :=
  .mk colA .range (.bound (.expr (mkLeaf (.prim (.str (b "*"))) .wild)) (.expr (fltLeaf (F64.ofInt 1000000))) true) F64.one 1

/-- K-json-float-exp next to an unbounded end: before decoding, `rang` cannot parse `1e+06` as an int, parses it as
    a float (since fix F12 `toFloats` accepts the open end `'*'`) and prints `%.2f`; after decoding the bound is the
    int 1000000 and `rang` prints `%d`.  (Before fix F12 the first text was `"a" BETWEEN '*' AND 1e+06`.) -/
theorem render_needs_starExp :
    semShapeT cexStarExp = true ∧ validateExpr cexStarExp = true ∧ printNumOK cexStarExp = false ∧
    render pgFns cexStarExp = .ok (b "\"a\" <= 1000000.00") ∧
    render pgFns (retype cexStarExp) = .ok (b "\"a\" <= 1000000") ∧
    sqlOf (renderParam pgFns cexStarExp) = .ok (b "\"a\" <= ?") ∧
    sqlOf (renderParam pgFns (retype cexStarExp)) = .ok (b "\"a\" <= ?") := by decide +kernel

/-- `a:[-0.0 TO 2.5]` and `a:[-0.0 TO 5]` -/
def cexNegZeroBound (hi : Expr) : Expr :=
  .mk colA .range (.bound (.expr (fltLeaf F64.negZero)) (.expr hi) true) F64.one 1

/-- K-negzero on a range bound: `-0.00` before, `0.00` after, when the other end is a float … -/
theorem render_needs_noNegZeroBound :
    semShapeT (cexNegZeroBound (fltLeaf ⟨0x4004000000000000⟩)) = true ∧
    validateExpr (cexNegZeroBound (fltLeaf ⟨0x4004000000000000⟩)) = true ∧
    printNumOK (cexNegZeroBound (fltLeaf ⟨0x4004000000000000⟩)) = false ∧
    render pgFns (cexNegZeroBound (fltLeaf ⟨0x4004000000000000⟩)) = .ok (b "\"a\" >= -0.00 AND \"a\" <= 2.50") ∧
    render pgFns (retype (cexNegZeroBound (fltLeaf ⟨0x4004000000000000⟩))) = .ok (b "\"a\" >= 0.00 AND \"a\" <= 2.50") := by
  decide +kernel

/-- … but NOT when the other end is an int: `rang` re-parses `-0` with Atoi and prints `0` on both sides.  So
    `printNumOK` is sufficient, each of its clauses is necessary, but it is not an exact characterisation. -/
theorem printNumOK_not_exact :
    printNumOK (cexNegZeroBound (intLeaf 5)) = false ∧
    render pgFns (cexNegZeroBound (intLeaf 5)) = .ok (b "\"a\" >= 0 AND \"a\" <= 5") ∧
    render pgFns (retype (cexNegZeroBound (intLeaf 5))) = .ok (b "\"a\" >= 0 AND \"a\" <= 5") := by decide +kernel

/-- `'a' = 5` with a bare string on the left of a column operator (the parser always wraps it) -/
def cexStrField : Expr := .mk (.expr (lit (.prim (.str (b "a"))))) .equals (.expr (intLeaf 5)) F64.one 1

/-- the field clause cannot be dropped for parser-SHAPED trees (Parse itself never builds this tree): the decoder
    re-wraps the string as a Column, which changes both renderings -/
theorem render_needs_fieldOK :
    semShapeT cexStrField = true ∧ validateExpr cexStrField = true ∧ printNumOK cexStrField = true ∧
    printFieldOK cexStrField = false ∧
    render pgFns cexStrField = .ok (b "'a' = 5") ∧ render pgFns (retype cexStrField) = .ok (b "\"a\" = 5") ∧
    renderParam pgFns cexStrField = .ok (b "? = ?", [.str (b "a"), .int 5]) ∧
    renderParam pgFns (retype cexStrField) = .ok (b "\"a\" = ?", [.int 5]) := by decide +kernel

/-- a bare Column leaf outside a field position (not of the parser shape) -/
def cexBareCol : Expr := .mk colA .and (.expr (lit (.prim (.str (b "b"))))) F64.one 1

/-- `semShapeT` cannot be dropped: a Column leaf that is not the left operand of a column operator is decoded as a
    string (`"a"` becomes `'a'`), although Validate and `printStable` hold -/
theorem render_needs_shape :
    semShapeT cexBareCol = false ∧ validateExpr cexBareCol = true ∧ printStable cexBareCol = true ∧
    render pgFns cexBareCol = .ok (b "\"a\" AND 'b'") ∧ render pgFns (retype cexBareCol) = .ok (b "'a' AND 'b'") ∧
    sqlOf (renderParam pgFns cexBareCol) = .ok (b "\"a\" AND ?") ∧
    sqlOf (renderParam pgFns (retype cexBareCol)) = .ok (b "? AND ?") := by decide +kernel

/-- `a:4611686018427387904.0` (the float 2^62) -/
def cexBigFloatLeaf : Expr := .mk colA .equals (.expr (fltLeaf ⟨0x43D0000000000000⟩)) F64.one 1

/-- a float term ≥ 2^53: encoding/json writes its shortest digits `4611686018427388000`, Atoi reads them as an int, so
    the PARAMETER of the decoded tree is the int 4611686018427388000 — which converts back to the same float64
    (`retypeVal_float`) but is not the float's exact value 4611686018427387904.  (Inline, the texts differ anyway:
    K-json-float-exp.) -/
theorem param_int_not_exact :
    semShapeT cexBigFloatLeaf = true ∧ validateExpr cexBigFloatLeaf = true ∧ printFieldOK cexBigFloatLeaf = true ∧
    noNegZeroLeaf cexBigFloatLeaf = true ∧ noBigIntBound cexBigFloatLeaf = true ∧
    renderParam pgFns cexBigFloatLeaf = .ok (b "\"a\" = ?", [.flt ⟨0x43D0000000000000⟩]) ∧
    renderParam pgFns (retype cexBigFloatLeaf) = .ok (b "\"a\" = ?", [.int 4611686018427388000]) ∧
    (⟨0x43D0000000000000⟩ : F64).toInt = 4611686018427387904 ∧
    render pgFns cexBigFloatLeaf = .ok (b "\"a\" = 4.611686018427388e+18") ∧
    render pgFns (retype cexBigFloatLeaf) = .ok (b "\"a\" = 4611686018427388000") := by decide +kernel

/-! ### kind changes that do NOT alter the SQL -/

/-- a quoted string with `*` under EQUALS comes back as a Wild leaf under EQUALS: same SQL, both modes -/
theorem quoted_star_same_sql :
    (retype eQStar).right = .expr (mkLeaf (.prim (.str (b "b*"))) .wild) ∧
    render pgFns eQStar = .ok (b "\"a\" = 'b*'") ∧ render pgFns (retype eQStar) = .ok (b "\"a\" = 'b*'") ∧
    renderParam pgFns eQStar = .ok (b "\"a\" = ?", [.str (b "b*")]) ∧
    renderParam pgFns (retype eQStar) = .ok (b "\"a\" = ?", [.str (b "b*")]) :=
  ⟨by rfl, by decide +kernel, by decide +kernel, by decide +kernel, by decide +kernel⟩

/-- a quoted `/b/` under EQUALS comes back as a Regexp leaf under EQUALS: same SQL, both modes -/
theorem quoted_slash_same_sql :
    (retype eQSlash).right = .expr (mkLeaf (.prim (.str (b "/b/"))) .regexp) ∧
    render pgFns eQSlash = .ok (b "\"a\" = '/b/'") ∧ render pgFns (retype eQSlash) = .ok (b "\"a\" = '/b/'") ∧
    renderParam pgFns eQSlash = .ok (b "\"a\" = ?", [.str (b "/b/")]) ∧
    renderParam pgFns (retype eQSlash) = .ok (b "\"a\" = ?", [.str (b "/b/")]) :=
  ⟨by rfl, by decide +kernel, by decide +kernel, by decide +kernel, by decide +kernel⟩

/-- `a:[1.0 TO 5)`: a float bound below 1e6 becoming an int does not change `rang`'s branch (the text `1` already
    parses with Atoi) -/
def exFloatBound : Expr :=
  .mk colA .range (.bound (.expr (fltLeaf (F64.ofInt 1))) (.expr (intLeaf 5)) false) F64.one 1

theorem float_bound_same_sql :
    printStable exFloatBound = true ∧ kindStable exFloatBound = false ∧
    render pgFns exFloatBound = .ok (b "\"a\" > 1 AND \"a\" < 5") ∧
    render pgFns (retype exFloatBound) = .ok (b "\"a\" > 1 AND \"a\" < 5") ∧
    renderParam pgFns exFloatBound = .ok (b "\"a\" > ? AND \"a\" < ?", [.flt (F64.ofInt 1), .int 5]) ∧
    renderParam pgFns (retype exFloatBound) = .ok (b "\"a\" > ? AND \"a\" < ?", [.int 1, .int 5]) := by decide +kernel

/-! ## 12. over queries -/

/-- inline SQL over queries: only the numeric clause remains -/
theorem query_render (env : Env) (s df : Bytes) (e : Expr) (h : parseQuery env s df = .ok e)
    (hn : printNumOK e = true) : render pgFns (retype e) = render pgFns e :=
  render_retype e (parse_shape env s df e h).1 (parse_printStable env s df e h hn)

/-- parameterized SQL over queries: NO exclusion -/
theorem query_renderParam (env : Env) (s df : Bytes) (e : Expr) (h : parseQuery env s df = .ok e) :
    PRel paramRel (renderParam pgFns e) (renderParam pgFns (retype e)) :=
  renderParam_retype_rel e (parse_shape env s df e h).1 (parse_shape env s df e h).2 (parse_printFieldOK env s df e h)

/-- **C12 over queries, with the SQL clause.**  For every valid-UTF-8 query (and default field) that `Parse` accepts,
    with result `e` (within encoding/json's nesting limit) whose encoding is `j`: decoding `j` succeeds with
    `e' = retype e`; `e'` validates; it re-encodes to the identical bytes outside K-negzero / K-json-bigint-bound;
    prints identically outside K-json-float-exp (`printNumOK`); renders the identical INLINE PostgreSQL text under
    the same `printNumOK`; renders the identical PARAMETERIZED PostgreSQL text with NO exclusion, the parameter lists
    being pointwise `paramRel`-related (same failure otherwise); and is deep-equal to `e` when the kinds are stable. -/
theorem query_roundtrip_sql (ip : Nat → Bool) (env : Env)
    (s df : Bytes) (hs : validUtf8 s = true) (hdf : validUtf8 df = true)
    (e : Expr) (h : parseQuery env s df = .ok e) (hdp : depthOK e = true) (j : Bytes) (hm : marshalExpr e = .ok j) :
    ∃ e', unmarshalTop j = .ok e' ∧ e' = retype e ∧ validateExpr e' = true ∧
      (noNegZeroLeaf e = true → noBigIntBound e = true → marshalExpr e' = .ok j) ∧
      (printNumOK e = true → strE ip false e' = strE ip false e) ∧
      (printNumOK e = true → render pgFns e' = render pgFns e) ∧
      sqlOf (renderParam pgFns e') = sqlOf (renderParam pgFns e) ∧
      PRel paramRel (renderParam pgFns e) (renderParam pgFns e') ∧
      (kindStable e = true → e' = e) ∧ (env.cls.slashNotAlnum → leavesStable e = true → e' = e) := by
  obtain ⟨e', h1, rfl, h3, h4, h5, h6, h7⟩ := Laws.query_roundtrip ip env s df hs hdf e h hdp j hm
  have hp := query_renderParam env s df e h
  exact ⟨_, h1, rfl, h3, h4, h5, query_render env s df e h, sqlOf_rel _ _ _ hp, hp, h6, h7⟩

deriving instance DecidableEq for Step
deriving instance DecidableEq for Node, Expr, ExprList

/-- `a:1000000.0` through the whole of `lucene.Parse` -/
theorem parse_qExp : parseQuery asciiEnv (b "a:1000000.0") [] = .ok cexPrint := by
  refine parse_three asciiEnv (b "a:1000000.0") ⟨.literal, b "a"⟩ ⟨.literal, b "1000000.0"⟩ cexPrint ?_ rfl rfl
    (by decide +kernel)
  exact tokensOf_fv asciiEnv (b "a") (b "1000000.0") _ (by decide) (by decide) (by decide +kernel) (by decide +kernel)

/-- the inline-SQL clause of C12 is FALSE for the query `a:1000000.0` (class K-json-float-exp) -/
theorem query_inline_sql_not_preserved :
    parseQuery asciiEnv (b "a:1000000.0") [] = .ok cexPrint ∧
    render pgFns (retype cexPrint) ≠ render pgFns cexPrint :=
  ⟨parse_qExp, by decide +kernel⟩

/-! ## 13. non-vacuity -/

/-- the hypotheses of `render_retype` / `renderParam_retype_rel` hold of the larger tree
    `(a:[1 TO 5] AND b:(x OR y)) OR NOT c:z~2^3` … -/
example : semShapeT eBig = true ∧ validateExpr eBig = true ∧ printStable eBig = true ∧ printFieldOK eBig = true :=
  by decide +kernel

example : render pgFns (retype eBig) = render pgFns eBig :=
  render_retype eBig (by decide +kernel) (by decide +kernel)

/-- … and of trees that the decoder really changes: `a:5.0` (the float leaf comes back as the int 5) -/
example : kindStable eFlt = false ∧ semShapeT eFlt = true ∧ validateExpr eFlt = true ∧ printStable eFlt = true ∧
    render pgFns eFlt = .ok (b "\"a\" = 5") ∧
    renderParam pgFns eFlt = .ok (b "\"a\" = ?", [.flt (F64.ofInt 5)]) ∧
    renderParam pgFns (retype eFlt) = .ok (b "\"a\" = ?", [.int 5]) ∧
    paramsRel [.flt (F64.ofInt 5)] [.int 5] = true := by decide +kernel

/-- `query_roundtrip_sql` applies to `Parse("a:5.0")` with every hypothesis discharged -/
example (j : Bytes) (hm : marshalExpr eFlt = .ok j) :
    unmarshalTop j = .ok (retype eFlt) ∧ render pgFns (retype eFlt) = render pgFns eFlt ∧
    sqlOf (renderParam pgFns (retype eFlt)) = sqlOf (renderParam pgFns eFlt) := by
  obtain ⟨e', h1, rfl, _, _, _, h6, h7, _⟩ :=
    query_roundtrip_sql (fun _ => true) asciiEnv (b "a:5.0") [] (by decide +kernel) (by decide +kernel) eFlt parse_qFlt
      (by decide +kernel) j hm
  exact ⟨h1, h6 (by decide +kernel), h7⟩

end JsonSql
end GoLucene

section Axioms
open GoLucene.JsonSql
#print axioms render_retype
#print axioms renderParam_retype
#print axioms renderParam_retype_rel
#print axioms renderParam_retype_rel3
#print axioms renderParam_retype_params
#print axioms paramRel_float
#print axioms retypeVal_float
#print axioms query_render
#print axioms query_renderParam
#print axioms query_roundtrip_sql
#print axioms render_needs_floatExp
#print axioms render_needs_noNegZero
#print axioms render_needs_noBigIntBound
#print axioms render_needs_noBigFloatBound
#print axioms render_needs_boundExp
#print axioms render_needs_starExp
#print axioms render_needs_noNegZeroBound
#print axioms printNumOK_not_exact
#print axioms render_needs_fieldOK
#print axioms render_needs_shape
#print axioms parse_qExp
#print axioms param_int_not_exact
#print axioms quoted_star_same_sql
#print axioms quoted_slash_same_sql
#print axioms float_bound_same_sql
#print axioms query_inline_sql_not_preserved
end Axioms
